(** C12 — UCI session: one bestmove per go, readyok, prompt stop, correct position, exact setoption. Two models carry it: Lifecycle.v (every schedule of controller, search and timer goroutines: exactly one result per accepted start, infinite/ponder searches answer only after stop or ponderhit+time-out, a go right after bestmove is accepted, a blocked controller call - stop, isready, go - is released within a bounded number of search steps, output never muted) and UciModel.v (isready answered, position = fold of the rules over the listed moves and kept on error, setoption changes exactly the named field). The ucinewgame-equals-fresh-engine clause is checked by the session monitor only. *)
From Coq Require Import NArith ZArith List Bool Arith Lia.
From FG Require Import Geom Rules FenSpec Oracle FenImpl NotationImpl NotationProofs RulesFacts UciModel UciProofs Lifecycle LifecycleProofs LifecycleProofs2.
Import ListNotations.

Theorem C12_one_result_per_start :
  forall s : state,
         reachable s ->
         (length (results s) <= length (starts s))%nat /\
         NoDup (map fst (results s)) /\
         (forall n : nat, In n (map fst (results s)) -> In n (start_ids (starts s))) /\
         (forall n : nat, finished s n -> count_occ Nat.eq_dec (map fst (results s)) n = 1%nat).
Proof. exact one_result_per_start. Qed.

Theorem C12_result_belongs_to_start :
  forall (s : state) (n : nat) (r : reason),
         reachable s -> In (n, r) (results s) -> exists (c : nat) (l : limits), In (n, c, l) (starts s).
Proof. exact result_belongs_to_start. Qed.

Theorem C12_infinite_not_before_stop :
  forall (s : state) (n : nat) (r : reason) (cs : nat) (l : limits),
         reachable s ->
         In (n, r) (results s) ->
         In (n, cs, l) (starts s) ->
         lPonder l || lInfinite l = true ->
         (exists c : nat,
            r = RStop c /\
            (cs < c <= cidx s)%nat /\
            (nth_error (allcalls s) c = Some CStop \/ nth_error (allcalls s) c = Some CNewGame)) \/
         (exists k c : nat,
            r = RTimer k n (ByPonderHit c) /\
            (cs < c <= cidx s)%nat /\ nth_error (allcalls s) c = Some CPonderHit).
Proof. exact infinite_not_before_stop. Qed.

Theorem C12_go_after_bestmove_accepted :
  forall (s : state) (n : nat) (l : limits),
         reachable s ->
         In n (map fst (results s)) ->
         stopPtr s = n ->
         cpcv s = CStTry ->
         cur_call s = Some (CStart l) ->
         exists s' : state,
           step s TCtl = Some s' /\ cpcv s' = CStAcqInit /\ starts s' = (S n, cidx s, l) :: starts s.
Proof. exact go_after_bestmove_accepted. Qed.

Theorem C12_start_while_running_rejected :
  forall (s : state) (l : limits),
         panicked s = false ->
         cpcv s = CIdle ->
         cur_call s = Some (CStart l) ->
         runFree s = false ->
         let s3 := run_sched s [TCtl; TCtl; TCtl] in
         same_search_state s s3 /\
         cpcv s3 = CIdle /\
         calls s3 = tl (calls s) /\
         cidx s3 = S (cidx s) /\ trace s3 = EStartRejected :: ECall (cidx s) :: trace s.
Proof. exact start_while_running_rejected. Qed.

Theorem C12_no_deadlock :
  forall (a b c : bool) (cs : list call) (s : state),
         well_formed_calls cs = true ->
         reachable_from (init a b c cs) s ->
         exists sched : list tid, controller_done (run_sched s sched) = true.
Proof. exact no_deadlock. Qed.

Theorem C12_blocked_controller_released_bound :
  forall s : state,
         reachable s ->
         InvJ s ->
         ctl_blocked s ->
         exists sched : list tid,
           forallb is_search_tid sched = true /\
           (length sched <= 500 + 115 * length (senders s))%nat /\ cstep (run_sched s sched) <> None.
Proof. exact blocked_controller_released_bound. Qed.

Theorem C12_output_never_muted :
  forall s : state, reachable s -> outErr s = false.
Proof. exact output_never_muted. Qed.

Theorem C12_isready_answered :
  forall (from_uci : pos -> str -> option mv) (st : ustate),
         handle from_uci st
           (b
              (String.String (Ascii.Ascii true false false true false true true false)
                 (String.String (Ascii.Ascii true true false false true true true false)
                    (String.String (Ascii.Ascii false true false false true true true false)
                       (String.String (Ascii.Ascii true false true false false true true false)
                          (String.String (Ascii.Ascii true false false false false true true false)
                             (String.String (Ascii.Ascii false false true false false true true false)
                                (String.String (Ascii.Ascii true false false true true true true false)
                                   String.EmptyString)))))))) = Done st [OReadyOk] Continue.
Proof. exact isready_answered. Qed.

Theorem C12_isready_ws_answered_notation :
  (forall (q : pos) (s : str) (m : mv), from_uci q s = Some m -> In m (legal q)) ->
         forall (st : ustate) (pre post : list N),
         forallb is_ascii_space pre = true ->
         forallb is_ascii_space post = true ->
         handle from_uci st
           (pre ++
            b
              (String.String (Ascii.Ascii true false false true false true true false)
                 (String.String (Ascii.Ascii true true false false true true true false)
                    (String.String (Ascii.Ascii false true false false true true true false)
                       (String.String (Ascii.Ascii true false true false false true true false)
                          (String.String (Ascii.Ascii true false false false false true true false)
                             (String.String (Ascii.Ascii false false true false false true true false)
                                (String.String (Ascii.Ascii true false false true true true true false)
                                   String.EmptyString))))))) ++ post) = Done st [OReadyOk] Continue.
Proof. exact isready_ws_answered_notation. Qed.

Theorem C12_position_is_fold_notation :
  forall (st : ustate) (t0 t1 : str) (rest : list str) (fen : str) (toks : list str) 
           (ms : list mv) (p0 : fpos) (st' : ustate) (out : list out_line) (q : status),
         position_base t1 rest =
         Some
           (fen,
            b
              (String.String (Ascii.Ascii true false true true false true true false)
                 (String.String (Ascii.Ascii true true true true false true true false)
                    (String.String (Ascii.Ascii false true true false true true true false)
                       (String.String (Ascii.Ascii true false true false false true true false)
                          (String.String (Ascii.Ascii true true false false true true true false)
                             String.EmptyString))))) :: toks) ->
         setup fen = Ok p0 ->
         plays from_uci (abs p0) toks ms ->
         (f_hmc p0 + Z.of_nat (length toks) < two63 - 1)%Z ->
         (f_nhm p0 + Z.of_nat (length toks) <= 2000000)%Z ->
         position_cmd from_uci st (t0 :: t1 :: rest) = Done st' out q ->
         abs (u_pos st') = fold_left make ms (abs p0) /\ (u_hist st' <= RebaseAt)%nat /\ u_cfg st' = u_cfg st.
Proof. exact position_is_fold_notation. Qed.

Theorem C12_position_moves_spec_notation :
  forall (st : ustate) (t0 t1 : str) (rest : list str) (fen : str) (toks : list str) 
           (p0 : fpos) (st' : ustate) (out : list out_line) (q : status),
         position_base t1 rest =
         Some
           (fen,
            b
              (String.String (Ascii.Ascii true false true true false true true false)
                 (String.String (Ascii.Ascii true true true true false true true false)
                    (String.String (Ascii.Ascii false true true false true true true false)
                       (String.String (Ascii.Ascii true false true false false true true false)
                          (String.String (Ascii.Ascii true true false false true true true false)
                             String.EmptyString))))) :: toks) ->
         setup fen = Ok p0 ->
         (f_hmc p0 + Z.of_nat (length toks) < two63 - 1)%Z ->
         position_cmd from_uci st (t0 :: t1 :: rest) = Done st' out q ->
         (~ In (OInfo 14) out -> abs (u_pos st') = play from_uci (abs p0) toks) /\
         ((f_nhm p0 + Z.of_nat (length toks) <= 2000000)%Z -> ~ In (OInfo 14) out).
Proof. exact position_moves_spec_notation. Qed.

Theorem C12_position_kept_on_error_notation :
  forall (st : ustate) (toks : list str) (st' : ustate) (out : list out_line) (q : status),
         position_cmd from_uci st toks = Done st' out q -> In (OInfo 10) out \/ In (OInfo 11) out -> st' = st.
Proof. exact position_kept_on_error_notation. Qed.

Theorem C12_setoption_exact :
  forall (st : ustate) (toks : list str) (name value : str) (h : handler),
         setoption_parse toks = Some (name, value) ->
         lookup name option_table = Some h ->
         exists out : list out_line,
           setoption_cmd st toks =
           Done {| u_pos := u_pos st; u_hist := u_hist st; u_cfg := apply_handler h value (u_cfg st) |} out
             Continue.
Proof. exact setoption_exact. Qed.

Theorem C12_apply_handler_field :
  forall (h : handler) (v : str) (c : cfg) (f : field),
         handler_field h = Some f -> apply_handler h v c f = handler_value h v.
Proof. exact apply_handler_field. Qed.

Theorem C12_apply_handler_frame :
  forall (h : handler) (v : str) (c : cfg) (g : field),
         handler_field h <> Some g -> apply_handler h v c g = c g.
Proof. exact apply_handler_frame. Qed.

Theorem C12_setoption_button :
  forall (k : N) (v : str) (c : cfg), apply_handler (HButton k) v c = c.
Proof. exact setoption_button. Qed.

Theorem C12_setoption_unknown :
  forall (st : ustate) (toks : list str) (name value : str),
         setoption_parse toks = Some (name, value) ->
         lookup name option_table = None -> setoption_cmd st toks = Done st [OInfo 2] Continue.
Proof. exact setoption_unknown. Qed.

Theorem C12_setoption_malformed :
  forall (st : ustate) (toks : list str),
         setoption_parse toks = None -> setoption_cmd st toks = Done st [OInfo 1] Continue.
Proof. exact setoption_malformed. Qed.

Theorem C12_setoption_keeps_position :
  forall (st : ustate) (toks : list str) (st' : ustate) (out : list out_line) (q : status),
         setoption_cmd st toks = Done st' out q -> u_pos st' = u_pos st /\ u_hist st' = u_hist st.
Proof. exact setoption_keeps_position. Qed.

Print Assumptions C12_one_result_per_start.
Print Assumptions C12_infinite_not_before_stop.
Print Assumptions C12_go_after_bestmove_accepted.
Print Assumptions C12_no_deadlock.
Print Assumptions C12_blocked_controller_released_bound.
Print Assumptions C12_output_never_muted.
Print Assumptions C12_isready_answered.
Print Assumptions C12_position_is_fold_notation.
Print Assumptions C12_position_kept_on_error_notation.
Print Assumptions C12_setoption_exact.
Print Assumptions C12_apply_handler_frame.

(* tie to the source: the constants the model copies from the Go source equal what the running engine reports
   (gen/Tables_gen.v is regenerated on every run by `verifh dump-tables`) *)
From FG.gen Require Import Tables_gen.
From Coq Require Import ZArith NArith. (* consts *)
From FG Require ConstTie.
From FG Require UciModel.
Theorem C12_model_constants_dumped :
  Z.of_nat UciModel.MaxMoves = c_max_moves /\ Z.of_nat UciModel.RebaseAt = (c_max_moves - c_max_depth - 2)%Z.
Proof. exact ConstTie.ucimodel_constants_dumped. Qed.

(* ---------------------------------------------------------------------------------------------------------
   The clause "after ucinewgame a fixed-depth search gives the same result as on a freshly started engine":
   frame theorems about the memory the engine keeps between two searches (theories/SessionMem.v: the fields of
   the Search struct classified as plumbing / per-search / persistent, NewSearch, NewGame, the initialisation
   part of run(), initialize, ResizeCache, ClearHash, the setoption handlers of UciModel.v; the hash table is
   TTImpl.tt of C11).  The search itself is the parameter [search_fn]; the only hypothesis is that its result
   does not depend on the state of the evaluator object (C15_eval_step_indep).  Not reset by ucinewgame and
   shown not to reach an untimed search: book, hadBookMove, lastSearchResult, the per-search fields.  The
   guard [valid_step] (no "setoption name Hash" while a search is running) cannot be dropped:
   C12_newgame_equals_fresh_refuted_hash_busy (reproduced on the real engine). *)
From FG Require TTImpl SessionMem SessionMemProofs.

Theorem C12_cleared_table_is_fresh :
  forall (mb : Z) (ops : list TTImpl.op),
         forallb SessionMem.keeps_size ops = true ->
         TTImpl.clear (TTImpl.exec_from (TTImpl.new_tt mb) ops) = TTImpl.new_tt mb.
Proof. exact SessionMemProofs.cleared_table_is_fresh. Qed.

Theorem C12_cleared_observationally_fresh :
  forall (mb : Z) (t : TTImpl.tt),
         SessionMem.shape mb t ->
         (forall k : N, TTImpl.probe (TTImpl.clear t) k = TTImpl.probe (TTImpl.new_tt mb) k) /\
         (forall k : N, TTImpl.get_entry (TTImpl.clear t) k = TTImpl.get_entry (TTImpl.new_tt mb) k) /\
         TTImpl.len (TTImpl.clear t) = 0%N /\
         TTImpl.hashfull (TTImpl.clear t) = 0%N /\
         (forall ops : list TTImpl.op, TTImpl.run_from (TTImpl.clear t) ops = TTImpl.run_from (TTImpl.new_tt mb) ops) /\
         (forall ops : list TTImpl.op, TTImpl.exec_from (TTImpl.clear t) ops = TTImpl.exec_from (TTImpl.new_tt mb) ops).
Proof. exact SessionMemProofs.cleared_observationally_fresh. Qed.

Theorem C12_newgame_equals_fresh :
  forall (position result bookT evalst scratch : Type) (startpos : position) (new_eval : evalst)
         (scratch_new scratch_run : scratch) (book_load : option bookT)
         (search_fn : SessionMem.cfgvec -> position -> UciModel.limits -> bool -> option TTImpl.tt -> N ->
                      SessionMem.history -> evalst -> scratch -> SessionMem.outcome result evalst scratch),
         (forall (v : SessionMem.cfgvec) (p : position) (l : UciModel.limits) (x : bool) (tv : option TTImpl.tt)
                 (hf : N) (h : SessionMem.history) (e e' : evalst) (sc : scratch),
            SessionMem.o_res (search_fn v p l x tv hf h e sc) = SessionMem.o_res (search_fn v p l x tv hf h e' sc)) ->
         forall (c0 : UciModel.cfg) (steps quiet : list (SessionMem.step position result evalst scratch))
                (p : position) (l : UciModel.limits) (bk bk' : option result) (c : UciModel.cfg),
         forallb SessionMem.valid_step steps = true ->
         forallb SessionMem.quiet_step quiet = true ->
         SessionMem.untimed_depth l ->
         let s := SessionMem.run_steps startpos scratch_run book_load
                    (SessionMem.boot startpos new_eval scratch_new c0) steps in
         let s' := SessionMem.run_steps startpos scratch_run book_load
                     (SessionMem.newgame_step startpos s) (quiet ++ [SessionMem.StPosition p]) in
         SessionMem.vec_of c = SessionMem.vec_of (SessionMem.s_cfg s') ->
         SessionMem.run_search scratch_run book_load search_fn s' l bk =
         SessionMem.fresh_result startpos new_eval scratch_new scratch_run book_load search_fn c p l bk'.
Proof. exact SessionMemProofs.newgame_equals_fresh. Qed.

Theorem C12_newgame_equals_fresh_depth :
  forall (position result bookT evalst scratch : Type) (startpos : position) (new_eval : evalst)
         (scratch_new scratch_run : scratch) (book_load : option bookT)
         (search_fn : SessionMem.cfgvec -> position -> UciModel.limits -> bool -> option TTImpl.tt -> N ->
                      SessionMem.history -> evalst -> scratch -> SessionMem.outcome result evalst scratch),
         (forall (v : SessionMem.cfgvec) (p : position) (l : UciModel.limits) (x : bool) (tv : option TTImpl.tt)
                 (hf : N) (h : SessionMem.history) (e e' : evalst) (sc : scratch),
            SessionMem.o_res (search_fn v p l x tv hf h e sc) = SessionMem.o_res (search_fn v p l x tv hf h e' sc)) ->
         forall (c0 : UciModel.cfg) (steps : list (SessionMem.step position result evalst scratch))
                (p : position) (d : Z) (bk bk' : option result),
         forallb SessionMem.valid_step steps = true ->
         (0 < d)%Z ->
         let s := SessionMem.run_steps startpos scratch_run book_load
                    (SessionMem.boot startpos new_eval scratch_new c0) steps in
         SessionMem.run_search scratch_run book_load search_fn
           (SessionMem.set_pos (SessionMem.newgame_step startpos s) p) (SessionMem.depth_limits d) bk =
         SessionMem.fresh_result startpos new_eval scratch_new scratch_run book_load search_fn
           (SessionMem.s_cfg s) p (SessionMem.depth_limits d) bk'.
Proof. exact SessionMemProofs.newgame_equals_fresh_depth. Qed.

Theorem C12_fresh_setup_equals_boot :
  forall (position result bookT evalst scratch : Type) (startpos : position) (new_eval : evalst)
         (scratch_new scratch_run : scratch) (book_load : option bookT)
         (search_fn : SessionMem.cfgvec -> position -> UciModel.limits -> bool -> option TTImpl.tt -> N ->
                      SessionMem.history -> evalst -> scratch -> SessionMem.outcome result evalst scratch),
         (forall (v : SessionMem.cfgvec) (p : position) (l : UciModel.limits) (x : bool) (tv : option TTImpl.tt)
                 (hf : N) (h : SessionMem.history) (e e' : evalst) (sc : scratch),
            SessionMem.o_res (search_fn v p l x tv hf h e sc) = SessionMem.o_res (search_fn v p l x tv hf h e' sc)) ->
         forall (c0 : UciModel.cfg) (quiet : list (SessionMem.step position result evalst scratch))
                (p : position) (l : UciModel.limits) (bk bk' : option result),
         forallb SessionMem.quiet_step quiet = true ->
         SessionMem.untimed_depth l ->
         SessionMem.run_search scratch_run book_load search_fn
           (SessionMem.run_steps startpos scratch_run book_load (SessionMem.boot startpos new_eval scratch_new c0)
              (quiet ++ [SessionMem.StPosition p])) l bk =
         SessionMem.fresh_result startpos new_eval scratch_new scratch_run book_load search_fn
           (SessionMem.s_cfg (SessionMem.run_steps startpos scratch_run book_load
                                (SessionMem.boot startpos new_eval scratch_new c0) quiet)) p l bk'.
Proof. exact SessionMemProofs.fresh_setup_equals_boot. Qed.

(* the guard [valid_step] cannot be dropped: Hash set while a search is running leaves Settings.Search.TTSize = 64
   with a table of 65,536 slots; after ucinewgame the toy search of SessionMem.v sees a collision a fresh engine
   with Hash = 64 does not have *)
Theorem C12_newgame_equals_fresh_refuted_hash_busy :
  exists (steps : list (SessionMem.step N SessionMem.toy_result N unit)) (p : N) (d : Z),
    (0 < d)%Z /\
    List.filter (fun st => negb (SessionMem.valid_step st)) steps = [SessionMem.StSetHashBusy [54%N; 52%N]] (* the bytes of "64" *) /\
    let s := SessionMemProofs.toy_runs (SessionMemProofs.toy_boot SessionMem.toy_cfg) steps in
    SessionMem.s_cfg s UciModel.TTSize = 64%Z /\
    option_map TTImpl.cap (SessionMem.s_tt (SessionMem.newgame_step 1%N s)) = Some 65536%N /\
    SessionMemProofs.toy_search_in (SessionMem.set_pos (SessionMem.newgame_step 1%N s) p) (SessionMem.depth_limits d)
    <> SessionMemProofs.toy_fresh (SessionMem.s_cfg s) p (SessionMem.depth_limits d).
Proof. exact SessionMemProofs.newgame_equals_fresh_refuted_hash_busy. Qed.

Print Assumptions C12_cleared_table_is_fresh.
Print Assumptions C12_cleared_observationally_fresh.
Print Assumptions C12_newgame_equals_fresh.
Print Assumptions C12_newgame_equals_fresh_depth.
Print Assumptions C12_fresh_setup_equals_boot.
Print Assumptions C12_newgame_equals_fresh_refuted_hash_busy.

(* tie to the source: the field list of the Search struct, NewSearch, NewGame, the per-search resets of run() in
   order, the fresh generators / PV lists, ucinewgame in uci.go, initialize / ResizeCache / ClearHash / the Hash
   handler, where the persistent fields are assigned, hadBookMove read only under time control, every table access
   of the tree search guarded by Settings.Search.UseTT (gen/Sites_gen.v is regenerated on every run by
   tools/sites.py) *)
From FG.gen Require Import Sites_gen.
Theorem C12_sites_recognised : forallb (fun b => b) sites_C12 = true.
Proof. vm_compute. reflexivity. Qed.
