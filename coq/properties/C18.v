(** C18 — Precomputed bitboard tables equal their geometric definitions.
    The table contents ([FG.gen.Tables_gen]) are dumped from the running engine on
    every run; the lookup functions ([FG.Tables]) transcribe bitboard.go / magic.go;
    the geometry ([FG.Geom]) is defined by coordinates.  Each theorem below is closed
    by [exact] of a lemma proved in TablesCorrect.v / ShiftCorrect.v. *)
From Coq Require Import NArith List.
From FG Require Import Word64 Geom Tables TablesCorrect ShiftCorrect.
From FG.gen Require Import Tables_gen.
Import ListNotations.
Open Scope N_scope.

(* sliding attacks: every square, EVERY occupancy (any N, in particular all 2^64 words) *)
Theorem C18_rook : forall sq occ, sq < 64 -> rook_attacks_impl sq occ = Some (slide rook_dirs sq occ).
Proof. exact rook_attacks_exact. Qed.
Theorem C18_bishop : forall sq occ, sq < 64 -> bishop_attacks_impl sq occ = Some (slide bishop_dirs sq occ).
Proof. exact bishop_attacks_exact. Qed.
Theorem C18_queen : forall sq occ, sq < 64 -> queen_attacks_impl sq occ = Some (slide (bishop_dirs ++ rook_dirs) sq occ).
Proof. exact queen_attacks_exact. Qed.

(* leapers and pawns *)
Theorem C18_king : forall s, s < 64 -> look t_pseudo_king s = Some (bb_of (king_targets s)).
Proof. exact king_attacks_exact. Qed.
Theorem C18_knight : forall s, s < 64 -> look t_pseudo_knight s = Some (bb_of (knight_targets s)).
Proof. exact knight_attacks_exact. Qed.
Theorem C18_pawn_white : forall s, s < 64 -> look t_pawn_attacks_w s = Some (bb_of (pawn_attack_targets 0 s)).
Proof. exact pawn_attacks_white_exact. Qed.
Theorem C18_pawn_black : forall s, s < 64 -> look t_pawn_attacks_b s = Some (bb_of (pawn_attack_targets 1 s)).
Proof. exact pawn_attacks_black_exact. Qed.
Theorem C18_pseudo_bishop : forall s, s < 64 -> look t_pseudo_bishop s = Some (slide bishop_dirs s 0).
Proof. exact pseudo_bishop_exact. Qed.
Theorem C18_pseudo_rook : forall s, s < 64 -> look t_pseudo_rook s = Some (slide rook_dirs s 0).
Proof. exact pseudo_rook_exact. Qed.
Theorem C18_pseudo_queen : forall s, s < 64 -> look t_pseudo_queen s = Some (slide (bishop_dirs ++ rook_dirs) s 0).
Proof. exact pseudo_queen_exact. Qed.

(* rays, between, masks *)
Theorem C18_rays : forall o d t s, nth_error orient_dirs o = Some d -> nth_error t_rays o = Some t ->
  s < 64 -> look t s = Some (ray d s).
Proof. exact rays_exact. Qed.
Theorem C18_intermediate : forall a b, a < 64 -> b < 64 -> look t_intermediate (64 * a + b) = Some (between a b).
Proof. exact intermediate_exact. Qed.
Theorem C18_sqbb : forall s, s < 64 -> look t_sqbb s = Some (N.shiftl 1 s).
Proof. exact sqbb_exact. Qed.
Theorem C18_files_west : forall s, s < 64 -> look t_files_west s = Some (files_west s).
Proof. exact files_west_exact. Qed.
Theorem C18_files_east : forall s, s < 64 -> look t_files_east s = Some (files_east s).
Proof. exact files_east_exact. Qed.
Theorem C18_file_west : forall s, s < 64 -> look t_file_west s = Some (file_west s).
Proof. exact file_west_exact. Qed.
Theorem C18_file_east : forall s, s < 64 -> look t_file_east s = Some (file_east s).
Proof. exact file_east_exact. Qed.
Theorem C18_ranks_north : forall s, s < 64 -> look t_ranks_north s = Some (ranks_north s).
Proof. exact ranks_north_exact. Qed.
Theorem C18_ranks_south : forall s, s < 64 -> look t_ranks_south s = Some (ranks_south s).
Proof. exact ranks_south_exact. Qed.
Theorem C18_neighbour_files : forall s, s < 64 -> look t_neighbour_files s = Some (neighbour_files s).
Proof. exact neighbour_files_exact. Qed.
Theorem C18_passed_white : forall s, s < 64 -> look t_passed_w s = Some (passed_mask 0 s).
Proof. exact passed_white_exact. Qed.
Theorem C18_passed_black : forall s, s < 64 -> look t_passed_b s = Some (passed_mask 1 s).
Proof. exact passed_black_exact. Qed.
Theorem C18_castle_masks :
  tbl t_castle_masks = [bb_of [5;6;7]; bb_of [61;62;63]; bb_of [0;1;2;3]; bb_of [56;57;58;59]].
Proof. exact castle_masks_exact. Qed.
Theorem C18_square_colours : tbl t_squares_bb = [squares_of_colour 0; squares_of_colour 1].
Proof. exact squares_colour_exact. Qed.

(* distances, neighbour squares, castling rights by square *)
Theorem C18_square_distance : forall a b, a < 64 -> b < 64 ->
  looki t_square_distance (64 * a + b) = Some (sq_distance a b).
Proof. exact square_distance_exact. Qed.
Theorem C18_center_distance : forall s, s < 64 -> looki t_center_distance s = Some (center_distance s).
Proof. exact center_distance_exact. Qed.
Theorem C18_sq_to : forall s d, s < 64 -> looki t_sq_to (8 * s + dir_index d) = Some (opt64 (step d s)).
Proof. exact sqto_exact. Qed.
Theorem C18_castling_by_square : forall s, s < 64 -> looki t_castling_rights s = Some (castling_by_square s).
Proof. exact castling_by_square_exact. Qed.

(* shifts: every 64-bit bitboard, every direction, no wrap-around *)
Theorem C18_shift : forall b d t, b < W64 -> t < 64 ->
  (N.testbit (shift_impl b d) t = true <-> exists s, s < 64 /\ N.testbit b s = true /\ step d s = Some t).
Proof. exact shift_exact. Qed.
Theorem C18_shift_bounded : forall b d, b < W64 -> shift_impl b d < W64.
Proof. exact shift_bounded. Qed.

(* non-vacuity: a concrete blocked rook and a concrete shift *)
Example C18_example_rook : rook_attacks_impl 0 (bb_of [3; 16; 40]) = Some (bb_of [1;2;3;8;16]).
Proof. vm_compute. reflexivity. Qed.
Example C18_example_shift : shift_impl (bb_of [7; 15]) DE = 0 /\ shift_impl (bb_of [7; 15]) DNW = bb_of [14; 22].
Proof. vm_compute. split; reflexivity. Qed.

Print Assumptions C18_rook.
Print Assumptions C18_bishop.
Print Assumptions C18_queen.
Print Assumptions C18_intermediate.
Print Assumptions C18_shift.
Print Assumptions C18_sq_to.
