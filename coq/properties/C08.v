(** C08 — all move-generation modes describe the same move set: MovegenImpl transcribes GeneratePseudoLegalMoves, GetNextMove / fillOnDemandMoveList (stages, PV move, killers, the engine's sort values), the evasion-target filter and HasLegalMove. *)
From Coq Require Import NArith ZArith List Bool Permutation.
From FG Require Import Geom Rules FenSpec BitView AttacksImpl MoveEnc MovegenImpl MovegenSpec MovegenProofsMain MovegenMakeLegal MovegenProofsLegal MovegenProofsOD MovegenProofsODChess MovegenProofsEvasion MovegenProofsEvasionComplete MovegenProofsODEvasion MovegenProofsHasLegal MovegenExamples.
Import ListNotations.

Theorem C08_gen_pseudo_modes :
  forall (prom_nq : bool) (p : pos),
         legal_pos p = true ->
         exists nq q : list N,
           gen_pseudo prom_nq (view_of_spec p) 1 false = Some nq /\
           gen_pseudo prom_nq (view_of_spec p) 2 false = Some q /\
           gen_pseudo prom_nq (view_of_spec p) 3 false = Some (nq ++ q) /\
           class_lists prom_nq p (seq 0 9) nq /\ class_lists prom_nq p (seq 9 6) q.
Proof. exact gen_pseudo_modes. Qed.

Theorem C08_modes_partition :
  forall (prom_nq : bool) (p : pos),
         legal_pos p = true ->
         exists nq q al : list N,
           gen_pseudo prom_nq (view_of_spec p) 1 false = Some nq /\
           gen_pseudo prom_nq (view_of_spec p) 2 false = Some q /\
           gen_pseudo prom_nq (view_of_spec p) 3 false = Some al /\ Permutation (nq ++ q) al /\ nq ++ q = al.
Proof. exact modes_partition. Qed.

Theorem C08_mode_lists_spec :
  forall (prom_nq : bool) (p : pos),
         legal_pos p = true ->
         exists nq q : list N,
           gen_pseudo prom_nq (view_of_spec p) 1 false = Some nq /\
           gen_pseudo prom_nq (view_of_spec p) 2 false = Some q /\
           Permutation nq (map code (filter (nonquiet_spec prom_nq p) (pseudo p))) /\
           Permutation q (map code (filter (fun m : mv => negb (nonquiet_spec prom_nq p m)) (pseudo p))) /\
           NoDup nq /\ NoDup q.
Proof. exact mode_lists_spec. Qed.

Theorem C08_sorted_pseudo_exact :
  forall (prom_nq : bool) (p : pos),
         legal_pos p = true ->
         forall val : N -> Z,
         exists l : list N,
           gen_pseudo prom_nq (view_of_spec p) 3 false = Some l /\
           Permutation (go_sort val l) (map code (pseudo p)) /\ NoDup (go_sort val l).
Proof. exact sorted_pseudo_exact. Qed.

Theorem C08_od_sequence :
  forall (env : odenv) (mode : N) (ev : bool),
         (forall (st : odstate) (l : list N), Permutation (e_sort env st l) l) ->
         (forall (k : N) (e : bool),
          e = false \/ e = ev -> ~ In 0 (e_gen env k e (if ev then e_evt env else 0))) ->
         forall st : odstate,
         od_start_ok env st ->
         exists (Ls : list (list N)) (st' : odstate) (out : list N),
           od_drain (S (length out)) env mode ev st = Some (st', out) /\
           Forall2 (choice env ev) (path mode OD_NEW) Ls /\
           (if pv_sel env mode (od_pv st)
            then
             exists out' : list N, out = od_pv st :: out' /\ Permutation out' (remove1 (od_pv st) (concat Ls))
            else Permutation out (concat Ls)).
Proof. exact od_sequence. Qed.

Theorem C08_od_sequence_noevasion :
  forall (env : odenv) (mode : N),
         (forall (st : odstate) (l : list N), Permutation (e_sort env st l) l) ->
         (forall k : N, ~ In 0 (e_gen env k false 0)) ->
         forall st : odstate,
         od_start_ok env st ->
         let batch := od_batch env mode false false in
         let pv := od_pv st in
         exists (st' : odstate) (out : list N),
           od_drain (S (length out)) env mode false st = Some (st', out) /\
           (if pv_sel env mode pv
            then exists out' : list N, out = pv :: out' /\ Permutation out' (remove1 pv batch)
            else Permutation out batch) /\
           (pv_sel env mode pv = true -> In pv batch -> Permutation out batch /\ hd 0 out = pv) /\
           (NoDup batch -> (pv_sel env mode pv = true -> In pv batch) -> NoDup out).
Proof. exact od_sequence_noevasion. Qed.

Theorem C08_od_sequence_evasion :
  forall (env : odenv) (mode : N),
         (forall (st : odstate) (l : list N), Permutation (e_sort env st l) l) ->
         (forall (k : N) (e : bool), ~ In 0 (e_gen env k e (e_evt env))) ->
         (forall k x : N, In x (stage_gen env true true k) -> In x (stage_gen env true false k)) ->
         (forall k : N, NoDup (stage_gen env true true k)) ->
         NoDup (od_batch env mode true false) ->
         forall st : odstate,
         od_start_ok env st ->
         let pv := od_pv st in
         exists (st' : odstate) (out : list N),
           od_drain (S (length out)) env mode true st = Some (st', out) /\
           (forall x : N,
            In x out -> pv_sel env mode pv = true /\ x = pv \/ In x (od_batch env mode true false)) /\
           (forall x : N, In x (od_batch env mode true true) -> In x out) /\
           (pv_sel env mode pv = true -> hd 0 out = pv) /\
           ((pv_sel env mode pv = true -> In pv (od_batch env mode true true)) -> NoDup out).
Proof. exact od_sequence_evasion. Qed.

Theorem C08_od_batch_chess :
  forall (prom_nq : bool) (p : pos),
         legal_pos p = true ->
         forall (key : N) (srt : odstate -> list N -> list N) (mode : N),
         exists l : list N,
           gen_pseudo prom_nq (view_of_spec p) mode false = Some l /\
           Permutation (od_batch (chess_env prom_nq (view_of_spec p) key srt) mode false false) l.
Proof. exact od_batch_chess. Qed.

Theorem C08_od_chess_noevasion :
  forall (prom_nq : bool) (p : pos),
         legal_pos p = true ->
         forall (key : N) (srt : odstate -> list N -> list N),
         (forall (st : odstate) (l : list N), Permutation (srt st l) l) ->
         forall (mode : N) (st : odstate),
         od_start_ok (chess_env prom_nq (view_of_spec p) key srt) st ->
         exists (l : list N) (st' : odstate) (out : list N),
           gen_pseudo prom_nq (view_of_spec p) mode false = Some l /\
           od_drain (S (length out)) (chess_env prom_nq (view_of_spec p) key srt) mode false st =
           Some (st', out) /\
           (if pv_sel (chess_env prom_nq (view_of_spec p) key srt) mode (od_pv st)
            then exists out' : list N, out = od_pv st :: out' /\ Permutation out' (remove1 (od_pv st) l)
            else Permutation out l) /\
           (pv_sel (chess_env prom_nq (view_of_spec p) key srt) mode (od_pv st) = true ->
            In (od_pv st) l -> Permutation out l /\ hd 0 out = od_pv st) /\
           ((pv_sel (chess_env prom_nq (view_of_spec p) key srt) mode (od_pv st) = true -> In (od_pv st) l) ->
            NoDup out).
Proof. exact od_chess_noevasion. Qed.

Theorem C08_od_chess_evasion :
  forall (prom_nq : bool) (p : pos),
         legal_pos p = true ->
         forall (key : N) (srt : odstate -> list N -> list N),
         (forall (st : odstate) (l : list N), Permutation (srt st l) l) ->
         forall (mode : N) (st : odstate),
         od_start_ok (chess_env prom_nq (view_of_spec p) key srt) st ->
         exists (le l : list N) (st' : odstate) (out : list N),
           gen_pseudo prom_nq (view_of_spec p) mode true = Some le /\
           gen_pseudo prom_nq (view_of_spec p) mode false = Some l /\
           od_drain (S (length out)) (chess_env prom_nq (view_of_spec p) key srt) mode true st =
           Some (st', out) /\
           (forall x : N,
            In x out ->
            pv_sel (chess_env prom_nq (view_of_spec p) key srt) mode (od_pv st) = true /\ x = od_pv st \/
            In x l) /\
           (forall x : N, In x le -> In x out) /\
           (pv_sel (chess_env prom_nq (view_of_spec p) key srt) mode (od_pv st) = true -> hd 0 out = od_pv st) /\
           ((pv_sel (chess_env prom_nq (view_of_spec p) key srt) mode (od_pv st) = true -> In (od_pv st) le) ->
            NoDup out).
Proof. exact od_chess_evasion. Qed.

Theorem C08_od_chess_evasion_legal :
  forall (prom_nq : bool) (p : pos),
         legal_pos p = true ->
         forall (key : N) (srt : odstate -> list N -> list N),
         (forall (st : odstate) (l : list N), Permutation (srt st l) l) ->
         forall (legal0 : N -> bool) (st : odstate),
         od_start_ok (chess_env prom_nq (view_of_spec p) key srt) st ->
         in_check p = true ->
         (forall m : mv, In m (pseudo p) -> legal0 (code m) = is_legal p m) ->
         (pv_sel (chess_env prom_nq (view_of_spec p) key srt) 3 (od_pv st) = true ->
          exists le : list N, gen_pseudo prom_nq (view_of_spec p) 3 true = Some le /\ In (od_pv st) le) ->
         exists (st' : odstate) (out : list N),
           od_drain (S (length out)) (chess_env prom_nq (view_of_spec p) key srt) 3 true st = Some (st', out) /\
           NoDup out /\ Permutation (filter legal0 out) (map code (legal p)).
Proof. exact od_chess_evasion_legal. Qed.

Theorem C08_evasion_targets_some :
  forall p : pos, legal_pos p = true -> evasion_targets (view_of_spec p) = Some (evasion_targets_spec p).
Proof. exact evasion_targets_some. Qed.

Theorem C08_gen_pseudo_evasion_filter :
  forall (prom_nq : bool) (p : pos),
         legal_pos p = true ->
         forall mode : N,
         exists l : list N,
           gen_pseudo prom_nq (view_of_spec p) mode false = Some l /\
           gen_pseudo prom_nq (view_of_spec p) mode true = Some (filter (ev_keep p) l).
Proof. exact gen_pseudo_evasion_filter. Qed.

Theorem C08_evasion_sound :
  forall (prom_nq : bool) (p : pos),
         legal_pos p = true ->
         forall mode : N,
         exists le l : list N,
           gen_pseudo prom_nq (view_of_spec p) mode true = Some le /\
           gen_pseudo prom_nq (view_of_spec p) mode false = Some l /\ (forall x : N, In x le -> In x l).
Proof. exact evasion_sound. Qed.

Theorem C08_evasion_nodup :
  forall (prom_nq : bool) (p : pos),
         legal_pos p = true ->
         forall (mode : N) (le : list N), gen_pseudo prom_nq (view_of_spec p) mode true = Some le -> NoDup le.
Proof. exact evasion_nodup. Qed.

Theorem C08_legal_in_check_kept :
  forall p : pos,
         legal_pos p = true ->
         in_check p = true -> forall m : mv, In m (pseudo p) -> is_legal p m = true -> ev_keep_m p m = true.
Proof. exact legal_in_check_kept. Qed.

Theorem C08_evasion_complete :
  forall (prom_nq : bool) (p : pos) (legal0 : N -> bool),
         legal_pos p = true ->
         in_check p = true ->
         (forall m : mv, In m (pseudo p) -> legal0 (code m) = is_legal p m) ->
         exists le l : list N,
           gen_pseudo prom_nq (view_of_spec p) 3 true = Some le /\
           gen_pseudo prom_nq (view_of_spec p) 3 false = Some l /\
           filter legal0 le = filter legal0 l /\ Permutation (filter legal0 le) (map code (legal p)).
Proof. exact evasion_complete. Qed.

Theorem C08_evasion_complete_engine :
  forall (prom_nq : bool) (p : pos),
         legal_pos p = true ->
         in_check p = true ->
         exists le l : list N,
           gen_pseudo prom_nq (view_of_spec p) 3 true = Some le /\
           gen_pseudo prom_nq (view_of_spec p) 3 false = Some l /\
           filter (eng_legal p) le = filter (eng_legal p) l /\
           Permutation (filter (eng_legal p) le) (map code (legal p)).
Proof. exact evasion_complete_engine. Qed.

Theorem C08_has_legal_candidates :
  forall p : pos,
         legal_pos p = true ->
         forall lg : N -> bool, has_legal_move_impl (view_of_spec p) lg = Some (existsb lg (hl_cands p)).
Proof. exact has_legal_candidates. Qed.

Theorem C08_has_legal_move_exact :
  bool ->
         forall p : pos,
         legal_pos p = true ->
         has_legal_move_impl (view_of_spec p) (spec_legal_code p) =
         Some (negb match legal p with
                    | [] => true
                    | _ :: _ => false
                    end).
Proof. exact has_legal_move_exact. Qed.

Theorem C08_normal_probe_legal :
  forall p : pos,
         legal_pos p = true ->
         forall s t pr : N,
         s < 64 ->
         t < 64 ->
         at_ (brd p) s = mk_piece (stm p) PAWN ->
         at_ (brd p) t = 0 \/ at_ (brd p) t <> 0 /\ colour_of (at_ (brd p) t) <> stm p ->
         prom_piece pr ->
         is_legal p {| mfrom := s; mto := t; mtype := NORMAL; mprom := 3 |} =
         is_legal p {| mfrom := s; mto := t; mtype := PROMOTION; mprom := pr |}.
Proof. exact normal_probe_legal. Qed.

Theorem C08_castle_implies_king_step :
  forall p : pos,
         legal_pos p = true ->
         forall m : mv,
         In m (pseudo p) ->
         mtype m = CASTLING ->
         is_legal p m = true ->
         exists kf tr : N,
           kf < 64 /\
           at_ (brd p) kf = mk_piece (stm p) KING /\
           In tr (king_targets kf) /\
           free_or_enemy (brd p) (stm p) tr = true /\
           In {| mfrom := kf; mto := tr; mtype := NORMAL; mprom := 3 |} (pseudo p) /\
           is_legal p {| mfrom := kf; mto := tr; mtype := NORMAL; mprom := 3 |} = true.
Proof. exact castle_implies_king_step. Qed.

Theorem C08_go_sort_perm :
  forall (val : N -> Z) (l : list N), Permutation (go_sort val l) l.
Proof. exact go_sort_perm. Qed.

Theorem C08_go_sort_sorted :
  forall (val : N -> Z) (l : list N), desc_sorted val (go_sort val l).
Proof. exact go_sort_sorted. Qed.

Print Assumptions C08_gen_pseudo_modes.
Print Assumptions C08_modes_partition.
Print Assumptions C08_mode_lists_spec.
Print Assumptions C08_od_sequence.
Print Assumptions C08_od_chess_noevasion.
Print Assumptions C08_od_chess_evasion.
Print Assumptions C08_od_chess_evasion_legal.
Print Assumptions C08_gen_pseudo_evasion_filter.
Print Assumptions C08_evasion_sound.
Print Assumptions C08_evasion_nodup.
Print Assumptions C08_evasion_complete.
Print Assumptions C08_evasion_complete_engine.
Print Assumptions C08_has_legal_move_exact.

(* tie to the source: on-demand generation starts from a reset generator (od_start_ok) in both move loops - the
   generator of the ply is reset once, after IID and before the loop, and never inside it
   (gen/Sites_gen.v is regenerated on every run by tools/sites.py) *)
From FG.gen Require Import Sites_gen.
Theorem C08_sites_recognised : forallb (fun b => b) sites_C08 = true.
Proof. vm_compute. reflexivity. Qed.
