(** C09 — Check, attack and legality predicates agree with the board.
    Model: FG.AttacksImpl transcribes IsAttacked / AttacksTo / HasCheck / GivesCheck / IsLegalMove /
    WasLegalMove over the bitboard view of a position (BitView.view_of_spec) using the lookup
    functions of FG.Tables (tables dumped from the engine, proved equal to geometry in C18).
    Specification: FG.Rules.attacked / attackers / in_check / gives_check / is_legal and the two
    en-passant conventions of FG.Oracle.  option = the Go code never indexes out of range. *)
From Coq Require Import NArith ZArith List Bool String.
From FG Require Import Word64 Geom Tables Rules FenSpec Oracle BitView AttacksImpl AttacksLemmas AttacksProofs AttacksMoves AttacksCheckProofs AttacksLegalProofs AttacksExamples.
Import ListNotations.
Open Scope N_scope.

Theorem C09_is_attacked_exact :
  forall (p : pos) (s c : N),
         legal_pos p = true ->
         s < 64 -> c < 2 -> is_attacked_impl (view_of_spec p) s c = Some (is_attacked_spec p s c).
Proof. exact is_attacked_exact. Qed.

Theorem C09_attacks_to_exact :
  forall (p : pos) (s c : N),
         legal_pos p = true ->
         s < 64 -> c < 2 -> attacks_to_impl (view_of_spec p) s c = Some (attacks_to_spec p s c).
Proof. exact attacks_to_exact. Qed.

Theorem C09_has_check_exact :
  forall p : pos, legal_pos p = true -> has_check_impl (view_of_spec p) = Some (in_check p).
Proof. exact has_check_exact. Qed.

Theorem C09_gives_check_exact :
  forall (p : pos) (m : mv),
         legal_pos p = true ->
         In m (legal p) -> gives_check_impl (view_of_spec p) (code m) = Some (gives_check p m).
Proof. exact gives_check_exact. Qed.

Theorem C09_gives_check_exact_pseudo :
  forall (p : pos) (m : mv),
         legal_pos p = true ->
         In m (pseudo p) ->
         (king_move p m -> is_legal p m = true) ->
         gives_check_impl (view_of_spec p) (code m) = Some (gives_check p m).
Proof. exact gives_check_exact_pseudo. Qed.

Theorem C09_legal_pre_post_agree :
  forall (p : pos) (m : mv),
         legal_pos p = true ->
         In m (pseudo p) ->
         is_legal_impl (view_of_spec p) (view_of_spec (make p m)) (code m) = Some (is_legal p m) /\
         was_legal_impl (view_of_spec (make p m)) (code m) = Some (is_legal p m).
Proof. exact legal_pre_post_agree. Qed.

Theorem C09_c09_on_views :
  forall (v : bview) (p : pos),
         WFview v p ->
         legal_pos p = true ->
         (forall s c : N,
          s < 64 ->
          c < 2 ->
          is_attacked_impl v s c = Some (is_attacked_spec p s c) /\
          attacks_to_impl v s c = Some (attacks_to_spec p s c)) /\
         has_check_impl v = Some (in_check p) /\
         (forall m : mv, In m (legal p) -> gives_check_impl v (code m) = Some (gives_check p m)) /\
         (forall (m : mv) (v' : bview),
          In m (pseudo p) ->
          WFview v' (make p m) ->
          is_legal_impl v v' (code m) = Some (is_legal p m) /\ was_legal_impl v' (code m) = Some (is_legal p m)).
Proof. exact c09_on_views. Qed.

Theorem C09_attacked_iff_attackers :
  forall (b : list N) (s c : N), s < 64 -> c < 2 -> attacked b s c = negb (bb_of (attackers b s c) =? 0).
Proof. exact attacked_iff_attackers. Qed.

Theorem C09_gives_check_refuted_illegal_king_move :
  exists (p : pos) (m : mv),
           legal_pos p = true /\
           In m (pseudo p) /\
           is_legal p m = false /\
           gives_check_impl (view_of_spec p) (code m) = Some false /\ gives_check p m = true.
Proof. exact gives_check_refuted_illegal_king_move. Qed.

Print Assumptions C09_is_attacked_exact.
Print Assumptions C09_attacks_to_exact.
Print Assumptions C09_has_check_exact.
Print Assumptions C09_gives_check_exact.
Print Assumptions C09_legal_pre_post_agree.

(* ---- appended by tools/mkprops.py: Glue ---- *)
(** Glue: the C09 theorems restated on the position model's own maintained bitboards, for every reachable legal position (GlueView.v) *)
From Coq Require Import NArith ZArith List Bool Permutation.
From FG Require Import Geom Rules FenSpec BitView AttacksImpl MoveEnc MovegenImpl PosImpl PosTabs PosProofsA PosProofsB PosProofsC PosProofs GlueView.
Import ListNotations.

Theorem C09_c09_ipos :
  forall (t : tabs) (p : ipos),
         Reach t p ->
         legal_pos (abs p) = true ->
         (forall s c : N,
          s < 64 ->
          c < 2 ->
          is_attacked_impl (view_of_ipos p) s c = Some (Oracle.is_attacked_spec (abs p) s c) /\
          attacks_to_impl (view_of_ipos p) s c = Some (Oracle.attacks_to_spec (abs p) s c)) /\
         has_check_impl (view_of_ipos p) = Some (in_check (abs p)) /\
         (forall m : mv,
          In m (legal (abs p)) -> gives_check_impl (view_of_ipos p) (code m) = Some (gives_check (abs p) m)).
Proof. exact c09_ipos. Qed.

Theorem C09_is_attacked_ipos :
  forall (t : tabs) (p : ipos) (s c : N),
         Reach t p ->
         legal_pos (abs p) = true ->
         s < 64 -> c < 2 -> is_attacked_impl (view_of_ipos p) s c = Some (Oracle.is_attacked_spec (abs p) s c).
Proof. exact is_attacked_ipos. Qed.

Theorem C09_has_check_ipos :
  forall (t : tabs) (p : ipos),
         Reach t p -> legal_pos (abs p) = true -> has_check_impl (view_of_ipos p) = Some (in_check (abs p)).
Proof. exact has_check_ipos. Qed.

Theorem C09_is_legal_ipos :
  forall (t : tabs) (p : ipos) (m : mv),
         Reach t p ->
         legal_pos (abs p) = true ->
         room p ->
         In m (pseudo (abs p)) ->
         exists p' : ipos,
           do_move t p (code m) = Some p' /\
           Reach t p' /\
           abs p' = make (abs p) m /\
           is_legal_impl (view_of_ipos p) (view_of_ipos p') (code m) = Some (is_legal (abs p) m) /\
           was_legal_impl (view_of_ipos p') (code m) = Some (is_legal (abs p) m).
Proof. exact is_legal_ipos. Qed.

Theorem C09_do_move_view :
  forall (t : tabs) (p : ipos) (m : mv),
         Reach t p ->
         legal_pos (abs p) = true ->
         room p ->
         In m (pseudo (abs p)) ->
         exists p' : ipos,
           do_move t p (code m) = Some p' /\
           Reach t p' /\
           abs p' = make (abs p) m /\
           view_of_ipos p' = set_vking (view_of_spec (make (abs p) m)) (i_ksq p') /\
           sel (stm (abs p)) (i_ksq p') = king_sq (brd (make (abs p) m)) (stm (abs p)).
Proof. exact do_move_view. Qed.

Print Assumptions C09_c09_ipos.
Print Assumptions C09_is_legal_ipos.
