(** C04 — incrementally maintained state equals recomputation: Inv (board/piece-set/occupancy/material/psq coherence and key = key_of) holds in every reachable state (setup, do, undo, null, undo-null, flag caching), a reachable position equals a fresh position built from its abstraction field by field (phase: refuted twin = known finding), and the key is a function of the position that separates single-component differences. *)
From Coq Require Import NArith ZArith List Bool.
From FG Require Import Geom Rules FenSpec PosImpl PosTabs PosProofsA PosProofsB PosProofsC PosProofsD PosProofsE PosProofsF PosProofsG PosProofsH PosProofsI PosProofsJ PosProofs.
Import ListNotations.

Theorem C04_reach_inv :
  forall (t : tabs) (p : ipos), Reach t p -> Inv t p.
Proof. exact reach_inv. Qed.

Theorem C04_do_inv :
  forall (t : tabs) (p : ipos) (m : mv),
         Reach t p ->
         In m (pseudo (abs p)) ->
         room p -> exists p' : ipos, do_move t p (code m) = Some p' /\ Reach t p' /\ abs p' = make (abs p) m.
Proof. exact do_inv. Qed.

Theorem C04_undo_inv :
  forall (t : tabs) (p : ipos),
         Reach t p -> LastMove p <> 0 -> exists p' : ipos, undo_move t p = Some p' /\ Reach t p'.
Proof. exact undo_inv. Qed.

Theorem C04_null_inv :
  forall (t : tabs) (p : ipos),
         Reach t p -> room p -> exists p' : ipos, do_null t p = Some p' /\ Reach t p'.
Proof. exact null_inv. Qed.

Theorem C04_undo_null_inv :
  forall (t : tabs) (p : ipos),
         Reach t p -> i_hist p <> [] -> LastMove p = 0 -> exists p' : ipos, undo_null p = Some p' /\ Reach t p'.
Proof. exact undo_null_inv. Qed.

Theorem C04_flag_inv :
  forall (t : tabs) (p : ipos) (v : Z), Reach t p -> Reach t (set_check_flag v p).
Proof. exact flag_inv. Qed.

Theorem C04_setup_reach :
  forall (t : tabs) (q : pos), spec_ok q -> Reach t (setup_of_spec t q).
Proof. exact setup_reach. Qed.

Theorem C04_fresh_equal :
  forall (t : tabs) (p : ipos),
         Inv t p ->
         let f := setup_of_spec t (abs p) in
         i_key f = i_key p /\
         i_board f = i_board p /\
         i_cr f = i_cr p /\
         i_ep f = i_ep p /\
         i_hmc f = i_hmc p /\
         i_stm f = i_stm p /\
         i_nhm f = i_nhm p /\
         i_pbb f = i_pbb p /\
         i_occ f = i_occ p /\
         i_mat f = i_mat p /\
         i_matnp f = i_matnp p /\
         i_psqm f = i_psqm p /\
         i_psqe f = i_psqe p /\
         (forall c s : N, c < 2 -> at_ (i_board p) s = 8 * c + KING -> sel c (i_ksq f) = sel c (i_ksq p)) /\
         (phval_nonneg t -> i_phase f = phase_of t (i_board p)).
Proof. exact fresh_equal. Qed.

Theorem C04_key_function :
  forall (t : tabs) (p q : ipos),
         Inv t p ->
         Inv t q ->
         brd (abs p) = brd (abs q) ->
         stm (abs p) = stm (abs q) -> cr (abs p) = cr (abs q) -> ep (abs p) = ep (abs q) -> i_key p = i_key q.
Proof. exact key_function. Qed.

Theorem C04_key_separates_single :
  (forall (b : list N) (c e h f h' f' : N),
          key_of real_tabs {| brd := b; stm := 0; cr := c; ep := e; hmc := h; fmn := f |} <>
          key_of real_tabs {| brd := b; stm := 1; cr := c; ep := e; hmc := h'; fmn := f' |}) /\
         (forall (b : list N) (s c c' e h f h' f' : N),
          c < 16 ->
          c' < 16 ->
          c <> c' ->
          key_of real_tabs {| brd := b; stm := s; cr := c; ep := e; hmc := h; fmn := f |} <>
          key_of real_tabs {| brd := b; stm := s; cr := c'; ep := e; hmc := h'; fmn := f' |}) /\
         (forall (b : list N) (s c e e' h f h' f' : N),
          e <= 64 ->
          e' <= 64 ->
          e = 64 /\ e' < 64 \/ e < 64 /\ e' = 64 \/ e < 64 /\ e' < 64 /\ file_of e <> file_of e' ->
          key_of real_tabs {| brd := b; stm := s; cr := c; ep := e; hmc := h; fmn := f |} <>
          key_of real_tabs {| brd := b; stm := s; cr := c; ep := e'; hmc := h'; fmn := f' |}) /\
         (forall (b : list N) (sq a' s c e h f h' f' : N),
          length b = 64%nat ->
          sq < 64 ->
          okpc (at_ b sq) = true ->
          okpc a' = true ->
          a' <> at_ b sq ->
          key_of real_tabs {| brd := b; stm := s; cr := c; ep := e; hmc := h; fmn := f |} <>
          key_of real_tabs {| brd := put b sq a'; stm := s; cr := c; ep := e; hmc := h'; fmn := f' |}).
Proof. exact key_separates_single. Qed.

Theorem C04_key_separates_side :
  forall (b : list N) (c e h f h' f' : N),
         key_of real_tabs {| brd := b; stm := 0; cr := c; ep := e; hmc := h; fmn := f |} <>
         key_of real_tabs {| brd := b; stm := 1; cr := c; ep := e; hmc := h'; fmn := f' |}.
Proof. exact key_separates_side. Qed.

Theorem C04_key_separates_rights :
  forall (b : list N) (s c c' e h f h' f' : N),
         c < 16 ->
         c' < 16 ->
         c <> c' ->
         key_of real_tabs {| brd := b; stm := s; cr := c; ep := e; hmc := h; fmn := f |} <>
         key_of real_tabs {| brd := b; stm := s; cr := c'; ep := e; hmc := h'; fmn := f' |}.
Proof. exact key_separates_rights. Qed.

Theorem C04_key_separates_ep :
  forall (b : list N) (s c e e' h f h' f' : N),
         e <= 64 ->
         e' <= 64 ->
         e = 64 /\ e' < 64 \/ e < 64 /\ e' = 64 \/ e < 64 /\ e' < 64 /\ file_of e <> file_of e' ->
         key_of real_tabs {| brd := b; stm := s; cr := c; ep := e; hmc := h; fmn := f |} <>
         key_of real_tabs {| brd := b; stm := s; cr := c; ep := e'; hmc := h'; fmn := f' |}.
Proof. exact key_separates_ep. Qed.

Theorem C04_key_separates_square :
  forall (b : list N) (sq a' s c e h f h' f' : N),
         length b = 64%nat ->
         sq < 64 ->
         okpc (at_ b sq) = true ->
         okpc a' = true ->
         a' <> at_ b sq ->
         key_of real_tabs {| brd := b; stm := s; cr := c; ep := e; hmc := h; fmn := f |} <>
         key_of real_tabs {| brd := put b sq a'; stm := s; cr := c; ep := e; hmc := h'; fmn := f' |}.
Proof. exact key_separates_square. Qed.

Theorem C04_fresh_equal_phase_refuted :
  exists p' : ipos,
           Reach real_tabs p' /\
           GamePhase p' = 22%Z /\
           GamePhase (setup_of_spec real_tabs (abs p')) = 24%Z /\ psum real_tabs (i_board p') = 24%Z.
Proof. exact fresh_equal_phase_refuted. Qed.

Theorem C04_inv_promo :
  invb real_tabs (setup_of_spec real_tabs promo_pos) = true.
Proof. exact inv_promo. Qed.

Theorem C04_inv_ep :
  invb real_tabs (setup_of_spec real_tabs ep_pos) = true.
Proof. exact inv_ep. Qed.

Print Assumptions C04_reach_inv.
Print Assumptions C04_do_inv.
Print Assumptions C04_undo_inv.
Print Assumptions C04_null_inv.
Print Assumptions C04_undo_null_inv.
Print Assumptions C04_fresh_equal.
Print Assumptions C04_key_function.
Print Assumptions C04_key_separates_single.
Print Assumptions C04_fresh_equal_phase_refuted.

(* ---- appended by tools/mkprops.py: Glue ---- *)
(** Glue: the incrementally maintained bitboards ARE the bitboard view the attack and move-generator theorems are stated about (GlueView.v) *)
From Coq Require Import NArith ZArith List Bool Permutation.
From FG Require Import Geom Rules FenSpec BitView AttacksImpl MoveEnc MovegenImpl PosImpl PosTabs PosProofsA PosProofsB PosProofsC PosProofs GlueView.
Import ListNotations.

Theorem C04_view_core_exact :
  forall (t : tabs) (p : ipos), Coh t p -> view_of_ipos p = set_vking (view_of_spec (abs p)) (i_ksq p).
Proof. exact view_core_exact. Qed.

Theorem C04_view_of_ipos_exact :
  forall (t : tabs) (p : ipos),
         Coh t p ->
         has_king (i_board p) WHITE -> has_king (i_board p) BLACK -> view_of_ipos p = view_of_spec (abs p).
Proof. exact view_of_ipos_exact. Qed.

Theorem C04_reachable_view_legal :
  forall (t : tabs) (p : ipos),
         Reach t p -> legal_pos (abs p) = true -> view_of_ipos p = view_of_spec (abs p).
Proof. exact reachable_view_legal. Qed.

Theorem C04_reachable_view_core :
  forall (t : tabs) (p : ipos), Reach t p -> view_of_ipos p = set_vking (view_of_spec (abs p)) (i_ksq p).
Proof. exact reachable_view_core. Qed.

Theorem C04_setup_view :
  forall (t : tabs) (q : pos),
         PosProofsI.spec_ok q ->
         legal_pos q = true -> view_of_ipos (setup_of_spec t q) = view_of_spec (abs (setup_of_spec t q)).
Proof. exact setup_view. Qed.

Theorem C04_legal_step_view :
  forall (t : tabs) (p : ipos) (m : mv),
         Reach t p ->
         legal_pos (abs p) = true ->
         room p ->
         In m (legal (abs p)) ->
         exists p' : ipos,
           do_move t p (code m) = Some p' /\
           Reach t p' /\
           abs p' = make (abs p) m /\
           legal_pos (abs p') = true /\ view_of_ipos p' = view_of_spec (make (abs p) m).
Proof. exact legal_step_view. Qed.

Theorem C04_reachable_view_refuted :
  exists p : ipos,
           Reach real_tabs p /\
           legal_pos rk_pos = true /\
           vking (view_of_ipos p) = (6, 60) /\
           vking (view_of_spec (abs p)) = (6, 64) /\
           nth 8 (pieces (view_of_ipos p)) 0 = 0 /\
           view_of_ipos p <> view_of_spec (abs p) /\ view_of_ipos p = set_vking (view_of_spec (abs p)) (6, 60).
Proof. exact reachable_view_refuted. Qed.

Print Assumptions C04_view_core_exact.
Print Assumptions C04_view_of_ipos_exact.
Print Assumptions C04_reachable_view_legal.
Print Assumptions C04_legal_step_view.

(* tie to the source: the constants the model copies from the Go source equal what the running engine reports
   (gen/Tables_gen.v is regenerated on every run by `verifh dump-tables`) *)
From FG.gen Require Import Tables_gen.
From Coq Require Import ZArith NArith. (* consts *)
From FG Require ConstTie.
From FG Require PosImpl.
Theorem C04_model_constants_dumped :
  PosImpl.GamePhaseMax = c_game_phase_max /\ Z.of_nat PosImpl.MaxHistory = c_max_moves.
Proof. exact ConstTie.posimpl_constants_dumped. Qed.
