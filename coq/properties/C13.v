(** C13 — Search limits honoured: move time, clock budget, depth, nodes, searchmoves.
    Model: FG.TimeCtl transcribes setupTimeControl (int64 arithmetic, primitive binary64 floats
    for 0.8/0.9 and the moves-left estimate), addExtraTime, the timer deadline, the depth loop,
    the searchmoves filter and an abstract recursion counting nodesVisited. *)
From Coq Require Import ZArith NArith List Bool Reals Floats Uint63 Lia.
From FG Require Import TimeCtl TimeCtlProofs.
Import ListNotations.
Local Open Scope Z_scope.

Theorem C13_budget_le_clock :
  forall (mt wt bt wi bi mtg ph : Z) (stm : N),
         mt <= 0 ->
         clock_domain wt bt wi bi mtg ph stm ->
         exists limit : Z,
           setup_time_control_opt mt wt bt wi bi mtg ph stm = Some limit /\
           setup_time_control mt wt bt wi bi mtg ph stm = limit /\ 0 <= limit <= clock_of wt bt wi bi stm.
Proof. exact budget_le_clock. Qed.

Theorem C13_budget_fits_moves :
  forall (mt wt bt wi bi mtg ph : Z) (stm : N),
         mt <= 0 ->
         clock_domain wt bt wi bi mtg ph stm ->
         let n := n_moves mtg ph in
         let limit := setup_time_control mt wt bt wi bi mtg ph stm in
         (0 < mtg -> n = mtg) /\
         (mtg = 0 -> n = 15 + 25 * ph / 24 /\ 15 <= n <= 40) /\
         n * limit <= clock_of wt bt wi bi stm + n * inc_of wt bt wi bi stm.
Proof. exact budget_fits_moves. Qed.

Theorem C13_moves_left_ge_15 :
  forall ph : Z,
         0 <= ph <= 24 -> exists n : Z, moves_left 0 ph = Some n /\ n = 15 + 25 * ph / 24 /\ 15 <= n <= 40.
Proof. exact moves_left_ge_15. Qed.

Theorem C13_movetime_budget :
  forall (mt wt bt wi bi mtg ph : Z) (stm : N),
         0 < mt ->
         let limit := setup_time_control mt wt bt wi bi mtg ph stm in
         setup_time_control_opt mt wt bt wi bi mtg ph stm = Some limit /\
         0 <= limit <= mt /\ (20 * ms <= mt -> limit = mt - 20 * ms) /\ (mt < 20 * ms -> limit = mt).
Proof. exact movetime_budget. Qed.

Theorem C13_extra_time_le_clock :
  forall (mt wt bt wi bi mtg ph : Z) (stm : N),
         mt <= 0 ->
         clock_domain wt bt wi bi mtg ph stm ->
         let clock := clock_of wt bt wi bi stm in
         let limit := setup_time_control mt wt bt wi bi mtg ph stm in
         forall b : bool,
         exists d : Z,
           deadline b true 0 limit (extra_clock wt bt stm) = Some d /\
           limit <= d <= clock /\ (b = true -> d = Z.min (2 * limit) clock) /\ (b = false -> d = limit).
Proof. exact extra_time_le_clock. Qed.

Theorem C13_timer_fires_within :
  forall dl period : Z,
         0 < period ->
         dl <= timer_fire dl period /\
         (0 < dl -> timer_fire dl period < dl + period) /\ timer_fire dl period mod period = 0.
Proof. exact timer_fires_within. Qed.

Theorem C13_movetime_stop_flag :
  forall (mt wt bt wi bi mtg ph : Z) (stm : N) (b : bool) (clock : Z),
         0 < mt < 2 ^ 53 ->
         let limit := setup_time_control mt wt bt wi bi mtg ph stm in
         exists d : Z,
           deadline b true mt limit clock = Some d /\
           d = limit /\
           (20 * ms <= mt -> timer_fire d poll_period < mt - 15 * ms) /\
           (mt < 20 * ms -> timer_fire d poll_period < mt + 5 * ms).
Proof. exact movetime_stop_flag. Qed.

Theorem C13_iterations_exact :
  forall (depth nroot : nat) (f : nat -> bool),
         (0 < depth)%nat ->
         (forall k : nat, f k = false) ->
         ((1 < nroot)%nat -> iterations depth nroot f = depth) /\
         (nroot = 1%nat -> iterations depth nroot f = 1%nat) /\
         (nroot = 0%nat -> iterations depth nroot f = 0%nat).
Proof. exact iterations_exact. Qed.

Theorem C13_searchmoves_respected :
  forall root lst : list N,
         (existsb (listed lst) root = true ->
          filter_root root lst = filter (listed lst) root /\
          filter_root root lst <> [] /\
          (forall m : N,
           In m (filter_root root lst) -> In m root /\ (exists lm : N, In lm lst /\ move_of lm = move_of m))) /\
         (lst = [] \/ existsb (listed lst) root = false -> filter_root root lst = root).
Proof. exact searchmoves_respected. Qed.

Theorem C13_searchmoves_best_listed :
  forall (root lst : list N) (best : N),
         existsb (listed lst) root = true ->
         In best (filter_root root lst) -> exists lm : N, In lm lst /\ move_of lm = move_of best.
Proof. exact searchmoves_best_listed. Qed.

Theorem C13_node_overshoot :
  forall (L : Z) (its : list (list (list stree))),
         1 <= L -> nodes_final L its <= L + Z.max (iheight its - 1) (ndraw (hd [] its) + 1).
Proof. exact node_overshoot. Qed.

Theorem C13_node_overshoot_later :
  forall (L : Z) (moves : list (list stree)) (its : list (list (list stree))),
         1 <= L -> rrun L 1 moves 1 < L -> nodes_final L (moves :: its) <= L + Z.max 1 (iheight its - 1).
Proof. exact node_overshoot_later. Qed.

Theorem C13_time_case_ok_sound :
  forall (mt wt bt wi bi mtg ph : Z) (stm : N) (obs : Z),
         time_case_ok mt wt bt wi bi mtg ph stm obs = true ->
         setup_time_control_opt mt wt bt wi bi mtg ph stm = Some obs.
Proof. exact time_case_ok_sound. Qed.

Theorem C13_budget_le_clock_partial :
  (forall x : Z, 0 <= x < 2 ^ 53 -> exists a : Z, trunc_mul c08 x = Some a /\ 0 <= a <= x) ->
         (forall x : Z, 0 <= x < 2 ^ 53 -> exists a : Z, trunc_mul c09 x = Some a /\ 0 <= a <= x) ->
         forall (mt wt bt wi bi mtg ph : Z) (stm : N),
         mt <= 0 ->
         clock_domain wt bt wi bi mtg ph stm ->
         exists limit : Z,
           setup_time_control_opt mt wt bt wi bi mtg ph stm = Some limit /\
           setup_time_control mt wt bt wi bi mtg ph stm = limit /\ 0 <= limit <= clock_of wt bt wi bi stm.
Proof. exact budget_le_clock_partial. Qed.

Theorem C13_float_trunc_09_holds :
  forall x : Z, 0 <= x < 2 ^ 53 -> exists a : Z, trunc_mul c09 x = Some a /\ 0 <= a <= x.
Proof. exact float_trunc_09_holds. Qed.

Print Assumptions C13_budget_le_clock.
Print Assumptions C13_budget_fits_moves.
Print Assumptions C13_movetime_budget.
Print Assumptions C13_extra_time_le_clock.
Print Assumptions C13_iterations_exact.
Print Assumptions C13_searchmoves_respected.
Print Assumptions C13_node_overshoot.
Print Assumptions C13_budget_le_clock_partial.

(* tie to the source: the constants the model copies from the Go source equal what the running engine reports
   (gen/Tables_gen.v is regenerated on every run by `verifh dump-tables`) *)
From FG.gen Require Import Tables_gen.
From Coq Require Import ZArith NArith. (* consts *)
From FG Require ConstTie.
From FG Require TimeCtl.
Theorem C13_model_constants_dumped :
  Z.of_nat TimeCtl.MaxDepth = c_max_depth /\ TimeCtl.GamePhaseMax = c_game_phase_max /\
  (forall m : N, TimeCtl.move_of m = N.land m c_move_mask).
Proof. exact ConstTie.timectl_constants_dumped. Qed.

(* tie to the source: every statement pattern the model transcribes and that no hook can feed from outside is still
   recognised, in order, in /repo's current source (gen/Sites_gen.v is regenerated on every run by tools/sites.py):
   extra time (run resets it, setupSearchLimits zeroes it, the only addExtraTime call is `addExtraTime(2.0)` guarded by
   hadBookMove && TimeControl && MoveTime == 0 before the depth loop, the cap by the mover's clock), the depth loop, the
   searchmoves filter, the five nodesVisited++ statements with the stop check after every child, the 5 ms timer poll *)
From FG.gen Require Import Sites_gen.
Theorem C13_sites_recognised : forallb (fun b => b) sites_C13 = true.
Proof. vm_compute. reflexivity. Qed.

(* the extra-time checker of the correspondence stream budget_model_vs_hook (c13-grid: hook VerifAddExtraTime and real
   depth-1 searches with the hadBookMove flag set through VerifSetHadBookMove) accepts only what the model computes *)
Theorem C13_extra_case_ok_sound :
  forall (mt wt bt : Z) (stm : N) (limit : Z) (hb : bool) (sl se hl he : Z),
         extra_case_ok mt wt bt stm limit hb sl se hl he = true ->
         sl = limit /\ hl = limit /\
         deadline hb true mt limit (extra_clock wt bt stm) = Some (sl + se) /\
         add_extra_time c10 true mt limit 0 (extra_clock wt bt stm) = Some he.
Proof.
  intros mt wt bt stm limit hb sl se hl he H. unfold extra_case_ok in H.
  repeat (apply andb_prop in H; destruct H as [H ?]).
  destruct (deadline hb true mt limit (extra_clock wt bt stm)) as [d|]; [|discriminate].
  destruct (add_extra_time c10 true mt limit 0 (extra_clock wt bt stm)) as [e|]; [|discriminate].
  repeat match goal with
         | [ X : (_ && _)%bool = true |- _ ] => apply andb_prop in X; destruct X
         end.
  repeat match goal with
         | [ X : (_ =? _) = true |- _ ] => apply Z.eqb_eq in X
         end.
  subst. repeat split; reflexivity.
Qed.

(* the clock bound of C13_extra_time_le_clock, restated for the engine's observations: an accepted case whose budget is
   within the mover's clock has its deadline (time limit + extra time the timer polls) within that clock *)
Theorem C13_extra_case_ok_within_clock :
  forall (mt wt bt : Z) (stm : N) (limit : Z) (hb : bool) (sl se hl he : Z),
         extra_case_ok mt wt bt stm limit hb sl se hl he = true ->
         0 <= limit <= extra_clock wt bt stm ->
         limit <= sl + se <= extra_clock wt bt stm.
Proof.
  intros mt wt bt stm limit hb sl se hl he H [H0 H1]. unfold extra_case_ok in H.
  apply andb_prop in H; destruct H as [H _].
  apply andb_prop in H; destruct H as [_ H].
  destruct (deadline hb true mt limit (extra_clock wt bt stm)) as [d|]; [|discriminate].
  apply andb_prop in H; destruct H as [Hd H].
  apply Z.eqb_eq in Hd. subst d.
  apply Z.leb_le in H0. apply Z.leb_le in H1. rewrite H0, H1 in H. simpl in H.
  apply andb_prop in H; destruct H as [Ha Hb]. apply Z.leb_le in Ha. apply Z.leb_le in Hb. lia.
Qed.

Print Assumptions C13_sites_recognised.
Print Assumptions C13_extra_case_ok_sound.
Print Assumptions C13_extra_case_ok_within_clock.
