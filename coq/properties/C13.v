(** C13 — Search limits honoured: move time, clock budget, depth, nodes, searchmoves.
    Model: FG.TimeCtl transcribes setupTimeControl (int64 arithmetic, primitive binary64 floats
    for 0.8/0.9 and the moves-left estimate), addExtraTime, the timer deadline, the depth loop,
    the searchmoves filter and an abstract recursion counting nodesVisited. *)
From Coq Require Import ZArith NArith List Bool Reals Floats Uint63 Lia.
From FG Require Import TimeCtl TimeCtlProofs.
Import ListNotations.
Local Open Scope Z_scope.

Theorem C13_budget_le_clock :
  forall (mt wt bt wi bi mtg ph : Z) (stm : N),
         mt <= 0 ->
         clock_domain wt bt wi bi mtg ph stm ->
         exists limit : Z,
           setup_time_control_opt mt wt bt wi bi mtg ph stm = Some limit /\
           setup_time_control mt wt bt wi bi mtg ph stm = limit /\ 0 <= limit <= clock_of wt bt wi bi stm.
Proof. exact budget_le_clock. Qed.

Theorem C13_budget_fits_moves :
  forall (mt wt bt wi bi mtg ph : Z) (stm : N),
         mt <= 0 ->
         clock_domain wt bt wi bi mtg ph stm ->
         let n := n_moves mtg ph in
         let limit := setup_time_control mt wt bt wi bi mtg ph stm in
         (0 < mtg -> n = mtg) /\
         (mtg = 0 -> n = 15 + 25 * ph / 24 /\ 15 <= n <= 40) /\
         n * limit <= clock_of wt bt wi bi stm + n * inc_of wt bt wi bi stm.
Proof. exact budget_fits_moves. Qed.

Theorem C13_moves_left_ge_15 :
  forall ph : Z,
         0 <= ph <= 24 -> exists n : Z, moves_left 0 ph = Some n /\ n = 15 + 25 * ph / 24 /\ 15 <= n <= 40.
Proof. exact moves_left_ge_15. Qed.

Theorem C13_movetime_budget :
  forall (mt wt bt wi bi mtg ph : Z) (stm : N),
         0 < mt ->
         let limit := setup_time_control mt wt bt wi bi mtg ph stm in
         setup_time_control_opt mt wt bt wi bi mtg ph stm = Some limit /\
         0 <= limit <= mt /\ (20 * ms <= mt -> limit = mt - 20 * ms) /\ (mt < 20 * ms -> limit = mt).
Proof. exact movetime_budget. Qed.

Theorem C13_extra_time_le_clock :
  forall (mt wt bt wi bi mtg ph : Z) (stm : N),
         mt <= 0 ->
         clock_domain wt bt wi bi mtg ph stm ->
         let clock := clock_of wt bt wi bi stm in
         let limit := setup_time_control mt wt bt wi bi mtg ph stm in
         forall b : bool,
         exists d : Z,
           deadline b true 0 limit (extra_clock wt bt stm) = Some d /\
           limit <= d <= clock /\ (b = true -> d = Z.min (2 * limit) clock) /\ (b = false -> d = limit).
Proof. exact extra_time_le_clock. Qed.

Theorem C13_timer_fires_within :
  forall dl period : Z,
         0 < period ->
         dl <= timer_fire dl period /\
         (0 < dl -> timer_fire dl period < dl + period) /\ timer_fire dl period mod period = 0.
Proof. exact timer_fires_within. Qed.

Theorem C13_movetime_stop_flag :
  forall (mt wt bt wi bi mtg ph : Z) (stm : N) (b : bool) (clock : Z),
         0 < mt < 2 ^ 53 ->
         let limit := setup_time_control mt wt bt wi bi mtg ph stm in
         exists d : Z,
           deadline b true mt limit clock = Some d /\
           d = limit /\
           (20 * ms <= mt -> timer_fire d poll_period < mt - 15 * ms) /\
           (mt < 20 * ms -> timer_fire d poll_period < mt + 5 * ms).
Proof. exact movetime_stop_flag. Qed.

Theorem C13_iterations_exact :
  forall (depth nroot : nat) (f : nat -> bool),
         (0 < depth)%nat ->
         (forall k : nat, f k = false) ->
         ((1 < nroot)%nat -> iterations depth nroot f = depth) /\
         (nroot = 1%nat -> iterations depth nroot f = 1%nat) /\
         (nroot = 0%nat -> iterations depth nroot f = 0%nat).
Proof. exact iterations_exact. Qed.

Theorem C13_searchmoves_respected :
  forall root lst : list N,
         (existsb (listed lst) root = true ->
          filter_root root lst = filter (listed lst) root /\
          filter_root root lst <> [] /\
          (forall m : N,
           In m (filter_root root lst) -> In m root /\ (exists lm : N, In lm lst /\ move_of lm = move_of m))) /\
         (lst = [] \/ existsb (listed lst) root = false -> filter_root root lst = root).
Proof. exact searchmoves_respected. Qed.

Theorem C13_searchmoves_best_listed :
  forall (root lst : list N) (best : N),
         existsb (listed lst) root = true ->
         In best (filter_root root lst) -> exists lm : N, In lm lst /\ move_of lm = move_of best.
Proof. exact searchmoves_best_listed. Qed.

Theorem C13_node_overshoot :
  forall (L : Z) (its : list (list (list stree))),
         1 <= L -> nodes_final L its <= L + Z.max (iheight its - 1) (ndraw (hd [] its) + 1).
Proof. exact node_overshoot. Qed.

Theorem C13_node_overshoot_later :
  forall (L : Z) (moves : list (list stree)) (its : list (list (list stree))),
         1 <= L -> rrun L 1 moves 1 < L -> nodes_final L (moves :: its) <= L + Z.max 1 (iheight its - 1).
Proof. exact node_overshoot_later. Qed.

Theorem C13_time_case_ok_sound :
  forall (mt wt bt wi bi mtg ph : Z) (stm : N) (obs : Z),
         time_case_ok mt wt bt wi bi mtg ph stm obs = true ->
         setup_time_control_opt mt wt bt wi bi mtg ph stm = Some obs.
Proof. exact time_case_ok_sound. Qed.

Theorem C13_budget_le_clock_partial :
  (forall x : Z, 0 <= x < 2 ^ 53 -> exists a : Z, trunc_mul c08 x = Some a /\ 0 <= a <= x) ->
         (forall x : Z, 0 <= x < 2 ^ 53 -> exists a : Z, trunc_mul c09 x = Some a /\ 0 <= a <= x) ->
         forall (mt wt bt wi bi mtg ph : Z) (stm : N),
         mt <= 0 ->
         clock_domain wt bt wi bi mtg ph stm ->
         exists limit : Z,
           setup_time_control_opt mt wt bt wi bi mtg ph stm = Some limit /\
           setup_time_control mt wt bt wi bi mtg ph stm = limit /\ 0 <= limit <= clock_of wt bt wi bi stm.
Proof. exact budget_le_clock_partial. Qed.

Theorem C13_float_trunc_09_holds :
  forall x : Z, 0 <= x < 2 ^ 53 -> exists a : Z, trunc_mul c09 x = Some a /\ 0 <= a <= x.
Proof. exact float_trunc_09_holds. Qed.

Print Assumptions C13_budget_le_clock.
Print Assumptions C13_budget_fits_moves.
Print Assumptions C13_movetime_budget.
Print Assumptions C13_extra_time_le_clock.
Print Assumptions C13_iterations_exact.
Print Assumptions C13_searchmoves_respected.
Print Assumptions C13_node_overshoot.
Print Assumptions C13_budget_le_clock_partial.

(* tie to the source: the constants the model copies from the Go source equal what the running engine reports
   (gen/Tables_gen.v is regenerated on every run by `verifh dump-tables`) *)
From FG.gen Require Import Tables_gen.
From Coq Require Import ZArith NArith. (* consts *)
From FG Require ConstTie.
From FG Require TimeCtl.
Theorem C13_model_constants_dumped :
  Z.of_nat TimeCtl.MaxDepth = c_max_depth.
Proof. exact ConstTie.timectl_constants_dumped. Qed.
