(** C19 — Opening book offers only legal moves; independent of build schedule and format.
    Model: FG.BookModel — the units of atomicity are what runs under bookLock (root_step, add_step);
    a schedule is any interleaving of the per-line step lists; byte-level transcriptions of the three
    readers (Simple, SAN, PGN cleaning).  resolve_legal (tokens resolve to legal moves: C17) is the
    only chess hypothesis. *)
From Coq Require Import NArith List Bool Arith Lia Permutation.
From FG Require Import BookModel BookProofs.
Import ListNotations.
Local Open Scope N_scope.

Theorem C19_book_schedule_independent :
  forall (resolve : N -> str -> option (N * N)) (root : N) (games : list (option (list str)))
           (sched : list step),
         Interleave (map (game_steps resolve root) games) sched ->
         exists b : nmap.Nmap entry,
           run root sched (init_book root) = Some b /\
           (forall k : N, cview b k = spec_counts root (map (game_steps resolve root) games) k).
Proof. exact book_schedule_independent. Qed.

Theorem C19_book_positions_counts_schedule_free :
  forall (resolve : N -> str -> option (N * N)) (root : N) (games : list (option (list str)))
           (sched1 sched2 : list step),
         Interleave (map (game_steps resolve root) games) sched1 ->
         Interleave (map (game_steps resolve root) games) sched2 ->
         exists b1 b2 : nmap.Nmap entry,
           run root sched1 (init_book root) = Some b1 /\
           run root sched2 (init_book root) = Some b2 /\
           (forall k : N, option.is_Some (base.lookup k b1) <-> option.is_Some (base.lookup k b2)) /\
           (forall k : N, cview b1 k = cview b2 k).
Proof. exact book_positions_counts_schedule_free. Qed.

Theorem C19_parallel_equals_sequential :
  forall (resolve : N -> str -> option (N * N)) (root : N) (games : list (option (list str)))
           (sched : list step),
         Interleave (map (game_steps resolve root) games) sched ->
         exists b bs : nmap.Nmap entry,
           run root sched (init_book root) = Some b /\
           seq_build resolve root games (init_book root) = Some bs /\ (forall k : N, cview b k = cview bs k).
Proof. exact parallel_equals_sequential. Qed.

Theorem C19_game_steps_state_free :
  forall (resolve : N -> str -> option (N * N)) (root : N) (g : option (list str)) (b : nmap.Nmap entry),
         seq_game resolve root g b = run root (game_steps resolve root g) b.
Proof. exact game_steps_state_free. Qed.

Theorem C19_prefix_only :
  forall (resolve : N -> str -> option (N * N)) (k : N) (toks : list str),
         exists (pre rest : list str) (kend : N),
           toks = pre ++ rest /\
           reach resolve k pre = Some kend /\
           (rest = [] \/ (exists (t : str) (r : list str), rest = t :: r /\ resolve kend t = None)) /\
           walk resolve k toks = walk resolve k pre /\ length (walk resolve k pre) = length pre.
Proof. exact prefix_only. Qed.

Theorem C19_book_edges_sound :
  forall (resolve : N -> str -> option (N * N)) (root : N) (games : list (option (list str)))
           (sched : list step) (b : nmap.Nmap entry),
         Interleave (map (game_steps resolve root) games) sched ->
         run root sched (init_book root) = Some b ->
         (forall (k : N) (e : entry) (mv nk : N),
          base.lookup k b = Some e ->
          In (mv, nk) (succs e) ->
          (exists (g : option (list str)) (t : str),
             In g games /\ In (SAdd k nk mv) (game_steps resolve root g) /\ resolve k t = Some (mv, nk)) /\
          option.is_Some (base.lookup nk b) /\ nk <> root) /\
         (forall (k1 : N) (e1 : entry) (k2 : N) (e2 : entry) (i1 i2 : nat) (m1 m2 nk : N),
          base.lookup k1 b = Some e1 ->
          base.lookup k2 b = Some e2 ->
          nth_error (succs e1) i1 = Some (m1, nk) ->
          nth_error (succs e2) i2 = Some (m2, nk) -> k1 = k2 /\ i1 = i2) /\
         (forall k : N,
          option.is_Some (base.lookup k b) ->
          k <> root -> exists (p : N) (e : entry) (mv : N), base.lookup p b = Some e /\ In (mv, k) (succs e)).
Proof. exact book_edges_sound. Qed.

Theorem C19_book_moves_legal_once :
  forall (resolve : N -> str -> option (N * N)) (legal : N -> N -> Prop) (succ_of : N -> N -> N),
         (forall (k : N) (t : str) (mv nk : N), resolve k t = Some (mv, nk) -> legal k mv /\ nk = succ_of k mv) ->
         forall (root : N) (games : list (option (list str))) (sched : list step) (b : nmap.Nmap entry),
         Interleave (map (game_steps resolve root) games) sched ->
         run root sched (init_book root) = Some b ->
         forall (k : N) (e : entry),
         base.lookup k b = Some e ->
         (forall mv nk : N,
          In (mv, nk) (succs e) -> legal k mv /\ nk = succ_of k mv /\ option.is_Some (base.lookup nk b)) /\
         (forall (i j : nat) (mv n1 n2 : N),
          nth_error (succs e) i = Some (mv, n1) -> nth_error (succs e) j = Some (mv, n2) -> i = j).
Proof. exact book_moves_legal_once. Qed.

Theorem C19_edge_parent_depends_on_schedule :
  (forall k : N,
          In k [1; 2; 3; 4; 5] ->
          cview_of (run 1 ex_sched1 (init_book 1)) k = cview_of (run 1 ex_sched2 (init_book 1)) k) /\
         edges_of (run 1 ex_sched1 (init_book 1)) 2 = Some [(12, 4)] /\
         edges_of (run 1 ex_sched1 (init_book 1)) 3 = Some [] /\
         edges_of (run 1 ex_sched2 (init_book 1)) 2 = Some [] /\
         edges_of (run 1 ex_sched2 (init_book 1)) 3 = Some [(13, 4)].
Proof. exact edge_parent_depends_on_schedule. Qed.

Theorem C19_tokens_simple_render :
  forall (u : str) (rest : list (bool * str)),
         uci_ok u = true ->
         Forall (fun su : bool * str => uci_ok (snd su) = true) rest ->
         tokens_simple (render_simple u rest) = Some (u :: map snd rest).
Proof. exact tokens_simple_render. Qed.

Theorem C19_tokens_san_render :
  forall (glue : bool) (g : list str) (res : option str),
         g <> [] ->
         Forall (fun s : str => san_ok s = true) g ->
         match res with
         | Some r => is_result r = true
         | None => True
         end -> tokens_san (render_san glue g res) = Some g.
Proof. exact tokens_san_render. Qed.

Theorem C19_tokens_pgn_render :
  forall p : pgame, pgame_ok p -> tokens_pgn (pg_render p) = Some (pg_moves p).
Proof. exact tokens_pgn_render. Qed.

Theorem C19_rav_loop_fuel_enough :
  forall (fuel : nat) (s : list N),
         (length s <= fuel)%nat -> has_match m_paren (rav_loop fuel s) = false.
Proof. exact rav_loop_fuel_enough. Qed.

Theorem C19_formats_agree :
  forall (resolve : N -> str -> option (N * N)) (root : N) (games : list (list (str * str)))
           (f1 : format) (file1 : list str) (f2 : format) (file2 : list str) (sched1 sched2 : list step),
         (forall (g : list (str * str)) (k : N) (m : str * str),
          In g games -> In m g -> resolve k (fst m) = resolve k (snd m)) ->
         file_games f1 file1 = map (fun g : list (str * str) => Some (map fst g)) games \/
         file_games f1 file1 = map (fun g : list (str * str) => Some (map snd g)) games ->
         file_games f2 file2 = map (fun g : list (str * str) => Some (map fst g)) games \/
         file_games f2 file2 = map (fun g : list (str * str) => Some (map snd g)) games ->
         Interleave (map (game_steps resolve root) (file_games f1 file1)) sched1 ->
         Interleave (map (game_steps resolve root) (file_games f2 file2)) sched2 ->
         exists b1 b2 : nmap.Nmap entry,
           run root sched1 (init_book root) = Some b1 /\
           run root sched2 (init_book root) = Some b2 /\
           (forall k : N, option.is_Some (base.lookup k b1) <-> option.is_Some (base.lookup k b2)) /\
           (forall k : N, cview b1 k = cview b2 k).
Proof. exact formats_agree. Qed.

Theorem C19_book_case_ok_sound :
  forall (root : N) (games : list (list ostep)) (observed : list oentry) (sched : list step),
         book_case_ok root games observed = true ->
         Interleave (map game_of games) sched ->
         exists b : nmap.Nmap entry,
           run root sched (init_book root) = Some b /\
           (forall e : oentry, In e observed -> cview b (okey e) = Some (snd (fst e))) /\
           (forall k : N, option.is_Some (base.lookup k b) -> In k (map okey observed)).
Proof. exact book_case_ok_sound. Qed.

Print Assumptions C19_book_schedule_independent.
Print Assumptions C19_parallel_equals_sequential.
Print Assumptions C19_prefix_only.
Print Assumptions C19_book_edges_sound.
Print Assumptions C19_formats_agree.

(* tie to the source: every statement pattern the model transcribes is still recognised, in order,
   in /repo's current source (gen/Sites_gen.v is regenerated on every run by tools/sites.py) *)
From FG.gen Require Import Sites_gen.
Theorem C19_sites_recognised : forallb (fun b => b) sites_C19 = true.
Proof. vm_compute. reflexivity. Qed.

(* ---- appended by tools/mkprops.py: Legality of book moves with the real notation parsers as resolver (BookLegal.v) ---- *)
(** Legality of book moves with the real notation parsers as resolver (BookLegal.v): the hypothesis resolve_legal of BookProofs is discharged *)
From Coq Require Import NArith ZArith List Bool Permutation.
From FG Require Import Geom Rules FenSpec NotationImpl NotationProofs BookModel BookProofs BookLegal.
Import ListNotations.

Theorem C19_parse_token_sound :
  forall (p : pos) (s : str) (m : mv), parse_token p s = Some m -> In m (legal p).
Proof. exact parse_token_sound. Qed.

Theorem C19_resolve_notation_legal :
  forall (key : pos -> N) (posof : N -> option pos) (k : N) (t : str) (mv nk : N),
         resolve_notation key posof k t = Some (mv, nk) -> legal_at posof k mv /\ nk = succ_at key posof k mv.
Proof. exact resolve_notation_legal. Qed.

Theorem C19_book_moves_legal_once_notation :
  forall (key : pos -> N) (posof : N -> option pos) (root : N) (games : list (option (list str)))
           (sched : list step) (b : nmap.Nmap entry),
         Interleave (map (game_steps (resolve_notation key posof) root) games) sched ->
         run root sched (init_book root) = Some b ->
         forall (k : N) (e : entry),
         base.lookup k b = Some e ->
         (forall mv nk : N,
          In (mv, nk) (succs e) ->
          legal_at posof k mv /\ nk = succ_at key posof k mv /\ option.is_Some (base.lookup nk b)) /\
         (forall (i j : nat) (mv n1 n2 : N),
          nth_error (succs e) i = Some (mv, n1) -> nth_error (succs e) j = Some (mv, n2) -> i = j).
Proof. exact book_moves_legal_once_notation. Qed.

Theorem C19_book_edges_sound_notation :
  forall (key : pos -> N) (posof : N -> option pos) (root : N) (games : list (option (list str)))
           (sched : list step) (b : nmap.Nmap entry),
         Interleave (map (game_steps (resolve_notation key posof) root) games) sched ->
         run root sched (init_book root) = Some b ->
         forall (k : N) (e : entry) (mv0 nk : N),
         base.lookup k b = Some e ->
         In (mv0, nk) (succs e) ->
         (exists (g : option (list str)) (t : str) (p : pos) (m : mv),
            In g games /\
            In (SAdd k nk mv0) (game_steps (resolve_notation key posof) root g) /\
            posof k = Some p /\
            parse_token p t = Some m /\ In m (legal p) /\ mv0 = code m /\ nk = key (make p m)) /\
         option.is_Some (base.lookup nk b) /\ nk <> root.
Proof. exact book_edges_sound_notation. Qed.

Theorem C19_book_edges_legal_threaded :
  forall (key : pos -> N) (start : pos) (games : list (option (list str))) (sched : list step)
           (b : nmap.Nmap entry),
         Interleave (map (game_steps_pos key start) games) sched ->
         run (key start) sched (init_book (key start)) = Some b ->
         forall (k : N) (e : entry) (mv0 nk : N),
         base.lookup k b = Some e ->
         In (mv0, nk) (succs e) ->
         (exists (q : pos) (m : mv) (t : str),
            on_path start q /\
            k = key q /\ parse_token q t = Some m /\ In m (legal q) /\ mv0 = code m /\ nk = key (make q m)) /\
         option.is_Some (base.lookup nk b) /\ nk <> key start.
Proof. exact book_edges_legal_threaded. Qed.

Theorem C19_book_moves_legal_once_threaded :
  forall (key : pos -> N) (start : pos) (games : list (option (list str))) (sched : list step)
           (b : nmap.Nmap entry),
         key_ignores_clocks key ->
         NoColl key (visited start games) ->
         let posof := posof_of key (visited start games) in
         Interleave (map (game_steps_pos key start) games) sched ->
         run (key start) sched (init_book (key start)) = Some b ->
         forall (k : N) (e : entry),
         base.lookup k b = Some e ->
         (forall mv nk : N,
          In (mv, nk) (succs e) ->
          legal_at posof k mv /\ nk = succ_at key posof k mv /\ option.is_Some (base.lookup nk b)) /\
         (forall (i j : nat) (mv n1 n2 : N),
          nth_error (succs e) i = Some (mv, n1) -> nth_error (succs e) j = Some (mv, n2) -> i = j).
Proof. exact book_moves_legal_once_threaded. Qed.

Theorem C19_walk_ipos_eq :
  forall (t : PosImpl.tabs) (toks : list str) (ip : PosImpl.ipos),
         PosProofs.Reach t ip ->
         (length (PosImpl.i_hist ip) + length toks <= 512)%nat ->
         walk_ipos t ip toks = walk_pos (PosProofsA.key_of t) (PosImpl.abs ip) toks.
Proof. exact walk_ipos_eq. Qed.

Print Assumptions C19_parse_token_sound.
Print Assumptions C19_resolve_notation_legal.
Print Assumptions C19_book_moves_legal_once_notation.
Print Assumptions C19_book_edges_legal_threaded.

(* the hypothesis [key_ignores_clocks key] of C19_book_moves_legal_once_threaded / C19_book_edges_legal_threaded holds
   for the Zobrist key of the position model, for any tables (in particular PosTabs.real_tabs, the engine's randoms) *)
Theorem C19_key_of_ignores_clocks :
  forall t : PosImpl.tabs, key_ignores_clocks (PosProofsA.key_of t).
Proof. exact key_of_core. Qed.
Print Assumptions C19_key_of_ignores_clocks.

(** ---- Collision freedom discharged per tested book (design/12, item 11).
    [NoColl] above is a hypothesis ([key_ignores_clocks] is discharged by C19_key_of_ignores_clocks).  The correspondence stream `book_model_vs_engine` (verifh
    c19-cases) writes, for every generated collection, the coordinate tokens of the games and the
    FENs of the positions the engine visited; CasesBook.book_case evaluates
    [BookLegal.book_case_full_ok] = [book_case_ok] && [book_visited_case_ok] (marker `M = []`).
    The theorems below say what a passed check means. *)
Theorem C19_book_visited_case_ok_sound :
  forall (games : list (list ostep)) (toks : list (list str)) (fens : list FenSpec.str),
         book_visited_case_ok games toks fens = true ->
         NoColl rkey (visited start_pos (map Some toks)) /\
         map (fun t : list str => flat_map to_ostep (walk_pos rkey start_pos t)) toks = games /\
         map FenSpec.parse fens = map Some (visited start_pos (map Some toks)).
Proof. exact book_visited_case_ok_sound. Qed.

(* C19_book_moves_legal_once_threaded for a checked collection: no collision hypothesis left *)
Theorem C19_book_moves_legal_once_checked :
  forall (games : list (list ostep)) (toks : list (list str)) (fens : list FenSpec.str)
         (sched : list step) (b : nmap.Nmap entry),
         book_visited_case_ok games toks fens = true ->
         let gs := map Some toks in
         let posof := posof_of rkey (visited start_pos gs) in
         Interleave (map (game_steps_pos rkey start_pos) gs) sched ->
         run (rkey start_pos) sched (init_book (rkey start_pos)) = Some b ->
         forall (k : N) (e : entry),
         base.lookup k b = Some e ->
         (forall mv nk : N,
          In (mv, nk) (succs e) ->
          legal_at posof k mv /\ nk = succ_at rkey posof k mv /\ option.is_Some (base.lookup nk b)) /\
         (forall (i j : nat) (mv n1 n2 : N),
          nth_error (succs e) i = Some (mv, n1) -> nth_error (succs e) j = Some (mv, n2) -> i = j).
Proof. exact book_moves_legal_once_checked. Qed.

(* the whole per-collection check: root key, real book = specification of the recorded games
   (C19_book_case_ok_sound), and the above *)
Theorem C19_book_case_full_ok_parts :
  forall (root : N) (games : list (list ostep)) (observed : list oentry) (toks : list (list str))
         (fens : list FenSpec.str),
         book_case_full_ok root games observed toks fens = true ->
         rkey start_pos = root /\ book_case_ok root games observed = true /\
         book_visited_case_ok games toks fens = true.
Proof.
  intros root games observed toks fens H. unfold book_case_full_ok in H.
  apply andb_true_iff in H as [H H3]. apply andb_true_iff in H as [H1 H2]. apply N.eqb_eq in H1. auto.
Qed.

Print Assumptions C19_book_visited_case_ok_sound.
Print Assumptions C19_book_moves_legal_once_checked.
Print Assumptions C19_book_case_full_ok_parts.
