(** C03 — undoing restores the position: for every nesting of moves, null moves and cached check flags (excursion type) the model of UndoMove / UndoNullMove restores every observable except the game phase unconditionally, and the whole struct under the phase bound; the refuted twin is the known game-phase finding (clamp in putPiece/removePiece). *)
From Coq Require Import NArith ZArith List Bool.
From FG Require Import Geom Rules FenSpec PosImpl PosTabs PosProofsA PosProofsB PosProofsC PosProofsD PosProofsE PosProofsF PosProofsG PosProofsH PosProofsI PosProofsJ PosProofs.
Import ListNotations.

Theorem C03_undo_do_pseudo :
  forall (t : tabs) (p : ipos) (m : mv),
         WF t p ->
         In m (pseudo (abs p)) ->
         room p ->
         exists p1 p2 : ipos,
           do_move t p (code m) = Some p1 /\
           undo_move t p1 = Some p2 /\
           observe_core t p2 = observe_core t p /\
           i_flag p2 = i_flag p /\
           (phval_nonneg t -> PhOK t p -> (clamp t = true -> (psum t (i_board p1) <= GamePhaseMax)%Z) -> p2 = p).
Proof. exact undo_do_pseudo. Qed.

Theorem C03_undo_null_do_null :
  forall (t : tabs) (p p2 : ipos),
         eqpf p2 (do_null_raw t p) ->
         exists p'' : ipos,
           undo_null p2 = Some p'' /\ set_phase (i_phase p) p'' = p /\ i_phase p'' = i_phase p2.
Proof. exact undo_null_do_null. Qed.

Theorem C03_excursion_restores :
  forall (t : tabs) (HB : Prop) (e : excursion), restores t HB e.
Proof. exact excursion_restores. Qed.

Theorem C03_excursion_restores_observables :
  forall (t : tabs) (e : excursion) (p p' : ipos),
         WF t p ->
         exc_ok t False e p ->
         run_exc t e p = Some p' -> observe_core t p' = observe_core t p /\ i_flag p' = exc_flag e (i_flag p).
Proof. exact excursion_restores_observables. Qed.

Theorem C03_excursion_restores_all :
  forall (t : tabs) (e : excursion) (p p' : ipos),
         phval_nonneg t ->
         WF t p ->
         PhOK t p ->
         exc_ok t True e p ->
         run_exc t e p = Some p' -> i_flag p' = i_flag p -> p' = p /\ observe t p' = observe t p.
Proof. exact excursion_restores_all. Qed.

Theorem C03_undo_move_total :
  forall (t : tabs) (p : ipos) (h : hstate) (rest : list hstate),
         board_ok (i_board p) ->
         i_hist p = h :: rest ->
         i_stm p < 2 ->
         okpc (h_cap h) = true ->
         (mv_type (h_move h) = 2 -> sq_to (mv_to (h_move h)) (pawn_dir (i_stm p)) < 64) ->
         (mv_type (h_move h) = 3 -> castle_info (mv_to (h_move h)) <> None) ->
         undo_move t p = Some (undo_move_raw t p h rest).
Proof. exact undo_move_total. Qed.

Theorem C03_excursion_restores_refuted :
  let p := setup_of_spec real_tabs promo_pos in
         exists p' : ipos,
           run_exc real_tabs (Move (code bxa8Q) []) p = Some p' /\
           WF real_tabs p /\
           exc_ok real_tabs False (Move (code bxa8Q) []) p /\
           GamePhase p = 24%Z /\ GamePhase p' = 22%Z /\ observe real_tabs p' <> observe real_tabs p.
Proof. exact excursion_restores_refuted. Qed.

Theorem C03_noclamp_excursion :
  let p := setup_of_spec real_tabs_noclamp promo_pos in
         run_exc real_tabs_noclamp (Move (code bxa8Q) []) p = Some p /\
         GamePhase p = 24%Z /\
         option_map GamePhase (do_move real_tabs_noclamp p (code bxa8Q)) = Some 26%Z /\
         option_map GamePhase (do_move real_tabs (setup_of_spec real_tabs promo_pos) (code bxa8Q)) = Some 24%Z.
Proof. exact noclamp_excursion. Qed.

Theorem C03_excursion_example :
  let p := setup_of_spec real_tabs kiwipete in
         run_exc real_tabs (Move 49414 [Flag 1; Null [Move (12 + 64 * 40) []]; Flag 2]) p = Some p.
Proof. exact excursion_example. Qed.

Theorem C03_excursion_ep_example :
  let p := setup_of_spec real_tabs ep_pos in
         run_exc real_tabs (Move (42 + 64 * 35 + 2 * 16384) []) p = Some p.
Proof. exact excursion_ep_example. Qed.

Print Assumptions C03_undo_do_pseudo.
Print Assumptions C03_undo_null_do_null.
Print Assumptions C03_excursion_restores.
Print Assumptions C03_excursion_restores_observables.
Print Assumptions C03_excursion_restores_all.
Print Assumptions C03_excursion_restores_refuted.

(* tie to the source: the constants the model copies from the Go source equal what the running engine reports
   (gen/Tables_gen.v is regenerated on every run by `verifh dump-tables`) *)
From FG.gen Require Import Tables_gen.
From Coq Require Import ZArith NArith. (* consts *)
From FG Require ConstTie.
From FG Require PosImpl.
Theorem C03_model_constants_dumped :
  PosImpl.GamePhaseMax = c_game_phase_max /\ Z.of_nat PosImpl.MaxHistory = c_max_moves.
Proof. exact ConstTie.posimpl_constants_dumped. Qed.

(* tie to the source: the move-word masks and shifts that PosImpl uses literally are the engine's (dumped) *)
Theorem C03_move_layout_dumped :
  c_square_mask = 63%N /\ c_from_mask = 4032%N /\ c_from_shift = 6%N /\
  c_prom_type_mask = 12288%N /\ c_prom_type_shift = 12%N /\
  c_move_type_mask = 49152%N /\ c_type_shift = 14%N.
Proof. exact PosTabs.move_layout. Qed.

(* the hypothesis [phval_nonneg t] of C03_undo_do_pseudo / C03_excursion_restores_all holds for the engine's tables *)
Theorem C03_real_phval_nonneg : PosProofsA.phval_nonneg real_tabs.
Proof. exact PosTabs.real_phval_nonneg. Qed.
Print Assumptions C03_real_phval_nonneg.
