(** C01 — legal move generation is exactly the rules of chess: MovegenImpl transcribes movegen.go (pawn/king/officer/castling generators over the bitboard view, GenerateLegalMoves as pseudo-legal list filtered by the engine's IsLegalMove); the generated list is a duplicate-free permutation of the codes of Rules.pseudo / Rules.legal for every legal position, legal moves preserve legal positions, and the engine perft equals the rule-defined perft for every depth. *)
From Coq Require Import NArith ZArith List Bool Permutation.
From FG Require Import Geom Rules FenSpec BitView AttacksImpl MoveEnc MovegenImpl MovegenSpec MovegenProofsMain MovegenMakeLegal MovegenProofsLegal MovegenProofsOD MovegenProofsODChess MovegenExamples.
Import ListNotations.

Theorem C01_pseudo_exact :
  forall (prom_nq : bool) (p : pos),
         legal_pos p = true ->
         exists l : list N,
           gen_pseudo prom_nq (view_of_spec p) 3 false = Some l /\
           Permutation l (map code (pseudo p)) /\ NoDup l.
Proof. exact pseudo_exact. Qed.

Theorem C01_legal_moves_exact :
  forall (prom_nq : bool) (p : pos),
         legal_pos p = true ->
         exists l : list N,
           gen_legal prom_nq (eng_legal p) (view_of_spec p) 3 = Some l /\
           Permutation l (map code (legal p)) /\ NoDup l.
Proof. exact legal_moves_exact. Qed.

Theorem C01_legal_moves_exact_spec :
  forall (prom_nq : bool) (p : pos),
         legal_pos p = true ->
         exists l : list N,
           gen_legal prom_nq (spec_legal_code p) (view_of_spec p) 3 = Some l /\
           Permutation l (map code (legal p)) /\ NoDup l.
Proof. exact legal_moves_exact_spec. Qed.

Theorem C01_engine_legal_agrees :
  forall (p : pos) (m : mv),
         legal_pos p = true -> In m (pseudo p) -> eng_legal p (code m) = is_legal p m.
Proof. exact engine_legal_agrees. Qed.

Theorem C01_perft_exact :
  forall (prom_nq : bool) (d : nat) (p : pos),
         legal_pos p = true -> perft_gen prom_nq d p = Some (perft d p).
Proof. exact perft_exact. Qed.

Theorem C01_make_preserves_legal_pos :
  forall (p : pos) (m : mv), legal_pos p = true -> In m (legal p) -> legal_pos (make p m) = true.
Proof. exact MovegenMakeLegal.make_preserves_legal_pos. Qed.

Print Assumptions C01_pseudo_exact.
Print Assumptions C01_legal_moves_exact.
Print Assumptions C01_legal_moves_exact_spec.
Print Assumptions C01_engine_legal_agrees.
Print Assumptions C01_perft_exact.
Print Assumptions C01_make_preserves_legal_pos.

(* ---- appended by tools/mkprops.py: Glue ---- *)
(** Glue: the C01 theorems restated on the position model's own maintained bitboards and its own DoMove as legality test, for every reachable legal position (GlueView.v) *)
From Coq Require Import NArith ZArith List Bool Permutation.
From FG Require Import Geom Rules FenSpec BitView AttacksImpl MoveEnc MovegenImpl PosImpl PosTabs PosProofsA PosProofsB PosProofsC PosProofs GlueView.
Import ListNotations.

Theorem C01_pseudo_ipos :
  forall (prom_nq : bool) (t : tabs) (p : ipos),
         Reach t p ->
         legal_pos (abs p) = true ->
         exists l : list N,
           gen_pseudo prom_nq (view_of_ipos p) 3 false = Some l /\
           Permutation l (map code (pseudo (abs p))) /\ NoDup l.
Proof. exact pseudo_ipos. Qed.

Theorem C01_legal_moves_exact_ipos :
  forall (prom_nq : bool) (t : tabs) (p : ipos),
         Reach t p ->
         legal_pos (abs p) = true ->
         exists l : list N,
           gen_legal prom_nq (MovegenProofsLegal.eng_legal (abs p)) (view_of_ipos p) 3 = Some l /\
           Permutation l (map code (legal (abs p))) /\ NoDup l.
Proof. exact legal_moves_exact_ipos. Qed.

Theorem C01_legal_moves_ipos :
  forall (prom_nq : bool) (t : tabs) (p : ipos),
         Reach t p ->
         legal_pos (abs p) = true ->
         room p ->
         exists l : list N,
           gen_legal prom_nq (eng_legal_ipos t p) (view_of_ipos p) 3 = Some l /\
           Permutation l (map code (legal (abs p))) /\ NoDup l.
Proof. exact legal_moves_ipos. Qed.

Print Assumptions C01_pseudo_ipos.
Print Assumptions C01_legal_moves_exact_ipos.
Print Assumptions C01_legal_moves_ipos.
