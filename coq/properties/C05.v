(** C05 — Search always terminates with a legal best move, ponder move and PV.
    Model: FG.PvBuffers transcribes the principal-variation buffer handling of rootSearch / search /
    qsearch / iterativeDeepening / run of the CURRENT code with EVERY heuristic an oracle
    (early returns at every Go return point, skipped moves, move order, values, draw shortcuts, IID,
    null move, hash lines, stop at any stopConditions() call).  Hypotheses: hash_ok (lines written
    by getPVLine are playable = no 64-bit key collision), first_cmp, iid_ok (see PvProofs.v). *)
From Coq Require Import List NArith Bool Arith Lia.
From FG Require Import PvBuffers PvProofs.
Import ListNotations.

Theorem C05_pv_is_path :
  forall (fuel : nat) (o : oracle) (p : path) (t : gt) (depth ply : nat) (s : st),
         hash_ok o ->
         ply <= max_depth ->
         let s' := search fuel o p t depth ply s in
         playable t (getb ply s') /\
         length (bufs s') = length (bufs s) /\
         (forall j : nat, j < ply -> getb j s' = getb j s) /\ (max_depth < length (bufs s) -> err s' = err s).
Proof. exact pv_is_path. Qed.

Theorem C05_qsearch_pv_is_path :
  forall (fuel : nat) (o : oracle) (p : path) (t : gt) (ply : nat) (s : st),
         ply <= max_depth ->
         let s' := qsearch fuel o p t ply s in
         playable t (getb ply s') /\
         length (bufs s') = length (bufs s) /\
         (forall j : nat, j < ply -> getb j s' = getb j s) /\ (max_depth < length (bufs s) -> err s' = err s).
Proof. exact qsearch_pv_is_path. Qed.

Theorem C05_root_pv_playable :
  forall (n fuel : nat) (o : oracle) (t : gt) (depth : nat) (s : st),
         hash_ok o ->
         playable t (getb 0 s) ->
         let r := iter_loop n fuel o t depth [] s in playable t (getb 0 (fst r)) /\ Forall (playable t) (snd r).
Proof. exact root_pv_playable. Qed.

Theorem C05_root_pv_head :
  forall (n fuel : nat) (o : oracle) (t : gt) (depth : nat) (s : st) (m : move) (l : list move),
         hash_ok o ->
         playable t (getb 0 s) ->
         getb 0 (fst (iter_loop n fuel o t depth [] s)) = m :: l ->
         exists c : gt, In (m, c) (legal_children t) /\ playable c l.
Proof. exact root_pv_head. Qed.

Theorem C05_best_move_is_root_move :
  forall (fuel : nat) (o : oracle) (usett : bool) (t : gt) (maxdepth : nat),
         hash_ok o ->
         first_cmp o ->
         root_moves o t 1 <> [] ->
         1 <= maxdepth ->
         let r := run fuel o usett None t maxdepth in
         exists (b : move) (rest : list move) (c : gt),
           res_best r = Some b /\
           res_pv r = b :: rest /\
           In (b, c) (legal_children t) /\
           playable c rest /\ Forall (playable t) (res_reports r) /\ err (res_final r) = false.
Proof. exact best_move_is_root_move. Qed.

Theorem C05_ponder_move_legal :
  forall (fuel : nat) (o : oracle) (usett : bool) (t : gt) (maxdepth : nat) (pm : move),
         hash_ok o ->
         let r := run fuel o usett None t maxdepth in
         res_ponder r = Some pm ->
         exists (b : move) (c c' : gt),
           res_best r = Some b /\ In (b, c) (legal_children t) /\ In (pm, c') (legal_children c).
Proof. exact ponder_move_legal. Qed.

Theorem C05_fuel_enough :
  forall (fuel : nat) (o : oracle) (usett : bool) (book : option move) (t : gt) (maxdepth : nat),
         iid_ok o -> smeasure maxdepth 1 <= fuel -> oof (res_final (run fuel o usett book t maxdepth)) = false.
Proof. exact fuel_enough. Qed.

Theorem C05_terminates :
  forall (fuel : nat) (o : oracle) (usett : bool) (t : gt) (maxdepth : nat),
         hash_ok o ->
         iid_ok o ->
         first_cmp o ->
         root_moves o t 1 <> [] ->
         1 <= maxdepth ->
         smeasure maxdepth 1 <= fuel ->
         let r := run fuel o usett None t maxdepth in
         oof (res_final r) = false /\ err (res_final r) = false /\ res_best r <> None.
Proof. exact terminates. Qed.

Print Assumptions C05_pv_is_path.
Print Assumptions C05_root_pv_playable.
Print Assumptions C05_best_move_is_root_move.
Print Assumptions C05_ponder_move_legal.
Print Assumptions C05_terminates.

(* tie to the source: every statement pattern the model transcribes is still recognised, in order,
   in /repo's current source (gen/Sites_gen.v is regenerated on every run by tools/sites.py) *)
From FG.gen Require Import Sites_gen.
Theorem C05_sites_recognised : forallb (fun b => b) sites_C05 = true.
Proof. vm_compute. reflexivity. Qed.

(* tie to the source: the constants the model copies from the Go source equal what the running engine reports
   (gen/Tables_gen.v is regenerated on every run by `verifh dump-tables`) *)
From FG.gen Require Import Tables_gen.
From Coq Require Import ZArith NArith. (* consts *)
From FG Require ConstTie.
From FG Require PvBuffers.
Theorem C05_model_constants_dumped :
  Z.of_nat PvBuffers.max_depth = c_max_depth.
Proof. exact ConstTie.pvbuffers_constants_dumped. Qed.

(* the named hypothesis [iid_ok] discharged for the engine's own setting: gen/Tables_gen.v holds
   config.Settings.Search.IIDReduction / IIDDepth as the running engine has them after package initialisation
   (regenerated on every run); site iid_reduces_depth: the IID call of [search] re-enters the same node at
   depth - IIDReduction (clamped at 0, [depth - ip_red ip] on nat) *)
Theorem C05_iid_reduction_positive : (1 <= c_iid_reduction)%Z.
Proof. apply Z.leb_le. reflexivity. Qed.

(* an oracle whose IID plans all carry the engine's reduction *)
Definition iid_engine (o : oracle) : Prop :=
  forall p t ip, v_iid (o_s o p t) = Some ip -> ip_red ip = Z.to_nat c_iid_reduction.

Theorem C05_iid_engine_ok : forall o : oracle, iid_engine o -> iid_ok o.
Proof.
  intros o H p t ip E. rewrite (H p t ip E).
  apply Nat.leb_le. vm_compute. reflexivity.
Qed.

Theorem C05_fuel_enough_engine_iid :
  forall (fuel : nat) (o : oracle) (usett : bool) (book : option move) (t : gt) (maxdepth : nat),
         iid_engine o -> smeasure maxdepth 1 <= fuel -> oof (res_final (run fuel o usett book t maxdepth)) = false.
Proof. intros fuel o usett book t maxdepth H. apply fuel_enough, C05_iid_engine_ok, H. Qed.

Theorem C05_terminates_engine_iid :
  forall (fuel : nat) (o : oracle) (usett : bool) (t : gt) (maxdepth : nat),
         hash_ok o ->
         iid_engine o ->
         first_cmp o ->
         root_moves o t 1 <> [] ->
         1 <= maxdepth ->
         smeasure maxdepth 1 <= fuel ->
         let r := run fuel o usett None t maxdepth in
         oof (res_final r) = false /\ err (res_final r) = false /\ res_best r <> None.
Proof. intros fuel o usett t maxdepth Hh Hi. apply terminates; [exact Hh | apply C05_iid_engine_ok, Hi]. Qed.
Print Assumptions C05_iid_engine_ok.
Print Assumptions C05_fuel_enough_engine_iid.
Print Assumptions C05_terminates_engine_iid.

(* the arithmetic behind the named hypothesis [first_cmp] on the engine's own constants: rootSearch starts with
   bestNodeValue = ValueNA (site root_first_move_beats_na); the value of the first root move is ValueDraw, or
   -search(...) where search returns ValueNA when stopped or a value within [-ValueInf, ValueInf] *)
Theorem C05_value_na_below_every_value :
  (c_value_na < - c_value_inf)%Z /\ (c_value_na < c_value_draw)%Z /\ (- c_value_na > c_value_na)%Z.
Proof. exact ConstTie.value_na_below_every_value. Qed.
