(** C06 — With only sound techniques enabled the search value is the exact minimax value.
    Model: [FG.AlphaBeta] transcribes rootSearch/search/qsearch of alphabeta.go with the
    unsound switches off; move ordering is an arbitrary permutation at every node visit
    (relational semantics), the sound switches are the three booleans of [cfg].
    [FG.GameTree.minimax] is the textbook definition with the engine's terminal scores. *)
From Coq Require Import ZArith List Bool.
From FG Require Import GameTree AlphaBeta.
Import ListNotations.
Open Scope Z_scope.

(* fail-soft alpha-beta contract of every inner search call, for every window inside
   [-MATE, MATE], every ply, every tree within the depth capacity, every ordering *)
Theorem C06_search_contract : forall c t ply a b r,
  bounded t -> 0 <= ply -> ply + height t <= 128 ->
  - MATE <= a -> a < b -> b <= MATE ->
  search_rel c t ply a b r ->
  (r <= a -> minimax ply t <= r) /\ (a < r < b -> r = minimax ply t) /\ (b <= r -> r <= minimax ply t).
Proof. exact search_contract. Qed.

(* the root search returns exactly the minimax value and a move that attains it *)
Theorem C06_root_exact : forall c chk kids v oi,
  bounded (Node chk None kids) -> kids <> [] ->
  root_rel c (Node chk None kids) v oi ->
  v = minimax 0 (Node chk None kids) /\
  exists i k, oi = Some i /\ nth_error kids i = Some k /\ v = root_score k.
Proof. exact root_exact. Qed.

(* all combinations of the sound switches (and all orderings) give the same root value,
   whether or not the tree contains quiescence (stand-pat) nodes *)
Theorem C06_switches_irrelevant : forall c1 c2 chk kids v1 i1 v2 i2,
  bounded (Node chk None kids) -> kids <> [] ->
  root_rel c1 (Node chk None kids) v1 i1 -> root_rel c2 (Node chk None kids) v2 i2 -> v1 = v2.
Proof. exact switches_irrelevant. Qed.

(* the executable model used by the correspondence run is an instance of the relation *)
Theorem C06_fn_is_rel : forall c t ply a b, search_rel c t ply a b (search_fn c t ply a b).
Proof. exact search_fn_rel. Qed.

Theorem C06_minimax_perm : forall ply chk st kids kids', Permutation.Permutation kids kids' ->
  minimax ply (Node chk st kids) = minimax ply (Node chk st kids').
Proof. exact minimax_perm. Qed.

Print Assumptions C06_search_contract.
Print Assumptions C06_root_exact.
Print Assumptions C06_switches_irrelevant.

(* tie to the source: the game-tree model ends a line exactly where the engine does - a child is a draw leaf
   only by repetition or the fifty-move clock, depth 0 hands over to quiescence/evaluation (gen/Sites_gen.v is
   regenerated on every run by tools/sites.py) *)
From FG.gen Require Import Sites_gen.
Theorem C06_sites_recognised : forallb (fun b => b) sites_C06 = true.
Proof. vm_compute. reflexivity. Qed.

(* tie to the source: the constants the model copies from the Go source equal what the running engine reports
   (gen/Tables_gen.v is regenerated on every run by `verifh dump-tables`) *)
From FG.gen Require Import Tables_gen.
From Coq Require Import ZArith NArith. (* consts *)
From FG Require ConstTie.
From FG Require GameTree.
Theorem C06_model_constants_dumped :
  GameTree.MATE = c_value_checkmate /\ GameTree.MAXPLY = c_max_depth /\
  GameTree.NA = c_value_na /\ (- GameTree.MATE)%Z = c_value_min /\ GameTree.MATE = c_value_max /\
  c_value_draw = 0%Z.
Proof. exact ConstTie.gametree_constants_dumped. Qed.
