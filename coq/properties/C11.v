(** C11 — Transposition table returns only what was stored for that key.
    Model: [FG.TTImpl] transcribes tt.go (Resize/Put/Probe/GetEntry/AgeEntries/Clear/Len/
    Hashfull) with explicit int8/int16 wrap-around over a sparse slot map; the abstract
    specification [spec] is a key-indexed partial map with the eviction rule. *)
From Coq Require Import ZArith NArith List Bool.
From FG Require Import TTImpl TTProofs.
Import ListNotations.
Open Scope Z_scope.

(* refinement: after ANY operation sequence a lookup equals the abstract map's answer *)
Theorem C11_probe_sound : forall ops k, k <> 0%N ->
  get_entry (exec ops) k = option_map (entry_of k) (spec_lookup ops k) /\
  snd (probe (exec ops) k) =
    option_map (fun s => entry_of k (s_set_age s (probe_age (sAge s)))) (spec_lookup ops k).
Proof. exact probe_sound. Qed.

(* a hit is exactly the last Put for that key, undisturbed since, with move, value, depth,
   type and mate-threat intact *)
Theorem C11_probe_last_put : forall ops k e, k <> 0%N ->
  get_entry (exec ops) k = Some e \/ snd (probe (exec ops) k) = Some e ->
  exists ops1 m d v vt mt ops2,
    ops = ops1 ++ OPut k m d v vt mt :: ops2 /\
    Forall (undisturbed k) ops2 /\
    eKey e = k /\ eDepth e = wrap8 d /\ eType e = vt /\ eMT e = mt /\
    (m <> 0%N -> -10000 <= wrap16 v <= 10000 ->
       ValueOf (eMove e) = wrap16 v /\ MoveOf (eMove e) = MoveOf m).
Proof. exact probe_sound_value. Qed.

(* never data stored under a different key (no guard needed) *)
Theorem C11_never_foreign : forall ops, Forall2 obs_ok ops (run ops).
Proof. exact never_foreign. Qed.

Theorem C11_value_roundtrip : forall m v, MoveOf m <> 0%N -> -10000 <= v <= 10000 ->
  ValueOf (SetValue m v) = v /\ MoveOf (SetValue m v) = MoveOf m.
Proof. exact value_roundtrip. Qed.

Theorem C11_mate_adjust : forall v ply, -10000 <= v <= 10000 -> 0 <= ply <= 128 ->
  (is_checkmate_value v = true -> Z.abs v + ply <= 10000) ->
  valueFromTT (valueToTT v ply) ply = v /\ is_valid (valueToTT v ply) = true.
Proof. exact mate_adjust. Qed.

Theorem C11_replace_policy : forall t k m d v vt mt,
  let i := hash t k in let e := slot_at t i in let t' := put t k m d v vt mt in
  cap t <> 0%N -> eKey e <> 0%N -> eKey e <> k ->
  ((d > eDepth e \/ (d = eDepth e /\ eAge e > 1)) ->
     slot_at t' i = Entry k (put_move m v) d 1 vt mt /\
     (forall j, j <> i -> slot_at t' j = slot_at t j) /\
     count t' = count t /\ mask t' = mask t /\ cap t' = cap t) /\
  (~ (d > eDepth e \/ (d = eDepth e /\ eAge e > 1)) -> t' = t).
Proof. exact replace_policy. Qed.

Theorem C11_count_exact : forall ops, Forall count_safe ops ->
  let t := exec ops in
  len t = occupied t /\ hashfull t = (if (cap t =? 0)%N then 0 else 1000 * occupied t / cap t)%N.
Proof. exact count_exact. Qed.

Theorem C11_capacity_exact : forall mb, 1 <= mb <= 65536 ->
  let c := capacity mb in
  (exists n, c = 2 ^ n)%N /\ (c * 16 <= Z.to_N mb * 1048576 < 2 * c * 16)%N.
Proof. exact capacity_exact. Qed.

Theorem C11_index_in_range : forall ops k, cap (exec ops) <> 0%N -> (hash (exec ops) k < cap (exec ops))%N.
Proof. exact index_in_range. Qed.

(* "the resident has aged" is read correctly for up to 126 consecutive ageings *)
Theorem C11_age_saturation : forall ops k e n, k <> 0%N -> get_entry (exec ops) k = Some e ->
  -128 <= eAge e -> eAge e + Z.of_nat n <= 127 ->
  get_entry (exec (ops ++ repeat OAge n)) k = Some (set_age e (eAge e + Z.of_nat n)).
Proof. exact age_saturation. Qed.

(* non-vacuity: the first Put of any key on the default table is found again *)
Theorem C11_put_then_get : forall k m d v vt mt,
  get_entry (exec [OPut k m d v vt mt]) k = Some (Entry k (put_move m (wrap16 v)) (wrap8 d) 1 vt mt).
Proof. exact put_then_get_fresh. Qed.

(* literal readings that the real code violates (witnesses also replayed on the engine) *)
Check probe_sound_refuted_key0.
Check count_exact_refuted_key0.
Check value_roundtrip_refuted.
Check mate_adjust_refuted.
Check age_wraps.

Print Assumptions C11_probe_sound.
Print Assumptions C11_probe_last_put.
Print Assumptions C11_never_foreign.
Print Assumptions C11_count_exact.
Print Assumptions C11_capacity_exact.
Print Assumptions C11_replace_policy.

(* the two constants the capacity theorems use are the engine's (dumped from the running engine on every run) *)
From FG.gen Require Import Tables_gen.
Theorem C11_constants_dumped :
  c_tt_entry_size = Z.of_N TTImpl.TtEntrySize /\ c_tt_entry_sizeof = Z.of_N TTImpl.TtEntrySize /\ c_tt_max_size_mb = TTImpl.MaxSizeInMB.
Proof. repeat split; reflexivity. Qed.

(* tie to the source: the constants the model copies from the Go source equal what the running engine reports
   (gen/Tables_gen.v is regenerated on every run by `verifh dump-tables`) *)
From Coq Require Import ZArith NArith. (* consts *)
From FG Require ConstTie.
From FG Require TTImpl.
Theorem C11_model_constants_dumped :
  TTImpl.ValueInf = c_value_inf /\ TTImpl.ValueMax = c_value_max /\ TTImpl.ValueCheckMate = c_value_checkmate /\ TTImpl.MaxDepth = c_max_depth /\ TTImpl.ValueCheckMateThreshold = c_value_checkmate_threshold /\ TTImpl.valueShift = c_value_shift /\ Z.of_N TTImpl.TtEntrySize = c_tt_entry_size /\ TTImpl.MaxSizeInMB = c_tt_max_size_mb /\
  TTImpl.ValueNA = c_value_na /\ TTImpl.ValueMin = c_value_min /\
  TTImpl.moveMask = c_move_mask /\ TTImpl.valueMask = c_value_mask /\ Z.of_N TTImpl.MB = c_mb.
Proof. exact ConstTie.ttimpl_constants_dumped. Qed.

(* tie of the mate-distance correction and of the capacity arithmetic to the running engine:
   gen/Tables2_gen.v is regenerated on every run by `verifh dump-tables2`; every number in it is computed by the
   engine through the hooks search.VerifValueToTT / search.VerifValueFromTT (alphabeta.go valueToTT / valueFromTT,
   with value.go IsCheckMateValue inside) and transpositiontable.VerifCapacity (the size arithmetic of Resize,
   math.Log2 / math.Floor on float64 included, nothing allocated). *)
From FG.gen Require Import Tables2_gen.

(* the samples: (v, ply, valueToTT(v, ply), valueFromTT(v, ply)) for every v within 12 of the mate band on both sides
   (threshold-12 .. checkmate+12, both signs), values around 0, the named constants and the int16 corners, with
   plies 0 1 2 3 63 64 127 128 129 255 and, for the band borders, plies that do not fit an int16 *)
Theorem C11_mate_adjust_dumped :
  (1000 <=? length c_tt_mate_samples)%nat = true /\
  forallb (fun '(v, p, a, b) => (valueToTT v p =? a) && (valueFromTT v p =? b)) c_tt_mate_samples = true /\
  (* not vacuous: both directions and both signs of the correction occur among the samples *)
  existsb (fun '(v, p, a, b) => (0 <? v) && (v <? a) && (b <? v)) c_tt_mate_samples = true /\
  existsb (fun '(v, p, a, b) => (v <? 0) && (a <? v) && (v <? b)) c_tt_mate_samples = true /\
  (* every value the model treats as a mate value, and both neighbours of the band, are sampled at ply 1 *)
  forallb (fun v => existsb (fun '(v', p, _, _) => (v' =? v) && (p =? 1)) c_tt_mate_samples &&
                    existsb (fun '(v', p, _, _) => (v' =? - v) && (p =? 1)) c_tt_mate_samples)
          (map (fun i => ValueCheckMateThreshold + Z.of_nat i) (seq 0 (Z.to_nat (ValueCheckMate - ValueCheckMateThreshold + 2)))) = true.
Proof. repeat split; vm_compute; reflexivity. Qed.

(* the mate-distance theorem on what the engine computes: on every dumped sample in the domain of C11_mate_adjust the
   engine's valueToTT result is valid and the model's valueFromTT takes it back *)
Theorem C11_mate_adjust_on_engine_samples :
  forallb (fun '(v, p, a, _) =>
     if (-10000 <=? v) && (v <=? 10000) && (0 <=? p) && (p <=? 128) &&
        (negb (is_checkmate_value v) || (Z.abs v + p <=? 10000))
     then (valueFromTT a p =? v) && is_valid a else true) c_tt_mate_samples = true.
Proof. vm_compute; reflexivity. Qed.

(* capacity: (sizeInMByte, maxNumberOfEntries, hashKeyMask) as Resize computes them, for every size 0..520 MB, around
   every power of two and 3*2^j up to MaxSizeInMB; this replaces the float-exactness ASSUMPTION of TTImpl.capacity
   (Floor(Log2(float64 x)) = N.log2 x) on the dumped sizes, among them every 2^j - 1 (the arguments whose logarithm
   is closest to an integer from below) *)
Theorem C11_capacity_dumped :
  (90 <=? length c_tt_capacity)%nat = true /\
  forallb (fun '(mb, c, m) =>
     (capacity mb =? c)%N && (cap (new_tt mb) =? c)%N &&
     ((c =? 0)%N || (mask (new_tt mb) =? m)%N)) c_tt_capacity = true /\
  forallb (fun j => existsb (fun '(mb, _, _) => mb =? 2 ^ Z.of_nat j - 1) c_tt_capacity &&
                    existsb (fun '(mb, _, _) => mb =? 2 ^ Z.of_nat j) c_tt_capacity &&
                    existsb (fun '(mb, _, _) => mb =? 2 ^ Z.of_nat j + 1) c_tt_capacity) (seq 1 8) = true /\
  existsb (fun '(mb, _, _) => mb =? 0) c_tt_capacity = true.
Proof. repeat split; vm_compute; reflexivity. Qed.

Print Assumptions C11_mate_adjust_dumped.
Print Assumptions C11_mate_adjust_on_engine_samples.
Print Assumptions C11_capacity_dumped.

(* ---- appended by tools/mkprops.py: frame corollaries ---- *)
(** frame corollaries: Clear forgets every stored key and keeps the geometry, a table without slots never answers, a probe that misses leaves the table unchanged *)
From Coq Require Import ZArith NArith List Bool.
From FG Require Import TTImpl TTCorollaries.

Theorem C11_clear_forgets :
  forall (t : tt) (k : N),
         k <> 0%N ->
         get_entry (clear t) k = None /\ snd (probe (clear t) k) = None /\ fst (probe (clear t) k) = clear t.
Proof. exact clear_forgets. Qed.

Theorem C11_clear_geometry :
  forall t : tt,
         cap (clear t) = cap t /\ mask (clear t) = mask t /\ len (clear t) = 0%N /\ hashfull (clear t) = 0%N.
Proof. exact clear_geometry. Qed.

Theorem C11_capacity_zero_silent :
  forall (t : tt) (k : N), cap t = 0%N -> get_entry t k = None /\ probe t k = (t, None).
Proof. exact capacity_zero_silent. Qed.

Theorem C11_probe_miss_frame :
  forall (t : tt) (k : N), snd (probe t k) = None -> fst (probe t k) = t.
Proof. exact probe_miss_frame. Qed.

Print Assumptions C11_clear_forgets.
Print Assumptions C11_clear_geometry.
Print Assumptions C11_capacity_zero_silent.
Print Assumptions C11_probe_miss_frame.
