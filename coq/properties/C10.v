(** C10 — draw detection is exact: the half-move clock equals plies since the last capture or pawn move, CheckRepetitions(n) is characterised exactly by the scanned history entries (with window lemmas and the two documented corner cases), HasInsufficientMaterial is characterised as a function of the piece counts. *)
From Coq Require Import NArith ZArith List Bool.
From FG Require Import Geom Rules FenSpec PosImpl PosTabs PosProofsA PosProofsB PosProofsC PosProofsD PosProofsE PosProofsF PosProofsG PosProofsH PosProofsI PosProofsJ PosProofs.
Import ListNotations.

Theorem C10_clock_exact :
  forall (t : tabs) (ms : list mv) (p : ipos),
         Inv t p ->
         seq_ok (abs p) ms ->
         (length (i_hist p) + length ms <= MaxHistory)%nat ->
         exists p' : ipos,
           do_moves t p ms = Some p' /\ HalfMoveClock p' = Z.of_N (since (Z.to_N (i_hmc p)) (flags (abs p) ms)).
Proof. exact clock_exact. Qed.

Theorem C10_since_last :
  forall (h : N) (fl : list bool) (k : nat), since h (fl ++ true :: repeat false k) = N.of_nat k.
Proof. exact since_last. Qed.

Theorem C10_since_none :
  forall (h : N) (k : nat), since h (repeat false k) = h + N.of_nat k.
Proof. exact since_none. Qed.

Theorem C10_repetition_scan :
  forall (p : ipos) (n : Z),
         (1 <= n)%Z -> check_repetitions p n = (n <=? matches (i_key p) (scanned p))%Z.
Proof. exact repetition_scan. Qed.

Theorem C10_window_lower :
  forall (n : nat) (l : list hstate) (c : Z),
         (length l <= n)%nat ->
         chain c l ->
         (Z.min (c / 2) (Z.of_nat (length (visited l false))) <=
          Z.of_nat (length (dec_prefix c (visited l false))))%Z.
Proof. exact window_lower. Qed.

Theorem C10_window_upper :
  forall (n : nat) (l : list hstate) (c : Z),
         (length l <= n)%nat ->
         (0 <= c)%Z -> chain c l -> (Z.of_nat (length (dec_prefix c (visited l false))) <= c / 2 + 1)%Z.
Proof. exact window_upper. Qed.

Theorem C10_material_exact :
  forall t : tabs,
         real_pvals t ->
         forall p : ipos,
         Coh t p ->
         let b := i_board p in
         insufficient_material t p = true <->
         insuff_counts (cnt b 2) (cnt b 3) (cnt b 4) (cnt b 5) (cnt b 6) (cnt b 10) 
           (cnt b 11) (cnt b 12) (cnt b 13) (cnt b 14).
Proof. exact material_exact. Qed.

Theorem C10_material_dead_positions :
  forall p : ipos,
         Coh real_tabs p ->
         let b := i_board p in
         cnt b 2 = 0%Z ->
         cnt b 10 = 0%Z ->
         cnt b 5 = 0%Z ->
         cnt b 13 = 0%Z ->
         cnt b 6 = 0%Z ->
         cnt b 14 = 0%Z ->
         (cnt b 3 + cnt b 4 <= 1)%Z /\ (cnt b 11 + cnt b 12)%Z = 0%Z \/
         (cnt b 3 + cnt b 4)%Z = 0%Z /\ (cnt b 11 + cnt b 12 <= 1)%Z \/
         cnt b 3 = 0%Z /\ cnt b 4 = 1%Z /\ cnt b 11 = 0%Z /\ cnt b 12 = 1%Z ->
         insufficient_material real_tabs p = true.
Proof. exact material_dead_positions. Qed.

Theorem C10_material_never_with_pawn_rook_queen :
  forall p : ipos,
         Coh real_tabs p ->
         let b := i_board p in
         (1 <= cnt b 2 + cnt b 10 + cnt b 5 + cnt b 13 + cnt b 6 + cnt b 14)%Z ->
         insufficient_material real_tabs p = false.
Proof. exact material_never_with_pawn_rook_queen. Qed.

Theorem C10_material_mating_material :
  forall p : ipos,
         Coh real_tabs p ->
         let b := i_board p in
         cnt b 2 = 0%Z ->
         cnt b 10 = 0%Z ->
         cnt b 5 = 0%Z ->
         cnt b 13 = 0%Z ->
         cnt b 6 = 0%Z ->
         cnt b 14 = 0%Z ->
         cnt b 3 = 1%Z /\ cnt b 4 = 1%Z /\ cnt b 11 = 0%Z /\ cnt b 12 = 0%Z \/
         cnt b 3 = 0%Z /\ cnt b 4 = 0%Z /\ cnt b 11 = 1%Z /\ cnt b 12 = 1%Z \/
         cnt b 3 = 0%Z /\ cnt b 4 = 2%Z /\ cnt b 11 = 0%Z /\ cnt b 12 = 0%Z \/
         cnt b 3 = 0%Z /\ cnt b 4 = 0%Z /\ cnt b 11 = 0%Z /\ cnt b 12 = 2%Z ->
         insufficient_material real_tabs p = false.
Proof. exact material_mating_material. Qed.

Theorem C10_scan_overrun_example :
  match after_ops start_pos [ODo (28 + 64 * 12); ODo (45 + 64 * 62)] with
         | Some p => (Z.of_nat (length (scanned p)) =? 1)%Z && (i_hmc p =? 1)%Z
         | None => false
         end = true.
Proof. exact scan_overrun_example. Qed.

Theorem C10_scan_miss_with_null_moves :
  match after_ops start_pos [ODoNull; ODoNull] with
         | Some p =>
             negb (check_repetitions p 1) &&
             match i_hist p with
             | _ :: h :: _ => i_key p =? h_key h
             | _ => false
             end
         | None => false
         end = true.
Proof. exact scan_miss_with_null_moves. Qed.

Theorem C10_repetition_example :
  match
           after_ops start_pos [ODo (21 + 64 * 6); ODo (45 + 64 * 62); ODo (6 + 64 * 21); ODo (62 + 64 * 45)]
         with
         | Some p => check_repetitions p 1 && negb (check_repetitions p 2)
         | None => false
         end = true.
Proof. exact repetition_example. Qed.

Print Assumptions C10_clock_exact.
Print Assumptions C10_repetition_scan.
Print Assumptions C10_window_lower.
Print Assumptions C10_window_upper.
Print Assumptions C10_material_exact.
Print Assumptions C10_material_dead_positions.

(* tie to the source: the constants the model copies from the Go source equal what the running engine reports
   (gen/Tables_gen.v is regenerated on every run by `verifh dump-tables`) *)
From FG.gen Require Import Tables_gen.
From Coq Require Import ZArith NArith. (* consts *)
From FG Require ConstTie.
From FG Require PosImpl.
Theorem C10_model_constants_dumped :
  PosImpl.GamePhaseMax = c_game_phase_max /\ Z.of_nat PosImpl.MaxHistory = c_max_moves.
Proof. exact ConstTie.posimpl_constants_dumped. Qed.

(* ---- appended by tools/mkprops.py: repetition corollaries ---- *)
(** repetition corollaries: the answer is monotone in n, needs two earlier plies per repetition, is false on an empty history, and is bounded by the half-move clock in move-only histories *)
From Coq Require Import NArith ZArith List Bool.
From FG Require Import Geom Rules FenSpec PosImpl PosTabs PosProofsJ PosProofs DrawCorollaries.
Import ListNotations.

Theorem C10_repetition_monotone :
  forall (p : ipos) (m n : Z),
         (1 <= m)%Z -> (m <= n)%Z -> check_repetitions p n = true -> check_repetitions p m = true.
Proof. exact repetition_monotone. Qed.

Theorem C10_repetition_needs_history :
  forall (p : ipos) (n : Z),
         (1 <= n)%Z -> check_repetitions p n = true -> (2 * n <= Z.of_nat (length (i_hist p)))%Z.
Proof. exact repetition_needs_history. Qed.

Theorem C10_repetition_fresh_position :
  forall (p : ipos) (n : Z), (1 <= n)%Z -> i_hist p = [] -> check_repetitions p n = false.
Proof. exact repetition_fresh_position. Qed.

Theorem C10_repetition_clock_bound :
  forall (p : ipos) (n : Z),
         (1 <= n)%Z ->
         (0 <= i_hmc p)%Z ->
         chain (i_hmc p) (i_hist p) -> check_repetitions p n = true -> (2 * (n - 1) <= i_hmc p)%Z.
Proof. exact repetition_clock_bound. Qed.

Theorem C10_repetition_clock_bound_applies :
  exists p : ipos,
           after_ops start_pos shuffle8 = Some p /\
           (0 <= i_hmc p)%Z /\
           chain (i_hmc p) (i_hist p) /\
           check_repetitions p 2 = true /\ check_repetitions p 3 = false /\ i_hmc p = 8%Z.
Proof. exact repetition_clock_bound_applies. Qed.

Print Assumptions C10_repetition_monotone.
Print Assumptions C10_repetition_needs_history.
Print Assumptions C10_repetition_fresh_position.
Print Assumptions C10_repetition_clock_bound.
Print Assumptions C10_repetition_clock_bound_applies.
