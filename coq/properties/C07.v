(** C07 — Mate and stalemate are scored only where there is really no legal move.
    Model: FG.Terminal transcribes the move loops of search and qsearch with a pruning oracle
    (futility counted in movesPruned before legality is known, LMP behind its threshold, other
    skips, illegal moves undone) and the terminal classification incl. the HasLegalMove probe. *)
From Coq Require Import List ZArith Bool Arith Lia.
From FG Require Import Terminal TerminalProofs.
Import ListNotations.

Theorem C07_terminal_sound :
  forall (in_check hl : bool) (thr : nat) (dec : nat -> ldec) (stop_end : bool) (flags : list bool),
         1 <= thr ->
         search_verdict true in_check hl thr dec stop_end flags <> VNone ->
         (hl = false \/ Forall (fun lg : bool => lg = false) flags) /\
         (search_verdict true in_check hl thr dec stop_end flags = VMate <-> in_check = true).
Proof. exact terminal_sound. Qed.

Theorem C07_terminal_sound_no_legal_move :
  forall (in_check : bool) (thr : nat) (dec : nat -> ldec) (stop_end : bool) (flags : list bool),
         1 <= thr ->
         search_verdict true in_check (existsb (fun lg : bool => lg) flags) thr dec stop_end flags <> VNone ->
         forall lg : bool, In lg flags -> lg = false.
Proof. exact terminal_sound_no_legal_move. Qed.

Theorem C07_qsearch_terminal_sound :
  forall (in_check : bool) (dec : nat -> qdec) (stop_end : bool) (flags : list bool)
           (nonquiet : list nat),
         qsearch_verdict in_check dec stop_end flags nonquiet <> VNone ->
         qsearch_verdict in_check dec stop_end flags nonquiet = VMate /\
         in_check = true /\ Forall (fun lg : bool => lg = false) flags.
Proof. exact qsearch_terminal_sound. Qed.

Theorem C07_root_terminal_spec :
  forall (in_check : bool) (legal : list N),
         (legal = [] -> root_terminal in_check legal = Some (None, if in_check then (- MATE)%Z else 0%Z)) /\
         (legal <> [] -> root_terminal in_check legal = None).
Proof. exact root_terminal_spec. Qed.

Theorem C07_terminal_refuted_without_probe :
  exists (in_check hl : bool) (thr : nat) (dec : nat -> ldec) (stop_end : bool) 
         (flags : list bool),
           1 <= thr /\
           hl = existsb (fun lg : bool => lg) flags /\
           search_verdict false in_check hl thr dec stop_end flags = VStalemate /\ In true flags.
Proof. exact terminal_refuted_without_probe. Qed.

Print Assumptions C07_terminal_sound.
Print Assumptions C07_terminal_sound_no_legal_move.
Print Assumptions C07_qsearch_terminal_sound.
Print Assumptions C07_root_terminal_spec.

(* tie to the source: every statement pattern the model transcribes is still recognised, in order,
   in /repo's current source (gen/Sites_gen.v is regenerated on every run by tools/sites.py) *)
From FG.gen Require Import Sites_gen.
Theorem C07_sites_recognised : forallb (fun b => b) sites_C07 = true.
Proof. vm_compute. reflexivity. Qed.

(* the named hypothesis [1 <= thr] discharged for the engine's own thresholds: gen/Tables_gen.v holds
   LmpMovesSearched(depth) for depth 0..2*MaxDepth as the running engine returns them (regenerated on every
   run); the move loop of [search] runs only at depth >= 1 *)
From FG.gen Require Import Tables_gen.
Definition lmp_thr (depth : nat) : nat := Z.to_nat (nth depth c_lmp_moves_searched 0%Z).

Theorem C07_lmp_threshold_positive :
  forall depth, 1 <= depth <= 2 * Z.to_nat c_max_depth -> 1 <= lmp_thr depth.
Proof.
  assert (H : forallb (fun d => Nat.leb 1 (lmp_thr d)) (seq 1 (2 * Z.to_nat c_max_depth)) = true)
    by (vm_compute; reflexivity).
  intros depth Hd. rewrite forallb_forall in H.
  apply Nat.leb_le, H, in_seq. lia.
Qed.

Theorem C07_terminal_sound_engine_thresholds :
  forall (depth : nat) (in_check hl : bool) (dec : nat -> ldec) (stop_end : bool) (flags : list bool),
         1 <= depth <= 2 * Z.to_nat c_max_depth ->
         search_verdict true in_check hl (lmp_thr depth) dec stop_end flags <> VNone ->
         (hl = false \/ Forall (fun lg : bool => lg = false) flags) /\
         (search_verdict true in_check hl (lmp_thr depth) dec stop_end flags = VMate <-> in_check = true).
Proof.
  intros depth in_check hl dec stop_end flags Hd.
  apply terminal_sound, C07_lmp_threshold_positive, Hd.
Qed.
Print Assumptions C07_terminal_sound_engine_thresholds.

(* tie to the source: the constants the model copies from the Go source equal what the running engine reports
   (gen/Tables_gen.v is regenerated on every run by `verifh dump-tables`) *)
From Coq Require Import ZArith NArith. (* consts *)
From FG Require ConstTie.
From FG Require Terminal.
Theorem C07_model_constants_dumped :
  Terminal.MATE = c_value_checkmate /\ Terminal.DRAW = c_value_draw.
Proof. exact ConstTie.terminal_constants_dumped. Qed.
