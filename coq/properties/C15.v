(** C15 — Static evaluation is pure, colour-symmetric and zero for dead material.
    Model: FG.EvalImpl transcribes evaluator.go (all switches, bit-exact binary64 interpolation,
    the shared tmpScore and every Evaluator field in state-passing style) over the mailbox position
    with the piece-square and value tables dumped from the engine on every run. *)
From Coq Require Import NArith ZArith List Bool Lia Floats.
From FG Require Import Geom Rules FenSpec EvalImpl EvalProofsA EvalProofsB EvalProofsC EvalProofsD EvalProofs.
Import ListNotations.
Open Scope Z_scope.

Theorem C15_eval_mirror :
  forall (cfg : eval_cfg) (p : pos) (gp : Z),
         legal_pos p = true -> evaluate cfg (mirror p) gp = evaluate cfg p gp.
Proof. exact eval_mirror. Qed.

Theorem C15_eval_mirror_wf :
  forall (cfg : eval_cfg) (p : pos) (gp : Z),
         pos_ok p = true ->
         one_king (brd p) WHITE -> one_king (brd p) BLACK -> evaluate cfg (mirror p) gp = evaluate cfg p gp.
Proof. exact eval_mirror_wf. Qed.

Theorem C15_eval_mirror_gp :
  forall (cfg : eval_cfg) (p : pos),
         legal_pos p = true -> evaluate cfg (mirror p) (game_phase (mirror p)) = evaluate cfg p (game_phase p).
Proof. exact eval_mirror_gp. Qed.

Theorem C15_eval_dead :
  forall (cfg : eval_cfg) (p : pos) (gp : Z),
         pos_ok p = true ->
         0 <= gp <= Tables_gen.c_game_phase_max -> insufficient_material p = true -> evaluate cfg p gp = Some 0.
Proof. exact eval_dead. Qed.

Theorem C15_eval_step_indep :
  forall (cfg : eval_cfg) (p : pos) (gp : Z) (zkey : N) (s1 s2 : estate),
         fst (eval_step cfg p gp zkey s1) = fst (eval_step cfg p gp zkey s2).
Proof. exact eval_step_indep. Qed.

Theorem C15_eval_pure :
  forall (cfg : eval_cfg) (p : pos) (gp : Z) (zkey : N) (s1 s2 : estate),
         zkey <> 0%N ->
         fst (eval_step cfg p gp zkey s1) = evaluate cfg p gp /\
         fst (eval_step cfg p gp zkey s2) = evaluate cfg p gp.
Proof. exact eval_pure. Qed.

Theorem C15_interp_odd :
  forall (m e : Z) (g : float), interp (- m) (- e) g = - interp m e g.
Proof. exact interp_odd. Qed.

Theorem C15_king_term_closed :
  forall (cfg : eval_cfg) (p : pos) (c : N),
         (c < 2)%N ->
         one_king (brd p) c ->
         king_term cfg (av_of p) (ring (brd p)) c =
         (if use_attacks cfg
          then
           let ne := popcnt (fun t : N => ring (brd p) c t && av_all (av_of p) (flip c) t) in
           let nd := popcnt (fun t : N => ring (brd p) c t && av_all (av_of p) c t) in
           let k :=
             b2z (0 <? popcnt (fun t : N => av_all (av_of p) c t && ring (brd p) (flip c) t))
               (king_ring_attacks_bonus cfg) in
           ((nd - ne) * king_defender_bonus cfg + k, (nd - ne) * king_defender_bonus cfg + k)
          else (0, 0)).
Proof. exact king_term_closed. Qed.

Print Assumptions C15_eval_mirror.
Print Assumptions C15_eval_dead.
Print Assumptions C15_eval_step_indep.
Print Assumptions C15_eval_pure.
Print Assumptions C15_interp_odd.
