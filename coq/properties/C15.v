(** C15 — Static evaluation is pure, colour-symmetric and zero for dead material.
    Model: FG.EvalImpl transcribes evaluator.go (all switches, bit-exact binary64 interpolation,
    the shared tmpScore and every Evaluator field in state-passing style) over the mailbox position
    with the piece-square and value tables dumped from the engine on every run. *)
From Coq Require Import NArith ZArith List Bool Lia Floats.
From FG Require Import Geom Rules FenSpec EvalImpl EvalProofsA EvalProofsB EvalProofsC EvalProofsD EvalProofs.
Import ListNotations.
Open Scope Z_scope.

Theorem C15_eval_mirror :
  forall (cfg : eval_cfg) (p : pos) (gp : Z),
         legal_pos p = true -> evaluate cfg (mirror p) gp = evaluate cfg p gp.
Proof. exact eval_mirror. Qed.

Theorem C15_eval_mirror_wf :
  forall (cfg : eval_cfg) (p : pos) (gp : Z),
         pos_ok p = true ->
         one_king (brd p) WHITE -> one_king (brd p) BLACK -> evaluate cfg (mirror p) gp = evaluate cfg p gp.
Proof. exact eval_mirror_wf. Qed.

Theorem C15_eval_mirror_gp :
  forall (cfg : eval_cfg) (p : pos),
         legal_pos p = true -> evaluate cfg (mirror p) (game_phase (mirror p)) = evaluate cfg p (game_phase p).
Proof. exact eval_mirror_gp. Qed.

Theorem C15_eval_dead :
  forall (cfg : eval_cfg) (p : pos) (gp : Z),
         pos_ok p = true ->
         0 <= gp <= Tables_gen.c_game_phase_max -> insufficient_material p = true -> evaluate cfg p gp = Some 0.
Proof. exact eval_dead. Qed.

Theorem C15_eval_step_indep :
  forall (cfg : eval_cfg) (p : pos) (gp : Z) (zkey : N) (s1 s2 : estate),
         fst (eval_step cfg p gp zkey s1) = fst (eval_step cfg p gp zkey s2).
Proof. exact eval_step_indep. Qed.

Theorem C15_eval_pure :
  forall (cfg : eval_cfg) (p : pos) (gp : Z) (zkey : N) (s1 s2 : estate),
         zkey <> 0%N ->
         fst (eval_step cfg p gp zkey s1) = evaluate cfg p gp /\
         fst (eval_step cfg p gp zkey s2) = evaluate cfg p gp.
Proof. exact eval_pure. Qed.

Theorem C15_interp_odd :
  forall (m e : Z) (g : float), interp (- m) (- e) g = - interp m e g.
Proof. exact interp_odd. Qed.

Theorem C15_king_term_closed :
  forall (cfg : eval_cfg) (p : pos) (c : N),
         (c < 2)%N ->
         one_king (brd p) c ->
         king_term cfg (av_of p) (ring (brd p)) c =
         (if use_attacks cfg
          then
           let ne := popcnt (fun t : N => ring (brd p) c t && av_all (av_of p) (flip c) t) in
           let nd := popcnt (fun t : N => ring (brd p) c t && av_all (av_of p) c t) in
           let k :=
             b2z (0 <? popcnt (fun t : N => av_all (av_of p) c t && ring (brd p) (flip c) t))
               (king_ring_attacks_bonus cfg) in
           ((nd - ne) * king_defender_bonus cfg + k, (nd - ne) * king_defender_bonus cfg + k)
          else (0, 0)).
Proof. exact king_term_closed. Qed.

Print Assumptions C15_eval_mirror.
Print Assumptions C15_eval_dead.
Print Assumptions C15_eval_step_indep.
Print Assumptions C15_eval_pure.
Print Assumptions C15_interp_odd.

(** ---- Tie of the switches that UCI cannot reach and of the default settings (design/12, item 3).
    The correspondence stream `eval_model_vs_engine` (verifh c15-cases) runs Evaluate under the 32
    combinations of the five switches and writes, per position, (switch vector, value) pairs; the
    generated file evaluates [CasesModels.eval_mismatches] (marker `M = []`) and
    [CasesModels.eval_defaults_mismatches] on the dumped content of config.Settings.Eval
    (marker `D = []`).  The theorems below say what the two markers mean. *)
From FG Require Import CasesLib CasesModels.
Open Scope Z_scope.

(* `M = []`: on every listed position and switch vector the model [evaluate] returns the engine's value *)
Theorem C15_eval_cases_check_sound :
  forall (cases : list (Coq.Strings.String.string * Z * list (N * Z))),
         eval_mismatches cases = [] ->
         forall fen gp l sw obs, In (fen, gp, l) cases -> In (sw, obs) l ->
         exists p, parse (str_of_string fen) = Some p /\ evaluate (cfg_of_sw sw) p gp = Some obs.
Proof. exact eval_cases_check_sound. Qed.

(* the per-vector check is EvalImpl.eval_case_full *)
Theorem C15_eval_case_is_eval_case_full :
  forall (fen : Coq.Strings.String.string) (gp : Z) (l : list (N * Z)),
         eval_case (fen, gp, l) =
         map fst (filter (fun x : N * Z =>
                            negb (eval_case_full (str_of_string fen) gp (N.testbit (fst x) 0%N) (N.testbit (fst x) 1%N)
                                                 (N.testbit (fst x) 2%N) (N.testbit (fst x) 3%N) (N.testbit (fst x) 4%N) (snd x))) l).
Proof.
  intros fen gp l. rewrite eval_case_eq. unfold eval_case_spec. f_equal. apply filter_ext. intros [sw obs]. reflexivity.
Qed.

(* the tabulated evaluation used for speed is the model *)
Theorem C15_evaluate_tab_eq :
  forall (cfg : eval_cfg) (p : pos) (gp : Z), evaluate_tab cfg p gp = evaluate cfg p gp.
Proof. exact evaluate_tab_eq. Qed.

(* the 32 vectors are all combinations of the five switches over the default numbers *)
Theorem C15_switch_vectors_cover :
  forall lz adv att mob kng : bool,
         exists sw : N, (sw < 32)%N /\ cfg_of_sw sw = cfg_switches default_cfg lz adv att mob kng.
Proof. exact cfg_of_sw_all. Qed.

(* `D = []`: the engine's start-up settings are the model's [default_cfg] (and the two unread
   pawn-cache fields have their declared defaults) *)
Theorem C15_default_cfg_check_sound :
  forall d : list Z, eval_defaults_mismatches d = [] -> d = pawn_cache_defaults ++ cfg_fields default_cfg.
Proof. exact eval_defaults_check_sound. Qed.

(* ... and the compared list determines the settings record: no field is left out *)
Theorem C15_cfg_fields_inj :
  forall c1 c2 : eval_cfg, cfg_fields c1 = cfg_fields c2 -> c1 = c2.
Proof. exact cfg_fields_inj. Qed.

(* evalconfig.go:61-91 as the model has it: UsePawnCache PawnCacheSize UseLazyEval LazyEvalThreshold Tempo
   UseAttacksInEval UseMobility MobilityBonus UseAdvancedPieceEval BishopPairBonus MinorBehindPawnBonus
   BishopPawnMalus BishopCenterAimBonus BishopBlockedMalus RookOnQueenFileBonus RookOnOpenFileBonus
   RookTrappedMalus KingRingAttacksBonus UseKingEval KingDangerMalus KingDefenderBonus *)
Theorem C15_default_cfg_fields :
  engine_fields default_cfg = [0; 64; 0; 700; 34; 0; 0; 5; 0; 20; 15; 5; 20; 40; 6; 25; 40; 10; 0; 50; 10].
Proof. reflexivity. Qed.

Print Assumptions C15_eval_cases_check_sound.
Print Assumptions C15_eval_case_is_eval_case_full.
Print Assumptions C15_evaluate_tab_eq.
Print Assumptions C15_switch_vectors_cover.
Print Assumptions C15_default_cfg_check_sound.
Print Assumptions C15_cfg_fields_inj.
Print Assumptions C15_default_cfg_fields.
