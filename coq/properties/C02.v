(** C02 — making a move yields the rule-defined successor position: PosImpl.do_move (transcription of position.go DoMove, tied to the engine by the pos-cases correspondence) refines Rules.make for every pseudo-legal move of every well-formed position, for any Zobrist/value tables. *)
From Coq Require Import NArith ZArith List Bool.
From FG Require Import Geom Rules FenSpec PosImpl PosTabs PosProofsA PosProofsB PosProofsC PosProofsD PosProofsE PosProofsF PosProofsG PosProofsH PosProofsI PosProofsJ PosProofs.
Import ListNotations.

Theorem C02_do_move_refines_pseudo :
  forall (t : tabs) (p : ipos) (m : mv),
         WF t p ->
         In m (pseudo (abs p)) ->
         room p ->
         exists p' : ipos,
           do_move t p (code m) = Some p' /\ abs p' = make (abs p) m /\ fen_of p' = print (make (abs p) m).
Proof. exact do_move_refines_pseudo. Qed.

Theorem C02_do_move_refines_legal :
  forall (t : tabs) (p : ipos) (m : mv),
         WF t p ->
         In m (legal (abs p)) ->
         room p ->
         exists p' : ipos,
           do_move t p (code m) = Some p' /\ abs p' = make (abs p) m /\ fen_of p' = print (make (abs p) m).
Proof. exact do_move_refines_legal. Qed.

Theorem C02_do_moves_refines :
  forall (t : tabs) (ms : list mv) (p : ipos),
         Inv t p ->
         seq_ok (abs p) ms ->
         (length (i_hist p) + length ms <= MaxHistory)%nat ->
         exists p' : ipos,
           do_moves t p ms = Some p' /\
           abs p' = play (abs p) ms /\ Inv t p' /\ length (i_hist p') = (length (i_hist p) + length ms)%nat.
Proof. exact do_moves_refines. Qed.

Theorem C02_do_move_total :
  forall (t : tabs) (p : ipos) (m : N),
         board_ok (i_board p) ->
         (length (i_hist p) < MaxHistory)%nat ->
         (mv_type m = 2 -> sq_to (mv_to m) (pawn_dir (cflip (at_ (i_board p) (mv_from m) / 8))) < 64) ->
         (mv_type m = 3 -> castle_info (mv_to m) <> None) -> do_move t p m = Some (do_move_raw t p m).
Proof. exact do_move_total. Qed.

Theorem C02_setup_inv :
  forall (t : tabs) (q : pos),
         spec_ok q ->
         Inv t (setup_of_spec t q) /\
         abs (setup_of_spec t q) = q /\
         i_hist (setup_of_spec t q) = [] /\
         i_flag (setup_of_spec t q) = 0%Z /\
         (phval_nonneg t -> i_phase (setup_of_spec t q) = phase_of t (brd q)).
Proof. exact setup_inv. Qed.

Theorem C02_pseudo_move_ok :
  forall (t : tabs) (p : ipos), WF t p -> forall m : mv, In m (pseudo (abs p)) -> move_ok p m.
Proof. exact pseudo_move_ok. Qed.

Theorem C02_inv_start :
  invb real_tabs (setup_of_spec real_tabs start_pos) = true.
Proof. exact inv_start. Qed.

Theorem C02_inv_kiwipete :
  invb real_tabs (setup_of_spec real_tabs kiwipete) = true.
Proof. exact inv_kiwipete. Qed.

Theorem C02_inv_after_castle_and_capture :
  match after_ops kiwipete [ODo 49414; ODo (12 + 64 * 40); ODoNull] with
         | Some p => invb real_tabs p && (Z.of_nat (length (i_hist p)) =? 3)%Z
         | None => false
         end = true.
Proof. exact inv_after_castle_and_capture. Qed.

Theorem C02_fen_roundtrip_kiwipete :
  fen_of (setup_of_spec real_tabs kiwipete) = fen FenStrings.kiwipete_s.
Proof. exact fen_roundtrip_kiwipete. Qed.

Print Assumptions C02_do_move_refines_pseudo.
Print Assumptions C02_do_move_refines_legal.
Print Assumptions C02_do_moves_refines.
Print Assumptions C02_do_move_total.
Print Assumptions C02_setup_inv.

(* tie to the source: the constants the model copies from the Go source equal what the running engine reports
   (gen/Tables_gen.v is regenerated on every run by `verifh dump-tables`) *)
From FG.gen Require Import Tables_gen.
From Coq Require Import ZArith NArith. (* consts *)
From FG Require ConstTie.
From FG Require PosImpl.
Theorem C02_model_constants_dumped :
  PosImpl.GamePhaseMax = c_game_phase_max /\ Z.of_nat PosImpl.MaxHistory = c_max_moves.
Proof. exact ConstTie.posimpl_constants_dumped. Qed.

(* tie to the source: the move-word masks and shifts that PosImpl uses literally (63 / 4032 / 12288 / 49152,
   shifts 6 / 12 / 14) are the engine's (dumped) *)
Theorem C02_move_layout_dumped :
  c_square_mask = 63%N /\ c_from_mask = 4032%N /\ c_from_shift = 6%N /\
  c_prom_type_mask = 12288%N /\ c_prom_type_shift = 12%N /\
  c_move_type_mask = 49152%N /\ c_type_shift = 14%N.
Proof. exact PosTabs.move_layout. Qed.

(* the hypothesis [phval_nonneg t] of C02_setup_inv holds for the engine's tables *)
Theorem C02_real_phval_nonneg : PosProofsA.phval_nonneg real_tabs.
Proof. exact PosTabs.real_phval_nonneg. Qed.
Print Assumptions C02_real_phval_nonneg.
