(** C14 — the search lifecycle is race-free, deadlock-free and isolated between searches: Lifecycle.v is a small-step model of search.go / uci.go send (controller goroutine, search goroutines, timer goroutines, clock) over the shared variables, semaphores and the output writer; the theorems quantify over EVERY schedule (reachable) and every call sequence. *)
From Coq Require Import List Bool Arith Lia.
From FG Require Import Lifecycle LifecycleProofs LifecycleProofs2.
Import ListNotations.

Theorem C14_inv_reachable :
  forall s : state, reachable s -> Inv s.
Proof. exact inv_reachable. Qed.

Theorem C14_start_while_running_rejected :
  forall (s : state) (l : limits),
         panicked s = false ->
         cpcv s = CIdle ->
         cur_call s = Some (CStart l) ->
         runFree s = false ->
         let s3 := run_sched s [TCtl; TCtl; TCtl] in
         same_search_state s s3 /\
         cpcv s3 = CIdle /\
         calls s3 = tl (calls s) /\
         cidx s3 = S (cidx s) /\ trace s3 = EStartRejected :: ECall (cidx s) :: trace s.
Proof. exact start_while_running_rejected. Qed.

Theorem C14_start_rejected_step :
  forall (s : state) (l : limits),
         panicked s = false ->
         cpcv s = CStTry ->
         cur_call s = Some (CStart l) ->
         runFree s = false ->
         exists s' : state,
           step s TCtl = Some s' /\
           cpcv s' = CRet (Some EStartRejected) /\
           same_search_state s s' /\ trace s' = trace s /\ calls s' = calls s.
Proof. exact start_rejected_step. Qed.

Theorem C14_start_rejected_never_blocks :
  forall s : state,
         panicked s = false ->
         cur_call s <> None ->
         cpcv s = CIdle \/
         cpcv s = CStTry /\ (exists l : limits, cur_call s = Some (CStart l)) \/
         (exists r : option event, cpcv s = CRet r) -> step s TCtl <> None.
Proof. exact start_rejected_never_blocks. Qed.

Theorem C14_one_result_per_start :
  forall s : state,
         reachable s ->
         length (results s) <= length (starts s) /\
         NoDup (map fst (results s)) /\
         (forall n : nat, In n (map fst (results s)) -> In n (start_ids (starts s))) /\
         (forall n : nat, finished s n -> count_occ Nat.eq_dec (map fst (results s)) n = 1).
Proof. exact one_result_per_start. Qed.

Theorem C14_result_belongs_to_start :
  forall (s : state) (n : nat) (r : reason),
         reachable s -> In (n, r) (results s) -> exists (c : nat) (l : limits), In (n, c, l) (starts s).
Proof. exact result_belongs_to_start. Qed.

Theorem C14_no_foreign_stop :
  forall (s : state) (n : nat) (r : reason),
         reachable s ->
         In (n, r) (results s) ->
         exists (cs : nat) (l : limits),
           In (n, cs, l) (starts s) /\
           match r with
           | RSelf => lPonder l || lInfinite l = false
           | RNodes => lNodes l = true /\ lPonder l || lInfinite l = false
           | RTimer _ tok (ByRun m) =>
               tok = n /\ m = n /\ lTimeControl l && negb (lPonder l) && negb (lInfinite l) = true
           | RTimer _ tok (ByPonderHit c) =>
               tok = n /\ cs < c <= cidx s /\ nth_error (allcalls s) c = Some CPonderHit /\ lPonder l = true
           | RStop c =>
               cs < c <= cidx s /\
               (nth_error (allcalls s) c = Some CStop \/ nth_error (allcalls s) c = Some CNewGame)
           | REnd => False
           end.
Proof. exact no_foreign_stop. Qed.

Theorem C14_no_stale_timer :
  forall (s : state) (n k tok : nat) (cr : creator),
         reachable s -> In (n, RTimer k tok cr) (results s) -> tok = n.
Proof. exact no_stale_timer. Qed.

Theorem C14_no_stale_stop :
  forall (s : state) (n c cs : nat) (l : limits),
         reachable s -> In (n, RStop c) (results s) -> In (n, cs, l) (starts s) -> cs < c.
Proof. exact no_stale_stop. Qed.

Theorem C14_infinite_not_before_stop :
  forall (s : state) (n : nat) (r : reason) (cs : nat) (l : limits),
         reachable s ->
         In (n, r) (results s) ->
         In (n, cs, l) (starts s) ->
         lPonder l || lInfinite l = true ->
         (exists c : nat,
            r = RStop c /\
            cs < c <= cidx s /\
            (nth_error (allcalls s) c = Some CStop \/ nth_error (allcalls s) c = Some CNewGame)) \/
         (exists k c : nat,
            r = RTimer k n (ByPonderHit c) /\ cs < c <= cidx s /\ nth_error (allcalls s) c = Some CPonderHit).
Proof. exact infinite_not_before_stop. Qed.

Theorem C14_result_sent_after_release :
  forall (s : state) (t : tid) (s' : state) (n : nat) (r : reason),
         reachable s ->
         step s t = Some s' ->
         results s' = (n, r) :: results s ->
         trace s' = EResult n :: trace s /\
         (forall th : sthread, In th (srch s') -> sid th <> n) /\
         (runFree s' = true \/
          holds_run (cpcv s') = true \/ (exists th : sthread, In th (srch s') /\ n < sid th)).
Proof. exact result_sent_after_release. Qed.

Theorem C14_go_after_bestmove_accepted :
  forall (s : state) (n : nat) (l : limits),
         reachable s ->
         In n (map fst (results s)) ->
         stopPtr s = n ->
         cpcv s = CStTry ->
         cur_call s = Some (CStart l) ->
         exists s' : state,
           step s TCtl = Some s' /\ cpcv s' = CStAcqInit /\ starts s' = (S n, cidx s, l) :: starts s.
Proof. exact go_after_bestmove_accepted. Qed.

Theorem C14_results_can_swap :
  exists (cs : list call) (sched : list tid),
           let s := run_sched (init true false false cs) sched in
           outLines s = [LBest 2; LBest 1] /\ results s = [(1, RSelf); (2, RSelf)] /\ calls s = [].
Proof. exact results_can_swap. Qed.

Theorem C14_race_free :
  forall (s : state) (t1 t2 : tid) (v : var), reachable s -> ~ race_at s t1 t2 v.
Proof. exact race_free. Qed.

Theorem C14_no_deadlock :
  forall (a b c : bool) (cs : list call) (s : state),
         well_formed_calls cs = true ->
         reachable_from (init a b c cs) s ->
         exists sched : list tid, controller_done (run_sched s sched) = true.
Proof. exact no_deadlock. Qed.

Theorem C14_no_deadlock_local :
  forall s : state,
         reachable s ->
         ctl_blocked s -> exists t : tid, thread_of t <> ThCtl /\ thread_of t <> ThClock /\ step s t <> None.
Proof. exact no_deadlock_local. Qed.

Theorem C14_blocked_controller_released_bound :
  forall s : state,
         reachable s ->
         InvJ s ->
         ctl_blocked s ->
         exists sched : list tid,
           forallb is_search_tid sched = true /\
           length sched <= 500 + 115 * length (senders s) /\ cstep (run_sched s sched) <> None.
Proof. exact blocked_controller_released_bound. Qed.

Theorem C14_output_never_muted :
  forall s : state, reachable s -> outErr s = false.
Proof. exact output_never_muted. Qed.

Print Assumptions C14_inv_reachable.
Print Assumptions C14_start_while_running_rejected.
Print Assumptions C14_start_rejected_never_blocks.
Print Assumptions C14_one_result_per_start.
Print Assumptions C14_result_belongs_to_start.
Print Assumptions C14_no_foreign_stop.
Print Assumptions C14_infinite_not_before_stop.
Print Assumptions C14_go_after_bestmove_accepted.
Print Assumptions C14_race_free.
Print Assumptions C14_no_deadlock.
Print Assumptions C14_blocked_controller_released_bound.
Print Assumptions C14_output_never_muted.

(* tie to the source: every statement pattern the model transcribes is still recognised, in order,
   in /repo's current source (gen/Sites_gen.v is regenerated on every run by tools/sites.py) *)
From FG.gen Require Import Sites_gen.
Theorem C14_sites_recognised : forallb (fun b => b) sites_C14 = true.
Proof. vm_compute. reflexivity. Qed.
