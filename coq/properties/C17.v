(** C17 — Move notation and move encoding round-trip losslessly.
    Models: FG.MoveEnc (packed 32-bit move words with int16 value arithmetic; every shift and mask is
    the constant dumped from the engine), FG.NotationImpl (GetMoveFromUci / GetMoveFromSan incl. hand
    written matchers for the two anchored regular expressions, validated against Go's regexp),
    FG.San (specification printers). *)
From Coq Require Import NArith ZArith List Bool Lia.
From FG Require Import Geom Rules FenSpec MoveEnc San NotationImpl NotationProofs.
Import ListNotations.

Theorem C17_encode_fields :
  forall (f t ty pr : N) (v : Z),
         f < 64 ->
         t < 64 ->
         ty < 4 ->
         pr <= 6 ->
         in_i16 v ->
         let m := CreateMoveValue f t ty pr v in
         From m = f /\
         To m = t /\
         MoveType m = ty /\ PromotionType m = clamp_prom pr /\ ValueOf m = v /\ MoveOf m = CreateMove f t ty pr.
Proof. exact encode_fields. Qed.

Theorem C17_encode_fields_novalue :
  forall f t ty pr : N,
         f < 64 ->
         t < 64 ->
         ty < 4 ->
         pr <= 6 ->
         let m := CreateMove f t ty pr in
         From m = f /\
         To m = t /\
         MoveType m = ty /\
         PromotionType m = clamp_prom pr /\ ValueOf m = Tables_gen.c_value_na /\ MoveOf m = m.
Proof. exact encode_fields_novalue. Qed.

Theorem C17_code_is_MoveOf :
  forall m : mv,
         mfrom m < 64 ->
         mto m < 64 ->
         mtype m < 4 ->
         3 <= mprom m <= 6 ->
         code m = MoveOf (CreateMove (mfrom m) (mto m) (mtype m) (mprom m)) /\
         (forall v : Z, in_i16 v -> code m = MoveOf (CreateMoveValue (mfrom m) (mto m) (mtype m) (mprom m) v)).
Proof. exact code_is_MoveOf. Qed.

Theorem C17_set_value_move_part :
  forall (m : N) (v : Z), MoveOf (SetValue m v) = MoveOf m.
Proof. exact set_value_move_part. Qed.

Theorem C17_set_value_value :
  forall (m : N) (v : Z), m <> 0 -> in_i16 v -> ValueOf (SetValue m v) = v.
Proof. exact set_value_value. Qed.

Theorem C17_set_value_none :
  forall v : Z, SetValue 0 v = 0.
Proof. exact set_value_none. Qed.

Theorem C17_uci_roundtrip :
  forall (p : pos) (m : mv),
         legal_pos p = true ->
         In m (legal p) -> exists m' : mv, from_uci p (uci_str m) = Some m' /\ code m' = code m.
Proof. exact uci_roundtrip. Qed.

Theorem C17_uci_strict_none :
  forall (p : pos) (s : str),
         (forall m : mv, In m (legal p) -> s <> uci_str m /\ s <> string_uci m) -> from_uci p s = None.
Proof. exact uci_strict_none. Qed.

Theorem C17_from_uci_exact :
  forall (p : pos) (s : str) (m : mv),
         from_uci p s = Some m <-> In m (legal p) /\ (s = uci_str m \/ s = string_uci m).
Proof. exact from_uci_exact. Qed.

Theorem C17_san_roundtrip :
  forall (p : pos) (m : mv),
         legal_pos p = true ->
         In m (legal p) ->
         forall d : str,
         deco_str d = true ->
         exists m' : mv, from_san p (san_str_nodeco p m ++ d) = Some m' /\ code m' = code m.
Proof. exact san_roundtrip. Qed.

Theorem C17_san_roundtrip_std :
  forall (p : pos) (m : mv), legal_pos p = true -> In m (legal p) -> from_san p (san_str p m) = Some m.
Proof. exact san_roundtrip_std. Qed.

Theorem C17_san_strict_none :
  forall (p : pos) (s : str),
         (forall m : mv, In m (legal p) -> ~ san_accepts p m s) -> from_san p s = None.
Proof. exact san_strict_none. Qed.

Theorem C17_from_san_exact :
  forall (p : pos) (s : str) (m : mv),
         legal_pos p = true ->
         from_san p s = Some m <->
         In m (legal p) /\
         san_accepts p m s /\ (forall m' : mv, In m' (legal p) -> san_accepts p m' s -> m' = m).
Proof. exact from_san_exact. Qed.

Theorem C17_san_ambiguous_none :
  forall (p : pos) (s : str) (f : san_fields) (m1 m2 : mv),
         san_find s = Some f ->
         In m1 (legal p) ->
         In m2 (legal p) ->
         m1 <> m2 -> san_fits p s f m1 = true -> san_fits p s f m2 = true -> from_san p s = None.
Proof. exact san_ambiguous_none. Qed.

Theorem C17_san_no_match_none :
  forall (p : pos) (s : str),
         san_find s = None \/
         (exists f : san_fields,
            san_find s = Some f /\ (forall m : mv, In m (legal p) -> san_fits p s f m = false)) ->
         from_san p s = None.
Proof. exact san_no_match_none. Qed.

Theorem C17_from_san_sound :
  forall (p : pos) (s : str) (m : mv),
         from_san p s = Some m ->
         In m (legal p) /\
         (exists f : san_fields,
            san_find s = Some f /\
            san_fits p s f m = true /\ (forall m' : mv, In m' (legal p) -> san_fits p s f m' = true -> m' = m)).
Proof. exact from_san_sound. Qed.

Print Assumptions C17_encode_fields.
Print Assumptions C17_set_value_move_part.
Print Assumptions C17_uci_roundtrip.
Print Assumptions C17_uci_strict_none.
Print Assumptions C17_san_roundtrip.
Print Assumptions C17_san_strict_none.
Print Assumptions C17_from_san_exact.
