(** C16 — No input crashes the engine: FEN and UCI parsing are total.
    Model: FG.FenImpl transcribes setupBoard / fen() byte for byte (TrimSpace, Split, the four
    regexes, the per-rank/file board loop, king count, en-passant fit, exact strconv.Atoi, ranges,
    the final not-in-check test); a write outside the board is the outcome Panic.
    (UCI dispatcher: FG.UciModel / UciProofs, added below when integrated.) *)
From Coq Require Import NArith ZArith List Bool Lia.
From FG Require Import Geom Rules FenSpec Oracle FenImpl FenProofs.
Import ListNotations.

Theorem C16_fen_total :
  forall s : str, setup s <> Panic.
Proof. exact fen_total. Qed.

Theorem C16_fen_wellformed :
  forall (s : str) (p : fpos), setup s = Ok p -> fpos_wf p = true.
Proof. exact fen_wellformed. Qed.

Theorem C16_fen_wellformed_spelled :
  forall (s : str) (p : fpos),
         setup s = Ok p ->
         length (f_board p) = 64%nat /\
         (forall pc : N, In pc (f_board p) -> pc = 0 \/ 1 <= pc <= 6 \/ 9 <= pc <= 14) /\
         count_code (f_board p) 1 = 1%nat /\
         count_code (f_board p) 9 = 1%nat /\
         f_side p < 2 /\
         f_cr p < 16 /\
         (f_ep p = 64 \/
          f_ep p < 64 /\
          f_ep p / 8 = (if f_side p =? 0 then 5 else 2) /\
          at_ (f_board p) (f_ep p) = 0 /\
          at_ (f_board p) (if f_side p =? 0 then f_ep p - 8 else f_ep p + 8) = 8 * (1 - f_side p) + 2) /\
         (0 <= f_hmc p < two63)%Z /\
         (1 <= f_nhm p <= 2000000)%Z /\
         ((f_nhm p + Z.of_N (f_side p)) mod 2)%Z = 1%Z /\
         is_attacked_spec
           {| brd := f_board p; stm := f_side p; cr := f_cr p; ep := f_ep p; hmc := 0; fmn := 0 |}
           (king_sq (f_board p) (1 - f_side p)) (f_side p) = false.
Proof. exact fen_wellformed_spelled. Qed.

Theorem C16_fen_reparse :
  forall (s : str) (p : fpos), setup s = Ok p -> setup (fen_of p) = Ok p.
Proof. exact fen_reparse. Qed.

Theorem C16_fen_roundtrip_legal :
  forall q : pos,
         legal_pos q = true ->
         hmc q < 2 ^ 63 ->
         1 <= fmn q <= 1000000 -> exists p : fpos, setup (print q) = Ok p /\ abs p = q /\ fen_of p = print q.
Proof. exact fen_roundtrip_legal. Qed.

Print Assumptions C16_fen_total.
Print Assumptions C16_fen_wellformed.
Print Assumptions C16_fen_reparse.
Print Assumptions C16_fen_roundtrip_legal.

(* ---- appended by tools/mkprops.py: UCI dispatcher ---- *)
(** UCI dispatcher: UciModel.handle / run transcribe handleReceivedCommand, positionCommand, setOptionCommand, readSearchLimits; UPanic = any Go panic (token index out of range, DoMove on a full history, nil position). from_uci is instantiated with NotationImpl.from_uci (C17). *)
From Coq Require Import NArith ZArith List Bool.
From FG Require Import Geom Rules FenSpec Oracle FenImpl NotationImpl NotationProofs RulesFacts UciModel UciProofs.
Import ListNotations.

Theorem C16_uci_total_notation :
  forall (st : ustate) (line : str), ust_ok st -> handle from_uci st line <> UPanic.
Proof. exact uci_total_notation. Qed.

Theorem C16_uci_total_reachable_notation :
  forall (c : cfg) (st : ustate) (lines : list str),
         init_state c = Some st -> run from_uci st lines <> UPanic.
Proof. exact uci_total_reachable_notation. Qed.

Theorem C16_isready_answered :
  forall (from_uci : pos -> str -> option mv) (st : ustate),
         handle from_uci st
           (b
              (String.String (Ascii.Ascii true false false true false true true false)
                 (String.String (Ascii.Ascii true true false false true true true false)
                    (String.String (Ascii.Ascii false true false false true true true false)
                       (String.String (Ascii.Ascii true false true false false true true false)
                          (String.String (Ascii.Ascii true false false false false true true false)
                             (String.String (Ascii.Ascii false false true false false true true false)
                                (String.String (Ascii.Ascii true false false true true true true false)
                                   String.EmptyString)))))))) = Done st [OReadyOk] Continue.
Proof. exact isready_answered. Qed.

Theorem C16_isready_ws_answered_notation :
  (forall (q : pos) (s : str) (m : mv), from_uci q s = Some m -> In m (legal q)) ->
         forall (st : ustate) (pre post : list N),
         forallb is_ascii_space pre = true ->
         forallb is_ascii_space post = true ->
         handle from_uci st
           (pre ++
            b
              (String.String (Ascii.Ascii true false false true false true true false)
                 (String.String (Ascii.Ascii true true false false true true true false)
                    (String.String (Ascii.Ascii false true false false true true true false)
                       (String.String (Ascii.Ascii true false true false false true true false)
                          (String.String (Ascii.Ascii true false false false false true true false)
                             (String.String (Ascii.Ascii false false true false false true true false)
                                (String.String (Ascii.Ascii true false false true true true true false)
                                   String.EmptyString))))))) ++ post) = Done st [OReadyOk] Continue.
Proof. exact isready_ws_answered_notation. Qed.

Theorem C16_position_kept_on_error_notation :
  forall (st : ustate) (toks : list str) (st' : ustate) (out : list out_line) (q : status),
         position_cmd from_uci st toks = Done st' out q -> In (OInfo 10) out \/ In (OInfo 11) out -> st' = st.
Proof. exact position_kept_on_error_notation. Qed.

Theorem C16_position_invalid_fen_reported :
  forall (from_uci : pos -> str -> option mv) (st : ustate) (t0 t1 : str) (rest : list str) 
           (fen : str) (rem : list str) (e : N),
         position_base t1 rest = Some (fen, rem) ->
         setup fen = Err e -> position_cmd from_uci st (t0 :: t1 :: rest) = Done st [OInfo 11] Continue.
Proof. exact position_invalid_fen_reported. Qed.

Theorem C16_position_moves_spec_notation :
  forall (st : ustate) (t0 t1 : str) (rest : list str) (fen : str) (toks : list str) 
           (p0 : fpos) (st' : ustate) (out : list out_line) (q : status),
         position_base t1 rest =
         Some
           (fen,
            b
              (String.String (Ascii.Ascii true false true true false true true false)
                 (String.String (Ascii.Ascii true true true true false true true false)
                    (String.String (Ascii.Ascii false true true false true true true false)
                       (String.String (Ascii.Ascii true false true false false true true false)
                          (String.String (Ascii.Ascii true true false false true true true false)
                             String.EmptyString))))) :: toks) ->
         setup fen = Ok p0 ->
         (f_hmc p0 + Z.of_nat (length toks) < two63 - 1)%Z ->
         position_cmd from_uci st (t0 :: t1 :: rest) = Done st' out q ->
         (~ In (OInfo 14) out -> abs (u_pos st') = play from_uci (abs p0) toks) /\
         ((f_nhm p0 + Z.of_nat (length toks) <= 2000000)%Z -> ~ In (OInfo 14) out).
Proof. exact position_moves_spec_notation. Qed.

Theorem C16_position_is_fold_notation :
  forall (st : ustate) (t0 t1 : str) (rest : list str) (fen : str) (toks : list str) 
           (ms : list mv) (p0 : fpos) (st' : ustate) (out : list out_line) (q : status),
         position_base t1 rest =
         Some
           (fen,
            b
              (String.String (Ascii.Ascii true false true true false true true false)
                 (String.String (Ascii.Ascii true true true true false true true false)
                    (String.String (Ascii.Ascii false true true false true true true false)
                       (String.String (Ascii.Ascii true false true false false true true false)
                          (String.String (Ascii.Ascii true true false false true true true false)
                             String.EmptyString))))) :: toks) ->
         setup fen = Ok p0 ->
         plays from_uci (abs p0) toks ms ->
         (f_hmc p0 + Z.of_nat (length toks) < two63 - 1)%Z ->
         (f_nhm p0 + Z.of_nat (length toks) <= 2000000)%Z ->
         position_cmd from_uci st (t0 :: t1 :: rest) = Done st' out q ->
         abs (u_pos st') = fold_left make ms (abs p0) /\ (u_hist st' <= RebaseAt)%nat /\ u_cfg st' = u_cfg st.
Proof. exact position_is_fold_notation. Qed.

Theorem C16_setoption_exact :
  forall (st : ustate) (toks : list str) (name value : str) (h : handler),
         setoption_parse toks = Some (name, value) ->
         lookup name option_table = Some h ->
         exists out : list out_line,
           setoption_cmd st toks =
           Done {| u_pos := u_pos st; u_hist := u_hist st; u_cfg := apply_handler h value (u_cfg st) |} out
             Continue.
Proof. exact setoption_exact. Qed.

Theorem C16_apply_handler_field :
  forall (h : handler) (v : str) (c : cfg) (f : field),
         handler_field h = Some f -> apply_handler h v c f = handler_value h v.
Proof. exact apply_handler_field. Qed.

Theorem C16_apply_handler_frame :
  forall (h : handler) (v : str) (c : cfg) (g : field),
         handler_field h <> Some g -> apply_handler h v c g = c g.
Proof. exact apply_handler_frame. Qed.

Theorem C16_setoption_button :
  forall (k : N) (v : str) (c : cfg), apply_handler (HButton k) v c = c.
Proof. exact setoption_button. Qed.

Theorem C16_setoption_unknown :
  forall (st : ustate) (toks : list str) (name value : str),
         setoption_parse toks = Some (name, value) ->
         lookup name option_table = None -> setoption_cmd st toks = Done st [OInfo 2] Continue.
Proof. exact setoption_unknown. Qed.

Theorem C16_setoption_malformed :
  forall (st : ustate) (toks : list str),
         setoption_parse toks = None -> setoption_cmd st toks = Done st [OInfo 1] Continue.
Proof. exact setoption_malformed. Qed.

Theorem C16_setoption_keeps_position :
  forall (st : ustate) (toks : list str) (st' : ustate) (out : list out_line) (q : status),
         setoption_cmd st toks = Done st' out q -> u_pos st' = u_pos st /\ u_hist st' = u_hist st.
Proof. exact setoption_keeps_position. Qed.

Theorem C16_legal_keeps_safe :
  forall (q : pos) (m : mv), safe_pos q = true -> In m (legal q) -> safe_pos (make q m) = true.
Proof. exact legal_keeps_safe. Qed.

Theorem C16_reachable_legal_pos :
  forall (p : pos) (ms : list mv),
         legal_pos p = true -> legal_line p ms -> legal_pos (fold_left make ms p) = true.
Proof. exact reachable_legal_pos. Qed.

Theorem C16_make_preserves_legal_pos :
  forall (p : pos) (m : mv), legal_pos p = true -> In m (legal p) -> legal_pos (make p m) = true.
Proof. exact make_preserves_legal_pos. Qed.

Print Assumptions C16_uci_total_notation.
Print Assumptions C16_uci_total_reachable_notation.
Print Assumptions C16_isready_ws_answered_notation.
Print Assumptions C16_position_kept_on_error_notation.
Print Assumptions C16_position_is_fold_notation.
Print Assumptions C16_setoption_exact.
Print Assumptions C16_legal_keeps_safe.
Print Assumptions C16_reachable_legal_pos.
Print Assumptions C16_make_preserves_legal_pos.

(* tie to the source: the constants the model copies from the Go source equal what the running engine reports
   (gen/Tables_gen.v is regenerated on every run by `verifh dump-tables`) *)
From FG.gen Require Import Tables_gen.
From Coq Require Import ZArith NArith. (* consts *)
From FG Require ConstTie.
From FG Require UciModel.
Theorem C16_model_constants_dumped :
  Z.of_nat UciModel.MaxMoves = c_max_moves /\ Z.of_nat UciModel.RebaseAt = (c_max_moves - c_max_depth - 2)%Z.
Proof. exact ConstTie.ucimodel_constants_dumped. Qed.
