(** C16 — No input crashes the engine: FEN and UCI parsing are total.
    Model: FG.FenImpl transcribes setupBoard / fen() byte for byte (TrimSpace, Split, the four
    regexes, the per-rank/file board loop, king count, en-passant fit, exact strconv.Atoi, ranges,
    the final not-in-check test); a write outside the board is the outcome Panic.
    (UCI dispatcher: FG.UciModel / UciProofs, added below when integrated.) *)
From Coq Require Import NArith ZArith List Bool Lia.
From FG Require Import Geom Rules FenSpec Oracle FenImpl FenProofs.
Import ListNotations.

Theorem C16_fen_total :
  forall s : str, setup s <> Panic.
Proof. exact fen_total. Qed.

Theorem C16_fen_wellformed :
  forall (s : str) (p : fpos), setup s = Ok p -> fpos_wf p = true.
Proof. exact fen_wellformed. Qed.

Theorem C16_fen_wellformed_spelled :
  forall (s : str) (p : fpos),
         setup s = Ok p ->
         length (f_board p) = 64%nat /\
         (forall pc : N, In pc (f_board p) -> pc = 0 \/ 1 <= pc <= 6 \/ 9 <= pc <= 14) /\
         count_code (f_board p) 1 = 1%nat /\
         count_code (f_board p) 9 = 1%nat /\
         f_side p < 2 /\
         f_cr p < 16 /\
         (f_ep p = 64 \/
          f_ep p < 64 /\
          f_ep p / 8 = (if f_side p =? 0 then 5 else 2) /\
          at_ (f_board p) (f_ep p) = 0 /\
          at_ (f_board p) (if f_side p =? 0 then f_ep p - 8 else f_ep p + 8) = 8 * (1 - f_side p) + 2) /\
         (0 <= f_hmc p < two63)%Z /\
         (1 <= f_nhm p <= 2000000)%Z /\
         ((f_nhm p + Z.of_N (f_side p)) mod 2)%Z = 1%Z /\
         is_attacked_spec
           {| brd := f_board p; stm := f_side p; cr := f_cr p; ep := f_ep p; hmc := 0; fmn := 0 |}
           (king_sq (f_board p) (1 - f_side p)) (f_side p) = false.
Proof. exact fen_wellformed_spelled. Qed.

Theorem C16_fen_reparse :
  forall (s : str) (p : fpos), setup s = Ok p -> setup (fen_of p) = Ok p.
Proof. exact fen_reparse. Qed.

Theorem C16_fen_roundtrip_legal :
  forall q : pos,
         legal_pos q = true ->
         hmc q < 2 ^ 63 ->
         1 <= fmn q <= 1000000 -> exists p : fpos, setup (print q) = Ok p /\ abs p = q /\ fen_of p = print q.
Proof. exact fen_roundtrip_legal. Qed.

Print Assumptions C16_fen_total.
Print Assumptions C16_fen_wellformed.
Print Assumptions C16_fen_reparse.
Print Assumptions C16_fen_roundtrip_legal.
