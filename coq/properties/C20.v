(** C20 — Book cache: exact round trip and tolerance of any damaged cache file.
    Model: FG.CacheModel — control flow of Initialize/initialize/loadFromCache/saveToCache with the
    package mutex as a boolean and the cache file as Missing | Good m | Bad j; gob is abstracted as
    an injective codec (codec_roundtrip) whose strict prefixes do not decode (prefix_undecodable). *)
From Coq Require Import NArith List Bool.
From stdpp Require Import base option fin_maps nmap.
From FG Require Import BookModel CacheModel.
Import ListNotations.
Local Open Scope N_scope.

Theorem C20_cache_roundtrip :
  ∀ (m : Nmap entry) (s : st),
           lock s = false
           → bmap s = Some m
             → ∃ s1 : st,
                 saveToCache no_faults s = Done (s1, false)
                 ∧ cache s1 = Good m
                   ∧ lock s1 = false
                     ∧ (∀ s2 : st,
                          lock s2 = false
                          → cache s2 = cache s1
                            → bmap s2 = None ∨ bmap s2 = Some ∅ ∨ bmap s2 = Some m
                              → ∃ s3 : st,
                                  loadFromCache s2 = Done (s3, true, false)
                                  ∧ bmap s3 = Some m ∧ lock s3 = false ∧ cache s3 = Good m).
Proof. exact cache_roundtrip. Qed.

Theorem C20_lock_released_on_every_path :
  ∀ (build : Nmap entry) (nlines : nat) (f : faults) (src_ok useCache recreate : bool) (s : st),
           lock s = false
           → match Initialize build nlines loadFromCache f src_ok useCache recreate s with
             | Done (s', _) => lock s' = false
             | Hang => False
             | Panic held => write_fails f = true ∧ held = true
             end.
Proof. exact lock_released_on_every_path. Qed.

Theorem C20_cache_any_state :
  ∀ (build : Nmap entry) (nlines : nat) (useCache recreate : bool) (c : cfile),
           cache_state_ok build c
           → ∃ s' : st,
               Initialize build nlines loadFromCache no_faults true useCache recreate (fresh c) =
               Done (s', false)
               ∧ lock s' = false
                 ∧ bmap s' = Some build
                   ∧ (useCache = true → cache s' = Good build) ∧ (useCache = false → cache s' = c).
Proof. exact cache_any_state. Qed.

Theorem C20_cache_any_state_again :
  ∀ (build : Nmap entry) (nlines : nat) (useCache recreate : bool) (c : cfile) 
           (prior : option (Nmap entry)),
           cache_state_ok build c
           → prior = None ∨ prior = Some ∅ ∨ prior = Some build
             → ∃ s' : st,
                 Initialize build nlines loadFromCache no_faults true useCache recreate
                   {| lock := false; bmap := prior; initialized := false; cache := c |} = 
                 Done (s', false) ∧ lock s' = false ∧ bmap s' = Some build.
Proof. exact cache_any_state_again. Qed.

Theorem C20_cache_any_content :
  ∀ (encode : Nmap entry → list N) (decode : list N → option (Nmap entry) → option (Nmap entry) * bool),
           (∀ (m : Nmap entry) (cur : option (Nmap entry)),
              decode (encode m) cur = (Some (gob_into cur m), true))
           → (∀ (m : Nmap entry) (n : nat) (cur : option (Nmap entry)),
                (n < length (encode m))%nat → (decode (take n (encode m)) cur).2 = false)
             → ∀ (build : Nmap entry) (nlines : nat) (content : option (list N)),
                 content = None
                 ∨ (∃ n : nat, (n < length (encode build))%nat ∧ content = Some (take n (encode build)))
                   ∨ content = Some (encode build)
                 → ∃ s' : st,
                     Initialize build nlines loadFromCache no_faults true true false
                       (fresh (file_state decode content None)) = Done (s', false)
                     ∧ lock s' = false ∧ bmap s' = Some build ∧ cache s' = Good build.
Proof. exact cache_any_content. Qed.

Theorem C20_two_inits_after_failed_load :
  ∀ (build : Nmap entry) (nlines : nat) (j : option (Nmap entry)),
           ∃ s1 : st,
             Initialize build nlines loadFromCache no_faults true true false (fresh (Bad j)) = Done (s1, false)
             ∧ initialized s1 = true
               ∧ cache s1 = Good build
                 ∧ lock s1 = false
                   ∧ bmap s1 = Some build
                     ∧ Initialize build nlines loadFromCache no_faults true true false s1 = Done (s1, false).
Proof. exact two_inits_after_failed_load. Qed.

Theorem C20_cache_refuted_old :
  ∃ (build : Nmap entry) (nlines : nat) (c : cfile),
           Initialize build nlines loadFromCache_old no_faults true true false (fresh c) = Hang.
Proof. exact cache_refuted_old. Qed.

Theorem C20_initialized_not_set_after_cache_hit :
  ∀ (build : Nmap entry) (nlines : nat),
           ∃ s1 : st,
             Initialize build nlines loadFromCache no_faults true true false (fresh (Good build)) =
             Done (s1, false) ∧ initialized s1 = false ∧ bmap s1 = Some build.
Proof. exact initialized_not_set_after_cache_hit. Qed.

Theorem C20_stale_cache_is_trusted :
  let old := {[1 := {| cnt := 5; succs := [] |}]} in
         let new := {[1 := {| cnt := 6; succs := [] |}]} in
         ∃ s1 : st,
           Initialize new 1 loadFromCache no_faults true true false (fresh (Good old)) = Done (s1, false)
           ∧ bmap s1 = Some old.
Proof. exact stale_cache_is_trusted. Qed.

Theorem C20_save_write_error_panics :
  ∀ (build : Nmap entry) (nlines : nat) (c : cfile),
           cache_state_ok build c
           → c ≠ Good build
             → Initialize build nlines loadFromCache {| create_fails := false; write_fails := true |} true true
                 false (fresh c) = Panic true.
Proof. exact save_write_error_panics. Qed.

Print Assumptions C20_cache_roundtrip.
Print Assumptions C20_lock_released_on_every_path.
Print Assumptions C20_cache_any_state.
Print Assumptions C20_cache_any_content.

(* tie to the source: every statement pattern the model transcribes is still recognised, in order,
   in /repo's current source (gen/Sites_gen.v is regenerated on every run by tools/sites.py) *)
From FG.gen Require Import Sites_gen.
Theorem C20_sites_recognised : forallb (fun b => b) sites_C20 = true.
Proof. vm_compute. reflexivity. Qed.
