(** * MovegenProofsODEvasion: the on demand generator in evasion mode on a chess position (C08).

    PROVED (every legal position, modes 1 / 2 / 3, every sort that permutes, start states covered
    by [od_start_ok]; evasion = true):
    - [od_chess_evasion]  the phased generator terminates without index panic and
        * hands out only the PV move (if selected for the mode) and moves of the NON-evasion batch
          list of the mode — all pseudo-legal;
        * hands out every move of the evasion batch list (so it omits only moves the batch evasion
          generator omits, i.e. illegal ones when in check);
        * the PV move comes first; nothing is handed out twice unless the PV move is not a move
          of the evasion batch list.
      The phased list may be LARGER than the batch evasion list: after skipping a PV move that was
      the last move of its stage list AFTER sorting, GetNextMove refills with evasion = false
      (movegen.go:283), so the following stages up to the next non-empty one are generated
      unfiltered.  With the engine's sort values this happens exactly when the PV move is the
      only move of its stage, or a king capture (stage od3 has no updateSortValues, so the PV
      move is not moved to the front there) that sorts last.  MovegenExamples.refill_corner_*
      exhibit it on 3Bk3/1K3R1b/2Q5/6Pb/3P1p2/P2P2n1/5pp1/4q3 b - - 4 38 (engine and model
      agree move by move).
    - [od_chess_evasion_legal]  in check, with a legality oracle that agrees with [Rules.is_legal]
      on pseudo-legal moves, and a PV move that (if selected) is a move of the evasion batch list:
      no move is handed out twice and the legal moves among the handed out ones are, as a
      multiset, exactly the legal move list. *)
From Coq Require Import NArith ZArith List Bool Lia ZifyN ZifyBool Permutation.
From FG Require Import Word64 Geom Tables TablesCorrect ShiftCorrect Rules Oracle BitView
                       AttacksImpl AttacksLemmas AttacksProofs AttacksMoves AttacksCheckProofs AttacksLegalProofs
                       MoveEnc SqListFacts MovegenImpl MovegenLemmas MovegenSpec
                       MovegenProofsOD MovegenProofsPieces MovegenProofsPawns MovegenProofsMain
                       MovegenMakeLegal MovegenProofsLegal MovegenProofsODChess MovegenProofsEvasion
                       MovegenProofsEvasionComplete.
Import ListNotations.
Open Scope N_scope.

Lemma chess_stage_noev prom_nq v k evt : chess_stage prom_nq v k false evt = chess_stage prom_nq v k false 0.
Proof. unfold chess_stage. repeat match goal with |- context [if ?x then _ else _] => destruct x end; reflexivity. Qed.

Section ODEvasion.
Variable prom_nq : bool.
Variable p : pos.
Hypothesis Hlegal : legal_pos p = true.
Variable key : N.
Variable srt : odstate -> list N -> list N.
Hypothesis srt_perm : forall st l, Permutation (srt st l) l.

Local Notation v := (view_of_spec p).
Local Notation env := (chess_env prom_nq (view_of_spec p) key srt).
Local Notation evt := (evasion_targets_spec p).
Local Notation k0 := (king_sq (brd p) (stm p)).
Local Notation cmp := (comp prom_nq p).
Local Notation kp := (comp_keep p).

Lemma env_evt : e_evt env = evt.
Proof. cbn [e_evt chess_env]. now rewrite (evasion_targets_some p Hlegal). Qed.

(* the components each stage generates *)
Definition ids (k : N) : list nat :=
  if k =? OD_1 then [0; 1; 2; 3; 4; 5; 6]%nat else if k =? OD_2 then [8]%nat else if k =? OD_3 then [7]%nat
  else if k =? OD_5 then [9; 10; 11]%nat else if k =? OD_6 then [12]%nat else if k =? OD_7 then [14]%nat
  else if k =? OD_8 then [13]%nat else [].

Lemma pawn1_nonev : gen_pawn_moves prom_nq v 1 false 0 = Some (concat (map cmp [0; 1; 2; 3; 4; 5; 6]%nat)).
Proof.
  unfold gen_pawn_moves. replace (has_nq 1) with true by reflexivity. replace (has_q 1) with false by reflexivity.
  unfold gen_pawn_nonquiet.
  rewrite (gen_captures_eq p Hlegal DW (or_introl eq_refl)), (gen_captures_eq p Hlegal DE (or_intror eq_refl)). cbn [bind].
  rewrite (ep_part p Hlegal). cbn [bind]. rewrite (gen_pawn_promnq_eq prom_nq p Hlegal). cbn [bind map concat].
  rewrite (comp_0 prom_nq p), (comp_1 prom_nq p), (comp_2 prom_nq p), (comp_3 prom_nq p), (comp_4 prom_nq p),
          (comp_5 prom_nq p), (comp_6 prom_nq p).
  rewrite !app_nil_r, <- !app_assoc. reflexivity.
Qed.

Lemma pawn2_nonev : gen_pawn_moves prom_nq v 2 false 0 = Some (concat (map cmp [9; 10; 11]%nat)).
Proof.
  unfold gen_pawn_moves. replace (has_nq 2) with false by reflexivity. replace (has_q 2) with true by reflexivity.
  cbn [bind]. rewrite (gen_pawn_quiet_eq prom_nq p Hlegal). cbn [bind map concat].
  rewrite (comp_9 prom_nq p), (comp_10 prom_nq p), (comp_11 prom_nq p). rewrite !app_nil_r. reflexivity.
Qed.

Lemma pawn1_ev : gen_pawn_moves prom_nq v 1 true evt =
  Some (concat (map (fun i => filter (kp i) (cmp i)) [0; 1; 2; 3; 4; 5; 6]%nat)).
Proof.
  unfold gen_pawn_moves. replace (has_nq 1) with true by reflexivity. replace (has_q 1) with false by reflexivity.
  unfold gen_pawn_nonquiet.
  rewrite (ev_captures p Hlegal evt DW (or_introl eq_refl)), (ev_captures p Hlegal evt DE (or_intror eq_refl)). cbn [bind].
  rewrite (ep_part p Hlegal). cbn [bind]. rewrite (ev_promnq prom_nq p Hlegal evt). cbn [bind map concat].
  rewrite (keep_mask p 0 ltac:(clear; tauto)), (keep_mask p 1 ltac:(clear; tauto)), (keep_mask p 2 ltac:(clear; tauto)),
          (keep_mask p 3 ltac:(clear; tauto)), (keep_ep p 4 ltac:(clear; tauto)), (keep_ep p 5 ltac:(clear; tauto)),
          (keep_mask p 6 ltac:(clear; tauto)).
  rewrite (comp_0 prom_nq p), (comp_1 prom_nq p), (comp_2 prom_nq p), (comp_3 prom_nq p), (comp_4 prom_nq p),
          (comp_5 prom_nq p), (comp_6 prom_nq p).
  rewrite !app_nil_r, <- !app_assoc. reflexivity.
Qed.

Lemma pawn2_ev : gen_pawn_moves prom_nq v 2 true evt =
  Some (concat (map (fun i => filter (kp i) (cmp i)) [9; 10; 11]%nat)).
Proof.
  unfold gen_pawn_moves. replace (has_nq 2) with false by reflexivity. replace (has_q 2) with true by reflexivity.
  cbn [bind]. rewrite (ev_quiet prom_nq p Hlegal evt). cbn [bind map concat].
  rewrite (keep_mask p 9 ltac:(clear; tauto)), (keep_mask p 10 ltac:(clear; tauto)), (keep_mask p 11 ltac:(clear; tauto)).
  rewrite (comp_9 prom_nq p), (comp_10 prom_nq p), (comp_11 prom_nq p). rewrite !app_nil_r. reflexivity.
Qed.

Lemma stage_nonev k : e_gen env k false evt = concat (map cmp (ids k)).
Proof.
  destruct (king_facts p Hlegal) as (K1 & K2 & K3).
  cbn [e_gen chess_env]. rewrite chess_stage_noev. unfold chess_stage, ids.
  destruct (k =? OD_1); [rewrite pawn1_nonev; reflexivity|].
  destruct (k =? OD_2).
  { pose proof (gen_moves_eq p Hlegal true) as H. change (mode_of true) with 1 in H.
    cbn [map concat]. rewrite app_nil_r, (comp_8 prom_nq p). rewrite H. reflexivity. }
  destruct (k =? OD_3).
  { pose proof (gen_king_eq p Hlegal true k0 K1 K2 K3) as H. change (mode_of true) with 1 in H.
    cbn [map concat]. rewrite app_nil_r, (comp_7 prom_nq p). rewrite H. reflexivity. }
  destruct (k =? OD_5); [rewrite pawn2_nonev; reflexivity|].
  destruct (k =? OD_6).
  { cbn [map concat]. rewrite app_nil_r, (comp_12 prom_nq p). rewrite (gen_castling_eq p Hlegal). reflexivity. }
  destruct (k =? OD_7).
  { pose proof (gen_moves_eq p Hlegal false) as H. change (mode_of false) with 2 in H.
    cbn [map concat]. rewrite app_nil_r, (comp_14 prom_nq p). rewrite H. reflexivity. }
  destruct (k =? OD_8).
  { pose proof (gen_king_eq p Hlegal false k0 K1 K2 K3) as H. change (mode_of false) with 2 in H.
    cbn [map concat]. rewrite app_nil_r, (comp_13 prom_nq p). rewrite H. reflexivity. }
  reflexivity.
Qed.

Lemma stage_ev k : k <> OD_6 -> e_gen env k true evt = concat (map (fun i => filter (kp i) (cmp i)) (ids k)).
Proof.
  intros Hk6. destruct (king_facts p Hlegal) as (K1 & K2 & K3).
  cbn [e_gen chess_env]. unfold chess_stage, ids.
  destruct (k =? OD_1); [rewrite pawn1_ev; reflexivity|].
  destruct (k =? OD_2).
  { pose proof (ev_moves p Hlegal evt true) as H. change (mode_of true) with 1 in H.
    cbn [map concat]. rewrite app_nil_r, (keep_mask p 8 ltac:(clear; tauto)), (comp_8 prom_nq p). rewrite H. reflexivity. }
  destruct (k =? OD_3).
  { pose proof (ev_king p Hlegal true k0 K1 K2 K3) as H. change (mode_of true) with 1 in H.
    cbn [map concat]. rewrite app_nil_r, (keep_king p 7 ltac:(clear; tauto)), (comp_7 prom_nq p). rewrite H. reflexivity. }
  destruct (k =? OD_5); [rewrite pawn2_ev; reflexivity|].
  destruct (N.eqb_spec k OD_6) as [E|_]; [contradiction|].
  destruct (k =? OD_7).
  { pose proof (ev_moves p Hlegal evt false) as H. change (mode_of false) with 2 in H.
    cbn [map concat]. rewrite app_nil_r, (keep_mask p 14 ltac:(clear; tauto)), (comp_14 prom_nq p). rewrite H. reflexivity. }
  destruct (k =? OD_8).
  { pose proof (ev_king p Hlegal false k0 K1 K2 K3) as H. change (mode_of false) with 2 in H.
    cbn [map concat]. rewrite app_nil_r, (keep_king p 13 ltac:(clear; tauto)), (comp_13 prom_nq p). rewrite H. reflexivity. }
  reflexivity.
Qed.

(* stage lists as the state machine sees them *)
Lemma sg_false k : stage_gen env true false k = concat (map cmp (ids k)).
Proof.
  unfold stage_gen, EVT. rewrite env_evt.
  destruct ((k =? OD_1) || (k =? OD_2) || (k =? OD_3) || (k =? OD_5) || (k =? OD_7) || (k =? OD_8)) eqn:E; [apply stage_nonev|].
  destruct (N.eqb_spec k OD_6) as [E6|E6]; [apply stage_nonev|].
  unfold ids. repeat (apply orb_false_iff in E as [E ?]).
  repeat match goal with H : (k =? _) = false |- _ => rewrite H; clear H end.
  replace (k =? OD_6) with false by (symmetry; now apply N.eqb_neq). reflexivity.
Qed.

Lemma sg_true k : stage_gen env true true k = concat (map (fun i => filter (kp i) (cmp i)) (ids k)).
Proof.
  unfold stage_gen, EVT. rewrite env_evt.
  destruct ((k =? OD_1) || (k =? OD_2) || (k =? OD_3) || (k =? OD_5) || (k =? OD_7) || (k =? OD_8)) eqn:E.
  - apply stage_ev. intros ->. discriminate.
  - destruct (N.eqb_spec k OD_6) as [E6|E6].
    + subst k. cbn [ids N.eqb Pos.eqb OD_1 OD_2 OD_3 OD_5 OD_6 map concat]. rewrite (keep_castle p). reflexivity.
    + unfold ids. repeat (apply orb_false_iff in E as [E ?]).
      repeat match goal with H : (k =? _) = false |- _ => rewrite H; clear H end.
      replace (k =? OD_6) with false by (symmetry; now apply N.eqb_neq). reflexivity.
Qed.

Lemma ids_lt k i : In i (ids k) -> (i < 15)%nat.
Proof. unfold ids. repeat match goal with |- context [if ?x then _ else _] => destruct x end; cbn [In]; lia. Qed.

Lemma sg_incl k x : In x (stage_gen env true true k) -> In x (stage_gen env true false k).
Proof.
  rewrite sg_true, sg_false. induction (ids k) as [|i l IH]; cbn [map concat]; [auto|].
  intros H. apply in_app_or in H as [H|H]; apply in_or_app; [left|right; now apply IH]. now apply filter_In in H.
Qed.

(* the non-evasion stage lists, concatenated in any mode, have no duplicates *)
Lemma batch_false_perm mode : exists l, gen_pseudo prom_nq v mode false = Some l /\
  Permutation (od_batch env mode true false) l.
Proof.
  destruct (od_batch_chess prom_nq p Hlegal key srt mode) as (l & Hl & Pl). exists l. split; [exact Hl|].
  rewrite <- Pl. unfold od_batch. apply Permutation_refl'. apply (f_equal (@concat N)). apply map_ext. intros k.
  unfold stage_gen, EVT. cbn [e_evt chess_env e_gen].
  destruct (_ || _); [rewrite chess_stage_noev; reflexivity|].
  destruct (k =? OD_6); [rewrite chess_stage_noev; reflexivity|reflexivity].
Qed.

Lemma batch_false_nodup mode : NoDup (od_batch env mode true false).
Proof.
  destruct (batch_false_perm mode) as (l & Hl & Pl).
  apply (Permutation_NoDup (Permutation_sym Pl)). now apply (nonev_nodup prom_nq p Hlegal mode).
Qed.

Lemma sg_false_nodup k : NoDup (stage_gen env true false k).
Proof.
  (* every stage occurs in the GenAll plan *)
  pose proof (batch_false_nodup 3) as H. unfold od_batch, path, tailq in H.
  replace (has_nq 3) with true in H by reflexivity. replace (has_q 3) with true in H by reflexivity.
  cbn [N.leb N.compare Pos.compare Pos.compare_cont OD_NEW OD_PV map concat app] in H.
  assert (Hin : forall s, In s [OD_1; OD_2; OD_3; OD_5; OD_6; OD_7; OD_8] -> NoDup (stage_gen env true false s)).
  { clear - H. intros s Hs.
    repeat (apply nodup_app_inv in H as (? & H & _)).
    cbn [In] in Hs. decompose [or] Hs; subst; try assumption; try contradiction. }
  destruct (in_dec N.eq_dec k [OD_1; OD_2; OD_3; OD_5; OD_6; OD_7; OD_8]) as [Hk|Hk]; [now apply Hin|].
  rewrite sg_false. unfold ids. cbn [In] in Hk.
  replace (k =? OD_1) with false by (symmetry; apply N.eqb_neq; intros ->; apply Hk; auto 10).
  replace (k =? OD_2) with false by (symmetry; apply N.eqb_neq; intros ->; apply Hk; auto 10).
  replace (k =? OD_3) with false by (symmetry; apply N.eqb_neq; intros ->; apply Hk; auto 10).
  replace (k =? OD_5) with false by (symmetry; apply N.eqb_neq; intros ->; apply Hk; auto 10).
  replace (k =? OD_6) with false by (symmetry; apply N.eqb_neq; intros ->; apply Hk; auto 10).
  replace (k =? OD_7) with false by (symmetry; apply N.eqb_neq; intros ->; apply Hk; auto 10).
  replace (k =? OD_8) with false by (symmetry; apply N.eqb_neq; intros ->; apply Hk; auto 10).
  constructor.
Qed.

Lemma filter_concat_nodup (f : nat -> N -> bool) (g : nat -> list N) l :
  NoDup (concat (map g l)) -> NoDup (concat (map (fun i => filter (f i) (g i)) l)).
Proof.
  induction l as [|i l IH]; cbn [map concat]; intros H; [constructor|].
  apply nodup_app_inv in H as (H1 & H2 & H3). apply nodup_app.
  - now apply NoDup_filter.
  - now apply IH.
  - intros x Hx1 Hx2. apply filter_In in Hx1 as [Hx1 _]. apply (H3 x Hx1).
    clear - Hx2. induction l as [|j l IHl]; cbn [map concat] in *; [exact Hx2|].
    apply in_app_or in Hx2 as [Hx2|Hx2]; apply in_or_app; [left; now apply filter_In in Hx2|right; now apply IHl].
Qed.

Lemma sg_true_nodup k : NoDup (stage_gen env true true k).
Proof. rewrite sg_true. apply filter_concat_nodup. rewrite <- sg_false. apply sg_false_nodup. Qed.

Lemma chess_gen_nz_ev k e : ~ In 0 (e_gen env k e (e_evt env)).
Proof.
  rewrite env_evt. intros H0.
  assert (H1 : In 0 (e_gen env k false evt)).
  { destruct e; [|exact H0]. destruct (N.eqb_spec k OD_6) as [E6|E6].
    - subst k. rewrite stage_nonev. cbn [e_gen chess_env] in H0. unfold chess_stage in H0.
      cbn [N.eqb Pos.eqb OD_1 OD_2 OD_3 OD_5 OD_6] in H0. rewrite (gen_castling_eq p Hlegal) in H0. cbn [unwrap] in H0.
      cbn [ids N.eqb Pos.eqb OD_1 OD_2 OD_3 OD_5 OD_6 map concat]. rewrite (comp_12 prom_nq p), app_nil_r. exact H0.
    - rewrite (stage_ev k E6) in H0. rewrite stage_nonev.
      clear - H0. induction (ids k) as [|i l IH]; cbn [map concat] in *; [exact H0|].
      apply in_app_or in H0 as [H0|H0]; apply in_or_app; [left; now apply filter_In in H0|right; now apply IH]. }
  cbn [e_gen chess_env] in H1. rewrite chess_stage_noev in H1.
  exact (chess_gen_nz prom_nq p Hlegal key srt k H1).
Qed.

Theorem od_chess_evasion mode st : od_start_ok env st ->
  exists le l st' out,
    gen_pseudo prom_nq v mode true = Some le /\ gen_pseudo prom_nq v mode false = Some l /\
    od_drain (S (length out)) env mode true st = Some (st', out) /\
    (forall x, In x out -> (pv_sel env mode (od_pv st) = true /\ x = od_pv st) \/ In x l) /\
    (forall x, In x le -> In x out) /\
    (pv_sel env mode (od_pv st) = true -> hd 0 out = od_pv st) /\
    ((pv_sel env mode (od_pv st) = true -> In (od_pv st) le) -> NoDup out).
Proof.
  intros Hs.
  destruct (od_sequence_evasion env mode srt_perm chess_gen_nz_ev sg_incl sg_true_nodup (batch_false_nodup mode) st Hs)
    as (st' & out & Hd & H1 & H2 & H3 & H4).
  destruct (batch_false_perm mode) as (l & Hl & Pl).
  destruct (gen_pseudo_evasion_filter prom_nq p Hlegal mode) as (l2 & Hl2 & Hle). rewrite Hl in Hl2. apply some_inj in Hl2. subst l2.
  (* the evasion batch list of the state machine is the evasion list of gen_pseudo, up to order *)
  assert (Pe : forall x, In x (od_batch env mode true true) <-> In x (filter (ev_keep p) l)).
  { intros x.
    assert (A : In x (od_batch env mode true true) <-> exists k i, In k (path mode OD_NEW) /\ In i (ids k) /\ In x (filter (kp i) (cmp i))).
    { unfold od_batch. rewrite in_concat. split.
      - intros [L [HL Hx]]. apply in_map_iff in HL as [k [<- Hk]]. rewrite sg_true in Hx. apply in_concat in Hx as [L' [HL' Hx]].
        apply in_map_iff in HL' as [i [<- Hi]]. now exists k, i.
      - intros (k & i & Hk & Hi & Hx). exists (stage_gen env true true k). split; [apply in_map_iff; now exists k|].
        rewrite sg_true. apply in_concat. exists (filter (kp i) (cmp i)). split; [apply in_map_iff; now exists i|exact Hx]. }
    assert (B : In x (od_batch env mode true false) <-> exists k i, In k (path mode OD_NEW) /\ In i (ids k) /\ In x (cmp i)).
    { unfold od_batch. rewrite in_concat. split.
      - intros [L [HL Hx]]. apply in_map_iff in HL as [k [<- Hk]]. rewrite sg_false in Hx. apply in_concat in Hx as [L' [HL' Hx]].
        apply in_map_iff in HL' as [i [<- Hi]]. now exists k, i.
      - intros (k & i & Hk & Hi & Hx). exists (stage_gen env true false k). split; [apply in_map_iff; now exists k|].
        rewrite sg_false. apply in_concat. exists (cmp i). split; [apply in_map_iff; now exists i|exact Hx]. }
    rewrite A, filter_In. split.
    - intros (k & i & Hk & Hi & Hx). apply filter_In in Hx as [Hx1 Hx2]. split.
      + apply (Permutation_in _ Pl). apply B. now exists k, i.
      + now rewrite <- (keep_agree prom_nq p Hlegal i x (ids_lt k i Hi) Hx1).
    - intros [Hx1 Hx2]. apply (Permutation_in _ (Permutation_sym Pl)) in Hx1. apply B in Hx1 as (k & i & Hk & Hi & Hx).
      exists k, i. repeat split; try assumption. apply filter_In. split; [exact Hx|].
      now rewrite (keep_agree prom_nq p Hlegal i x (ids_lt k i Hi) Hx). }
  exists (filter (ev_keep p) l), l, st', out. split; [exact Hle|]. split; [exact Hl|]. split; [exact Hd|].
  split; [|split; [|split]].
  - intros x Hx. destruct (H1 x Hx) as [A|A]; [now left|right]. now apply (Permutation_in _ Pl).
  - intros x Hx. apply H2. now apply Pe.
  - exact H3.
  - intros Himp. apply H4. intros Hsel. apply Pe. now apply Himp.
Qed.

(* in check: the legal moves among the handed out ones are exactly the legal move list *)
Theorem od_chess_evasion_legal (legal : N -> bool) st : od_start_ok env st -> in_check p = true ->
  (forall m, In m (pseudo p) -> legal (code m) = is_legal p m) ->
  (* the PV move, if it is handed out first, is a move of the evasion batch list
     (e.g. no PV move set, or a legal move of the position) *)
  (pv_sel env 3 (od_pv st) = true -> exists le, gen_pseudo prom_nq v 3 true = Some le /\ In (od_pv st) le) ->
  exists st' out,
    od_drain (S (length out)) env 3 true st = Some (st', out) /\ NoDup out /\
    Permutation (filter legal out) (map code (Rules.legal p)).
Proof.
  intros Hs Hchk Hag Hpv.
  destruct (od_chess_evasion 3 st Hs) as (le & l & st' & out & Hle & Hl & Hd & H1 & H2 & H3 & H4).
  destruct (evasion_complete prom_nq p legal Hlegal Hchk Hag) as (le' & l' & Hle' & Hl' & Heq & Pleg).
  rewrite Hle in Hle'. apply some_inj in Hle'. subst le'. rewrite Hl in Hl'. apply some_inj in Hl'. subst l'.
  assert (Hpv' : pv_sel env 3 (od_pv st) = true -> In (od_pv st) le).
  { intros Hsel. destruct (Hpv Hsel) as (le2 & E2 & Hin). rewrite Hle in E2. apply some_inj in E2. now subst le2. }
  pose proof (H4 Hpv') as Hnd.
  exists st', out. split; [exact Hd|]. split; [exact Hnd|].
  assert (Hsub : forall x, In x le -> In x l).
  { destruct (gen_pseudo_evasion_filter prom_nq p Hlegal 3) as (l2 & A & B). rewrite Hl in A. apply some_inj in A. subst l2.
    rewrite Hle in B. apply some_inj in B. subst le. intros x Hx. now apply filter_In in Hx. }
  apply NoDup_Permutation.
  - now apply NoDup_filter.
  - apply (Permutation_NoDup Pleg). apply NoDup_filter. now apply (evasion_nodup prom_nq p Hlegal 3).
  - intros x. rewrite filter_In. split.
    + intros [Hx Hlx]. apply (Permutation_in _ Pleg). rewrite Heq. apply filter_In. split; [|exact Hlx].
      destruct (H1 x Hx) as [[Hsel ->]|Hx']; [apply Hsub; now apply Hpv'|exact Hx'].
    + intros Hx. apply (Permutation_in _ (Permutation_sym Pleg)) in Hx. apply filter_In in Hx as [Hx Hlx].
      split; [now apply H2|exact Hlx].
Qed.

End ODEvasion.

Print Assumptions od_chess_evasion.
Print Assumptions od_chess_evasion_legal.
