(** * TTImpl — executable model of FrankyGo's transposition table (property C11)

    Faithful transcription of
      /repo/internal/transpositiontable/tt.go   (Resize, GetEntry, Probe, Put, Clear,
                                                 Hashfull, Len, AgeEntries, hash)
      /repo/internal/types/move.go              (SetValue, ValueOf, MoveOf)
      /repo/internal/types/value.go             (IsValid, IsCheckMateValue, constants)
      /repo/internal/search/alphabeta.go        (valueToTT, valueFromTT)

    DEFINITIONS ONLY.  All proofs are in TTProofs.v, so this file keeps compiling (and
    [run] keeps evaluating) even if a proof breaks.

    Number representation
    - uint64 keys and uint32 move words are [N].  The model is exact for keys < 2^64
      and move words < 2^32 (which is what the Go harness prints); [N.land] and [=?]
      do not depend on the width, and [SetValue] always yields a word < 2^32.
    - int8 (Depth, Age) and int16 (Value) are [Z]; every Go arithmetic operation on
      them is followed by an explicit two's-complement wrap ([wrap8], [wrap16]).
    - the uint64 counter numberOfEntries is an unbounded [N]: it is only ever
      incremented by one per Put, so it cannot wrap in fewer than 2^64 operations.

    Table representation: the Go slice [data] (maxNumberOfEntries zero-initialised
    TtEntry structs) is a finite map [Nmap entry] from slot index to entry; an absent
    index reads as the all-zero entry.  Nothing of size [cap] is ever allocated. *)

From Coq Require Import ZArith NArith List Bool.
From stdpp Require Import base option fin_maps nmap.
Import ListNotations.

Local Open Scope Z_scope.

(* ------------------------------------------------------------------------- *)
(** ** Fixed-width integers *)

(** int8(z): two's-complement wrap to [-128,127] *)
Definition wrap8 (z : Z) : Z := (z + 128) mod 256 - 128.
(** int16(z): two's-complement wrap to [-32768,32767] *)
Definition wrap16 (z : Z) : Z := (z + 32768) mod 65536 - 32768.

(* ------------------------------------------------------------------------- *)
(** ** value.go *)

Definition ValueInf : Z := 15000.                 (* value.go:44  ValueInf Value = 15_000 *)
Definition ValueNA : Z := -15001.                 (* value.go:45  ValueNA = -ValueInf - 1 *)
Definition ValueMax : Z := 10000.                 (* value.go:46 *)
Definition ValueMin : Z := -10000.                (* value.go:47  ValueMin = -ValueMax *)
Definition ValueCheckMate : Z := 10000.           (* value.go:48  = ValueMax *)
Definition MaxDepth : Z := 128.                   (* types.go:54 *)
Definition ValueCheckMateThreshold : Z := 9871.   (* value.go:49  ValueCheckMate - MaxDepth - 1 *)

(* value.go:53  func (v Value) IsValid() bool { return v >= ValueMin && v <= ValueMax } *)
Definition is_valid (v : Z) : bool := (ValueMin <=? v) && (v <=? ValueMax).

(* value.go:59  util.Abs(int(v)) > int(ValueCheckMateThreshold) && util.Abs(int(v)) <= int(ValueCheckMate) *)
Definition is_checkmate_value (v : Z) : bool :=
  (Z.abs v >? ValueCheckMateThreshold) && (Z.abs v <=? ValueCheckMate).

(* ------------------------------------------------------------------------- *)
(** ** move.go — a Move is a uint32: low 16 bits move, high 16 bits value - ValueNA *)

Definition MoveNone : N := 0%N.                   (* move.go:42 *)
Definition moveMask : N := 0xFFFF%N.              (* move.go:206 *)
Definition valueMask : N := 0xFFFF0000%N.         (* move.go:207  0xFFFF << valueShift *)
Definition valueShift : N := 16%N.                (* move.go:199 *)

(** Go conversion Move(x) of an int16 [x]: sign-extend to 32 bits, reinterpret as uint32 *)
Definition move_of_int16 (x : Z) : N := Z.to_N (x mod 4294967296).

(** Go conversion Value(w) of a uint32 [w]: keep the low 16 bits, reinterpret as int16 *)
Definition value_of_uint32 (w : N) : Z := wrap16 (Z.of_N w).

(* move.go:110  func (m Move) MoveOf() Move { return m & moveMask } *)
Definition MoveOf (m : N) : N := N.land m moveMask.

(* move.go:115  func (m Move) ValueOf() Value { return Value((m&valueMask)>>valueShift) + ValueNA }
   (the addition is an int16 addition) *)
Definition ValueOf (m : N) : Z :=
  wrap16 (value_of_uint32 (N.shiftr (N.land m valueMask) valueShift) + ValueNA).

(* move.go:120  func (m *Move) SetValue(v Value) Move
     move.go:125    if *m == MoveNone { return *m }          -- NB: compares the WHOLE word
     move.go:131    *m = *m&moveMask | Move(v-ValueNA)<<valueShift
   [v - ValueNA] is an int16 subtraction ([wrap16]); the shift is a uint32 shift
   ([mod 2^32]). *)
Definition SetValue (m : N) (v : Z) : N :=
  if (m =? MoveNone)%N then m
  else N.lor (N.land m moveMask)
             (N.shiftl (move_of_int16 (wrap16 (v - ValueNA))) valueShift mod 4294967296)%N.

(* ------------------------------------------------------------------------- *)
(** ** alphabeta.go — mate-distance correction *)

(* alphabeta.go:1088  func valueToTT(value Value, ply int) Value
     if value.IsCheckMateValue() { if value > 0 { value = value + Value(ply) }
                                   else         { value = value - Value(ply) } } *)
Definition valueToTT (v ply : Z) : Z :=
  if is_checkmate_value v then
    if v >? 0 then wrap16 (v + wrap16 ply) else wrap16 (v - wrap16 ply)
  else v.

(* alphabeta.go:1100  func valueFromTT(value Value, ply int) Value  (signs swapped) *)
Definition valueFromTT (v ply : Z) : Z :=
  if is_checkmate_value v then
    if v >? 0 then wrap16 (v - wrap16 ply) else wrap16 (v + wrap16 ply)
  else v.

(* ------------------------------------------------------------------------- *)
(** ** tt.go — entries and table *)

(* tt.go:55  type TtEntry struct { Key; Move; Depth int8; Age int8; Type ValueType; MateThreat bool } *)
Record entry := Entry {
  eKey   : N;      (* position.Key, uint64 *)
  eMove  : N;      (* Move, uint32: move + value *)
  eDepth : Z;      (* int8 *)
  eAge   : Z;      (* int8 *)
  eType  : N;      (* ValueType (int8), 0..3 *)
  eMT    : bool    (* MateThreat *)
}.

(** the Go zero value of TtEntry — what every slot of a fresh [make([]TtEntry, n)] holds *)
Definition zero_entry : entry := Entry 0 0 0 0 0 false.

Definition set_age (e : entry) (a : Z) : entry :=
  Entry (eKey e) (eMove e) (eDepth e) a (eType e) (eMT e).

(* tt.go:75  type TtTable struct { data; sizeInByte; hashKeyMask; maxNumberOfEntries; numberOfEntries } *)
Record tt := TT {
  slots : Nmap entry;   (* data, sparse: absent index = zero_entry *)
  mask  : N;            (* hashKeyMask *)
  cap   : N;            (* maxNumberOfEntries (= len(data)) *)
  count : N             (* numberOfEntries *)
}.

(** data[i] *)
Definition slot_at (t : tt) (i : N) : entry := default zero_entry (slots t !! i).

(* tt.go:322  func (tt *TtTable) hash(key) uint64 { return uint64(key) & tt.hashKeyMask } *)
Definition hash (t : tt) (key : N) : N := N.land key (mask t).

(** *** Resize *)

Definition MaxSizeInMB : Z := 65536.              (* tt.go:69 *)
Definition TtEntrySize : N := 16%N.               (* tt.go:66 *)
Definition MB : N := 1048576%N.                   (* types.go:63  MB = KB * KB *)

(* tt.go:120-133
     if sizeInMByte > MaxSizeInMB { sizeInMByte = MaxSizeInMB }
     tt.sizeInByte = uint64(sizeInMByte) * MB
     tt.maxNumberOfEntries = 1 << uint64(math.Floor(math.Log2(float64(tt.sizeInByte/TtEntrySize))))
     if tt.sizeInByte == 0 { tt.maxNumberOfEntries = 0 }
   Domain: 0 <= mb (a negative int converts to a huge uint64 in Go; not modelled).
   ASSUMPTION (float exactness): for 1 <= mb <= 65536 the argument sizeInByte/16 =
   mb*65536 <= 2^32 is exactly representable as a float64, and Go's math.Log2
   (Frexp, then Log(frac)*(1/Ln2) + exp, exact for powers of two) is never so close
   to an integer from below that Floor is off by one: the nearest non-power-of-two
   case, mb = 2^j - 1 (j <= 16), is about 2^-j/ln 2 >= 2^-16 below the integer j+16,
   against a float64 resolution of 2^-47 at that magnitude.  Hence
   Floor(Log2(x)) = N.log2 x. *)
Definition capacity (mb : Z) : N :=
  let mb' := if mb >? MaxSizeInMB then MaxSizeInMB else mb in
  let sizeInByte := (Z.to_N mb' * MB)%N in
  if (sizeInByte =? 0)%N then 0%N
  else (2 ^ N.log2 (sizeInByte / TtEntrySize))%N.

(* tt.go:119  func (tt *TtTable) Resize(sizeInMByte int)
     tt.go:128  tt.hashKeyMask = tt.maxNumberOfEntries - 1
     tt.go:139  tt.data = make([]TtEntry, tt.maxNumberOfEntries, ...)     -- all slots zero
     tt.go:140  tt.numberOfEntries = 0                                    -- (repaired code)
   For mb = 0 Go computes hashKeyMask from 1<<uint64(-Inf) (platform dependent); the
   mask is never read while cap = 0 (every user is guarded), so it is modelled as 0. *)
Definition resize (t : tt) (mb : Z) : tt :=
  let c := capacity mb in
  TT ∅ (if (c =? 0)%N then 0%N else (c - 1)%N) c 0.

(** *** GetEntry *)

(* tt.go:151  func (tt *TtTable) GetEntry(key) *TtEntry
     if tt.maxNumberOfEntries == 0 { return nil }
     e := &tt.data[tt.hash(key)]; if e.Key == key { return e }; return nil *)
Definition get_entry (t : tt) (key : N) : option entry :=
  if (cap t =? 0)%N then None
  else let e := slot_at t (hash t key) in
       if (eKey e =? key)%N then Some e else None.

(** *** Probe *)

(* tt.go:164  func (tt *TtTable) Probe(key) *TtEntry
     if tt.maxNumberOfEntries == 0 { return nil }
     e := &tt.data[tt.hash(key)]
     if e.Key == key { e.Age--; if e.Age < 0 { e.Age = 0 }; return e }     -- int8 decrement wraps
     return nil
   Returns the new table and the entry as it reads through the returned pointer. *)
Definition probe_age (a : Z) : Z :=
  let a' := wrap8 (a - 1) in if a' <? 0 then 0 else a'.

Definition probe (t : tt) (key : N) : tt * option entry :=
  if (cap t =? 0)%N then (t, None)
  else let i := hash t key in
       let e := slot_at t i in
       if (eKey e =? key)%N then
         let e' := set_age e (probe_age (eAge e)) in
         (TT (<[i := e']> (slots t)) (mask t) (cap t) (count t), Some e')
       else (t, None).

(** *** Put *)

(* tt.go:195-199  if value.IsValid() { move = move.SetValue(value) } else { log warning } *)
Definition put_move (move : N) (value : Z) : N :=
  if is_valid value then SetValue move value else move.

(* tt.go:221-222  depth > entryDataPtr.Depth || (depth == entryDataPtr.Depth && entryDataPtr.Age > 1) *)
Definition replace_ok (depth : Z) (resident : entry) : bool :=
  (depth >? eDepth resident) || ((depth =? eDepth resident) && (eAge resident >? 1)).

(* tt.go:184  func (tt *TtTable) Put(key, move, depth int8, value Value, valueType, mateThreat)
   [depth] and [value] are already int8 / int16 here (the conversion is done in [step]). *)
Definition put (t : tt) (key move : N) (depth value : Z) (vt : N) (mt : bool) : tt :=
  if (cap t =? 0)%N then t                                    (* tt.go:188  maxNumberOfEntries == 0: return *)
  else
    let i := hash t key in                                    (* tt.go:193  &tt.data[tt.hash(key)] *)
    let e := slot_at t i in
    let new := Entry key (put_move move value) depth 1 vt mt in   (* the six field writes, Age = 1 *)
    let written c := TT (<[i := new]> (slots t)) (mask t) (cap t) c in
    if (eKey e =? 0)%N then                                   (* tt.go:204  entryDataPtr.Key == 0 *)
      written (count t + 1)%N                                 (* tt.go:205  numberOfEntries++ *)
    else if negb (eKey e =? key)%N then                       (* tt.go:216  Key != key: collision *)
      if replace_ok depth e then written (count t) else t     (* tt.go:221-231 *)
    else written (count t).                                   (* tt.go:235  same key: always update *)

(** *** Clear, Len, Hashfull, AgeEntries *)

(* tt.go:255  Clear: data = make(...); numberOfEntries = 0 *)
Definition clear (t : tt) : tt := TT ∅ (mask t) (cap t) 0.

(* tt.go:281  Len: return tt.numberOfEntries *)
Definition len (t : tt) : N := count t.

(* tt.go:263  Hashfull: if maxNumberOfEntries == 0 { return 0 }; (1000 * numberOfEntries) / maxNumberOfEntries *)
Definition hashfull (t : tt) : N :=
  if (cap t =? 0)%N then 0%N else (1000 * count t / cap t)%N.

(* tt.go:305  if tt.data[n].Key != 0 { tt.data[n].Age++ }          -- int8 increment wraps *)
Definition age_entry (e : entry) : entry :=
  if (eKey e =? 0)%N then e else set_age e (wrap8 (eAge e + 1)).

(* tt.go:289  AgeEntries: if tt.numberOfEntries > 0 (tt.go:291) { for every n < maxNumberOfEntries ... }
   The 32 goroutines partition [0, maxNumberOfEntries) (the last one takes the
   remainder, so also cap < 32 is covered) and touch disjoint slots: the net effect is
   a map over all slots.  Absent slots are zero entries (Key = 0), which are skipped. *)
Definition age_entries (t : tt) : tt :=
  if (count t =? 0)%N then t
  else TT (age_entry <$> slots t) (mask t) (cap t) (count t).

(** number of occupied slots: slots whose Key field is non-zero (specification-side
    observer, not part of the Go code) *)
Definition occupied (t : tt) : N :=
  N.of_nat (size (filter (λ p : N * entry, eKey (snd p) ≠ 0%N) (slots t))).

(* ------------------------------------------------------------------------- *)
(** ** Operations, observations, [run] *)

Inductive op :=
| OResize (mb : Z)
| OPut (key : N) (move : N) (depth : Z) (value : Z) (vt : N) (mt : bool)
| OProbe (key : N)
| OGet (key : N)
| OAge
| OClear
| OLen
| OHashfull.

Inductive obs :=
| ONone
| OEntry (key : N) (move : N) (depth : Z) (age : Z) (vt : N) (mt : bool)
| ONum (n : N).

Definition obs_of_entry (r : option entry) : obs :=
  match r with
  | None => ONone
  | Some e => OEntry (eKey e) (eMove e) (eDepth e) (eAge e) (eType e) (eMT e)
  end.

Definition step (t : tt) (o : op) : tt * obs :=
  match o with
  | OResize mb => (resize t mb, ONone)
  | OPut k m d v vt mt => (put t k m (wrap8 d) (wrap16 v) vt mt, ONone)   (* int8(depth), Value(value) *)
  | OProbe k => let '(t', r) := probe t k in (t', obs_of_entry r)
  | OGet k => (t, obs_of_entry (get_entry t k))
  | OAge => (age_entries t, ONone)
  | OClear => (clear t, ONone)
  | OLen => (t, ONum (len t))
  | OHashfull => (t, ONum (hashfull t))
  end.

Fixpoint run_from (t : tt) (ops : list op) : list obs :=
  match ops with
  | [] => []
  | o :: r => let '(t', ob) := step t o in ob :: run_from t' r
  end.

Definition exec_from (t : tt) (ops : list op) : tt :=
  fold_left (λ t o, fst (step t o)) ops t.

(* tt.go:101  NewTtTable: all fields zero, then tt.Resize(sizeInMByte) *)
Definition empty_tt : tt := TT ∅ 0 0 0.
Definition new_tt (mb : Z) : tt := resize empty_tt mb.
Definition init : tt := new_tt 2.

Definition exec (ops : list op) : tt := exec_from init ops.
Definition run (ops : list op) : list obs := run_from init ops.

(* ------------------------------------------------------------------------- *)
(** ** Abstract specification: a partial map from KEYS to stored data

    The contract of the table, without slots: a list of (key, stored) bindings,
    at most one per index class [key land mask].  A store is accepted when the index
    class is free, holds the same key, or the eviction rule allows it; an accepted
    store evicts the resident of the class.  Clear and Resize empty the map.
    Key 0 is never bound (it is the empty-slot sentinel of the implementation), but
    - faithfully to tt.go - an accepted store under key 0 still evicts the resident
    of index class 0. *)

Record stored := Stored {
  sMove : N; sDepth : Z; sAge : Z; sType : N; sMT : bool
}.

Record astate := AState {
  aMask : N;
  aCap  : N;
  aTab  : list (N * stored)
}.

Definition entry_of (k : N) (s : stored) : entry :=
  Entry k (sMove s) (sDepth s) (sAge s) (sType s) (sMT s).
Definition stored_of (e : entry) : stored :=
  Stored (eMove e) (eDepth e) (eAge e) (eType e) (eMT e).
Definition s_set_age (s : stored) (a : Z) : stored :=
  Stored (sMove s) (sDepth s) a (sType s) (sMT s).

Definition alookup (k : N) (tab : list (N * stored)) : option stored :=
  match find (λ p, (fst p =? k)%N) tab with
  | Some p => Some (snd p)
  | None => None
  end.

Definition same_class (msk i : N) (p : N * stored) : bool := (N.land (fst p) msk =? i)%N.

(** the eviction rule, on abstract data *)
Definition a_replace_ok (depth : Z) (resident : stored) : bool :=
  (depth >? sDepth resident) || ((depth =? sDepth resident) && (sAge resident >? 1)).

Definition aput (a : astate) (k : N) (new : stored) : astate :=
  if (aCap a =? 0)%N then a
  else
    let i := N.land k (aMask a) in
    let accept :=
      match find (same_class (aMask a) i) (aTab a) with
      | None => true
      | Some (k', s) => (k' =? k)%N || a_replace_ok (sDepth new) s
      end in
    if accept
    then AState (aMask a) (aCap a)
                ((if (k =? 0)%N then [] else [(k, new)]) ++
                 List.filter (λ p, negb (same_class (aMask a) i p)) (aTab a))
    else a.

Definition amap_tab (f : N → stored → stored) (a : astate) : astate :=
  AState (aMask a) (aCap a) (map (λ p, (fst p, f (fst p) (snd p))) (aTab a)).

Definition astep (a : astate) (o : op) : astate :=
  match o with
  | OResize mb =>
      let c := capacity mb in AState (if (c =? 0)%N then 0%N else (c - 1)%N) c []
  | OPut k m d v vt mt =>
      aput a k (Stored (put_move m (wrap16 v)) (wrap8 d) 1 vt mt)
  | OProbe k =>
      amap_tab (λ k' s, if (k' =? k)%N then s_set_age s (probe_age (sAge s)) else s) a
  | OAge => amap_tab (λ _ s, s_set_age s (wrap8 (sAge s + 1))) a
  | OClear => AState (aMask a) (aCap a) []
  | OGet _ | OLen | OHashfull => a
  end.

Definition ainit : astate := astep (AState 0 0 []) (OResize 2).
Definition spec (ops : list op) : astate := fold_left astep ops ainit.
Definition spec_lookup (ops : list op) (k : N) : option stored := alookup k (aTab (spec ops)).
