(** * PvProofs: theorems about the principal-variation buffers (property C05)

    Model: PvBuffers.v.  All theorems quantify over ALL oracles (= all combinations of search
    feature switches, all hash/killer/history contents left by earlier searches, all
    evaluation results, all limits and all moments at which stop / time-out / node limit is
    observed), subject only to the hypotheses named here:

    - [hash_ok o]   : the line written by getPVLine on a hash cut is playable from the node.
    - [iid_ok o]    : Settings.Search.IIDReduction >= 1 (only for [fuel_enough]).
    - [first_cmp o] : at the FIRST root move of iteration 1 the comparison
                      [value > bestNodeValue] (bestNodeValue = ValueNA) is true
                      (only for [best_move_is_root_move]).
    - [root_nonempty] : the root move list of iteration 1 is not empty. *)

From FG Require Import PvBuffers.
From Coq Require Import List NArith Bool Arith Lia.
Import ListNotations.

(** ** Hypotheses on the oracle *)

(** getPVLine (alphabeta.go:1097-1111) follows hash entries by 64-bit key and plays their
    moves WITHOUT validating them.  An entry found under key K was written by storeTT for a
    position with key K, with a move that was searched as a legal move there (bestNodeMove),
    or that itself came from the entry / the IID line of such a position (ttMove, :361).
    Hence the line is playable provided no two different positions met during the lifetime
    of the table share a 64-bit Zobrist key (TtTable.GetEntry compares the full key, so
    index collisions are harmless).  This is the only assumption about hash contents. *)
Definition hash_ok (o : oracle) : Prop :=
  forall p t line, v_early (o_s o p t) = EHash line -> playable t line.

Definition iid_ok (o : oracle) : Prop :=
  forall p t ip, v_iid (o_s o p t) = Some ip -> 1 <= ip_red ip.

(** rootSearch :125 for i = 0 in iteration 1: bestNodeValue = ValueNA = -15001 and
    value = -search(...) where search returns ValueNA when stopped (-> 15001) and otherwise
    a value <= ValueInf = 15000 in absolute terms, or value = ValueDraw: always > ValueNA. *)
Definition first_cmp (o : oracle) : Prop := rd_best (r_dec (o_r o 1) 0) = true.

(** ** Lists and buffers *)

Lemma set_nth_length {A} i (x : A) l : length (set_nth i x l) = length l.
Proof.
  revert i. induction l as [ | y l IH]; intros [ | i]; cbn; auto.
Qed.

Lemma nth_set_nth_eq {A} i (x d : A) l : i < length l -> nth i (set_nth i x l) d = x.
Proof.
  revert i. induction l as [ | y l IH]; intros [ | i] H; cbn in *; try lia; auto.
  apply IH. lia.
Qed.

Lemma nth_set_nth_neq {A} i j (x d : A) l : i <> j -> nth j (set_nth i x l) d = nth j l d.
Proof.
  revert i j. induction l as [ | y l IH]; intros [ | i] [ | j] H; cbn; auto; try lia.
Qed.

Lemma select_incl {A} idx (l : list A) x : In x (select idx l) -> In x l.
Proof.
  induction idx as [ | i r IH]; cbn; [tauto | ].
  destruct (nth_error l i) as [y | ] eqn:E; cbn; auto.
  intros [<- | H]; auto. eapply nth_error_In; eauto.
Qed.

Lemma legal_of_in l m c : In (m, c) (legal_of l) <-> In (m, Some c) l.
Proof.
  induction l as [ | [m' [c' | ]] l IH]; cbn; [tauto | | ].
  - rewrite IH. split; intros [H | H]; auto; left; congruence.
  - rewrite IH. split; [auto | intros [H | H]; [discriminate | auto]].
Qed.

Lemma legal_children_in t m c : In (m, c) (legal_children t) <-> In (m, Some c) (pmoves t).
Proof. apply legal_of_in. Qed.

(** ** playable *)

Lemma playable_b_spec l : forall t, playable_b l t = true <-> playable t l.
Proof.
  induction l as [ | m l IH]; intros t; cbn.
  - split; [constructor | auto].
  - rewrite existsb_exists. split.
    + intros [[m' [c | ]] [Hin H]]; [ | discriminate].
      apply andb_true_iff in H. destruct H as [Hm H]. apply N.eqb_eq in Hm. subst m'.
      econstructor; eauto. now apply IH.
    + intros H. inversion H as [ | t' m' c l' Hin Hp]; subst.
      exists (m, Some c). split; auto. rewrite N.eqb_refl. cbn. now apply IH.
Qed.

Lemma playable_head t m l : playable t (m :: l) -> exists c, In (m, c) (legal_children t) /\ playable c l.
Proof.
  intros H. inversion H; subst. eexists. split; eauto. now apply legal_children_in.
Qed.

(** ** Frame: what a call at [ply] may change: only buffers >= ply; never the number of
    buffers; and no Go index panic as long as there are MaxDepth+1 buffers. *)

Definition fr (ply : nat) (s s' : st) : Prop :=
  length (bufs s') = length (bufs s) /\
  (forall j, j < ply -> getb j s' = getb j s) /\
  (max_depth < length (bufs s) -> err s' = err s).

Lemma fr_refl ply s : fr ply s s.
Proof. repeat split; auto. Qed.

Lemma fr_trans ply s1 s2 s3 : fr ply s1 s2 -> fr ply s2 s3 -> fr ply s1 s3.
Proof.
  intros (L1 & F1 & E1) (L2 & F2 & E2). repeat split.
  - congruence.
  - intros j Hj. rewrite F2, F1; auto.
  - intros H. rewrite E2, E1; auto. now rewrite L1.
Qed.

Lemma fr_weaken ply ply' s s' : ply' <= ply -> fr ply s s' -> fr ply' s s'.
Proof.
  intros Hle (L & F & E). repeat split; auto. intros j Hj. apply F. lia.
Qed.

Lemma set_buf_len i l s : length (bufs (set_buf i l s)) = length (bufs s).
Proof.
  unfold set_buf. destruct (i <? length (bufs s)); cbn; auto using set_nth_length.
Qed.

Lemma getb_set_buf_other i j l s : i <> j -> getb j (set_buf i l s) = getb j s.
Proof.
  intros H. unfold set_buf, getb. destruct (i <? length (bufs s)); cbn; auto.
  now apply nth_set_nth_neq.
Qed.

Lemma getb_set_buf_self i l s : getb i (set_buf i l s) = l \/ getb i (set_buf i l s) = [].
Proof.
  unfold set_buf, getb. destruct (i <? length (bufs s)) eqn:E; cbn.
  - left. apply nth_set_nth_eq. now apply Nat.ltb_lt.
  - right. apply nth_overflow. apply Nat.ltb_ge in E. exact E.
Qed.

Lemma getb_set_buf_in i l s : i < length (bufs s) -> getb i (set_buf i l s) = l.
Proof.
  intros H. unfold set_buf, getb. apply Nat.ltb_lt in H as E. rewrite E. cbn.
  now apply nth_set_nth_eq.
Qed.

Lemma getb_clear_self i s : getb i (clear i s) = [].
Proof. destruct (getb_set_buf_self i [] s); auto. Qed.

Lemma fr_set_buf ply i l s : ply <= i -> i <= max_depth -> fr ply s (set_buf i l s).
Proof.
  intros H1 H2. repeat split.
  - apply set_buf_len.
  - intros j Hj. apply getb_set_buf_other. lia.
  - intros HL. unfold set_buf.
    assert (E : i <? length (bufs s) = true) by (apply Nat.ltb_lt; lia).
    now rewrite E.
Qed.

Lemma fr_clear ply i s : ply <= i -> i <= max_depth -> fr ply s (clear i s).
Proof. apply fr_set_buf. Qed.

Lemma fr_observe ply b s : fr ply s (observe b s).
Proof. repeat split; auto. Qed.

Lemma fr_mark_oof ply s : fr ply s (mark_oof s).
Proof. repeat split; auto. Qed.

Lemma getb_observe j b s : getb j (observe b s) = getb j s.
Proof. reflexivity. Qed.

Lemma save_pv_len m ply s : length (bufs (save_pv m ply s)) = length (bufs s).
Proof.
  unfold save_pv. rewrite set_buf_len. destruct (S ply <? length (bufs s)); auto.
Qed.

Lemma getb_save_pv_other m ply j s : ply <> j -> getb j (save_pv m ply s) = getb j s.
Proof.
  intros H. unfold save_pv. rewrite getb_set_buf_other by auto.
  destruct (S ply <? length (bufs s)); auto.
Qed.

Lemma getb_save_pv_self m ply s :
  getb ply (save_pv m ply s) = m :: getb (S ply) s \/ getb ply (save_pv m ply s) = [].
Proof. unfold save_pv. apply getb_set_buf_self. Qed.

Lemma getb_save_pv_in m ply s : ply < length (bufs s) -> getb ply (save_pv m ply s) = m :: getb (S ply) s.
Proof.
  intros H. unfold save_pv. apply getb_set_buf_in.
  destruct (S ply <? length (bufs s)); auto.
Qed.

Lemma fr_save_pv ply' m ply s : ply' <= ply -> ply < max_depth -> fr ply' s (save_pv m ply s).
Proof.
  intros H1 H2. repeat split.
  - apply save_pv_len.
  - intros j Hj. apply getb_save_pv_other. lia.
  - intros HL. unfold save_pv.
    assert (E : S ply <? length (bufs s) = true) by (apply Nat.ltb_lt; lia).
    rewrite E. unfold set_buf.
    assert (E' : ply <? length (bufs s) = true) by (apply Nat.ltb_lt; lia).
    now rewrite E'.
Qed.

(** ** The invariant of a call on node [t] at [ply] *)

Definition post (t : gt) (ply : nat) (s s' : st) : Prop :=
  fr ply s s' /\ playable t (getb ply s').

Lemma post_fr t ply s s' : post t ply s s' -> fr ply s s'.
Proof. now intros []. Qed.

Lemma playable_set_buf t ply l s : playable t l -> playable t (getb ply (set_buf ply l s)).
Proof.
  intros H. destruct (getb_set_buf_self ply l s) as [-> | ->]; [auto | constructor].
Qed.

Lemma post_clear t ply s : ply <= max_depth -> post t ply s (clear ply s).
Proof.
  intros H. split; [now apply fr_clear | ]. rewrite getb_clear_self. constructor.
Qed.

Lemma playable_save_pv t m c ply s :
  In (m, Some c) (pmoves t) -> playable c (getb (S ply) s) -> playable t (getb ply (save_pv m ply s)).
Proof.
  intros Hin Hp. destruct (getb_save_pv_self m ply s) as [-> | ->]; [ | constructor].
  econstructor; eauto.
Qed.

(** ** qsearch *)

Lemma qloop_post rec dec p ply t :
  ply < max_depth ->
  (forall p' c s, post c (S ply) s (rec p' c s)) ->
  forall l i s,
    (forall x, In x l -> In x (pmoves t)) ->
    playable t (getb ply s) ->
    post t ply s (qloop rec dec p ply l i s).
Proof.
  intros Hply Hrec. induction l as [ | [m oc] l IH]; intros i s Hsub Hp; cbn [qloop]; cbv zeta.
  - split; [apply fr_refl | auto].
  - assert (Hsub' : forall x, In x l -> In x (pmoves t)) by (intros x Hx; apply Hsub; now right).
    destruct (qd_skip (dec i)); [now apply IH | ].
    destruct oc as [c | ]; [ | now apply IH].
    assert (Hin : In (m, Some c) (pmoves t)) by (apply Hsub; now left).
    set (s1 := if qd_draw (dec i) then clear (S ply) s else rec (SChild i 0 :: p) c s).
    assert (H1 : post c (S ply) s s1).
    { unfold s1. destruct (qd_draw (dec i)); [apply post_clear; lia | apply Hrec]. }
    destruct H1 as [F1 P1].
    set (s2 := observe (qd_stop (dec i)) s1).
    assert (F2 : fr ply s s2).
    { eapply fr_trans; [eapply fr_weaken; [ | exact F1]; lia | apply fr_observe]. }
    assert (G2 : getb ply s2 = getb ply s).
    { unfold s2. rewrite getb_observe. destruct F1 as (_ & F & _). apply F. lia. }
    assert (P2 : playable t (getb ply s2)) by now rewrite G2.
    destruct (stopped s2); [now split | ].
    destruct (qd_best (dec i) && qd_alpha (dec i)).
    + destruct (qd_beta (dec i)); [now split | ].
      assert (P3 : playable t (getb ply (save_pv m ply s2))).
      { eapply playable_save_pv; eauto. }
      destruct (IH (S i) (save_pv m ply s2) Hsub' P3) as [F4 P4].
      split; auto.
      eapply fr_trans; [exact F2 | ]. eapply fr_trans; [ | exact F4].
      apply fr_save_pv; auto.
    + destruct (IH (S i) s2 Hsub' P2) as [F4 P4]. split; auto.
      eapply fr_trans; eauto.
Qed.

Lemma qsearch_post fuel o : forall p t ply s,
  ply <= max_depth -> post t ply s (qsearch fuel o p t ply s).
Proof.
  unfold qsearch. induction fuel as [ | f IH]; intros p t ply s Hply; cbn [qsearch_gen]; cbv zeta.
  - destruct (post_clear t ply s Hply) as [F P]. split.
    + eapply fr_trans; [exact F | apply fr_mark_oof].
    + exact P.
  - unfold entry_clear.
    pose proof (post_clear t ply s Hply) as H0.
    destruct (q_off (o_q o p t) || (max_depth <=? ply)) eqn:E; [exact H0 | ].
    destruct (q_mdp (o_q o p t)); [exact H0 | ].
    destruct (q_standpat (o_q o p t)); [exact H0 | ].
    destruct (q_hash (o_q o p t)); [exact H0 | ].
    apply orb_false_iff in E. destruct E as [_ E]. apply Nat.leb_gt in E.
    destruct H0 as [F0 P0].
    pose proof (post_clear t ply (clear ply s) Hply) as [F1 P1].
    match goal with |- post _ _ _ (observe _ ?x) => set (s2 := x) end.
    assert (H2 : post t ply (clear ply (clear ply s)) s2).
    { unfold s2. apply qloop_post;
        [exact E | intros p' c s'; apply IH; lia | intros x Hx; eapply select_incl; eauto | exact P1]. }
    destruct H2 as [F2 P2]. split.
    + eapply fr_trans; [exact F0 | ]. eapply fr_trans; [exact F1 | ].
      eapply fr_trans; [exact F2 | apply fr_observe].
    + now rewrite getb_observe.
Qed.

(** ** search *)

Lemma sloop_post rec dec p depth ply t :
  ply < max_depth ->
  (forall p' c d s, post c (S ply) s (rec p' c d s)) ->
  forall l i s,
    (forall x, In x l -> In x (pmoves t)) ->
    playable t (getb ply s) ->
    post t ply s (sloop rec dec p depth ply l i s).
Proof.
  intros Hply Hrec. induction l as [ | [m oc] l IH]; intros i s Hsub Hp; cbn [sloop]; cbv zeta.
  - split; [apply fr_refl | auto].
  - assert (Hsub' : forall x, In x l -> In x (pmoves t)) by (intros x Hx; apply Hsub; now right).
    destruct (md_skip (dec i)); [now apply IH | ].
    destruct oc as [c | ]; [ | now apply IH].
    assert (Hin : In (m, Some c) (pmoves t)) by (apply Hsub; now left).
    match goal with |- post _ _ _ (if stopped (observe _ ?x) then _ else _) => set (s1 := x) end.
    assert (H1 : post c (S ply) s s1).
    { unfold s1. destruct (md_draw (dec i)); [apply post_clear; lia | ].
      destruct (md_pvs (dec i)); [ | apply Hrec].
      destruct (md_second (dec i)); [ | apply Hrec].
      match goal with |- post _ _ _ (if stopped (observe ?b ?x) then _ else _) =>
        pose proof (Hrec (SChild i 0 :: p) c (depth - 1 + (if md_ext (dec i) then 1 else 0) - md_lmr (dec i)) s) as [Fa Pa];
        set (sa := x) in *; set (sb := observe b sa) end.
      destruct (stopped sb) eqn:Es.
      - split; [eapply fr_trans; [exact Fa | apply fr_observe] | exact Pa].
      - match goal with |- post _ _ _ (rec ?a ?b ?c ?d) => destruct (Hrec a b c d) as [Fb Pb] end.
        split; auto. eapply fr_trans; [exact Fa | ]. eapply fr_trans; [apply fr_observe | exact Fb]. }
    destruct H1 as [F1 P1].
    set (s2 := observe (md_stop3 (dec i)) s1).
    assert (F2 : fr ply s s2).
    { eapply fr_trans; [eapply fr_weaken; [ | exact F1]; lia | apply fr_observe]. }
    assert (G2 : getb ply s2 = getb ply s).
    { unfold s2. rewrite getb_observe. destruct F1 as (_ & F & _). apply F. lia. }
    assert (P2 : playable t (getb ply s2)) by now rewrite G2.
    destruct (stopped s2); [now split | ].
    destruct (md_best (dec i) && md_alpha (dec i)).
    + destruct (md_beta (dec i)); [now split | ].
      assert (P3 : playable t (getb ply (save_pv m ply s2))).
      { eapply playable_save_pv; eauto. }
      destruct (IH (S i) (save_pv m ply s2) Hsub' P3) as [F4 P4].
      split; auto.
      eapply fr_trans; [exact F2 | ]. eapply fr_trans; [ | exact F4].
      apply fr_save_pv; auto.
    + destruct (IH (S i) s2 Hsub' P2) as [F4 P4]. split; auto.
      eapply fr_trans; eauto.
Qed.

Lemma search_post fuel o : hash_ok o -> forall p t depth ply s,
  ply <= max_depth -> post t ply s (search fuel o p t depth ply s).
Proof.
  intros Hh. unfold search.
  induction fuel as [ | f IH]; intros p t depth ply s Hply; cbn [search_gen]; cbv zeta.
  - destruct (post_clear t ply s Hply) as [F P]. split.
    + eapply fr_trans; [exact F | apply fr_mark_oof].
    + exact P.
  - unfold entry_clear.
    destruct (post_clear t ply s Hply) as [F0 P0].
    set (s1 := observe (v_stop0 (o_s o p t)) (clear ply s)).
    assert (F1 : fr ply s s1) by (eapply fr_trans; [exact F0 | apply fr_observe]).
    assert (G1 : getb ply s1 = []) by (unfold s1; rewrite getb_observe; apply getb_clear_self).
    assert (P1 : playable t (getb ply s1)) by (rewrite G1; constructor).
    assert (HQ : post t ply s (qsearch_gen true f o (SQs :: p) t ply s1)).
    { destruct (qsearch_post f o (SQs :: p) t ply s1 Hply) as [Fq Pq].
      split; auto. eapply fr_trans; eauto. }
    destruct (stopped s1) eqn:Es1; [now split | ].
    destruct ((depth =? 0) || (max_depth <=? ply)) eqn:E; [exact HQ | ].
    apply orb_false_iff in E. destruct E as [_ E]. apply Nat.leb_gt in E.
    destruct (v_early (o_s o p t)) as [ | | line | | ] eqn:Ee.
    + (* no early return: null move, IID, move loop *)
      match goal with |- post _ _ _ (if _ then ?x else _) => set (s2 := x) end.
      assert (H2 : fr ply s s2 /\ getb ply s2 = []).
      { unfold s2. destruct (v_null (o_s o p t)) as [np | ]; [ | now split].
        match goal with |- fr _ _ (observe _ ?x) /\ _ => set (sn := x) end.
        assert (Hn : post (np_tree np) (S ply) s1 sn) by (apply IH; lia).
        destruct Hn as [Fn _]. split.
        - eapply fr_trans; [exact F1 | ]. eapply fr_trans; [ | apply fr_observe].
          eapply fr_weaken; [ | exact Fn]. lia.
        - rewrite getb_observe. destruct Fn as (_ & Fn & _). rewrite Fn by lia. exact G1. }
      destruct H2 as [F2 G2].
      match goal with |- post _ _ _ (if ?c then _ else _) => destruct c end;
        [split; [exact F2 | rewrite G2; constructor] | ].
      match goal with |- post _ _ _ (if _ then ?x else _) => set (s3 := x) end.
      assert (H3 : post t ply s s3).
      { unfold s3. destruct (v_iid (o_s o p t)) as [ip | ].
        - destruct (IH (SIid :: p) t (depth - ip_red ip) ply s2 Hply) as [Fi Pi].
          split; [ | now rewrite getb_observe].
          eapply fr_trans; [exact F2 | ]. eapply fr_trans; [exact Fi | apply fr_observe].
        - split; [exact F2 | rewrite G2; constructor]. }
      match goal with |- post _ _ _ (if ?c then _ else _) => destruct c end; [exact H3 | ].
      destruct H3 as [F3 _].
      destruct (post_clear t ply s3 Hply) as [F4 P4].
      match goal with |- post _ _ _ (observe _ ?x) => set (s5 := x) end.
      assert (H5 : post t ply (clear ply s3) s5).
      { unfold s5. apply sloop_post;
          [exact E | intros p' c d s'; apply IH; lia | intros x Hx; eapply select_incl; eauto | exact P4]. }
      destruct H5 as [F5 P5]. split.
      * eapply fr_trans; [exact F3 | ]. eapply fr_trans; [exact F4 | ].
        eapply fr_trans; [exact F5 | apply fr_observe].
      * now rewrite getb_observe.
    + now split.
    + split.
      * eapply fr_trans; [exact F1 | apply fr_set_buf; auto].
      * apply playable_set_buf. eapply Hh; eauto.
    + exact HQ.
    + now split.
Qed.

(** *** C05, per node: after [search] returns - normally OR because the stop was observed
    anywhere below - the buffer of its ply holds a playable line of the node searched, the
    buffers of the plies above are untouched, and no index panic occurred. *)
Theorem pv_is_path fuel o p t depth ply s :
  hash_ok o -> ply <= max_depth ->
  let s' := search fuel o p t depth ply s in
  playable t (getb ply s') /\
  length (bufs s') = length (bufs s) /\
  (forall j, j < ply -> getb j s' = getb j s) /\
  (max_depth < length (bufs s) -> err s' = err s).
Proof.
  intros Hh Hply. destruct (search_post fuel o Hh p t depth ply s Hply) as [(L & F & E) P].
  cbv zeta. auto.
Qed.

Theorem qsearch_pv_is_path fuel o p t ply s :
  ply <= max_depth ->
  let s' := qsearch fuel o p t ply s in
  playable t (getb ply s') /\
  length (bufs s') = length (bufs s) /\
  (forall j, j < ply -> getb j s' = getb j s) /\
  (max_depth < length (bufs s) -> err s' = err s).
Proof.
  intros Hply. destruct (qsearch_post fuel o p t ply s Hply) as [(L & F & E) P].
  cbv zeta. auto.
Qed.

(** ** rootSearch *)

Lemma max_depth_pos : 1 <= max_depth.
Proof. unfold max_depth. lia. Qed.

Lemma rloop_post rec dec p depth t :
  (forall p' c s, post c 1 s (rec p' c s)) ->
  forall l i s,
    (forall m c, In (m, c) l -> In (m, Some c) (pmoves t)) ->
    playable t (getb 0 s) ->
    post t 0 s (rloop rec dec p depth l i s).
Proof.
  intros Hrec. pose proof max_depth_pos as HM.
  induction l as [ | [m c] l IH]; intros i s Hsub Hp; cbn [rloop]; cbv zeta.
  - split; [apply fr_refl | auto].
  - assert (Hsub' : forall m c, In (m, c) l -> In (m, Some c) (pmoves t))
      by (intros m' c' Hx; apply Hsub; now right).
    assert (Hin : In (m, Some c) (pmoves t)) by (apply Hsub; now left).
    match goal with |- post _ _ _ (if stopped (observe _ ?x) && _ then _ else _) => set (s1 := x) end.
    assert (H1 : post c 1 s s1).
    { unfold s1. destruct (rd_draw (dec i)); [apply post_clear; lia | ].
      destruct (rd_pvs (dec i)); [ | apply Hrec].
      destruct (rd_second (dec i)); [ | apply Hrec].
      match goal with |- post _ _ _ (if stopped (observe ?b ?x) then _ else _) =>
        pose proof (Hrec (SChild i 0 :: p) c s) as [Fa Pa];
        set (sa := x) in *; set (sb := observe b sa) end.
      destruct (stopped sb) eqn:Es.
      - split; [eapply fr_trans; [exact Fa | apply fr_observe] | exact Pa].
      - match goal with |- post _ _ _ (rec ?a ?b ?c) => destruct (Hrec a b c) as [Fb Pb] end.
        split; auto. eapply fr_trans; [exact Fa | ]. eapply fr_trans; [apply fr_observe | exact Fb]. }
    destruct H1 as [F1 P1].
    set (s2 := observe (rd_stop3 (dec i)) s1).
    assert (F2 : fr 0 s s2).
    { eapply fr_trans; [eapply fr_weaken; [ | exact F1]; lia | apply fr_observe]. }
    assert (G2 : getb 0 s2 = getb 0 s).
    { unfold s2. rewrite getb_observe. destruct F1 as (_ & F & _). apply F. lia. }
    assert (P2 : playable t (getb 0 s2)) by now rewrite G2.
    destruct (stopped s2 && (1 <? depth)); [now split | ].
    destruct (rd_best (dec i)).
    + assert (P3 : playable t (getb 0 (save_pv m 0 s2))).
      { eapply playable_save_pv; eauto. }
      assert (F3 : fr 0 s (save_pv m 0 s2)).
      { eapply fr_trans; [exact F2 | apply fr_save_pv; lia]. }
      destruct (rd_alpha (dec i) && rd_beta (dec i)); [now split | ].
      destruct (IH (S i) (save_pv m 0 s2) Hsub' P3) as [F4 P4].
      split; auto. eapply fr_trans; eauto.
    + destruct (IH (S i) s2 Hsub' P2) as [F4 P4]. split; auto.
      eapply fr_trans; eauto.
Qed.

Lemma root_moves_in o t d m c : In (m, c) (root_moves o t d) -> In (m, Some c) (pmoves t).
Proof.
  intros H. apply select_incl in H. now apply legal_children_in.
Qed.

Lemma root_search_post fuel o t depth s :
  hash_ok o -> playable t (getb 0 s) -> post t 0 s (root_search fuel o t depth s).
Proof.
  intros Hh Hp. unfold root_search. apply rloop_post; auto.
  - intros p' c s'. apply search_post; auto. apply max_depth_pos.
  - intros m c. apply root_moves_in.
Qed.

(** ** iterativeDeepening *)

Lemma at0_check_getb j s : getb j (at0_check s) = getb j s.
Proof. unfold at0_check. destruct (getb 0 s); reflexivity. Qed.

Lemma at0_check_len s : length (bufs (at0_check s)) = length (bufs s).
Proof. unfold at0_check. destruct (getb 0 s); reflexivity. Qed.

Lemma iter_loop_playable n fuel o t : hash_ok o -> forall depth rep s,
  playable t (getb 0 s) -> Forall (playable t) rep ->
  let r := iter_loop n fuel o t depth rep s in
  playable t (getb 0 (fst r)) /\ Forall (playable t) (snd r) /\
  length (bufs (fst r)) = length (bufs s).
Proof.
  intros Hh. induction n as [ | n IH]; intros depth rep s Hp Hr; cbn [iter_loop]; cbv zeta.
  - cbn. auto.
  - destruct (root_search_post fuel o t (S depth) s Hh Hp) as [(L1 & _ & _) P1].
    set (s1 := root_search fuel o t (S depth) s) in *.
    set (s2 := observe (r_stop_after (o_r o (S depth))) s1).
    destruct (negb (stopped s2) && (1 <? length (root_moves o t (S depth)))).
    + assert (P3 : playable t (getb 0 (at0_check s2))) by (rewrite at0_check_getb; exact P1).
      destruct (IH (S depth) (getb 0 (at0_check s2) :: rep) (at0_check s2) P3) as (A & B & C).
      { constructor; auto. }
      repeat split; auto. rewrite C, at0_check_len. exact L1.
    + cbn. repeat split; auto.
Qed.

(** *** C05, root: whatever happens (any number of completed iterations, stop observed in the
    middle of any iteration), pv[0] is a playable line of the root, and so is every PV
    reported to the UCI layer at the end of an iteration. *)
Theorem root_pv_playable n fuel o t depth s :
  hash_ok o -> playable t (getb 0 s) ->
  let r := iter_loop n fuel o t depth [] s in
  playable t (getb 0 (fst r)) /\ Forall (playable t) (snd r).
Proof.
  intros Hh Hp. destruct (iter_loop_playable n fuel o t Hh depth [] s Hp) as (A & B & _); auto.
Qed.

(** a non-empty playable line starts with a legal move of the node *)
Corollary root_pv_head n fuel o t depth s m l :
  hash_ok o -> playable t (getb 0 s) ->
  getb 0 (fst (iter_loop n fuel o t depth [] s)) = m :: l ->
  exists c, In (m, c) (legal_children t) /\ playable c l.
Proof.
  intros Hh Hp E. destruct (root_pv_playable n fuel o t depth s Hh Hp) as [A _].
  cbv zeta in A. rewrite E in A. now apply playable_head.
Qed.


(** ** The best move *)

Lemma rloop_fr rec dec p depth :
  (forall p' c s, fr 1 s (rec p' c s)) ->
  forall l i s, fr 0 s (rloop rec dec p depth l i s).
Proof.
  intros Hrec. pose proof max_depth_pos as HM.
  induction l as [ | [m c] l IH]; intros i s; cbn [rloop]; cbv zeta; [apply fr_refl | ].
  match goal with |- fr 0 _ (if stopped (observe _ ?x) && _ then _ else _) => set (s1 := x) end.
  assert (F1 : fr 1 s s1).
  { unfold s1. destruct (rd_draw (dec i)); [apply fr_clear; lia | ].
    destruct (rd_pvs (dec i)); [ | apply Hrec].
    destruct (rd_second (dec i)); [ | apply Hrec].
    match goal with |- fr _ _ (if stopped ?x then _ else _) => destruct (stopped x) end.
    - eapply fr_trans; [apply Hrec | apply fr_observe].
    - eapply fr_trans; [apply Hrec | ]. eapply fr_trans; [apply fr_observe | apply Hrec]. }
  set (s2 := observe (rd_stop3 (dec i)) s1).
  assert (F2 : fr 0 s s2).
  { eapply fr_trans; [eapply fr_weaken; [ | exact F1]; lia | apply fr_observe]. }
  destruct (stopped s2 && (1 <? depth)); [exact F2 | ].
  destruct (rd_best (dec i)).
  - assert (F3 : fr 0 s (save_pv m 0 s2)).
    { eapply fr_trans; [exact F2 | apply fr_save_pv; lia]. }
    destruct (rd_alpha (dec i) && rd_beta (dec i)); [exact F3 | ].
    eapply fr_trans; [exact F3 | apply IH].
  - eapply fr_trans; [exact F2 | apply IH].
Qed.

(** pv[0] once non-empty stays non-empty *)
Lemma rloop_nonempty rec dec p depth :
  (forall p' c s, fr 1 s (rec p' c s)) ->
  forall l i s, 0 < length (bufs s) -> getb 0 s <> [] -> getb 0 (rloop rec dec p depth l i s) <> [].
Proof.
  intros Hrec. pose proof max_depth_pos as HM.
  induction l as [ | [m c] l IH]; intros i s HL Hne; cbn [rloop]; cbv zeta; auto.
  match goal with |- getb 0 (if stopped (observe _ ?x) && _ then _ else _) <> _ => set (s1 := x) end.
  assert (F1 : fr 1 s s1).
  { unfold s1. destruct (rd_draw (dec i)); [apply fr_clear; lia | ].
    destruct (rd_pvs (dec i)); [ | apply Hrec].
    destruct (rd_second (dec i)); [ | apply Hrec].
    match goal with |- fr _ _ (if stopped ?x then _ else _) => destruct (stopped x) end.
    - eapply fr_trans; [apply Hrec | apply fr_observe].
    - eapply fr_trans; [apply Hrec | ]. eapply fr_trans; [apply fr_observe | apply Hrec]. }
  destruct F1 as (L1 & F1 & _).
  set (s2 := observe (rd_stop3 (dec i)) s1).
  assert (G2 : getb 0 s2 = getb 0 s) by (unfold s2; rewrite getb_observe; apply F1; lia).
  assert (L2 : length (bufs s2) = length (bufs s)) by exact L1.
  destruct (stopped s2 && (1 <? depth)); [congruence | ].
  destruct (rd_best (dec i)).
  - assert (G3 : getb 0 (save_pv m 0 s2) <> []).
    { rewrite getb_save_pv_in by lia. discriminate. }
    destruct (rd_alpha (dec i) && rd_beta (dec i)); auto.
    apply IH; auto. rewrite save_pv_len. lia.
  - apply IH; [lia | congruence].
Qed.

Lemma search_fr1 fuel o d : hash_ok o -> forall p' c s, fr 1 s (search fuel o p' c d 1 s).
Proof.
  intros Hh p' c s. eapply post_fr. apply search_post; auto. apply max_depth_pos.
Qed.

Lemma root_search_fr fuel o t depth s : hash_ok o -> fr 0 s (root_search fuel o t depth s).
Proof.
  intros Hh. unfold root_search. apply rloop_fr. now apply search_fr1.
Qed.

Lemma root_search_nonempty fuel o t depth s :
  hash_ok o -> 0 < length (bufs s) -> getb 0 s <> [] -> getb 0 (root_search fuel o t depth s) <> [].
Proof.
  intros Hh HL Hne. unfold root_search. apply rloop_nonempty; auto. now apply search_fr1.
Qed.

(** iteration 1 always stores its first root move - also when the stop is observed before or
    during the search of that move: at depth 1 the guard of :114 ([depth > 1]) is false *)
Lemma root_search_first fuel o t s :
  hash_ok o -> first_cmp o -> root_moves o t 1 <> [] -> 0 < length (bufs s) ->
  getb 0 (root_search fuel o t 1 s) <> [].
Proof.
  intros Hh Hc Hne HL. unfold root_search. pose proof max_depth_pos as HM.
  destruct (root_moves o t 1) as [ | [m c] l]; [congruence | ].
  cbn [rloop]; cbv zeta.
  match goal with |- getb 0 (if stopped (observe _ ?x) && _ then _ else _) <> _ => set (s1 := x) end.
  pose proof (search_fr1 fuel o (1 - 1) Hh) as Hrec.
  assert (F1 : fr 1 s s1).
  { unfold s1. destruct (rd_draw _); [apply fr_clear; lia | ].
    destruct (rd_pvs _); [ | apply Hrec].
    destruct (rd_second _); [ | apply Hrec].
    match goal with |- fr _ _ (if stopped ?x then _ else _) => destruct (stopped x) end.
    - eapply fr_trans; [apply Hrec | apply fr_observe].
    - eapply fr_trans; [apply Hrec | ]. eapply fr_trans; [apply fr_observe | apply Hrec]. }
  destruct F1 as (L1 & _ & _).
  set (s2 := observe (rd_stop3 (r_dec (o_r o 1) 0)) s1).
  assert (L2 : length (bufs s2) = length (bufs s)) by exact L1.
  replace (1 <? 1) with false by reflexivity. rewrite andb_false_r.
  unfold first_cmp in Hc. rewrite Hc.
  assert (G3 : getb 0 (save_pv m 0 s2) <> []).
  { rewrite getb_save_pv_in by lia. discriminate. }
  destruct (rd_alpha _ && rd_beta _); auto.
  apply rloop_nonempty; auto. rewrite save_pv_len. lia.
Qed.

Lemma iter_loop_best n fuel o t : hash_ok o -> forall depth rep s,
  0 < length (bufs s) ->
  (getb 0 s <> [] \/ (1 <= n /\ depth = 0 /\ first_cmp o /\ root_moves o t 1 <> [])) ->
  let r := iter_loop n fuel o t depth rep s in
  getb 0 (fst r) <> [] /\ (max_depth < length (bufs s) -> err (fst r) = err s).
Proof.
  intros Hh. induction n as [ | n IH]; intros depth rep s HL Hc; cbn [iter_loop]; cbv zeta.
  - cbn. destruct Hc as [Hc | (Hc & _)]; [auto | lia].
  - assert (N1 : getb 0 (root_search fuel o t (S depth) s) <> []).
    { destruct Hc as [Hc | (_ & -> & Hc & Hr)].
      - now apply root_search_nonempty.
      - now apply root_search_first. }
    destruct (root_search_fr fuel o t (S depth) s Hh) as (L1 & _ & E1).
    set (s1 := root_search fuel o t (S depth) s) in *.
    set (s2 := observe (r_stop_after (o_r o (S depth))) s1).
    destruct (negb (stopped s2) && (1 <? length (root_moves o t (S depth)))).
    + assert (A : at0_check s2 = s2).
      { unfold at0_check. change (getb 0 s2) with (getb 0 s1). destruct (getb 0 s1); congruence. }
      rewrite A.
      destruct (IH (S depth) (getb 0 s2 :: rep) s2) as [B C].
      * change (length (bufs s2)) with (length (bufs s1)). lia.
      * left. exact N1.
      * split; [exact B | ]. intros HL'. rewrite C.
        -- change (err s2) with (err s1). auto.
        -- change (length (bufs s2)) with (length (bufs s1)). lia.
    + cbn. split; [exact N1 | exact E1].
Qed.

Lemma select_nil {A} idx : @select A idx [] = [].
Proof.
  induction idx as [ | i r IH]; cbn; auto. now destruct i.
Qed.

Lemma init_playable t : playable t (getb 0 init_st).
Proof. cbn. constructor. Qed.

(** *** C05: the result of a search (no book move).  With at least one root move, under every
    oracle - every feature combination, every limit, every moment at which the stop is
    observed INCLUDING before the first node of the first iteration - the reported best
    move is a legal root move, the final PV is a playable line starting with it, every PV
    reported at the end of an iteration is playable, and no index panic occurs. *)
Theorem best_move_is_root_move fuel o usett t maxdepth :
  hash_ok o -> first_cmp o -> root_moves o t 1 <> [] -> 1 <= maxdepth ->
  let r := run fuel o usett None t maxdepth in
  exists b rest c,
    res_best r = Some b /\ res_pv r = b :: rest /\
    In (b, c) (legal_children t) /\ playable c rest /\
    Forall (playable t) (res_reports r) /\
    err (res_final r) = false.
Proof.
  intros Hh Hc Hr Hd. cbv zeta. unfold run, iterative_deepening.
  destruct (legal_children t) as [ | x xs] eqn:EL.
  { exfalso. apply Hr. unfold root_moves. rewrite EL. apply select_nil. }
  pose proof (iter_loop_playable maxdepth fuel o t Hh 0 [] init_st (init_playable t) (Forall_nil _)) as (P & R & _).
  pose proof (iter_loop_best maxdepth fuel o t Hh 0 [] init_st) as B.
  destruct B as [N E].
  { cbn. lia. }
  { right. auto. }
  destruct (iter_loop maxdepth fuel o t 0 [] init_st) as [s1 rep]. cbn [fst snd] in *.
  destruct (getb 0 s1) as [ | b rest] eqn:G; [congruence | ].
  destruct (playable_head t b rest P) as (c & Hin & Hp).
  exists b, rest, c. cbn. rewrite EL in Hin. repeat split; auto.
Qed.

(** *** C05: whenever a ponder move is reported it is legal in the position after the best
    move (it is pv[0][1], or the hash move accepted by ValidateMove). No guard needed. *)
Theorem ponder_move_legal fuel o usett t maxdepth pm :
  hash_ok o ->
  let r := run fuel o usett None t maxdepth in
  res_ponder r = Some pm ->
  exists b c c', res_best r = Some b /\ In (b, c) (legal_children t) /\ In (pm, c') (legal_children c).
Proof.
  intros Hh. cbv zeta. unfold run, iterative_deepening.
  destruct (legal_children t) as [ | x xs] eqn:EL; [discriminate | ].
  pose proof (iter_loop_playable maxdepth fuel o t Hh 0 [] init_st (init_playable t) (Forall_nil _)) as (P & _ & _).
  destruct (iter_loop maxdepth fuel o t 0 [] init_st) as [s1 rep]. cbn [fst snd] in *.
  destruct (getb 0 s1) as [ | b rest] eqn:G; [discriminate | ].
  destruct (playable_head t b rest P) as (c & Hin & Hp). rewrite EL in Hin.
  cbn. destruct rest as [ | pm' rest'].
  - destruct usett; [ | discriminate].
    destruct (o_ponder_hash o) as [hm | ]; [ | discriminate].
    unfold child_of. rewrite EL.
    destruct (find (fun x0 => N.eqb b (fst x0)) (x :: xs)) as [[b' c1] | ] eqn:F; [ | discriminate].
    apply find_some in F. destruct F as [F1 F2]. cbn in F2. apply N.eqb_eq in F2. subst b'.
    destruct (validate c1 hm) eqn:V; [ | discriminate].
    intros [= <-]. unfold validate in V. apply existsb_exists in V.
    destruct V as [[m' c'] [V1 V2]]. cbn in V2. apply N.eqb_eq in V2. subst m'.
    exists b, c1, c'. auto.
  - intros [= <-]. destruct (playable_head c pm' rest' Hp) as (c' & Hin' & _).
    exists b, c, c'. auto.
Qed.

(** *** The position handed to the search.
    StartSearch (search.go:144) takes [p position.Position] BY VALUE and hands [&p] - the
    address of its own copy - to run; DoMove/UndoMove in the search and the un-undone
    DoMove(result.BestMove) of :542 act on that copy.  Go copies a struct value field by
    field; the copy shares state with the original only through pointer-like fields.
    position.Position (position.go:77-129) consists of: Key (uint64), [64]Piece (int8),
    CastlingRights (uint8), Square (uint8), int, Color (uint8), [2]Square, int,
    [2][7]Bitboard (uint64), [2]Bitboard, int, [maxHistory]historyState (a struct of Key,
    Move (uint32), Piece, Piece, CastlingRights, Square, int, int), [2]Value (int16) x 4,
    int, int - arrays and scalars only, no pointer, slice, map, string, interface, channel
    or func (checked by reflection over the type in the Go probe: none found; and the probe
    compared [before == *p] after each of 11 500 searches).  In the model [run] receives [t] as an
    argument and has no way to return a changed [t]: the statement is a triviality of the
    model, the content is the paragraph above. *)

(** ** Termination: the fuel bound *)

Lemma oof_set_buf i l s : oof (set_buf i l s) = oof s.
Proof. unfold set_buf. now destruct (i <? length (bufs s)). Qed.

Lemma oof_save_pv m ply s : oof (save_pv m ply s) = oof s.
Proof. unfold save_pv. rewrite oof_set_buf. now destruct (S ply <? length (bufs s)). Qed.

Lemma qloop_oof rec dec p ply :
  (forall p' c s, oof (rec p' c s) = oof s) ->
  forall l i s, oof (qloop rec dec p ply l i s) = oof s.
Proof.
  intros Hrec. induction l as [ | [m oc] l IH]; intros i s; cbn [qloop]; cbv zeta; auto.
  destruct (qd_skip (dec i)); auto. destruct oc as [c | ]; auto.
  match goal with |- oof (if stopped (observe _ ?x) then _ else _) = _ => set (s1 := x) end.
  assert (O1 : oof s1 = oof s).
  { unfold s1. destruct (qd_draw (dec i)); [apply oof_set_buf | apply Hrec]. }
  set (s2 := observe (qd_stop (dec i)) s1).
  assert (O2 : oof s2 = oof s) by exact O1.
  destruct (stopped s2); auto.
  destruct (qd_best (dec i) && qd_alpha (dec i)); [ | now rewrite IH].
  destruct (qd_beta (dec i)); auto. now rewrite IH, oof_save_pv.
Qed.

Lemma qsearch_oof fuel o : forall p t ply s,
  qmeasure ply <= fuel -> oof (qsearch fuel o p t ply s) = oof s.
Proof.
  unfold qsearch, qmeasure.
  induction fuel as [ | f IH]; intros p t ply s Hf; [lia | ].
  cbn [qsearch_gen]; cbv zeta. unfold entry_clear.
  assert (O0 : oof (clear ply s) = oof s) by apply oof_set_buf.
  destruct (q_off (o_q o p t) || (max_depth <=? ply)) eqn:E; auto.
  destruct (q_mdp (o_q o p t)); auto.
  destruct (q_standpat (o_q o p t)); auto.
  destruct (q_hash (o_q o p t)); auto.
  apply orb_false_iff in E. destruct E as [_ E]. apply Nat.leb_gt in E.
  cbn [observe oof]. rewrite qloop_oof.
  - unfold clear. now rewrite !oof_set_buf.
  - intros p' c s'. apply IH. lia.
Qed.

Lemma sloop_oof rec dec p depth ply :
  1 <= depth ->
  (forall p' c d s, d <= depth -> oof (rec p' c d s) = oof s) ->
  forall l i s, oof (sloop rec dec p depth ply l i s) = oof s.
Proof.
  intros Hd Hrec. induction l as [ | [m oc] l IH]; intros i s; cbn [sloop]; cbv zeta; auto.
  destruct (md_skip (dec i)); auto. destruct oc as [c | ]; auto.
  match goal with |- oof (if stopped (observe _ ?x) then _ else _) = _ => set (s1 := x) end.
  assert (O1 : oof s1 = oof s).
  { unfold s1. destruct (md_draw (dec i)); [apply oof_set_buf | ].
    assert (D1 : depth - 1 + (if md_ext (dec i) then 1 else 0) <= depth) by (destruct (md_ext (dec i)); lia).
    destruct (md_pvs (dec i)); [ | now apply Hrec].
    destruct (md_second (dec i)); [ | apply Hrec; lia].
    match goal with |- oof (if stopped ?x then _ else _) = _ => destruct (stopped x) end.
    - cbn [observe oof]. apply Hrec. lia.
    - rewrite Hrec by lia. cbn [observe oof]. apply Hrec. lia. }
  set (s2 := observe (md_stop3 (dec i)) s1).
  assert (O2 : oof s2 = oof s) by exact O1.
  destruct (stopped s2); auto.
  destruct (md_best (dec i) && md_alpha (dec i)); [ | now rewrite IH].
  destruct (md_beta (dec i)); auto. now rewrite IH, oof_save_pv.
Qed.

Lemma smeasure_child depth ply d f :
  ply < max_depth -> d <= depth -> smeasure depth ply <= S f -> smeasure d (S ply) <= f.
Proof.
  unfold smeasure. intros H1 H2 H3.
  replace (max_depth - S ply) with (max_depth - ply - 1) by lia.
  replace (S (max_depth - ply - 1)) with (max_depth - ply) by lia.
  assert (A : (max_depth - ply) * S d <= (max_depth - ply) * S depth) by (apply Nat.mul_le_mono_l; lia).
  assert (B : S (max_depth - ply) * S depth = (max_depth - ply) * S depth + S depth) by lia.
  lia.
Qed.

Lemma smeasure_iid depth ply r f :
  1 <= depth -> 1 <= r -> smeasure depth ply <= S f -> smeasure (depth - r) ply <= f.
Proof.
  unfold smeasure. intros H1 H2 H3.
  assert (A : S (max_depth - ply) * S (depth - r) <= S (max_depth - ply) * depth) by (apply Nat.mul_le_mono_l; lia).
  assert (B : S (max_depth - ply) * S depth = S (max_depth - ply) * depth + S (max_depth - ply)) by lia.
  lia.
Qed.

Lemma smeasure_q depth ply f : smeasure depth ply <= S f -> qmeasure ply <= f.
Proof.
  unfold smeasure, qmeasure. intros H.
  remember (S (max_depth - ply)) as k. rewrite Nat.mul_succ_r in H.
  remember (k * depth) as kd. lia.
Qed.

Lemma search_oof fuel o : iid_ok o -> forall p t depth ply s,
  smeasure depth ply <= fuel -> oof (search fuel o p t depth ply s) = oof s.
Proof.
  intros Hi. unfold search.
  induction fuel as [ | f IH]; intros p t depth ply s Hf; [exfalso; unfold smeasure in Hf; rewrite Nat.add_1_r in Hf; exact (Nat.nle_succ_0 _ Hf) | ].
  cbn [search_gen]; cbv zeta. unfold entry_clear.
  set (s1 := observe (v_stop0 (o_s o p t)) (clear ply s)).
  assert (O1 : oof s1 = oof s) by apply oof_set_buf.
  assert (OQ : oof (qsearch_gen true f o (SQs :: p) t ply s1) = oof s).
  { rewrite <- O1. apply qsearch_oof. eapply smeasure_q; eauto. }
  destruct (stopped s1); auto.
  destruct ((depth =? 0) || (max_depth <=? ply)) eqn:E; auto.
  apply orb_false_iff in E. destruct E as [E0 E]. apply Nat.leb_gt in E. apply Nat.eqb_neq in E0.
  destruct (v_early (o_s o p t)) as [ | | line | | ] eqn:Ee; auto.
  2: now rewrite oof_set_buf.
  match goal with |- oof (if _ then ?x else _) = _ => set (s2 := x) end.
  assert (O2 : oof s2 = oof s).
  { unfold s2. destruct (v_null (o_s o p t)) as [np | ]; auto.
    cbn [observe oof]. rewrite IH; auto. apply (smeasure_child depth ply); [exact E | lia | exact Hf]. }
  match goal with |- oof (if ?c then _ else _) = _ => destruct c end; auto.
  match goal with |- oof (if _ then ?x else _) = _ => set (s3 := x) end.
  assert (O3 : oof s3 = oof s).
  { unfold s3. destruct (v_iid (o_s o p t)) as [ip | ] eqn:Ei; auto.
    cbn [observe oof]. rewrite IH; auto. apply (smeasure_iid depth ply); [lia | eapply Hi; eauto | exact Hf]. }
  match goal with |- oof (if ?c then _ else _) = _ => destruct c end; auto.
  cbn [observe oof]. rewrite sloop_oof; [ | lia | ].
  - unfold clear. now rewrite oof_set_buf.
  - intros p' c d s' Hd. apply IH. apply (smeasure_child depth ply); [exact E | exact Hd | exact Hf].
Qed.

Lemma smeasure_mono d d' ply : d <= d' -> smeasure d ply <= smeasure d' ply.
Proof.
  unfold smeasure. intros H.
  assert (A : S (max_depth - ply) * S d <= S (max_depth - ply) * S d') by (apply Nat.mul_le_mono_l; lia).
  lia.
Qed.

Lemma rloop_oof rec dec p depth :
  (forall p' c s, oof (rec p' c s) = oof s) ->
  forall l i s, oof (rloop rec dec p depth l i s) = oof s.
Proof.
  intros Hrec. induction l as [ | [m c] l IH]; intros i s; cbn [rloop]; cbv zeta; auto.
  match goal with |- oof (if stopped (observe _ ?x) && _ then _ else _) = _ => set (s1 := x) end.
  assert (O1 : oof s1 = oof s).
  { unfold s1. destruct (rd_draw (dec i)); [apply oof_set_buf | ].
    destruct (rd_pvs (dec i)); [ | now apply Hrec].
    destruct (rd_second (dec i)); [ | apply Hrec].
    match goal with |- oof (if stopped ?x then _ else _) = _ => destruct (stopped x) end.
    - cbn [observe oof]. apply Hrec.
    - rewrite Hrec. cbn [observe oof]. apply Hrec. }
  set (s2 := observe (rd_stop3 (dec i)) s1).
  assert (O2 : oof s2 = oof s) by exact O1.
  destruct (stopped s2 && (1 <? depth)); auto.
  destruct (rd_best (dec i)); [ | now rewrite IH].
  destruct (rd_alpha (dec i) && rd_beta (dec i)); [now rewrite oof_save_pv | ].
  now rewrite IH, oof_save_pv.
Qed.

Lemma iter_loop_oof n fuel o t : iid_ok o -> forall depth rep s,
  smeasure (depth + n) 1 <= fuel ->
  oof (fst (iter_loop n fuel o t depth rep s)) = oof s.
Proof.
  intros Hi. induction n as [ | n IH]; intros depth rep s Hf; cbn [iter_loop]; cbv zeta; auto.
  assert (O1 : oof (root_search fuel o t (S depth) s) = oof s).
  { unfold root_search. apply rloop_oof. intros p' c s'. apply search_oof; auto.
    eapply Nat.le_trans; [ | exact Hf]. apply smeasure_mono. lia. }
  set (s1 := root_search fuel o t (S depth) s) in *.
  set (s2 := observe (r_stop_after (o_r o (S depth))) s1).
  destruct (negb (stopped s2) && (1 <? length (root_moves o t (S depth)))); [ | exact O1].
  rewrite IH.
  - unfold at0_check. destruct (getb 0 s2); exact O1.
  - eapply Nat.le_trans; [ | exact Hf]. apply smeasure_mono. lia.
Qed.

(** *** Termination: the recursion of search/qsearch is bounded - every call increases ply
    (bounded by MaxDepth) or keeps ply and decreases depth (IID, given IIDReduction >= 1),
    and every move loop runs over a finite move list: [smeasure maxdepth 1] units of fuel
    are never used up.  [run] is then a total function ending in its tail (:364-390,
    sendResult) on every path: after a stop every frame returns at its next
    stopConditions() check (the [if stopped ..] branches of the model), iterativeDeepening
    leaves its loop at :516.  (The wait loop :356-362 of an infinite/ponder search that
    finished early ends when the stop flag is set - by the protocol's [stop].) *)
Theorem fuel_enough fuel o usett book t maxdepth :
  iid_ok o -> smeasure maxdepth 1 <= fuel ->
  oof (res_final (run fuel o usett book t maxdepth)) = false.
Proof.
  intros Hi Hf. unfold run. destruct book; [reflexivity | ].
  unfold iterative_deepening. destruct (legal_children t); [reflexivity | ].
  pose proof (iter_loop_oof maxdepth fuel o t Hi 0 [] init_st Hf) as O.
  destruct (iter_loop maxdepth fuel o t 0 [] init_st) as [s1 rep]. cbn [fst] in O.
  destruct (getb 0 s1); cbn; exact O.
Qed.

Theorem terminates fuel o usett t maxdepth :
  hash_ok o -> iid_ok o -> first_cmp o -> root_moves o t 1 <> [] -> 1 <= maxdepth ->
  smeasure maxdepth 1 <= fuel ->
  let r := run fuel o usett None t maxdepth in
  oof (res_final r) = false /\ err (res_final r) = false /\ res_best r <> None.
Proof.
  intros Hh Hi Hc Hr Hd Hf. cbv zeta.
  destruct (best_move_is_root_move fuel o usett t maxdepth Hh Hc Hr Hd) as (b & rest & c & B & _ & _ & _ & _ & E).
  repeat split; auto.
  - now apply fuel_enough.
  - rewrite B. discriminate.
Qed.

(** ** Non-vacuity: a concrete oracle that satisfies the hypotheses and exercises a hash cut
    with a non-empty line, a null-move search, IID and PVS re-searches *)

Module Examples.
Open Scope N_scope.

Definition exL : gt := GNode false [].
Definition exA : gt := GNode false [(3, Some exL); (5, None)].
Definition exB : gt := GNode true [(4, Some exL)].
Definition exR : gt := GNode false [(9, None); (1, Some exA); (2, Some exB)].

Definition first_line (t : gt) : list move :=
  match legal_children t with (m, _) :: _ => [m] | [] => [] end.

Definition all_yes : mdec := mkMdec false false 0 false false false false false true true false.
Definition is_path_b (p : path) : bool :=
  match p with [SChild 1%nat 0%nat; SIter 2%nat] => true | _ => false end.
Definition is_path_a3 (p : path) : bool :=
  match p with [SChild 0%nat 0%nat; SIter 3%nat] => true | _ => false end.

Definition ex_visit (p : path) (t : gt) : visit :=
  mkVisit false
          (if is_path_b p then EHash (first_line t) else ENone)
          (if is_path_a3 p then Some (mkNull exB 0 false false) else None)
          (if is_path_a3 p then Some (mkIid 1 false) else None)
          (seq 0 (length (pmoves t))) (fun _ => all_yes) false.

Definition ex_q (p : path) (t : gt) : qvisit :=
  mkQvisit false false false false (seq 0 (length (pmoves t)))
           (fun _ => mkQdec false false false true true false) false.

Definition ex_r (d : nat) : rvisit :=
  mkRvisit [0; 1]%nat (fun i => mkRdec false (Nat.ltb 0 i) true false false true true false) false.

Definition ex_o : oracle := mkOracle ex_visit ex_q ex_r (Some 4).

Lemma first_line_playable t : playable t (first_line t).
Proof.
  unfold first_line. destruct (legal_children t) as [ | [m c] l] eqn:E; [constructor | ].
  econstructor; [ | constructor]. apply legal_children_in. rewrite E. now left.
Qed.

Lemma ex_hash_ok : hash_ok ex_o.
Proof.
  intros p t line H. cbn in H. destruct (is_path_b p); [ | discriminate].
  injection H as <-. apply first_line_playable.
Qed.

Lemma ex_iid_ok : iid_ok ex_o.
Proof.
  intros p t ip H. cbn in H. destruct (is_path_a3 p); [ | discriminate].
  injection H as <-. cbn. lia.
Qed.

Lemma ex_first_cmp : first_cmp ex_o.
Proof. reflexivity. Qed.

Lemma ex_root_nonempty : root_moves ex_o exR 1 <> [].
Proof. vm_compute. discriminate. Qed.

Definition view (r : result) :=
  (res_best r, res_ponder r, res_pv r, rev (res_reports r), err (res_final r), oof (res_final r)).

(** [best_move_is_root_move], [ponder_move_legal], [terminates] are not vacuous: *)
Example ex_run :
  view (run (smeasure 3 1) ex_o true None exR 3) = (Some 2, Some 4, [2; 4], [[2; 4]; [2; 4]; [2; 4]], false, false).
Proof. vm_compute. reflexivity. Qed.

Example ex_run_thm :
  exists b rest c, res_best (run (smeasure 3 1) ex_o true None exR 3) = Some b /\
                   res_pv (run (smeasure 3 1) ex_o true None exR 3) = b :: rest /\
                   In (b, c) (legal_children exR) /\ playable c rest.
Proof.
  destruct (best_move_is_root_move (smeasure 3 1) ex_o true exR 3 ex_hash_ok ex_first_cmp ex_root_nonempty)
    as (b & rest & c & H1 & H2 & H3 & H4 & _); [lia | ].
  exists b, rest, c. auto.
Qed.

(** [pv_is_path] on a node with IID and a null-move search *)
Example ex_search :
  getb 1 (search (smeasure 2 1) ex_o [SChild 0 0; SIter 3]%nat exA 2 1 init_st) = [3].
Proof. vm_compute. reflexivity. Qed.

(** The schedule "stop observed before the first node" ([go] immediately followed by [stop],
    or [go nodes 1]): every call of [search] returns at its entry check; iteration 1 still
    stores the first root move (here the root order is [B; A] and the very first comparison
    also fails high, :131) - the best move is a legal root move, pv = [best], no ponder move. *)
Definition stop_o : oracle :=
  mkOracle (fun p t => mkVisit true ENone None None [] (fun _ => all_yes) false) ex_q
           (fun d => mkRvisit [1; 0]%nat (fun i => mkRdec false false false false false true true true) false) None.

Example ex_stop_at_once :
  view (run (smeasure 5 1) stop_o false None exR 5) = (Some 2, None, [2], [], false, false).
Proof. vm_compute. reflexivity. Qed.

(** *** Why the Clear on entry (:182, :775) matters: WITHOUT it a node that returns early (here
    reverse futility pruning at B) leaves the line of its sibling A in pv[1], and the root
    copies it behind the move to B: pv[0] = [2; 3] although 3 is not a move of B. *)
Definition sL : gt := GNode false [].
Definition sA : gt := GNode false [(3, Some sL)].
Definition sB : gt := GNode false [(4, Some sL)].
Definition sR : gt := GNode false [(1, Some sA); (2, Some sB)].

Definition stale_o : oracle :=
  mkOracle (fun p t => mkVisit false
                         (match p with [SChild 1%nat 0%nat; SIter 2%nat] => ERfp | _ => ENone end)
                         None None (seq 0 (length (pmoves t))) (fun _ => all_yes) false)
           (fun p t => mkQvisit true false false false [] (fun _ => mkQdec false false false false false false) false)
           (fun d => mkRvisit [0; 1]%nat (fun i => mkRdec false false false false false true true false) false)
           None.

Definition root_search_gen (ec : bool) (fuel : nat) (o : oracle) (t : gt) (depth : nat) (s : st) : st :=
  rloop (fun p' c s' => search_gen ec fuel o p' c (depth - 1) 1 s')
        (r_dec (o_r o depth)) [SIter depth] depth (root_moves o t depth) 0 s.

Example stale_line_without_entry_clear :
  getb 0 (root_search_gen false 100 stale_o sR 2 init_st) = [2; 3] /\
  playable_b [2; 3] sR = false /\
  getb 0 (root_search_gen true 100 stale_o sR 2 init_st) = [2].
Proof. vm_compute. auto. Qed.

(** *** Correspondence with the real engine: one of the 126 replayed searches (20 endgame
    positions x PVS on/off x depth 1..4, all reproduced by the model; generated by the Go
    probe, see [PvBuffers.Replay]).  The comparisons come from a reference alpha-beta, the
    expected PVs from the real search: final Result.Pv, the PV reported after each iteration
    (the best move changes in iteration 3), no panic, enough fuel, best move. *)
Section RealEngine.
Local Open Scope N_scope.
(* 8/k7/3p4/p2P1p2/P2P1P2/8/8/K7 w - - 0 1 pvs=false depth=3 nodes=109 best=a1b2 *)
Definition t27 : gt := GNode false [(1, Some (GNode false [(3113, Some (GNode false [(74, Some (GNode false [])); (66, Some (GNode false [])); (72, Some (GNode false [])); (73, Some (GNode false [])); (64, Some (GNode false []))])); (3112, Some (GNode false [(74, Some (GNode false [])); (66, Some (GNode false [])); (72, Some (GNode false [])); (73, Some (GNode false [])); (64, Some (GNode false []))])); (3121, Some (GNode false [(74, Some (GNode false [])); (66, Some (GNode false [])); (72, Some (GNode false [])); (73, Some (GNode false [])); (64, Some (GNode false []))])); (3129, Some (GNode false [(74, Some (GNode false [])); (66, Some (GNode false [])); (72, Some (GNode false [])); (73, Some (GNode false [])); (64, Some (GNode false []))])); (3128, Some (GNode false [(74, Some (GNode false [])); (66, Some (GNode false [])); (72, Some (GNode false [])); (73, Some (GNode false [])); (64, Some (GNode false []))]))])); (8, Some (GNode false [(3113, Some (GNode false [(529, Some (GNode false [])); (513, Some (GNode false [])); (521, Some (GNode false [])); (528, Some (GNode false [])); (512, Some (GNode false []))])); (3112, Some (GNode false [(529, Some (GNode false [])); (513, Some (GNode false [])); (521, Some (GNode false [])); (528, Some (GNode false [])); (512, Some (GNode false []))])); (3121, Some (GNode false [(529, Some (GNode false [])); (513, Some (GNode false [])); (521, Some (GNode false [])); (528, Some (GNode false [])); (512, Some (GNode false []))])); (3129, Some (GNode false [(529, Some (GNode false [])); (513, Some (GNode false [])); (521, Some (GNode false [])); (528, Some (GNode false [])); (512, Some (GNode false []))])); (3128, Some (GNode false [(529, Some (GNode false [])); (513, Some (GNode false [])); (521, Some (GNode false [])); (528, Some (GNode false [])); (512, Some (GNode false []))]))])); (9, Some (GNode false [(3113, Some (GNode false [(594, Some (GNode false [])); (586, Some (GNode false [])); (593, Some (GNode false [])); (577, Some (GNode false [])); (578, Some (GNode false [])); (584, Some (GNode false [])); (592, Some (GNode false [])); (576, Some (GNode false []))])); (3112, Some (GNode false [(594, Some (GNode false [])); (586, Some (GNode false [])); (593, Some (GNode false [])); (577, Some (GNode false [])); (578, Some (GNode false [])); (584, Some (GNode false [])); (592, Some (GNode false [])); (576, Some (GNode false []))])); (3121, Some (GNode false [(594, Some (GNode false [])); (586, Some (GNode false [])); (593, Some (GNode false [])); (577, Some (GNode false [])); (578, Some (GNode false [])); (584, Some (GNode false [])); (592, Some (GNode false [])); (576, Some (GNode false []))])); (3129, Some (GNode false [(594, Some (GNode false [])); (586, Some (GNode false [])); (593, Some (GNode false [])); (577, Some (GNode false [])); (578, Some (GNode false [])); (584, Some (GNode false [])); (592, Some (GNode false [])); (576, Some (GNode false []))])); (3128, Some (GNode false [(594, Some (GNode false [])); (586, Some (GNode false [])); (593, Some (GNode false [])); (577, Some (GNode false [])); (578, Some (GNode false [])); (584, Some (GNode false [])); (592, Some (GNode false [])); (576, Some (GNode false []))]))]))].
Definition tb27 : list (list nat * list Replay.dec6) := [([2;0], [(false,false,false,true,true,false);(false,false,false,false,false,false);(false,false,false,false,false,false);(false,false,false,false,false,false);(false,false,false,false,false,false)]);
 ([2;2], [(false,false,false,true,true,true)]);
 ([2;4], [(false,false,false,true,true,true)]);
 ([3;0;0], [(false,false,false,true,true,false);(false,false,false,false,false,false);(false,false,false,false,false,false);(false,false,false,false,false,false);(false,false,false,false,false,false)]);
 ([3;0;2], [(false,false,false,true,true,true)]);
 ([3;0;4], [(false,false,false,true,true,true)]);
 ([3;0;6], [(false,false,false,true,true,true)]);
 ([3;0;8], [(false,false,false,true,true,true)]);
 ([3;0], [(false,false,false,true,true,false);(false,false,false,false,false,false);(false,false,false,false,false,false);(false,false,false,false,false,false);(false,false,false,false,false,false)]);
 ([3;2;0], [(false,false,false,true,false,false);(false,false,false,false,false,false);(false,false,false,false,false,false);(false,false,false,false,false,false);(false,false,false,false,false,false)]);
 ([3;2], [(false,false,false,true,true,true)]);
 ([3;4;0], [(false,false,false,true,true,false);(false,false,false,false,false,false);(false,false,false,false,false,false);(false,false,false,false,false,false);(false,false,false,false,false,false);(false,false,false,false,false,false);(false,false,false,false,false,false);(false,false,false,false,false,false)]);
 ([3;4;2], [(false,false,false,true,true,true)]);
 ([3;4;4], [(false,false,false,true,true,true)]);
 ([3;4;6], [(false,false,false,true,true,true)]);
 ([3;4;8], [(false,false,false,true,true,true)]);
 ([3;4], [(false,false,false,true,true,false);(false,false,false,false,false,false);(false,false,false,false,false,false);(false,false,false,false,false,false);(false,false,false,false,false,false)])]%nat.
Definition rt27 : list (nat * (list nat * list Replay.dec6)) := [(1, ([0;1;2], [(false,false,false,true,true,false);(false,false,false,false,false,false);(false,false,false,false,false,false)]));
 (2, ([0;1;2], [(false,false,false,true,true,false);(false,false,false,false,false,false);(false,false,false,false,false,false)]));
 (3, ([0;1;2], [(false,false,false,true,true,false);(false,false,false,false,false,false);(false,false,false,true,true,false)]))]%nat.
Example replay_real_engine : Replay.run_case t27 tb27 rt27 3 = ([9; 3113; 594], [[1]; [1; 3113]; [9; 3113; 594]], false, false, Some 9).
Proof. vm_compute. reflexivity. Qed.
End RealEngine.

End Examples.

Print Assumptions pv_is_path.
Print Assumptions qsearch_pv_is_path.
Print Assumptions root_pv_playable.
Print Assumptions root_pv_head.
Print Assumptions best_move_is_root_move.
Print Assumptions ponder_move_legal.
Print Assumptions fuel_enough.
Print Assumptions terminates.
Print Assumptions playable_b_spec.
