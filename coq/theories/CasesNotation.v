(** * CasesNotation: evaluation helper for the C17 correspondence run (UCI / SAN parsers). *)
From Coq Require Import NArith List Bool String.
From FG Require Import CasesLib NotationImpl.
Import ListNotations.

Definition notation_case (c : string * string * bool * N) : bool :=
  let '(fen, s, is_san, obs) := c in notation_case_ok (str_of_string fen) (str_of_string s) is_san obs.
Fixpoint mismn (i : nat) (l : list (string * string * bool * N)) : list nat :=
  match l with [] => [] | c :: r => (if notation_case c then [] else [i]) ++ mismn (S i) r end.
Definition notation_mismatches := mismn 0.
