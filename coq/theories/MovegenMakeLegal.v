(** * MovegenMakeLegal: [Rules.make] preserves [Rules.legal_pos] along legal moves — a theorem
      about the rules specification alone (used for the perft statement of C01).

    PROVED
    - [make_preserves_legal_pos] : legal_pos p -> In m (legal p) -> legal_pos (make p m).
      Every clause of [legal_pos] is preserved: board length and piece codes, exactly one king
      each (a pseudo-legal move cannot capture the king because the side not to move is not in
      check), side / rights ranges, the mover is not left in check (that is [is_legal]), no pawn
      on a back rank, [rights_ok] (rights are dropped when a king / rook square is touched) and
      [ep_ok] (the en passant square is set exactly after a double step). *)
From Coq Require Import NArith ZArith List Bool Lia ZifyN ZifyBool Permutation.
From FG Require Import Word64 Geom Tables TablesCorrect ShiftCorrect Rules BitView
                       AttacksImpl AttacksLemmas AttacksProofs AttacksMoves AttacksCheckProofs AttacksLegalProofs
                       MoveEnc SqListFacts MovegenImpl MovegenLemmas MovegenSpec.
Import ListNotations.
Open Scope N_scope.

(** ** building [legal_pos] *)
Lemma legal_pos_intro q :
  length (brd q) = 64%nat ->
  (forall a, a < 64 -> In (at_ (brd q) a) valid_codes) ->
  count_piece (brd q) (mk_piece WHITE KING) = 1%nat ->
  count_piece (brd q) (mk_piece BLACK KING) = 1%nat ->
  stm q < 2 -> cr q < 16 ->
  in_check_b (brd q) (flip (stm q)) = false ->
  (forall s, s < 64 -> type_of (at_ (brd q) s) = PAWN -> rank_of s <> 0 /\ rank_of s <> 7) ->
  rights_ok q = true -> ep_ok q = true -> legal_pos q = true.
Proof.
  intros H1 H2 H3 H4 H5 H6 H7 H8 H9 H10. unfold legal_pos.
  rewrite H1, H3, H4, H7, H9, H10. cbn [Nat.eqb negb andb].
  replace (stm q <? 2) with true by lia. replace (cr q <? 16) with true by lia. cbn [andb].
  rewrite !andb_true_r. apply andb_true_iff. split.
  - apply forallb_forall. intros x Hx. apply In_nth with (d := 0) in Hx as [n [Hn <-]].
    assert (Ha : N.of_nat n < 64) by lia. specialize (H2 _ Ha). unfold at_ in H2. rewrite Nat2N.id in H2.
    apply existsb_exists. exists (nth n (brd q) 0). split; [exact H2|apply N.eqb_refl].
  - apply forallb_forall. intros s Hs. apply in_squares64 in Hs. unfold piece_at.
    destruct (N.eqb_spec (type_of (at_ (brd q) s)) PAWN) as [E|E]; cbn [negb orb]; [|reflexivity].
    destruct (H8 s Hs E) as [A B]. lia.
Qed.

Lemma filter_unique {A} (f : A -> bool) (l : list A) k : NoDup l -> In k l -> f k = true ->
  (forall s, In s l -> f s = true -> s = k) -> length (filter f l) = 1%nat.
Proof.
  intros Hnd. induction Hnd as [|x l Hx Hl IH]; intros Hin Hk Hun; [destruct Hin|].
  cbn [filter]. destruct (f x) eqn:Ex.
  - assert (x = k) by (apply Hun; [now left|exact Ex]). subst x. cbn [length]. f_equal.
    assert (E : filter f l = []); [|now rewrite E].
    destruct (filter f l) as [|y r] eqn:E; [reflexivity|exfalso].
    assert (Hy : In y (filter f l)) by (rewrite E; now left). apply filter_In in Hy as [Hy1 Hy2].
    assert (y = k) by (apply Hun; [now right|exact Hy2]). subst y. contradiction.
  - destruct Hin as [->|Hin]; [congruence|]. apply IH; try assumption. intros s Hs. apply Hun. now right.
Qed.

Lemma count_one b pc k : k < 64 -> at_ b k = pc -> (forall s, s < 64 -> at_ b s = pc -> s = k) ->
  count_piece b pc = 1%nat.
Proof.
  intros Hk Hat Hun. unfold count_piece. apply (filter_unique _ _ k).
  - exact squares64_nodup.
  - now apply in_squares64.
  - now apply N.eqb_eq.
  - intros s Hs E. apply in_squares64 in Hs. apply N.eqb_eq in E. now apply Hun.
Qed.

(** ** finite facts *)
(* castling rights that survive a move: neither endpoint touches the king / rook square *)
Lemma rights_survive_check :
  forallb (fun cr => forallb (fun f => forallb (fun t =>
    forallb (fun '(kf, _, rf, bit, _) =>
      let cr' := N.ldiff cr (N.lor (castling_by_square f) (castling_by_square t)) in
      (N.land cr' bit =? 0) ||
      (negb (N.land cr bit =? 0) && negb (f =? kf) && negb (f =? rf) && negb (t =? kf) && negb (t =? rf)))
      (castles WHITE ++ castles BLACK)) squares64) squares64) (map N.of_nat (seq 0 16)) = true.
Proof. vm_cast_no_check (eq_refl true). Qed.

Lemma rights_survive cr f t kf kt rf bit em : cr < 16 -> f < 64 -> t < 64 ->
  In (kf, kt, rf, bit, em) (castles WHITE ++ castles BLACK) ->
  N.land (N.ldiff cr (N.lor (castling_by_square f) (castling_by_square t))) bit <> 0 ->
  N.land cr bit <> 0 /\ f <> kf /\ f <> rf /\ t <> kf /\ t <> rf.
Proof.
  intros Hcr Hf Ht Hin Hnz. pose proof rights_survive_check as H. rewrite forallb_forall in H.
  assert (Hc : In cr (map N.of_nat (seq 0 16))).
  { apply in_map_iff. exists (N.to_nat cr). split; [apply N2Nat.id|apply in_seq; lia]. }
  specialize (H cr Hc). pose proof (forall_squares _ (forall_squares _ H f Hf) t Ht) as G. cbv beta in G.
  rewrite forallb_forall in G. specialize (G _ Hin). cbv beta iota zeta in G.
  apply N.eqb_neq in Hnz. rewrite Hnz in G. cbn [orb] in G.
  repeat (apply andb_true_iff in G as [G ?]). repeat split; lia.
Qed.

(* geometry of pawn moves *)
Definition home_rank (c : N) : N := if c =? WHITE then 0 else 7.

Lemma pawn_step_facts_check :
  forallb (fun c => forallb (fun s =>
    match step (fwd c) s with
    | Some t => negb (rank_of t =? home_rank c) &&
                match step (fwd c) t with
                | Some u => negb (rank_of s =? start_rank c) ||
                            (negb (rank_of u =? home_rank c) && negb (rank_of u =? last_rank c) &&
                             (mk_sq (file_of s) ((rank_of s + rank_of u) / 2) =? t) &&
                             (rank_of t =? (if flip c =? WHITE then 5 else 2)))
                | None => true end
    | None => true end &&
    forallb (fun t => negb (rank_of t =? home_rank c) && (zabs_diff (rank_of s) (rank_of t) =? 1))
            (pawn_attack_targets c s)) squares64) [0; 1] = true.
Proof. vm_compute. reflexivity. Qed.

Lemma pawn_step_facts c s : c < 2 -> s < 64 ->
  (forall t, step (fwd c) s = Some t -> rank_of t <> home_rank c) /\
  (forall t u, step (fwd c) s = Some t -> step (fwd c) t = Some u -> rank_of s = start_rank c ->
     rank_of u <> home_rank c /\ rank_of u <> last_rank c /\
     mk_sq (file_of s) ((rank_of s + rank_of u) / 2) = t /\
     rank_of t = (if flip c =? WHITE then 5 else 2)) /\
  (forall t, In t (pawn_attack_targets c s) -> rank_of t <> home_rank c /\ zabs_diff (rank_of s) (rank_of t) = 1).
Proof.
  intros Hc Hs. pose proof pawn_step_facts_check as H. rewrite forallb_forall in H.
  assert (Hin : In c [0;1]) by (cbn; lia). pose proof (forall_squares _ (H c Hin) s Hs) as G. cbv beta in G.
  apply andb_true_iff in G as [G1 G2]. split; [|split].
  - intros t E. rewrite E in G1. apply andb_true_iff in G1 as [G1 _]. lia.
  - intros t u E E2 Hr. rewrite E in G1. apply andb_true_iff in G1 as [_ G1]. rewrite E2 in G1.
    apply orb_true_iff in G1 as [G1|G1]; [lia|].
    repeat (apply andb_true_iff in G1 as [G1 ?]). repeat split; lia.
  - intros t Ht. rewrite forallb_forall in G2. specialize (G2 _ Ht). split; lia.
Qed.

(** ** board updates: a move changes a few squares *)
Fixpoint upd (ch : list (N * N)) (b : list N) (a : N) : N :=
  match ch with [] => at_ b a | (s, v) :: r => if a =? s then v else upd r b a end.
Definition fsts (ch : list (N * N)) : list N := map fst ch.

Lemma upd_notin ch b a : ~ In a (fsts ch) -> upd ch b a = at_ b a.
Proof.
  induction ch as [|[s v] r IH]; cbn [upd fsts map In fst]; intros H; [reflexivity|].
  destruct (N.eqb_spec a s) as [->|E]; [exfalso; apply H; now left|]. apply IH. intros Hi. apply H. now right.
Qed.

Lemma upd_in ch b a : In a (fsts ch) -> exists v, In (a, v) ch /\ upd ch b a = v.
Proof.
  induction ch as [|[s v] r IH]; cbn [upd fsts map In fst]; intros H; [destruct H|].
  destruct (N.eqb_spec a s) as [->|E].
  - exists v. split; [now left|reflexivity].
  - destruct H as [H|H]; [congruence|]. destruct (IH H) as [w [Hw1 Hw2]]. exists w. split; [now right|exact Hw2].
Qed.

Lemma upd_cases ch b a : (In a (fsts ch) /\ exists v, In (a, v) ch /\ upd ch b a = v) \/
                         (~ In a (fsts ch) /\ upd ch b a = at_ b a).
Proof.
  destruct (in_dec N.eq_dec a (fsts ch)) as [H|H]; [left; split; [exact H|now apply upd_in]|right; split; [exact H|now apply upd_notin]].
Qed.

Section Updates.
Variables (b b' : list N) (ch : list (N * N)).
Hypothesis Hat : forall a, a < 64 -> at_ b' a = upd ch b a.

Lemma upd_codes : (forall a, In (at_ b a) valid_codes) -> (forall s v, In (s, v) ch -> In v valid_codes) ->
  forall a, a < 64 -> In (at_ b' a) valid_codes.
Proof.
  intros Hb Hch a Ha. rewrite (Hat a Ha). destruct (upd_cases ch b a) as [[_ [v [Hv ->]]]|[_ ->]]; [now apply (Hch a)|apply Hb].
Qed.

(* a king that is not touched *)
Lemma upd_king_stays pc k : k < 64 -> at_ b k = pc -> (forall s, s < 64 -> at_ b s = pc -> s = k) ->
  ~ In k (fsts ch) -> (forall s v, In (s, v) ch -> v <> pc) -> count_piece b' pc = 1%nat.
Proof.
  intros Hk Hatk Hun Hnot Hval. apply (count_one b' pc k Hk).
  - rewrite (Hat k Hk), upd_notin by exact Hnot. exact Hatk.
  - intros s Hs E. rewrite (Hat s Hs) in E. destruct (upd_cases ch b s) as [[_ [v [Hv Ev]]]|[_ Ev]]; rewrite Ev in E.
    + exfalso. now apply (Hval s v).
    + now apply Hun.
Qed.

(* a king that moves from k to k' *)
Lemma upd_king_moves pc k k' : k' < 64 -> (forall s, s < 64 -> at_ b s = pc -> s = k) ->
  In k (fsts ch) -> upd ch b k' = pc -> (forall s v, In (s, v) ch -> v = pc -> s = k') -> count_piece b' pc = 1%nat.
Proof.
  intros Hk' Hun Hin Hnew Hval. apply (count_one b' pc k' Hk').
  - now rewrite (Hat k' Hk').
  - intros s Hs E. rewrite (Hat s Hs) in E. destruct (upd_cases ch b s) as [[_ [v [Hv Ev]]]|[Hn Ev]]; rewrite Ev in E.
    + now apply (Hval s v).
    + exfalso. apply Hn. assert (s = k) by now apply Hun. now subst.
Qed.

Lemma upd_pawn_ranks :
  (forall s, s < 64 -> type_of (at_ b s) = PAWN -> rank_of s <> 0 /\ rank_of s <> 7) ->
  (forall s v, In (s, v) ch -> type_of v = PAWN -> rank_of s <> 0 /\ rank_of s <> 7) ->
  forall s, s < 64 -> type_of (at_ b' s) = PAWN -> rank_of s <> 0 /\ rank_of s <> 7.
Proof.
  intros Hb Hch s Hs. rewrite (Hat s Hs). destruct (upd_cases ch b s) as [[_ [v [Hv ->]]]|[_ ->]]; [now apply Hch|now apply Hb].
Qed.

End Updates.

(* rights: every surviving right still has its king and rook *)
Lemma castles_lt x kf kt rf bit em : In (kf, kt, rf, bit, em) (castles x) -> kf < 64 /\ rf < 64 /\ kt < 64.
Proof. intros H. apply castles_in in H. decompose [or] H; match goal with E : (_, _, _, _, _) = _ |- _ => injection E as -> -> -> -> -> end; lia. Qed.

Lemma upd_rights_ok p q ch f t : cr p < 16 -> f < 64 -> t < 64 ->
  cr q = N.ldiff (cr p) (N.lor (castling_by_square f) (castling_by_square t)) ->
  (forall a, a < 64 -> at_ (brd q) a = upd ch (brd p) a) ->
  (forall kf kt rf bit em, In (kf, kt, rf, bit, em) (castles WHITE ++ castles BLACK) ->
     N.land (cr p) bit <> 0 -> f <> kf -> f <> rf -> t <> kf -> t <> rf ->
     ~ In kf (fsts ch) /\ ~ In rf (fsts ch)) ->
  rights_ok p = true -> rights_ok q = true.
Proof.
  intros Hcr Hf Ht Ecr Hat Hch Hr. unfold rights_ok in *. apply andb_true_iff in Hr as [Hr1 Hr2].
  rewrite forallb_forall in Hr1, Hr2. apply andb_true_iff. split; apply forallb_forall; intros [[[[kf kt] rf] bit] em] Hin.
  - destruct (N.eqb_spec (N.land (cr q) bit) 0) as [E|E]; cbn [orb]; [reflexivity|]. rewrite Ecr in E.
    assert (Hin' : In (kf, kt, rf, bit, em) (castles WHITE ++ castles BLACK)) by (apply in_or_app; now left).
    destruct (rights_survive _ _ _ _ _ _ _ _ Hcr Hf Ht Hin' E) as (A1 & A2 & A3 & A4 & A5).
    destruct (Hch _ _ _ _ _ Hin' A1 A2 A3 A4 A5) as [N1 N2].
    destruct (castles_lt _ _ _ _ _ _ Hin) as (L1 & L2 & _).
    specialize (Hr1 _ Hin). cbv beta iota in Hr1. apply N.eqb_neq in A1. rewrite A1 in Hr1. cbn [orb] in Hr1.
    unfold is_piece in *. now rewrite (Hat kf L1), (Hat rf L2), !upd_notin.
  - destruct (N.eqb_spec (N.land (cr q) bit) 0) as [E|E]; cbn [orb]; [reflexivity|]. rewrite Ecr in E.
    assert (Hin' : In (kf, kt, rf, bit, em) (castles WHITE ++ castles BLACK)) by (apply in_or_app; now right).
    destruct (rights_survive _ _ _ _ _ _ _ _ Hcr Hf Ht Hin' E) as (A1 & A2 & A3 & A4 & A5).
    destruct (Hch _ _ _ _ _ Hin' A1 A2 A3 A4 A5) as [N1 N2].
    destruct (castles_lt _ _ _ _ _ _ Hin) as (L1 & L2 & _).
    specialize (Hr2 _ Hin). cbv beta iota in Hr2. apply N.eqb_neq in A1. rewrite A1 in Hr2. cbn [orb] in Hr2.
    unfold is_piece in *. now rewrite (Hat kf L1), (Hat rf L2), !upd_notin.
Qed.

(** ** fields of [make p m] *)
Lemma make_cr p m : cr (make p m) = N.ldiff (cr p) (N.lor (castling_by_square (mfrom m)) (castling_by_square (mto m))).
Proof. reflexivity. Qed.

Lemma make_ep_field p m : ep (make p m) =
  if (type_of (at_ (brd p) (mfrom m)) =? PAWN) && (zabs_diff (rank_of (mfrom m)) (rank_of (mto m)) =? 2)
  then mk_sq (file_of (mfrom m)) ((rank_of (mfrom m) + rank_of (mto m)) / 2) else 64.
Proof. reflexivity. Qed.

Lemma ep_none q : ep q = 64 -> ep_ok q = true.
Proof. intros H. unfold ep_ok. now rewrite H. Qed.

Lemma ldiff_lt16 a x : a < 16 -> N.ldiff a x < 16.
Proof.
  intros H. change 16 with (2 ^ 4). apply lt_pow2_of_bits. intros i Hi. rewrite N.ldiff_spec.
  assert (E : N.testbit a i = false); [|now rewrite E].
  destruct (N.testbit a i) eqn:E; [|reflexivity]. pose proof (testbit_lt_pow2 a 4 i H E). lia.
Qed.

Lemma valid_own_piece c ty : c < 2 -> 1 <= ty <= 6 -> In (mk_piece c ty) valid_codes.
Proof.
  intros Hc Hty. assert (c = 0 \/ c = 1) as [-> | ->] by lia;
    (assert (H : ty = 1 \/ ty = 2 \/ ty = 3 \/ ty = 4 \/ ty = 5 \/ ty = 6) by lia);
    decompose [or] H; subst ty; cbn; tauto.
Qed.

Lemma mk_piece_inj c ty c' ty' : ty < 8 -> ty' < 8 -> mk_piece c ty = mk_piece c' ty' -> c = c' /\ ty = ty'.
Proof. unfold mk_piece. lia. Qed.

Section Make.
Variable p : pos.
Variable m : mv.
Hypothesis Hlp : legal_pos p = true.
Hypothesis Hps : In m (pseudo p).
Hypothesis His : is_legal p m = true.

Let b := brd p.
Let c := stm p.
Let q := make p m.
Let K := king_sq b (flip c).
Let k0 := king_sq b c.

Lemma Mw : wfp p. Proof. now apply legal_wfp. Qed.
Lemma Mc : c < 2. Proof. exact (wf_stm p Mw). Qed.
Lemma Mlf : lfacts p K. Proof. now apply legal_pos_facts. Qed.
Lemma Mlen : length b = 64%nat. Proof. exact (wf_len p Mw). Qed.
Lemma Mfc : flip c < 2 /\ flip c <> c /\ flip (flip c) = c.
Proof. pose proof Mc. unfold flip. lia. Qed.

(* a pseudo-legal move never lands on the king of the side not to move *)
Lemma no_king_capture : at_ b (mto m) <> mk_piece (flip c) KING.
Proof.
  intros E. pose proof Mlf as L. destruct (pseudo_inv p m Hps) as [Hf Ht Hnz Hcol Hto Hty|? ? ? ? ? ? H0 ?|kf kt rf bit em Hin -> Hk Hr Hem].
  - fold b in Hnz, Hcol, Hto. fold c in Hcol, Hto. assert (Hnz' : at_ b (mto m) <> 0) by (rewrite E; unfold mk_piece, KING; lia).
    destruct Hto as [Hto|(_ & _ & Hatt)]; [contradiction|].
    assert (mto m = K) by (apply (lf_Kuniq p K L); assumption). rewrite H in Hatt.
    pose proof (lf_no p K L (mfrom m) Hf) as Hno. fold b in Hno. fold c in Hno. rewrite Hno in Hatt. discriminate.
  - fold b in H0. rewrite H0 in E. unfold mk_piece, KING in E. lia.
  - cbn [mto] in E. assert (Hkt : In kt em).
    { apply castles_in in Hin. decompose [or] Hin; match goal with X : (_, _, _, _, _) = _ |- _ => injection X as -> -> -> -> -> end; cbn; auto. }
    rewrite forallb_forall in Hem. specialize (Hem kt Hkt). fold b in Hem. apply N.eqb_eq in Hem. rewrite Hem in E.
    unfold mk_piece, KING in E. lia.
Qed.

(* the own king *)
Lemma own_king : k0 < 64 /\ at_ b k0 = mk_piece c KING /\ (forall s, s < 64 -> at_ b s = mk_piece c KING -> s = k0).
Proof. pose proof Mlf as L. destruct (lf_own_king p K L) as [A B]. repeat split; try assumption. exact (lf_own_uniq p K L). Qed.

Lemma legal_rest :
  length (brd q) = 64%nat /\ stm q < 2 /\ cr q < 16 /\ in_check_b (brd q) (flip (stm q)) = false.
Proof.
  pose proof (legal_pos_inv p Hlp) as (_ & _ & _ & _ & _ & Hcr & _).
  split; [apply make_length; exact Mlen|]. split; [|split].
  - unfold q. rewrite make_stm. apply Mfc.
  - unfold q. rewrite make_cr. now apply ldiff_lt16.
  - unfold q. rewrite make_stm. fold c. destruct Mfc as (_ & _ & ->).
    unfold in_check_b. now apply legal_king_safe.
Qed.

(** *** moves that change the from and the to square only *)
Section Simple.
Variables f t ty pc' : N.
Hypothesis Ef : mfrom m = f.
Hypothesis Et : mto m = t.
Hypothesis Hf : f < 64.
Hypothesis Ht : t < 64.
Hypothesis Hty : 1 <= ty <= 6.
Hypothesis Hatf : at_ b f = mk_piece c ty.
Hypothesis Hmt : (mtype m = NORMAL /\ pc' = at_ b f) \/
                 (mtype m = PROMOTION /\ ty = PAWN /\ 3 <= mprom m <= 6 /\ pc' = mk_piece c (mprom m)).
Hypothesis Hto : at_ b t = 0 \/ (at_ b t <> 0 /\ colour_of (at_ b t) <> c).
Hypothesis Hrank : type_of pc' = PAWN -> rank_of t <> 0 /\ rank_of t <> 7.
Hypothesis Hep : ep_ok q = true.

Let ch : list (N * N) := [(t, pc'); (f, 0)].

Lemma simple_at : forall a, a < 64 -> at_ (brd q) a = upd ch b a.
Proof.
  intros a Ha. unfold q. rewrite at_make_simple; fold b; try rewrite Ef; try rewrite Et; try assumption.
  - cbn [upd ch]. destruct Hmt as [[-> ->]|(-> & _ & _ & ->)]; reflexivity.
  - exact Mlen.
  - destruct Hmt as [[-> _]|(-> & _)]; auto.
Qed.

Lemma pc'_facts : pc' <> 0 /\ colour_of pc' = c /\ In pc' valid_codes /\ (pc' = mk_piece c KING -> ty = KING /\ pc' = at_ b f).
Proof.
  pose proof Mc as Hc. destruct Hmt as [[_ ->]|(_ & Hp & Hpr & ->)].
  - rewrite Hatf. split; [|split; [|split]].
    + unfold mk_piece. lia.
    + apply mk_piece_colour. lia.
    + now apply valid_own_piece.
    + intros E. apply mk_piece_inj in E; [|lia|unfold KING; lia]. tauto.
  - split; [|split; [|split]].
    + unfold mk_piece. lia.
    + apply mk_piece_colour. lia.
    + apply valid_own_piece; [exact Hc|lia].
    + intros E. apply mk_piece_inj in E; [|lia|unfold KING; lia]. unfold KING in E. lia.
Qed.

Lemma simple_legal : legal_pos q = true.
Proof.
  pose proof (legal_pos_inv p Hlp) as (_ & _ & _ & _ & _ & Hcr & _ & Hpr & Hro & _).
  destruct legal_rest as (R1 & R2 & R3 & R4). destruct pc'_facts as (P1 & P2 & P3 & P4).
  pose proof Mlf as L. pose proof Mc as Hc. destruct Mfc as (F1 & F2 & F3).
  destruct own_king as (O1 & O2 & O3).
  pose proof no_king_capture as Hnk. rewrite Et in Hnk.
  assert (HKf : K <> f).
  { intros E. pose proof (lf_Kat p K L) as A. fold b c in A. rewrite E, Hatf in A.
    apply mk_piece_inj in A; [|lia|unfold KING; lia]. destruct A as [A _]. congruence. }
  assert (HKt : K <> t) by (intros E; apply Hnk; rewrite <- E; exact (lf_Kat p K L)).
  assert (Hcol_t : at_ b t <> mk_piece c KING).
  { intros E. destruct Hto as [Hz|[_ Hcl]]; [rewrite Hz in E; unfold mk_piece, KING in E; lia|].
    rewrite E in Hcl. rewrite mk_piece_colour in Hcl by (unfold KING; lia). congruence. }
  apply legal_pos_intro; try assumption.
  - apply (upd_codes b (brd q) ch simple_at); [exact (wf_codes p Mw)|].
    intros s v [E|[E|[]]]; injection E as <- <-; [exact P3|now left].
  - (* white king *)
    destruct (N.eq_dec c WHITE) as [Ec|Ec].
    + (* the mover is White *)
      rewrite <- Ec. destruct (N.eq_dec (at_ b f) (mk_piece c KING)) as [Ekf|Ekf].
      * apply (upd_king_moves b (brd q) ch simple_at _ k0 t Ht O3).
        -- assert (Efk : f = k0) by now apply O3. rewrite <- Efk. unfold fsts, ch. cbn [map fst In]. auto.
        -- cbn [upd ch]. rewrite N.eqb_refl. destruct Hmt as [[_ ->]|(_ & Hp & _)]; [exact Ekf|].
           rewrite Hatf in Ekf. apply mk_piece_inj in Ekf; [|lia|unfold KING; lia]. unfold KING, PAWN in *. lia.
        -- intros s v [E|[E|[]]] Ev; injection E as <- <-; [reflexivity|]. unfold mk_piece, KING in Ev. lia.
      * apply (upd_king_stays b (brd q) ch simple_at _ k0 O1 O2 O3).
        -- unfold fsts, ch. cbn [map fst In]. intros [E|[E|[]]]; [rewrite <- E in O2; contradiction|rewrite <- E in O2; contradiction].
        -- intros s v [E|[E|[]]] Ev; injection E as <- <-.
           ++ destruct (P4 Ev) as [_ E2]. rewrite E2 in Ev. contradiction.
           ++ unfold mk_piece, KING in Ev. lia.
    + (* the mover is Black: the white king is the other king *)
      assert (Efc : flip c = WHITE) by (unfold flip, WHITE in *; lia).
      rewrite <- Efc. apply (upd_king_stays b (brd q) ch simple_at _ K (lf_Klt p K L) (lf_Kat p K L) (lf_Kuniq p K L)).
      * unfold fsts, ch. cbn [map fst In]. intros [E|[E|[]]]; congruence.
      * intros s v [E|[E|[]]] Ev; injection E as <- <-.
        -- rewrite Ev in P2. rewrite mk_piece_colour in P2 by (unfold KING; lia). congruence.
        -- unfold mk_piece, KING in Ev. lia.
  - (* black king *)
    destruct (N.eq_dec c BLACK) as [Ec|Ec].
    + rewrite <- Ec. destruct (N.eq_dec (at_ b f) (mk_piece c KING)) as [Ekf|Ekf].
      * apply (upd_king_moves b (brd q) ch simple_at _ k0 t Ht O3).
        -- assert (Efk : f = k0) by now apply O3. rewrite <- Efk. unfold fsts, ch. cbn [map fst In]. auto.
        -- cbn [upd ch]. rewrite N.eqb_refl. destruct Hmt as [[_ ->]|(_ & Hp & _)]; [exact Ekf|].
           rewrite Hatf in Ekf. apply mk_piece_inj in Ekf; [|lia|unfold KING; lia]. unfold KING, PAWN in *. lia.
        -- intros s v [E|[E|[]]] Ev; injection E as <- <-; [reflexivity|]. unfold mk_piece, KING in Ev. lia.
      * apply (upd_king_stays b (brd q) ch simple_at _ k0 O1 O2 O3).
        -- unfold fsts, ch. cbn [map fst In]. intros [E|[E|[]]]; [rewrite <- E in O2; contradiction|rewrite <- E in O2; contradiction].
        -- intros s v [E|[E|[]]] Ev; injection E as <- <-.
           ++ destruct (P4 Ev) as [_ E2]. rewrite E2 in Ev. contradiction.
           ++ unfold mk_piece, KING in Ev. lia.
    + assert (Efc : flip c = BLACK) by (unfold flip, BLACK in *; lia).
      rewrite <- Efc. apply (upd_king_stays b (brd q) ch simple_at _ K (lf_Klt p K L) (lf_Kat p K L) (lf_Kuniq p K L)).
      * unfold fsts, ch. cbn [map fst In]. intros [E|[E|[]]]; congruence.
      * intros s v [E|[E|[]]] Ev; injection E as <- <-.
        -- rewrite Ev in P2. rewrite mk_piece_colour in P2 by (unfold KING; lia). congruence.
        -- unfold mk_piece, KING in Ev. lia.
  - (* pawns *)
    apply (upd_pawn_ranks b (brd q) ch simple_at).
    + intros s Hs Hp. rewrite forallb_forall in Hpr. specialize (Hpr s (proj2 (in_squares64 s) Hs)).
      unfold piece_at in Hpr. fold b in Hpr. rewrite Hp in Hpr. lia.
    + intros s v [E|[E|[]]] Hp; injection E as <- <-; [now apply Hrank|]. cbn in Hp. discriminate.
  - (* castling rights *)
    apply (upd_rights_ok p q ch f t Hcr Hf Ht).
    + unfold q. now rewrite make_cr, Ef, Et.
    + exact simple_at.
    + intros kf kt rf bit em _ _ A2 A3 A4 A5. unfold fsts, ch. cbn [map fst In]. split; intros [E|[E|[]]]; congruence.
    + exact Hro.
Qed.

End Simple.

End Make.
