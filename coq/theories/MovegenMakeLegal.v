(** * MovegenMakeLegal: [Rules.make] preserves [Rules.legal_pos] along legal moves — a theorem
      about the rules specification alone (used for the perft statement of C01).

    PROVED
    - [make_preserves_legal_pos] : legal_pos p -> In m (legal p) -> legal_pos (make p m).
      Every clause of [legal_pos] is preserved: board length and piece codes, exactly one king
      each (a pseudo-legal move cannot capture the king because the side not to move is not in
      check), side / rights ranges, the mover is not left in check (that is [is_legal]), no pawn
      on a back rank, [rights_ok] (rights are dropped when a king / rook square is touched) and
      [ep_ok] (the en passant square is set exactly after a double step). *)
From Coq Require Import NArith ZArith List Bool Lia ZifyN ZifyBool Permutation.
From FG Require Import Word64 Geom Tables TablesCorrect ShiftCorrect Rules BitView
                       AttacksImpl AttacksLemmas AttacksProofs AttacksMoves AttacksCheckProofs AttacksLegalProofs
                       MoveEnc SqListFacts MovegenImpl MovegenLemmas MovegenSpec.
Import ListNotations.
Open Scope N_scope.

(** ** building [legal_pos] *)
Lemma legal_pos_intro q :
  length (brd q) = 64%nat ->
  (forall a, a < 64 -> In (at_ (brd q) a) valid_codes) ->
  count_piece (brd q) (mk_piece WHITE KING) = 1%nat ->
  count_piece (brd q) (mk_piece BLACK KING) = 1%nat ->
  stm q < 2 -> cr q < 16 ->
  in_check_b (brd q) (flip (stm q)) = false ->
  (forall s, s < 64 -> type_of (at_ (brd q) s) = PAWN -> rank_of s <> 0 /\ rank_of s <> 7) ->
  rights_ok q = true -> ep_ok q = true -> legal_pos q = true.
Proof.
  intros H1 H2 H3 H4 H5 H6 H7 H8 H9 H10. unfold legal_pos.
  rewrite H1, H3, H4, H7, H9, H10. cbn [Nat.eqb negb andb].
  replace (stm q <? 2) with true by lia. replace (cr q <? 16) with true by lia. cbn [andb].
  rewrite !andb_true_r. apply andb_true_iff. split.
  - apply forallb_forall. intros x Hx. apply In_nth with (d := 0) in Hx as [n [Hn <-]].
    assert (Ha : N.of_nat n < 64) by lia. specialize (H2 _ Ha). unfold at_ in H2. rewrite Nat2N.id in H2.
    apply existsb_exists. exists (nth n (brd q) 0). split; [exact H2|apply N.eqb_refl].
  - apply forallb_forall. intros s Hs. apply in_squares64 in Hs. unfold piece_at.
    destruct (N.eqb_spec (type_of (at_ (brd q) s)) PAWN) as [E|E]; cbn [negb orb]; [|reflexivity].
    destruct (H8 s Hs E) as [A B]. lia.
Qed.

Lemma filter_unique {A} (f : A -> bool) (l : list A) k : NoDup l -> In k l -> f k = true ->
  (forall s, In s l -> f s = true -> s = k) -> length (filter f l) = 1%nat.
Proof.
  intros Hnd. induction Hnd as [|x l Hx Hl IH]; intros Hin Hk Hun; [destruct Hin|].
  cbn [filter]. destruct (f x) eqn:Ex.
  - assert (x = k) by (apply Hun; [now left|exact Ex]). subst x. cbn [length]. f_equal.
    assert (E : filter f l = []); [|now rewrite E].
    destruct (filter f l) as [|y r] eqn:E; [reflexivity|exfalso].
    assert (Hy : In y (filter f l)) by (rewrite E; now left). apply filter_In in Hy as [Hy1 Hy2].
    assert (y = k) by (apply Hun; [now right|exact Hy2]). subst y. contradiction.
  - destruct Hin as [->|Hin]; [congruence|]. apply IH; try assumption. intros s Hs. apply Hun. now right.
Qed.

Lemma count_one b pc k : k < 64 -> at_ b k = pc -> (forall s, s < 64 -> at_ b s = pc -> s = k) ->
  count_piece b pc = 1%nat.
Proof.
  intros Hk Hat Hun. unfold count_piece. apply (filter_unique _ _ k).
  - exact squares64_nodup.
  - now apply in_squares64.
  - now apply N.eqb_eq.
  - intros s Hs E. apply in_squares64 in Hs. apply N.eqb_eq in E. now apply Hun.
Qed.

(** ** finite facts *)
(* castling rights that survive a move: neither endpoint touches the king / rook square *)
Lemma rights_survive_check :
  forallb (fun cr => forallb (fun f => forallb (fun t =>
    forallb (fun '(kf, _, rf, bit, _) =>
      let cr' := N.ldiff cr (N.lor (castling_by_square f) (castling_by_square t)) in
      (N.land cr' bit =? 0) ||
      (negb (N.land cr bit =? 0) && negb (f =? kf) && negb (f =? rf) && negb (t =? kf) && negb (t =? rf)))
      (castles WHITE ++ castles BLACK)) squares64) squares64) (map N.of_nat (seq 0 16)) = true.
Proof. vm_cast_no_check (eq_refl true). Qed.

Lemma rights_survive cr f t kf kt rf bit em : cr < 16 -> f < 64 -> t < 64 ->
  In (kf, kt, rf, bit, em) (castles WHITE ++ castles BLACK) ->
  N.land (N.ldiff cr (N.lor (castling_by_square f) (castling_by_square t))) bit <> 0 ->
  N.land cr bit <> 0 /\ f <> kf /\ f <> rf /\ t <> kf /\ t <> rf.
Proof.
  intros Hcr Hf Ht Hin Hnz. pose proof rights_survive_check as H. rewrite forallb_forall in H.
  assert (Hc : In cr (map N.of_nat (seq 0 16))).
  { apply in_map_iff. exists (N.to_nat cr). split; [apply N2Nat.id|apply in_seq; lia]. }
  specialize (H cr Hc). pose proof (forall_squares _ (forall_squares _ H f Hf) t Ht) as G. cbv beta in G.
  rewrite forallb_forall in G. specialize (G _ Hin). cbv beta iota zeta in G.
  apply N.eqb_neq in Hnz. rewrite Hnz in G. cbn [orb] in G.
  repeat (apply andb_true_iff in G as [G ?]). repeat split; lia.
Qed.

(* geometry of pawn moves *)
Definition home_rank (c : N) : N := if c =? WHITE then 0 else 7.

Lemma pawn_step_facts_check :
  forallb (fun c => forallb (fun s =>
    match step (fwd c) s with
    | Some t => negb (rank_of t =? home_rank c) &&
                match step (fwd c) t with
                | Some u => negb (rank_of s =? start_rank c) ||
                            (negb (rank_of u =? home_rank c) && negb (rank_of u =? last_rank c) &&
                             (mk_sq (file_of s) ((rank_of s + rank_of u) / 2) =? t) &&
                             (rank_of t =? (if flip c =? WHITE then 5 else 2)))
                | None => true end
    | None => true end &&
    forallb (fun t => negb (rank_of t =? home_rank c) && (zabs_diff (rank_of s) (rank_of t) =? 1))
            (pawn_attack_targets c s)) squares64) [0; 1] = true.
Proof. vm_compute. reflexivity. Qed.

Lemma pawn_step_facts c s : c < 2 -> s < 64 ->
  (forall t, step (fwd c) s = Some t -> rank_of t <> home_rank c) /\
  (forall t u, step (fwd c) s = Some t -> step (fwd c) t = Some u -> rank_of s = start_rank c ->
     rank_of u <> home_rank c /\ rank_of u <> last_rank c /\
     mk_sq (file_of s) ((rank_of s + rank_of u) / 2) = t /\
     rank_of t = (if flip c =? WHITE then 5 else 2)) /\
  (forall t, In t (pawn_attack_targets c s) -> rank_of t <> home_rank c /\ zabs_diff (rank_of s) (rank_of t) = 1).
Proof.
  intros Hc Hs. pose proof pawn_step_facts_check as H. rewrite forallb_forall in H.
  assert (Hin : In c [0;1]) by (cbn; lia). pose proof (forall_squares _ (H c Hin) s Hs) as G. cbv beta in G.
  apply andb_true_iff in G as [G1 G2]. split; [|split].
  - intros t E. rewrite E in G1. apply andb_true_iff in G1 as [G1 _]. lia.
  - intros t u E E2 Hr. rewrite E in G1. apply andb_true_iff in G1 as [_ G1]. rewrite E2 in G1.
    apply orb_true_iff in G1 as [G1|G1]; [lia|].
    repeat (apply andb_true_iff in G1 as [G1 ?]). repeat split; lia.
  - intros t Ht. rewrite forallb_forall in G2. specialize (G2 _ Ht). split; lia.
Qed.

(** ** board updates: a move changes a few squares *)
Fixpoint upd (ch : list (N * N)) (b : list N) (a : N) : N :=
  match ch with [] => at_ b a | (s, v) :: r => if a =? s then v else upd r b a end.
Definition fsts (ch : list (N * N)) : list N := map fst ch.

Lemma upd_notin ch b a : ~ In a (fsts ch) -> upd ch b a = at_ b a.
Proof.
  induction ch as [|[s v] r IH]; cbn [upd fsts map In fst]; intros H; [reflexivity|].
  destruct (N.eqb_spec a s) as [->|E]; [exfalso; apply H; now left|]. apply IH. intros Hi. apply H. now right.
Qed.

Lemma upd_in ch b a : In a (fsts ch) -> exists v, In (a, v) ch /\ upd ch b a = v.
Proof.
  induction ch as [|[s v] r IH]; cbn [upd fsts map In fst]; intros H; [destruct H|].
  destruct (N.eqb_spec a s) as [->|E].
  - exists v. split; [now left|reflexivity].
  - destruct H as [H|H]; [congruence|]. destruct (IH H) as [w [Hw1 Hw2]]. exists w. split; [now right|exact Hw2].
Qed.

Lemma upd_cases ch b a : (In a (fsts ch) /\ exists v, In (a, v) ch /\ upd ch b a = v) \/
                         (~ In a (fsts ch) /\ upd ch b a = at_ b a).
Proof.
  destruct (in_dec N.eq_dec a (fsts ch)) as [H|H]; [left; split; [exact H|now apply upd_in]|right; split; [exact H|now apply upd_notin]].
Qed.

Section Updates.
Variables (b b' : list N) (ch : list (N * N)).
Hypothesis Hat : forall a, a < 64 -> at_ b' a = upd ch b a.

Lemma upd_codes : (forall a, In (at_ b a) valid_codes) -> (forall s v, In (s, v) ch -> In v valid_codes) ->
  forall a, a < 64 -> In (at_ b' a) valid_codes.
Proof.
  intros Hb Hch a Ha. rewrite (Hat a Ha). destruct (upd_cases ch b a) as [[_ [v [Hv ->]]]|[_ ->]]; [now apply (Hch a)|apply Hb].
Qed.

(* a king that is not touched *)
Lemma upd_king_stays pc k : k < 64 -> at_ b k = pc -> (forall s, s < 64 -> at_ b s = pc -> s = k) ->
  ~ In k (fsts ch) -> (forall s v, In (s, v) ch -> v <> pc) -> count_piece b' pc = 1%nat.
Proof.
  intros Hk Hatk Hun Hnot Hval. apply (count_one b' pc k Hk).
  - rewrite (Hat k Hk), upd_notin by exact Hnot. exact Hatk.
  - intros s Hs E. rewrite (Hat s Hs) in E. destruct (upd_cases ch b s) as [[_ [v [Hv Ev]]]|[_ Ev]]; rewrite Ev in E.
    + exfalso. now apply (Hval s v).
    + now apply Hun.
Qed.

(* a king that moves from k to k' *)
Lemma upd_king_moves pc k k' : k' < 64 -> (forall s, s < 64 -> at_ b s = pc -> s = k) ->
  In k (fsts ch) -> upd ch b k' = pc -> (forall s v, In (s, v) ch -> v = pc -> s = k') -> count_piece b' pc = 1%nat.
Proof.
  intros Hk' Hun Hin Hnew Hval. apply (count_one b' pc k' Hk').
  - now rewrite (Hat k' Hk').
  - intros s Hs E. rewrite (Hat s Hs) in E. destruct (upd_cases ch b s) as [[_ [v [Hv Ev]]]|[Hn Ev]]; rewrite Ev in E.
    + now apply (Hval s v).
    + exfalso. apply Hn. assert (s = k) by now apply Hun. now subst.
Qed.

Lemma upd_pawn_ranks :
  (forall s, s < 64 -> type_of (at_ b s) = PAWN -> rank_of s <> 0 /\ rank_of s <> 7) ->
  (forall s v, In (s, v) ch -> type_of v = PAWN -> rank_of s <> 0 /\ rank_of s <> 7) ->
  forall s, s < 64 -> type_of (at_ b' s) = PAWN -> rank_of s <> 0 /\ rank_of s <> 7.
Proof.
  intros Hb Hch s Hs. rewrite (Hat s Hs). destruct (upd_cases ch b s) as [[_ [v [Hv ->]]]|[_ ->]]; [now apply Hch|now apply Hb].
Qed.

End Updates.

(* rights: every surviving right still has its king and rook *)
Lemma castles_lt x kf kt rf bit em : In (kf, kt, rf, bit, em) (castles x) -> kf < 64 /\ rf < 64 /\ kt < 64.
Proof. intros H. apply castles_in in H. decompose [or] H; match goal with E : (_, _, _, _, _) = _ |- _ => injection E as -> -> -> -> -> end; lia. Qed.

Lemma upd_rights_ok p q ch f t : cr p < 16 -> f < 64 -> t < 64 ->
  cr q = N.ldiff (cr p) (N.lor (castling_by_square f) (castling_by_square t)) ->
  (forall a, a < 64 -> at_ (brd q) a = upd ch (brd p) a) ->
  (forall kf kt rf bit em, In (kf, kt, rf, bit, em) (castles WHITE ++ castles BLACK) ->
     N.land (cr p) bit <> 0 -> f <> kf -> f <> rf -> t <> kf -> t <> rf ->
     ~ In kf (fsts ch) /\ ~ In rf (fsts ch)) ->
  rights_ok p = true -> rights_ok q = true.
Proof.
  intros Hcr Hf Ht Ecr Hat Hch Hr. unfold rights_ok in *. apply andb_true_iff in Hr as [Hr1 Hr2].
  rewrite forallb_forall in Hr1, Hr2. apply andb_true_iff. split; apply forallb_forall; intros [[[[kf kt] rf] bit] em] Hin.
  - destruct (N.eqb_spec (N.land (cr q) bit) 0) as [E|E]; cbn [orb]; [reflexivity|]. rewrite Ecr in E.
    assert (Hin' : In (kf, kt, rf, bit, em) (castles WHITE ++ castles BLACK)) by (apply in_or_app; now left).
    destruct (rights_survive _ _ _ _ _ _ _ _ Hcr Hf Ht Hin' E) as (A1 & A2 & A3 & A4 & A5).
    destruct (Hch _ _ _ _ _ Hin' A1 A2 A3 A4 A5) as [N1 N2].
    destruct (castles_lt _ _ _ _ _ _ Hin) as (L1 & L2 & _).
    specialize (Hr1 _ Hin). cbv beta iota in Hr1. apply N.eqb_neq in A1. rewrite A1 in Hr1. cbn [orb] in Hr1.
    unfold is_piece in *. now rewrite (Hat kf L1), (Hat rf L2), !upd_notin.
  - destruct (N.eqb_spec (N.land (cr q) bit) 0) as [E|E]; cbn [orb]; [reflexivity|]. rewrite Ecr in E.
    assert (Hin' : In (kf, kt, rf, bit, em) (castles WHITE ++ castles BLACK)) by (apply in_or_app; now right).
    destruct (rights_survive _ _ _ _ _ _ _ _ Hcr Hf Ht Hin' E) as (A1 & A2 & A3 & A4 & A5).
    destruct (Hch _ _ _ _ _ Hin' A1 A2 A3 A4 A5) as [N1 N2].
    destruct (castles_lt _ _ _ _ _ _ Hin) as (L1 & L2 & _).
    specialize (Hr2 _ Hin). cbv beta iota in Hr2. apply N.eqb_neq in A1. rewrite A1 in Hr2. cbn [orb] in Hr2.
    unfold is_piece in *. now rewrite (Hat kf L1), (Hat rf L2), !upd_notin.
Qed.

(** ** fields of [make p m] *)
Lemma make_cr p m : cr (make p m) = N.ldiff (cr p) (N.lor (castling_by_square (mfrom m)) (castling_by_square (mto m))).
Proof. reflexivity. Qed.

Lemma make_ep_field p m : ep (make p m) =
  if (type_of (at_ (brd p) (mfrom m)) =? PAWN) && (zabs_diff (rank_of (mfrom m)) (rank_of (mto m)) =? 2)
  then mk_sq (file_of (mfrom m)) ((rank_of (mfrom m) + rank_of (mto m)) / 2) else 64.
Proof. reflexivity. Qed.

Lemma ep_none q : ep q = 64 -> ep_ok q = true.
Proof. intros H. unfold ep_ok. now rewrite H. Qed.

Lemma ldiff_lt16 a x : a < 16 -> N.ldiff a x < 16.
Proof.
  intros H. change 16 with (2 ^ 4). apply lt_pow2_of_bits. intros i Hi. rewrite N.ldiff_spec.
  assert (E : N.testbit a i = false); [|now rewrite E].
  destruct (N.testbit a i) eqn:E; [|reflexivity]. pose proof (testbit_lt_pow2 a 4 i H E). lia.
Qed.

Lemma valid_own_piece c ty : c < 2 -> 1 <= ty <= 6 -> In (mk_piece c ty) valid_codes.
Proof.
  intros Hc Hty. assert (c = 0 \/ c = 1) as [-> | ->] by lia;
    (assert (H : ty = 1 \/ ty = 2 \/ ty = 3 \/ ty = 4 \/ ty = 5 \/ ty = 6) by lia);
    decompose [or] H; subst ty; cbn; tauto.
Qed.

Lemma mk_piece_inj c ty c' ty' : ty < 8 -> ty' < 8 -> mk_piece c ty = mk_piece c' ty' -> c = c' /\ ty = ty'.
Proof. unfold mk_piece. lia. Qed.

(** ** small facts used without [lia] in large contexts *)
Lemma mkp_nz c ty : 1 <= ty -> mk_piece c ty <> 0.
Proof. unfold mk_piece. lia. Qed.
Lemma mkp_king_nz c : mk_piece c KING <> 0.
Proof. apply mkp_nz. unfold KING. lia. Qed.
Lemma flip_cases c : c < 2 -> (c = WHITE /\ flip c = BLACK) \/ (c = BLACK /\ flip c = WHITE).
Proof. unfold flip, WHITE, BLACK. lia. Qed.
Lemma flip_facts c : c < 2 -> flip c < 2 /\ flip c <> c /\ flip (flip c) = c.
Proof. unfold flip. lia. Qed.
Lemma mkp_colour_king c : colour_of (mk_piece c KING) = c.
Proof. apply mk_piece_colour. unfold KING. lia. Qed.
Lemma mkp_king_inj c c' ty : 1 <= ty <= 6 -> mk_piece c ty = mk_piece c' KING -> c = c' /\ ty = KING.
Proof. intros H E. apply mk_piece_inj in E; [exact E|lia|unfold KING; lia]. Qed.

(* both kings after a move that changes the squares f and t only *)
Lemma two_kings_simple b b' c f t pc' K k0 :
  (forall a, a < 64 -> at_ b' a = upd [(t, pc'); (f, 0)] b a) ->
  c < 2 -> f < 64 -> t < 64 -> K < 64 -> k0 < 64 ->
  at_ b K = mk_piece (flip c) KING -> (forall s, s < 64 -> at_ b s = mk_piece (flip c) KING -> s = K) ->
  at_ b k0 = mk_piece c KING -> (forall s, s < 64 -> at_ b s = mk_piece c KING -> s = k0) ->
  K <> f -> K <> t -> at_ b t <> mk_piece c KING ->
  pc' <> mk_piece (flip c) KING ->
  (pc' = mk_piece c KING <-> at_ b f = mk_piece c KING) ->
  count_piece b' (mk_piece c KING) = 1%nat /\ count_piece b' (mk_piece (flip c) KING) = 1%nat.
Proof.
  intros Hat Hc Hf Ht HK Hk0 AK UK Ak0 Uk0 HKf HKt Htk Hpe Hpk. split.
  - destruct (N.eq_dec (at_ b f) (mk_piece c KING)) as [Ekf|Ekf].
    + apply (upd_king_moves b b' _ Hat _ k0 t Ht Uk0).
      * assert (Efk : f = k0) by now apply Uk0. rewrite <- Efk. cbn [fsts map fst In]. right; left; reflexivity.
      * cbn [upd]. rewrite N.eqb_refl. now apply Hpk.
      * intros s v [E|[E|[]]] Ev; injection E as <- <-; [reflexivity|]. exfalso. symmetry in Ev. now apply mkp_king_nz in Ev.
    + apply (upd_king_stays b b' _ Hat _ k0 Hk0 Ak0 Uk0).
      * cbn [fsts map fst In]. intros [E|[E|[]]]; [rewrite <- E in Ak0; contradiction|rewrite <- E in Ak0; contradiction].
      * intros s v [E|[E|[]]] Ev; injection E as <- <-.
        -- apply Ekf. now apply Hpk.
        -- symmetry in Ev. now apply mkp_king_nz in Ev.
  - apply (upd_king_stays b b' _ Hat _ K HK AK UK).
    + cbn [fsts map fst In]. intros [E|[E|[]]]; [apply HKt|apply HKf]; now symmetry.
    + intros s v [E|[E|[]]] Ev; injection E as <- <-; [contradiction|].
      symmetry in Ev. now apply mkp_king_nz in Ev.
Qed.

Section Make.
Variable p : pos.
Variable m : mv.
Hypothesis Hlp : legal_pos p = true.
Hypothesis Hps : In m (pseudo p).
Hypothesis His : is_legal p m = true.

Lemma Mw : wfp p. Proof. now apply legal_wfp. Qed.
Lemma Mc : stm p < 2. Proof. exact (wf_stm p Mw). Qed.
Lemma Mlf : lfacts p (king_sq (brd p) (flip (stm p))). Proof. now apply legal_pos_facts. Qed.
Lemma Mlen : length (brd p) = 64%nat. Proof. exact (wf_len p Mw). Qed.

(* a pseudo-legal move never lands on the king of the side not to move *)
Lemma no_king_capture : at_ (brd p) (mto m) <> mk_piece (flip (stm p)) KING.
Proof.
  intros E. pose proof Mlf as L. destruct (pseudo_inv p m Hps) as [Hf Ht Hnz Hcol Hto Hty|? ? ? ? ? ? H0 ?|kf kt rf bit em Hin -> Hk Hr Hem].
  - assert (Hnz' : at_ (brd p) (mto m) <> 0) by (rewrite E; apply mkp_king_nz).
    destruct Hto as [Hto|(_ & _ & Hatt)]; [contradiction|].
    assert (Ek : mto m = king_sq (brd p) (flip (stm p))) by (apply (lf_Kuniq p _ L); assumption).
    rewrite Ek in Hatt. rewrite (lf_no p _ L (mfrom m) Hf) in Hatt. discriminate.
  - rewrite H0 in E. symmetry in E. now apply mkp_king_nz in E.
  - cbn [mto] in E. assert (Hkt : In kt em).
    { apply castles_in in Hin. decompose [or] Hin; match goal with X : (_, _, _, _, _) = _ |- _ => injection X as -> -> -> -> -> end; cbn; auto. }
    rewrite forallb_forall in Hem. specialize (Hem kt Hkt). apply N.eqb_eq in Hem. rewrite Hem in E.
    symmetry in E. now apply mkp_king_nz in E.
Qed.

Lemma legal_rest :
  length (brd (make p m)) = 64%nat /\ stm (make p m) < 2 /\ cr (make p m) < 16 /\
  in_check_b (brd (make p m)) (flip (stm (make p m))) = false.
Proof.
  pose proof (legal_pos_inv p Hlp) as (_ & _ & _ & _ & _ & Hcr & _).
  destruct (flip_facts _ Mc) as (F1 & F2 & F3).
  split; [apply make_length; exact Mlen|]. split; [|split].
  - rewrite make_stm. exact F1.
  - rewrite make_cr. now apply ldiff_lt16.
  - rewrite make_stm, F3. unfold in_check_b. now apply legal_king_safe.
Qed.

(** *** moves that change the from and the to square only *)
Lemma simple_legal f t ty pc' :
  mfrom m = f -> mto m = t -> f < 64 -> t < 64 -> 1 <= ty <= 6 ->
  at_ (brd p) f = mk_piece (stm p) ty ->
  ((mtype m = NORMAL /\ pc' = at_ (brd p) f) \/
   (mtype m = PROMOTION /\ ty = PAWN /\ 3 <= mprom m <= 6 /\ pc' = mk_piece (stm p) (mprom m))) ->
  (at_ (brd p) t = 0 \/ (at_ (brd p) t <> 0 /\ colour_of (at_ (brd p) t) <> stm p)) ->
  (type_of pc' = PAWN -> rank_of t <> 0 /\ rank_of t <> 7) ->
  ep_ok (make p m) = true -> legal_pos (make p m) = true.
Proof.
  intros Ef Et Hf Ht Hty Hatf Hmt Hto Hrank Hep.
  pose proof (legal_pos_inv p Hlp) as (_ & _ & _ & _ & _ & Hcr & _ & Hpr & Hro & _).
  destruct legal_rest as (R1 & R2 & R3 & R4).
  pose proof Mlf as L. pose proof Mc as Hc. destruct (flip_facts _ Hc) as (F1 & F2 & F3).
  pose proof no_king_capture as Hnk. rewrite Et in Hnk.
  pose proof Mw as Hw. pose proof Mlen as Hlen.
  set (b := brd p) in *. set (c := stm p) in *. set (q := make p m) in *.
  set (K := king_sq b (flip c)) in *.
  destruct (lf_own_king p K L) as [O1 O2]. pose proof (lf_own_uniq p K L) as O3. fold b c in O1, O2, O3.
  set (k0 := king_sq b c) in *.
  pose proof (lf_Klt p K L) as K1. pose proof (lf_Kat p K L) as K2. pose proof (lf_Kuniq p K L) as K3. fold b c in K2, K3.
  assert (Hat : forall a, a < 64 -> at_ (brd q) a = upd [(t, pc'); (f, 0)] b a).
  { intros a Ha. unfold q. rewrite at_make_simple; try rewrite Ef; try rewrite Et; try assumption.
    - cbn [upd]. fold b. destruct Hmt as [[-> ->]|(-> & _ & _ & ->)]; reflexivity.
    - destruct Hmt as [[-> _]|(-> & _)]; auto. }
  assert (P : pc' <> 0 /\ colour_of pc' = c /\ In pc' valid_codes /\ (pc' = mk_piece c KING <-> at_ b f = mk_piece c KING)).
  { clear - Hmt Hatf Hty Hc. destruct Hmt as [[_ ->]|(_ & Hp & Hpr & ->)].
    - rewrite Hatf. split; [apply mkp_nz; lia|]. split; [apply mk_piece_colour; lia|]. split; [now apply valid_own_piece|tauto].
    - split; [apply mkp_nz; lia|]. split; [apply mk_piece_colour; lia|]. split; [apply valid_own_piece; [exact Hc|lia]|].
      rewrite Hatf. split; intros E; apply mk_piece_inj in E; try (unfold KING, PAWN in *; lia). }
  destruct P as (P1 & P2 & P3 & P4).
  assert (HKf : K <> f).
  { intros E. rewrite E, Hatf in K2. apply mkp_king_inj in K2; [|exact Hty]. destruct K2 as [K2 _]. now apply F2. }
  assert (HKt : K <> t) by (intros E; apply Hnk; rewrite <- E; exact K2).
  assert (Hcol_t : at_ b t <> mk_piece c KING).
  { intros E. destruct Hto as [Hz|[_ Hcl]]; [rewrite Hz in E; symmetry in E; now apply mkp_king_nz in E|].
    rewrite E, mkp_colour_king in Hcl. now apply Hcl. }
  assert (Hpe : pc' <> mk_piece (flip c) KING).
  { intros E. rewrite E, mkp_colour_king in P2. now apply F2. }
  destruct (two_kings_simple b (brd q) c f t pc' K k0 Hat Hc Hf Ht K1 O1 K2 K3 O2 O3 HKf HKt Hcol_t Hpe P4) as [C1 C2].
  apply legal_pos_intro; [exact R1| | | |exact R2|exact R3|exact R4| | |exact Hep].
  - apply (upd_codes b (brd q) [(t, pc'); (f, 0)] Hat); [exact (wf_codes p Hw)|].
    intros s v [E|[E|[]]]; injection E as <- <-; [exact P3|now left].
  - destruct (flip_cases c Hc) as [[E1 E2]|[E1 E2]]; [rewrite <- E1; exact C1|rewrite <- E2; exact C2].
  - destruct (flip_cases c Hc) as [[E1 E2]|[E1 E2]]; [rewrite <- E2; exact C2|rewrite <- E1; exact C1].
  - apply (upd_pawn_ranks b (brd q) [(t, pc'); (f, 0)] Hat).
    + intros s Hs Hp. rewrite forallb_forall in Hpr. specialize (Hpr s (proj2 (in_squares64 s) Hs)).
      unfold piece_at in Hpr. fold b in Hpr. rewrite Hp in Hpr. clear - Hpr. lia.
    + intros s v [E|[E|[]]] Hp; injection E as <- <-; [now apply Hrank|]. cbn in Hp. discriminate.
  - apply (upd_rights_ok p q [(t, pc'); (f, 0)] f t Hcr Hf Ht).
    + unfold q. now rewrite make_cr, Ef, Et.
    + exact Hat.
    + intros kf kt rf bit em _ _ A2 A3 A4 A5. cbn [fsts map fst In]. split; intros [E|[E|[]]]; congruence.
    + exact Hro.
Qed.

(** *** en passant *)
Lemma ep_victim_facts e : ep p = e -> e < 64 ->
  8 <= e < 56 /\ ep_victim (stm p) e < 64 /\
  at_ (brd p) (ep_victim (stm p) e) = mk_piece (flip (stm p)) PAWN /\
  rank_of e <> 0 /\ rank_of e <> 7.
Proof.
  intros Ee He. pose proof (legal_pos_inv p Hlp) as (_ & _ & _ & _ & _ & _ & _ & _ & _ & Hep).
  pose proof Mc as Hc. unfold ep_ok in Hep. rewrite Ee in Hep.
  replace (e =? 64) with false in Hep by lia.
  repeat (apply andb_true_iff in Hep as [Hep ?]).
  assert (Hv : step (fwd (flip (stm p))) e = Some (ep_victim (stm p) e) /\ 8 <= e < 56 /\ rank_of e <> 0 /\ rank_of e <> 7).
  { clear - Hep Hc He.
    assert (G : forallb (fun c => forallb (fun e =>
              negb (rank_of e =? (if c =? WHITE then 5 else 2)) ||
              (match step (fwd (flip c)) e with Some v => v =? ep_victim c e | None => false end &&
               (8 <=? e) && (e <? 56) && negb (rank_of e =? 0) && negb (rank_of e =? 7))) squares64) [0;1] = true)
      by (vm_compute; reflexivity).
    rewrite forallb_forall in G. assert (Hin : In (stm p) [0;1]) by (cbn; lia).
    pose proof (forall_squares _ (G _ Hin) e He) as G'. cbv beta in G'. rewrite Hep in G'. cbn [negb orb] in G'.
    repeat (apply andb_true_iff in G' as [G' ?]).
    destruct (step (fwd (flip (stm p))) e); [|discriminate]. apply N.eqb_eq in G'. subst. repeat split; lia. }
  destruct Hv as (Hv & R1 & R2 & R3). rewrite Hv in H0. unfold piece_at in H0. apply N.eqb_eq in H0.
  repeat split; try assumption; try lia. apply step_lt in Hv. exact Hv.
Qed.

Lemma ep_legal s e : s < 64 -> at_ (brd p) s = mk_piece (stm p) PAWN ->
  m = mkmv s e ENPASSANT 3 -> In e (pawn_attack_targets (stm p) s) -> e = ep p -> at_ (brd p) e = 0 ->
  legal_pos (make p m) = true.
Proof.
  intros Hs Hats Em Hin Ee He0.
  pose proof (legal_pos_inv p Hlp) as (_ & _ & _ & _ & _ & Hcr & _ & Hpr & Hro & _).
  destruct legal_rest as (R1 & R2 & R3 & R4).
  pose proof Mlf as L. pose proof Mc as Hc. destruct (flip_facts _ Hc) as (F1 & F2 & F3).
  pose proof Mw as Hw. pose proof Mlen as Hlen.
  assert (He : e < 64) by now apply pawn_targets_lt in Hin.
  destruct (ep_victim_facts e (eq_sym Ee) He) as (Hr & Hv & Hatv & Hr0 & Hr7).
  set (b := brd p) in *. set (c := stm p) in *. set (q := make p m) in *.
  set (K := king_sq b (flip c)) in *. set (vic := ep_victim c e) in *.
  destruct (lf_own_king p K L) as [O1 O2]. pose proof (lf_own_uniq p K L) as O3. fold b c in O1, O2, O3.
  set (k0 := king_sq b c) in *.
  pose proof (lf_Klt p K L) as K1. pose proof (lf_Kat p K L) as K2. pose proof (lf_Kuniq p K L) as K3. fold b c in K2, K3.
  set (ch := [(vic, 0); (e, at_ b s); (s, 0)]).
  assert (Hat : forall a, a < 64 -> at_ (brd q) a = upd ch b a).
  { intros a Ha. unfold q. rewrite Em.
    rewrite (at_make_ep p (mkmv s e ENPASSANT 3) Hlen Hc Hs He Hr eq_refl Hin a). reflexivity. }
  assert (Pawn_ne_king : forall x y, mk_piece x PAWN <> mk_piece y KING).
  { intros x y E. apply mk_piece_inj in E; unfold PAWN, KING in *; lia. }
  apply legal_pos_intro; [exact R1| | | |exact R2|exact R3|exact R4| | |].
  - apply (upd_codes b (brd q) ch Hat); [exact (wf_codes p Hw)|].
    intros x v [E|[E|[E|[]]]]; injection E as <- <-; [now left|rewrite Hats; apply valid_own_piece; [exact Hc|unfold PAWN; lia]|now left].
  - (* white king *)
    assert (G : forall x k, k < 64 -> at_ b k = mk_piece x KING ->
                (forall y, y < 64 -> at_ b y = mk_piece x KING -> y = k) -> count_piece (brd q) (mk_piece x KING) = 1%nat).
    { intros x k Hk Ak Uk. apply (upd_king_stays b (brd q) ch Hat _ k Hk Ak Uk).
      - unfold ch. cbn [fsts map fst In]. intros [E|[E|[E|[]]]]; rewrite <- E in Ak.
        + rewrite Hatv in Ak. now apply Pawn_ne_king in Ak.
        + rewrite He0 in Ak. symmetry in Ak. now apply mkp_king_nz in Ak.
        + rewrite Hats in Ak. now apply Pawn_ne_king in Ak.
      - intros y v [E|[E|[E|[]]]] Ev; injection E as <- <-.
        + symmetry in Ev. now apply mkp_king_nz in Ev.
        + rewrite Hats in Ev. now apply Pawn_ne_king in Ev.
        + symmetry in Ev. now apply mkp_king_nz in Ev. }
    destruct (flip_cases c Hc) as [[E1 E2]|[E1 E2]]; [rewrite <- E1; now apply (G c k0)|rewrite <- E2; now apply (G (flip c) K)].
  - assert (G : forall x k, k < 64 -> at_ b k = mk_piece x KING ->
                (forall y, y < 64 -> at_ b y = mk_piece x KING -> y = k) -> count_piece (brd q) (mk_piece x KING) = 1%nat).
    { intros x k Hk Ak Uk. apply (upd_king_stays b (brd q) ch Hat _ k Hk Ak Uk).
      - unfold ch. cbn [fsts map fst In]. intros [E|[E|[E|[]]]]; rewrite <- E in Ak.
        + rewrite Hatv in Ak. now apply Pawn_ne_king in Ak.
        + rewrite He0 in Ak. symmetry in Ak. now apply mkp_king_nz in Ak.
        + rewrite Hats in Ak. now apply Pawn_ne_king in Ak.
      - intros y v [E|[E|[E|[]]]] Ev; injection E as <- <-.
        + symmetry in Ev. now apply mkp_king_nz in Ev.
        + rewrite Hats in Ev. now apply Pawn_ne_king in Ev.
        + symmetry in Ev. now apply mkp_king_nz in Ev. }
    destruct (flip_cases c Hc) as [[E1 E2]|[E1 E2]]; [rewrite <- E2; now apply (G (flip c) K)|rewrite <- E1; now apply (G c k0)].
  - apply (upd_pawn_ranks b (brd q) ch Hat).
    + intros x Hx Hp. rewrite forallb_forall in Hpr. specialize (Hpr x (proj2 (in_squares64 x) Hx)).
      unfold piece_at in Hpr. fold b in Hpr. rewrite Hp in Hpr. clear - Hpr. lia.
    + intros x v [E|[E|[E|[]]]] Hp; injection E as <- <-; [cbn in Hp; discriminate|now split|cbn in Hp; discriminate].
  - apply (upd_rights_ok p q ch s e Hcr Hs He).
    + unfold q. now rewrite make_cr, Em.
    + exact Hat.
    + intros kf kt rf bit em Hin' A1 A2 A3 A4 A5.
      assert (Hpc : exists x, at_ b kf = mk_piece x KING /\ at_ b rf = mk_piece x ROOK).
      { unfold rights_ok in Hro. apply andb_true_iff in Hro as [Hr1 Hr2]. rewrite forallb_forall in Hr1, Hr2.
        apply in_app_or in Hin' as [Hi|Hi].
        - specialize (Hr1 _ Hi). cbv beta iota in Hr1. apply N.eqb_neq in A1. rewrite A1 in Hr1. cbn [orb] in Hr1.
          apply andb_true_iff in Hr1 as [X1 X2]. unfold is_piece in *. apply N.eqb_eq in X1, X2. now exists WHITE.
        - specialize (Hr2 _ Hi). cbv beta iota in Hr2. apply N.eqb_neq in A1. rewrite A1 in Hr2. cbn [orb] in Hr2.
          apply andb_true_iff in Hr2 as [X1 X2]. unfold is_piece in *. apply N.eqb_eq in X1, X2. now exists BLACK. }
      destruct Hpc as [x [X1 X2]].
      unfold ch. cbn [fsts map fst In]. split; intros [E|[E|[E|[]]]]; try congruence.
      * rewrite <- E, Hatv in X1. now apply Pawn_ne_king in X1.
      * rewrite <- E, Hatv in X2. apply mk_piece_inj in X2; unfold PAWN, ROOK in *; lia.
    + exact Hro.
  - apply ep_none. unfold q. rewrite make_ep_field, Em. cbn [mfrom mto].
    destruct (pawn_step_facts c s Hc Hs) as (_ & _ & G3). destruct (G3 e Hin) as [_ G]. fold b. rewrite G.
    now rewrite andb_false_r.
Qed.

(** *** castling *)
Lemma castle_legal kf kt rf bit em : In (kf, kt, rf, bit, em) (castles (stm p)) ->
  castle_ok p (kf, kt, rf, bit, em) = true -> m = mkmv kf kt CASTLING 3 -> legal_pos (make p m) = true.
Proof.
  intros Hin Hok Em.
  pose proof (legal_pos_inv p Hlp) as (_ & _ & _ & _ & _ & Hcr & _ & Hpr & Hro & _).
  destruct legal_rest as (R1 & R2 & R3 & R4).
  pose proof Mlf as L. pose proof Mc as Hc. destruct (flip_facts _ Hc) as (F1 & F2 & F3).
  pose proof Mw as Hw. pose proof Mlen as Hlen.
  unfold castle_ok in Hok. repeat (apply andb_true_iff in Hok as [Hok ?]).
  unfold is_piece in *.
  match goal with X : (at_ (brd p) kf =? _) = true |- _ => apply N.eqb_eq in X; rename X into Akf end.
  match goal with X : (at_ (brd p) rf =? _) = true |- _ => apply N.eqb_eq in X; rename X into Arf end.
  match goal with X : forallb _ em = true |- _ => rename X into Hem end.
  rewrite forallb_forall in Hem.
  set (rt := snd (rook_castle_squares kt)).
  assert (Hd : kf < 64 /\ kt < 64 /\ rf < 64 /\ rt < 64 /\ rook_castle_squares kt = (rf, rt) /\
               In kt em /\ In rt em /\ kf <> kt /\ kt <> rf /\ kt <> rt /\ rf <> rt /\ kf <> rt /\ kf <> rf).
  { subst rt. apply castles_in in Hin.
    decompose [or] Hin; match goal with X : (_, _, _, _, _) = _ |- _ => injection X as -> -> -> -> -> end;
      cbn; repeat split; try lia; auto. }
  destruct Hd as (D1 & D2 & D3 & D4 & D5 & D6 & D7 & N1 & N2 & N3 & N4 & N5 & N6).
  pose proof (Hem kt D6) as Akt. pose proof (Hem rt D7) as Art. apply N.eqb_eq in Akt, Art.
  set (b := brd p) in *. set (c := stm p) in *. set (q := make p m) in *.
  set (K := king_sq b (flip c)) in *.
  pose proof (lf_own_uniq p K L) as O3. fold b c in O3.
  pose proof (lf_Klt p K L) as K1. pose proof (lf_Kat p K L) as K2. pose proof (lf_Kuniq p K L) as K3. fold b c in K2, K3.
  set (ch := [(rt, mk_piece c ROOK); (rf, 0); (kt, at_ b kf); (kf, 0)]).
  assert (Hat : forall a, a < 64 -> at_ (brd q) a = upd ch b a).
  { intros a Ha. unfold q. rewrite Em. rewrite (at_make_castle p kf kt rf rt Hlen D1 D2 D3 D4 D5). reflexivity. }
  assert (Rook_ne_king : forall x y, mk_piece x ROOK <> mk_piece y KING).
  { intros x y E. apply mk_piece_inj in E; unfold ROOK, KING in *; lia. }
  apply legal_pos_intro; [exact R1| | | |exact R2|exact R3|exact R4| | |].
  - apply (upd_codes b (brd q) ch Hat); [exact (wf_codes p Hw)|].
    intros x v [E|[E|[E|[E|[]]]]]; injection E as <- <-;
      [apply valid_own_piece; [exact Hc|unfold ROOK; lia]|now left|rewrite Akf; apply valid_own_piece; [exact Hc|unfold KING; lia]|now left].
  - (* white king *)
    assert (Gown : count_piece (brd q) (mk_piece c KING) = 1%nat).
    { apply (upd_king_moves b (brd q) ch Hat _ kf kt D2).
      - intros y Hy Ay. assert (E1 : y = king_sq b c) by now apply O3. assert (E2 : kf = king_sq b c) by now apply O3. congruence.
      - unfold ch. cbn [fsts map fst In]. auto.
      - unfold ch. cbn [upd]. replace (kt =? rt) with false by lia. replace (kt =? rf) with false by lia.
        rewrite N.eqb_refl. exact Akf.
      - intros y v [E|[E|[E|[E|[]]]]] Ev; injection E as <- <-; try reflexivity.
        + now apply Rook_ne_king in Ev.
        + symmetry in Ev. now apply mkp_king_nz in Ev.
        + symmetry in Ev. now apply mkp_king_nz in Ev. }
    assert (Gopp : count_piece (brd q) (mk_piece (flip c) KING) = 1%nat).
    { apply (upd_king_stays b (brd q) ch Hat _ K K1 K2 K3).
      - unfold ch. cbn [fsts map fst In]. intros [E|[E|[E|[E|[]]]]]; rewrite <- E in K2.
        + rewrite Art in K2. symmetry in K2. now apply mkp_king_nz in K2.
        + rewrite Arf in K2. now apply Rook_ne_king in K2.
        + rewrite Akt in K2. symmetry in K2. now apply mkp_king_nz in K2.
        + rewrite Akf in K2. apply mk_piece_inj in K2; [|unfold KING; lia|unfold KING; lia]. destruct K2 as [K2 _]. now apply F2.
      - intros y v [E|[E|[E|[E|[]]]]] Ev; injection E as <- <-.
        + now apply Rook_ne_king in Ev.
        + symmetry in Ev. now apply mkp_king_nz in Ev.
        + rewrite Akf in Ev. apply mk_piece_inj in Ev; [|unfold KING; lia|unfold KING; lia]. destruct Ev as [Ev _]. now apply F2.
        + symmetry in Ev. now apply mkp_king_nz in Ev. }
    destruct (flip_cases c Hc) as [[E1 E2]|[E1 E2]]; [rewrite <- E1; exact Gown|rewrite <- E2; exact Gopp].
  - assert (Gown : count_piece (brd q) (mk_piece c KING) = 1%nat).
    { apply (upd_king_moves b (brd q) ch Hat _ kf kt D2).
      - intros y Hy Ay. assert (E1 : y = king_sq b c) by now apply O3. assert (E2 : kf = king_sq b c) by now apply O3. congruence.
      - unfold ch. cbn [fsts map fst In]. auto.
      - unfold ch. cbn [upd]. replace (kt =? rt) with false by lia. replace (kt =? rf) with false by lia.
        rewrite N.eqb_refl. exact Akf.
      - intros y v [E|[E|[E|[E|[]]]]] Ev; injection E as <- <-; try reflexivity.
        + now apply Rook_ne_king in Ev.
        + symmetry in Ev. now apply mkp_king_nz in Ev.
        + symmetry in Ev. now apply mkp_king_nz in Ev. }
    assert (Gopp : count_piece (brd q) (mk_piece (flip c) KING) = 1%nat).
    { apply (upd_king_stays b (brd q) ch Hat _ K K1 K2 K3).
      - unfold ch. cbn [fsts map fst In]. intros [E|[E|[E|[E|[]]]]]; rewrite <- E in K2.
        + rewrite Art in K2. symmetry in K2. now apply mkp_king_nz in K2.
        + rewrite Arf in K2. now apply Rook_ne_king in K2.
        + rewrite Akt in K2. symmetry in K2. now apply mkp_king_nz in K2.
        + rewrite Akf in K2. apply mk_piece_inj in K2; [|unfold KING; lia|unfold KING; lia]. destruct K2 as [K2 _]. now apply F2.
      - intros y v [E|[E|[E|[E|[]]]]] Ev; injection E as <- <-.
        + now apply Rook_ne_king in Ev.
        + symmetry in Ev. now apply mkp_king_nz in Ev.
        + rewrite Akf in Ev. apply mk_piece_inj in Ev; [|unfold KING; lia|unfold KING; lia]. destruct Ev as [Ev _]. now apply F2.
        + symmetry in Ev. now apply mkp_king_nz in Ev. }
    destruct (flip_cases c Hc) as [[E1 E2]|[E1 E2]]; [rewrite <- E2; exact Gopp|rewrite <- E1; exact Gown].
  - apply (upd_pawn_ranks b (brd q) ch Hat).
    + intros x Hx Hp. rewrite forallb_forall in Hpr. specialize (Hpr x (proj2 (in_squares64 x) Hx)).
      unfold piece_at in Hpr. fold b in Hpr. rewrite Hp in Hpr. clear - Hpr. lia.
    + intros x v [E|[E|[E|[E|[]]]]] Hp; injection E as <- <-; exfalso.
      * rewrite mk_piece_type in Hp by (unfold ROOK; lia). discriminate.
      * cbn in Hp. discriminate.
      * rewrite Akf, mk_piece_type in Hp by (unfold KING; lia). discriminate.
      * cbn in Hp. discriminate.
  - apply (upd_rights_ok p q ch kf kt Hcr D1 D2).
    + unfold q. now rewrite make_cr, Em.
    + exact Hat.
    + intros kf' kt' rf' bit' em' Hin' A1 A2 A3 A4 A5.
      assert (Hpc : exists x, at_ b kf' = mk_piece x KING /\ at_ b rf' = mk_piece x ROOK /\ In (kf', kt', rf', bit', em') (castles x)).
      { unfold rights_ok in Hro. apply andb_true_iff in Hro as [Hr1 Hr2]. rewrite forallb_forall in Hr1, Hr2.
        apply in_app_or in Hin' as [Hi|Hi].
        - specialize (Hr1 _ Hi). cbv beta iota in Hr1. apply N.eqb_neq in A1. rewrite A1 in Hr1. cbn [orb] in Hr1.
          apply andb_true_iff in Hr1 as [X1 X2]. unfold is_piece in *. apply N.eqb_eq in X1, X2. now exists WHITE.
        - specialize (Hr2 _ Hi). cbv beta iota in Hr2. apply N.eqb_neq in A1. rewrite A1 in Hr2. cbn [orb] in Hr2.
          apply andb_true_iff in Hr2 as [X1 X2]. unfold is_piece in *. apply N.eqb_eq in X1, X2. now exists BLACK. }
      destruct Hpc as [x [X1 [X2 X3]]].
      unfold ch. cbn [fsts map fst In]. split; intros [E|[E|[E|[E|[]]]]]; try congruence.
      * rewrite <- E, Art in X1. symmetry in X1. now apply mkp_king_nz in X1.
      * rewrite <- E, Arf in X1. now apply Rook_ne_king in X1.
      * rewrite <- E, Art in X2. symmetry in X2. apply mkp_nz in X2; [exact X2|unfold ROOK; lia].
      * (* the same rook square: then the same colour, hence the same king square *)
        rewrite <- E, Arf in X2. apply mk_piece_inj in X2; [|unfold ROOK; lia|unfold ROOK; lia]. destruct X2 as [X2 _].
        subst x. apply A2. clear - Hin X3. unfold castles in Hin, X3.
        destruct (c =? WHITE); cbn [In] in Hin, X3; destruct Hin as [H1|[H1|[]]], X3 as [H2|[H2|[]]];
          injection H1 as <- <- <- <- <-; injection H2 as <- <- <- <- <-; reflexivity.
    + exact Hro.
  - apply ep_none. unfold q. rewrite make_ep_field, Em. cbn [mfrom mto]. fold b. rewrite Akf.
    rewrite mk_piece_type by (unfold KING; lia). reflexivity.
Qed.

(** *** the en passant square after a double step *)
Lemma ep_ok_double s t u : s < 64 -> at_ (brd p) s = mk_piece (stm p) PAWN ->
  step (fwd (stm p)) s = Some t -> at_ (brd p) t = 0 -> rank_of s = start_rank (stm p) ->
  step (fwd (stm p)) t = Some u -> at_ (brd p) u = 0 -> m = mkmv s u NORMAL 3 ->
  ep_ok (make p m) = true.
Proof.
  intros Hs Hats E E0 Hr E2 Eu Em. pose proof Mc as Hc. pose proof Mlen as Hlen.
  destruct (flip_facts _ Hc) as (F1 & F2 & F3).
  destruct (pawn_step_facts _ s Hc Hs) as (_ & G2 & _). destruct (G2 t u E E2 Hr) as (_ & _ & Gm & Gr).
  destruct (push_geom _ s t Hc Hs E) as (_ & Nts & _). destruct (double_geom _ s t u Hc Hs E E2) as (_ & Nut & Gd).
  assert (Ht : t < 64) by now apply step_lt in E. assert (Hu : u < 64) by now apply step_lt in E2.
  assert (Nus : u <> s).
  { intros X. rewrite X in Gd. unfold zabs_diff in Gd. destruct (rank_of s <=? rank_of s); lia. }
  assert (Hat : forall a, at_ (brd (make p m)) a = if a =? u then at_ (brd p) s else if a =? s then 0 else at_ (brd p) a).
  { intros a. rewrite Em. rewrite (at_make_simple p (mkmv s u NORMAL 3) Hlen Hs Hu (or_introl eq_refl) a). reflexivity. }
  assert (Eep : ep (make p m) = t).
  { rewrite make_ep_field, Em. cbn [mfrom mto]. rewrite Hats, mk_piece_type by (unfold PAWN; lia).
    rewrite N.eqb_refl, Gd. cbn [N.eqb Pos.eqb andb]. exact Gm. }
  unfold ep_ok. rewrite Eep. replace (t =? 64) with false by lia.
  rewrite make_stm. rewrite F3. unfold piece_at. rewrite E2.
  assert (Eb : step (fwd (flip (stm p))) t = Some s).
  { assert (Ho : opp (fwd (stm p)) = fwd (flip (stm p))).
    { clear - Hc. assert (stm p = 0 \/ stm p = 1) as [-> | ->] by lia; reflexivity. }
    rewrite <- Ho. now apply (step_opp _ s t Hs Ht). }
  rewrite Eb. rewrite !Hat.
  replace (t =? u) with false by lia. replace (t =? s) with false by lia. rewrite N.eqb_refl.
  replace (s =? u) with false by lia. rewrite N.eqb_refl.
  rewrite E0, Hats, Gr, !N.eqb_refl. reflexivity.
Qed.

End Make.

Theorem make_preserves_legal_pos p m : legal_pos p = true -> In m (legal p) -> legal_pos (make p m) = true.
Proof.
  intros Hlp Hm. unfold legal in Hm. apply filter_In in Hm as [Hps His].
  pose proof (legal_wfp p Hlp) as Hw. pose proof (wf_stm p Hw) as Hc.
  pose proof (pseudo_shape p m Hw Hps) as Hsh.
  destruct Hsh as [s t ty Hs Hty E Ht Hf|s m Hs E Hm|m Hm].
  - (* officers and king *)
    pose proof (spec_targets_lt _ _ _ _ Ht) as Ht64.
    apply (simple_legal p _ Hlp Hps His s t ty (at_ (brd p) s)); try reflexivity; try assumption.
    + unfold KING in *. lia.
    + left. auto.
    + unfold free_or_enemy in Hf. destruct (N.eqb_spec (at_ (brd p) t) 0) as [E0|E0]; [now left|right].
      cbn [orb] in Hf. split; [exact E0|]. apply negb_true_iff, N.eqb_neq in Hf. exact Hf.
    + intros Hp. rewrite E, mk_piece_type in Hp by (unfold KING in *; lia). unfold PAWN, KING in *. lia.
    + apply ep_none. rewrite make_ep_field. cbn [mfrom]. rewrite E, mk_piece_type by (unfold KING in *; lia).
      replace (ty =? PAWN) with false by (unfold PAWN, KING in *; lia). reflexivity.
  - (* pawns *)
    apply (proj1 (pawn_moves_pmove false p s _)) in Hm. destruct Hm as [k Hk].
    pose proof (pawn_step_facts _ s Hc Hs) as (G1 & G2 & G3).
    assert (Hlast : forall x, x <> home_rank (stm p) -> x <> last_rank (stm p) -> x <> 0 /\ x <> 7).
    { intros x. clear - Hc. unfold home_rank, last_rank, WHITE. assert (stm p = 0 \/ stm p = 1) as [-> | ->] by lia; cbn; lia. }
    assert (Hnp : forall pr, prom_piece pr -> type_of (mk_piece (stm p) pr) <> PAWN /\ 3 <= pr <= 6).
    { intros pr [->|[->|[->| ->]]]; (split; [rewrite mk_piece_type by (vm_compute; reflexivity); discriminate|vm_compute; split; discriminate]). }
    destruct Hk as [t E1 E0 Hr|t pr E1 E0 Hr Hpr|t u E1 E0 Es E2 Eu|t Ht Een Hr|t pr Ht Een Hr Hpr|t Ht Een Ee E0].
    + assert (Ht64 : t < 64) by now apply step_lt in E1.
      apply (simple_legal p _ Hlp Hps His s t PAWN (at_ (brd p) s)); try reflexivity; try assumption.
      * unfold PAWN. lia.
      * left. auto.
      * now left.
      * intros _. apply Hlast; [now apply G1|exact Hr].
      * apply ep_none. rewrite make_ep_field. cbn [mfrom mto].
        destruct (push_geom _ s t Hc Hs E1) as (_ & _ & Gd). rewrite Gd. now rewrite andb_false_r.
    + assert (Ht64 : t < 64) by now apply step_lt in E1. destruct (Hnp pr Hpr) as [Hn1 Hn2].
      apply (simple_legal p _ Hlp Hps His s t PAWN (mk_piece (stm p) pr)); try reflexivity; try assumption.
      * unfold PAWN. lia.
      * right. cbn [mtype mprom]. auto.
      * now left.
      * intros Hp. contradiction.
      * apply ep_none. rewrite make_ep_field. cbn [mfrom mto].
        destruct (push_geom _ s t Hc Hs E1) as (_ & _ & Gd). rewrite Gd. now rewrite andb_false_r.
    + assert (Hu64 : u < 64) by now apply step_lt in E2.
      destruct (G2 t u E1 E2 Es) as (Gh & Gl & _).
      apply (simple_legal p _ Hlp Hps His s u PAWN (at_ (brd p) s)); try reflexivity; try assumption.
      * unfold PAWN. lia.
      * left. auto.
      * now left.
      * intros _. now apply Hlast.
      * now apply (ep_ok_double p _ Hlp His s t u).
    + assert (Ht64 : t < 64) by now apply pawn_targets_lt in Ht. destruct (G3 t Ht) as [Gh Gd].
      apply (simple_legal p _ Hlp Hps His s t PAWN (at_ (brd p) s)); try reflexivity; try assumption.
      * unfold PAWN. lia.
      * left. auto.
      * right. unfold enemy in Een. apply andb_true_iff in Een as [A B]. apply negb_true_iff, N.eqb_neq in A, B. auto.
      * intros _. now apply Hlast.
      * apply ep_none. rewrite make_ep_field. cbn [mfrom mto]. rewrite Gd. now rewrite andb_false_r.
    + assert (Ht64 : t < 64) by now apply pawn_targets_lt in Ht. destruct (G3 t Ht) as [Gh Gd]. destruct (Hnp pr Hpr) as [Hn1 Hn2].
      apply (simple_legal p _ Hlp Hps His s t PAWN (mk_piece (stm p) pr)); try reflexivity; try assumption.
      * unfold PAWN. lia.
      * right. cbn [mtype mprom]. auto.
      * right. unfold enemy in Een. apply andb_true_iff in Een as [A B]. apply negb_true_iff, N.eqb_neq in A, B. auto.
      * intros Hp. contradiction.
      * apply ep_none. rewrite make_ep_field. cbn [mfrom mto]. rewrite Gd. now rewrite andb_false_r.
    + now apply (ep_legal p _ Hlp His s t).
  - apply castle_moves_in in Hm as (kf & kt & rf & bit & em & Hin & Hok & Em).
    now apply (castle_legal p _ Hlp His kf kt rf bit em).
Qed.

Print Assumptions make_preserves_legal_pos.
