(** Corollaries for the transposition table (C11): Clear forgets every stored key and keeps the
    geometry; a table of capacity 0 never answers; a miss leaves the table untouched. *)
From Coq Require Import ZArith NArith List Bool Lia ZifyN ZifyBool.
From stdpp Require Import base option fin_maps nmap.
From FG Require Import TTImpl.

Lemma slot_at_clear t i : slot_at (clear t) i = zero_entry.
Proof. unfold slot_at, clear. cbn. rewrite lookup_empty. reflexivity. Qed.

(* after Clear no key (other than the empty sentinel 0) is found, by GetEntry or by Probe,
   whatever the table held before *)
Theorem clear_forgets t k : k <> 0%N ->
  get_entry (clear t) k = None /\ snd (probe (clear t) k) = None /\ fst (probe (clear t) k) = clear t.
Proof.
  intro Hk. unfold get_entry, probe. destruct (cap (clear t) =? 0)%N; [auto|].
  rewrite slot_at_clear. cbn [eKey zero_entry].
  destruct (N.eqb_spec 0 k) as [E|E]; [congruence|]. cbn. auto.
Qed.

Theorem clear_geometry t : cap (clear t) = cap t /\ mask (clear t) = mask t /\ len (clear t) = 0%N /\ hashfull (clear t) = 0%N.
Proof.
  unfold clear, len, hashfull. cbn [cap mask count]. repeat split.
  destruct (N.eqb_spec (cap t) 0) as [E|E]; [reflexivity|]. rewrite N.mul_0_r. apply N.div_0_l. exact E.
Qed.

(* a table without slots (size 0) never answers and never changes *)
Theorem capacity_zero_silent t k : cap t = 0%N ->
  get_entry t k = None /\ probe t k = (t, None).
Proof. intro H. unfold get_entry, probe. rewrite H. cbn. auto. Qed.

(* a probe that misses does not modify the table *)
Theorem probe_miss_frame t k : snd (probe t k) = None -> fst (probe t k) = t.
Proof.
  unfold probe. destruct (cap t =? 0)%N; [reflexivity|].
  destruct (eKey (slot_at t (hash t k)) =? k)%N; [discriminate|reflexivity].
Qed.

Print Assumptions clear_forgets.
Print Assumptions clear_geometry.
Print Assumptions capacity_zero_silent.
Print Assumptions probe_miss_frame.
