(** * MovegenLemmas: shared facts for the move generator proofs (C01, C08).

    - list combinators ([flat_map_o], NoDup of flat maps by a key, class partitions);
    - bits of the words the generator combines ([land], [ldiff], [bnot], view words);
    - the 16-bit move code: [mk_code] = [Rules.code], injectivity;
    - consequences of [Rules.legal_pos]. *)
From Coq Require Import NArith ZArith List Bool Lia ZifyN ZifyBool Permutation Sorted.
From FG Require Import Word64 Geom Tables TablesCorrect ShiftCorrect Rules FenSpec Oracle BitView
                       AttacksImpl AttacksLemmas MoveEnc SqListFacts MovegenImpl.
From FG.gen Require Import Tables_gen.
Import ListNotations.
Open Scope N_scope.

(** ** lists *)
Lemma flat_map_o_some {A} (f : A -> option (list N)) (g : A -> list N) l :
  (forall x, In x l -> f x = Some (g x)) -> flat_map_o f l = Some (flat_map g l).
Proof.
  induction l as [|x l IH]; intros H; cbn [flat_map_o flat_map]; [reflexivity|].
  rewrite (H x (or_introl eq_refl)). cbn [bind]. rewrite IH; [reflexivity|].
  intros y Hy. apply H. now right.
Qed.

Lemma nodup_app {A} (a b : list A) : NoDup a -> NoDup b -> (forall x, In x a -> In x b -> False) -> NoDup (a ++ b).
Proof.
  induction 1 as [|x a Hx Ha IH]; intros Hb Hd; cbn [app]; [exact Hb|].
  constructor.
  - intros H. apply in_app_or in H as [H|H]; [now apply Hx|]. apply (Hd x); [now left|exact H].
  - apply IH; [exact Hb|]. intros y Hy1 Hy2. apply (Hd y); [now right|exact Hy2].
Qed.

Lemma nodup_app_inv {A} (a b : list A) : NoDup (a ++ b) ->
  NoDup a /\ NoDup b /\ (forall x, In x a -> In x b -> False).
Proof.
  induction a as [|x a IH]; cbn [app]; intros H.
  - repeat split; [constructor|exact H|intros ? []].
  - inversion H as [|? ? Hx Hn]; subst. destruct (IH Hn) as (A1 & A2 & A3). repeat split.
    + constructor; [|exact A1]. intros Hi. apply Hx. apply in_or_app. now left.
    + exact A2.
    + intros y [<-|Hy] Hb; [apply Hx; apply in_or_app; now right|now apply (A3 y)].
Qed.

(* a flat map is duplicate free when the source can be read off every element *)
Lemma nodup_flat_map_key {A B} (key : B -> A) (g : A -> list B) (xs : list A) :
  NoDup xs -> (forall x, In x xs -> NoDup (g x)) ->
  (forall x y, In x xs -> In y (g x) -> key y = x) -> NoDup (flat_map g xs).
Proof.
  induction 1 as [|x xs Hx Hxs IH]; intros Hg Hk; cbn [flat_map]; [constructor|].
  apply nodup_app.
  - apply Hg. now left.
  - apply IH; [intros y Hy; apply Hg; now right|intros y z Hy Hz; apply Hk; [now right|exact Hz]].
  - intros y Hy1 Hy2. apply in_flat_map in Hy2 as [x' [Hx' Hy2]].
    assert (key y = x) by (apply Hk; [now left|exact Hy1]).
    assert (key y = x') by (apply Hk; [now right|exact Hy2]). apply Hx. congruence.
Qed.

Lemma nodup_map_inj {A B} (f : A -> B) l :
  (forall x y, In x l -> In y l -> f x = f y -> x = y) -> NoDup l -> NoDup (map f l).
Proof.
  intros Hinj. induction 1 as [|x l Hx Hl IH]; cbn [map]; [constructor|].
  constructor.
  - intros H. apply in_map_iff in H as [y [E Hy]]. apply Hx.
    assert (y = x) by (apply Hinj; [now right|now left|exact E]). now subst.
  - apply IH. intros a b Ha Hb. apply Hinj; now right.
Qed.

(* duplicate free lists with the same elements are permutations (stdlib NoDup_Permutation) *)
Lemma perm_of_nodup (l l' : list N) : NoDup l -> NoDup l' -> (forall x, In x l <-> In x l') -> Permutation l l'.
Proof. apply NoDup_Permutation. Qed.

(* a list is a permutation of its classes *)
Fixpoint classes {A} (cls : A -> N) (n : nat) (l : list A) : list A :=
  match n with
  | O => []
  | S k => classes cls k l ++ filter (fun x => cls x =? N.of_nat k) l
  end.

Lemma filter_split_perm {A} (f : A -> bool) l : Permutation l (filter f l ++ filter (fun x => negb (f x)) l).
Proof.
  induction l as [|x l IH]; cbn [filter]; [reflexivity|].
  destruct (f x); cbn [negb app].
  - now constructor.
  - rewrite IH at 1. apply Permutation_middle.
Qed.

Lemma classes_perm {A} (cls : A -> N) n (l : list A) :
  (forall x, In x l -> cls x < N.of_nat n) -> Permutation l (classes cls n l).
Proof.
  revert l. induction n as [|n IH]; intros l H.
  - destruct l as [|x l]; [reflexivity|]. specialize (H x (or_introl eq_refl)). lia.
  - cbn [classes].
    etransitivity; [apply (filter_split_perm (fun x => cls x =? N.of_nat n) l)|].
    etransitivity; [apply Permutation_app_comm|]. apply Permutation_app_tail.
    set (l' := filter (fun x => negb (cls x =? N.of_nat n)) l).
    assert (Hl' : forall x, In x l' -> cls x < N.of_nat n).
    { intros x Hx. apply filter_In in Hx as [Hx Hc]. specialize (H x Hx). lia. }
    etransitivity; [apply (IH l' Hl')|].
    assert (E : forall k, (k <= n)%nat -> classes cls k l' = classes cls k l).
    { induction k as [|k IHk]; intros Hk; cbn [classes]; [reflexivity|]. rewrite IHk by lia. f_equal.
      subst l'. clear - Hk. induction l as [|x l IHl]; cbn [filter]; [reflexivity|].
      destruct (N.eqb_spec (cls x) (N.of_nat n)) as [E|E]; cbn [negb filter].
      - rewrite IHl. replace (cls x =? N.of_nat k) with false by lia. reflexivity.
      - rewrite IHl. reflexivity. }
    now rewrite E.
Qed.

Lemma classes_map_concat {A} (cls : A -> N) (f : A -> N) n l :
  map f (classes cls n l) =
  concat (map (fun k => map f (filter (fun x => cls x =? N.of_nat k) l)) (seq 0 n)).
Proof.
  induction n as [|n IH]; cbn [classes]; [reflexivity|].
  rewrite map_app, IH, seq_S. rewrite (map_app _ (seq 0 n)), concat_app.
  cbn [map concat Nat.add]. now rewrite app_nil_r.
Qed.

Lemma in_map_filter {A} (f : A -> N) (P : A -> bool) l c :
  In c (map f (filter P l)) <-> exists m, In m l /\ P m = true /\ f m = c.
Proof.
  rewrite in_map_iff. split.
  - intros [m [E H]]. apply filter_In in H as [H1 H2]. now exists m.
  - intros [m [H1 [H2 E]]]. exists m. split; [exact E|]. now apply filter_In.
Qed.

Lemma nodup_filter_map {A} (f : A -> N) (P : A -> bool) l : NoDup (map f l) -> NoDup (map f (filter P l)).
Proof.
  induction l as [|x l IH]; cbn [map filter]; intros H; [constructor|].
  inversion H as [|? ? Hx Hn]; subst. destruct (P x); cbn [map]; [|now apply IH].
  constructor; [|now apply IH]. intros Hi. apply Hx.
  apply in_map_iff in Hi as [y [E Hy]]. apply filter_In in Hy as [Hy _]. apply in_map_iff. now exists y.
Qed.

(** ** words *)
Lemma land_lt a b : a < W64 -> N.land a b < W64.
Proof.
  intros Ha. rewrite W64_pow. apply lt_pow2_of_bits. intros i Hi.
  rewrite N.land_spec, (bits_high_false a i Ha Hi). reflexivity.
Qed.
Lemma land_lt_r a b : b < W64 -> N.land a b < W64.
Proof. rewrite N.land_comm. apply land_lt. Qed.
Lemma ldiff_lt a b : a < W64 -> N.ldiff a b < W64.
Proof.
  intros Ha. rewrite W64_pow. apply lt_pow2_of_bits. intros i Hi.
  rewrite N.ldiff_spec, (bits_high_false a i Ha Hi). reflexivity.
Qed.

Lemma bnot_testbit a i : a < W64 -> N.testbit (bnot a) i = (i <? 64) && negb (N.testbit a i).
Proof.
  intros Ha. unfold bnot, wnot. rewrite N.lxor_spec, mask64_ones.
  destruct (N.ltb_spec i 64) as [H|H].
  - rewrite N.ones_spec_low by exact H. cbn [andb]. now rewrite xorb_true_r.
  - rewrite N.ones_spec_high by exact H. rewrite (bits_high_false a i Ha H). reflexivity.
Qed.

Lemma sq_list_in W t : W < W64 -> (In t (sq_list_of_bb W) <-> N.testbit W t = true).
Proof. apply sq_list_of_bb_In_testbit. Qed.

Lemma testbit_lt64 W t : W < W64 -> N.testbit W t = true -> t < 64.
Proof. intros HW H. apply (testbit_lt_pow2 W 64 t); [now rewrite <- W64_pow|exact H]. Qed.

(* the single set bit of a one-bit word *)
Lemma lsb_shiftl1 s : lsb (N.shiftl 1 s) = s.
Proof.
  assert (Hnz : N.shiftl 1 s <> 0) by (rewrite N.shiftl_1_l; apply N.pow_nonzero; discriminate).
  destruct (lsb_spec _ Hnz) as [H1 _]. rewrite shiftl1_testbit in H1. now apply N.eqb_eq in H1.
Qed.

Lemma lsb_single W s : W <> 0 -> (forall t, N.testbit W t = true -> t = s) -> lsb W = s.
Proof. intros Hnz H. destruct (lsb_spec W Hnz) as [H1 _]. now apply H. Qed.

(** ** legal positions *)
Definition valid_codes : list N := [0;1;2;3;4;5;6;9;10;11;12;13;14].

Lemma legal_pos_inv p : legal_pos p = true ->
  length (brd p) = 64%nat /\
  forallb (fun pc => existsb (N.eqb pc) valid_codes) (brd p) = true /\
  count_piece (brd p) (mk_piece WHITE KING) = 1%nat /\
  count_piece (brd p) (mk_piece BLACK KING) = 1%nat /\
  stm p < 2 /\ cr p < 16 /\
  in_check_b (brd p) (flip (stm p)) = false /\
  forallb (fun s => negb (type_of (piece_at p s) =? PAWN) || negb ((rank_of s =? 0) || (rank_of s =? 7))) squares64 = true /\
  rights_ok p = true /\ ep_ok p = true.
Proof.
  unfold legal_pos, valid_codes. rewrite !andb_true_iff, !Nat.eqb_eq, !N.ltb_lt, negb_true_iff.
  intros (((((((((H1 & H2) & H3) & H4) & H5) & H6) & H7) & H8) & H9) & H10). repeat split; assumption.
Qed.

(* what the generator proofs need of a position *)
Record wfp (p : pos) : Prop := mkwfp {
  wf_len : length (brd p) = 64%nat;
  wf_codes : forall s, In (at_ (brd p) s) valid_codes;
  wf_stm : stm p < 2
}.

Lemma at_in_or_zero' (b : list N) s : at_ b s = 0 \/ In (at_ b s) b.
Proof.
  unfold at_. destruct (Nat.lt_ge_cases (N.to_nat s) (length b)) as [H|H].
  - right. now apply nth_In.
  - left. now apply nth_overflow.
Qed.

Lemma legal_wfp p : legal_pos p = true -> wfp p.
Proof.
  intros H. apply legal_pos_inv in H as (Hl & Hc & _ & _ & Hs & _). constructor; try assumption.
  intros s. destruct (at_in_or_zero' (brd p) s) as [-> | Hin]; [now left|].
  rewrite forallb_forall in Hc. specialize (Hc _ Hin).
  apply existsb_exists in Hc as [x [Hx E]]. apply N.eqb_eq in E. now subst x.
Qed.

Lemma wfp_codes_ok p : wfp p -> codes_ok (brd p).
Proof. intros H s. pose proof (wf_codes p H s) as Hc. cbn in Hc. lia. Qed.

(* a piece code splits into colour and type *)
Lemma piece_split pc : In pc valid_codes -> pc <> 0 ->
  pc = mk_piece (colour_of pc) (type_of pc) /\ colour_of pc < 2 /\ 1 <= type_of pc <= 6.
Proof.
  intros H Hz. unfold valid_codes in H. cbn [In] in H.
  repeat (destruct H as [<-|H]; [try congruence; vm_compute; repeat split; congruence|]). destruct H.
Qed.

Lemma mk_piece_colour c t : t < 8 -> colour_of (mk_piece c t) = c.
Proof.
  intros Ht. unfold colour_of, mk_piece. rewrite N.mul_comm, N.div_add_l by discriminate.
  rewrite N.div_small by exact Ht. lia.
Qed.
Lemma mk_piece_type c t : t < 8 -> type_of (mk_piece c t) = t.
Proof.
  intros Ht. unfold type_of, mk_piece. rewrite N.mul_comm, N.add_comm, N.mod_add by discriminate.
  now apply N.mod_small.
Qed.
Lemma mk_piece_nz' c t : 1 <= t -> mk_piece c t <> 0.
Proof. unfold mk_piece. lia. Qed.

Lemma flipc_lt c : c < 2 -> flipc c = flip c /\ flip c < 2 /\ flip c <> c.
Proof. intros H. assert (c = 0 \/ c = 1) as [-> | ->] by lia; vm_compute; repeat split; congruence. Qed.

(** ** the view words *)
Lemma occ_bb_view p c : c < 2 -> occ_bb (view_of_spec p) c = Some (occ_word (brd p) c).
Proof. intros H. assert (c = 0 \/ c = 1) as [-> | ->] by lia; reflexivity. Qed.

Lemma occ_word_testbit b c t :
  N.testbit (occ_word b c) t = (t <? 64) && (negb (at_ b t =? 0) && (colour_of (at_ b t) =? c)).
Proof. unfold occ_word. now rewrite bb_filter_testbit. Qed.

Lemma occ_word_lt b c : occ_word b c < W64. Proof. apply bb_filter_lt. Qed.
Lemma occ_of_lt b : occ_of b < W64. Proof. apply bb_filter_lt. Qed.
Lemma piece_word_lt b c pt : piece_word b c pt < W64.
Proof. unfold piece_word. destruct (pt =? 0); [vm_compute; reflexivity|apply bb_filter_lt]. Qed.

(* colour tests against the side to move *)
Lemma enemy_iff p t : wfp p ->
  enemy (brd p) (stm p) t = negb (at_ (brd p) t =? 0) && (colour_of (at_ (brd p) t) =? flip (stm p)).
Proof.
  intros H. unfold enemy. destruct (N.eqb_spec (at_ (brd p) t) 0) as [E|E]; cbn [negb andb]; [reflexivity|].
  destruct (piece_split _ (wf_codes p H t) E) as (_ & Hc & _). pose proof (wf_stm p H) as Hs.
  unfold flip. lia.
Qed.

Lemma free_or_enemy_iff b c t : free_or_enemy b c t = (at_ b t =? 0) || enemy b c t.
Proof. unfold free_or_enemy, enemy. destruct (at_ b t =? 0); reflexivity. Qed.

(** ** table lookups *)
Lemma gab_knight s occ : s < 64 -> get_attacks_bb KNIGHT s occ = Some (bb_of (knight_targets s)).
Proof. intros H. unfold get_attacks_bb, KNIGHT, KING, BISHOP, ROOK, QUEEN. cbn [N.eqb Pos.eqb]. now apply knight_attacks_exact. Qed.
Lemma gab_king s occ : s < 64 -> get_attacks_bb KING s occ = Some (bb_of (king_targets s)).
Proof. intros H. unfold get_attacks_bb, KNIGHT, KING, BISHOP, ROOK, QUEEN. cbn [N.eqb Pos.eqb]. now apply king_attacks_exact. Qed.
Lemma gab_bishop s occ : s < 64 -> get_attacks_bb BISHOP s occ = Some (slide bishop_dirs s occ).
Proof. intros H. unfold get_attacks_bb, KNIGHT, KING, BISHOP, ROOK, QUEEN. cbn [N.eqb Pos.eqb]. now apply bishop_attacks_exact. Qed.
Lemma gab_rook s occ : s < 64 -> get_attacks_bb ROOK s occ = Some (slide rook_dirs s occ).
Proof. intros H. unfold get_attacks_bb, KNIGHT, KING, BISHOP, ROOK, QUEEN. cbn [N.eqb Pos.eqb]. now apply rook_attacks_exact. Qed.
Lemma gab_queen s occ : s < 64 -> get_attacks_bb QUEEN s occ = Some (slide (bishop_dirs ++ rook_dirs) s occ).
Proof. intros H. unfold get_attacks_bb, KNIGHT, KING, BISHOP, ROOK, QUEEN. cbn [N.eqb Pos.eqb]. now apply queen_attacks_exact. Qed.

Lemma sq_to_o_some s d : s < 64 -> sq_to_o s (Some d) = Some (opt64 (step d s)).
Proof. intros H. cbn [sq_to_o]. now apply sq_to_exact. Qed.

(* membership in a slide word = membership in the spec's ray list *)
Lemma slide_rays b dirs s t :
  N.testbit (slide dirs s (occ_of b)) t = existsb (N.eqb t) (rays_from b dirs s).
Proof.
  rewrite slide_testbit. unfold slide_in, ray_in, rays_from. rewrite existsb_concat_map.
  apply existsb_ext_in. intros d _. now rewrite walk_walkb.
Qed.

Lemma rays_from_lt b dirs s t : In t (rays_from b dirs s) -> t < 64.
Proof.
  unfold rays_from. intros H. apply in_concat in H as [l [Hl Ht]].
  apply in_map_iff in Hl as [d [<- _]]. rewrite <- walk_walkb in Ht. now apply walk_lt in Ht.
Qed.

(* queen rays: the engine ors bishop and rook attacks, the spec walks all_dirs *)
Lemma queen_rays_in b s t :
  In t (rays_from b (bishop_dirs ++ rook_dirs) s) <-> In t (rays_from b all_dirs s).
Proof.
  unfold rays_from. rewrite !in_concat. split; intros [l [Hl Ht]]; exists l; split; try exact Ht;
    apply in_map_iff in Hl as [d [<- Hd]]; apply in_map_iff; exists d; (split; [reflexivity|]).
  - apply in_all_dirs.
  - destruct d; cbn; tauto.
Qed.

(** ** move codes *)
Lemma mk_code_code f t ty pr : f < 64 -> t < 64 -> ty < 4 -> pr <= 6 ->
  mk_code f t ty pr = code (mkmv f t ty (clamp_prom pr)).
Proof.
  intros Hf Ht Hty Hpr. unfold mk_code.
  pose proof (move_part f t ty pr Hf Ht Hty Hpr) as HM. unfold move_part_ok in HM; cbv zeta in HM.
  repeat rewrite andb_true_iff in HM. destruct HM as ((((((_ & _) & _) & _) & _) & MM) & MC).
  apply N.eqb_eq in MM, MC. now rewrite MM, MC.
Qed.

Lemma mk_code_normal f t : f < 64 -> t < 64 -> mk_code f t NORMAL PT_NONE = code (mkmv f t NORMAL 3).
Proof. intros Hf Ht. now rewrite mk_code_code by (unfold NORMAL, PT_NONE; lia). Qed.

Definition valid_mv (m : mv) : Prop := mfrom m < 64 /\ mto m < 64 /\ mtype m < 4 /\ 3 <= mprom m <= 6.

Lemma code_fields m : valid_mv m ->
  From (code m) = mfrom m /\ To (code m) = mto m /\ MoveType (code m) = mtype m /\ PromotionType (code m) = mprom m.
Proof.
  intros (Hf & Ht & Hty & Hpr). destruct m as [f t ty pr]. cbn [mfrom mto mtype mprom] in *.
  pose proof (move_part f t ty pr Hf Ht Hty ltac:(lia)) as HM. unfold move_part_ok in HM; cbv zeta in HM.
  repeat rewrite andb_true_iff in HM. destruct HM as ((((((MF & MT) & MY) & MP) & _) & _) & MC).
  apply N.eqb_eq in MF, MT, MY, MP, MC.
  assert (Hc : clamp_prom pr = pr) by (unfold clamp_prom, KNIGHT; destruct (N.ltb_spec pr 3); lia).
  rewrite Hc in *. rewrite MC. auto.
Qed.

Lemma code_inj m m' : valid_mv m -> valid_mv m' -> code m = code m' -> m = m'.
Proof.
  intros H H' E. destruct (code_fields m H) as (A1 & A2 & A3 & A4).
  destruct (code_fields m' H') as (B1 & B2 & B3 & B4). rewrite E in *.
  destruct m as [f t ty pr], m' as [f' t' ty' pr']. cbn [mfrom mto mtype mprom] in *. congruence.
Qed.

(** ** steps (finite facts) *)
Lemma step_some_lt d s t : step d s = Some t -> t < 64. Proof. apply step_lt. Qed.

Lemma opt64_some d s t : step d s = Some t -> opt64 (step d s) = t.
Proof. now intros ->. Qed.

Lemma step_back d s t : s < 64 -> step d s = Some t -> opt64 (step (opp d) t) = s.
Proof.
  intros Hs E. assert (Ht : t < 64) by now apply step_lt in E.
  apply (step_opp d s t Hs Ht) in E. now rewrite E.
Qed.
