(** * EvalProofsA: C15 (static evaluation) - part A.
    (1) the float64 interpolation of ValueFromScore is an odd function (IEEE-754 round to
        nearest even and truncation toward zero are sign-symmetric) - proved on Coq's
        primitive floats through their specification [Prim2SF] (FloatAxioms.mul_spec/opp_spec);
    (2) re-indexing of sums / existentials over the 64 squares by the vertical flip;
    (3) the mirrored board, validity of piece codes, symmetry of the dumped piece-square
        tables (finite check), range of the table look-ups;
    (4) the recomputed inputs (material, psq sums, game phase, piece counts) and
        HasInsufficientMaterial under [Rules.mirror]. *)
From Coq Require Import NArith ZArith List Bool Lia Floats Uint63.
From FG Require Import Geom Rules FenSpec EvalImpl.
From FG.gen Require Import Tables_gen.
Import ListNotations.
Open Scope Z_scope.

(** ** float64: the interpolation is odd *)
Lemma SFtrunc_opp x : SFtrunc (SFopp x) = - SFtrunc x.
Proof. destruct x as [s| s| |s m e]; cbn [SFopp SFtrunc]; try reflexivity. destruct s; cbn [negb]; lia. Qed.

Lemma bra_negb prec emax s m e l :
  binary_round_aux prec emax (negb s) m e l = SFopp (binary_round_aux prec emax s m e l).
Proof.
  unfold binary_round_aux.
  destruct (shr_fexp prec emax m e l) as [mrs' e'].
  destruct (shr_fexp prec emax (round_nearest_even (shr_m mrs') (loc_of_shr_record mrs')) e' loc_Exact) as [mrs'' e''].
  destruct (shr_m mrs''); cbn [SFopp]; try reflexivity.
  destruct (e'' <=? emax - prec); reflexivity.
Qed.

Lemma SFmul_opp_l prec emax x y : SFmul prec emax (SFopp x) y = SFopp (SFmul prec emax x y).
Proof.
  destruct x as [sx| sx| |sx mx ex], y as [sy| sy| |sy my ey]; cbn [SFopp SFmul]; try reflexivity;
    try (destruct sx, sy; reflexivity).
  replace (xorb (negb sx) sy) with (negb (xorb sx sy)) by (destruct sx, sy; reflexivity).
  apply bra_negb.
Qed.

Lemma Ftrunc_mul_opp x g : Ftrunc (PrimFloat.mul (PrimFloat.opp x) g) = - Ftrunc (PrimFloat.mul x g).
Proof.
  unfold Ftrunc. rewrite !FloatAxioms.mul_spec, FloatAxioms.opp_spec.
  unfold SF64mul. rewrite SFmul_opp_l. apply SFtrunc_opp.
Qed.

Lemma Ftrunc_zero_mul g : Ftrunc (PrimFloat.mul (ZtoF 0) g) = 0.
Proof.
  unfold Ftrunc. rewrite FloatAxioms.mul_spec.
  replace (Prim2SF (ZtoF 0)) with (S754_zero false) by (vm_compute; reflexivity).
  unfold SF64mul. destruct (Prim2SF g); reflexivity.
Qed.

Lemma ZtoF_opp m : m <> 0 -> ZtoF (- m) = PrimFloat.opp (ZtoF m) \/ ZtoF m = PrimFloat.opp (ZtoF (- m)).
Proof.
  intros Hm. unfold ZtoF.
  destruct (Z.ltb_spec m 0), (Z.ltb_spec (- m) 0); try lia.
  - right. reflexivity.
  - left. rewrite Z.opp_involutive. reflexivity.
Qed.

Lemma fterm_odd m g : Ftrunc (PrimFloat.mul (ZtoF (- m)) g) = - Ftrunc (PrimFloat.mul (ZtoF m) g).
Proof.
  destruct (Z.eq_dec m 0) as [->|Hm].
  - cbn [Z.opp]. rewrite Ftrunc_zero_mul. reflexivity.
  - destruct (ZtoF_opp m Hm) as [E|E]; rewrite E, Ftrunc_mul_opp; lia.
Qed.

Theorem interp_odd m e g : interp (- m) (- e) g = - interp m e g.
Proof. unfold interp. rewrite !fterm_odd. lia. Qed.

(** ** squares *)
Lemma in_sq64 s : In s squares64 <-> (s < 64)%N.
Proof.
  unfold squares64. rewrite in_map_iff. split.
  - intros [n [<- Hn]]. apply in_seq in Hn. lia.
  - intros H. exists (N.to_nat s). split; [apply N2Nat.id|]. apply in_seq. lia.
Qed.
Lemma forall_sq (P : N -> bool) : forallb P squares64 = true -> forall s, (s < 64)%N -> P s = true.
Proof. intros H s Hs. rewrite forallb_forall in H. apply H, in_sq64, Hs. Qed.
Lemma forall_sq2 (P : N -> N -> bool) :
  forallb (fun s => forallb (P s) squares64) squares64 = true ->
  forall s t, (s < 64)%N -> (t < 64)%N -> P s t = true.
Proof. intros H s t Hs Ht. apply (forall_sq (P s)); [|exact Ht]. apply (forall_sq _ H s Hs). Qed.

Definition sum64 (f : N -> Z) : Z := fold_right (fun s acc => f s + acc) 0 squares64.

Lemma sq64_explicit : squares64 =
  [0;1;2;3;4;5;6;7;8;9;10;11;12;13;14;15;16;17;18;19;20;21;22;23;24;25;26;27;28;29;30;31;
   32;33;34;35;36;37;38;39;40;41;42;43;44;45;46;47;48;49;50;51;52;53;54;55;56;57;58;59;60;61;62;63]%N.
Proof. reflexivity. Qed.
Lemma msq64_explicit : map mirror_sq squares64 =
  [56;57;58;59;60;61;62;63;48;49;50;51;52;53;54;55;40;41;42;43;44;45;46;47;32;33;34;35;36;37;38;39;
   24;25;26;27;28;29;30;31;16;17;18;19;20;21;22;23;8;9;10;11;12;13;14;15;0;1;2;3;4;5;6;7]%N.
Proof. reflexivity. Qed.

Lemma fold_map_sum (f : N -> Z) (g : N -> N) l :
  fold_right (fun s acc => f (g s) + acc) 0 l = fold_right (fun s acc => f s + acc) 0 (map g l).
Proof. induction l as [|a l IH]; cbn [map fold_right]; [reflexivity|]. rewrite IH. reflexivity. Qed.

Lemma sum64_mirror f : sum64 (fun s => f (mirror_sq s)) = sum64 f.
Proof.
  unfold sum64. rewrite (fold_map_sum f mirror_sq), msq64_explicit, sq64_explicit.
  cbn [fold_right]. lia.
Qed.

Lemma sum64_ext f g : (forall s, (s < 64)%N -> f s = g s) -> sum64 f = sum64 g.
Proof.
  intros H. unfold sum64.
  assert (G : forall l, (forall s, In s l -> (s < 64)%N) ->
          fold_right (fun s acc => f s + acc) 0 l = fold_right (fun s acc => g s + acc) 0 l).
  { induction l as [|a l IH]; intros Hl; cbn [fold_right]; [reflexivity|].
    rewrite IH, H; [reflexivity| apply Hl; left; reflexivity | intros s Hs; apply Hl; right; exact Hs]. }
  apply G. intros s Hs. apply in_sq64, Hs.
Qed.

Lemma msq_lt s : (s < 64)%N -> (mirror_sq s < 64)%N.
Proof.
  intros Hs. apply N.ltb_lt.
  apply (forall_sq (fun s => (mirror_sq s <? 64)%N)); [vm_compute; reflexivity | exact Hs].
Qed.
Lemma msq_inv s : (s < 64)%N -> mirror_sq (mirror_sq s) = s.
Proof.
  intros Hs. apply N.eqb_eq.
  apply (forall_sq (fun s => (mirror_sq (mirror_sq s) =? s)%N)); [vm_compute; reflexivity | exact Hs].
Qed.

Lemma sum64_mirror_ext f g : (forall s, (s < 64)%N -> f (mirror_sq s) = g s) -> sum64 f = sum64 g.
Proof. intros H. rewrite <- (sum64_mirror f). apply sum64_ext, H. Qed.

Lemma existsb_sq_ext f g : (forall s, (s < 64)%N -> f s = g s) -> existsb f squares64 = existsb g squares64.
Proof.
  intros H. apply eq_true_iff_eq. rewrite !existsb_exists.
  split; intros [x [Hx Hf]]; exists x; (split; [exact Hx|]); apply in_sq64 in Hx;
    [rewrite <- H | rewrite H]; assumption.
Qed.
Lemma existsb_sq_mirror f : existsb (fun s => f (mirror_sq s)) squares64 = existsb f squares64.
Proof.
  apply eq_true_iff_eq. rewrite !existsb_exists. split; intros [x [Hx Hf]]; apply in_sq64 in Hx.
  - exists (mirror_sq x). split; [apply in_sq64, msq_lt, Hx | exact Hf].
  - exists (mirror_sq x). split; [apply in_sq64, msq_lt, Hx |]. rewrite msq_inv; assumption.
Qed.
Lemma existsb_sq_mirror_ext f g : (forall s, (s < 64)%N -> f (mirror_sq s) = g s) ->
  existsb f squares64 = existsb g squares64.
Proof. intros H. rewrite <- (existsb_sq_mirror f). apply existsb_sq_ext, H. Qed.

Lemma bsum_sum64 f p : bsum f p = sum64 (fun s => f (piece_at p s) s).
Proof. reflexivity. Qed.
Lemma popcnt_sum64 f : popcnt f = sum64 (fun t => if f t then 1 else 0).
Proof. reflexivity. Qed.
Lemma popcnt_ext f g : (forall t, (t < 64)%N -> f t = g t) -> popcnt f = popcnt g.
Proof. intros H. rewrite !popcnt_sum64. apply sum64_ext. intros t Ht. rewrite H by exact Ht. reflexivity. Qed.
Lemma popcnt_mirror_ext f g : (forall t, (t < 64)%N -> f (mirror_sq t) = g t) -> popcnt f = popcnt g.
Proof. intros H. rewrite !popcnt_sum64. apply sum64_mirror_ext. intros t Ht. rewrite H by exact Ht. reflexivity. Qed.

(** ** the mirrored board *)
Lemma nth_sq64 s : (s < 64)%N -> nth (N.to_nat s) squares64 0%N = s.
Proof.
  intros Hs. unfold squares64.
  change 0%N with (N.of_nat 0). rewrite map_nth, seq_nth by lia. cbn. apply N2Nat.id.
Qed.

Lemma piece_at_mirror p s : (s < 64)%N -> piece_at (mirror p) s = mirror_piece (piece_at p (mirror_sq s)).
Proof.
  intros Hs. unfold piece_at at 1. unfold at_, mirror. cbn [brd].
  set (g := fun s0 => mirror_piece (piece_at p (mirror_sq s0))).
  rewrite (nth_indep _ 0%N (g 0%N)) by (rewrite map_length; change (length squares64) with 64%nat; lia).
  rewrite map_nth, nth_sq64 by exact Hs. reflexivity.
Qed.

Definition valid_codes : list N := [0;1;2;3;4;5;6;9;10;11;12;13;14]%N.
Lemma valid_code_in pc : valid_code pc = true -> In pc valid_codes.
Proof.
  unfold valid_code. rewrite existsb_exists. intros [x [Hx E]]. apply N.eqb_eq in E. subst. exact Hx.
Qed.
Lemma forall_valid (P : N -> bool) : forallb P valid_codes = true -> forall pc, valid_code pc = true -> P pc = true.
Proof. intros H pc Hpc. rewrite forallb_forall in H. apply H, valid_code_in, Hpc. Qed.

Lemma pos_ok_valid p s : pos_ok p = true -> (s < 64)%N -> valid_code (piece_at p s) = true.
Proof.
  unfold pos_ok. rewrite !andb_true_iff. intros [[HL HV] _] Hs.
  apply Nat.eqb_eq in HL. rewrite forallb_forall in HV. apply HV.
  unfold piece_at, at_. apply nth_In. lia.
Qed.

Lemma legal_pos_ok p : legal_pos p = true -> pos_ok p = true.
Proof.
  unfold legal_pos, pos_ok. rewrite !andb_true_iff.
  intros [[[[[[[[[HL HV] _] _] Hstm] _] _] _] _] _]. repeat split; try assumption.
Qed.

Lemma mirror_piece_valid pc : valid_code pc = true -> valid_code (mirror_piece pc) = true.
Proof. apply (forall_valid (fun pc => valid_code (mirror_piece pc))). vm_compute. reflexivity. Qed.

Lemma pos_ok_mirror p : pos_ok p = true -> pos_ok (mirror p) = true.
Proof.
  intros H. pose proof H as H0. unfold pos_ok in H |- *. rewrite !andb_true_iff in *.
  destruct H as [[HL HV] Hs]. repeat split.
  - unfold mirror. cbn [brd]. rewrite forallb_forall. intros x Hx. apply in_map_iff in Hx.
    destruct Hx as [s [<- Hs']]. apply in_sq64 in Hs'.
    apply mirror_piece_valid, pos_ok_valid; [exact H0 | apply msq_lt, Hs'].
  - unfold mirror. cbn [stm]. apply N.ltb_lt in Hs. apply N.ltb_lt. unfold flip. lia.
Qed.

Lemma bsum_ext p f g : pos_ok p = true ->
  (forall pc s, valid_code pc = true -> (s < 64)%N -> f pc s = g pc s) -> bsum f p = bsum g p.
Proof.
  intros Hp H. rewrite !bsum_sum64. apply sum64_ext. intros s Hs. apply H; [apply pos_ok_valid|]; assumption.
Qed.

(* the central re-indexing lemma *)
Lemma bsum_mirror p f g : pos_ok p = true ->
  (forall pc s, valid_code pc = true -> (s < 64)%N -> f (mirror_piece pc) (mirror_sq s) = g pc s) ->
  bsum f (mirror p) = bsum g p.
Proof.
  intros Hp H. rewrite !bsum_sum64. apply sum64_mirror_ext. intros s Hs.
  rewrite piece_at_mirror, msq_inv by (try apply msq_lt; exact Hs).
  apply H; [apply pos_ok_valid|]; assumption.
Qed.

(** ** finite facts about codes *)
Definition two : list N := [0; 1]%N.
Lemma forall_two (P : N -> bool) : forallb P two = true -> forall c, (c < 2)%N -> P c = true.
Proof.
  intros H c Hc. rewrite forallb_forall in H. apply H.
  assert (c = 0 \/ c = 1)%N as [-> | ->] by lia; cbn; auto.
Qed.

Lemma type_of_mirror pc : valid_code pc = true -> type_of (mirror_piece pc) = type_of pc.
Proof. intros H. apply N.eqb_eq. revert pc H. apply forall_valid. vm_compute. reflexivity. Qed.

Lemma is_col_mirror pc c : valid_code pc = true -> (c < 2)%N -> is_col (mirror_piece pc) c = is_col pc (flip c).
Proof.
  intros Hp Hc. apply eqb_true_iff.
  revert c Hc. apply (forall_two (fun c => Bool.eqb (is_col (mirror_piece pc) c) (is_col pc (flip c)))).
  revert pc Hp. apply forall_valid. vm_compute. reflexivity.
Qed.

Lemma is_zero_mirror pc : valid_code pc = true -> (mirror_piece pc =? 0)%N = (pc =? 0)%N.
Proof. intros H. apply eqb_true_iff. revert pc H. apply forall_valid. vm_compute. reflexivity. Qed.

Definition types6 : list N := [1;2;3;4;5;6]%N.
Lemma eq_piece_mirror pc c t : valid_code pc = true -> (c < 2)%N -> In t types6 ->
  (mirror_piece pc =? mk_piece c t)%N = (pc =? mk_piece (flip c) t)%N.
Proof.
  intros Hp Hc Ht. apply eqb_true_iff.
  assert (G : forallb (fun t => forallb (fun c => forallb (fun pc =>
            Bool.eqb (mirror_piece pc =? mk_piece c t)%N (pc =? mk_piece (flip c) t)%N) valid_codes) two) types6 = true)
    by (vm_compute; reflexivity).
  rewrite forallb_forall in G. specialize (G t Ht).
  pose proof (forall_two _ G c Hc) as G2. cbv beta in G2.
  exact (forall_valid _ G2 pc Hp).
Qed.

(** ** table symmetry (finite check on the dumped tables) and range of the look-ups *)
Lemma lookups_in_range pc s : valid_code pc = true -> (s < 64)%N ->
  tblZ c_piece_type_value (type_of pc) <> None /\ tblZ c_game_phase_value (type_of pc) <> None /\
  tbl2 c_psq_mid pc s <> None /\ tbl2 c_psq_end pc s <> None.
Proof.
  intros Hp Hs.
  assert (G : forallb (fun pc => forallb (fun s =>
      match tblZ c_piece_type_value (type_of pc), tblZ c_game_phase_value (type_of pc),
            tbl2 c_psq_mid pc s, tbl2 c_psq_end pc s with
      | Some _, Some _, Some _, Some _ => true | _, _, _, _ => false end) squares64) valid_codes = true)
    by (vm_compute; reflexivity).
  pose proof (forall_sq _ (forall_valid _ G pc Hp) s Hs) as G2. cbv beta in G2.
  destruct (tblZ c_piece_type_value (type_of pc)), (tblZ c_game_phase_value (type_of pc)),
    (tbl2 c_psq_mid pc s), (tbl2 c_psq_end pc s); try discriminate; repeat split; discriminate.
Qed.

Lemma psq_symmetric pc s : valid_code pc = true -> (s < 64)%N ->
  psq_mid_v (mirror_piece pc) (mirror_sq s) = psq_mid_v pc s /\
  psq_end_v (mirror_piece pc) (mirror_sq s) = psq_end_v pc s.
Proof.
  intros Hp Hs.
  assert (G : forallb (fun pc => forallb (fun s =>
      (psq_mid_v (mirror_piece pc) (mirror_sq s) =? psq_mid_v pc s) &&
      (psq_end_v (mirror_piece pc) (mirror_sq s) =? psq_end_v pc s)) squares64) valid_codes = true)
    by (vm_compute; reflexivity).
  pose proof (forall_sq _ (forall_valid _ G pc Hp) s Hs) as G2. cbv beta in G2.
  apply andb_true_iff in G2. destruct G2 as [A B]. split; apply Z.eqb_eq; assumption.
Qed.

(** ** the recomputed inputs *)
Section Inputs.
Variable p : pos.
Hypothesis Hp : pos_ok p = true.

Lemma material_mirror c : (c < 2)%N -> material (mirror p) c = material p (flip c).
Proof.
  intros Hc. unfold material. apply bsum_mirror; [exact Hp|]. intros pc s Hv Hs.
  rewrite is_col_mirror, type_of_mirror by assumption. reflexivity.
Qed.
Lemma material_np_mirror c : (c < 2)%N -> material_np (mirror p) c = material_np p (flip c).
Proof.
  intros Hc. unfold material_np. apply bsum_mirror; [exact Hp|]. intros pc s Hv Hs.
  rewrite is_col_mirror, type_of_mirror by assumption. reflexivity.
Qed.
Lemma psq_mid_mirror c : (c < 2)%N -> psq_mid (mirror p) c = psq_mid p (flip c).
Proof.
  intros Hc. unfold psq_mid. apply bsum_mirror; [exact Hp|]. intros pc s Hv Hs.
  rewrite is_col_mirror by assumption. rewrite (proj1 (psq_symmetric pc s Hv Hs)). reflexivity.
Qed.
Lemma psq_end_mirror c : (c < 2)%N -> psq_end (mirror p) c = psq_end p (flip c).
Proof.
  intros Hc. unfold psq_end. apply bsum_mirror; [exact Hp|]. intros pc s Hv Hs.
  rewrite is_col_mirror by assumption. rewrite (proj2 (psq_symmetric pc s Hv Hs)). reflexivity.
Qed.
Lemma game_phase_mirror : game_phase (mirror p) = game_phase p.
Proof.
  unfold game_phase. f_equal. apply bsum_mirror; [exact Hp|]. intros pc s Hv Hs.
  rewrite type_of_mirror by assumption. reflexivity.
Qed.
Lemma count_pt_mirror c t : (c < 2)%N -> In t types6 -> count_pt (mirror p) c t = count_pt p (flip c) t.
Proof.
  intros Hc Ht. unfold count_pt. apply bsum_mirror; [exact Hp|]. intros pc s Hv Hs.
  rewrite eq_piece_mirror by assumption. reflexivity.
Qed.

Lemma insufficient_mirror : insufficient_material (mirror p) = insufficient_material p.
Proof.
  unfold insufficient_material.
  rewrite !material_mirror, !material_np_mirror, !count_pt_mirror by (try (cbn; tauto); reflexivity).
  change (flip WHITE) with BLACK. change (flip BLACK) with WHITE.
  set (npw := material_np p WHITE). set (npb := material_np p BLACK).
  set (nv := pt_value KNIGHT). set (bv := pt_value BISHOP).
  rewrite (Z.add_comm (material p BLACK)).
  rewrite (andb_comm (count_pt p BLACK PAWN =? 0)).
  rewrite (andb_comm (npb <? 400)).
  rewrite (orb_comm ((npb =? 2 * nv) && (npw <=? bv))).
  rewrite (orb_comm ((npb =? 2 * bv) && (npw =? bv))).
  rewrite (orb_comm (npb =? 2 * bv)).
  rewrite (orb_comm ((2 * nv <=? npb) && (npb <? 2 * bv) && ((0 <? npw) && (npw <=? bv)))).
  rewrite (andb_comm ((0 <? npb) && (npb <=? bv))).
  rewrite (andb_comm ((2 * nv <=? npb) && (npb <? 2 * bv))).
  reflexivity.
Qed.
End Inputs.
