(** * MovegenExamples: non-vacuity of the move generator model (C01, C08): the model evaluated
      by [vm_compute] on concrete positions (the numbers are those of the real engine). *)
From Coq Require Import NArith ZArith List Bool.
From FG Require Import Word64 Geom Tables Rules FenSpec Oracle BitView AttacksImpl MoveEnc MovegenImpl.
Import ListNotations.
Open Scope N_scope.

Definition fen_start : str := [114;110;98;113;107;98;110;114;47;112;112;112;112;112;112;112;112;47;56;47;56;47;56;47;56;47;80;80;80;80;80;80;80;80;47;82;78;66;81;75;66;78;82;32;119;32;75;81;107;113;32;45;32;48;32;49]. (* rnbqkbnr/pppppppp/8/8/8/8/PPPPPPPP/RNBQKBNR w KQkq - 0 1 *)
Definition fen_kiwipete : str := [114;51;107;50;114;47;112;49;112;112;113;112;98;49;47;98;110;50;112;110;112;49;47;51;80;78;51;47;49;112;50;80;51;47;50;78;50;81;49;112;47;80;80;80;66;66;80;80;80;47;82;51;75;50;82;32;119;32;75;81;107;113;32;45;32;48;32;49]. (* r3k2r/p1ppqpb1/bn2pnp1/3PN3/1p2P3/2N2Q1p/PPPBBPPP/R3K2R w KQkq - 0 1 *)
Definition fen_promo : str := [110;49;110;53;47;80;80;80;107;52;47;56;47;56;47;56;47;56;47;52;75;112;112;112;47;53;78;49;78;32;98;32;45;32;45;32;48;32;49]. (* n1n5/PPPk4/8/8/8/8/4Kppp/5N1N b - - 0 1 *)
Definition fen_ep : str := [114;110;98;113;107;98;110;114;47;112;112;112;49;112;112;112;112;47;56;47;56;47;51;112;80;51;47;56;47;80;80;80;80;49;80;80;80;47;82;78;66;81;75;66;78;82;32;98;32;75;81;107;113;32;101;51;32;48;32;50]. (* rnbqkbnr/ppp1pppp/8/8/3pP3/8/PPPP1PPP/RNBQKBNR b KQkq e3 0 2 *)
Definition fen_check : str := [114;110;98;49;107;98;110;114;47;112;112;49;112;112;112;112;112;47;56;47;113;49;112;53;47;56;47;51;80;52;47;80;80;80;75;80;80;80;80;47;82;78;66;81;49;66;78;82;32;119;32;107;113;32;45;32;48;32;49]. (* rnb1kbnr/pp1ppppp/8/q1p5/8/3P4/PPPKPPPP/RNBQ1BNR w kq - 0 1 *)

Definition count_gen (fen : str) (mode : N) (evasion prom_nq : bool) : option nat :=
  match parse fen with
  | Some p => match gen_pseudo prom_nq (view_of_spec p) mode evasion with Some l => Some (length l) | None => None end
  | None => None end.

(* the model's pseudo-legal list = the specification's, and the legal count *)
Definition agrees (fen : str) : bool :=
  match parse fen with
  | Some p => legal_pos p &&
              match gen_pseudo true (view_of_spec p) 3 false with
              | Some l => list_eqb (sort l) (pseudo_codes p) | None => false end
  | None => false end.
Definition count_legal (fen : str) : option nat :=
  match parse fen with
  | Some p => match gen_legal true (spec_legal_code p) (view_of_spec p) 3 with Some l => Some (length l) | None => None end
  | None => None end.

Example start_20 : count_gen fen_start 3 false true = Some 20%nat /\ agrees fen_start = true.
Proof. vm_compute. split; reflexivity. Qed.
Example kiwipete_48 : count_gen fen_kiwipete 3 false true = Some 48%nat /\ agrees fen_kiwipete = true /\
                      count_legal fen_kiwipete = Some 48%nat.
Proof. vm_compute. repeat split; reflexivity. Qed.
(* eight non-quiet moves (captures) + 40 quiet ones *)
Example kiwipete_modes : count_gen fen_kiwipete 1 false true = Some 8%nat /\ count_gen fen_kiwipete 2 false true = Some 40%nat.
Proof. vm_compute. split; reflexivity. Qed.
(* promotions: 25 pseudo-legal moves, 24 legal; with UsePromNonQuiet the queen / knight push
   promotions (here one promoting pawn push: 2 moves) move from the quiet to the non-quiet mode *)
Example promo_position : count_gen fen_promo 3 false true = Some 25%nat /\ agrees fen_promo = true /\
  count_legal fen_promo = Some 24%nat /\
  count_gen fen_promo 1 false true = Some 13%nat /\ count_gen fen_promo 1 false false = Some 11%nat /\
  count_gen fen_promo 2 false true = Some 12%nat /\ count_gen fen_promo 2 false false = Some 14%nat.
Proof. vm_compute. repeat split; reflexivity. Qed.
(* en passant: d4xe3 (code 35219 = to e3 20 + 64 * from d4 27 + 16384 * 2) is generated *)
Example ep_position : agrees fen_ep = true /\
  match parse fen_ep with
  | Some p => match gen_pseudo true (view_of_spec p) 1 false with
              | Some l => existsb (N.eqb (20 + 64 * 27 + 16384 * 2)) l | None => false end
  | None => false end = true.
Proof. vm_compute. split; reflexivity. Qed.
(* in check (queen a5 against king d2): 5 evasion moves out of 23 pseudo-legal ones, 4 legal *)
Example check_position : agrees fen_check = true /\ count_gen fen_check 3 false true = Some 23%nat /\
  count_gen fen_check 3 true true = Some 5%nat /\ count_legal fen_check = Some 4%nat.
Proof. vm_compute. repeat split; reflexivity. Qed.

(* HasLegalMove *)
Example has_legal_examples :
  has_legal_case_ok fen_start true = true /\ has_legal_case_ok fen_check true = true.
Proof. vm_compute. split; reflexivity. Qed.

(* the on demand generator with PV move e2e4 (796) and killers g1f3 (405), b1c3 (82):
   same multiset as the batch list, PV move first *)
Definition od_example (fen : str) (mode : N) (pv k0 k1 : N) : option (list N * list N) :=
  match parse fen with
  | Some p =>
      let v := view_of_spec p in
      let env := chess_env true v 1 simple_sort in
      let st := od_store_killer (od_store_killer (od_set_pv (od_reset od_new) pv) k1) k0 in
      match od_drain 600 env mode false st, gen_pseudo true v mode false with
      | Some (_, out), Some l => Some (out, l)
      | _, _ => None end
  | None => None end.

Example od_start :
  match od_example fen_start 3 796 405 82 with
  | Some (out, l) => list_eqb (sort out) (sort l) && (hd 0 out =? 796) && (length out =? 20)%nat
  | None => false end = true.
Proof. vm_compute. reflexivity. Qed.
Example od_kiwipete_nonquiet :   (* PV move e2a6 = 40 + 64 * 12 = 808, a capture *)
  match od_example fen_kiwipete 1 808 405 82 with
  | Some (out, l) => list_eqb (sort out) (sort l) && (hd 0 out =? 808) && (length out =? 8)%nat
  | None => false end = true.
Proof. vm_compute. reflexivity. Qed.

(** The evasion corner of movegen.go:283 (refill with evasion = false).
    Black is in check; the evasion batch list is [e8f7 (3893); e8d8 (3899)], both king captures
    (stage od3, the one stage without updateSortValues).  With PV move e8d8 the phased generator
    hands out e8d8 first, then e8f7 from od3, skips the PV move as LAST move of od3 and refills
    with evasion = false: the quiet pawn moves f4f3, f2f1R, g2g1R, f2f1B, g2g1B are handed out
    although they do not evade the check.  The model reproduces the engine's exact sequence. *)
Definition fen_refill : str := [51;66;107;51;47;49;75;51;82;49;98;47;50;81;53;47;54;80;98;47;51;80;49;112;50;47;80;50;80;50;110;49;47;53;112;112;49;47;52;113;51;32;98;32;45;32;45;32;52;32;51;56]. (* 3Bk3/1K3R1b/2Q5/6Pb/3P1p2/P2P2n1/5pp1/4q3 b - - 4 38 *)

Example refill_corner_engine_sequence :
  od_case_gp_ok fen_refill 14 3 true true 3899 3899 3893 [3899; 3893; 1877; 25413; 25478; 21317; 21382] = true /\
  od_case_ok fen_refill 3 true true 3899 3899 3893 3899 [1877; 3893; 3899; 21317; 21382; 25413; 25478] = true.
Proof. vm_compute. split; reflexivity. Qed.

(* the batch evasion list has two moves only: the phased list is a strict superset, still
   within the non-evasion list, and without duplicates (as od_chess_evasion states) *)
Example refill_corner_batch :
  match parse fen_refill with
  | Some p => match gen_pseudo true (view_of_spec p) 3 true with Some l => sort l | None => [] end
  | None => [] end = [3893; 3899].
Proof. vm_compute. reflexivity. Qed.

(* without a PV move the phased evasion drain equals the batch evasion list *)
Example refill_corner_no_pv : od_case_gp_ok fen_refill 14 3 true true 0 0 0 [3893; 3899] = true.
Proof. vm_compute. reflexivity. Qed.
