(** * Oracle: entry points of the extracted differential oracle.
    Each [check_*] takes what the real engine reported for one input (an observation
    record written by the Go harness) and returns the list of disagreement kinds between
    the engine and the rules specification ([] = agreement). *)
From Coq Require Import NArith List Bool.
From FG Require Import Geom Rules FenSpec.
Import ListNotations.
Open Scope N_scope.

Fixpoint insert (x : N) (l : list N) : list N :=
  match l with
  | [] => [x]
  | y :: r => if x <=? y then x :: l else y :: insert x r
  end.
Definition sort (l : list N) : list N := fold_right insert [] l.

Fixpoint list_eqb (a b : list N) : bool :=
  match a, b with
  | [], [] => true
  | x :: a', y :: b' => (x =? y) && list_eqb a' b'
  | _, _ => false
  end.

Definition legal_codes (p : pos) : list N := sort (map code (legal p)).
Definition pseudo_codes (p : pos) : list N := sort (map code (pseudo p)).

Definition find_move (p : pos) (c : N) : option mv :=
  find (fun m => code m =? c) (pseudo p).

(** the engine's two en-passant conventions (C09) *)
(* IsAttacked: the pawn that has just made a double step counts as attacked by [byc]
   when a [byc] pawn stands next to it on the same rank *)
Definition ep_conv1 (p : pos) (s byc : N) : bool :=
  if ep p =? 64 then false else
  let ps := if byc =? WHITE then ep p - 8 else ep p + 8 in
  (s =? ps) && (piece_at p ps =? mk_piece (flip byc) PAWN) &&
  (((0 <? file_of s) && (piece_at p (s - 1) =? mk_piece byc PAWN)) ||
   ((file_of s <? 7) && (piece_at p (s + 1) =? mk_piece byc PAWN))).

(* AttacksTo on the en-passant target square: the square of the capturable pawn is marked
   as well when a pawn of colour [c] stands next to it (as computed by the engine for
   either colour; see DESIGN.md section 9) *)
Definition ep_conv2 (p : pos) (s c : N) : list N :=
  if (ep p =? 64) || negb (s =? ep p) then [] else
  let ps := if c =? WHITE then ep p - 8 else ep p + 8 in
  if (ps <? 64) &&
     (((0 <? file_of ps) && (piece_at p (ps - 1) =? mk_piece c PAWN)) ||
      ((file_of ps <? 7) && (piece_at p (ps + 1) =? mk_piece c PAWN)))
  then [ps] else [].

Definition is_attacked_spec (p : pos) (s byc : N) : bool := attacked (brd p) s byc || ep_conv1 p s byc.
Definition attacks_to_spec (p : pos) (s c : N) : N :=
  N.lor (bb_of (attackers (brd p) s c)) (bb_of (ep_conv2 p s c)).

Definition attacked_map (p : pos) (byc : N) : list bool := map (fun s => is_attacked_spec p s byc) squares64.

Fixpoint bools_eqb (a b : list bool) : bool :=
  match a, b with
  | [], [] => true
  | x :: a', y :: b' => Bool.eqb x y && bools_eqb a' b'
  | _, _ => false
  end.

(** observation of one pseudo-legal move *)
Record obs_move := mk_obs_move {
  om_code : N; om_gives_check : bool; om_legal_pre : bool; om_legal_post : bool;
  om_fen_after : str  (* empty when the move is not legal *)
}.

Record obs_pos := mk_obs_pos {
  o_fen : str;
  o_legal : list N;          (* sorted 16-bit codes of GenerateLegalMoves *)
  o_pseudo : list N;         (* sorted codes of GeneratePseudoLegalMoves(GenAll, no evasion) *)
  o_check : bool;            (* HasCheck *)
  o_att_w : list bool;       (* IsAttacked(sq, White) for the 64 squares *)
  o_att_b : list bool;
  o_has_legal : bool;        (* HasLegalMove *)
  o_moves : list obs_move;
  o_attackers : list (N * N * N)   (* (square, colour, AttacksTo bitboard) samples *)
}.

Definition K_PARSE := 1. Definition K_NOT_LEGAL_POS := 2. Definition K_LEGAL := 3.
Definition K_PSEUDO := 4. Definition K_CHECK := 5. Definition K_ATTACKED := 6.
Definition K_GIVES_CHECK := 7. Definition K_LEGAL_PRE := 8. Definition K_LEGAL_POST := 9.
Definition K_SUCCESSOR := 10. Definition K_HAS_LEGAL := 11. Definition K_ATTACKERS := 12.
Definition K_UNKNOWN_MOVE := 13. Definition K_FEN_PRINT := 14.

Definition check_move (p : pos) (o : obs_move) : list N :=
  match find_move p (om_code o) with
  | None => [K_UNKNOWN_MOVE]
  | Some m =>
      let lg := is_legal p m in
      (if Bool.eqb (om_legal_pre o) lg then [] else [K_LEGAL_PRE]) ++
      (if Bool.eqb (om_legal_post o) lg then [] else [K_LEGAL_POST]) ++
      (if lg then
         (if Bool.eqb (om_gives_check o) (gives_check p m) then [] else [K_GIVES_CHECK]) ++
         (if str_eqb (om_fen_after o) (print (make p m)) then [] else [K_SUCCESSOR])
       else [])
  end.

Definition check_pos (o : obs_pos) : list N :=
  match parse (o_fen o) with
  | None => [K_PARSE]
  | Some p =>
      if negb (legal_pos p) then [K_NOT_LEGAL_POS] else
      (if str_eqb (print p) (o_fen o) then [] else [K_FEN_PRINT]) ++
      (if list_eqb (legal_codes p) (o_legal o) then [] else [K_LEGAL]) ++
      (if list_eqb (pseudo_codes p) (o_pseudo o) then [] else [K_PSEUDO]) ++
      (if Bool.eqb (in_check p) (o_check o) then [] else [K_CHECK]) ++
      (if bools_eqb (attacked_map p WHITE) (o_att_w o) && bools_eqb (attacked_map p BLACK) (o_att_b o) then [] else [K_ATTACKED]) ++
      (if Bool.eqb (o_has_legal o) (negb (match legal p with [] => true | _ => false end)) then [] else [K_HAS_LEGAL]) ++
      (if forallb (fun '(s, c, bb) => attacks_to_spec p s c =? bb) (o_attackers o) then [] else [K_ATTACKERS]) ++
      flat_map (check_move p) (o_moves o)
  end.

(* helpers used by the driver to print what the spec expected *)
Definition spec_legal_of_fen (f : str) : option (list N) :=
  match parse f with Some p => Some (legal_codes p) | None => None end.
Definition spec_successor (f : str) (c : N) : option str :=
  match parse f with
  | Some p => match find_move p c with Some m => Some (print (make p m)) | None => None end
  | None => None end.
Definition spec_perft (d : nat) (f : str) : option N :=
  match parse f with Some p => Some (perft d p) | None => None end.
