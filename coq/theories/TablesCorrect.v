(** * TablesCorrect: the dumped lookup tables equal their geometric definitions (C18).
    Finite checks are evaluated by [vm_compute] over the complete finite domain and
    lifted to universally quantified statements by the lemmas below; the statements
    about arbitrary 64-bit occupancies / bitboards are genuine (unbounded) proofs. *)
From Coq Require Import NArith ZArith List Bool Lia Uint63.
From FG Require Import Word64 Geom Tables.
From FG.gen Require Import Tables_gen.
Import ListNotations.
Open Scope N_scope.

(** ** squares64 *)
Lemma in_squares64 s : In s squares64 <-> s < 64.
Proof.
  unfold squares64. rewrite in_map_iff. split.
  - intros [n [<- Hn]]. apply in_seq in Hn. lia.
  - intros H. exists (N.to_nat s). split; [apply N2Nat.id|]. apply in_seq. lia.
Qed.

Lemma forall_squares (P : N -> bool) :
  forallb P squares64 = true -> forall s, s < 64 -> P s = true.
Proof. intros H s Hs. rewrite forallb_forall in H. apply H, in_squares64, Hs. Qed.

(** ** subset enumeration is complete *)
Definition bits_of (m : N) : list N := filter (N.testbit m) squares64.

Fixpoint subsets (bs : list N) : list N :=
  match bs with
  | [] => [0]
  | b :: bs' => let r := subsets bs' in r ++ map (fun x => N.lor (N.shiftl 1 b) x) r
  end.

Lemma shiftl1_testbit b i : N.testbit (N.shiftl 1 b) i = (i =? b).
Proof.
  rewrite N.shiftl_1_l. destruct (N.eqb_spec i b) as [->|H].
  - apply N.pow2_bits_true.
  - apply N.pow2_bits_false. congruence.
Qed.

Lemma subsets_complete bs : forall x,
  (forall i, N.testbit x i = true -> In i bs) -> In x (subsets bs).
Proof.
  induction bs as [|b bs IH]; intros x Hx.
  - left. symmetry. apply N.bits_inj_0. intros i.
    destruct (N.testbit x i) eqn:E; [destruct (Hx i E)|reflexivity].
  - cbn [subsets]. apply in_or_app. destruct (N.testbit x b) eqn:Eb.
    + right. apply in_map_iff. exists (N.clearbit x b). split.
      * apply N.bits_inj. intros i. rewrite N.lor_spec, shiftl1_testbit.
        destruct (N.eqb_spec i b) as [->|Hib]; [now rewrite Eb|].
        rewrite N.clearbit_neq by congruence. reflexivity.
      * apply IH. intros i Hi.
        destruct (N.eq_dec i b) as [->|Hib]; [now rewrite N.clearbit_eq in Hi|].
        rewrite N.clearbit_neq in Hi by congruence.
        destruct (Hx i Hi) as [->|H]; [congruence|exact H].
    + left. apply IH. intros i Hi. destruct (Hx i Hi) as [<-|H]; [congruence|exact H].
Qed.

Lemma land_in_subsets m occ : m < W64 -> In (N.land occ m) (subsets (bits_of m)).
Proof.
  intros Hm. apply subsets_complete. intros i Hi.
  rewrite N.land_spec in Hi. apply andb_true_iff in Hi as [_ Hi].
  unfold bits_of. apply filter_In. split; [|exact Hi].
  apply in_squares64. eapply testbit_lt_pow2; [|exact Hi]. exact Hm.
Qed.

(** ** the ray walk only looks at inner squares *)
Lemma walk_ext d occ occ' : forall k s,
  (forall t, In t (inner k d s) -> N.testbit occ t = N.testbit occ' t) ->
  walk k d s occ = walk k d s occ'.
Proof.
  induction k as [|k IH]; intros s H; [reflexivity|].
  cbn [walk inner] in *. destruct (step d s) as [t|] eqn:Es; [|reflexivity].
  destruct (step d t) as [u|] eqn:Et.
  - rewrite <- (H t (or_introl eq_refl)). f_equal.
    destruct (N.testbit occ t); [reflexivity|].
    apply IH. intros v Hv. apply H. now right.
  - f_equal. assert (Hw : forall o, walk k d t o = []).
    { intros o. destruct k; cbn [walk]; [reflexivity|]. now rewrite Et. }
    rewrite !Hw. now destruct (N.testbit occ t), (N.testbit occ' t).
Qed.

Lemma slide_ext dirs s occ occ' :
  (forall d t, In d dirs -> In t (inner 7 d s) -> N.testbit occ t = N.testbit occ' t) ->
  slide dirs s occ = slide dirs s occ'.
Proof.
  intros H. unfold slide. f_equal. f_equal. apply map_ext_in.
  intros d Hd. apply walk_ext. intros t Ht. now apply (H d t).
Qed.

(** ** sliders: the finite check and its lift to every 64-bit (indeed every) occupancy *)
Definition check_slider (dirs : list dir) (masks magics : list (int*int)) (shifts : list int)
   (attacks : list (list (int*int))) (sq : N) : bool :=
  match nthN masks sq, nthN magics sq, nthN shifts sq, nthN attacks sq with
  | Some m, Some g, Some sh, Some a =>
     let m := n_of_pair m in let g := n_of_pair g in let sh := n_of_int sh in
     let a := tbl a in
     (m <? W64) &&
     forallb (fun d => forallb (fun t => N.testbit m t) (inner 7 d sq)) dirs &&
     forallb (fun b => match nthN a (magic_index m g sh b) with
                       | Some v => v =? slide dirs sq b
                       | None => false end) (subsets (bits_of m))
  | _,_,_,_ => false
  end.

Lemma check_slider_sound dirs masks magics shifts attacks sq :
  check_slider dirs masks magics shifts attacks sq = true ->
  forall occ, magic_lookup masks magics shifts attacks sq occ = Some (slide dirs sq occ).
Proof.
  unfold check_slider, magic_lookup. intros H occ.
  destruct (nthN masks sq) as [m|]; [|discriminate].
  destruct (nthN magics sq) as [g|]; [|discriminate].
  destruct (nthN shifts sq) as [sh|]; [|discriminate].
  destruct (nthN attacks sq) as [a|]; [|discriminate].
  cbv zeta in H. apply andb_true_iff in H as [H H3]. apply andb_true_iff in H as [H1 H2].
  apply N.ltb_lt in H1.
  set (M := n_of_pair m) in *.
  assert (Hidx : magic_index M (n_of_pair g) (n_of_int sh) occ
               = magic_index M (n_of_pair g) (n_of_int sh) (N.land occ M)).
  { unfold magic_index. now rewrite <- N.land_assoc, N.land_diag. }
  rewrite forallb_forall in H3. specialize (H3 _ (land_in_subsets M occ H1)).
  rewrite <- Hidx in H3. unfold nthN, tbl in H3. rewrite nth_error_map in H3.
  unfold nthN. destruct (nth_error a _) as [v|]; [|discriminate]. cbn in H3.
  apply N.eqb_eq in H3. rewrite H3. f_equal. apply slide_ext.
  intros d t Hd Ht. rewrite N.land_spec.
  rewrite forallb_forall in H2. specialize (H2 d Hd). rewrite forallb_forall in H2.
  rewrite (H2 t Ht). apply andb_true_r.
Qed.

Lemma rook_check : forallb (check_slider rook_dirs rook_mask rook_magic rook_shift rook_attacks) squares64 = true.
Proof. vm_cast_no_check (eq_refl true). Qed.

Lemma bishop_check : forallb (check_slider bishop_dirs bishop_mask bishop_magic bishop_shift bishop_attacks) squares64 = true.
Proof. vm_cast_no_check (eq_refl true). Qed.

Theorem rook_attacks_exact : forall sq occ, sq < 64 ->
  rook_attacks_impl sq occ = Some (slide rook_dirs sq occ).
Proof.
  intros sq occ Hs. apply check_slider_sound.
  exact (forall_squares _ rook_check sq Hs).
Qed.

Theorem bishop_attacks_exact : forall sq occ, sq < 64 ->
  bishop_attacks_impl sq occ = Some (slide bishop_dirs sq occ).
Proof.
  intros sq occ Hs. apply check_slider_sound.
  exact (forall_squares _ bishop_check sq Hs).
Qed.

Lemma bb_of_app l1 l2 : bb_of (l1 ++ l2) = N.lor (bb_of l1) (bb_of l2).
Proof.
  induction l1 as [|x l1 IH]; cbn [bb_of app fold_right]; [reflexivity|].
  fold (bb_of (l1 ++ l2)). fold (bb_of l1). rewrite IH. now rewrite N.lor_assoc.
Qed.

Theorem queen_attacks_exact : forall sq occ, sq < 64 ->
  queen_attacks_impl sq occ = Some (slide (bishop_dirs ++ rook_dirs) sq occ).
Proof.
  intros sq occ Hs. unfold queen_attacks_impl.
  rewrite bishop_attacks_exact, rook_attacks_exact by exact Hs. f_equal.
  unfold slide. now rewrite map_app, concat_app, bb_of_app.
Qed.

(** ** finite tables: per-square and per-pair lookups *)
Definition eq_tbl (t : list (int*int)) (f : N -> N) : bool :=
  (length t =? 64)%nat && forallb (fun s => match look t s with Some v => v =? f s | None => false end) squares64.

Lemma eq_tbl_sound t f : eq_tbl t f = true -> forall s, s < 64 -> look t s = Some (f s).
Proof.
  unfold eq_tbl. intros H s Hs. apply andb_true_iff in H as [_ H].
  pose proof (forall_squares _ H s Hs) as H'. cbv beta in H'.
  destruct (look t s) as [v|]; [|discriminate]. apply N.eqb_eq in H'. now subst.
Qed.

Ltac finite_tbl :=
  intros s Hs;
  match goal with
  | |- look ?t s = Some ?rhs =>
      let f := eval pattern s in rhs in
      match f with ?g s => apply (eq_tbl_sound t g); [vm_cast_no_check (eq_refl true)|exact Hs] end
  end.

Theorem king_attacks_exact : forall s, s < 64 -> look t_pseudo_king s = Some (bb_of (king_targets s)).
Proof. finite_tbl. Qed.
Theorem knight_attacks_exact : forall s, s < 64 -> look t_pseudo_knight s = Some (bb_of (knight_targets s)).
Proof. finite_tbl. Qed.
Theorem pawn_attacks_white_exact : forall s, s < 64 -> look t_pawn_attacks_w s = Some (bb_of (pawn_attack_targets 0 s)).
Proof. finite_tbl. Qed.
Theorem pawn_attacks_black_exact : forall s, s < 64 -> look t_pawn_attacks_b s = Some (bb_of (pawn_attack_targets 1 s)).
Proof. finite_tbl. Qed.
Theorem pseudo_bishop_exact : forall s, s < 64 -> look t_pseudo_bishop s = Some (slide bishop_dirs s 0).
Proof. finite_tbl. Qed.
Theorem pseudo_rook_exact : forall s, s < 64 -> look t_pseudo_rook s = Some (slide rook_dirs s 0).
Proof. finite_tbl. Qed.
Theorem pseudo_queen_exact : forall s, s < 64 -> look t_pseudo_queen s = Some (slide (bishop_dirs ++ rook_dirs) s 0).
Proof. finite_tbl. Qed.
Theorem sqbb_exact : forall s, s < 64 -> look t_sqbb s = Some (N.shiftl 1 s).
Proof. finite_tbl. Qed.
Theorem files_west_exact : forall s, s < 64 -> look t_files_west s = Some (files_west s).
Proof. finite_tbl. Qed.
Theorem files_east_exact : forall s, s < 64 -> look t_files_east s = Some (files_east s).
Proof. finite_tbl. Qed.
Theorem file_west_exact : forall s, s < 64 -> look t_file_west s = Some (file_west s).
Proof. finite_tbl. Qed.
Theorem file_east_exact : forall s, s < 64 -> look t_file_east s = Some (file_east s).
Proof. finite_tbl. Qed.
Theorem ranks_north_exact : forall s, s < 64 -> look t_ranks_north s = Some (ranks_north s).
Proof. finite_tbl. Qed.
Theorem ranks_south_exact : forall s, s < 64 -> look t_ranks_south s = Some (ranks_south s).
Proof. finite_tbl. Qed.
Theorem neighbour_files_exact : forall s, s < 64 -> look t_neighbour_files s = Some (neighbour_files s).
Proof. finite_tbl. Qed.
Theorem passed_white_exact : forall s, s < 64 -> look t_passed_w s = Some (passed_mask 0 s).
Proof. finite_tbl. Qed.
Theorem passed_black_exact : forall s, s < 64 -> look t_passed_b s = Some (passed_mask 1 s).
Proof. finite_tbl. Qed.

(* orientation order of the engine: NW N NE E SE S SW W *)
Definition orient_dirs : list dir := [DNW; DN; DNE; DE; DSE; DS; DSW; DW].

Definition rays_check : bool :=
  (length t_rays =? 8)%nat &&
  forallb (fun '(d, t) => eq_tbl t (ray d)) (combine orient_dirs t_rays).
Lemma rays_check_ok : rays_check = true. Proof. vm_cast_no_check (eq_refl true). Qed.

Theorem rays_exact : forall o d t s, nth_error orient_dirs o = Some d -> nth_error t_rays o = Some t ->
  s < 64 -> look t s = Some (ray d s).
Proof.
  intros o d t s Hd Ht Hs. apply (eq_tbl_sound t (ray d)); [|exact Hs].
  pose proof rays_check_ok as H. unfold rays_check in H. apply andb_true_iff in H as [_ H].
  rewrite forallb_forall in H.
  assert (Hin : In (d, t) (combine orient_dirs t_rays)).
  { clear H. revert Hd Ht. generalize orient_dirs t_rays. induction o as [|o IH]; intros l1 l2 H1 H2;
    destruct l1, l2; try discriminate; cbn in *.
    - left. congruence.
    - right. now apply IH. }
  exact (H _ Hin).
Qed.

(* pairs of squares *)
Definition pairs64 : list (N * N) := list_prod squares64 squares64.
Lemma in_pairs64 a b : a < 64 -> b < 64 -> In (a, b) pairs64.
Proof. intros. apply in_prod; now apply in_squares64. Qed.

Definition pair_check (lk : N -> option N) (f : N -> N -> N) : bool :=
  forallb (fun p => match lk (64 * fst p + snd p) with
                    | Some v => v =? f (fst p) (snd p) | None => false end) pairs64.

Lemma pair_check_sound lk f : pair_check lk f = true ->
  forall a b, a < 64 -> b < 64 -> lk (64 * a + b) = Some (f a b).
Proof.
  unfold pair_check. intros H a b Ha Hb. rewrite forallb_forall in H.
  specialize (H (a, b) (in_pairs64 a b Ha Hb)). cbn [fst snd] in H.
  destruct (lk (64 * a + b)); [|discriminate]. apply N.eqb_eq in H. now subst.
Qed.

Lemma intermediate_check_ok : pair_check (look t_intermediate) between = true.
Proof. vm_cast_no_check (eq_refl true). Qed.

Theorem intermediate_exact : forall a b, a < 64 -> b < 64 ->
  look t_intermediate (64 * a + b) = Some (between a b).
Proof. exact (pair_check_sound _ _ intermediate_check_ok). Qed.

(* the engine's SquareDistance returns 0 for equal squares; so does the Chebyshev distance *)
Lemma distance_check_ok : pair_check (looki t_square_distance) sq_distance = true.
Proof. vm_cast_no_check (eq_refl true). Qed.

Theorem square_distance_exact : forall a b, a < 64 -> b < 64 ->
  looki t_square_distance (64 * a + b) = Some (sq_distance a b).
Proof. exact (pair_check_sound _ _ distance_check_ok). Qed.

Definition eq_tbli (t : list int) (f : N -> N) : bool :=
  (length t =? 64)%nat && forallb (fun s => match looki t s with Some v => v =? f s | None => false end) squares64.
Lemma eq_tbli_sound t f : eq_tbli t f = true -> forall s, s < 64 -> looki t s = Some (f s).
Proof.
  unfold eq_tbli. intros H s Hs. apply andb_true_iff in H as [_ H].
  pose proof (forall_squares _ H s Hs) as H'. cbv beta in H'.
  destruct (looki t s) as [v|]; [|discriminate]. apply N.eqb_eq in H'. now subst.
Qed.

Theorem center_distance_exact : forall s, s < 64 -> looki t_center_distance s = Some (center_distance s).
Proof. intros s Hs. apply (eq_tbli_sound _ center_distance); [vm_cast_no_check (eq_refl true)|exact Hs]. Qed.

Theorem castling_by_square_exact : forall s, s < 64 -> looki t_castling_rights s = Some (castling_by_square s).
Proof. intros s Hs. apply (eq_tbli_sound _ castling_by_square); [vm_cast_no_check (eq_refl true)|exact Hs]. Qed.

(* sqTo[sq][i], i in the order of types.Directions = N,E,S,W,NE,SE,SW,NW; 64 = SqNone *)
Definition dirs_order : list dir := [DN; DE; DS; DW; DNE; DSE; DSW; DNW].
Definition opt64 (o : option N) : N := match o with Some t => t | None => 64 end.
Definition dir_index (d : dir) : N :=
  match d with DN => 0 | DE => 1 | DS => 2 | DW => 3 | DNE => 4 | DSE => 5 | DSW => 6 | DNW => 7 end.

Definition sqto_check : bool :=
  (length t_sq_to =? 512)%nat &&
  forallb (fun s => forallb (fun d => match looki t_sq_to (8 * s + dir_index d) with
                                      | Some v => v =? opt64 (step d s) | None => false end) all_dirs) squares64.
Lemma sqto_check_ok : sqto_check = true. Proof. vm_cast_no_check (eq_refl true). Qed.

Theorem sqto_exact : forall s d, s < 64 -> looki t_sq_to (8 * s + dir_index d) = Some (opt64 (step d s)).
Proof.
  intros s d Hs. pose proof sqto_check_ok as H. unfold sqto_check in H.
  apply andb_true_iff in H as [_ H]. pose proof (forall_squares _ H s Hs) as H'. cbv beta in H'.
  rewrite forallb_forall in H'. assert (Hd : In d all_dirs) by (destruct d; cbn; tauto).
  specialize (H' d Hd). destruct (looki t_sq_to _); [|discriminate]. apply N.eqb_eq in H'. now subst.
Qed.

(* castle masks and square colours *)
Theorem castle_masks_exact :
  tbl t_castle_masks = [bb_of [5;6;7]; bb_of [61;62;63]; bb_of [0;1;2;3]; bb_of [56;57;58;59]].
Proof. vm_compute. reflexivity. Qed.

Theorem squares_colour_exact : tbl t_squares_bb = [squares_of_colour 0; squares_of_colour 1].
Proof. vm_compute. reflexivity. Qed.

