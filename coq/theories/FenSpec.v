(** * FenSpec: Forsyth–Edwards notation for [Rules.pos] (specification side).
    Strings are lists of byte codes ([N]) so that nothing but [ExtrOcamlBasic] is needed. *)
From Coq Require Import NArith List Bool.
From FG Require Import Geom Rules.
Import ListNotations.
Open Scope N_scope.

Definition str := list N.

Definition piece_char (pc : N) : N :=
  let up := match type_of pc with
            | 1 => 75 | 2 => 80 | 3 => 78 | 4 => 66 | 5 => 82 | 6 => 81 | _ => 63 end in
  if pc <? 8 then up else up + 32.

Definition char_piece (ch : N) : option N :=
  let lower := 97 <=? ch in
  let up := if lower then ch - 32 else ch in
  let ty := if up =? 75 then 1 else if up =? 80 then 2 else if up =? 78 then 3
            else if up =? 66 then 4 else if up =? 82 then 5 else if up =? 81 then 6 else 0 in
  if ty =? 0 then None else Some (if lower then ty + 8 else ty).

(* decimal *)
Fixpoint dec_aux (fuel : nat) (n : N) (acc : str) : str :=
  match fuel with
  | O => acc
  | S k => let acc' := (48 + n mod 10) :: acc in
           if n / 10 =? 0 then acc' else dec_aux k (n / 10) acc'
  end.
Definition dec (n : N) : str := dec_aux (S (N.size_nat n)) n [].

Definition is_digit (c : N) : bool := (48 <=? c) && (c <=? 57).
Definition undec (s : str) : option N :=
  if (Nat.eqb (length s) 0) then None
  else if forallb is_digit s then Some (fold_left (fun acc c => 10 * acc + (c - 48)) s 0) else None.

(* one rank, files a..h, with run-length encoded empties *)
Fixpoint rank_str (pcs : list N) (empties : N) : str :=
  match pcs with
  | [] => if empties =? 0 then [] else [48 + empties]
  | pc :: r => if pc =? 0 then rank_str r (empties + 1)
               else (if empties =? 0 then [] else [48 + empties]) ++ piece_char pc :: rank_str r 0
  end.

Definition rank_pieces (b : list N) (r : N) : list N :=
  map (fun f => at_ b (mk_sq f r)) [0;1;2;3;4;5;6;7].

Definition board_str (b : list N) : str :=
  concat (map (fun r => rank_str (rank_pieces b r) 0 ++ (if r =? 0 then [] else [47])) [7;6;5;4;3;2;1;0]).

Definition cr_str (c : N) : str :=
  if c =? 0 then [45] else
  (if N.testbit c 0 then [75] else []) ++ (if N.testbit c 1 then [81] else []) ++
  (if N.testbit c 2 then [107] else []) ++ (if N.testbit c 3 then [113] else []).

Definition sq_str (s : N) : str := if s <? 64 then [97 + file_of s; 49 + rank_of s] else [45].

Definition print (p : pos) : str :=
  board_str (brd p) ++ [32] ++ [if stm p =? 0 then 119 else 98] ++ [32] ++ cr_str (cr p) ++ [32]
  ++ sq_str (ep p) ++ [32] ++ dec (hmc p) ++ [32] ++ dec (fmn p).

(** parsing (strict: six fields) *)
Fixpoint split_on (sep : N) (s : str) (cur : str) : list str :=
  match s with
  | [] => [rev cur]
  | c :: r => if c =? sep then rev cur :: split_on sep r [] else split_on sep r (c :: cur)
  end.

Fixpoint parse_rank (s : str) (acc : list N) : option (list N) :=
  match s with
  | [] => if (Nat.eqb (length acc) 8) then Some (rev acc) else None
  | c :: r => if (49 <=? c) && (c <=? 56) then parse_rank r (repeat 0 (N.to_nat (c - 48)) ++ acc)
              else match char_piece c with
                   | Some pc => parse_rank r (pc :: acc)
                   | None => None end
  end.

Fixpoint all_some {A} (l : list (option A)) : option (list A) :=
  match l with
  | [] => Some []
  | Some x :: r => match all_some r with Some xs => Some (x :: xs) | None => None end
  | None :: _ => None
  end.

Definition parse_board (s : str) : option (list N) :=
  let ranks := split_on 47 s [] in
  if (Nat.eqb (length ranks) 8) then
    match all_some (map (fun r => parse_rank r []) ranks) with
    | Some rs => Some (concat (rev rs))   (* first rank in the string is rank 8 *)
    | None => None end
  else None.

Definition parse_cr (s : str) : option N :=
  if (Nat.eqb (length s) 0) then None else
  match s with
  | [45] => Some 0
  | _ => if forallb (fun c => existsb (N.eqb c) [75;81;107;113]) s then
           Some (fold_left (fun acc c => N.lor acc (if c =? 75 then 1 else if c =? 81 then 2 else if c =? 107 then 4 else 8)) s 0)
         else None
  end.

Definition parse_sq (s : str) : option N :=
  match s with
  | [45] => Some 64
  | [f; r] => if (97 <=? f) && (f <=? 104) && (49 <=? r) && (r <=? 56) then Some (mk_sq (f - 97) (r - 49)) else None
  | _ => None
  end.

Definition parse (s : str) : option pos :=
  match split_on 32 s [] with
  | [b; c; r; e; h; f] =>
      match parse_board b, (match c with [119] => Some 0 | [98] => Some 1 | _ => None end),
            parse_cr r, parse_sq e, undec h, undec f with
      | Some b', Some c', Some r', Some e', Some h', Some f' => Some (mkpos b' c' r' e' h' f')
      | _, _, _, _, _, _ => None
      end
  | _ => None
  end.

Definition str_eqb (a b : str) : bool :=
  (Nat.eqb (length a) (length b)) && forallb (fun '(x, y) => x =? y) (combine a b).
