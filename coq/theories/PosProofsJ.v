(** * PosProofsJ: the C10 parts about the position: half-move clock, CheckRepetitions,
    HasInsufficientMaterial. *)
From Coq Require Import NArith ZArith List Bool Lia ZifyN ZifyBool Btauto.
From FG Require Import Geom Rules FenSpec PosImpl PosProofsA PosProofsB PosProofsC PosProofsD PosProofsE PosProofsF PosProofsG PosProofsH.
Import ListNotations.
Open Scope N_scope.

(** ** C10: the half-move clock (specification side) *)
(* a capture or a pawn move *)
Definition irrev (q : pos) (m : mv) : bool :=
  (type_of (piece_at q (mfrom m)) =? PAWN) || negb (piece_at q (mto m) =? 0).
Fixpoint play (q : pos) (ms : list mv) : pos :=
  match ms with [] => q | m :: r => play (make q m) r end.
Fixpoint flags (q : pos) (ms : list mv) : list bool :=
  match ms with [] => [] | m :: r => irrev q m :: flags (make q m) r end.
(* the clock as a function of the capture-or-pawn-move flags of the plies played *)
Definition since (h0 : N) (fl : list bool) : N := fold_left (fun h (f : bool) => if f then 0 else h + 1) fl h0.

Lemma hmc_make q m : hmc (make q m) = if irrev q m then 0 else hmc q + 1.
Proof. reflexivity. Qed.

Lemma hmc_play ms : forall q, hmc (play q ms) = since (hmc q) (flags q ms).
Proof.
  induction ms as [|m r IH]; intro q; [reflexivity|]. cbn [play flags]. rewrite IH, hmc_make. reflexivity.
Qed.

(* what [since] computes: the number of plies since the last capture or pawn move, and
   the initial (FEN) value plus the number of plies when there was none *)
Lemma since_none h k : since h (repeat false k) = h + N.of_nat k.
Proof.
  revert h. induction k as [|k IH]; intro h; [cbn; lia|]. cbn [repeat]. unfold since in *. cbn [fold_left].
  rewrite IH. lia.
Qed.
Lemma since_app h a b : since h (a ++ b) = since (since h a) b.
Proof. unfold since. apply fold_left_app. Qed.
Lemma since_last h fl k : since h (fl ++ true :: repeat false k) = N.of_nat k.
Proof.
  rewrite since_app. change (true :: repeat false k) with ([true] ++ repeat false k). rewrite since_app.
  unfold since at 2. cbn [fold_left]. rewrite since_none. lia.
Qed.

Section Clock.
Variable t : tabs.

(* a sequence of moves each pseudo-legal (in particular: legal) where it is played *)
Fixpoint seq_ok (q : pos) (ms : list mv) : Prop :=
  match ms with [] => True | m :: r => In m (pseudo q) /\ seq_ok (make q m) r end.

Fixpoint do_moves (p : ipos) (ms : list mv) : option ipos :=
  match ms with [] => Some p | m :: r => p' <- do_move t p (code m) ;; do_moves p' r end.

Lemma legal_pseudo q m : In m (legal q) -> In m (pseudo q).
Proof. unfold legal. intro H. apply filter_In in H. tauto. Qed.

(* C02 for sequences, with everything else that is preserved *)
Theorem do_moves_refines ms : forall p,
  Inv t p -> seq_ok (abs p) ms -> (length (i_hist p) + length ms <= MaxHistory)%nat ->
  exists p', do_moves p ms = Some p' /\ abs p' = play (abs p) ms /\ Inv t p' /\
             length (i_hist p') = (length (i_hist p) + length ms)%nat.
Proof.
  induction ms as [|m r IH]; intros p [W K] Hok Hroom.
  - exists p. cbn [do_moves play length]. split; [reflexivity|]. split; [reflexivity|]. split; [split; assumption|lia].
  - destruct Hok as [Hm Hok]. cbn [length] in Hroom.
    pose proof (pseudo_move_ok t p W m Hm) as Hmo.
    destruct (do_move_refines t p m W Hmo) as [Hdo Habs]. { unfold room. lia. }
    set (p1 := do_move_raw t p (code m)) in *.
    assert (I1 : Inv t p1) by (split; [apply do_wf|apply do_keyok]; assumption).
    rewrite <- Habs in Hok.
    assert (Hl1 : length (i_hist p1) = S (length (i_hist p))) by (unfold p1; rewrite do_move_raw_hist; reflexivity).
    destruct (IH p1 I1 Hok) as (p' & R & A & I' & L). { rewrite Hl1. lia. }
    exists p'. cbn [do_moves]. rewrite Hdo. cbn [bind]. split; [exact R|]. split; [|split; [exact I'|]].
    + rewrite A, Habs. reflexivity.
    + rewrite L, Hl1. cbn [length]. lia.
Qed.

Theorem clock_exact ms p :
  Inv t p -> seq_ok (abs p) ms -> (length (i_hist p) + length ms <= MaxHistory)%nat ->
  exists p', do_moves p ms = Some p' /\
             HalfMoveClock p' = Z.of_N (since (Z.to_N (i_hmc p)) (flags (abs p) ms)).
Proof.
  intros I Hok Hroom. destruct (do_moves_refines ms p I Hok Hroom) as (p' & R & A & [W' _] & _).
  exists p'. split; [exact R|]. unfold HalfMoveClock.
  apply (f_equal hmc) in A. rewrite hmc_play in A. cbn [abs hmc] in A. rewrite <- A.
  pose proof (w_hmc _ _ W'). lia.
Qed.
End Clock.

(** ** C10: CheckRepetitions *)
(* the entries the Go loop looks at: history[counter-2], [counter-4], ... *)
Fixpoint visited (l : list hstate) (visit : bool) : list hstate :=
  match l with [] => [] | h :: r => if visit then h :: visited r false else visited r true end.
(* ... as long as the stored clocks strictly decrease, starting from the current clock *)
Fixpoint dec_prefix (last : Z) (v : list hstate) : list hstate :=
  match v with [] => [] | h :: r => if (last <=? h_hmc h)%Z then [] else h :: dec_prefix (h_hmc h) r end.
Definition matches (key : N) (v : list hstate) : Z := Z.of_nat (length (filter (fun h => key =? h_key h) v)).
Definition scanned (p : ipos) : list hstate := dec_prefix (i_hmc p) (visited (i_hist p) false).

Lemma rep_scan_char key reps : forall l visit last counter, (counter < reps)%Z ->
  rep_scan key l visit last counter reps = (reps <=? counter + matches key (dec_prefix last (visited l visit)))%Z.
Proof.
  induction l as [|h r IH]; intros visit last counter Hc.
  - cbn. unfold matches. cbn. lia.
  - cbn [rep_scan visited]. destruct visit.
    + cbn [dec_prefix]. destruct (Z.leb_spec last (h_hmc h)).
      * unfold matches. cbn. lia.
      * unfold matches. cbn [filter]. destruct (key =? h_key h) eqn:Ek.
        -- cbn [length]. destruct (Z.leb_spec reps (counter + 1)).
           ++ pose proof (Zle_0_nat (length (filter (fun h0 => key =? h_key h0) (dec_prefix (h_hmc h) (visited r false))))). lia.
           ++ rewrite IH by lia. unfold matches. lia.
        -- destruct (Z.leb_spec reps counter); [lia|]. rewrite IH by lia. reflexivity.
    + apply IH. exact Hc.
Qed.

Theorem repetition_scan p n : (1 <= n)%Z ->
  check_repetitions p n = (n <=? matches (i_key p) (scanned p))%Z.
Proof.
  intro Hn. unfold check_repetitions, scanned. rewrite rep_scan_char by lia. reflexivity.
Qed.

(* the clocks stored in a history made by DoMove only: each is the predecessor of the next, or
   the next is 0 *)
Fixpoint chain (c : Z) (l : list hstate) : Prop :=
  match l with [] => True
  | h :: r => (0 <= h_hmc h)%Z /\ (c = h_hmc h + 1 \/ c = 0)%Z /\ chain (h_hmc h) r end.

Lemma dec_prefix_firstn : forall v last, dec_prefix last v = firstn (length (dec_prefix last v)) v.
Proof.
  induction v as [|h r IH]; intro last; [reflexivity|]. cbn [dec_prefix].
  destruct (last <=? h_hmc h)%Z; [reflexivity|]. cbn [length firstn]. f_equal. apply IH.
Qed.

(* no entry inside the reversible window is missed ... *)
Lemma window_lower : forall n l c, (length l <= n)%nat -> chain c l ->
  (Z.min (c / 2) (Z.of_nat (length (visited l false))) <= Z.of_nat (length (dec_prefix c (visited l false))))%Z.
Proof.
  induction n as [|n IH]; intros l c Hl Hc.
  - destruct l; [cbn; lia|cbn in Hl; lia].
  - destruct l as [|e1 [|e2 r]]; [cbn; lia|cbn; lia|].
    cbn [visited]. cbn [chain] in Hc. destruct Hc as (H1 & H2 & H3 & H4 & H5).
    cbn [dec_prefix length]. destruct (Z.leb_spec c (h_hmc e2)).
    + cbn [length]. lia.
    + cbn [length]. assert (E : h_hmc e2 = (c - 2)%Z \/ (c = 1 /\ h_hmc e2 = 0)%Z) by lia.
      destruct E as [E|[E1 E2]].
      * specialize (IH r (h_hmc e2) ltac:(cbn in Hl; lia) H5). rewrite E in IH |- *.
        lia.
      * subst c. change (1 / 2)%Z with 0%Z. lia.
Qed.

(* ... and at most one entry beyond it is looked at (it carries clock 0: a position just before
   a capture or pawn move; see [scan_overrun_example]) *)
Lemma window_upper : forall n l c, (length l <= n)%nat -> (0 <= c)%Z -> chain c l ->
  (Z.of_nat (length (dec_prefix c (visited l false))) <= c / 2 + 1)%Z.
Proof.
  induction n as [|n IH]; intros l c Hl Hc0 Hc.
  - destruct l; [cbn; lia|cbn in Hl; lia].
  - destruct l as [|e1 [|e2 r]]; [cbn; lia|cbn; lia|].
    cbn [visited]. cbn [chain] in Hc. destruct Hc as (H1 & H2 & H3 & H4 & H5).
    cbn [dec_prefix length]. destruct (Z.leb_spec c (h_hmc e2)).
    + cbn [length]. lia.
    + cbn [length]. assert (E : h_hmc e2 = (c - 2)%Z \/ (c = 1 /\ h_hmc e2 = 0)%Z) by lia.
      destruct E as [E|[E1 E2]].
      * specialize (IH r (h_hmc e2) ltac:(cbn in Hl; lia) H3 H5). rewrite E in IH |- *.
        lia.
      * subst c. change (1 / 2)%Z with 0%Z. rewrite E2.
        destruct r as [|e3 [|e4 r']]; cbn; try lia.
        cbn [chain] in H5. destruct H5 as (_ & _ & G & _). destruct (Z.leb_spec 0 (h_hmc e4)); cbn; lia.
Qed.

(** the clock chain holds for every history made by DoMove alone *)
Lemma do_move_raw_hmc_cases t p c : (mv_type c = 3 -> castle_info (mv_to c) <> None) ->
  (i_hmc (do_move_raw t p c) = i_hmc p + 1 \/ i_hmc (do_move_raw t p c) = 0)%Z.
Proof.
  intro Hci. unfold do_move_raw. pose proof (mv_type_lt c) as Hlt.
  destruct (N.eqb_spec (mv_type c) 0).
  { unfold do_normal_raw. repeat match goal with |- context [if ?c then _ else _] => destruct c end; fr; auto. }
  destruct (N.eqb_spec (mv_type c) 1).
  { unfold do_promotion_raw. repeat match goal with |- context [if ?c then _ else _] => destruct c end; fr; auto. }
  destruct (N.eqb_spec (mv_type c) 2).
  { unfold do_enpassant_raw. fr. auto. }
  destruct (castle_info (mv_to c)) as [[[rf rt] lost]|] eqn:E.
  - unfold do_castling_raw. fr. auto.
  - exfalso. apply Hci; [lia|reflexivity].
Qed.

Lemma chain_do t p c : (mv_type c = 3 -> castle_info (mv_to c) <> None) ->
  (0 <= i_hmc p)%Z -> chain (i_hmc p) (i_hist p) ->
  chain (i_hmc (do_move_raw t p c)) (i_hist (do_move_raw t p c)).
Proof.
  intros Hci H0 Hc. rewrite do_move_raw_hist. cbn [chain h_hmc]. split; [exact H0|]. split; [|exact Hc].
  destruct (do_move_raw_hmc_cases t p c Hci); auto.
Qed.

(** ** C10: insufficient material *)
Fixpoint cnt (b : list N) (pc : N) : Z :=
  match b with [] => 0%Z | x :: r => ((if (x =? pc)%N then 1 else 0) + cnt r pc)%Z end.

Lemma cnt_nonneg b pc : (0 <= cnt b pc)%Z.
Proof. induction b as [|x r IH]; cbn; [lia|]. destruct (x =? pc); lia. Qed.

Lemma cnt_zero_iff b pc : cnt b pc = 0%Z <-> ~ In pc b.
Proof.
  induction b as [|x r IH]; cbn; [tauto|]. pose proof (cnt_nonneg r pc).
  destruct (N.eqb_spec x pc) as [->|Hne]; split; intro H'.
  - lia.
  - exfalso. apply H'. left. reflexivity.
  - intros [E|Hin]; [congruence|]. assert (E : cnt r pc = 0%Z) by lia. apply IH in E. contradiction.
  - assert (E : cnt r pc = 0%Z); [|lia]. apply IH. intro Hin. apply H'. right. exact Hin.
Qed.

Lemma in_board_at b pc : pc <> 0 -> (In pc b <-> exists i, at_ b i = pc).
Proof.
  intro Hnz. split.
  - intro Hin. apply (In_nth b pc 0) in Hin as (n & Hn & E). exists (N.of_nat n). unfold at_. now rewrite Nat2N.id.
  - intros (i & E). unfold at_ in E. destruct (Nat.lt_ge_cases (N.to_nat i) (length b)) as [H|H].
    + rewrite <- E. apply nth_In. exact H.
    + rewrite nth_overflow in E by exact H. congruence.
Qed.

Definition codes : list N := [0;1;2;3;4;5;6;9;10;11;12;13;14].

Lemma okpc_codes x : okpc x = true ->
  x = 0 \/ x = 1 \/ x = 2 \/ x = 3 \/ x = 4 \/ x = 5 \/ x = 6 \/ x = 9 \/ x = 10 \/ x = 11 \/ x = 12 \/ x = 13 \/ x = 14.
Proof. intro H. apply okpc_cases in H. lia. Qed.

Lemma zsum_counts (g : N -> Z) b : (forall x, In x b -> okpc x = true) -> forall s,
  zsum (fun pc _ => g pc) b s =
  (g 0%N * cnt b 0%N + g 1%N * cnt b 1%N + g 2%N * cnt b 2%N + g 3%N * cnt b 3%N + g 4%N * cnt b 4%N + g 5%N * cnt b 5%N + g 6%N * cnt b 6%N + g 9%N * cnt b 9%N + g 10%N * cnt b 10%N + g 11%N * cnt b 11%N + g 12%N * cnt b 12%N + g 13%N * cnt b 13%N + g 14%N * cnt b 14%N)%Z.
Proof.
  induction b as [|x r IH]; intros Hok s; [cbn; lia|]. cbn [zsum cnt].
  rewrite IH by (intros y Hy; apply Hok; right; exact Hy).
  destruct (okpc_codes x (Hok x (or_introl eq_refl))) as [E|[E|[E|[E|[E|[E|[E|[E|[E|[E|[E|[E|E]]]]]]]]]]]];
    subst x; cbn [N.eqb Pos.eqb]; lia.
Qed.

Lemma board_in_ok t p x : Coh t p -> In x (i_board p) -> okpc x = true.
Proof.
  intros C Hin. apply (In_nth _ _ 0) in Hin as (n & Hn & E). rewrite <- E.
  pose proof (c_ok _ _ C (N.of_nat n)) as H. unfold at_ in H. now rewrite Nat2N.id in H.
Qed.

(* the decision of HasInsufficientMaterial as a function of the piece counts (real piece values) *)
Definition insuff_counts (wp wn wb wr wq bp bn bb br bq : Z) : Prop :=
  let mw := (320 * wn + 330 * wb + 500 * wr + 900 * wq)%Z in
  let mb := (320 * bn + 330 * bb + 500 * br + 900 * bq)%Z in
  wp = 0%Z /\ bp = 0%Z /\
  ((mw < 400 /\ mb < 400)%Z \/
   ((mw = 640 /\ mb <= 330) \/ (mb = 640 /\ mw <= 330))%Z \/
   ((mw = 660 /\ mb = 330) \/ (mb = 660 /\ mw = 330))%Z \/
   (mw <> 660 /\ mb <> 660 /\
    ((640 <= mw < 660 /\ 0 < mb <= 330) \/ (0 < mw <= 330 /\ 640 <= mb < 660)))%Z).

Definition real_pvals (t : tabs) : Prop :=
  pval t KING = 2000%Z /\ pval t PAWN = 100%Z /\ pval t KNIGHT = 320%Z /\ pval t BISHOP = 330%Z /\
  pval t ROOK = 500%Z /\ pval t QUEEN = 900%Z.

Lemma if_true_l (c d : bool) : (if c then true else d) = c || d. Proof. destruct c; reflexivity. Qed.
Lemma if_false_l (c d : bool) : (if c then false else d) = negb c && d. Proof. destruct c; reflexivity. Qed.
Lemma if_false_r (c d : bool) : (if c then d else false) = c && d. Proof. destruct c; reflexivity. Qed.
Lemma if_tf (c : bool) : (if c then true else false) = c. Proof. destruct c; reflexivity. Qed.

Section Mat.
Variable t : tabs.
Hypothesis PV : real_pvals t.

Lemma matnp_counts p c : Coh t p -> c < 2 ->
  sel c (i_matnp p) = (320 * cnt (i_board p) (8 * c + KNIGHT)%N + 330 * cnt (i_board p) (8 * c + BISHOP)%N +
                       500 * cnt (i_board p) (8 * c + ROOK)%N + 900 * cnt (i_board p) (8 * c + QUEEN)%N)%Z.
Proof.
  intros C Hc. destruct PV as (Pk & Pp & Pn & Pb & Pr & Pq).
  rewrite (c_matnp _ _ C) by assumption. unfold matnp_of.
  rewrite (zsum_ext _ (fun pc _ => matnp_f t c pc 0)) by reflexivity.
  rewrite (zsum_counts (fun pc => matnp_f t c pc 0)) by (intros x Hx; eapply board_in_ok; eassumption).
  assert (c = 0 \/ c = 1) as [-> | ->] by lia; unfold matnp_f, is_col; cbn -[Z.mul Z.add cnt]; unfold KNIGHT, BISHOP, ROOK, QUEEN in *;
    rewrite ?Pn, ?Pb, ?Pr, ?Pq; lia.
Qed.

Lemma mat_counts p c : Coh t p -> c < 2 ->
  sel c (i_mat p) = (2000 * cnt (i_board p) (8 * c + KING)%N + 100 * cnt (i_board p) (8 * c + PAWN)%N +
                     320 * cnt (i_board p) (8 * c + KNIGHT)%N + 330 * cnt (i_board p) (8 * c + BISHOP)%N +
                     500 * cnt (i_board p) (8 * c + ROOK)%N + 900 * cnt (i_board p) (8 * c + QUEEN)%N)%Z.
Proof.
  intros C Hc. destruct PV as (Pk & Pp & Pn & Pb & Pr & Pq).
  rewrite (c_mat _ _ C) by assumption. unfold mat_of.
  rewrite (zsum_ext _ (fun pc _ => mat_f t c pc 0)) by reflexivity.
  rewrite (zsum_counts (fun pc => mat_f t c pc 0)) by (intros x Hx; eapply board_in_ok; eassumption).
  assert (c = 0 \/ c = 1) as [-> | ->] by lia; unfold mat_f, is_col; cbn -[Z.mul Z.add cnt]; unfold KING, PAWN, KNIGHT, BISHOP, ROOK, QUEEN in *;
    rewrite ?Pk, ?Pp, ?Pn, ?Pb, ?Pr, ?Pq; lia.
Qed.

Lemma pawn_bb_zero p c : Coh t p -> c < 2 ->
  (bb_get (i_pbb p) c PAWN =? 0) = (cnt (i_board p) (8 * c + PAWN)%N =? 0)%Z.
Proof.
  intros C Hc. apply eq_true_iff_eq. rewrite N.eqb_eq, Z.eqb_eq, cnt_zero_iff.
  rewrite in_board_at by (unfold PAWN; lia). split.
  - intros E (i & Hi). pose proof (c_pbb _ _ C c PAWN i Hc ltac:(unfold PAWN; lia)) as Hb.
    rewrite E, N.bits_0, Hi in Hb. unfold pcmatch in Hb. rewrite N.eqb_refl in Hb.
    destruct (N.eqb_spec (8 * c + PAWN) 0); [unfold PAWN in *; lia|discriminate].
  - intro Hno. apply N.bits_inj. intro i. rewrite N.bits_0.
    rewrite (c_pbb _ _ C c PAWN i Hc ltac:(unfold PAWN; lia)). unfold pcmatch.
    destruct (N.eqb_spec (at_ (i_board p) i) (8 * c + PAWN)) as [E|]; [|apply andb_false_r].
    exfalso. apply Hno. exists i. exact E.
Qed.

Theorem material_exact p : Coh t p ->
  let b := i_board p in
  insufficient_material t p = true <->
  insuff_counts (cnt b 2) (cnt b 3) (cnt b 4) (cnt b 5) (cnt b 6) (cnt b 10) (cnt b 11) (cnt b 12) (cnt b 13) (cnt b 14).
Proof.
  intros C b. unfold insufficient_material.
  change (fst (i_matnp p)) with (sel 0 (i_matnp p)). change (snd (i_matnp p)) with (sel 1 (i_matnp p)).
  change (fst (i_mat p)) with (sel 0 (i_mat p)). change (snd (i_mat p)) with (sel 1 (i_mat p)).
  rewrite !matnp_counts, !mat_counts by (assumption || lia).
  rewrite !pawn_bb_zero by (assumption || lia).
  destruct PV as (Pk & Pp & Pn & Pb & Pr & Pq). rewrite Pn, Pb.
  change (8 * 0 + KING) with 1. change (8 * 0 + PAWN) with 2. change (8 * 0 + KNIGHT) with 3. change (8 * 0 + BISHOP) with 4.
  change (8 * 0 + ROOK) with 5. change (8 * 0 + QUEEN) with 6.
  change (8 * 1 + KING) with 9. change (8 * 1 + PAWN) with 10. change (8 * 1 + KNIGHT) with 11. change (8 * 1 + BISHOP) with 12.
  change (8 * 1 + ROOK) with 13. change (8 * 1 + QUEEN) with 14.
  fold b.
  pose proof (cnt_nonneg b 1). pose proof (cnt_nonneg b 2). pose proof (cnt_nonneg b 3). pose proof (cnt_nonneg b 4).
  pose proof (cnt_nonneg b 5). pose proof (cnt_nonneg b 6). pose proof (cnt_nonneg b 9). pose proof (cnt_nonneg b 10).
  pose proof (cnt_nonneg b 11). pose proof (cnt_nonneg b 12). pose proof (cnt_nonneg b 13). pose proof (cnt_nonneg b 14).
  unfold insuff_counts.
  set (mw := (320 * cnt b 3 + 330 * cnt b 4 + 500 * cnt b 5 + 900 * cnt b 6)%Z).
  set (mb := (320 * cnt b 11 + 330 * cnt b 12 + 500 * cnt b 13 + 900 * cnt b 14)%Z).
  assert (0 <= mw)%Z by (unfold mw; lia). assert (0 <= mb)%Z by (unfold mb; lia).
  change (2 * 320)%Z with 640%Z. change (2 * 330)%Z with 660%Z.
  rewrite if_tf. rewrite !if_true_l, if_false_l, if_false_r.
  assert (Hsum : forall x, (2000 * cnt b 1 + 100 * cnt b 2 + 320 * cnt b 3 + 330 * cnt b 4 + 500 * cnt b 5 + 900 * cnt b 6 +
     (2000 * cnt b 9 + 100 * cnt b 10 + 320 * cnt b 11 + 330 * cnt b 12 + 500 * cnt b 13 + 900 * cnt b 14) =? 0)%Z = x ->
     x = true -> (cnt b 2 = 0 /\ cnt b 10 = 0 /\ mw = 0 /\ mb = 0)%Z).
  { intros x <- Hx. apply Z.eqb_eq in Hx. unfold mw, mb. lia. }
  match goal with |- context [(?x =? 0)%Z || _] => specialize (Hsum _ eq_refl); destruct (x =? 0)%Z end.
  - specialize (Hsum eq_refl). destruct Hsum as (A1 & A2 & A3 & A4). cbn [orb]. split; [intros _|reflexivity]. lia.
  - clear Hsum. clearbody mw mb. cbn [orb]. lia.
Qed.
End Mat.

(** the clauses of C10 about material, for all piece counts *)
Lemma ic_bare_kings : insuff_counts 0 0 0 0 0 0 0 0 0 0.
Proof. unfold insuff_counts. lia. Qed.
Lemma ic_minor_vs_king_w wn wb : (0 <= wn -> 0 <= wb -> wn + wb = 1 -> insuff_counts 0 wn wb 0 0 0 0 0 0 0)%Z.
Proof. unfold insuff_counts. lia. Qed.
Lemma ic_minor_vs_king_b bn bb : (0 <= bn -> 0 <= bb -> bn + bb = 1 -> insuff_counts 0 0 0 0 0 0 bn bb 0 0)%Z.
Proof. unfold insuff_counts. lia. Qed.
(* any single bishops, same-coloured or not: the engine does not look at square colours *)
Lemma ic_single_bishops : insuff_counts 0 0 1 0 0 0 0 1 0 0.
Proof. unfold insuff_counts. lia. Qed.
Lemma ic_pawn wp wn wb wr wq bp bn bb br bq :
  (0 <= wp -> 0 <= bp -> 1 <= wp + bp -> ~ insuff_counts wp wn wb wr wq bp bn bb br bq)%Z.
Proof. unfold insuff_counts. lia. Qed.
Lemma ic_rook_or_queen wp wn wb wr wq bp bn bb br bq :
  (0 <= wn -> 0 <= wb -> 0 <= wr -> 0 <= wq -> 0 <= bn -> 0 <= bb -> 0 <= br -> 0 <= bq ->
   1 <= wr + wq + br + bq -> ~ insuff_counts wp wn wb wr wq bp bn bb br bq)%Z.
Proof. unfold insuff_counts. lia. Qed.
Lemma ic_bishop_knight_w : ~ insuff_counts 0 1 1 0 0 0 0 0 0 0.
Proof. unfold insuff_counts. lia. Qed.
Lemma ic_bishop_knight_b : ~ insuff_counts 0 0 0 0 0 0 1 1 0 0.
Proof. unfold insuff_counts. lia. Qed.
Lemma ic_two_bishops_w : ~ insuff_counts 0 0 2 0 0 0 0 0 0 0.
Proof. unfold insuff_counts. lia. Qed.
Lemma ic_two_bishops_b : ~ insuff_counts 0 0 0 0 0 0 0 2 0 0.
Proof. unfold insuff_counts. lia. Qed.
(* not named by C10 but decided by the code: two knights against a bare king count as insufficient *)
Lemma ic_two_knights_w : insuff_counts 0 2 0 0 0 0 0 0 0 0.
Proof. unfold insuff_counts. lia. Qed.
