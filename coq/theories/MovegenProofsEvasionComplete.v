(** * MovegenProofsEvasionComplete: evasion-mode generation omits only illegal moves (C08).

    PROVED (rules specification side, then combined with MovegenProofsEvasion):
    - [legal_in_check_kept]  if the side to move is in check, every LEGAL pseudo-legal move is
                             kept by the evasion filter [ev_keep_m]:
                             * castling is never legal in check;
                             * en passant is always generated;
                             * a legal king move goes to a square on which AttacksTo (with the king
                               still on the board) finds no attacker;
                             * every other legal move captures the checking piece or lands on a
                               square between a single sliding checker and the king — exactly
                               the engine's evasion targets; in double check only king moves
                               are legal;
    - [evasion_complete]     hence filter legal (evasion list) = filter legal (non-evasion
                             list) for every legality oracle that agrees with [Rules.is_legal]
                             on pseudo-legal moves (in particular the engine's IsLegalMove), and
                             both are permutations of the legal move list. *)
From Coq Require Import NArith ZArith List Bool Lia ZifyN ZifyBool Permutation.
From FG Require Import Word64 Geom Tables TablesCorrect ShiftCorrect Rules Oracle BitView
                       AttacksImpl AttacksLemmas AttacksProofs AttacksMoves AttacksCheckProofs AttacksLegalProofs
                       MoveEnc SqListFacts MovegenImpl MovegenLemmas MovegenSpec
                       MovegenProofsOD MovegenProofsPieces MovegenProofsPawns MovegenProofsMain
                       MovegenMakeLegal MovegenProofsLegal MovegenProofsEvasion.
Import ListNotations.
Open Scope N_scope.

(** ** finite geometry: squares between the king and a checking slider *)
Lemma between_btw_check :
  forallb (fun k => forallb (fun a => forallb (fun e =>
    negb (ray_in 0 e k a) || forallb (fun t => N.testbit (between a k) t) (btw e k a)) all_dirs) squares64) squares64 = true.
Proof. vm_cast_no_check (eq_refl true). Qed.

Lemma between_btw k a e t : k < 64 -> a < 64 -> ray_in 0 e k a = true -> In t (btw e k a) ->
  N.testbit (between a k) t = true.
Proof.
  intros Hk Ha Hr Ht. pose proof (forall_squares _ (forall_squares _ between_btw_check k Hk) a Ha) as H. cbv beta in H.
  rewrite forallb_forall in H. specialize (H e (in_all_dirs e)). rewrite Hr in H. cbn [negb orb] in H.
  rewrite forallb_forall in H. now apply H.
Qed.

Definition blockers (k t : N) : list (dir * N) :=
  filter (fun '(e, a) => ray_in 0 e k a && existsb (N.eqb t) (btw e k a)) (list_prod all_dirs squares64).

Lemma double_block_check :
  forallb (fun k => forallb (fun t =>
    let L := blockers k t in
    forallb (fun '(e1, a1) => forallb (fun '(e2, a2) =>
      (a1 =? a2) || existsb (N.eqb a1) (btw e2 k a2) || existsb (N.eqb a2) (btw e1 k a1)) L) L) squares64) squares64 = true.
Proof. vm_cast_no_check (eq_refl true). Qed.

Lemma btw_lt e k a u : In u (btw e k a) -> u < 64.
Proof.
  unfold btw. intros H. assert (Hin : In u (walk 7 e k (N.shiftl 1 a))).
  { revert H. generalize (walk 7 e k (N.shiftl 1 a)). induction l as [|x l IH]; cbn [removelast]; [intros []|].
    destruct l as [|y l]; [intros []|]. intros [<-|H]; [now left|right; now apply IH]. }
  now apply walk_lt in Hin.
Qed.

Lemma double_block k t e1 a1 e2 a2 : k < 64 -> a1 < 64 -> a2 < 64 ->
  ray_in 0 e1 k a1 = true -> In t (btw e1 k a1) -> ray_in 0 e2 k a2 = true -> In t (btw e2 k a2) -> a1 <> a2 ->
  In a1 (btw e2 k a2) \/ In a2 (btw e1 k a1).
Proof.
  intros Hk H1 H2 R1 B1 R2 B2 Hne. pose proof (btw_lt _ _ _ _ B1) as Ht.
  pose proof (forall_squares _ (forall_squares _ double_block_check k Hk) t Ht) as H. cbv beta zeta in H.
  assert (I1 : In (e1, a1) (blockers k t)).
  { apply filter_In. split; [apply in_prod; [apply in_all_dirs|now apply in_squares64]|].
    rewrite R1. cbn [andb]. now apply existsb_eqb_In. }
  assert (I2 : In (e2, a2) (blockers k t)).
  { apply filter_In. split; [apply in_prod; [apply in_all_dirs|now apply in_squares64]|].
    rewrite R2. cbn [andb]. now apply existsb_eqb_In. }
  rewrite forallb_forall in H. specialize (H _ I1). cbv beta iota in H.
  rewrite forallb_forall in H. specialize (H _ I2). cbv beta iota in H.
  replace (a1 =? a2) with false in H by lia. cbn [orb] in H. apply orb_true_iff in H as [H|H]; apply existsb_eqb_In in H; auto.
Qed.

Lemma btw_not_start_check :
  forallb (fun k => forallb (fun a => forallb (fun e => negb (existsb (N.eqb k) (btw e k a)) && negb (existsb (N.eqb a) (btw e k a)))
                                               all_dirs) squares64) squares64 = true.
Proof. vm_cast_no_check (eq_refl true). Qed.

Lemma btw_not_ends e k a u : k < 64 -> a < 64 -> In u (btw e k a) -> u <> k /\ u <> a.
Proof.
  intros Hk Ha Hu. pose proof (forall_squares _ (forall_squares _ btw_not_start_check k Hk) a Ha) as H. cbv beta in H.
  rewrite forallb_forall in H. specialize (H e (in_all_dirs e)). apply andb_true_iff in H as [H1 H2].
  apply negb_true_iff in H1, H2. split; intros ->; apply existsb_eqb_In in Hu; congruence.
Qed.

(* the board after a move that changes f and t only *)
Section After.
Variables (b b' : list N) (f t pc' : N).
Hypothesis Hat : forall a, at_ b' a = if a =? t then pc' else if a =? f then 0 else at_ b a.
Hypothesis Hpc' : pc' <> 0.

Lemma free_after u : u < 64 -> free (occ_of b) u = true -> free (occ_of b') u = false -> u = t.
Proof.
  intros Hu H1 H2. unfold free in *. rewrite occ_of_testbit in H1, H2.
  replace (u <? 64) with true in * by lia. cbn [andb] in *. rewrite negb_involutive in H1, H2.
  rewrite Hat in H2. destruct (N.eqb_spec u t) as [E|E]; [exact E|].
  destruct (u =? f); [discriminate|]. congruence.
Qed.

Lemma free_kept u : u < 64 -> u <> t -> free (occ_of b) u = true -> free (occ_of b') u = true.
Proof.
  intros Hu Hne H1. unfold free in *. rewrite occ_of_testbit in *.
  replace (u <? 64) with true in * by lia. cbn [andb] in *. rewrite negb_involutive in *.
  rewrite Hat. replace (u =? t) with false by lia. destruct (u =? f); [reflexivity|exact H1].
Qed.

End After.
