(** * MovegenProofsEvasionComplete: evasion-mode generation omits only illegal moves (C08).

    PROVED (rules specification side, then combined with MovegenProofsEvasion):
    - [legal_in_check_kept]  if the side to move is in check, every LEGAL pseudo-legal move is
                             kept by the evasion filter [ev_keep_m]:
                             * castling is never legal in check;
                             * en passant is always generated;
                             * a legal king move goes to a square on which AttacksTo (with the king
                               still on the board) finds no attacker;
                             * every other legal move captures the checking piece or lands on a
                               square between a single sliding checker and the king — exactly
                               the engine's evasion targets; in double check only king moves
                               are legal;
    - [evasion_complete]     hence filter legal (evasion list) = filter legal (non-evasion
                             list) for every legality oracle that agrees with [Rules.is_legal]
                             on pseudo-legal moves (in particular the engine's IsLegalMove), and
                             both are permutations of the legal move list. *)
From Coq Require Import NArith ZArith List Bool Lia ZifyN ZifyBool Permutation.
From FG Require Import Word64 Geom Tables TablesCorrect ShiftCorrect Rules Oracle BitView
                       AttacksImpl AttacksLemmas AttacksProofs AttacksMoves AttacksCheckProofs AttacksLegalProofs
                       MoveEnc SqListFacts MovegenImpl MovegenLemmas MovegenSpec
                       MovegenProofsOD MovegenProofsPieces MovegenProofsPawns MovegenProofsMain
                       MovegenMakeLegal MovegenProofsLegal MovegenProofsEvasion.
Import ListNotations.
Open Scope N_scope.

(** ** finite geometry: squares between the king and a checking slider *)
Lemma between_btw_check :
  forallb (fun k => forallb (fun a => forallb (fun e =>
    if ray_in 0 e k a then forallb (fun t => N.testbit (between a k) t) (btw e k a) else true) all_dirs) squares64) squares64 = true.
Proof. vm_cast_no_check (eq_refl true). Qed.

Lemma between_btw k a e t : k < 64 -> a < 64 -> ray_in 0 e k a = true -> In t (btw e k a) ->
  N.testbit (between a k) t = true.
Proof.
  intros Hk Ha Hr Ht. pose proof (forall_squares _ (forall_squares _ between_btw_check k Hk) a Ha) as H. cbv beta in H.
  rewrite forallb_forall in H. specialize (H e (in_all_dirs e)). rewrite Hr in H.
  rewrite forallb_forall in H. now apply H.
Qed.

Lemma btw_lt e k a u : In u (btw e k a) -> u < 64.
Proof.
  unfold btw. intros H. assert (Hin : In u (walk 7 e k (N.shiftl 1 a))).
  { revert H. generalize (walk 7 e k (N.shiftl 1 a)). induction l as [|x l IH]; cbn [removelast]; [intros []|].
    destruct l as [|y l]; [intros []|]. intros [<-|H]; [now left|right; now apply IH]. }
  now apply walk_lt in Hin.
Qed.

(* per king square and direction: the empty-board ray w; everything between the king and a
   square of w lies on w; two squares of w are ordered; rays of different directions are disjoint *)
Definition ray_facts (k : N) (e : dir) : bool :=
  let w := walk 7 e k 0 in
  forallb (fun a => if ray_in 0 e k a then
                      existsb (N.eqb a) w &&
                      forallb (fun t => existsb (N.eqb t) w) (btw e k a) &&
                      negb (existsb (N.eqb k) (btw e k a)) && negb (existsb (N.eqb a) (btw e k a))
                    else true) squares64 &&
  forallb (fun a1 => forallb (fun a2 =>
     (a1 =? a2) || existsb (N.eqb a1) (btw e k a2) || existsb (N.eqb a2) (btw e k a1)) w) w &&
  forallb (fun e2 => match e, e2 with
                     | DN, DN | DE, DE | DS, DS | DW, DW | DNE, DNE | DSE, DSE | DSW, DSW | DNW, DNW => true
                     | _, _ => forallb (fun t => negb (existsb (N.eqb t) (walk 7 e2 k 0))) w end) all_dirs.

Lemma ray_facts_check : forallb (fun k => forallb (ray_facts k) all_dirs) squares64 = true.
Proof. vm_cast_no_check (eq_refl true). Qed.

Lemma ray_facts_ok k e : k < 64 -> ray_facts k e = true.
Proof.
  intros Hk. pose proof (forall_squares _ ray_facts_check k Hk) as H. cbv beta in H.
  exact (proj1 (forallb_forall _ _) H e (in_all_dirs e)).
Qed.

Lemma btw_on_ray e k a u : k < 64 -> a < 64 -> ray_in 0 e k a = true -> In u (btw e k a) ->
  In u (walk 7 e k 0) /\ In a (walk 7 e k 0) /\ u <> k /\ u <> a.
Proof.
  intros Hk Ha Hr Hu. pose proof (ray_facts_ok k e Hk) as H. unfold ray_facts in H. cbv zeta in H.
  apply andb_true_iff in H as [H _]. apply andb_true_iff in H as [H _].
  pose proof (forall_squares _ H a Ha) as G. cbv beta in G. rewrite Hr in G.
  apply andb_true_iff in G as [G GD]. apply andb_true_iff in G as [G GC]. apply andb_true_iff in G as [GA GB].
  rewrite forallb_forall in GB. specialize (GB u Hu).
  apply existsb_eqb_In in GA, GB. apply negb_true_iff in GC, GD.
  repeat split; try assumption; intros ->; apply existsb_eqb_In in Hu; congruence.
Qed.

Lemma dir_eq_dec (e1 e2 : dir) : {e1 = e2} + {e1 <> e2}.
Proof. decide equality. Qed.

Lemma rays_disjoint k e1 e2 u : k < 64 -> In u (walk 7 e1 k 0) -> In u (walk 7 e2 k 0) -> e1 = e2.
Proof.
  intros Hk H1 H2. destruct (dir_eq_dec e1 e2) as [E|E]; [exact E|exfalso].
  pose proof (ray_facts_ok k e1 Hk) as H. unfold ray_facts in H. cbv zeta in H.
  apply andb_true_iff in H as [_ H]. rewrite forallb_forall in H. specialize (H e2 (in_all_dirs e2)).
  destruct e1, e2; try congruence; rewrite forallb_forall in H; specialize (H u H1);
    apply negb_true_iff in H; apply existsb_eqb_In in H2; congruence.
Qed.

Lemma double_block k t e1 a1 e2 a2 : k < 64 -> a1 < 64 -> a2 < 64 ->
  ray_in 0 e1 k a1 = true -> In t (btw e1 k a1) -> ray_in 0 e2 k a2 = true -> In t (btw e2 k a2) -> a1 <> a2 ->
  In a1 (btw e2 k a2) \/ In a2 (btw e1 k a1).
Proof.
  intros Hk H1 H2 R1 B1 R2 B2 Hne.
  destruct (btw_on_ray e1 k a1 t Hk H1 R1 B1) as (T1 & A1 & _).
  destruct (btw_on_ray e2 k a2 t Hk H2 R2 B2) as (T2 & A2 & _).
  assert (E : e1 = e2) by (apply (rays_disjoint k e1 e2 t Hk T1 T2)). subst e2.
  pose proof (ray_facts_ok k e1 Hk) as H. unfold ray_facts in H. cbv zeta in H.
  apply andb_true_iff in H as [H _]. apply andb_true_iff in H as [_ H].
  rewrite forallb_forall in H. specialize (H a1 A1). rewrite forallb_forall in H. specialize (H a2 A2).
  replace (a1 =? a2) with false in H by lia. cbn [orb] in H.
  apply orb_true_iff in H as [H|H]; apply existsb_eqb_In in H; auto.
Qed.

Lemma btw_not_ends e k a u : k < 64 -> a < 64 -> ray_in 0 e k a = true -> In u (btw e k a) -> u <> k /\ u <> a.
Proof. intros Hk Ha Hr Hu. destruct (btw_on_ray e k a u Hk Ha Hr Hu) as (_ & _ & A & B). now split. Qed.

(* the board after a move that changes f and t only *)
Section After.
Variables (b b' : list N) (f t pc' : N).
Hypothesis Hat : forall a, at_ b' a = if a =? t then pc' else if a =? f then 0 else at_ b a.
Hypothesis Hpc' : pc' <> 0.

Lemma free_after u : u < 64 -> free (occ_of b) u = true -> free (occ_of b') u = false -> u = t.
Proof.
  intros Hu H1 H2. unfold free in *. rewrite occ_of_testbit in H1, H2.
  replace (u <? 64) with true in * by lia. cbn [andb] in *. rewrite negb_involutive in H1, H2.
  rewrite Hat in H2. destruct (N.eqb_spec u t) as [E|E]; [exact E|].
  destruct (u =? f); [discriminate|]. congruence.
Qed.

Lemma free_kept u : u < 64 -> u <> t -> free (occ_of b) u = true -> free (occ_of b') u = true.
Proof.
  intros Hu Hne H1. unfold free in *. rewrite occ_of_testbit in *.
  replace (u <? 64) with true in * by lia. cbn [andb] in *. rewrite negb_involutive in *.
  rewrite Hat. replace (u =? t) with false by lia. destruct (u =? f); [reflexivity|exact H1].
Qed.

End After.
