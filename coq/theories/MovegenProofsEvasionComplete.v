(** * MovegenProofsEvasionComplete: evasion-mode generation omits only illegal moves (C08).

    PROVED (rules specification side, then combined with MovegenProofsEvasion):
    - [legal_in_check_kept]  if the side to move is in check, every LEGAL pseudo-legal move is
                             kept by the evasion filter [ev_keep_m]:
                             * castling is never legal in check;
                             * en passant is always generated;
                             * a legal king move goes to a square on which AttacksTo (with the king
                               still on the board) finds no attacker;
                             * every other legal move captures the checking piece or lands on a
                               square between a single sliding checker and the king — exactly
                               the engine's evasion targets; in double check only king moves
                               are legal;
    - [evasion_complete]     hence filter legal (evasion list) = filter legal (non-evasion
                             list) for every legality oracle that agrees with [Rules.is_legal]
                             on pseudo-legal moves (in particular the engine's IsLegalMove), and
                             both are permutations of the legal move list. *)
From Coq Require Import NArith ZArith List Bool Lia ZifyN ZifyBool Permutation.
From FG Require Import Word64 Geom Tables TablesCorrect ShiftCorrect Rules Oracle BitView
                       AttacksImpl AttacksLemmas AttacksProofs AttacksMoves AttacksCheckProofs AttacksLegalProofs
                       MoveEnc SqListFacts MovegenImpl MovegenLemmas MovegenSpec
                       MovegenProofsOD MovegenProofsPieces MovegenProofsPawns MovegenProofsMain
                       MovegenMakeLegal MovegenProofsLegal MovegenProofsODChess MovegenProofsEvasion.
Import ListNotations.
Open Scope N_scope.

(** ** finite geometry: squares between the king and a checking slider *)
Lemma between_btw_check :
  forallb (fun k => forallb (fun a => forallb (fun e =>
    if ray_in 0 e k a then forallb (fun t => N.testbit (between a k) t) (btw e k a) else true) all_dirs) squares64) squares64 = true.
Proof. vm_cast_no_check (eq_refl true). Qed.

Lemma between_btw k a e t : k < 64 -> a < 64 -> ray_in 0 e k a = true -> In t (btw e k a) ->
  N.testbit (between a k) t = true.
Proof.
  intros Hk Ha Hr Ht. pose proof (forall_squares _ (forall_squares _ between_btw_check k Hk) a Ha) as H. cbv beta in H.
  rewrite forallb_forall in H. specialize (H e (in_all_dirs e)). rewrite Hr in H.
  rewrite forallb_forall in H. now apply H.
Qed.

Lemma btw_lt e k a u : In u (btw e k a) -> u < 64.
Proof.
  unfold btw. intros H. assert (Hin : In u (walk 7 e k (N.shiftl 1 a))).
  { revert H. generalize (walk 7 e k (N.shiftl 1 a)). induction l as [|x l IH]; cbn [removelast]; [intros []|].
    destruct l as [|y l]; [intros []|]. intros [<-|H]; [now left|right; now apply IH]. }
  now apply walk_lt in Hin.
Qed.

(* per king square and direction: the empty-board ray w; everything between the king and a
   square of w lies on w; two squares of w are ordered; rays of different directions are disjoint *)
Definition ray_facts (k : N) (e : dir) : bool :=
  let w := walk 7 e k 0 in
  forallb (fun a => if ray_in 0 e k a then
                      existsb (N.eqb a) w &&
                      forallb (fun t => existsb (N.eqb t) w) (btw e k a) &&
                      negb (existsb (N.eqb k) (btw e k a)) && negb (existsb (N.eqb a) (btw e k a))
                    else true) squares64 &&
  forallb (fun a1 => forallb (fun a2 =>
     (a1 =? a2) || existsb (N.eqb a1) (btw e k a2) || existsb (N.eqb a2) (btw e k a1)) w) w &&
  forallb (fun e2 => match e, e2 with
                     | DN, DN | DE, DE | DS, DS | DW, DW | DNE, DNE | DSE, DSE | DSW, DSW | DNW, DNW => true
                     | _, _ => forallb (fun t => negb (existsb (N.eqb t) (walk 7 e2 k 0))) w end) all_dirs.

Lemma ray_facts_check : forallb (fun k => forallb (ray_facts k) all_dirs) squares64 = true.
Proof. vm_cast_no_check (eq_refl true). Qed.

Lemma ray_facts_ok k e : k < 64 -> ray_facts k e = true.
Proof.
  intros Hk. pose proof (forall_squares _ ray_facts_check k Hk) as H. cbv beta in H.
  exact (proj1 (forallb_forall _ _) H e (in_all_dirs e)).
Qed.

Lemma btw_on_ray e k a u : k < 64 -> a < 64 -> ray_in 0 e k a = true -> In u (btw e k a) ->
  In u (walk 7 e k 0) /\ In a (walk 7 e k 0) /\ u <> k /\ u <> a.
Proof.
  intros Hk Ha Hr Hu. pose proof (ray_facts_ok k e Hk) as H. unfold ray_facts in H. cbv zeta in H.
  apply andb_true_iff in H as [H _]. apply andb_true_iff in H as [H _].
  pose proof (forall_squares _ H a Ha) as G. cbv beta in G. rewrite Hr in G.
  apply andb_true_iff in G as [G GD]. apply andb_true_iff in G as [G GC]. apply andb_true_iff in G as [GA GB].
  rewrite forallb_forall in GB. specialize (GB u Hu).
  apply existsb_eqb_In in GA, GB. apply negb_true_iff in GC, GD.
  repeat split; try assumption; intros ->; apply existsb_eqb_In in Hu; congruence.
Qed.

Lemma dir_eq_dec (e1 e2 : dir) : {e1 = e2} + {e1 <> e2}.
Proof. decide equality. Qed.

Lemma rays_disjoint k e1 e2 u : k < 64 -> In u (walk 7 e1 k 0) -> In u (walk 7 e2 k 0) -> e1 = e2.
Proof.
  intros Hk H1 H2. destruct (dir_eq_dec e1 e2) as [E|E]; [exact E|exfalso].
  pose proof (ray_facts_ok k e1 Hk) as H. unfold ray_facts in H. cbv zeta in H.
  apply andb_true_iff in H as [_ H]. rewrite forallb_forall in H. specialize (H e2 (in_all_dirs e2)).
  destruct e1, e2; try congruence; rewrite forallb_forall in H; specialize (H u H1);
    apply negb_true_iff in H; apply existsb_eqb_In in H2; congruence.
Qed.

Lemma double_block k t e1 a1 e2 a2 : k < 64 -> a1 < 64 -> a2 < 64 ->
  ray_in 0 e1 k a1 = true -> In t (btw e1 k a1) -> ray_in 0 e2 k a2 = true -> In t (btw e2 k a2) -> a1 <> a2 ->
  In a1 (btw e2 k a2) \/ In a2 (btw e1 k a1).
Proof.
  intros Hk H1 H2 R1 B1 R2 B2 Hne.
  destruct (btw_on_ray e1 k a1 t Hk H1 R1 B1) as (T1 & A1 & _).
  destruct (btw_on_ray e2 k a2 t Hk H2 R2 B2) as (T2 & A2 & _).
  assert (E : e1 = e2) by (apply (rays_disjoint k e1 e2 t Hk T1 T2)). subst e2.
  pose proof (ray_facts_ok k e1 Hk) as H. unfold ray_facts in H. cbv zeta in H.
  apply andb_true_iff in H as [H _]. apply andb_true_iff in H as [_ H].
  rewrite forallb_forall in H. specialize (H a1 A1). rewrite forallb_forall in H. specialize (H a2 A2).
  replace (a1 =? a2) with false in H by lia. cbn [orb] in H.
  apply orb_true_iff in H as [H|H]; apply existsb_eqb_In in H; auto.
Qed.

Lemma btw_not_ends e k a u : k < 64 -> a < 64 -> ray_in 0 e k a = true -> In u (btw e k a) -> u <> k /\ u <> a.
Proof. intros Hk Ha Hr Hu. destruct (btw_on_ray e k a u Hk Ha Hr Hu) as (_ & _ & A & B). now split. Qed.

Lemma forallb_false_ex {A} (f : A -> bool) (l : list A) : forallb f l = false -> exists u, In u l /\ f u = false.
Proof.
  induction l as [|x l IH]; cbn [forallb]; intros H; [discriminate|].
  destruct (f x) eqn:X.
  - cbn [andb] in H. destruct (IH H) as [u [Hu1 Hu2]]. exists u. split; [now right|exact Hu2].
  - exists x. split; [now left|exact X].
Qed.

Lemma free_occ b u : u < 64 -> free (occ_of b) u = (at_ b u =? 0).
Proof.
  intros Hu. unfold free. rewrite occ_of_testbit. replace (u <? 64) with true by lia. cbn [andb]. apply negb_involutive.
Qed.

(* the board after a move that changes f and t only *)
Section After.
Variables (b b' : list N) (f t pc' : N).
Hypothesis Hat : forall a, at_ b' a = if a =? t then pc' else if a =? f then 0 else at_ b a.
Hypothesis Hpc' : pc' <> 0.

Lemma free_after u : u < 64 -> free (occ_of b) u = true -> free (occ_of b') u = false -> u = t.
Proof.
  intros Hu H1 H2. rewrite free_occ in H1, H2 by exact Hu. apply N.eqb_eq in H1. apply N.eqb_neq in H2.
  rewrite Hat in H2. destruct (N.eqb_spec u t) as [E|E]; [exact E|exfalso].
  destruct (u =? f); [now apply H2|]. now apply H2.
Qed.

Lemma free_kept u : u < 64 -> u <> t -> free (occ_of b) u = true -> free (occ_of b') u = true.
Proof.
  intros Hu Hne H1. rewrite free_occ in * by exact Hu. apply N.eqb_eq in H1. apply N.eqb_eq.
  rewrite Hat. destruct (N.eqb_spec u t) as [E|E]; [contradiction|]. destruct (u =? f); [reflexivity|exact H1].
Qed.

Lemma ray_blocked e k a : ray_in (occ_of b) e k a = true -> ray_in (occ_of b') e k a = false ->
  ray_in 0 e k a = true /\ forallb (free (occ_of b)) (btw e k a) = true /\ In t (btw e k a).
Proof.
  intros Hr Hr'. rewrite ray_in_char in Hr, Hr'. apply andb_true_iff in Hr as [R0 Rf]. rewrite R0 in Hr'. cbn [andb] in Hr'.
  split; [exact R0|]. split; [exact Rf|].
  destruct (forallb_false_ex _ _ Hr') as [u [Hu1 Hu2]].
  rewrite forallb_forall in Rf. pose proof (Rf u Hu1) as Hu3.
  pose proof (btw_lt _ _ _ _ Hu1) as Hu64. assert (E : u = t) by (now apply free_after). now rewrite <- E.
Qed.

End After.

(** ** legal moves of a position in check *)
Section Complete.
Variable p : pos.
Hypothesis Hlegal : legal_pos p = true.
Hypothesis Hchk : in_check p = true.

Local Notation b := (brd p).
Local Notation c := (stm p).
Local Notation ec := (flip (stm p)).
Local Notation k := (king_sq (brd p) (stm p)).

Lemma Cw : wfp p. Proof. now apply legal_wfp. Qed.
Lemma Cc : c < 2. Proof. exact (wf_stm p Cw). Qed.
Lemma Cec : ec < 2 /\ ec <> c. Proof. pose proof Cc. unfold flip. lia. Qed.
Lemma Clen : length b = 64%nat. Proof. exact (wf_len p Cw). Qed.

Lemma Cking : k < 64 /\ at_ b k = mk_piece c KING /\ (forall s, s < 64 -> at_ b s = mk_piece c KING -> s = k).
Proof.
  pose proof (legal_pos_facts p Hlegal) as L. destruct (lf_own_king p _ L) as [A B]. repeat split; try assumption.
  exact (lf_own_uniq p _ L).
Qed.

Lemma Cattacked : attacked b k ec = true.
Proof. exact Hchk. Qed.

(* the shape of a move that is neither castling nor en passant *)
Lemma simple_move_facts m : In m (pseudo p) -> mtype m <> CASTLING -> mtype m <> ENPASSANT ->
  mfrom m < 64 /\ mto m < 64 /\ (mtype m = NORMAL \/ mtype m = PROMOTION) /\
  at_ b (mfrom m) <> 0 /\ colour_of (at_ b (mfrom m)) = c /\
  (at_ b (mto m) = 0 \/ (at_ b (mto m) <> 0 /\ colour_of (at_ b (mto m)) <> c)) /\
  (mtype m = PROMOTION -> type_of (at_ b (mfrom m)) = PAWN /\ 3 <= mprom m <= 6).
Proof.
  intros Hm Hc He. destruct (pseudo_inv p m Hm) as [Hf Ht Hnz Hcol Hto Hty|E|kf kt rf bit em Hin E].
  - split; [exact Hf|]. split; [exact Ht|]. split; [destruct Hty as [[E _]|[E _]]; auto|].
    split; [exact Hnz|]. split; [exact Hcol|]. split; [destruct Hto as [H|(H1 & H2 & _)]; auto|].
    intros E. destruct Hty as [[E' _]|(_ & A & B)]; [rewrite E in E'; discriminate|now split].
  - contradiction.
  - rewrite E in Hc. now contradiction Hc.
Qed.

(* the piece arriving on the to square *)
Definition arriving (m : mv) : N :=
  if mtype m =? PROMOTION then mk_piece c (mprom m) else at_ b (mfrom m).

Lemma after_simple m : In m (pseudo p) -> mtype m <> CASTLING -> mtype m <> ENPASSANT ->
  (forall a, at_ (brd (make p m)) a =
             if a =? mto m then arriving m else if a =? mfrom m then 0 else at_ b a) /\
  arriving m <> 0 /\ colour_of (arriving m) = c /\
  (arriving m = mk_piece c KING -> type_of (at_ b (mfrom m)) = KING).
Proof.
  intros Hm Hc He. destruct (simple_move_facts m Hm Hc He) as (Hf & Ht & Hty & Hnz & Hcol & Hto & Hpr).
  pose proof Cc as Hcc. split; [|split; [|split]].
  - intros a. now apply at_make_simple; [apply Clen| | |].
  - unfold arriving. destruct (N.eqb_spec (mtype m) PROMOTION) as [E|E]; [|exact Hnz].
    destruct (Hpr E) as [_ B]. apply mkp_nz. clear - B. lia.
  - unfold arriving. destruct (N.eqb_spec (mtype m) PROMOTION) as [E|E]; [|exact Hcol].
    destruct (Hpr E) as [_ B]. apply mk_piece_colour. clear - B. lia.
  - unfold arriving. destruct (N.eqb_spec (mtype m) PROMOTION) as [E|E].
    + destruct (Hpr E) as [_ B]. intros X. apply mk_piece_inj in X; [|clear - B; lia|unfold KING; lia].
      destruct X as [_ X]. clear - B X. unfold KING in X. lia.
    + intros X. rewrite X. apply mk_piece_type. unfold KING. lia.
Qed.

(* the own king stays where it is when another piece moves *)
Lemma king_stays m : In m (pseudo p) -> mtype m <> CASTLING -> mtype m <> ENPASSANT -> mover p m <> KING ->
  king_sq (brd (make p m)) c = k /\ k <> mfrom m /\ k <> mto m.
Proof.
  intros Hm Hc He Hmv. destruct Cking as (K1 & K2 & K3).
  destruct (simple_move_facts m Hm Hc He) as (Hf & Ht & Hty & Hnz & Hcol & Hto & Hpr).
  destruct (after_simple m Hm Hc He) as (Hat & A1 & A2 & A3).
  assert (Nf : k <> mfrom m).
  { intros E. apply Hmv. unfold mover, piece_at. rewrite <- E, K2. apply mk_piece_type. unfold KING. lia. }
  assert (Nt : k <> mto m).
  { intros E. rewrite <- E, K2 in Hto. destruct Hto as [Hto|[_ Hto]].
    - now apply mkp_king_nz in Hto.
    - rewrite mkp_colour_king in Hto. now apply Hto. }
  split; [|split; assumption].
  apply king_sq_intro; [exact K1| |].
  - rewrite Hat. replace (k =? mto m) with false by (symmetry; now apply N.eqb_neq).
    replace (k =? mfrom m) with false by (symmetry; now apply N.eqb_neq). exact K2.
  - intros s Hs E. rewrite Hat in E. destruct (N.eqb_spec s (mto m)) as [Es|Es].
    + exfalso. apply Hmv. unfold mover, piece_at. now apply A3.
    + destruct (N.eqb_spec s (mfrom m)) as [Es'|Es']; [symmetry in E; now apply mkp_king_nz in E|now apply K3].
Qed.

(* what a legal non-king move does to each checking piece *)
Lemma legal_blocks m : In m (pseudo p) -> is_legal p m = true ->
  mtype m <> CASTLING -> mtype m <> ENPASSANT -> mover p m <> KING ->
  forall a, a < 64 -> att_from b k ec a = true ->
  mto m = a \/
  (slider (type_of (at_ b a)) /\
   exists e, ray_in 0 e k a = true /\ forallb (free (occ_of b)) (btw e k a) = true /\ In (mto m) (btw e k a)).
Proof.
  intros Hm His Hc He Hmv a Ha Hatt. destruct Cking as (K1 & K2 & K3). destruct Cec as [E1 E2].
  destruct (simple_move_facts m Hm Hc He) as (Hf & Ht & Hty & Hnz & Hcol & Hto & Hpr).
  destruct (after_simple m Hm Hc He) as (Hat & A1 & A2 & A3).
  destruct (king_stays m Hm Hc He Hmv) as (Hks & Nf & Nt).
  destruct (N.eq_dec (mto m) a) as [Eta|Nta]; [now left|right].
  pose proof (legal_king_safe p m His) as Hsafe. rewrite Hks in Hsafe.
  pose proof (not_attacked_all _ k ec K1 E1 Hsafe a Ha) as Hna.
  apply att_from_inv in Hatt as (ty & Hty' & Haty & Hcl).
  assert (Naf : a <> mfrom m).
  { intros E. rewrite E in Haty. rewrite Haty, mk_piece_colour in Hcol by (clear - Hty'; lia). now apply E2. }
  assert (Haty' : at_ (brd (make p m)) a = mk_piece ec ty).
  { rewrite Hat. replace (a =? mto m) with false by (symmetry; apply N.eqb_neq; congruence).
    replace (a =? mfrom m) with false by (symmetry; now apply N.eqb_neq). exact Haty. }
  rewrite (att_from_piece _ k ec a ty Haty') in Hna by (clear - Hty'; lia).
  destruct (type_cases ty Hty') as [Hns|Hsl].
  - rewrite (nonslider_clause (brd (make p m)) b k ec a ty Hns) in Hna. congruence.
  - rewrite Haty, mk_piece_type by (clear - Hty'; lia). split; [exact Hsl|].
    rewrite (slider_clause b k ec a ty Hsl K1 Ha) in Hcl.
    rewrite (slider_clause (brd (make p m)) k ec a ty Hsl K1 Ha) in Hna.
    unfold slide_in in Hcl, Hna. apply existsb_exists in Hcl as [e [He' Hr]].
    assert (Hr' : ray_in (occ_of (brd (make p m))) e k a = false).
    { destruct (ray_in (occ_of (brd (make p m))) e k a) eqn:X; [|reflexivity].
      assert (Y : existsb (fun d => ray_in (occ_of (brd (make p m))) d k a) (dirs_of ty) = true)
        by (apply existsb_exists; now exists e). congruence. }
    exists e. exact (ray_blocked b (brd (make p m)) (mfrom m) (mto m) (arriving m) Hat e k a Hr Hr').
Qed.

(** *** the checking pieces as a word *)
Lemma no_ep_on_king : ep_conv2 p k ec = [].
Proof.
  destruct Cking as (K1 & K2 & K3). unfold ep_conv2.
  destruct (ep_facts p Hlegal) as [He|[He He0]]; [rewrite He; reflexivity|].
  replace (ep p =? 64) with false by (clear - He; lia). cbn [orb].
  destruct (N.eqb_spec k (ep p)) as [E|E]; [|reflexivity].
  exfalso. rewrite <- E, K2 in He0. now apply mkp_king_nz in He0.
Qed.

Lemma king_attackers_word : king_attackers p = bb_filter (att_from b k ec).
Proof.
  unfold king_attackers, attacks_to_spec. rewrite no_ep_on_king, attackers_word. cbn [bb_of fold_right]. apply N.lor_0_r.
Qed.

Lemma king_attackers_bit a : N.testbit (king_attackers p) a = (a <? 64) && att_from b k ec a.
Proof. rewrite king_attackers_word. apply bb_filter_testbit. Qed.

Lemma king_attackers_lt : king_attackers p < W64.
Proof. rewrite king_attackers_word. apply bb_filter_lt. Qed.

Lemma some_checker : exists a, a < 64 /\ att_from b k ec a = true.
Proof. destruct Cking as (K1 & _). destruct Cec as [E1 _]. apply (attacked_ex b k ec K1 E1). exact Cattacked. Qed.

(** *** counting set bits *)
Lemma other_element (l : list N) a0 : NoDup l -> In a0 l -> length l <> 1%nat -> exists a1, In a1 l /\ a1 <> a0.
Proof.
  intros Hnd Hin Hlen. destruct l as [|x [|y r]]; [destruct Hin|cbn in Hlen; congruence|].
  inversion Hnd as [|? ? Hx _]; subst.
  destruct (N.eq_dec a0 x) as [->|E].
  - exists y. split; [right; now left|]. intros ->. apply Hx. now left.
  - exists x. split; [now left|congruence].
Qed.

Lemma popcount_one W a0 : W < W64 -> popcount W = 1%nat -> N.testbit W a0 = true ->
  lsb W = a0 /\ forall a, N.testbit W a = true -> a = a0.
Proof.
  intros HW Hp Ha. pose proof (sq_list_of_bb_length W HW) as Hl. rewrite Hp in Hl.
  destruct (sq_list_of_bb W) as [|x [|y r]] eqn:E; try discriminate.
  assert (Hin : forall a, N.testbit W a = true -> a = x).
  { intros a Hb. apply (sq_list_in W a HW) in Hb. rewrite E in Hb. destruct Hb as [Hb|[]]. now symmetry. }
  assert (Ex : x = a0) by (symmetry; now apply Hin). subst x. split; [|exact Hin].
  assert (Hnz : W <> 0) by (intros Z; rewrite Z, N.bits_0 in Ha; discriminate).
  apply Hin. now apply lsb_spec.
Qed.

Lemma popcount_many W a0 : W < W64 -> popcount W <> 1%nat -> N.testbit W a0 = true ->
  exists a1, a1 <> a0 /\ N.testbit W a1 = true.
Proof.
  intros HW Hp Ha. pose proof (sq_list_of_bb_length W HW) as Hl.
  destruct (other_element (sq_list_of_bb W) a0) as [a1 [H1 H2]].
  - apply sq_list_of_bb_NoDup_any.
  - now apply (sq_list_in W a0 HW).
  - congruence.
  - exists a1. split; [exact H2|now apply (sq_list_in W a1 HW)].
Qed.

(** *** a legal non-king move lands on an evasion target *)
Lemma legal_target_in_evt m : In m (pseudo p) -> is_legal p m = true ->
  mtype m <> CASTLING -> mtype m <> ENPASSANT -> mover p m <> KING ->
  N.testbit (evasion_targets_spec p) (mto m) = true.
Proof.
  intros Hm His Hc He Hmv. destruct Cking as (K1 & K2 & K3).
  destruct some_checker as [a0 [Ha0 Hatt0]].
  assert (Hb0 : N.testbit (king_attackers p) a0 = true).
  { rewrite king_attackers_bit, Hatt0. clear - Ha0. lia. }
  pose proof (legal_blocks m Hm His Hc He Hmv) as Hblk.
  unfold evasion_targets_spec. cbv zeta.
  destruct (popcount (king_attackers p) =? 1)%nat eqn:Ep.
  - apply Nat.eqb_eq in Ep. destruct (popcount_one _ a0 king_attackers_lt Ep Hb0) as [Hl _]. rewrite Hl.
    destruct (Hblk a0 Ha0 Hatt0) as [Et|[Hsl [e [R0 [Rf Hin]]]]].
    + assert (X : N.testbit (king_attackers p) (mto m) = true) by (now rewrite Et).
      destruct (KNIGHT <? type_of (at_ b a0)); [rewrite N.lor_spec, X; reflexivity|exact X].
    + replace (KNIGHT <? type_of (at_ b a0)) with true
        by (clear - Hsl; unfold slider, KNIGHT, BISHOP, ROOK, QUEEN in *; lia).
      rewrite N.lor_spec, (between_btw k a0 e (mto m) K1 Ha0 R0 Hin). apply orb_true_r.
  - apply Nat.eqb_neq in Ep.
    destruct (N.testbit (king_attackers p) (mto m)) eqn:X; [reflexivity|exfalso].
    destruct (popcount_many _ a0 king_attackers_lt Ep Hb0) as [a1 [Hne Hb1]].
    rewrite king_attackers_bit in Hb1. apply andb_true_iff in Hb1 as [Ha1 Hatt1]. apply N.ltb_lt in Ha1.
    assert (N0 : mto m <> a0) by (intros E; rewrite E, Hb0 in X; discriminate).
    assert (N1 : mto m <> a1).
    { intros E. rewrite E, king_attackers_bit, Hatt1 in X. clear - X Ha1. lia. }
    destruct (Hblk a0 Ha0 Hatt0) as [Et|[_ [e0 [R0 [Rf0 Hin0]]]]]; [contradiction|].
    destruct (Hblk a1 Ha1 Hatt1) as [Et|[_ [e1 [R1 [Rf1 Hin1]]]]]; [contradiction|].
    assert (Occ : forall a, a < 64 -> att_from b k ec a = true -> free (occ_of b) a = false).
    { intros a Ha Hatt. rewrite free_occ by exact Ha. apply att_from_inv in Hatt as (ty & Hty & Haty & _).
      rewrite Haty. apply N.eqb_neq. apply mkp_nz. clear - Hty. lia. }
    destruct (double_block k (mto m) e0 a0 e1 a1 K1 Ha0 Ha1 R0 Hin0 R1 Hin1 (not_eq_sym Hne)) as [D|D].
    + rewrite forallb_forall in Rf1. specialize (Rf1 a0 D). rewrite (Occ a0 Ha0 Hatt0) in Rf1. discriminate.
    + rewrite forallb_forall in Rf0. specialize (Rf0 a1 D). rewrite (Occ a1 Ha1 Hatt1) in Rf0. discriminate.
Qed.


(** *** king moves *)
Lemma self_attack_check :
  forallb (fun x => forallb (fun t => negb (existsb (N.eqb t) (pawn_attack_targets x t))) squares64) [0; 1] = true.
Proof. vm_compute. reflexivity. Qed.

Lemma no_self_attack bd t x a ty : t < 64 -> x < 2 -> 1 <= ty <= 6 -> type_clause bd t x a ty = true -> a <> t.
Proof.
  intros Ht Hx Hty Hcl E. subst a. unfold type_clause in Hcl.
  assert (Hs : forall ty', ~ In t (spec_targets bd ty' t)) by (intros ty'; now apply targets_not_self).
  destruct (ty =? PAWN).
  { pose proof self_attack_check as H. rewrite forallb_forall in H. assert (Hin : In x [0;1]) by (cbn; lia).
    pose proof (forall_squares _ (H x Hin) t Ht) as G. cbv beta in G. now rewrite Hcl in G. }
  destruct (ty =? KNIGHT) eqn:E1; [apply existsb_eqb_In in Hcl; apply (Hs KNIGHT); exact Hcl|].
  destruct (ty =? KING) eqn:E2; [apply existsb_eqb_In in Hcl; apply (Hs KING); exact Hcl|].
  destruct (ty =? ROOK) eqn:E3; [apply existsb_eqb_In in Hcl; apply (Hs ROOK); exact Hcl|].
  destruct (ty =? BISHOP) eqn:E4; [apply existsb_eqb_In in Hcl; apply (Hs BISHOP); exact Hcl|].
  destruct (ty =? QUEEN) eqn:E5; [apply existsb_eqb_In in Hcl; apply (Hs QUEEN); exact Hcl|discriminate].
Qed.

(* the engine's second en passant convention marks a square only if a pawn really attacks it *)
Lemma ep_conv2_check :
  forallb (fun x => forallb (fun e =>
    if (8 <=? e) && (e <? 56) then
      let ps := if x =? WHITE then e - 8 else e + 8 in
      (negb (0 <? file_of ps) || ((ps - 1 <? 64) && existsb (N.eqb e) (pawn_attack_targets x (ps - 1)))) &&
      (negb (file_of ps <? 7) || ((ps + 1 <? 64) && existsb (N.eqb e) (pawn_attack_targets x (ps + 1))))
    else true) squares64) [0; 1] = true.
Proof. vm_compute. reflexivity. Qed.

Lemma ep_conv2_attacked t : (forall a, a < 64 -> att_from b t ec a = false) -> ep_conv2 p t ec = [].
Proof.
  intros Hno. destruct Cec as [E1 _]. unfold ep_conv2.
  destruct ((ep p =? 64) || negb (t =? ep p)) eqn:E0; [reflexivity|].
  apply orb_false_iff in E0 as [Ee Et]. apply negb_false_iff, N.eqb_eq in Et. subst t.
  assert (Hr : 8 <= ep p < 56).
  { assert (He : ep p < 64) by (destruct (ep_facts p Hlegal) as [H|[H _]]; [rewrite H in Ee; discriminate|exact H]).
    pose proof (legal_pos_inv p Hlegal) as (_ & _ & _ & _ & _ & _ & _ & _ & _ & Hep).
    unfold ep_ok in Hep. rewrite Ee in Hep. repeat (apply andb_true_iff in Hep as [Hep ?]).
    assert (G : forallb (fun e => negb ((rank_of e =? 5) || (rank_of e =? 2)) || ((8 <=? e) && (e <? 56))) squares64 = true)
      by (vm_compute; reflexivity).
    pose proof (forall_squares _ G (ep p) He) as G'. cbv beta in G'.
    clear - Hep G'. destruct (stm p =? WHITE); lia. }
  set (ps := if ec =? WHITE then ep p - 8 else ep p + 8).
  destruct ((ps <? 64) && _) eqn:Ec; [exfalso|reflexivity].
  apply andb_true_iff in Ec as [Hps Hn].
  pose proof ep_conv2_check as H. rewrite forallb_forall in H. assert (Hin : In ec [0;1]) by (cbn [In]; clear - E1; lia).
  assert (He64 : ep p < 64) by (clear - Hr; lia).
  pose proof (forall_squares _ (H ec Hin) (ep p) He64) as G. cbv beta zeta in G.
  replace ((8 <=? ep p) && (ep p <? 56)) with true in G by (clear - Hr; lia). fold ps in G.
  apply andb_true_iff in G as [G1 G2].
  assert (Pawn : forall x, x < 64 -> piece_at p x = mk_piece ec PAWN -> existsb (N.eqb (ep p)) (pawn_attack_targets ec x) = true ->
                 False).
  { intros x Hx Hpx Hat. specialize (Hno x Hx).
    rewrite (att_from_piece b (ep p) ec x PAWN Hpx) in Hno by (unfold PAWN; lia).
    unfold type_clause in Hno. rewrite N.eqb_refl in Hno. congruence. }
  apply orb_true_iff in Hn as [Hn|Hn]; apply andb_true_iff in Hn as [Hf Hp]; apply N.eqb_eq in Hp.
  - rewrite Hf in G1. cbn [negb orb] in G1. apply andb_true_iff in G1 as [X1 X2]. apply N.ltb_lt in X1. now apply (Pawn (ps - 1)).
  - rewrite Hf in G2. cbn [negb orb] in G2. apply andb_true_iff in G2 as [X1 X2]. apply N.ltb_lt in X1. now apply (Pawn (ps + 1)).
Qed.

Lemma king_move_safe m : In m (pseudo p) -> is_legal p m = true ->
  mtype m <> CASTLING -> mtype m <> ENPASSANT -> mover p m = KING -> king_safe p (mto m) = true.
Proof.
  intros Hm His Hc He Hmv. destruct Cking as (K1 & K2 & K3). destruct Cec as [E1 E2]. pose proof Cc as Hcc.
  destruct (simple_move_facts m Hm Hc He) as (Hf & Ht & Hty & Hnz & Hcol & Hto & Hpr).
  destruct (after_simple m Hm Hc He) as (Hat & A1 & A2 & A3).
  (* the mover is the king *)
  assert (Hfk : mfrom m = k).
  { apply K3; [exact Hf|]. destruct (piece_split _ (wf_codes p Cw (mfrom m)) Hnz) as (Hsp & _ & _).
    unfold mover, piece_at in Hmv. rewrite Hsp, Hcol, Hmv. reflexivity. }
  assert (Hnorm : mtype m = NORMAL).
  { destruct Hty as [E|E]; [exact E|]. destruct (Hpr E) as [X _]. unfold mover, piece_at in Hmv. rewrite Hmv in X. discriminate. }
  assert (Harr : arriving m = mk_piece c KING).
  { unfold arriving. rewrite Hnorm. change (NORMAL =? PROMOTION) with false. cbv iota. now rewrite Hfk. }
  assert (Ntk : mto m <> k).
  { intros E. rewrite E, K2 in Hto. destruct Hto as [Hto|[_ Hto]]; [now apply mkp_king_nz in Hto|].
    rewrite mkp_colour_king in Hto. now apply Hto. }
  (* after the move the king stands on the to square and is not attacked there *)
  assert (Hks : king_sq (brd (make p m)) c = mto m).
  { apply king_sq_intro; [exact Ht| |].
    - rewrite Hat, N.eqb_refl. exact Harr.
    - intros s Hs E. rewrite Hat in E. destruct (N.eqb_spec s (mto m)) as [Es|Es]; [exact Es|exfalso].
      destruct (N.eqb_spec s (mfrom m)) as [Es'|Es']; [symmetry in E; now apply mkp_king_nz in E|].
      apply Es'. rewrite Hfk. now apply K3. }
  pose proof (legal_king_safe p m His) as Hsafe. rewrite Hks in Hsafe.
  pose proof (not_attacked_all _ (mto m) ec Ht E1 Hsafe) as Hna.
  (* so no piece attacks the to square now *)
  assert (Hno : forall a, a < 64 -> att_from b (mto m) ec a = false).
  { intros a Ha. destruct (att_from b (mto m) ec a) eqn:Hatt; [exfalso|reflexivity].
    specialize (Hna a Ha). apply att_from_inv in Hatt as (ty & Hty' & Haty & Hcl).
    assert (Nat : a <> mto m) by (apply (no_self_attack b (mto m) ec a ty Ht E1 Hty' Hcl)).
    assert (Naf : a <> mfrom m).
    { intros E. rewrite E in Haty. rewrite Haty, mk_piece_colour in Hcol by (clear - Hty'; lia). now apply E2. }
    assert (Haty' : at_ (brd (make p m)) a = mk_piece ec ty).
    { rewrite Hat. replace (a =? mto m) with false by (symmetry; now apply N.eqb_neq).
      replace (a =? mfrom m) with false by (symmetry; now apply N.eqb_neq). exact Haty. }
    rewrite (att_from_piece _ (mto m) ec a ty Haty') in Hna by (clear - Hty'; lia).
    destruct (type_cases ty Hty') as [Hns|Hsl].
    - rewrite (nonslider_clause (brd (make p m)) b (mto m) ec a ty Hns) in Hna. congruence.
    - rewrite (slider_clause b (mto m) ec a ty Hsl Ht Ha) in Hcl.
      rewrite (slider_clause (brd (make p m)) (mto m) ec a ty Hsl Ht Ha) in Hna.
      unfold slide_in in Hcl, Hna. apply existsb_exists in Hcl as [e [He' Hr]].
      assert (Y : existsb (fun d => ray_in (occ_of (brd (make p m))) d (mto m) a) (dirs_of ty) = true); [|congruence].
      apply existsb_exists. exists e. split; [exact He'|].
      rewrite ray_in_char in Hr. apply andb_true_iff in Hr as [R0 Rf]. rewrite ray_in_char, R0. cbn [andb].
      apply forallb_forall. intros u Hu. rewrite forallb_forall in Rf.
      destruct (btw_not_ends e (mto m) a u Ht Ha R0 Hu) as [Nu _].
      apply (free_kept b (brd (make p m)) (mfrom m) (mto m) (arriving m) Hat u (btw_lt _ _ _ _ Hu) Nu). now apply Rf. }
  unfold king_safe. apply Nat.eqb_eq. apply popcount_0_iff.
  unfold attacks_to_spec. rewrite (ep_conv2_attacked (mto m) Hno), attackers_word. cbn [bb_of fold_right]. rewrite N.lor_0_r.
  apply N.bits_inj_0. intros a. rewrite bb_filter_testbit. destruct (N.ltb_spec a 64) as [Ha|Ha]; [|reflexivity].
  now rewrite (Hno a Ha).
Qed.

(** *** castling *)
Lemma castle_illegal m : In m (pseudo p) -> mtype m = CASTLING -> is_legal p m = false.
Proof.
  intros Hm Hc. destruct Cking as (K1 & K2 & K3).
  destruct (pseudo_inv p m Hm) as [Hf Ht Hnz Hcol Hto Hty|E|kf kt rf bit em Hin E Hk Hr Hem].
  - destruct Hty as [[E _]|[E _]]; rewrite E in Hc; discriminate.
  - rewrite E in Hc. discriminate.
  - unfold is_legal. rewrite Hc, N.eqb_refl.
    assert (Ekf : mfrom m = k).
    { rewrite E. cbn [mfrom]. unfold is_piece in Hk. apply N.eqb_eq in Hk. apply K3; [|exact Hk].
      apply castles_in in Hin. clear - Hin.
      decompose [or] Hin; match goal with X : (_, _, _, _, _) = _ |- _ => injection X as -> -> -> -> -> end; lia. }
    rewrite Ekf, Cattacked. reflexivity.
Qed.

(** *** the theorem *)
Theorem legal_in_check_kept m : In m (pseudo p) -> is_legal p m = true -> ev_keep_m p m = true.
Proof.
  intros Hm His. unfold ev_keep_m.
  destruct (N.eqb_spec (mtype m) CASTLING) as [Ec|Ec].
  { rewrite (castle_illegal m Hm Ec) in His. discriminate. }
  destruct (N.eqb_spec (mtype m) ENPASSANT) as [Ee|Ee]; [reflexivity|].
  destruct (N.eqb_spec (mover p m) KING) as [Ek|Ek].
  - now apply king_move_safe.
  - now apply legal_target_in_evt.
Qed.

End Complete.

(** ** evasion generation omits only illegal moves *)
Theorem evasion_complete prom_nq p (legal : N -> bool) : legal_pos p = true -> in_check p = true ->
  (forall m, In m (pseudo p) -> legal (code m) = is_legal p m) ->
  exists le l,
    gen_pseudo prom_nq (view_of_spec p) 3 true = Some le /\
    gen_pseudo prom_nq (view_of_spec p) 3 false = Some l /\
    filter legal le = filter legal l /\
    Permutation (filter legal le) (map code (Rules.legal p)).
Proof.
  intros Hl Hchk Hag.
  destruct (gen_pseudo_evasion_filter prom_nq p Hl 3) as (l & H1 & H2).
  exists (filter (ev_keep p) l), l. split; [exact H2|]. split; [exact H1|].
  destruct (pseudo_exact prom_nq p Hl) as (l' & E' & Pl & _). rewrite H1 in E'. apply some_inj in E'. subst l'.
  assert (Heq : filter legal (filter (ev_keep p) l) = filter legal l).
  { rewrite filter_filter. apply filter_ext_in. intros x Hx.
    apply (Permutation_in _ Pl) in Hx. apply in_map_iff in Hx as [m [<- Hm]].
    pose proof (pseudo_valid p m (legal_wfp p Hl) Hm) as Hv.
    unfold ev_keep. rewrite (decode_mv_code m Hv), (Hag m Hm).
    destruct (is_legal p m) eqn:E; [|apply andb_false_r].
    now rewrite (legal_in_check_kept p Hl Hchk m Hm E). }
  split; [exact Heq|]. rewrite Heq.
  destruct (legal_moves_exact_oracle prom_nq p Hl legal Hag) as (ll & Hg & Pll & _).
  unfold gen_legal in Hg. rewrite H1 in Hg. cbn [bind] in Hg. apply some_inj in Hg. now rewrite Hg.
Qed.

(* with the engine's IsLegalMove *)
Theorem evasion_complete_engine prom_nq p : legal_pos p = true -> in_check p = true ->
  exists le l,
    gen_pseudo prom_nq (view_of_spec p) 3 true = Some le /\
    gen_pseudo prom_nq (view_of_spec p) 3 false = Some l /\
    filter (eng_legal p) le = filter (eng_legal p) l /\
    Permutation (filter (eng_legal p) le) (map code (Rules.legal p)).
Proof.
  intros Hl Hchk. apply evasion_complete; try assumption. intros m Hm. now apply engine_legal_agrees.
Qed.

Print Assumptions legal_in_check_kept.
Print Assumptions evasion_complete_engine.
