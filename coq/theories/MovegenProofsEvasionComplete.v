(** * MovegenProofsEvasionComplete: evasion-mode generation omits only illegal moves (C08).

    PROVED (rules specification side, then combined with MovegenProofsEvasion):
    - [legal_in_check_kept]  if the side to move is in check, every LEGAL pseudo-legal move is
                             kept by the evasion filter [ev_keep_m]:
                             * castling is never legal in check;
                             * en passant is always generated;
                             * a legal king move goes to a square on which AttacksTo (with the king
                               still on the board) finds no attacker;
                             * every other legal move captures the checking piece or lands on a
                               square between a single sliding checker and the king — exactly
                               the engine's evasion targets; in double check only king moves
                               are legal;
    - [evasion_complete]     hence filter legal (evasion list) = filter legal (non-evasion
                             list) for every legality oracle that agrees with [Rules.is_legal]
                             on pseudo-legal moves (in particular the engine's IsLegalMove), and
                             both are permutations of the legal move list. *)
From Coq Require Import NArith ZArith List Bool Lia ZifyN ZifyBool Permutation.
From FG Require Import Word64 Geom Tables TablesCorrect ShiftCorrect Rules Oracle BitView
                       AttacksImpl AttacksLemmas AttacksProofs AttacksMoves AttacksCheckProofs AttacksLegalProofs
                       MoveEnc SqListFacts MovegenImpl MovegenLemmas MovegenSpec
                       MovegenProofsOD MovegenProofsPieces MovegenProofsPawns MovegenProofsMain
                       MovegenMakeLegal MovegenProofsLegal MovegenProofsEvasion.
Import ListNotations.
Open Scope N_scope.

(** ** finite geometry: squares between the king and a checking slider *)
Lemma between_btw_check :
  forallb (fun k => forallb (fun a => forallb (fun e =>
    if ray_in 0 e k a then forallb (fun t => N.testbit (between a k) t) (btw e k a) else true) all_dirs) squares64) squares64 = true.
Proof. vm_cast_no_check (eq_refl true). Qed.

Lemma between_btw k a e t : k < 64 -> a < 64 -> ray_in 0 e k a = true -> In t (btw e k a) ->
  N.testbit (between a k) t = true.
Proof.
  intros Hk Ha Hr Ht. pose proof (forall_squares _ (forall_squares _ between_btw_check k Hk) a Ha) as H. cbv beta in H.
  rewrite forallb_forall in H. specialize (H e (in_all_dirs e)). rewrite Hr in H.
  rewrite forallb_forall in H. now apply H.
Qed.

Lemma btw_lt e k a u : In u (btw e k a) -> u < 64.
Proof.
  unfold btw. intros H. assert (Hin : In u (walk 7 e k (N.shiftl 1 a))).
  { revert H. generalize (walk 7 e k (N.shiftl 1 a)). induction l as [|x l IH]; cbn [removelast]; [intros []|].
    destruct l as [|y l]; [intros []|]. intros [<-|H]; [now left|right; now apply IH]. }
  now apply walk_lt in Hin.
Qed.

(* per king square and direction: the empty-board ray w; everything between the king and a
   square of w lies on w; two squares of w are ordered; rays of different directions are disjoint *)
Definition ray_facts (k : N) (e : dir) : bool :=
  let w := walk 7 e k 0 in
  forallb (fun a => if ray_in 0 e k a then
                      existsb (N.eqb a) w &&
                      forallb (fun t => existsb (N.eqb t) w) (btw e k a) &&
                      negb (existsb (N.eqb k) (btw e k a)) && negb (existsb (N.eqb a) (btw e k a))
                    else true) squares64 &&
  forallb (fun a1 => forallb (fun a2 =>
     (a1 =? a2) || existsb (N.eqb a1) (btw e k a2) || existsb (N.eqb a2) (btw e k a1)) w) w &&
  forallb (fun e2 => match e, e2 with
                     | DN, DN | DE, DE | DS, DS | DW, DW | DNE, DNE | DSE, DSE | DSW, DSW | DNW, DNW => true
                     | _, _ => forallb (fun t => negb (existsb (N.eqb t) (walk 7 e2 k 0))) w end) all_dirs.

Lemma ray_facts_check : forallb (fun k => forallb (ray_facts k) all_dirs) squares64 = true.
Proof. vm_cast_no_check (eq_refl true). Qed.

Lemma ray_facts_ok k e : k < 64 -> ray_facts k e = true.
Proof.
  intros Hk. pose proof (forall_squares _ ray_facts_check k Hk) as H. cbv beta in H.
  exact (proj1 (forallb_forall _ _) H e (in_all_dirs e)).
Qed.

Lemma btw_on_ray e k a u : k < 64 -> a < 64 -> ray_in 0 e k a = true -> In u (btw e k a) ->
  In u (walk 7 e k 0) /\ In a (walk 7 e k 0) /\ u <> k /\ u <> a.
Proof.
  intros Hk Ha Hr Hu. pose proof (ray_facts_ok k e Hk) as H. unfold ray_facts in H. cbv zeta in H.
  apply andb_true_iff in H as [H _]. apply andb_true_iff in H as [H _].
  pose proof (forall_squares _ H a Ha) as G. cbv beta in G. rewrite Hr in G.
  apply andb_true_iff in G as [G GD]. apply andb_true_iff in G as [G GC]. apply andb_true_iff in G as [GA GB].
  rewrite forallb_forall in GB. specialize (GB u Hu).
  apply existsb_eqb_In in GA, GB. apply negb_true_iff in GC, GD.
  repeat split; try assumption; intros ->; apply existsb_eqb_In in Hu; congruence.
Qed.

Lemma dir_eq_dec (e1 e2 : dir) : {e1 = e2} + {e1 <> e2}.
Proof. decide equality. Qed.

Lemma rays_disjoint k e1 e2 u : k < 64 -> In u (walk 7 e1 k 0) -> In u (walk 7 e2 k 0) -> e1 = e2.
Proof.
  intros Hk H1 H2. destruct (dir_eq_dec e1 e2) as [E|E]; [exact E|exfalso].
  pose proof (ray_facts_ok k e1 Hk) as H. unfold ray_facts in H. cbv zeta in H.
  apply andb_true_iff in H as [_ H]. rewrite forallb_forall in H. specialize (H e2 (in_all_dirs e2)).
  destruct e1, e2; try congruence; rewrite forallb_forall in H; specialize (H u H1);
    apply negb_true_iff in H; apply existsb_eqb_In in H2; congruence.
Qed.

Lemma double_block k t e1 a1 e2 a2 : k < 64 -> a1 < 64 -> a2 < 64 ->
  ray_in 0 e1 k a1 = true -> In t (btw e1 k a1) -> ray_in 0 e2 k a2 = true -> In t (btw e2 k a2) -> a1 <> a2 ->
  In a1 (btw e2 k a2) \/ In a2 (btw e1 k a1).
Proof.
  intros Hk H1 H2 R1 B1 R2 B2 Hne.
  destruct (btw_on_ray e1 k a1 t Hk H1 R1 B1) as (T1 & A1 & _).
  destruct (btw_on_ray e2 k a2 t Hk H2 R2 B2) as (T2 & A2 & _).
  assert (E : e1 = e2) by (apply (rays_disjoint k e1 e2 t Hk T1 T2)). subst e2.
  pose proof (ray_facts_ok k e1 Hk) as H. unfold ray_facts in H. cbv zeta in H.
  apply andb_true_iff in H as [H _]. apply andb_true_iff in H as [_ H].
  rewrite forallb_forall in H. specialize (H a1 A1). rewrite forallb_forall in H. specialize (H a2 A2).
  replace (a1 =? a2) with false in H by lia. cbn [orb] in H.
  apply orb_true_iff in H as [H|H]; apply existsb_eqb_In in H; auto.
Qed.

Lemma btw_not_ends e k a u : k < 64 -> a < 64 -> ray_in 0 e k a = true -> In u (btw e k a) -> u <> k /\ u <> a.
Proof. intros Hk Ha Hr Hu. destruct (btw_on_ray e k a u Hk Ha Hr Hu) as (_ & _ & A & B). now split. Qed.

Lemma free_occ b u : u < 64 -> free (occ_of b) u = (at_ b u =? 0).
Proof.
  intros Hu. unfold free. rewrite occ_of_testbit. replace (u <? 64) with true by lia. cbn [andb]. apply negb_involutive.
Qed.

(* the board after a move that changes f and t only *)
Section After.
Variables (b b' : list N) (f t pc' : N).
Hypothesis Hat : forall a, at_ b' a = if a =? t then pc' else if a =? f then 0 else at_ b a.
Hypothesis Hpc' : pc' <> 0.

Lemma free_after u : u < 64 -> free (occ_of b) u = true -> free (occ_of b') u = false -> u = t.
Proof.
  intros Hu H1 H2. rewrite free_occ in H1, H2 by exact Hu. apply N.eqb_eq in H1. apply N.eqb_neq in H2.
  rewrite Hat in H2. destruct (N.eqb_spec u t) as [E|E]; [exact E|exfalso].
  destruct (u =? f); [now apply H2|]. now apply H2.
Qed.

Lemma free_kept u : u < 64 -> u <> t -> free (occ_of b) u = true -> free (occ_of b') u = true.
Proof.
  intros Hu Hne H1. rewrite free_occ in * by exact Hu. apply N.eqb_eq in H1. apply N.eqb_eq.
  rewrite Hat. destruct (N.eqb_spec u t) as [E|E]; [contradiction|]. destruct (u =? f); [reflexivity|exact H1].
Qed.

Lemma ray_blocked e k a : ray_in (occ_of b) e k a = true -> ray_in (occ_of b') e k a = false ->
  ray_in 0 e k a = true /\ forallb (free (occ_of b)) (btw e k a) = true /\ In t (btw e k a).
Proof.
  intros Hr Hr'. rewrite ray_in_char in Hr, Hr'. apply andb_true_iff in Hr as [R0 Rf]. rewrite R0 in Hr'. cbn [andb] in Hr'.
  split; [exact R0|]. split; [exact Rf|].
  assert (G : exists u, In u (btw e k a) /\ free (occ_of b') u = false).
  { clear - Hr'. induction (btw e k a) as [|x l IH]; cbn [forallb] in Hr'; [discriminate|].
    destruct (free (occ_of b') x) eqn:X.
    - cbn [andb] in Hr'. destruct (IH Hr') as [u [Hu1 Hu2]]. exists u. split; [now right|exact Hu2].
    - exists x. split; [now left|exact X]. }
  destruct G as [u [Hu1 Hu2]]. rewrite forallb_forall in Rf. pose proof (Rf u Hu1) as Hu3.
  pose proof (btw_lt _ _ _ _ Hu1) as Hu64. assert (E : u = t) by (now apply free_after). now rewrite <- E.
Qed.

End After.

(** ** legal moves of a position in check *)
Section Complete.
Variable p : pos.
Hypothesis Hlegal : legal_pos p = true.
Hypothesis Hchk : in_check p = true.

Local Notation b := (brd p).
Local Notation c := (stm p).
Local Notation ec := (flip (stm p)).
Local Notation k := (king_sq (brd p) (stm p)).

Lemma Cw : wfp p. Proof. now apply legal_wfp. Qed.
Lemma Cc : c < 2. Proof. exact (wf_stm p Cw). Qed.
Lemma Cec : ec < 2 /\ ec <> c. Proof. pose proof Cc. unfold flip. lia. Qed.
Lemma Clen : length b = 64%nat. Proof. exact (wf_len p Cw). Qed.

Lemma Cking : k < 64 /\ at_ b k = mk_piece c KING /\ (forall s, s < 64 -> at_ b s = mk_piece c KING -> s = k).
Proof.
  pose proof (legal_pos_facts p Hlegal) as L. destruct (lf_own_king p _ L) as [A B]. repeat split; try assumption.
  exact (lf_own_uniq p _ L).
Qed.

Lemma Cattacked : attacked b k ec = true.
Proof. exact Hchk. Qed.

(* the shape of a move that is neither castling nor en passant *)
Lemma simple_move_facts m : In m (pseudo p) -> mtype m <> CASTLING -> mtype m <> ENPASSANT ->
  mfrom m < 64 /\ mto m < 64 /\ (mtype m = NORMAL \/ mtype m = PROMOTION) /\
  at_ b (mfrom m) <> 0 /\ colour_of (at_ b (mfrom m)) = c /\
  (at_ b (mto m) = 0 \/ (at_ b (mto m) <> 0 /\ colour_of (at_ b (mto m)) <> c)) /\
  (mtype m = PROMOTION -> type_of (at_ b (mfrom m)) = PAWN /\ 3 <= mprom m <= 6).
Proof.
  intros Hm Hc He. destruct (pseudo_inv p m Hm) as [Hf Ht Hnz Hcol Hto Hty|E|kf kt rf bit em Hin E].
  - split; [exact Hf|]. split; [exact Ht|]. split; [destruct Hty as [[E _]|[E _]]; auto|].
    split; [exact Hnz|]. split; [exact Hcol|]. split; [destruct Hto as [H|(H1 & H2 & _)]; auto|].
    intros E. destruct Hty as [[E' _]|(_ & A & B)]; [rewrite E in E'; discriminate|now split].
  - contradiction.
  - rewrite E in Hc. now contradiction Hc.
Qed.

(* the piece arriving on the to square *)
Definition arriving (m : mv) : N :=
  if mtype m =? PROMOTION then mk_piece c (mprom m) else at_ b (mfrom m).

Lemma after_simple m : In m (pseudo p) -> mtype m <> CASTLING -> mtype m <> ENPASSANT ->
  (forall a, at_ (brd (make p m)) a =
             if a =? mto m then arriving m else if a =? mfrom m then 0 else at_ b a) /\
  arriving m <> 0 /\ colour_of (arriving m) = c /\
  (arriving m = mk_piece c KING -> type_of (at_ b (mfrom m)) = KING).
Proof.
  intros Hm Hc He. destruct (simple_move_facts m Hm Hc He) as (Hf & Ht & Hty & Hnz & Hcol & Hto & Hpr).
  pose proof Cc as Hcc. split; [|split; [|split]].
  - intros a. now apply at_make_simple; [apply Clen| | |].
  - unfold arriving. destruct (N.eqb_spec (mtype m) PROMOTION) as [E|E]; [|exact Hnz].
    destruct (Hpr E) as [_ B]. apply mkp_nz. clear - B. lia.
  - unfold arriving. destruct (N.eqb_spec (mtype m) PROMOTION) as [E|E]; [|exact Hcol].
    destruct (Hpr E) as [_ B]. apply mk_piece_colour. clear - B. lia.
  - unfold arriving. destruct (N.eqb_spec (mtype m) PROMOTION) as [E|E].
    + destruct (Hpr E) as [_ B]. intros X. apply mk_piece_inj in X; [|clear - B; lia|unfold KING; lia].
      destruct X as [_ X]. clear - B X. unfold KING in X. lia.
    + intros X. rewrite X. apply mk_piece_type. unfold KING. lia.
Qed.

(* the own king stays where it is when another piece moves *)
Lemma king_stays m : In m (pseudo p) -> mtype m <> CASTLING -> mtype m <> ENPASSANT -> mover p m <> KING ->
  king_sq (brd (make p m)) c = k /\ k <> mfrom m /\ k <> mto m.
Proof.
  intros Hm Hc He Hmv. destruct Cking as (K1 & K2 & K3).
  destruct (simple_move_facts m Hm Hc He) as (Hf & Ht & Hty & Hnz & Hcol & Hto & Hpr).
  destruct (after_simple m Hm Hc He) as (Hat & A1 & A2 & A3).
  assert (Nf : k <> mfrom m).
  { intros E. apply Hmv. unfold mover, piece_at. rewrite <- E, K2. apply mk_piece_type. unfold KING. lia. }
  assert (Nt : k <> mto m).
  { intros E. rewrite <- E, K2 in Hto. destruct Hto as [Hto|[_ Hto]].
    - now apply mkp_king_nz in Hto.
    - rewrite mkp_colour_king in Hto. now apply Hto. }
  split; [|split; assumption].
  apply king_sq_intro; [exact K1| |].
  - rewrite Hat. replace (k =? mto m) with false by (symmetry; now apply N.eqb_neq).
    replace (k =? mfrom m) with false by (symmetry; now apply N.eqb_neq). exact K2.
  - intros s Hs E. rewrite Hat in E. destruct (N.eqb_spec s (mto m)) as [Es|Es].
    + exfalso. apply Hmv. unfold mover, piece_at. now apply A3.
    + destruct (N.eqb_spec s (mfrom m)) as [Es'|Es']; [symmetry in E; now apply mkp_king_nz in E|now apply K3].
Qed.

(* what a legal non-king move does to each checking piece *)
Lemma legal_blocks m : In m (pseudo p) -> is_legal p m = true ->
  mtype m <> CASTLING -> mtype m <> ENPASSANT -> mover p m <> KING ->
  forall a, a < 64 -> att_from b k ec a = true ->
  mto m = a \/
  (slider (type_of (at_ b a)) /\
   exists e, ray_in 0 e k a = true /\ forallb (free (occ_of b)) (btw e k a) = true /\ In (mto m) (btw e k a)).
Proof.
  intros Hm His Hc He Hmv a Ha Hatt. destruct Cking as (K1 & K2 & K3). destruct Cec as [E1 E2].
  destruct (simple_move_facts m Hm Hc He) as (Hf & Ht & Hty & Hnz & Hcol & Hto & Hpr).
  destruct (after_simple m Hm Hc He) as (Hat & A1 & A2 & A3).
  destruct (king_stays m Hm Hc He Hmv) as (Hks & Nf & Nt).
  destruct (N.eq_dec (mto m) a) as [Eta|Nta]; [now left|right].
  pose proof (legal_king_safe p m His) as Hsafe. rewrite Hks in Hsafe.
  pose proof (not_attacked_all _ k ec K1 E1 Hsafe a Ha) as Hna.
  apply att_from_inv in Hatt as (ty & Hty' & Haty & Hcl).
  assert (Naf : a <> mfrom m).
  { intros E. rewrite E in Haty. rewrite Haty, mk_piece_colour in Hcol by (clear - Hty'; lia). now apply E2. }
  assert (Haty' : at_ (brd (make p m)) a = mk_piece ec ty).
  { rewrite Hat. replace (a =? mto m) with false by (symmetry; apply N.eqb_neq; congruence).
    replace (a =? mfrom m) with false by (symmetry; now apply N.eqb_neq). exact Haty. }
  rewrite (att_from_piece _ k ec a ty Haty') in Hna by (clear - Hty'; lia).
  destruct (type_cases ty Hty') as [Hns|Hsl].
  - rewrite (nonslider_clause (brd (make p m)) b k ec a ty Hns) in Hna. congruence.
  - rewrite Haty, mk_piece_type by (clear - Hty'; lia). split; [exact Hsl|].
    rewrite (slider_clause b k ec a ty Hsl K1 Ha) in Hcl.
    rewrite (slider_clause (brd (make p m)) k ec a ty Hsl K1 Ha) in Hna.
    unfold slide_in in Hcl, Hna. apply existsb_exists in Hcl as [e [He' Hr]].
    assert (Hr' : ray_in (occ_of (brd (make p m))) e k a = false).
    { destruct (ray_in (occ_of (brd (make p m))) e k a) eqn:X; [|reflexivity].
      assert (Y : existsb (fun d => ray_in (occ_of (brd (make p m))) d k a) (dirs_of ty) = true)
        by (apply existsb_exists; now exists e). congruence. }
    exists e. exact (ray_blocked b (brd (make p m)) (mfrom m) (mto m) (arriving m) Hat e k a Hr Hr').
Qed.

End Complete.
