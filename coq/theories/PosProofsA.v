(** * PosProofsA: representation invariants of the position model (PosImpl) and the
    step lemmas for putPiece / removePiece on which C02, C03 and C04 rest. *)
From Coq Require Import NArith ZArith List Bool Lia ZifyN ZifyBool Btauto.
From FG Require Import Geom Rules FenSpec PosImpl.
Import ListNotations.
Open Scope N_scope.

(** ** xor / bit algebra *)
Ltac xor_solve := apply N.bits_inj; intro; rewrite ?N.lxor_spec, ?N.bits_0; btauto.

Lemma bit_testbit s i : N.testbit (bit s) i = (i =? s).
Proof.
  unfold bit. rewrite N.shiftl_1_l. rewrite N.pow2_bits_eqb. apply N.eqb_sym.
Qed.

Lemma cflip_lt c : c < 2 -> cflip c < 2.
Proof. intro H. assert (c = 0 \/ c = 1) as [-> | ->] by lia; cbn; lia. Qed.
Lemma cflip_cflip c : cflip (cflip c) = c.
Proof. unfold cflip. rewrite N.lxor_assoc. cbn. apply N.lxor_0_r. Qed.
Lemma cflip_val c : c < 2 -> cflip c = 1 - c.
Proof. intro H. assert (c = 0 \/ c = 1) as [-> | ->] by lia; reflexivity. Qed.

(** ** lists *)
Lemma set_nth_length l : forall n v, length (set_nth l n v) = length l.
Proof. induction l as [|a l IH]; destruct n; cbn; auto. Qed.

Lemma nth_set_nth_eq l : forall n v, (n < length l)%nat -> nth n (set_nth l n v) 0 = v.
Proof. induction l as [|a l IH]; destruct n; cbn; intros; try lia; auto. apply IH. lia. Qed.

Lemma nth_set_nth_neq l : forall n v k, k <> n -> nth k (set_nth l n v) 0 = nth k l 0.
Proof.
  induction l as [|a l IH]; destruct n, k; cbn; intros; try congruence; auto.
Qed.

Lemma set_nth_same l : forall n, set_nth l n (nth n l 0) = l.
Proof. induction l as [|a l IH]; destruct n; cbn; auto. now rewrite IH. Qed.

Lemma set_nth_set_nth l : forall n v w, set_nth (set_nth l n v) n w = set_nth l n w.
Proof. induction l as [|a l IH]; destruct n; cbn; auto. intros. now rewrite IH. Qed.

Lemma put_length b k v : length (put b k v) = length b.
Proof. apply set_nth_length. Qed.

Lemma at_put b k v s : length b = 64%nat -> k < 64 ->
  at_ (put b k v) s = if s =? k then v else at_ b s.
Proof.
  intros Hl Hk. unfold at_, put. destruct (N.eqb_spec s k) as [->|Hne].
  - apply nth_set_nth_eq. lia.
  - apply nth_set_nth_neq. lia.
Qed.

Lemma at_beyond b s : N.of_nat (length b) <= s -> at_ b s = 0.
Proof. intro H. unfold at_. apply nth_overflow. lia. Qed.

Lemma nth_error_at b s : s < N.of_nat (length b) -> nth_error b (N.to_nat s) = Some (at_ b s).
Proof. intro H. unfold at_. apply nth_error_nth'. lia. Qed.

Lemma board_ext b b' : length b = length b' ->
  (forall s, s < N.of_nat (length b) -> at_ b s = at_ b' s) -> b = b'.
Proof.
  intros Hl H. apply (nth_ext b b' 0 0 Hl). intros n Hn.
  specialize (H (N.of_nat n)). unfold at_ in H. rewrite Nat2N.id in H. apply H. lia.
Qed.

Lemma put_same b k : put b k (at_ b k) = b.
Proof. apply set_nth_same. Qed.

(** ** pairs indexed by colour *)
Lemma sel_upd {A} c c' (v : A) pr : c < 2 -> c' < 2 ->
  sel c (upd c' v pr) = if c =? c' then v else sel c pr.
Proof.
  intros H H'. assert (c = 0 \/ c = 1) as [-> | ->] by lia;
  assert (c' = 0 \/ c' = 1) as [-> | ->] by lia; destruct pr; reflexivity.
Qed.

Lemma upd_sel {A} c (pr : A * A) : upd c (sel c pr) pr = pr.
Proof. unfold upd, sel. destruct (c =? 0), pr; reflexivity. Qed.

Lemma pair_ext {A} (x y : A * A) : sel 0 x = sel 0 y -> sel 1 x = sel 1 y -> x = y.
Proof. destruct x, y; cbn; congruence. Qed.

(** ** the 14 piece bitboards *)
Lemma pidx_inj c ty c' ty' : ty < 7 -> ty' < 7 -> pidx c ty = pidx c' ty' -> c = c' /\ ty = ty'.
Proof. unfold pidx. intros. lia. Qed.

Lemma bb_get_set_eq l c ty v : length l = 14%nat -> c < 2 -> ty < 7 ->
  bb_get (set_nth l (pidx c ty) v) c ty = v.
Proof. intros. unfold bb_get. apply nth_set_nth_eq. unfold pidx. lia. Qed.

Lemma bb_get_set_neq l c ty c' ty' v : ty < 7 -> ty' < 7 -> (c, ty) <> (c', ty') ->
  bb_get (set_nth l (pidx c ty) v) c' ty' = bb_get l c' ty'.
Proof.
  intros H1 H2 Hne. unfold bb_get. apply nth_set_nth_neq. intro E.
  apply pidx_inj in E as [-> ->]; auto.
Qed.

Lemma list14_ext (l l' : list N) : length l = 14%nat -> length l' = 14%nat ->
  (forall c ty, c < 2 -> ty < 7 -> bb_get l c ty = bb_get l' c ty) -> l = l'.
Proof.
  intros Hl Hl' H. apply (nth_ext l l' 0 0); [congruence|]. intros n Hn.
  specialize (H (N.of_nat n / 7) (N.of_nat n mod 7)). unfold bb_get, pidx in H.
  replace (N.to_nat (7 * (N.of_nat n / 7) + N.of_nat n mod 7)) with n in H by lia.
  apply H; lia.
Qed.

(** ** sums over the board *)
Fixpoint zsum (f : N -> N -> Z) (b : list N) (s : N) : Z :=
  match b with [] => 0%Z | pc :: r => (f pc s + zsum f r (N.succ s))%Z end.
Fixpoint xsum (f : N -> N -> N) (b : list N) (s : N) : N :=
  match b with [] => 0 | pc :: r => N.lxor (f pc s) (xsum f r (N.succ s)) end.

Lemma zsum_set f b : forall k s old v, nth_error b k = Some old ->
  zsum f (set_nth b k v) s = (zsum f b s - f old (s + N.of_nat k)%N + f v (s + N.of_nat k)%N)%Z.
Proof.
  induction b as [|a b IH]; intros k s old v H; destruct k; cbn in H; try discriminate.
  - injection H as ->. cbn [set_nth zsum]. rewrite N.add_0_r. lia.
  - cbn [set_nth zsum]. rewrite (IH k (N.succ s) old v H).
    replace (N.succ s + N.of_nat k) with (s + N.of_nat (S k)) by lia. lia.
Qed.

Lemma xsum_set f b : forall k s old v, nth_error b k = Some old ->
  xsum f (set_nth b k v) s = N.lxor (N.lxor (xsum f b s) (f old (s + N.of_nat k))) (f v (s + N.of_nat k)).
Proof.
  induction b as [|a b IH]; intros k s old v H; destruct k; cbn in H; try discriminate.
  - injection H as ->. cbn [set_nth xsum]. rewrite N.add_0_r. xor_solve.
  - cbn [set_nth xsum]. rewrite (IH k (N.succ s) old v H).
    replace (N.succ s + N.of_nat k) with (s + N.of_nat (S k)) by lia. xor_solve.
Qed.

Lemma zsum_nonneg f b : (forall pc s, (0 <= f pc s)%Z) -> forall s, (0 <= zsum f b s)%Z.
Proof. intros Hf. induction b as [|a b IH]; intro s; cbn; [lia|]. specialize (Hf a s). specialize (IH (N.succ s)). lia. Qed.

Lemma zsum_ext f g b : (forall pc s, f pc s = g pc s) -> forall s, zsum f b s = zsum g b s.
Proof. intros H. induction b as [|a b IH]; intro s; cbn; [reflexivity|]. now rewrite H, IH. Qed.

(** ** what the board determines *)
Definition pcmatch (c ty pc : N) : bool := negb (pc =? 0) && (pc =? 8 * c + ty).
Definition is_col (c pc : N) : bool := negb (pc =? 0) && (pc / 8 =? c).
(* a real piece code or empty: 0, 1..6, 9..14 *)
Definition okpc (pc : N) : bool := (pc =? 0) || ((pc <? 16) && (1 <=? pc mod 8) && (pc mod 8 <=? 6)).

Definition mat_f (t : tabs) (c pc s : N) : Z := if is_col c pc then pval t (pc mod 8) else 0%Z.
Definition matnp_f (t : tabs) (c pc s : N) : Z :=
  if is_col c pc && (PAWN <? pc mod 8) then pval t (pc mod 8) else 0%Z.
Definition psqm_f (t : tabs) (c pc s : N) : Z := if is_col c pc then psqm t pc s else 0%Z.
Definition psqe_f (t : tabs) (c pc s : N) : Z := if is_col c pc then psqe t pc s else 0%Z.
Definition ph_f (t : tabs) (pc s : N) : Z := if pc =? 0 then 0%Z else phval t (pc mod 8).
Definition key_f (t : tabs) (pc s : N) : N := if pc =? 0 then 0 else zp t pc s.

(* the sums "over the pieces actually on the board" of C04 *)
Definition mat_of (t : tabs) (b : list N) (c : N) : Z := zsum (mat_f t c) b 0.
Definition matnp_of (t : tabs) (b : list N) (c : N) : Z := zsum (matnp_f t c) b 0.
Definition psqm_of (t : tabs) (b : list N) (c : N) : Z := zsum (psqm_f t c) b 0.
Definition psqe_of (t : tabs) (b : list N) (c : N) : Z := zsum (psqe_f t c) b 0.
Definition psum (t : tabs) (b : list N) : Z := zsum (ph_f t) b 0.          (* unclamped game phase sum *)
Definition piece_key (t : tabs) (b : list N) : N := xsum (key_f t) b 0.

(* the part of the key that does not depend on the placement *)
Definition epk (t : tabs) (e : N) : N := if e =? 64 then 0 else ze t (file_of e).
Definition skey (t : tabs) (stm cr ep : N) : N :=
  N.lxor (N.lxor (if stm =? 0 then 0 else zn t) (zc t cr)) (epk t ep).
Definition key_of (t : tabs) (q : pos) : N := N.lxor (piece_key t (brd q)) (skey t (stm q) (cr q) (ep q)).

(** ** Coherence: every derived field is the function of the board it should be.
    This is the invariant kept by each single putPiece / removePiece. *)
Record Coh (t : tabs) (p : ipos) : Prop := mkCoh {
  c_len : length (i_board p) = 64%nat;
  c_ok : forall s, okpc (at_ (i_board p) s) = true;
  c_pbblen : length (i_pbb p) = 14%nat;
  c_pbb : forall c ty i, c < 2 -> ty < 7 ->
          N.testbit (bb_get (i_pbb p) c ty) i = pcmatch c ty (at_ (i_board p) i);
  c_occ : forall c i, c < 2 -> N.testbit (sel c (i_occ p)) i = is_col c (at_ (i_board p) i);
  c_mat : forall c, c < 2 -> sel c (i_mat p) = mat_of t (i_board p) c;
  c_matnp : forall c, c < 2 -> sel c (i_matnp p) = matnp_of t (i_board p) c;
  c_psqm : forall c, c < 2 -> sel c (i_psqm p) = psqm_of t (i_board p) c;
  c_psqe : forall c, c < 2 -> sel c (i_psqe p) = psqe_of t (i_board p) c;
  (* kingSquare[c] points to the king of colour c whenever there is one (so there is at most one) *)
  c_ksq : forall c s, c < 2 -> at_ (i_board p) s = 8 * c + KING -> sel c (i_ksq p) = s
}.

(* key residual: what is left of the key after removing the piece part *)
Definition kres (t : tabs) (p : ipos) : N := N.lxor (i_key p) (piece_key t (i_board p)).

(* the game phase is exactly the (unclamped) sum; with the clamps present, this needs sum <= 24 *)
Definition PhOK (t : tabs) (p : ipos) : Prop :=
  i_phase p = psum t (i_board p) /\ (clamp t = true -> (psum t (i_board p) <= GamePhaseMax)%Z).

Definition phval_nonneg (t : tabs) : Prop := forall ty, (0 <= phval t ty)%Z.

(** ** facts about piece codes *)
Lemma okpc_cases pc : okpc pc = true ->
  pc = 0 \/ (pc <> 0 /\ pc < 16 /\ pc / 8 < 2 /\ 1 <= pc mod 8 /\ pc mod 8 <= 6 /\ pc = 8 * (pc / 8) + pc mod 8).
Proof. unfold okpc. intro H. destruct (N.eqb_spec pc 0); [left; auto|right]. lia. Qed.

Lemma okpc_valid pc : okpc pc = true -> valid_pc pc = true.
Proof. intro H. apply okpc_cases in H. unfold valid_pc. destruct H as [->|H]; [reflexivity|]. lia. Qed.

Lemma okpc_mk c ty : c < 2 -> 1 <= ty -> ty <= 6 -> okpc (8 * c + ty) = true.
Proof. intros. unfold okpc. apply orb_true_iff. right. lia. Qed.

Lemma mk_div c ty : ty < 8 -> (8 * c + ty) / 8 = c.
Proof. intros. lia. Qed.
Lemma mk_mod c ty : ty < 8 -> (8 * c + ty) mod 8 = ty.
Proof. intros. lia. Qed.

Lemma pcmatch_self pc : okpc pc = true -> pc <> 0 -> pcmatch (pc / 8) (pc mod 8) pc = true.
Proof. intros H Hn. apply okpc_cases in H as [?|H]; [congruence|]. unfold pcmatch. lia. Qed.

Lemma pcmatch_other c ty pc : ty < 7 -> okpc pc = true -> (pc / 8, pc mod 8) <> (c, ty) -> pcmatch c ty pc = false.
Proof.
  intros Hty H Hn. unfold pcmatch. destruct (N.eqb_spec pc 0) as [|Hz]; [reflexivity|].
  destruct (N.eqb_spec pc (8 * c + ty)) as [E|]; [|reflexivity].
  apply okpc_cases in H as [?|H]; [congruence|]. exfalso. apply Hn.
  f_equal; lia.
Qed.

Lemma pcmatch_zero c ty : pcmatch c ty 0 = false.
Proof. reflexivity. Qed.
Lemma is_col_zero c : is_col c 0 = false.
Proof. reflexivity. Qed.

Lemma is_col_iff c pc : pc <> 0 -> is_col c pc = (pc / 8 =? c).
Proof. intro H. unfold is_col. destruct (N.eqb_spec pc 0); [congruence|reflexivity]. Qed.

(** ** frame: the fields not touched by put / remove *)
Lemma put_raw_frame t p pc sq :
  i_cr (put_raw t p pc sq) = i_cr p /\ i_ep (put_raw t p pc sq) = i_ep p /\
  i_hmc (put_raw t p pc sq) = i_hmc p /\ i_stm (put_raw t p pc sq) = i_stm p /\
  i_nhm (put_raw t p pc sq) = i_nhm p /\ i_hist (put_raw t p pc sq) = i_hist p /\
  i_flag (put_raw t p pc sq) = i_flag p /\ i_board (put_raw t p pc sq) = put (i_board p) sq pc.
Proof. repeat split. Qed.

Lemma rem_raw_frame t p pc sq :
  i_cr (rem_raw t p pc sq) = i_cr p /\ i_ep (rem_raw t p pc sq) = i_ep p /\
  i_hmc (rem_raw t p pc sq) = i_hmc p /\ i_stm (rem_raw t p pc sq) = i_stm p /\
  i_nhm (rem_raw t p pc sq) = i_nhm p /\ i_hist (rem_raw t p pc sq) = i_hist p /\
  i_flag (rem_raw t p pc sq) = i_flag p /\ i_board (rem_raw t p pc sq) = put (i_board p) sq 0 /\
  i_ksq (rem_raw t p pc sq) = i_ksq p.
Proof. repeat split. Qed.

(** ** putPiece keeps coherence (on an empty square) *)
Section Steps.
Variable t : tabs.

Lemma nth_error_board p s : length (i_board p) = 64%nat -> s < 64 ->
  nth_error (i_board p) (N.to_nat s) = Some (at_ (i_board p) s).
Proof. intros Hl Hs. apply nth_error_at. lia. Qed.

Lemma zsum_put f p sq v : length (i_board p) = 64%nat -> sq < 64 ->
  zsum f (put (i_board p) sq v) 0 = (zsum f (i_board p) 0 - f (at_ (i_board p) sq) sq + f v sq)%Z.
Proof.
  intros Hl Hs. unfold put. rewrite (zsum_set f _ _ 0 (at_ (i_board p) sq) v (nth_error_board p sq Hl Hs)).
  now rewrite N.add_0_l, N2Nat.id.
Qed.

Lemma xsum_put f p sq v : length (i_board p) = 64%nat -> sq < 64 ->
  xsum f (put (i_board p) sq v) 0 = N.lxor (N.lxor (xsum f (i_board p) 0) (f (at_ (i_board p) sq) sq)) (f v sq).
Proof.
  intros Hl Hs. unfold put. rewrite (xsum_set f _ _ 0 (at_ (i_board p) sq) v (nth_error_board p sq Hl Hs)).
  now rewrite N.add_0_l, N2Nat.id.
Qed.

Lemma put_raw_coh p pc sq :
  Coh t p -> sq < 64 -> at_ (i_board p) sq = 0 -> okpc pc = true -> pc <> 0 ->
  (pc mod 8 = KING -> forall s, at_ (i_board p) s <> pc) ->
  Coh t (put_raw t p pc sq).
Proof.
  intros C Hsq Hempty Hok Hnz Hking.
  pose proof (c_len _ _ C) as Hlen.
  destruct (okpc_cases pc Hok) as [?|(_ & Hlt & Hc & Hty1 & Hty6 & Hdec)]; [congruence|].
  set (c0 := pc / 8) in *. set (ty0 := pc mod 8) in *.
  constructor.
  - cbn. now rewrite put_length.
  - intro s. cbn [i_board put_raw]. rewrite at_put by assumption.
    destruct (s =? sq); [assumption|apply (c_ok _ _ C)].
  - cbn. rewrite set_nth_length. apply (c_pbblen _ _ C).
  - intros c ty i Hc' Hty. cbn [i_board i_pbb put_raw]. fold c0 ty0.
    rewrite at_put by assumption.
    destruct (N.eq_dec c c0) as [->|Hcne]; [destruct (N.eq_dec ty ty0) as [->|Htne]|].
    + rewrite bb_get_set_eq by (try apply (c_pbblen _ _ C); lia).
      rewrite N.lor_spec, bit_testbit, (c_pbb _ _ C) by lia.
      destruct (N.eqb_spec i sq) as [->|Hne].
      * rewrite orb_true_r. symmetry. apply pcmatch_self; assumption.
      * apply orb_false_r.
    + rewrite bb_get_set_neq by (try lia; intro E; injection E; lia).
      rewrite (c_pbb _ _ C) by lia.
      destruct (N.eqb_spec i sq) as [->|Hne]; [|reflexivity].
      rewrite Hempty, pcmatch_zero. symmetry. apply pcmatch_other; [assumption|assumption|].
      fold c0 ty0. intro E; injection E; lia.
    + rewrite bb_get_set_neq by (try lia; intro E; injection E; lia).
      rewrite (c_pbb _ _ C) by lia.
      destruct (N.eqb_spec i sq) as [->|Hne]; [|reflexivity].
      rewrite Hempty, pcmatch_zero. symmetry. apply pcmatch_other; [assumption|assumption|].
      fold c0 ty0. intro E; injection E; lia.
  - intros c i Hc'. cbn [i_board i_occ put_raw]. fold c0.
    rewrite at_put by assumption. rewrite sel_upd by lia.
    destruct (N.eqb_spec c c0) as [->|Hcne].
    + rewrite N.lor_spec, bit_testbit, (c_occ _ _ C) by lia.
      destruct (N.eqb_spec i sq) as [->|Hne].
      * rewrite orb_true_r. rewrite is_col_iff by assumption. symmetry. apply N.eqb_refl.
      * apply orb_false_r.
    + rewrite (c_occ _ _ C) by lia.
      destruct (N.eqb_spec i sq) as [->|Hne]; [|reflexivity].
      rewrite Hempty, is_col_zero. rewrite is_col_iff by assumption. symmetry. apply N.eqb_neq. fold c0. lia.
  - intros c Hc'. cbn [i_board i_mat put_raw]. fold c0 ty0. unfold mat_of.
    rewrite zsum_put, Hempty by assumption. rewrite sel_upd by lia.
    unfold mat_f at 2 3. rewrite is_col_zero, is_col_iff by assumption. fold c0 ty0.
    rewrite (N.eqb_sym c0 c).
    destruct (c =? c0) eqn:E.
    + apply N.eqb_eq in E. subst c. rewrite (c_mat _ _ C) by lia. unfold mat_of. lia.
    + rewrite (c_mat _ _ C) by lia. unfold mat_of. lia.
  - intros c Hc'. cbn [i_board i_matnp put_raw]. fold c0 ty0. unfold matnp_of.
    rewrite zsum_put, Hempty by assumption.
    unfold matnp_f at 2 3. rewrite is_col_zero, is_col_iff by assumption. fold c0 ty0.
    rewrite (N.eqb_sym c0 c). cbn [andb].
    destruct (PAWN <? ty0) eqn:Ep.
    + rewrite sel_upd by lia. destruct (c =? c0) eqn:E; cbn [andb].
      * apply N.eqb_eq in E. subst c. rewrite (c_matnp _ _ C) by lia. unfold matnp_of. lia.
      * rewrite (c_matnp _ _ C) by lia. unfold matnp_of. lia.
    + rewrite andb_false_r. rewrite (c_matnp _ _ C) by lia. unfold matnp_of. lia.
  - intros c Hc'. cbn [i_board i_psqm put_raw]. fold c0 ty0. unfold psqm_of.
    rewrite zsum_put, Hempty by assumption. rewrite sel_upd by lia.
    unfold psqm_f at 2 3. rewrite is_col_zero, is_col_iff by assumption. fold c0.
    rewrite (N.eqb_sym c0 c).
    destruct (c =? c0) eqn:E.
    + apply N.eqb_eq in E. subst c. rewrite (c_psqm _ _ C) by lia. unfold psqm_of. lia.
    + rewrite (c_psqm _ _ C) by lia. unfold psqm_of. lia.
  - intros c Hc'. cbn [i_board i_psqe put_raw]. fold c0 ty0. unfold psqe_of.
    rewrite zsum_put, Hempty by assumption. rewrite sel_upd by lia.
    unfold psqe_f at 2 3. rewrite is_col_zero, is_col_iff by assumption. fold c0.
    rewrite (N.eqb_sym c0 c).
    destruct (c =? c0) eqn:E.
    + apply N.eqb_eq in E. subst c. rewrite (c_psqe _ _ C) by lia. unfold psqe_of. lia.
    + rewrite (c_psqe _ _ C) by lia. unfold psqe_of. lia.
  - intros c s Hc' Hat. cbn [i_board i_ksq put_raw] in *. fold c0 ty0.
    rewrite at_put in Hat by assumption.
    destruct (N.eqb_spec s sq) as [->|Hne].
    + assert (Ety : ty0 = KING) by (unfold ty0, KING in *; lia).
      assert (Ec : c0 = c) by (unfold c0, KING in *; lia).
      rewrite Ety, Ec. cbn [N.eqb KING Pos.eqb]. rewrite sel_upd by lia. now rewrite N.eqb_refl.
    + destruct (ty0 =? KING) eqn:Ek.
      * apply N.eqb_eq in Ek. rewrite sel_upd by lia.
        destruct (N.eqb_spec c c0) as [->|Hcne].
        -- exfalso. apply (Hking Ek s). rewrite Hat, Hdec. fold ty0. rewrite Ek. reflexivity.
        -- apply (c_ksq _ _ C); assumption.
      * apply (c_ksq _ _ C); assumption.
Qed.

Lemma put_raw_kres p pc sq :
  length (i_board p) = 64%nat -> sq < 64 -> at_ (i_board p) sq = 0 -> pc <> 0 ->
  kres t (put_raw t p pc sq) = kres t p.
Proof.
  intros Hl Hs He Hnz. unfold kres, piece_key. cbn [i_key i_board put_raw].
  rewrite xsum_put, He by assumption. unfold key_f at 2 3. cbn [N.eqb].
  destruct (N.eqb_spec pc 0); [congruence|]. xor_solve.
Qed.

Lemma psum_put p pc sq : length (i_board p) = 64%nat -> sq < 64 -> at_ (i_board p) sq = 0 -> pc <> 0 ->
  psum t (put (i_board p) sq pc) = (psum t (i_board p) + phval t (pc mod 8))%Z.
Proof.
  intros Hl Hs He Hnz. unfold psum. rewrite zsum_put, He by assumption. unfold ph_f at 2 3. cbn [N.eqb].
  destruct (N.eqb_spec pc 0); [congruence|]. lia.
Qed.

Lemma put_raw_phase p pc sq :
  length (i_board p) = 64%nat -> sq < 64 -> at_ (i_board p) sq = 0 -> pc <> 0 ->
  i_phase p = psum t (i_board p) ->
  (clamp t = true -> (psum t (i_board p) + phval t (pc mod 8) <= GamePhaseMax)%Z) ->
  PhOK t (put_raw t p pc sq).
Proof.
  intros Hl Hs He Hnz Hph Hb. unfold PhOK. cbn [i_phase i_board put_raw].
  rewrite psum_put by assumption. rewrite Hph. split.
  - destruct (clamp t); cbn [andb]; [|reflexivity]. specialize (Hb eq_refl).
    destruct (Z.ltb_spec GamePhaseMax (psum t (i_board p) + phval t (pc mod 8))); lia.
  - exact Hb.
Qed.

(** ** removePiece keeps coherence (on an occupied square) *)
Lemma rem_raw_coh p pc sq :
  Coh t p -> sq < 64 -> at_ (i_board p) sq = pc -> pc <> 0 ->
  Coh t (rem_raw t p pc sq).
Proof.
  intros C Hsq Hat Hnz.
  pose proof (c_len _ _ C) as Hlen.
  pose proof (c_ok _ _ C sq) as Hok. rewrite Hat in Hok.
  destruct (okpc_cases pc Hok) as [?|(_ & Hlt & Hc & Hty1 & Hty6 & Hdec)]; [congruence|].
  set (c0 := pc / 8) in *. set (ty0 := pc mod 8) in *.
  constructor.
  - cbn. now rewrite put_length.
  - intro s. cbn [i_board rem_raw]. rewrite at_put by assumption.
    destruct (s =? sq); [reflexivity|apply (c_ok _ _ C)].
  - cbn. rewrite set_nth_length. apply (c_pbblen _ _ C).
  - intros c ty i Hc' Hty. cbn [i_board i_pbb rem_raw]. fold c0 ty0.
    rewrite at_put by assumption.
    destruct (N.eq_dec c c0) as [->|Hcne]; [destruct (N.eq_dec ty ty0) as [->|Htne]|].
    + rewrite bb_get_set_eq by (try apply (c_pbblen _ _ C); lia).
      rewrite N.ldiff_spec, bit_testbit, (c_pbb _ _ C) by lia.
      destruct (N.eqb_spec i sq) as [->|Hne].
      * rewrite pcmatch_zero. apply andb_false_r.
      * apply andb_true_r.
    + rewrite bb_get_set_neq by (try lia; intro E; injection E; lia).
      rewrite (c_pbb _ _ C) by lia.
      destruct (N.eqb_spec i sq) as [->|Hne]; [|reflexivity].
      rewrite Hat, pcmatch_zero. apply pcmatch_other; [assumption|assumption|].
      fold c0 ty0. intro E; injection E; lia.
    + rewrite bb_get_set_neq by (try lia; intro E; injection E; lia).
      rewrite (c_pbb _ _ C) by lia.
      destruct (N.eqb_spec i sq) as [->|Hne]; [|reflexivity].
      rewrite Hat, pcmatch_zero. apply pcmatch_other; [assumption|assumption|].
      fold c0 ty0. intro E; injection E; lia.
  - intros c i Hc'. cbn [i_board i_occ rem_raw]. fold c0.
    rewrite at_put by assumption. rewrite sel_upd by lia.
    destruct (N.eqb_spec c c0) as [->|Hcne].
    + rewrite N.ldiff_spec, bit_testbit, (c_occ _ _ C) by lia.
      destruct (N.eqb_spec i sq) as [->|Hne].
      * rewrite is_col_zero. apply andb_false_r.
      * apply andb_true_r.
    + rewrite (c_occ _ _ C) by lia.
      destruct (N.eqb_spec i sq) as [->|Hne]; [|reflexivity].
      rewrite Hat, is_col_zero. rewrite is_col_iff by assumption. apply N.eqb_neq. fold c0. lia.
  - intros c Hc'. cbn [i_board i_mat rem_raw]. fold c0 ty0. unfold mat_of.
    rewrite zsum_put, Hat by assumption. rewrite sel_upd by lia.
    unfold mat_f at 2 3. rewrite is_col_zero, is_col_iff by assumption. fold c0 ty0.
    rewrite (N.eqb_sym c0 c).
    destruct (c =? c0) eqn:E.
    + apply N.eqb_eq in E. subst c. rewrite (c_mat _ _ C) by lia. unfold mat_of. lia.
    + rewrite (c_mat _ _ C) by lia. unfold mat_of. lia.
  - intros c Hc'. cbn [i_board i_matnp rem_raw]. fold c0 ty0. unfold matnp_of.
    rewrite zsum_put, Hat by assumption.
    unfold matnp_f at 2 3. rewrite is_col_zero, is_col_iff by assumption. fold c0 ty0.
    rewrite (N.eqb_sym c0 c). cbn [andb].
    destruct (PAWN <? ty0) eqn:Ep.
    + rewrite sel_upd by lia. destruct (c =? c0) eqn:E; cbn [andb].
      * apply N.eqb_eq in E. subst c. rewrite (c_matnp _ _ C) by lia. unfold matnp_of. lia.
      * rewrite (c_matnp _ _ C) by lia. unfold matnp_of. lia.
    + rewrite andb_false_r. rewrite (c_matnp _ _ C) by lia. unfold matnp_of. lia.
  - intros c Hc'. cbn [i_board i_psqm rem_raw]. fold c0 ty0. unfold psqm_of.
    rewrite zsum_put, Hat by assumption. rewrite sel_upd by lia.
    unfold psqm_f at 2 3. rewrite is_col_zero, is_col_iff by assumption. fold c0.
    rewrite (N.eqb_sym c0 c).
    destruct (c =? c0) eqn:E.
    + apply N.eqb_eq in E. subst c. rewrite (c_psqm _ _ C) by lia. unfold psqm_of. lia.
    + rewrite (c_psqm _ _ C) by lia. unfold psqm_of. lia.
  - intros c Hc'. cbn [i_board i_psqe rem_raw]. fold c0 ty0. unfold psqe_of.
    rewrite zsum_put, Hat by assumption. rewrite sel_upd by lia.
    unfold psqe_f at 2 3. rewrite is_col_zero, is_col_iff by assumption. fold c0.
    rewrite (N.eqb_sym c0 c).
    destruct (c =? c0) eqn:E.
    + apply N.eqb_eq in E. subst c. rewrite (c_psqe _ _ C) by lia. unfold psqe_of. lia.
    + rewrite (c_psqe _ _ C) by lia. unfold psqe_of. lia.
  - intros c s Hc' Hat'. cbn [i_board i_ksq rem_raw] in *.
    rewrite at_put in Hat' by assumption.
    destruct (N.eqb_spec s sq) as [->|Hne]; [unfold KING in Hat'; lia|].
    apply (c_ksq _ _ C); assumption.
Qed.

Lemma rem_raw_kres p pc sq :
  length (i_board p) = 64%nat -> sq < 64 -> at_ (i_board p) sq = pc -> pc <> 0 ->
  kres t (rem_raw t p pc sq) = kres t p.
Proof.
  intros Hl Hs He Hnz. unfold kres, piece_key. cbn [i_key i_board rem_raw].
  rewrite xsum_put, He by assumption. unfold key_f at 2 3. cbn [N.eqb].
  destruct (N.eqb_spec pc 0); [congruence|]. xor_solve.
Qed.

Lemma psum_rem p pc sq : length (i_board p) = 64%nat -> sq < 64 -> at_ (i_board p) sq = pc -> pc <> 0 ->
  psum t (put (i_board p) sq 0) = (psum t (i_board p) - phval t (pc mod 8))%Z.
Proof.
  intros Hl Hs He Hnz. unfold psum. rewrite zsum_put, He by assumption. unfold ph_f at 2 3. cbn [N.eqb].
  destruct (N.eqb_spec pc 0); [congruence|]. lia.
Qed.

Lemma ph_f_nonneg : phval_nonneg t -> forall pc s, (0 <= ph_f t pc s)%Z.
Proof. intros H pc s. unfold ph_f. destruct (pc =? 0); [lia|apply H]. Qed.

Lemma rem_raw_phase p pc sq :
  phval_nonneg t ->
  length (i_board p) = 64%nat -> sq < 64 -> at_ (i_board p) sq = pc -> pc <> 0 ->
  PhOK t p -> PhOK t (rem_raw t p pc sq).
Proof.
  intros Hnn Hl Hs He Hnz [Hph Hb]. unfold PhOK. cbn [i_phase i_board rem_raw].
  pose proof (psum_rem p pc sq Hl Hs He Hnz) as E. rewrite E.
  assert (0 <= psum t (put (i_board p) sq 0))%Z as Hge by (apply zsum_nonneg, ph_f_nonneg, Hnn).
  rewrite E in Hge. rewrite Hph. split.
  - destruct (clamp t); cbn [andb]; [|reflexivity].
    destruct (Z.ltb_spec (psum t (i_board p) - phval t (pc mod 8)) 0); lia.
  - intro Hc. specialize (Hb Hc). specialize (Hnn (pc mod 8)). lia.
Qed.

End Steps.

(** ** two coherent positions with the same board agree on every board-derived field
    (kingSquare needs the kings to be there) *)
Lemma coh_same_board t p q : Coh t p -> Coh t q -> i_board p = i_board q ->
  i_pbb p = i_pbb q /\ i_occ p = i_occ q /\ i_mat p = i_mat q /\ i_matnp p = i_matnp q /\
  i_psqm p = i_psqm q /\ i_psqe p = i_psqe q.
Proof.
  intros Cp Cq E. repeat split.
  - apply list14_ext; try apply c_pbblen with t; auto. intros c ty Hc Hty.
    apply N.bits_inj. intro i. rewrite (c_pbb _ _ Cp), (c_pbb _ _ Cq), E by assumption. reflexivity.
  - apply pair_ext; apply N.bits_inj; intro i; rewrite (c_occ _ _ Cp), (c_occ _ _ Cq), E by lia; reflexivity.
  - apply pair_ext; rewrite (c_mat _ _ Cp), (c_mat _ _ Cq), E by lia; reflexivity.
  - apply pair_ext; rewrite (c_matnp _ _ Cp), (c_matnp _ _ Cq), E by lia; reflexivity.
  - apply pair_ext; rewrite (c_psqm _ _ Cp), (c_psqm _ _ Cq), E by lia; reflexivity.
  - apply pair_ext; rewrite (c_psqe _ _ Cp), (c_psqe _ _ Cq), E by lia; reflexivity.
Qed.
