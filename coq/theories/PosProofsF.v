(** * PosProofsF: UndoMove after DoMove, per move type (C03).  The position that is undone may
    differ from the one DoMove produced in the game phase and in the cached check flag
    ([eqpf]): this is what a nested search leaves behind. *)
From Coq Require Import NArith ZArith List Bool Lia ZifyN ZifyBool Btauto.
From FG Require Import Geom Rules FenSpec PosImpl PosProofsA PosProofsB PosProofsC PosProofsD PosProofsE.
Import ListNotations.
Open Scope N_scope.

Section UndoThms.
Variable t : tabs.

Ltac board_eq :=
  apply board_ext; [rewrite ?put_length; try reflexivity; congruence|];
  let s := fresh "s" in let Hs := fresh "Hs" in
  intros s Hs; atp;
  repeat match goal with |- context [?x =? ?y] => destruct (N.eqb_spec x y) end;
  subst; try reflexivity; try congruence; try lia.

Definition top_entry (p : ipos) (c : N) : hstate :=
  mkh (i_key p) c (at_ (i_board p) (mv_from c)) (at_ (i_board p) (mv_to c)) (i_cr p) (i_ep p) (i_hmc p) (i_flag p).

Lemma do_board p m : WF t p -> move_ok p m -> i_board (do_move_raw t p (code m)) = brd (make (abs p) m).
Proof.
  intros W Hm. 
  assert (E : abs (do_move_raw t p (code m)) = make (abs p) m).
  { destruct Hm as [Hc [H|[H|[H|H]]]].
    - apply do_normal_refines; assumption.
    - apply do_promotion_refines; assumption.
    - apply do_enpassant_refines; assumption.
    - apply do_castling_refines; assumption. }
  apply (f_equal brd) in E. exact E.
Qed.

Lemma psum_upd b sq v : length b = 64%nat -> sq < 64 ->
  psum t (put b sq v) = (psum t b - ph_f t (at_ b sq) sq + ph_f t v sq)%Z.
Proof.
  intros Hl Hs. unfold psum, put.
  rewrite (zsum_set (ph_f t) b (N.to_nat sq) 0 (at_ b sq) v) by (apply nth_error_at; lia).
  now rewrite N.add_0_l, N2Nat.id.
Qed.

Lemma ph_f_val pc s : pc <> 0 -> ph_f t pc s = phval t (pc mod 8).
Proof. intro H. unfold ph_f. destruct (N.eqb_spec pc 0); [contradiction|reflexivity]. Qed.
Lemma ph_f_0 s : ph_f t 0 s = 0%Z.
Proof. reflexivity. Qed.

(* equality up to the game phase and the cached check flag *)
Definition eqpf (p q : ipos) : Prop := set_phase 0 (set_check_flag 0 p) = set_phase 0 (set_check_flag 0 q).

Lemma eqpf_fields p q : eqpf p q ->
  i_key p = i_key q /\ i_board p = i_board q /\ i_cr p = i_cr q /\ i_ep p = i_ep q /\ i_hmc p = i_hmc q /\
  i_stm p = i_stm q /\ i_ksq p = i_ksq q /\ i_nhm p = i_nhm q /\ i_pbb p = i_pbb q /\ i_occ p = i_occ q /\
  i_hist p = i_hist q /\ i_mat p = i_mat q /\ i_matnp p = i_matnp q /\ i_psqm p = i_psqm q /\ i_psqe p = i_psqe q.
Proof. unfold eqpf. destruct p, q. cbn. intro H. injection H. intros. subst. repeat split. Qed.

Lemma eqpf_of_fields p q :
  i_key p = i_key q -> i_board p = i_board q -> i_cr p = i_cr q -> i_ep p = i_ep q -> i_hmc p = i_hmc q ->
  i_stm p = i_stm q -> i_ksq p = i_ksq q -> i_nhm p = i_nhm q -> i_pbb p = i_pbb q -> i_occ p = i_occ q ->
  i_hist p = i_hist q -> i_mat p = i_mat q -> i_matnp p = i_matnp q -> i_psqm p = i_psqm q -> i_psqe p = i_psqe q ->
  eqpf p q.
Proof. unfold eqpf. destruct p, q. cbn. intros. subst. reflexivity. Qed.

Lemma eqpf_refl p : eqpf p p. Proof. reflexivity. Qed.
Lemma eqpf_sym p q : eqpf p q -> eqpf q p. Proof. unfold eqpf. congruence. Qed.
Lemma eqpf_trans p q r : eqpf p q -> eqpf q r -> eqpf p r. Proof. unfold eqpf. congruence. Qed.

Lemma wf_eqpf p q : eqpf p q -> WF t p -> WF t q.
Proof.
  intros E W. destruct (eqpf_fields _ _ E) as (Fk & Fb & Fcr & Fep & Fhmc & Fstm & Fksq & Fnhm & Fpbb & Focc & Fhist & Fmat & Fmnp & Fpm & Fpe).
  destruct W as [C Hs Hc Hh Hn He]. constructor.
  - eapply coh_fields; [..|exact C]; assumption.
  - congruence.
  - congruence.
  - congruence.
  - rewrite <- Fnhm, <- Fstm. exact Hn.
  - unfold EpOK in *. rewrite <- Fep, <- Fstm, <- Fb. exact He.
Qed.

(* the phase-bound package used for the undo chains *)
Definition HBu (p p' : ipos) : Prop := phval_nonneg t /\ PhOK t p /\ PhOK t p'.

Lemma undo_normal p m p2 :
  WF t p -> ok_common p m -> ok_normal p m ->
  let p' := do_move_raw t p (code m) in eqpf p2 p' ->
  let p'' := undo_move_raw t p2 (top_entry p (code m)) (i_hist p) in
  Coh t p'' /\ (HBu p p2 -> PhOK t p'') /\ i_board p'' = i_board p /\ i_ksq p'' = i_ksq p.
Proof.
  intros W Hc Hn p' Heq p''. pose proof (w_coh _ _ W) as C. pose proof (c_len _ _ C) as Hl.
  pose proof (do_wf t p m W (conj Hc (or_introl Hn))) as W'. fold p' in W'.
  pose proof (do_board p m W (conj Hc (or_introl Hn))) as EB. fold p' in EB.
  destruct Hc as [Hf Ht Hpr Hpc Hcol]. destruct Hn as [Hty Htgt Hcap Hsingle Hdouble].
  destruct (decode m) as (E1 & E2 & E3 & E4); try lia. { rewrite Hty. unfold NORMAL. lia. }
  assert (Hne : mfrom m <> mto m) by (apply (tgt_ok_ne p m); [constructor; assumption|assumption]).
  unfold make in EB. cbn [abs brd stm cr ep hmc fmn] in EB. rewrite Hty in EB.
  cbn [N.eqb NORMAL PROMOTION ENPASSANT CASTLING Pos.eqb] in EB.
  set (pc := at_ (i_board p) (mfrom m)) in *. set (tp := at_ (i_board p) (mto m)) in *.
  assert (Eks : i_ksq p' = if pc mod 8 =? KING then upd (pc / 8) (mto m) (i_ksq p) else i_ksq p).
  { unfold p', do_move_raw. rewrite E1, E2, E3, Hty. cbn [N.eqb NORMAL]. unfold do_normal_raw.
    fold pc tp.
    destruct (N.eqb_spec tp 0); cbn [negb]; [destruct (pc mod 8 =? PAWN); [destruct (_ =? 2)|]|]; fr; atp; eqbs; reflexivity. }
  destruct (eqpf_fields _ _ Heq) as (Fk & Fb & Fcr & Fep & Fhmc & Fstm & Fksq & Fnhm & Fpbb & Focc & Fhist & Fmat & Fmnp & Fpm & Fpe).
  assert (W2 : WF t p2) by (apply (wf_eqpf p' p2); [apply eqpf_sym; exact Heq|exact W']).
  rewrite <- Fb in EB. rewrite <- Fksq in Eks.
  assert (Est2 : i_stm p2 = N.lxor (i_stm p) 1) by (rewrite Fstm; unfold p'; apply do_move_raw_stm).
  assert (G' : Good t (HBu p p2) p2 (kres t p2)).
  { apply good_of_coh; [apply (w_coh _ _ W2)|]. intros (H1 & H2 & H3). auto. }
  unfold p'', undo_move_raw, top_entry. cbn [h_move h_cap]. rewrite E1, E2, E3, Hty. cbn [N.eqb NORMAL].
  fold pc tp.
  assert (Hl' : length (i_board p2) = 64%nat) by (rewrite EB, !put_length; exact Hl).
  assert (Gm : Good t (HBu p p2) (mp t (unturn (i_hist p) p2) (mto m) (mfrom m)) (kres t p2)).
  { apply good_mp; try assumption; try (intro; congruence).
    - apply good_unturn. exact G'.
    - fr. rewrite EB. atp. eqbs. exact Hpc.
    - fr. rewrite EB. atp. eqbs. reflexivity. }
  assert (EBm : i_board (mp t (unturn (i_hist p) p2) (mto m) (mfrom m)) = put (i_board p) (mto m) 0).
  { fr. rewrite EB. board_eq. }
  unfold put_if_raw.
  destruct (N.eqb_spec tp 0) as [Etp|Etp]; cbn [negb].
  - destruct Gm as (Cm & _ & Pm). split; [|split; [|split]].
    + apply coh_restore. exact Cm.
    + intro hb. eapply phok_fields; [..|apply (Pm hb)]; reflexivity.
    + fr. rewrite EB. board_eq.
    + fr. rewrite Eks, EB. atp. eqbs.
      destruct (N.eqb_spec (pc mod 8) KING) as [Ek|Ek]; [|reflexivity].
      rewrite upd_upd. apply upd_id.
      pose proof (c_ok _ _ C (mfrom m)) as Ho. apply okpc_cases in Ho as [?|Ho]; [contradiction|].
      apply (c_ksq _ _ C); [fold pc; lia|]. fold pc. unfold KING in *. lia.
  - assert (Gp : Good t (HBu p p2) (put_raw t (mp t (unturn (i_hist p) p2) (mto m) (mfrom m)) tp (mto m)) (kres t p2)).
    { apply good_put; try assumption.
      - rewrite EBm. atp. eqbs. reflexivity.
      - apply (c_ok _ _ C).
      - intros Hk s. rewrite EBm. atp. destruct (N.eqb_spec s (mto m)) as [->|Hs]; [auto|].
        intro E. apply Hs. apply (king_unique t p s (mto m) C); fold tp; congruence.
      - intros (Hnn & [Hp1 Hp2] & _) hc. rewrite EBm.
        rewrite (psum_rem t p tp (mto m)) by auto. specialize (Hp2 hc). lia. }
    destruct Gp as (Cp & _ & Pp). split; [|split; [|split]].
    + apply coh_restore. exact Cp.
    + intro hb. eapply phok_fields; [..|apply (Pp hb)]; reflexivity.
    + fr. rewrite EB. board_eq.
    + fr. rewrite Eks, EB. atp. eqbs.
      assert (Hk1 : pc mod 8 = KING -> upd (pc / 8) (mfrom m) (upd (pc / 8) (mto m) (i_ksq p)) = i_ksq p).
      { intro Ek. rewrite upd_upd. apply upd_id.
        pose proof (c_ok _ _ C (mfrom m)) as Ho. apply okpc_cases in Ho as [?|Ho]; [contradiction|].
        apply (c_ksq _ _ C); [fold pc; lia|]. fold pc. unfold KING in *. lia. }
      assert (Hk2 : tp mod 8 = KING -> upd (tp / 8) (mto m) (i_ksq p) = i_ksq p).
      { intro Ek. apply upd_id.
        pose proof (c_ok _ _ C (mto m)) as Ho. apply okpc_cases in Ho as [?|Ho]; [contradiction|].
        apply (c_ksq _ _ C); [fold tp; lia|]. fold tp. unfold KING in *. lia. }
      destruct (N.eqb_spec (pc mod 8) KING) as [Ek|Ek]; destruct (N.eqb_spec (tp mod 8) KING) as [Ek'|Ek'];
        rewrite ?(Hk1 Ek); auto.
Qed.

Lemma undo_promotion p m p2 :
  WF t p -> ok_common p m -> ok_promotion p m ->
  let p' := do_move_raw t p (code m) in eqpf p2 p' ->
  let p'' := undo_move_raw t p2 (top_entry p (code m)) (i_hist p) in
  Coh t p'' /\ (HBu p p2 -> PhOK t p'') /\ i_board p'' = i_board p /\ i_ksq p'' = i_ksq p.
Proof.
  intros W Hc Hn p' Heq p''. pose proof (w_coh _ _ W) as C. pose proof (c_len _ _ C) as Hl.
  pose proof (w_stm _ _ W) as Hstm.
  pose proof (do_wf t p m W (conj Hc (or_intror (or_introl Hn)))) as W'. fold p' in W'.
  pose proof (do_board p m W (conj Hc (or_intror (or_introl Hn)))) as EB. fold p' in EB.
  destruct Hc as [Hf Ht Hpr Hpc Hcol]. destruct Hn as [Hty Hpawn Htgt Hrank].
  destruct (decode m) as (E1 & E2 & E3 & E4); try lia. { rewrite Hty. unfold PROMOTION. lia. }
  assert (Hne : mfrom m <> mto m) by (apply (tgt_ok_ne p m); [constructor; assumption|assumption]).
  unfold make in EB. cbn [abs brd stm cr ep hmc fmn] in EB. rewrite Hty in EB.
  cbn [N.eqb NORMAL PROMOTION ENPASSANT CASTLING Pos.eqb] in EB. unfold mk_piece in EB.
  set (tp := at_ (i_board p) (mto m)) in *.
  set (pr := 8 * i_stm p + mprom m) in *.
  assert (Hprnz : pr <> 0) by (unfold pr; lia).
  assert (Hprm : pr mod 8 = mprom m) by (unfold pr; apply mk_mod; lia).
  assert (Eks : i_ksq p' = i_ksq p).
  { unfold p', do_move_raw. rewrite E1, E2, E3, Hty. cbn [N.eqb PROMOTION Pos.eqb]. unfold do_promotion_raw.
    rewrite Hcol, E4. fold pr.
    destruct (negb _); fr; rewrite Hprm; destruct (N.eqb_spec (mprom m) KING); try reflexivity; unfold KING in *; lia. }
  destruct (eqpf_fields _ _ Heq) as (Fk & Fb & Fcr & Fep & Fhmc & Fstm & Fksq & Fnhm & Fpbb & Focc & Fhist & Fmat & Fmnp & Fpm & Fpe).
  assert (W2 : WF t p2) by (apply (wf_eqpf p' p2); [apply eqpf_sym; exact Heq|exact W']).
  rewrite <- Fb in EB. rewrite <- Fksq in Eks.
  assert (Est2 : i_stm p2 = N.lxor (i_stm p) 1) by (rewrite Fstm; unfold p'; apply do_move_raw_stm).
  assert (Es' : i_stm (unturn (i_hist p) p2) = i_stm p).
  { fr. rewrite Est2. fold (cflip (i_stm p)). apply cflip_cflip. }
  assert (G' : Good t (HBu p p2) p2 (kres t p2)).
  { apply good_of_coh; [apply (w_coh _ _ W2)|]. intros (H1 & H2 & H3). auto. }
  unfold p'', undo_move_raw, top_entry. cbn [h_move h_cap]. rewrite E1, E2, E3, Hty. cbn [N.eqb PROMOTION Pos.eqb].
  fold tp. rewrite Es'.
  assert (Hl' : length (i_board p2) = 64%nat) by (rewrite EB, !put_length; exact Hl).
  set (q0 := unturn (i_hist p) p2).
  assert (Eq0 : i_board q0 = i_board p2) by reflexivity.
  set (pw := 8 * i_stm p + PAWN) in *.
  assert (Hpwok : okpc pw = true) by (apply okpc_mk; unfold PAWN; lia).
  assert (Hpwm : pw mod 8 = PAWN) by (apply mk_mod; unfold PAWN; lia).
  assert (Gr : Good t (HBu p p2) (rp t q0 (mto m)) (kres t p2)).
  { apply good_rp; try assumption. - apply good_unturn. exact G'. - rewrite Eq0, EB. atp. eqbs. exact Hprnz. }
  assert (Gq : Good t (HBu p p2) (put_raw t (rp t q0 (mto m)) pw (mfrom m)) (kres t p2)).
  { apply good_put; try assumption.
    - fr. rewrite Eq0, EB. atp. eqbs. reflexivity.
    - unfold pw, PAWN. lia.
    - intro Hk. rewrite Hpwm in Hk. discriminate.
    - intros (Hnn & [Hp1 Hp2] & _) hc. specialize (Hp2 hc). fr. rewrite Eq0, EB.
      rewrite !psum_upd by (rewrite ?put_length; assumption). atp. eqbs.
      rewrite Hpawn. fold pw. rewrite !ph_f_0. rewrite (ph_f_val pw) by (unfold pw, PAWN; lia).
      rewrite (ph_f_val pr) by exact Hprnz.
      assert (0 <= ph_f t (at_ (i_board p) (mto m)) (mto m))%Z by (apply ph_f_nonneg; exact Hnn).
      fold tp in H |- *. rewrite Hpwm. lia. }
  assert (EBq : i_board (put_raw t (rp t q0 (mto m)) pw (mfrom m)) = put (i_board p) (mto m) 0).
  { fr. rewrite Eq0, EB. apply board_ext; [rewrite !put_length; reflexivity|]. intros s Hs. atp.
    destruct (N.eqb_spec s (mfrom m)) as [->|]; eqbs; [symmetry; exact Hpawn|].
    destruct (N.eqb_spec s (mto m)); reflexivity. }
  unfold put_if_raw.
  destruct (N.eqb_spec tp 0) as [Etp|Etp]; cbn [negb].
  - destruct Gq as (Cq & _ & Pq). split; [|split; [|split]].
    + apply coh_restore. exact Cq.
    + intro hb. eapply phok_fields; [..|apply (Pq hb)]; reflexivity.
    + fr. rewrite Eq0, EB. apply board_ext; [rewrite !put_length; reflexivity|]. intros s Hs. atp.
      destruct (N.eqb_spec s (mfrom m)) as [->|]; eqbs; [symmetry; exact Hpawn|].
      destruct (N.eqb_spec s (mto m)) as [->|]; [symmetry; exact Etp|reflexivity].
    + unfold q0. fr. rewrite Hpwm. cbn [N.eqb PAWN KING Pos.eqb]. exact Eks.
  - assert (Gp : Good t (HBu p p2) (put_raw t (put_raw t (rp t q0 (mto m)) pw (mfrom m)) tp (mto m)) (kres t p2)).
    { apply good_put; try assumption.
      - rewrite EBq. atp. eqbs. reflexivity.
      - apply (c_ok _ _ C).
      - intros Hk s. rewrite EBq. atp. destruct (N.eqb_spec s (mto m)) as [->|Hs]; [auto|].
        intro E. apply Hs. apply (king_unique t p s (mto m) C); fold tp; congruence.
      - intros (Hnn & [Hp1 Hp2] & _) hc. rewrite EBq.
        rewrite (psum_rem t p tp (mto m)) by auto. specialize (Hp2 hc). lia. }
    destruct Gp as (Cp & _ & Pp). split; [|split; [|split]].
    + apply coh_restore. exact Cp.
    + intro hb. eapply phok_fields; [..|apply (Pp hb)]; reflexivity.
    + fr. rewrite Eq0, EB. apply board_ext; [rewrite !put_length; reflexivity|]. intros s Hs. atp.
      destruct (N.eqb_spec s (mto m)) as [->|]; [reflexivity|].
      destruct (N.eqb_spec s (mfrom m)) as [->|]; [symmetry; exact Hpawn|reflexivity].
    + unfold q0. fr. rewrite Hpwm. cbn [N.eqb PAWN KING Pos.eqb]. rewrite Eks.
      destruct (N.eqb_spec (tp mod 8) KING) as [Ek|Ek]; [|reflexivity].
      apply upd_id.
      pose proof (c_ok _ _ C (mto m)) as Ho. apply okpc_cases in Ho as [?|Ho]; [contradiction|].
      apply (c_ksq _ _ C); [fold tp; lia|]. fold tp. unfold KING in *. lia.
Qed.

Lemma undo_enpassant p m p2 :
  WF t p -> ok_common p m -> ok_enpassant p m ->
  let p' := do_move_raw t p (code m) in eqpf p2 p' ->
  let p'' := undo_move_raw t p2 (top_entry p (code m)) (i_hist p) in
  Coh t p'' /\ (HBu p p2 -> PhOK t p'') /\ i_board p'' = i_board p /\ i_ksq p'' = i_ksq p.
Proof.
  intros W Hc Hn p' Heq p''. pose proof (w_coh _ _ W) as C. pose proof (c_len _ _ C) as Hl.
  pose proof (w_stm _ _ W) as Hstm.
  pose proof (do_wf t p m W (conj Hc (or_intror (or_intror (or_introl Hn))))) as W'. fold p' in W'.
  pose proof (do_board p m W (conj Hc (or_intror (or_intror (or_introl Hn))))) as EB. fold p' in EB.
  destruct Hc as [Hf Ht Hpr Hpc Hcol]. destruct Hn as [Hty Hpawn Htgt Hep (Hcs & Hcsmk & Hcsf & Hcst) [Hcbf Hcbt] Hrank].
  destruct (decode m) as (E1 & E2 & E3 & E4); try lia. { rewrite Hty. unfold ENPASSANT. lia. }
  assert (Hne : mfrom m <> mto m) by (intro E; rewrite E in Hpc; congruence).
  assert (Hcap : at_ (i_board p) (sq_to (mto m) (pawn_dir (cflip (i_stm p)))) = 8 * cflip (i_stm p) + PAWN).
  { destruct (w_ep _ _ W) as [E64|(_ & _ & _ & H)]; [lia|]. rewrite Hep. exact H. }
  unfold make in EB. cbn [abs brd stm cr ep hmc fmn] in EB. rewrite Hty in EB.
  cbn [N.eqb NORMAL PROMOTION ENPASSANT CASTLING Pos.eqb] in EB. rewrite <- Hcsmk in EB.
  set (cs := sq_to (mto m) (pawn_dir (cflip (i_stm p)))) in *.
  assert (Hpcm : at_ (i_board p) (mfrom m) mod 8 = PAWN) by (rewrite Hpawn; apply mk_mod; unfold PAWN; lia).
  assert (Eks : i_ksq p' = i_ksq p).
  { unfold p', do_move_raw. rewrite E1, E2, E3, Hty. cbn [N.eqb ENPASSANT Pos.eqb]. unfold do_enpassant_raw.
    rewrite Hcol. fold cs. fr. atp. eqbs. rewrite Hpcm. reflexivity. }
  set (pc := at_ (i_board p) (mfrom m)) in *.
  destruct (eqpf_fields _ _ Heq) as (Fk & Fb & Fcr & Fep & Fhmc & Fstm & Fksq & Fnhm & Fpbb & Focc & Fhist & Fmat & Fmnp & Fpm & Fpe).
  assert (W2 : WF t p2) by (apply (wf_eqpf p' p2); [apply eqpf_sym; exact Heq|exact W']).
  rewrite <- Fb in EB. rewrite <- Fksq in Eks.
  assert (Est2 : i_stm p2 = N.lxor (i_stm p) 1) by (rewrite Fstm; unfold p'; apply do_move_raw_stm).
  assert (G' : Good t (HBu p p2) p2 (kres t p2)).
  { apply good_of_coh; [apply (w_coh _ _ W2)|]. intros (H1 & H2 & H3). auto. }
  unfold p'', undo_move_raw, top_entry. cbn [h_move h_cap]. rewrite E1, E2, E3, Hty. cbn [N.eqb ENPASSANT Pos.eqb].
  assert (Es' : i_stm (unturn (i_hist p) p2) = i_stm p).
  { fr. rewrite Est2. fold (cflip (i_stm p)). apply cflip_cflip. }
  rewrite Es'. fold cs.
  assert (Hl' : length (i_board p2) = 64%nat) by (rewrite EB, !put_length; exact Hl).
  set (q0 := unturn (i_hist p) p2).
  assert (Eq0 : i_board q0 = i_board p2) by reflexivity.
  set (ep := 8 * cflip (i_stm p) + PAWN) in *.
  pose proof (cflip_lt _ Hstm) as Hcf.
  assert (Hepok : okpc ep = true) by (apply okpc_mk; unfold PAWN; lia).
  assert (Hepm : ep mod 8 = PAWN) by (apply mk_mod; unfold PAWN; lia).
  assert (Gm : Good t (HBu p p2) (mp t q0 (mto m) (mfrom m)) (kres t p2)).
  { apply good_mp; try assumption; try (intro; congruence).
    - apply good_unturn. exact G'.
    - rewrite Eq0, EB. atp. eqbs. exact Hpc.
    - rewrite Eq0, EB. atp. eqbs. reflexivity. }
  assert (EBm : i_board (mp t q0 (mto m) (mfrom m)) = put (i_board p) cs 0).
  { fr. rewrite Eq0, EB. apply board_ext; [rewrite !put_length; reflexivity|]. intros s Hs. atp. eqbs.
    destruct (N.eqb_spec s (mfrom m)) as [->|]; eqbs; [reflexivity|].
    destruct (N.eqb_spec s (mto m)) as [->|]; eqbs; [symmetry; exact Htgt|].
    destruct (N.eqb_spec s cs); reflexivity. }
  assert (Gp : Good t (HBu p p2) (put_raw t (mp t q0 (mto m) (mfrom m)) ep cs) (kres t p2)).
  { apply good_put; try assumption.
    - rewrite EBm. atp. eqbs. reflexivity.
    - unfold ep, PAWN. lia.
    - intro Hk. rewrite Hepm in Hk. discriminate.
    - intros (Hnn & [Hp1 Hp2] & _) hc. rewrite EBm.
      rewrite (psum_rem t p ep cs) by (auto; unfold ep, PAWN; lia). specialize (Hp2 hc). lia. }
  destruct Gp as (Cp & _ & Pp). split; [|split; [|split]].
  - apply coh_restore. exact Cp.
  - intro hb. eapply phok_fields; [..|apply (Pp hb)]; reflexivity.
  - fr. rewrite Eq0, EB. apply board_ext; [rewrite !put_length; reflexivity|]. intros s Hs. atp. eqbs.
    destruct (N.eqb_spec s cs) as [->|]; [symmetry; exact Hcap|].
    destruct (N.eqb_spec s (mfrom m)) as [->|]; eqbs; [reflexivity|].
    destruct (N.eqb_spec s (mto m)) as [->|]; [symmetry; exact Htgt|reflexivity].
  - unfold q0. fr. rewrite Hepm. cbn [N.eqb PAWN KING Pos.eqb]. rewrite EB. atp. eqbs. fold pc. rewrite Hpcm.
    cbn [N.eqb PAWN KING Pos.eqb]. exact Eks.
Qed.

Lemma undo_castle_if {A} (x1 x2 x3 x4 : A) kf kt rf rt cc : castle_shape kf kt rf rt cc ->
  (if kt =? 6 then x1 else if kt =? 2 then x2 else if kt =? 62 then x3 else x4) =
  (if rt =? 5 then x1 else if rt =? 3 then x2 else if rt =? 61 then x3 else x4) /\
  ((rt, rf) = (5, 7) \/ (rt, rf) = (3, 0) \/ (rt, rf) = (61, 63) \/ (rt, rf) = (59, 56)).
Proof.
  intros [E|[E|[E|E]]]; injection E as -> -> -> -> ->; split; try reflexivity; auto.
Qed.

Lemma undo_castling p m p2 :
  WF t p -> ok_common p m -> ok_castling p m ->
  let p' := do_move_raw t p (code m) in eqpf p2 p' ->
  let p'' := undo_move_raw t p2 (top_entry p (code m)) (i_hist p) in
  Coh t p'' /\ (HBu p p2 -> PhOK t p'') /\ i_board p'' = i_board p /\ i_ksq p'' = i_ksq p.
Proof.
  intros W Hc Hn p' Heq p''. pose proof (w_coh _ _ W) as C. pose proof (c_len _ _ C) as Hl.
  pose proof (w_stm _ _ W) as Hstm.
  pose proof (do_wf t p m W (conj Hc (or_intror (or_intror (or_intror Hn))))) as W'. fold p' in W'.
  pose proof (do_board p m W (conj Hc (or_intror (or_intror (or_intror Hn))))) as EB. fold p' in EB.
  destruct Hc as [Hf Ht Hpr Hpc Hcol]. destruct Hn as [Hty (rf & rt & Hsh & Hk & Hr & Hte & Hrte)].
  destruct (decode m) as (E1 & E2 & E3 & E4); try lia. { rewrite Hty. unfold CASTLING. lia. }
  destruct (castle_info_shape _ _ _ _ _ Hsh) as (Eci & Elost & _ & _ & Hrf & Hrt & N1 & N2 & N3 & N4 & N5 & N6 & Ercs).
  unfold make in EB. cbn [abs brd stm cr ep hmc fmn] in EB. rewrite Hty in EB.
  cbn [N.eqb NORMAL PROMOTION ENPASSANT CASTLING Pos.eqb] in EB. rewrite Ercs in EB. unfold mk_piece in EB.
  set (kg := 8 * i_stm p + KING) in *. set (rk := 8 * i_stm p + ROOK) in *.
  assert (Hkgm : kg mod 8 = KING) by (apply mk_mod; unfold KING; lia).
  assert (Hrkm : rk mod 8 = ROOK) by (apply mk_mod; unfold ROOK; lia).
  assert (Hkgd : kg / 8 = i_stm p) by (apply mk_div; unfold KING; lia).
  assert (Eks : i_ksq p' = upd (i_stm p) (mto m) (i_ksq p)).
  { unfold p', do_move_raw. rewrite E1, E2, E3, Hty, Eci. cbn [N.eqb CASTLING Pos.eqb]. unfold do_castling_raw.
    fr. atp. eqbs. rewrite Hk, Hr. fold kg rk. rewrite Hkgm, Hrkm, Hkgd. reflexivity. }
  destruct (eqpf_fields _ _ Heq) as (Fk & Fb & Fcr & Fep & Fhmc & Fstm & Fksq & Fnhm & Fpbb & Focc & Fhist & Fmat & Fmnp & Fpm & Fpe).
  assert (W2 : WF t p2) by (apply (wf_eqpf p' p2); [apply eqpf_sym; exact Heq|exact W']).
  rewrite <- Fb in EB. rewrite <- Fksq in Eks.
  assert (Est2 : i_stm p2 = N.lxor (i_stm p) 1) by (rewrite Fstm; unfold p'; apply do_move_raw_stm).
  assert (G' : Good t (HBu p p2) p2 (kres t p2)).
  { apply good_of_coh; [apply (w_coh _ _ W2)|]. intros (H1 & H2 & H3). auto. }
  unfold p'', undo_move_raw, top_entry. cbn [h_move h_cap]. rewrite E1, E2, E3, Hty. cbn [N.eqb CASTLING Pos.eqb].
  assert (Hl' : length (i_board p2) = 64%nat) by (rewrite EB, !put_length; exact Hl).
  set (q0 := unturn (i_hist p) p2).
  assert (Eq0 : i_board q0 = i_board p2) by reflexivity.
  assert (Gm : Good t (HBu p p2) (mp t q0 (mto m) (mfrom m)) (kres t p2)).
  { apply good_mp; try assumption; try (intro; congruence).
    - apply good_unturn. exact G'.
    - rewrite Eq0, EB. atp. eqbs. rewrite Hk. fold kg. unfold kg, KING. lia.
    - rewrite Eq0, EB. atp. eqbs. reflexivity. }
  set (q1 := mp t q0 (mto m) (mfrom m)) in *.
  assert (Eq1 : i_board q1 = put (put (put (i_board p2) (mto m) 0) (mfrom m) kg) (mto m) 0 -> True) by auto.
  assert (Ebq1 : forall s, at_ (i_board q1) s =
     if s =? mfrom m then kg else if s =? mto m then 0 else if s =? rt then rk else if s =? rf then 0 else at_ (i_board p) s).
  { intro s. unfold q1. fr. rewrite Eq0, EB. atp. eqbs. rewrite Hk. fold kg.
    destruct (N.eqb_spec s (mfrom m)) as [->|]; [reflexivity|].
    destruct (N.eqb_spec s (mto m)) as [->|]; [reflexivity|].
    destruct (N.eqb_spec s rt) as [->|]; [reflexivity|].
    destruct (N.eqb_spec s rf) as [->|]; reflexivity. }
  assert (Hlq1 : length (i_board q1) = 64%nat) by (unfold q1; fr; rewrite !put_length, Eq0; exact Hl').
  assert (Eif : (if mto m =? 6 then mp t q1 5 7 else if mto m =? 2 then mp t q1 3 0
                 else if mto m =? 62 then mp t q1 61 63 else mp t q1 59 56) = mp t q1 rt rf).
  { destruct Hsh as [E|[E|[E|E]]]; injection E as _ -> -> -> _; reflexivity. }
  rewrite Eif.
  assert (Gr : Good t (HBu p p2) (mp t q1 rt rf) (kres t p2)).
  { apply good_mp; try assumption; try (intro; congruence).
    - rewrite Ebq1. eqbs. unfold rk, ROOK. lia.
    - rewrite Ebq1. eqbs. reflexivity. }
  destruct Gr as (Cr & _ & Pr). split; [|split; [|split]].
  - apply coh_restore. exact Cr.
  - intro hb. eapply phok_fields; [..|apply (Pr hb)]; reflexivity.
  - fr. apply board_ext; [rewrite !put_length, Hlq1; auto|]. intros s Hs.
    rewrite !at_put by (rewrite ?put_length; (assumption || lia)). rewrite !Ebq1. eqbs.
    destruct (N.eqb_spec s rf) as [->|]; [symmetry; exact Hr|].
    destruct (N.eqb_spec s rt) as [->|]; [symmetry; exact Hrte|].
    destruct (N.eqb_spec s (mfrom m)) as [->|]; [symmetry; exact Hk|].
    destruct (N.eqb_spec s (mto m)) as [->|]; [symmetry; exact Hte|reflexivity].
  - fr. rewrite Ebq1. eqbs. rewrite Hrkm. cbn [N.eqb ROOK KING Pos.eqb].
    unfold q1, q0. fr. rewrite EB. atp. eqbs. rewrite Hk. fold kg. rewrite Hkgm, Hkgd. cbn [N.eqb KING Pos.eqb].
    rewrite Eks, upd_upd. apply upd_id. apply (c_ksq _ _ C); [exact Hstm|exact Hk].
Qed.
End UndoThms.
