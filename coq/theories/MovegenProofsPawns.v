(** * MovegenProofsPawns: generatePawnMoves produces exactly the pawn classes of
      [Rules.pseudo] (C01): captures, promotions, en passant, double and single steps.

    PROVED (for every [legal_pos p], non-evasion generation, both settings of
    UsePromNonQuiet; class numbers of MovegenSpec.cls):
    - [gen_pawn_captures_exact]   each iteration (West, East) of the capture loop returns the
                                  promotion captures (classes 0 / 2) followed by the other
                                  captures (classes 1 / 3) of that direction;
    - [gen_enpassant_exact]       the en passant loop returns class 4 then class 5;
    - [gen_pawn_promotions_exact] the non capturing promotions: the GenNonQuiet part returns
                                  class 6 (queen / knight when UsePromNonQuiet, else nothing),
                                  the GenQuiet part class 9 (the others);
    - [gen_pawn_double_exact]     class 10;   [gen_pawn_pushes_exact]  class 11;
    - [gen_pawn_nonquiet_exact], [gen_pawn_quiet_exact]: generatePawnMoves as a whole =
      the concatenation of classes 0..6, resp. 9..11, each a permutation, no duplicates. *)
From Coq Require Import NArith ZArith List Bool Lia ZifyN ZifyBool Permutation.
From FG Require Import Word64 Geom Tables TablesCorrect ShiftCorrect Rules BitView
                       AttacksImpl AttacksLemmas MoveEnc SqListFacts MovegenImpl MovegenLemmas MovegenSpec.
From FG.gen Require Import Tables_gen.
Import ListNotations.
Open Scope N_scope.

(** ** words given by a finite check *)
Lemma word_bits_by_check (W : N) (f : N -> bool) : W < W64 ->
  forallb (fun t => Bool.eqb (N.testbit W t) (f t)) squares64 = true ->
  forall t, N.testbit W t = (t <? 64) && f t.
Proof.
  intros HW H t. destruct (N.ltb_spec t 64) as [Ht|Ht]; cbn [andb].
  - pose proof (forall_squares _ H t Ht) as E. cbv beta in E. now apply Bool.eqb_prop in E.
  - now apply bits_high_false.
Qed.

Definition prom_word (c : N) : N := match prom_rank_bb c with Some w => w | None => 0 end.
Definition dbl_word (c : N) : N := match pawn_double_rank c with Some w => w | None => 0 end.
(* the rank a pawn passes on its double step *)
Definition dbl_rank (c : N) : N := if c =? WHITE then 2 else 5.

Lemma prom_word_some c : c < 2 -> prom_rank_bb c = Some (prom_word c).
Proof. intros H. assert (c = 0 \/ c = 1) as [-> | ->] by lia; reflexivity. Qed.
Lemma dbl_word_some c : c < 2 -> pawn_double_rank c = Some (dbl_word c).
Proof. intros H. assert (c = 0 \/ c = 1) as [-> | ->] by lia; reflexivity. Qed.

Lemma prom_word_lt c : c < 2 -> prom_word c < W64.
Proof. intros H. assert (c = 0 \/ c = 1) as [-> | ->] by lia; vm_compute; reflexivity. Qed.
Lemma dbl_word_lt c : c < 2 -> dbl_word c < W64.
Proof. intros H. assert (c = 0 \/ c = 1) as [-> | ->] by lia; vm_compute; reflexivity. Qed.

Lemma prom_word_bit c t : c < 2 -> N.testbit (prom_word c) t = (t <? 64) && (rank_of t =? last_rank c).
Proof.
  intros H. revert t. assert (c = 0 \/ c = 1) as [-> | ->] by lia;
    (apply (word_bits_by_check _ (fun t => rank_of t =? last_rank _)); [vm_compute; reflexivity|vm_cast_no_check (eq_refl true)]).
Qed.
Lemma dbl_word_bit c t : c < 2 -> N.testbit (dbl_word c) t = (t <? 64) && (rank_of t =? dbl_rank c).
Proof.
  intros H. revert t. assert (c = 0 \/ c = 1) as [-> | ->] by lia;
    (apply (word_bits_by_check _ (fun t => rank_of t =? dbl_rank _)); [vm_compute; reflexivity|vm_cast_no_check (eq_refl true)]).
Qed.

(* stepping forward from the start rank reaches the double-step rank *)
Lemma dbl_rank_start c s t : c < 2 -> s < 64 -> step (fwd c) s = Some t ->
  (rank_of t =? dbl_rank c) = (rank_of s =? start_rank c).
Proof.
  intros Hc Hs E.
  assert (H : forallb (fun c => forallb (fun s => match step (fwd c) s with
                 | Some t => Bool.eqb (rank_of t =? dbl_rank c) (rank_of s =? start_rank c)
                 | None => true end) squares64) [0; 1] = true) by (vm_compute; reflexivity).
  rewrite forallb_forall in H. assert (Hin : In c [0;1]) by (cbn; lia).
  pose proof (forall_squares _ (H c Hin) s Hs) as G. cbv beta in G. rewrite E in G. now apply Bool.eqb_prop in G.
Qed.

(** ** directions *)
(* MoveDirection()+dir for dir = West / East *)
Definition capdir (c : N) (we : dir) : dir :=
  if c =? WHITE then (match we with DW => DNW | _ => DNE end) else (match we with DW => DSW | _ => DSE end).

Definition is_we (we : dir) : Prop := we = DW \/ we = DE.

Lemma dirs_ok c we : c < 2 -> is_we we ->
  move_direction c = Some (fwd c) /\ move_direction (flipc c) = Some (fwd (flip c)) /\
  opp (fwd c) = fwd (flip c) /\
  dir_plus (fwd c) we = Some (capdir c we) /\
  dir_minus (fwd (flip c)) we = Some (opp (capdir c we)) /\
  (* en passant: Flip().MoveDirection()+dir and MoveDirection()-dir *)
  dir_plus (fwd (flip c)) we = Some (capdir (flip c) we) /\
  dir_minus (fwd c) we = Some (opp (capdir (flip c) we)).
Proof.
  intros Hc [-> | ->]; (assert (c = 0 \/ c = 1) as [-> | ->] by lia); vm_compute; repeat split.
Qed.

Lemma pawn_targets_dirs c s t : c < 2 ->
  (In t (pawn_attack_targets c s) <-> step (capdir c DW) s = Some t \/ step (capdir c DE) s = Some t).
Proof.
  intros Hc. unfold pawn_attack_targets, capdir.
  assert (c = 0 \/ c = 1) as [-> | ->] by lia; cbn [N.eqb WHITE]; rewrite In_somes; cbn [In]; intuition congruence.
Qed.

(* a westward capture decreases the file, an eastward one increases it *)
Lemma capdir_file c we s t : c < 2 -> is_we we -> s < 64 -> step (capdir c we) s = Some t ->
  (file_of t <? file_of s) = (match we with DW => true | _ => false end) /\
  (file_of s <? file_of t) = (match we with DW => false | _ => true end).
Proof.
  intros Hc Hwe Hs E.
  assert (H : forallb (fun c => forallb (fun we => forallb (fun s =>
                 match step (capdir c we) s with
                 | Some t => Bool.eqb (file_of t <? file_of s) (match we with DW => true | _ => false end) &&
                             Bool.eqb (file_of s <? file_of t) (match we with DW => false | _ => true end)
                 | None => true end) squares64) [DW; DE]) [0; 1] = true) by (vm_compute; reflexivity).
  rewrite forallb_forall in H. assert (Hin : In c [0;1]) by (cbn; lia). specialize (H c Hin).
  rewrite forallb_forall in H. assert (Hin2 : In we [DW; DE]) by (destruct Hwe as [-> | ->]; cbn; auto).
  pose proof (forall_squares _ (H we Hin2) s Hs) as G. cbv beta in G. rewrite E in G.
  apply andb_true_iff in G as [G1 G2]. apply Bool.eqb_prop in G1, G2. now split.
Qed.

(** ** move codes *)
Lemma mk_code_promo f t pr : f < 64 -> t < 64 -> prom_piece pr ->
  mk_code f t PROMOTION pr = code (mkmv f t PROMOTION pr).
Proof.
  intros Hf Ht Hpr. rewrite mk_code_code; [|exact Hf|exact Ht|reflexivity|destruct Hpr as [->|[->|[->| ->]]]; vm_compute; discriminate].
  destruct Hpr as [->|[->|[->| ->]]]; reflexivity.
Qed.

Lemma mk_code_ep f t : f < 64 -> t < 64 -> mk_code f t ENPASSANT PT_NONE = code (mkmv f t ENPASSANT 3).
Proof. intros Hf Ht. now rewrite mk_code_code by (unfold ENPASSANT, PT_NONE; lia). Qed.

Lemma code_to m : valid_mv m -> To (code m) = mto m.
Proof. intros H. now destruct (code_fields m H) as (_ & A & _). Qed.
Lemma code_prom m : valid_mv m -> PromotionType (code m) = mprom m.
Proof. intros H. now destruct (code_fields m H) as (_ & _ & _ & A). Qed.

Lemma valid_promo f t pr : f < 64 -> t < 64 -> prom_piece pr -> valid_mv (mkmv f t PROMOTION pr).
Proof.
  intros Hf Ht Hpr. unfold valid_mv. cbn. repeat split; try assumption; try reflexivity;
    destruct Hpr as [->|[->|[->| ->]]]; vm_compute; discriminate.
Qed.
Lemma valid_normal f t : f < 64 -> t < 64 -> valid_mv (mkmv f t NORMAL 3).
Proof. intros Hf Ht. unfold valid_mv, NORMAL. cbn. lia. Qed.

(* a list of moves that all arrive on [to], one per promotion piece in [prs] *)
Definition promo_codes (prs : list N) (from to : N) : list N :=
  map (fun pr => mk_code from to PROMOTION pr) prs.

Lemma promo_qn_eq from to : promo_qn from to = promo_codes [QUEEN; KNIGHT] from to.
Proof. reflexivity. Qed.
Lemma promo_rb_eq from to : promo_rb from to = promo_codes [ROOK; BISHOP] from to.
Proof. reflexivity. Qed.

Lemma promo_codes_nodup prs from to : from < 64 -> to < 64 -> (forall pr, In pr prs -> prom_piece pr) ->
  NoDup prs -> NoDup (promo_codes prs from to).
Proof.
  intros Hf Ht Hprs Hnd. unfold promo_codes. apply nodup_map_inj; [|exact Hnd].
  intros x y Hx Hy E. rewrite !mk_code_promo in E by auto.
  apply code_inj in E; [now injection E| |]; apply valid_promo; auto.
Qed.

Lemma promo_codes_to prs from to y : from < 64 -> to < 64 -> (forall pr, In pr prs -> prom_piece pr) ->
  In y (promo_codes prs from to) -> To y = to.
Proof.
  intros Hf Ht Hprs Hy. unfold promo_codes in Hy. apply in_map_iff in Hy as [pr [<- Hpr]].
  rewrite mk_code_promo by auto. rewrite code_to by (apply valid_promo; auto). reflexivity.
Qed.

Section Pawns.
Variable prom_nq : bool.
Variable p : pos.
Hypothesis Hlegal : legal_pos p = true.

Let b := brd p.
Let c := stm p.
Let v := view_of_spec p.

Lemma Hw' : wfp p. Proof. now apply legal_wfp. Qed.
Lemma Hc' : c < 2. Proof. exact (wf_stm p Hw'). Qed.
Lemma Hocc' : occ_all v = occ_of b. Proof. apply occ_all_view. apply wfp_codes_ok. exact Hw'. Qed.
Lemma Hoth' : occ_bb v (flipc c) = Some (occ_word b (flip c)).
Proof. replace (flipc c) with (flip c) by (symmetry; apply flipc_lt; exact Hc'). apply occ_bb_view. apply flipc_lt. exact Hc'. Qed.

Definition myP : N := piece_word b c PAWN.
Lemma myP_lt : myP < W64. Proof. apply piece_word_lt. Qed.
Lemma Hpbb : pbb v c PAWN = Some myP.
Proof. apply pbb_view; [exact Hc'|reflexivity]. Qed.

Definition own_pawn (s : N) : Prop := s < 64 /\ at_ b s = mk_piece c PAWN.

Lemma myP_bit s : N.testbit myP s = true <-> own_pawn s.
Proof.
  unfold myP, own_pawn. rewrite piece_word_testbit by discriminate.
  rewrite andb_true_iff, N.ltb_lt, N.eqb_eq. reflexivity.
Qed.

(* ShiftBitboard(myPawns, d) *)
Lemma shift_pawns_bit d t : t < 64 ->
  (N.testbit (shift_impl myP d) t = true <-> exists s, own_pawn s /\ step d s = Some t).
Proof.
  intros Ht. rewrite (shift_exact myP d t myP_lt Ht). split.
  - intros [s [Hs [Hb E]]]. exists s. split; [now apply myP_bit|exact E].
  - intros [s [[Hs Hat] E]]. exists s. repeat split; try assumption. apply myP_bit. now split.
Qed.

Lemma enemy_bit' t : t < 64 -> N.testbit (occ_word b (flip c)) t = enemy b c t.
Proof.
  intros Ht. rewrite occ_word_testbit. replace (t <? 64) with true by lia. cbn [andb].
  unfold b, c. now rewrite (enemy_iff p t Hw').
Qed.
Lemma empty_bit' t : N.testbit (bnot (occ_of b)) t = (t <? 64) && (at_ b t =? 0).
Proof.
  rewrite bnot_testbit by apply occ_of_lt. rewrite occ_of_testbit.
  destruct (t <? 64); cbn [andb]; [now rewrite negb_involutive|reflexivity].
Qed.

(* the from square read back from the target *)
Lemma back_from d s t : s < 64 -> step d s = Some t -> sq_to_o t (Some (opp d)) = Some s.
Proof.
  intros Hs E. assert (Ht : t < 64) by now apply step_lt in E.
  rewrite sq_to_o_some by exact Ht. f_equal. now apply step_back.
Qed.

(* loops over the targets of a word all of whose bits come from a pawn one step back *)
Definition from_of (d : dir) (t : N) : N := opt64 (step (opp d) t).

Lemma loop_from (W : N) (d : dir) (g : N -> N -> list N) : W < W64 ->
  (forall t, N.testbit W t = true -> exists s, own_pawn s /\ step d s = Some t) ->
  flat_map_o (fun to => do from <- sq_to_o to (Some (opp d)); Some (g from to)) (sq_list_of_bb W) =
  Some (flat_map (fun to => g (from_of d to) to) (sq_list_of_bb W)).
Proof.
  intros HW H. apply flat_map_o_some. intros t Ht. apply (sq_list_in W t HW) in Ht.
  destruct (H t Ht) as [s [[Hs _] E]]. rewrite (back_from d s t Hs E). cbn [bind].
  unfold from_of. now rewrite (step_back d s t Hs E).
Qed.

Lemma from_of_eq d s t : s < 64 -> step d s = Some t -> from_of d t = s.
Proof. intros Hs E. unfold from_of. now apply step_back. Qed.

(* membership / NoDup of such loops *)
Lemma loop_in (W : N) (d : dir) (g : N -> N -> list N) x : W < W64 ->
  (forall t, N.testbit W t = true -> exists s, own_pawn s /\ step d s = Some t) ->
  (In x (flat_map (fun to => g (from_of d to) to) (sq_list_of_bb W)) <->
   exists s t, own_pawn s /\ step d s = Some t /\ N.testbit W t = true /\ In x (g s t)).
Proof.
  intros HW H. rewrite in_flat_map. split.
  - intros [t [Ht Hx]]. apply (sq_list_in W t HW) in Ht. destruct (H t Ht) as [s [Hs E]].
    exists s, t. rewrite (from_of_eq d s t (proj1 Hs) E) in Hx. auto.
  - intros (s & t & Hs & E & Ht & Hx). exists t. split; [now apply (sq_list_in W t HW)|].
    now rewrite (from_of_eq d s t (proj1 Hs) E).
Qed.

Lemma loop_nodup (W : N) (d : dir) (g : N -> N -> list N) : W < W64 ->
  (forall t, N.testbit W t = true -> exists s, own_pawn s /\ step d s = Some t) ->
  (forall s t, s < 64 -> t < 64 -> NoDup (g s t) /\ forall y, In y (g s t) -> To y = t) ->
  NoDup (flat_map (fun to => g (from_of d to) to) (sq_list_of_bb W)).
Proof.
  intros HW H Hg. apply (nodup_flat_map_key To).
  - apply sq_list_of_bb_NoDup_any.
  - intros t Ht. apply (sq_list_in W t HW) in Ht. destruct (H t Ht) as [s [[Hs _] E]].
    rewrite (from_of_eq d s t Hs E). apply Hg; [exact Hs|now apply step_lt in E].
  - intros t y Ht Hy. apply (sq_list_in W t HW) in Ht. destruct (H t Ht) as [s [[Hs _] E]].
    rewrite (from_of_eq d s t Hs E) in Hy. apply (proj2 (Hg s t Hs ltac:(now apply step_lt in E))). exact Hy.
Qed.

Definition normal1 (from to : N) : list N := [mk_code from to NORMAL PT_NONE].

Lemma normal1_ok s t : s < 64 -> t < 64 -> NoDup (normal1 s t) /\ forall y, In y (normal1 s t) -> To y = t.
Proof.
  intros Hs Ht. split; [repeat constructor; intros []|]. intros y [<-|[]].
  rewrite mk_code_normal by assumption. apply code_to. now apply valid_normal.
Qed.

Lemma promo_ok prs s t : (forall pr, In pr prs -> prom_piece pr) -> NoDup prs -> s < 64 -> t < 64 ->
  NoDup (promo_codes prs s t) /\ forall y, In y (promo_codes prs s t) -> To y = t.
Proof.
  intros Hprs Hnd Hs Ht. split; [now apply promo_codes_nodup|]. intros y. now apply promo_codes_to.
Qed.

Lemma all4 : (forall pr, In pr [QUEEN; KNIGHT; ROOK; BISHOP] -> prom_piece pr) /\ NoDup [QUEEN; KNIGHT; ROOK; BISHOP].
Proof.
  split; [intros pr H; cbn [In] in H; unfold prom_piece; intuition|].
  repeat constructor; cbn [In]; unfold QUEEN, KNIGHT, ROOK, BISHOP; intuition discriminate.
Qed.
Lemma qn2 : (forall pr, In pr [QUEEN; KNIGHT] -> prom_piece pr) /\ NoDup [QUEEN; KNIGHT].
Proof.
  split; [intros pr H; cbn [In] in H; unfold prom_piece; intuition|].
  repeat constructor; cbn [In]; unfold QUEEN, KNIGHT; intuition discriminate.
Qed.
Lemma rb2 : (forall pr, In pr [ROOK; BISHOP] -> prom_piece pr) /\ NoDup [ROOK; BISHOP].
Proof.
  split; [intros pr H; cbn [In] in H; unfold prom_piece; intuition|].
  repeat constructor; cbn [In]; unfold ROOK, BISHOP; intuition discriminate.
Qed.

(** ** captures: one iteration of the loop over West, East *)
Definition cap_word (we : dir) : N := N.land (shift_impl myP (capdir c we)) (occ_word b (flip c)).
Lemma cap_word_lt we : cap_word we < W64. Proof. apply land_lt_r. apply occ_word_lt. Qed.

Lemma cap_word_bit we t :
  N.testbit (cap_word we) t = true <->
  exists s, own_pawn s /\ step (capdir c we) s = Some t /\ enemy b c t = true.
Proof.
  unfold cap_word. rewrite N.land_spec, andb_true_iff. split.
  - intros [H1 H2]. assert (Ht : t < 64) by (apply (testbit_lt64 _ _ (occ_word_lt b (flip c))); exact H2).
    apply (shift_pawns_bit _ t Ht) in H1 as [s [Hs E]]. exists s. split; [exact Hs|]. split; [exact E|].
    rewrite enemy_bit' in H2 by exact Ht. exact H2.
  - intros [s [Hs [E Hen]]]. assert (Ht : t < 64) by now apply step_lt in E. split.
    + apply (shift_pawns_bit _ t Ht). now exists s.
    + rewrite enemy_bit' by exact Ht. exact Hen.
Qed.

Definition cap_promo_word (we : dir) : N := N.land (cap_word we) (prom_word c).
Definition cap_norm_word (we : dir) : N := N.land (cap_word we) (bnot (prom_word c)).

Definition cap_promo_list (we : dir) : list N :=
  flat_map (fun to => promo_codes [QUEEN; KNIGHT; ROOK; BISHOP] (from_of (capdir c we) to) to)
           (sq_list_of_bb (cap_promo_word we)).
Definition cap_norm_list (we : dir) : list N :=
  flat_map (fun to => normal1 (from_of (capdir c we) to) to) (sq_list_of_bb (cap_norm_word we)).

Lemma cap_promo_from we t : N.testbit (cap_promo_word we) t = true ->
  exists s, own_pawn s /\ step (capdir c we) s = Some t.
Proof.
  unfold cap_promo_word. rewrite N.land_spec. intros H. apply andb_true_iff in H as [H _].
  apply cap_word_bit in H as [s [Hs [E _]]]. now exists s.
Qed.
Lemma cap_norm_from we t : N.testbit (cap_norm_word we) t = true ->
  exists s, own_pawn s /\ step (capdir c we) s = Some t.
Proof.
  unfold cap_norm_word. rewrite N.land_spec. intros H. apply andb_true_iff in H as [H _].
  apply cap_word_bit in H as [s [Hs [E _]]]. now exists s.
Qed.

Lemma gen_captures_eq we : is_we we ->
  gen_pawn_captures_dir v false 0 we = Some (cap_promo_list we ++ cap_norm_list we).
Proof.
  intros Hwe. destruct (dirs_ok c we Hc' Hwe) as (D1 & D2 & D3 & D4 & D5 & _).
  unfold gen_pawn_captures_dir. change (vstm v) with c.
  rewrite Hpbb, Hoth', D1, D2, (prom_word_some c Hc'). cbn [bind]. rewrite D4, D5. cbn [shift_bb].
  fold (cap_word we). fold (cap_promo_word we). fold (cap_norm_word we).
  rewrite (loop_from (cap_promo_word we) (capdir c we)
             (fun from to => promo_qn from to ++ promo_rb from to))
    by (try apply cap_promo_from; apply land_lt; apply cap_word_lt).
  cbn [bind].
  rewrite (loop_from (cap_norm_word we) (capdir c we) (fun from to => [mk_code from to NORMAL PT_NONE]))
    by (try apply cap_norm_from; apply land_lt; apply cap_word_lt).
  reflexivity.
Qed.

(* class numbers of the two directions *)
Definition cap_cls (we : dir) (promo : bool) : nat :=
  match we with DW => if promo then 0 else 1 | _ => if promo then 2 else 3 end%nat.

Lemma cap_promo_class we x : is_we we ->
  (In x (cap_promo_list we) <-> In x (class_codes prom_nq p (cap_cls we true))).
Proof.
  intros Hwe. unfold cap_promo_list.
  rewrite (loop_in (cap_promo_word we) (capdir c we)
             (fun from to => promo_codes [QUEEN; KNIGHT; ROOK; BISHOP] from to) x)
    by (try apply cap_promo_from; apply land_lt; apply cap_word_lt).
  rewrite (pawn_class_in prom_nq p (cap_cls we true) x Hw')
    by (destruct Hwe as [-> | ->]; cbn; lia). fold b c.
  split.
  - intros (s & t & Hs & E & Hb & Hx). unfold cap_promo_word in Hb. rewrite N.land_spec in Hb.
    apply andb_true_iff in Hb as [Hb1 Hb2]. apply cap_word_bit in Hb1 as [s' [Hs' [E' Hen]]].
    rewrite (prom_word_bit c t Hc') in Hb2. apply andb_true_iff in Hb2 as [Ht Hr]. apply N.ltb_lt in Ht. apply N.eqb_eq in Hr.
    unfold promo_codes in Hx. apply in_map_iff in Hx as [pr [<- Hpr]].
    assert (Hpp : prom_piece pr) by (apply (proj1 all4); exact Hpr).
    exists s, (mkmv s t PROMOTION pr). destruct Hs as [Hs Hat]. repeat split; try assumption.
    + destruct (capdir_file c we s t Hc' Hwe Hs E) as [F1 _].
      assert (Hin : In t (pawn_attack_targets c s)) by (apply (pawn_targets_dirs c s t Hc'); destruct Hwe as [-> | ->]; auto).
      pose proof (pm_cappromo prom_nq p s t pr Hin Hen Hr Hpp) as Hpm. fold b c in Hpm.
      rewrite F1 in Hpm. destruct Hwe as [-> | ->]; exact Hpm.
    + symmetry. now apply mk_code_promo.
  - intros (s & m & Hs & Hat & Hpm & <-).
    inversion Hpm as [t E E0 Hr|t pr E E0 Hr Hpr|t u E E0 Es E2 Eu|t Ht Een Hr|t pr Ht Een Hr Hpr|t Ht Een Ee E0]; subst.
    + destruct Hwe as [-> | ->]; discriminate.
    + unfold promo_cls in H0. destruct (prom_nq && is_qn pr), Hwe as [-> | ->]; discriminate.
    + destruct Hwe as [-> | ->]; discriminate.
    + destruct (file_of t <? file_of s), Hwe as [-> | ->]; discriminate.
    + apply (pawn_targets_dirs c s t Hc') in Ht.
      assert (E : step (capdir c we) s = Some t).
      { destruct Ht as [E|E].
        - destruct (capdir_file c DW s t Hc' (or_introl eq_refl) Hs E) as [F1 _]. rewrite F1 in H0.
          destruct Hwe as [-> | ->]; [exact E|discriminate].
        - destruct (capdir_file c DE s t Hc' (or_intror eq_refl) Hs E) as [F1 _]. rewrite F1 in H0.
          destruct Hwe as [-> | ->]; [discriminate|exact E]. }
      assert (Ht64 : t < 64) by now apply step_lt in E.
      exists s, t. split; [now split|]. split; [exact E|]. split.
      * unfold cap_promo_word. rewrite N.land_spec. apply andb_true_iff. split.
        -- apply cap_word_bit. exists s. repeat split; assumption.
        -- rewrite (prom_word_bit c t Hc'). apply andb_true_iff. split; [now apply N.ltb_lt|now apply N.eqb_eq].
      * rewrite <- mk_code_promo by assumption. unfold promo_codes. apply in_map_iff. exists pr. split; [reflexivity|].
        destruct Hpr as [->|[->|[->| ->]]]; cbn [In]; auto.
    + destruct (file_of s <? file_of (ep p)), Hwe as [-> | ->]; discriminate.
Qed.

Lemma cap_norm_class we x : is_we we ->
  (In x (cap_norm_list we) <-> In x (class_codes prom_nq p (cap_cls we false))).
Proof.
  intros Hwe. unfold cap_norm_list.
  rewrite (loop_in (cap_norm_word we) (capdir c we) normal1 x)
    by (try apply cap_norm_from; apply land_lt; apply cap_word_lt).
  rewrite (pawn_class_in prom_nq p (cap_cls we false) x Hw')
    by (destruct Hwe as [-> | ->]; cbn; lia). fold b c.
  split.
  - intros (s & t & Hs & E & Hb & Hx). unfold cap_norm_word in Hb. rewrite N.land_spec in Hb.
    apply andb_true_iff in Hb as [Hb1 Hb2]. apply cap_word_bit in Hb1 as [s' [Hs' [E' Hen]]].
    rewrite (bnot_testbit _ _ (prom_word_lt c Hc')), (prom_word_bit c t Hc') in Hb2.
    apply andb_true_iff in Hb2 as [Ht Hr]. rewrite Ht in Hr. cbn [andb] in Hr. apply N.ltb_lt in Ht.
    apply negb_true_iff, N.eqb_neq in Hr.
    destruct Hx as [<-|[]].
    exists s, (mkmv s t NORMAL 3). destruct Hs as [Hs Hat]. repeat split; try assumption.
    + destruct (capdir_file c we s t Hc' Hwe Hs E) as [F1 _].
      assert (Hin : In t (pawn_attack_targets c s)) by (apply (pawn_targets_dirs c s t Hc'); destruct Hwe as [-> | ->]; auto).
      pose proof (pm_cap prom_nq p s t Hin Hen Hr) as Hpm. fold b c in Hpm.
      rewrite F1 in Hpm. destruct Hwe as [-> | ->]; exact Hpm.
    + symmetry. now apply mk_code_normal.
  - intros (s & m & Hs & Hat & Hpm & <-).
    inversion Hpm as [t E E0 Hr|t pr E E0 Hr Hpr|t u E E0 Es E2 Eu|t Ht Een Hr|t pr Ht Een Hr Hpr|t Ht Een Ee E0]; subst.
    + destruct Hwe as [-> | ->]; discriminate.
    + unfold promo_cls in H0. destruct (prom_nq && is_qn pr), Hwe as [-> | ->]; discriminate.
    + destruct Hwe as [-> | ->]; discriminate.
    + apply (pawn_targets_dirs c s t Hc') in Ht.
      assert (E : step (capdir c we) s = Some t).
      { destruct Ht as [E|E].
        - destruct (capdir_file c DW s t Hc' (or_introl eq_refl) Hs E) as [F1 _]. rewrite F1 in H0.
          destruct Hwe as [-> | ->]; [exact E|discriminate].
        - destruct (capdir_file c DE s t Hc' (or_intror eq_refl) Hs E) as [F1 _]. rewrite F1 in H0.
          destruct Hwe as [-> | ->]; [discriminate|exact E]. }
      assert (Ht64 : t < 64) by now apply step_lt in E.
      exists s, t. split; [now split|]. split; [exact E|]. split.
      * unfold cap_norm_word. rewrite N.land_spec. apply andb_true_iff. split.
        -- apply cap_word_bit. exists s. repeat split; assumption.
        -- rewrite (bnot_testbit _ _ (prom_word_lt c Hc')), (prom_word_bit c t Hc').
           replace (t <? 64) with true by lia. cbn [andb]. apply negb_true_iff. now apply N.eqb_neq.
      * left. now apply mk_code_normal.
    + destruct (file_of t <? file_of s), Hwe as [-> | ->]; discriminate.
    + destruct (file_of s <? file_of (ep p)), Hwe as [-> | ->]; discriminate.
Qed.

Lemma cap_promo_nodup we : NoDup (cap_promo_list we).
Proof.
  apply (loop_nodup (cap_promo_word we) (capdir c we)
           (fun from to => promo_codes [QUEEN; KNIGHT; ROOK; BISHOP] from to)).
  - apply land_lt. apply cap_word_lt.
  - apply cap_promo_from.
  - intros s t Hs Ht. apply promo_ok; try assumption; apply all4.
Qed.
Lemma cap_norm_nodup we : NoDup (cap_norm_list we).
Proof.
  apply (loop_nodup (cap_norm_word we) (capdir c we) normal1).
  - apply land_lt. apply cap_word_lt.
  - apply cap_norm_from.
  - intros s t Hs Ht. now apply normal1_ok.
Qed.

Theorem gen_pawn_captures_exact we : is_we we ->
  exists l1 l2, gen_pawn_captures_dir v false 0 we = Some (l1 ++ l2) /\
    Permutation l1 (class_codes prom_nq p (cap_cls we true)) /\ NoDup l1 /\
    Permutation l2 (class_codes prom_nq p (cap_cls we false)) /\ NoDup l2.
Proof.
  intros Hwe. exists (cap_promo_list we), (cap_norm_list we). split; [now apply gen_captures_eq|].
  split; [|split; [apply cap_promo_nodup|split; [|apply cap_norm_nodup]]].
  - apply NoDup_Permutation; [apply cap_promo_nodup|apply class_codes_nodup; exact Hw'|intros x; now apply cap_promo_class].
  - apply NoDup_Permutation; [apply cap_norm_nodup|apply class_codes_nodup; exact Hw'|intros x; now apply cap_norm_class].
Qed.

(** ** pushes *)
Definition push_word : N := N.land (shift_impl myP (fwd c)) (bnot (occ_of b)).
Lemma push_word_lt : push_word < W64. Proof. apply land_lt. apply shift_bounded. apply myP_lt. Qed.

Lemma push_word_bit t :
  N.testbit push_word t = true <-> exists s, own_pawn s /\ step (fwd c) s = Some t /\ at_ b t = 0.
Proof.
  unfold push_word. rewrite N.land_spec, andb_true_iff, empty_bit'. split.
  - intros [H1 H2]. apply andb_true_iff in H2 as [Ht H0]. apply N.ltb_lt in Ht. apply N.eqb_eq in H0.
    apply (shift_pawns_bit _ t Ht) in H1 as [s [Hs E]]. now exists s.
  - intros [s [Hs [E H0]]]. assert (Ht : t < 64) by now apply step_lt in E. split.
    + apply (shift_pawns_bit _ t Ht). now exists s.
    + apply andb_true_iff. split; [now apply N.ltb_lt|now apply N.eqb_eq].
Qed.

Definition dbl_push_word : N :=
  N.land (shift_impl (N.land push_word (dbl_word c)) (fwd c)) (bnot (occ_of b)).
Lemma dbl_push_word_lt : dbl_push_word < W64.
Proof. apply land_lt. apply shift_bounded. apply land_lt. apply push_word_lt. Qed.

Lemma dbl_push_word_bit u :
  N.testbit dbl_push_word u = true <->
  exists s t, own_pawn s /\ step (fwd c) s = Some t /\ at_ b t = 0 /\ rank_of s = start_rank c /\
              step (fwd c) t = Some u /\ at_ b u = 0.
Proof.
  unfold dbl_push_word. rewrite N.land_spec, andb_true_iff, empty_bit'. split.
  - intros [H1 H2]. apply andb_true_iff in H2 as [Hu H0]. apply N.ltb_lt in Hu. apply N.eqb_eq in H0.
    apply (shift_exact _ (fwd c) u (land_lt _ _ push_word_lt) Hu) in H1 as [t [Ht [Hb E2]]].
    rewrite N.land_spec in Hb. apply andb_true_iff in Hb as [Hb1 Hb2].
    apply push_word_bit in Hb1 as [s [Hs [E E0]]].
    rewrite (dbl_word_bit c t Hc') in Hb2. apply andb_true_iff in Hb2 as [_ Hr].
    rewrite (dbl_rank_start c s t Hc' (proj1 Hs) E) in Hr. apply N.eqb_eq in Hr.
    exists s, t. repeat split; try assumption; apply Hs.
  - intros (s & t & Hs & E & E0 & Hr & E2 & Eu).
    assert (Ht : t < 64) by now apply step_lt in E. assert (Hu : u < 64) by now apply step_lt in E2. split.
    + apply (shift_exact _ (fwd c) u (land_lt _ _ push_word_lt) Hu). exists t. split; [exact Ht|]. split; [|exact E2].
      rewrite N.land_spec. apply andb_true_iff. split.
      * apply push_word_bit. now exists s.
      * rewrite (dbl_word_bit c t Hc'). apply andb_true_iff. split; [now apply N.ltb_lt|].
        rewrite (dbl_rank_start c s t Hc' (proj1 Hs) E). now apply N.eqb_eq.
    + apply andb_true_iff. split; [now apply N.ltb_lt|now apply N.eqb_eq].
Qed.

Definition promo_push_word : N := N.land push_word (prom_word c).
Definition single_push_word : N := N.land push_word (bnot (prom_word c)).

Lemma push_from_promo t : N.testbit promo_push_word t = true -> exists s, own_pawn s /\ step (fwd c) s = Some t.
Proof.
  unfold promo_push_word. rewrite N.land_spec. intros H. apply andb_true_iff in H as [H _].
  apply push_word_bit in H as [s [Hs [E _]]]. now exists s.
Qed.
Lemma push_from_single t : N.testbit single_push_word t = true -> exists s, own_pawn s /\ step (fwd c) s = Some t.
Proof.
  unfold single_push_word. rewrite N.land_spec. intros H. apply andb_true_iff in H as [H _].
  apply push_word_bit in H as [s [Hs [E _]]]. now exists s.
Qed.

(* the promotion pieces generated by the quiet part and by the non-quiet part *)
Definition quiet_prs : list N := (if prom_nq then [] else [QUEEN; KNIGHT]) ++ [ROOK; BISHOP].
Definition nq_prs : list N := if prom_nq then [QUEEN; KNIGHT] else [].

Lemma quiet_prs_ok : (forall pr, In pr quiet_prs -> prom_piece pr) /\ NoDup quiet_prs.
Proof. unfold quiet_prs. destruct prom_nq; cbn [app]; [apply rb2|apply all4]. Qed.
Lemma nq_prs_ok : (forall pr, In pr nq_prs -> prom_piece pr) /\ NoDup nq_prs.
Proof. unfold nq_prs. destruct prom_nq; [apply qn2|]. split; [intros ? []|constructor]. Qed.

Definition promo_push_list (prs : list N) : list N :=
  flat_map (fun to => promo_codes prs (from_of (fwd c) to) to) (sq_list_of_bb promo_push_word).
Definition single_list : list N :=
  flat_map (fun to => normal1 (from_of (fwd c) to) to) (sq_list_of_bb single_push_word).

(* double steps: the from square is two steps back *)
Definition double_list : list N :=
  map (fun to => mk_code (from_of (fwd c) (from_of (fwd c) to)) to NORMAL PT_NONE) (sq_list_of_bb dbl_push_word).

Lemma gen_pawn_quiet_eq :
  gen_pawn_quiet prom_nq v false 0 = Some (promo_push_list quiet_prs ++ double_list ++ single_list).
Proof.
  destruct (dirs_ok c DW Hc' (or_introl eq_refl)) as (D1 & D2 & D3 & _).
  unfold gen_pawn_quiet. change (vstm v) with c.
  rewrite Hpbb, D1, D2, (prom_word_some c Hc'), (dbl_word_some c Hc'), Hocc'. cbn [bind shift_bb].
  fold push_word. fold dbl_push_word. fold promo_push_word. fold single_push_word.
  rewrite <- D3.
  rewrite (loop_from promo_push_word (fwd c)
             (fun from to => (if prom_nq then [] else promo_qn from to) ++ promo_rb from to))
    by (try apply push_from_promo; apply land_lt; apply push_word_lt).
  cbn [bind].
  assert (Hd : flat_map_o (fun to => do mid <- sq_to_o to (Some (opp (fwd c)));
                                     do from <- sq_to_o mid (Some (opp (fwd c)));
                                     Some [mk_code from to NORMAL PT_NONE]) (sq_list_of_bb dbl_push_word)
               = Some double_list).
  { unfold double_list.
    rewrite (flat_map_o_some _ (fun to => [mk_code (from_of (fwd c) (from_of (fwd c) to)) to NORMAL PT_NONE])).
    - f_equal.
    - intros u Hu. apply (sq_list_in _ u dbl_push_word_lt) in Hu.
      apply dbl_push_word_bit in Hu as (s & t & Hs & E & _ & _ & E2 & _).
      assert (Ht : t < 64) by now apply step_lt in E.
      rewrite (back_from (fwd c) t u Ht E2). cbn [bind]. rewrite (back_from (fwd c) s t (proj1 Hs) E). cbn [bind].
      now rewrite (from_of_eq (fwd c) t u Ht E2), (from_of_eq (fwd c) s t (proj1 Hs) E). }
  rewrite Hd. cbn [bind].
  rewrite (loop_from single_push_word (fwd c) (fun from to => [mk_code from to NORMAL PT_NONE]))
    by (try apply push_from_single; apply land_lt; apply push_word_lt).
  cbn [bind]. f_equal. f_equal.
  unfold promo_push_list, quiet_prs. apply flat_map_ext. intros to.
  unfold promo_codes. rewrite map_app. destruct prom_nq; reflexivity.
Qed.

Lemma gen_pawn_promnq_eq :
  (if prom_nq then gen_pawn_promnq v false 0 else Some []) = Some (promo_push_list nq_prs).
Proof.
  unfold nq_prs. destruct prom_nq.
  - destruct (dirs_ok c DW Hc' (or_introl eq_refl)) as (D1 & D2 & D3 & _).
    unfold gen_pawn_promnq. change (vstm v) with c.
    rewrite Hpbb, D1, D2, (prom_word_some c Hc'), Hocc'. cbn [bind shift_bb].
    fold push_word. fold promo_push_word. rewrite <- D3.
    rewrite (loop_from promo_push_word (fwd c) (fun from to => promo_qn from to))
      by (try apply push_from_promo; apply land_lt; apply push_word_lt).
    reflexivity.
  - unfold promo_push_list. f_equal.
    induction (sq_list_of_bb promo_push_word) as [|x l IH]; cbn [flat_map]; [reflexivity|]. rewrite <- IH. reflexivity.
Qed.

(* the class of the promotion pieces of each part *)
Lemma promo_push_class (prs : list N) (k : nat) x :
  (forall pr, In pr prs -> prom_piece pr) ->
  (forall pr, prom_piece pr -> (In pr prs <-> promo_cls prom_nq pr = N.of_nat k)) -> (k = 6 \/ k = 9)%nat ->
  (In x (promo_push_list prs) <-> In x (class_codes prom_nq p k)).
Proof.
  intros Hprs Hk Hk69. unfold promo_push_list.
  rewrite (loop_in promo_push_word (fwd c) (fun from to => promo_codes prs from to) x)
    by (try apply push_from_promo; apply land_lt; apply push_word_lt).
  rewrite (pawn_class_in prom_nq p k x Hw') by lia. fold b c.
  split.
  - intros (s & t & Hs & E & Hb & Hx). unfold promo_push_word in Hb. rewrite N.land_spec in Hb.
    apply andb_true_iff in Hb as [Hb1 Hb2]. apply push_word_bit in Hb1 as [s' [Hs' [E' E0]]].
    rewrite (prom_word_bit c t Hc') in Hb2. apply andb_true_iff in Hb2 as [Ht Hr]. apply N.ltb_lt in Ht. apply N.eqb_eq in Hr.
    unfold promo_codes in Hx. apply in_map_iff in Hx as [pr [<- Hpr]].
    pose proof (Hprs pr Hpr) as Hpp.
    exists s, (mkmv s t PROMOTION pr). destruct Hs as [Hs Hat]. repeat split; try assumption.
    + pose proof (pm_promo prom_nq p s t pr E E0 Hr Hpp) as Hpm. fold b c in Hpm.
      apply (Hk pr Hpp) in Hpr. now rewrite Hpr in Hpm.
    + symmetry. now apply mk_code_promo.
  - intros (s & m & Hs & Hat & Hpm & <-).
    inversion Hpm as [t E E0 Hr|t pr E E0 Hr Hpr|t u E E0 Es E2 Eu|t Ht Een Hr|t pr Ht Een Hr Hpr|t Ht Een Ee E0]; subst.
    + lia.
    + assert (Ht64 : t < 64) by now apply step_lt in E.
      exists s, t. split; [now split|]. split; [exact E|]. split.
      * unfold promo_push_word. rewrite N.land_spec. apply andb_true_iff. split.
        -- apply push_word_bit. exists s. repeat split; assumption.
        -- rewrite (prom_word_bit c t Hc'). apply andb_true_iff. split; [now apply N.ltb_lt|now apply N.eqb_eq].
      * rewrite <- mk_code_promo by assumption. unfold promo_codes. apply in_map_iff. exists pr. split; [reflexivity|].
        now apply (Hk pr Hpr).
    + lia.
    + destruct (file_of t <? file_of s); lia.
    + destruct (file_of t <? file_of s); lia.
    + destruct (file_of s <? file_of (ep p)); lia.
Qed.

Lemma nq_prs_cls pr : prom_piece pr -> (In pr nq_prs <-> promo_cls prom_nq pr = 6).
Proof.
  intros Hpr. unfold nq_prs, promo_cls, is_qn. destruct prom_nq; cbn [andb In].
  - destruct Hpr as [->|[->|[->| ->]]]; vm_compute; intuition discriminate.
  - intuition discriminate.
Qed.
Lemma quiet_prs_cls pr : prom_piece pr -> (In pr quiet_prs <-> promo_cls prom_nq pr = 9).
Proof.
  intros Hpr. unfold quiet_prs, promo_cls, is_qn. destruct prom_nq; cbn [andb In app].
  - destruct Hpr as [->|[->|[->| ->]]]; vm_compute; intuition discriminate.
  - destruct Hpr as [->|[->|[->| ->]]]; intuition.
Qed.

Lemma promo_push_nodup prs : (forall pr, In pr prs -> prom_piece pr) -> NoDup prs -> NoDup (promo_push_list prs).
Proof.
  intros Hprs Hnd. apply (loop_nodup promo_push_word (fwd c) (fun from to => promo_codes prs from to)).
  - apply land_lt. apply push_word_lt.
  - apply push_from_promo.
  - intros s t Hs Ht. now apply promo_ok.
Qed.

Theorem gen_pawn_promotions_exact :
  exists l6 l9 r,
    (if prom_nq then gen_pawn_promnq v false 0 else Some []) = Some l6 /\
    gen_pawn_quiet prom_nq v false 0 = Some (l9 ++ r) /\
    Permutation l6 (class_codes prom_nq p 6) /\ NoDup l6 /\
    Permutation l9 (class_codes prom_nq p 9) /\ NoDup l9.
Proof.
  exists (promo_push_list nq_prs), (promo_push_list quiet_prs), (double_list ++ single_list).
  split; [apply gen_pawn_promnq_eq|]. split; [apply gen_pawn_quiet_eq|].
  assert (N6 : NoDup (promo_push_list nq_prs)) by (apply promo_push_nodup; apply nq_prs_ok).
  assert (N9 : NoDup (promo_push_list quiet_prs)) by (apply promo_push_nodup; apply quiet_prs_ok).
  repeat split; try assumption.
  - apply NoDup_Permutation; [exact N6|apply class_codes_nodup; exact Hw'|].
    intros x. apply promo_push_class; [apply nq_prs_ok|apply nq_prs_cls|now left].
  - apply NoDup_Permutation; [exact N9|apply class_codes_nodup; exact Hw'|].
    intros x. apply promo_push_class; [apply quiet_prs_ok|apply quiet_prs_cls|now right].
Qed.

(* single steps *)
Lemma single_class x : In x single_list <-> In x (class_codes prom_nq p 11).
Proof.
  unfold single_list.
  rewrite (loop_in single_push_word (fwd c) normal1 x)
    by (try apply push_from_single; apply land_lt; apply push_word_lt).
  rewrite (pawn_class_in prom_nq p 11 x Hw') by lia. fold b c.
  split.
  - intros (s & t & Hs & E & Hb & Hx). unfold single_push_word in Hb. rewrite N.land_spec in Hb.
    apply andb_true_iff in Hb as [Hb1 Hb2]. apply push_word_bit in Hb1 as [s' [Hs' [E' E0]]].
    rewrite (bnot_testbit _ _ (prom_word_lt c Hc')), (prom_word_bit c t Hc') in Hb2.
    apply andb_true_iff in Hb2 as [Ht Hr]. rewrite Ht in Hr. cbn [andb] in Hr. apply N.ltb_lt in Ht.
    apply negb_true_iff, N.eqb_neq in Hr. destruct Hx as [<-|[]].
    exists s, (mkmv s t NORMAL 3). destruct Hs as [Hs Hat]. repeat split; try assumption.
    + exact (pm_single prom_nq p s t E E0 Hr).
    + symmetry. now apply mk_code_normal.
  - intros (s & m & Hs & Hat & Hpm & <-).
    inversion Hpm as [t E E0 Hr|t pr E E0 Hr Hpr|t u E E0 Es E2 Eu|t Ht Een Hr|t pr Ht Een Hr Hpr|t Ht Een Ee E0]; subst.
    + assert (Ht64 : t < 64) by now apply step_lt in E.
      exists s, t. split; [now split|]. split; [exact E|]. split.
      * unfold single_push_word. rewrite N.land_spec. apply andb_true_iff. split.
        -- apply push_word_bit. exists s. repeat split; assumption.
        -- rewrite (bnot_testbit _ _ (prom_word_lt c Hc')), (prom_word_bit c t Hc').
           replace (t <? 64) with true by lia. cbn [andb]. apply negb_true_iff. now apply N.eqb_neq.
      * left. now apply mk_code_normal.
    + unfold promo_cls in H0. destruct (prom_nq && is_qn pr); discriminate.
    + destruct (file_of t <? file_of s); discriminate.
    + destruct (file_of t <? file_of s); discriminate.
    + destruct (file_of s <? file_of (ep p)); discriminate.
Qed.

Lemma single_nodup : NoDup single_list.
Proof.
  apply (loop_nodup single_push_word (fwd c) normal1).
  - apply land_lt. apply push_word_lt.
  - apply push_from_single.
  - intros s t Hs Ht. now apply normal1_ok.
Qed.

(* double steps *)
Lemma double_in x :
  In x double_list <->
  exists s t u, own_pawn s /\ step (fwd c) s = Some t /\ at_ b t = 0 /\ rank_of s = start_rank c /\
                step (fwd c) t = Some u /\ at_ b u = 0 /\ x = mk_code s u NORMAL PT_NONE.
Proof.
  unfold double_list. rewrite in_map_iff. split.
  - intros [u [<- Hu]]. apply (sq_list_in _ u dbl_push_word_lt) in Hu.
    apply dbl_push_word_bit in Hu as (s & t & Hs & E & E0 & Hr & E2 & Eu).
    assert (Ht : t < 64) by now apply step_lt in E.
    exists s, t, u. rewrite (from_of_eq (fwd c) t u Ht E2), (from_of_eq (fwd c) s t (proj1 Hs) E). auto 10.
  - intros (s & t & u & Hs & E & E0 & Hr & E2 & Eu & ->).
    assert (Ht : t < 64) by now apply step_lt in E.
    exists u. split.
    + now rewrite (from_of_eq (fwd c) t u Ht E2), (from_of_eq (fwd c) s t (proj1 Hs) E).
    + apply (sq_list_in _ u dbl_push_word_lt). apply dbl_push_word_bit. exists s, t. auto 10.
Qed.

Lemma double_class x : In x double_list <-> In x (class_codes prom_nq p 10).
Proof.
  rewrite double_in. rewrite (pawn_class_in prom_nq p 10 x Hw') by lia. fold b c. split.
  - intros (s & t & u & [Hs Hat] & E & E0 & Hr & E2 & Eu & ->).
    assert (Hu : u < 64) by now apply step_lt in E2.
    exists s, (mkmv s u NORMAL 3). repeat split; try assumption.
    + exact (pm_double prom_nq p s t u E E0 Hr E2 Eu).
    + symmetry. now apply mk_code_normal.
  - intros (s & m & Hs & Hat & Hpm & <-).
    inversion Hpm as [t E E0 Hr|t pr E E0 Hr Hpr|t u E E0 Es E2 Eu|t Ht Een Hr|t pr Ht Een Hr Hpr|t Ht Een Ee E0]; subst.
    + unfold promo_cls in H0. destruct (prom_nq && is_qn pr); discriminate.
    + assert (Hu : u < 64) by now apply step_lt in E2.
      exists s, t, u. repeat split; try assumption. symmetry. now apply mk_code_normal.
    + destruct (file_of t <? file_of s); discriminate.
    + destruct (file_of t <? file_of s); discriminate.
    + destruct (file_of s <? file_of (ep p)); discriminate.
Qed.

Lemma double_nodup : NoDup double_list.
Proof.
  unfold double_list. apply nodup_map_inj; [|apply sq_list_of_bb_NoDup_any].
  intros x y Hx Hy E.
  assert (G : forall u, In u (sq_list_of_bb dbl_push_word) ->
              To (mk_code (from_of (fwd c) (from_of (fwd c) u)) u NORMAL PT_NONE) = u).
  { intros u Hu. apply (sq_list_in _ u dbl_push_word_lt) in Hu.
    apply dbl_push_word_bit in Hu as (s & t & Hs & E1 & _ & _ & E2 & _).
    assert (Ht : t < 64) by now apply step_lt in E1. assert (Hu : u < 64) by now apply step_lt in E2.
    rewrite (from_of_eq (fwd c) t u Ht E2), (from_of_eq (fwd c) s t (proj1 Hs) E1).
    rewrite mk_code_normal by (try apply Hs; assumption). apply code_to. apply valid_normal; [apply Hs|exact Hu]. }
  rewrite <- (G x Hx), <- (G y Hy). now rewrite E.
Qed.

Theorem gen_pawn_quiet_exact :
  exists l9 l10 l11, gen_pawn_quiet prom_nq v false 0 = Some (l9 ++ l10 ++ l11) /\
    Permutation l9 (class_codes prom_nq p 9) /\ NoDup l9 /\
    Permutation l10 (class_codes prom_nq p 10) /\ NoDup l10 /\
    Permutation l11 (class_codes prom_nq p 11) /\ NoDup l11.
Proof.
  exists (promo_push_list quiet_prs), double_list, single_list. split; [apply gen_pawn_quiet_eq|].
  assert (N9 : NoDup (promo_push_list quiet_prs)) by (apply promo_push_nodup; apply quiet_prs_ok).
  repeat split; try assumption; try apply double_nodup; try apply single_nodup.
  - apply NoDup_Permutation; [exact N9|apply class_codes_nodup; exact Hw'|].
    intros x. apply promo_push_class; [apply quiet_prs_ok|apply quiet_prs_cls|now right].
  - apply NoDup_Permutation; [apply double_nodup|apply class_codes_nodup; exact Hw'|apply double_class].
  - apply NoDup_Permutation; [apply single_nodup|apply class_codes_nodup; exact Hw'|apply single_class].
Qed.

Theorem gen_pawn_double_exact :
  exists l9 l10 l11, gen_pawn_quiet prom_nq v false 0 = Some (l9 ++ l10 ++ l11) /\
    Permutation l10 (class_codes prom_nq p 10) /\ NoDup l10.
Proof. destruct gen_pawn_quiet_exact as (l9 & l10 & l11 & H & _ & _ & A & B & _). exists l9, l10, l11. auto. Qed.

Theorem gen_pawn_pushes_exact :
  exists l9 l10 l11, gen_pawn_quiet prom_nq v false 0 = Some (l9 ++ l10 ++ l11) /\
    Permutation l11 (class_codes prom_nq p 11) /\ NoDup l11.
Proof. destruct gen_pawn_quiet_exact as (l9 & l10 & l11 & H & _ & _ & _ & _ & A & B). exists l9, l10, l11. auto. Qed.

(** ** en passant *)
Definition other_we (we : dir) : dir := match we with DW => DE | _ => DW end.

Lemma opp_capdir_flip cc we : cc < 2 -> is_we we -> opp (capdir (flip cc) we) = capdir cc (other_we we).
Proof. intros H [-> | ->]; (assert (cc = 0 \/ cc = 1) as [-> | ->] by lia); reflexivity. Qed.

Lemma ep_facts : ep p = 64 \/ (ep p < 64 /\ at_ b (ep p) = 0).
Proof.
  pose proof (legal_pos_inv p Hlegal) as (_ & _ & _ & _ & _ & _ & _ & _ & _ & He).
  unfold ep_ok in He. destruct (N.eqb_spec (ep p) 64) as [E|E]; [now left|right].
  repeat (apply andb_true_iff in He as [He ?]).
  assert (Hr : rank_of (ep p) <= 5) by (destruct (stm p =? WHITE); lia).
  split.
  - unfold rank_of in Hr. destruct (N.lt_ge_cases (ep p) 64) as [G|G]; [exact G|].
    assert (8 <= N.shiftr (ep p) 3); [|lia]. rewrite N.shiftr_div_pow2. change (2 ^ 3) with 8.
    apply N.div_le_lower_bound; lia.
  - unfold piece_at in *. fold b in H1. now apply N.eqb_eq in H1.
Qed.

(* the bits of a shifted one-bit word *)
Lemma shift_single_bit e d s : e < 64 ->
  (N.testbit (shift_impl (N.shiftl 1 e) d) s = true <-> step d e = Some s).
Proof.
  intros He.
  assert (HW : N.shiftl 1 e < W64).
  { rewrite W64_pow. apply lt_pow2_of_bits. intros i Hi. rewrite shiftl1_testbit. lia. }
  split.
  - intros H. assert (Hs : s < 64) by (apply (testbit_lt64 _ _ (shift_bounded _ d HW)); exact H).
    apply (shift_exact _ d s HW Hs) in H as [e' [_ [Hb E]]]. rewrite shiftl1_testbit in Hb. apply N.eqb_eq in Hb. now subst.
  - intros E. assert (Hs : s < 64) by now apply step_lt in E.
    apply (shift_exact _ d s HW Hs). exists e. split; [exact He|]. split; [|exact E]. rewrite shiftl1_testbit. apply N.eqb_refl.
Qed.

Definition ep_list (we : dir) : list N :=
  match step (capdir (flip c) we) (ep p) with
  | Some s => if at_ b s =? mk_piece c PAWN then [mk_code s (ep p) ENPASSANT PT_NONE] else []
  | None => []
  end.

Lemma gen_ep_eq we : is_we we -> ep p < 64 -> gen_ep_dir v we = Some (ep_list we).
Proof.
  intros Hwe He. destruct (dirs_ok c we Hc' Hwe) as (D1 & D2 & _ & _ & _ & D6 & D7).
  unfold gen_ep_dir. change (vstm v) with c. change (vep v) with (ep p).
  rewrite Hpbb, D1, D2. cbn [bind]. unfold sq_bb. rewrite (sqbb_exact _ He). cbn [bind]. rewrite D6. cbn [shift_bb].
  set (W := N.land (shift_impl (N.shiftl 1 (ep p)) (capdir (flip c) we)) myP).
  assert (HWbit : forall s, N.testbit W s = true <-> step (capdir (flip c) we) (ep p) = Some s /\ own_pawn s).
  { intros s. unfold W. rewrite N.land_spec, andb_true_iff, (shift_single_bit _ _ _ He), myP_bit. reflexivity. }
  unfold ep_list. destruct (step (capdir (flip c) we) (ep p)) as [s|] eqn:E.
  - assert (Hs : s < 64) by now apply step_lt in E.
    destruct (N.eqb_spec (at_ b s) (mk_piece c PAWN)) as [Hat|Hat].
    + assert (Hb : N.testbit W s = true) by (apply HWbit; split; [reflexivity|now split]).
      assert (Hnz : W <> 0) by (intros Z; rewrite Z, N.bits_0 in Hb; discriminate).
      replace (W =? 0) with false by (symmetry; now apply N.eqb_neq).
      assert (Hl : fst (pop_lsb W) = s).
      { unfold pop_lsb. replace (W =? 0) with false by (symmetry; now apply N.eqb_neq). cbn [fst].
        apply lsb_single; [exact Hnz|]. intros t Ht. apply HWbit in Ht as [Ht _]. congruence. }
      rewrite Hl, D7. rewrite (back_from _ _ _ He E). reflexivity.
    + assert (Hz : W = 0).
      { apply N.bits_inj_0. intros t. destruct (N.testbit W t) eqn:Hb; [|reflexivity].
        apply HWbit in Hb as [Hb [_ Hp]]. congruence. }
      now rewrite Hz.
  - assert (Hz : W = 0).
    { apply N.bits_inj_0. intros t. destruct (N.testbit W t) eqn:Hb; [|reflexivity].
      apply HWbit in Hb as [Hb _]. discriminate. }
    now rewrite Hz.
Qed.

Definition ep_cls (we : dir) : nat := match we with DW => 4 | _ => 5 end%nat.

Lemma ep_class we x : is_we we -> ep p < 64 -> at_ b (ep p) = 0 ->
  (In x (ep_list we) <-> In x (class_codes prom_nq p (ep_cls we))).
Proof.
  intros Hwe He He0.
  rewrite (pawn_class_in prom_nq p (ep_cls we) x Hw') by (destruct Hwe as [-> | ->]; cbn; lia). fold b c.
  assert (Hfc : flip c < 2) by (apply flipc_lt; exact Hc').
  assert (Hen : enemy b c (ep p) = false) by (unfold enemy; now rewrite He0).
  unfold ep_list. split.
  - destruct (step (capdir (flip c) we) (ep p)) as [s|] eqn:E; [|intros []].
    assert (Hs : s < 64) by now apply step_lt in E.
    destruct (N.eqb_spec (at_ b s) (mk_piece c PAWN)) as [Hat|Hat]; [|intros []].
    intros [<-|[]]. exists s, (mkmv s (ep p) ENPASSANT 3). repeat split; try assumption.
    + assert (E2 : step (capdir c (other_we we)) s = Some (ep p)).
      { rewrite <- (opp_capdir_flip c we Hc' Hwe). now apply (step_opp _ _ _ He Hs). }
      assert (Hin : In (ep p) (pawn_attack_targets c s)).
      { apply (pawn_targets_dirs c s _ Hc'). destruct Hwe as [-> | ->]; cbn [other_we] in E2; auto. }
      pose proof (pm_ep prom_nq p s (ep p) Hin Hen eq_refl He0) as Hpm. fold b c in Hpm.
      destruct (capdir_file (flip c) we (ep p) s Hfc Hwe He E) as [F1 F2].
      rewrite F1 in Hpm. destruct Hwe as [-> | ->]; exact Hpm.
    + symmetry. now apply mk_code_ep.
  - intros (s & m & Hs & Hat & Hpm & <-).
    inversion Hpm as [t E E0 Hr|t pr E E0 Hr Hpr|t u E E0 Es E2 Eu|t Ht Een Hr|t pr Ht Een Hr Hpr|t Ht Een Ee E0]; subst.
    + destruct Hwe as [-> | ->]; discriminate.
    + unfold promo_cls in H0. destruct (prom_nq && is_qn pr), Hwe as [-> | ->]; discriminate.
    + destruct Hwe as [-> | ->]; discriminate.
    + destruct (file_of t <? file_of s), Hwe as [-> | ->]; discriminate.
    + destruct (file_of t <? file_of s), Hwe as [-> | ->]; discriminate.
    + apply (pawn_targets_dirs c s _ Hc') in Ht.
      assert (E : step (capdir c (other_we we)) s = Some (ep p)).
      { destruct Ht as [E|E].
        - destruct (capdir_file c DW s _ Hc' (or_introl eq_refl) Hs E) as [_ F2]. rewrite F2 in H0.
          destruct Hwe as [-> | ->]; [discriminate|exact E].
        - destruct (capdir_file c DE s _ Hc' (or_intror eq_refl) Hs E) as [_ F2]. rewrite F2 in H0.
          destruct Hwe as [-> | ->]; [exact E|discriminate]. }
      rewrite <- (opp_capdir_flip c we Hc' Hwe) in E. apply (step_opp _ _ _ He Hs) in E.
      rewrite E. rewrite Hat, N.eqb_refl. left. now apply mk_code_ep.
Qed.

Lemma ep_list_nodup we : NoDup (ep_list we).
Proof.
  unfold ep_list. destruct (step (capdir (flip c) we) (ep p)); [|constructor].
  destruct (at_ b n =? mk_piece c PAWN); repeat constructor. intros [].
Qed.

Lemma no_ep_class k x : ep p = 64 -> (k = 4 \/ k = 5)%nat -> ~ In x (class_codes prom_nq p k).
Proof.
  intros He Hk Hx. apply (pawn_class_in prom_nq p k x Hw') in Hx; [|lia|lia|lia|lia|lia].
  destruct Hx as (s & m & Hs & Hat & Hpm & _).
  inversion Hpm as [t E E0 Hr|t pr E E0 Hr Hpr|t u E E0 Es E2 Eu|t Ht Een Hr|t pr Ht Een Hr Hpr|t Ht Een Ee E0]; subst;
    try lia.
  - unfold promo_cls in H0. destruct (prom_nq && is_qn pr); lia.
  - destruct (file_of t <? file_of s); lia.
  - destruct (file_of t <? file_of s); lia.
  - apply pawn_targets_lt in Ht. lia.
Qed.

Theorem gen_enpassant_exact :
  exists l4 l5,
    (if vep v =? 64 then Some [] else do a <- gen_ep_dir v DW; do e <- gen_ep_dir v DE; Some (a ++ e)) = Some (l4 ++ l5) /\
    Permutation l4 (class_codes prom_nq p 4) /\ NoDup l4 /\
    Permutation l5 (class_codes prom_nq p 5) /\ NoDup l5.
Proof.
  change (vep v) with (ep p). destruct ep_facts as [He|[He He0]].
  - exists [], []. rewrite He. cbn [N.eqb Pos.eqb app]. split; [reflexivity|].
    repeat split; try constructor;
      (apply NoDup_Permutation; [constructor|apply class_codes_nodup; exact Hw'|]);
      intros x; (split; [intros []|intros H; exfalso; eapply no_ep_class; [exact He| |exact H]; auto]).
  - exists (ep_list DW), (ep_list DE). replace (ep p =? 64) with false by lia.
    rewrite (gen_ep_eq DW (or_introl eq_refl) He), (gen_ep_eq DE (or_intror eq_refl) He). cbn [bind].
    split; [reflexivity|]. repeat split; try apply ep_list_nodup.
    + apply NoDup_Permutation; [apply ep_list_nodup|apply class_codes_nodup; exact Hw'|].
      intros x. apply (ep_class DW x (or_introl eq_refl) He He0).
    + apply NoDup_Permutation; [apply ep_list_nodup|apply class_codes_nodup; exact Hw'|].
      intros x. apply (ep_class DE x (or_intror eq_refl) He He0).
Qed.

(** ** generatePawnMoves as a whole *)
Theorem gen_pawn_nonquiet_exact :
  exists l, gen_pawn_moves prom_nq v 1 false 0 = Some l /\ class_lists prom_nq p [0;1;2;3;4;5;6]%nat l.
Proof.
  destruct (gen_pawn_captures_exact DW (or_introl eq_refl)) as (w1 & w2 & Hw & Pw1 & Nw1 & Pw2 & Nw2).
  destruct (gen_pawn_captures_exact DE (or_intror eq_refl)) as (e1 & e2 & He & Pe1 & Ne1 & Pe2 & Ne2).
  destruct gen_enpassant_exact as (l4 & l5 & Hep & P4 & N4 & P5 & N5).
  destruct gen_pawn_promotions_exact as (l6 & l9 & r & H6 & _ & P6 & N6 & _).
  exists ((w1 ++ w2) ++ (e1 ++ e2) ++ (l4 ++ l5) ++ l6). split.
  - unfold gen_pawn_moves. replace (has_nq 1) with true by reflexivity. replace (has_q 1) with false by reflexivity.
    unfold gen_pawn_nonquiet. rewrite Hw, He. cbn [bind]. rewrite Hep. cbn [bind]. rewrite H6. cbn [bind].
    now rewrite app_nil_r.
  - cbn [cap_cls] in *.
    apply (class_lists_app prom_nq p [0;1]%nat [2;3;4;5;6]%nat).
    { apply (class_lists_app prom_nq p [0]%nat [1]%nat); now apply class_lists_one. }
    apply (class_lists_app prom_nq p [2;3]%nat [4;5;6]%nat).
    { apply (class_lists_app prom_nq p [2]%nat [3]%nat); now apply class_lists_one. }
    apply (class_lists_app prom_nq p [4;5]%nat [6]%nat).
    { apply (class_lists_app prom_nq p [4]%nat [5]%nat); now apply class_lists_one. }
    now apply class_lists_one.
Qed.

Theorem gen_pawn_quiet_lists :
  exists l, gen_pawn_moves prom_nq v 2 false 0 = Some l /\ class_lists prom_nq p [9;10;11]%nat l.
Proof.
  destruct gen_pawn_quiet_exact as (l9 & l10 & l11 & H & P9 & N9 & P10 & N10 & P11 & N11).
  exists (l9 ++ l10 ++ l11). split.
  - unfold gen_pawn_moves. replace (has_nq 2) with false by reflexivity. replace (has_q 2) with true by reflexivity.
    cbn [bind]. rewrite H. reflexivity.
  - apply (class_lists_app prom_nq p [9]%nat [10;11]%nat); [now apply class_lists_one|].
    apply (class_lists_app prom_nq p [10]%nat [11]%nat); now apply class_lists_one.
Qed.

End Pawns.

Print Assumptions gen_pawn_nonquiet_exact.
Print Assumptions gen_pawn_quiet_lists.
