(** * NotationProofs: C17 theorems about move notation.
    - [uci_roundtrip], [uci_unknown_none], [uci_strict_none]      (GetMoveFromUci over [Rules.legal])
    - [san_roundtrip], [san_ambiguous_none], [san_no_match_none], [from_san_sound],
      [san_strict_none], [from_san_exact]                          (GetMoveFromSan)
    - non-vacuity examples.
    The parsers are the REPAIRED ones (anchored regexes; castling never falls through into
    the normal-move test and is accepted as O-O / O-O-O plus decorations only; a promotion
    suffix only fits promotion moves).
    Facts about the rules specification that are needed ([pseudo_class], [pseudo_NoDup],
    [pseudo_key_inj]) are proved here from [Rules.pseudo]. *)
From Coq Require Import NArith ZArith List Bool Lia ZifyN ZifyBool.
From FG Require Import Geom Rules FenSpec San NotationImpl.
Import ListNotations.
Open Scope N_scope.
Ltac Zify.zify_post_hook ::= Z.div_mod_to_equations.

(** ** A. Lists *)
Lemma NoDup_app_intro {A} (l1 l2 : list A) :
  NoDup l1 -> NoDup l2 -> (forall x, In x l1 -> In x l2 -> False) -> NoDup (l1 ++ l2).
Proof.
  induction l1 as [|a l1 IH]; intros H1 H2 Hd; [exact H2|].
  cbn [app]. inversion H1 as [|? ? Hna Hn1]; subst. constructor.
  - intro Hin. apply in_app_or in Hin. destruct Hin as [Hin|Hin]; [contradiction|].
    apply (Hd a); [left; reflexivity|exact Hin].
  - apply IH; [exact Hn1|exact H2|]. intros x Hx1 Hx2. apply (Hd x); [right; exact Hx1|exact Hx2].
Qed.

(* flat_map of lists whose elements remember (through [key]) which input produced them *)
Lemma NoDup_flat_map_key {A B} (key : B -> A) (f : A -> list B) (l : list A) :
  NoDup l -> (forall x, In x l -> NoDup (f x)) -> (forall x y, In x l -> In y (f x) -> key y = x) ->
  NoDup (flat_map f l).
Proof.
  induction l as [|a l IH]; intros Hl Hf Hk; [constructor|].
  cbn [flat_map]. inversion Hl as [|? ? Hna Hnl]; subst.
  apply NoDup_app_intro.
  - apply Hf. left; reflexivity.
  - apply IH; [exact Hnl| |]; intros; [apply Hf; right; assumption|eapply Hk; [right; eassumption|assumption]].
  - intros y Hy1 Hy2. apply in_flat_map in Hy2. destruct Hy2 as (x & Hx & Hyx).
    assert (key y = a) by (eapply Hk; [left; reflexivity|exact Hy1]).
    assert (key y = x) by (eapply Hk; [right; exact Hx|exact Hyx]).
    congruence.
Qed.

Lemma NoDup_map_inj {A B} (f : A -> B) (l : list A) :
  (forall x y, f x = f y -> x = y) -> NoDup l -> NoDup (map f l).
Proof.
  intros Hinj. induction l as [|a l IH]; intros Hl; [constructor|].
  inversion Hl as [|? ? Hna Hnl]; subst. cbn [map]. constructor; [|apply IH; exact Hnl].
  intro Hin. apply in_map_iff in Hin. destruct Hin as (x & Hx & Hxl). apply Hinj in Hx. subst. contradiction.
Qed.

(* subsequences *)
Inductive Sub {A} : list A -> list A -> Prop :=
| Sub_nil : forall l, Sub [] l
| Sub_keep : forall a l1 l2, Sub l1 l2 -> Sub (a :: l1) (a :: l2)
| Sub_skip : forall a l1 l2, Sub l1 l2 -> Sub l1 (a :: l2).
Lemma Sub_refl {A} (l : list A) : Sub l l.
Proof. induction l; constructor; assumption. Qed.
Lemma Sub_In {A} (l1 l2 : list A) : Sub l1 l2 -> forall x, In x l1 -> In x l2.
Proof.
  induction 1 as [l|a l1 l2 H IH|a l1 l2 H IH]; intros x Hx.
  - destruct Hx.
  - destruct Hx as [->|Hx]; [left; reflexivity|right; apply IH; exact Hx].
  - right. apply IH. exact Hx.
Qed.
Lemma Sub_NoDup {A} (l1 l2 : list A) : Sub l1 l2 -> NoDup l2 -> NoDup l1.
Proof.
  induction 1 as [l|a l1 l2 H IH|a l1 l2 H IH]; intros Hn.
  - constructor.
  - inversion Hn as [|? ? Hna Hnl]; subst. constructor; [|apply IH; exact Hnl].
    intro Hin. apply Hna. eapply Sub_In; eassumption.
  - inversion Hn; subst. apply IH. assumption.
Qed.
Lemma Sub_app {A} (a a' b b' : list A) : Sub a a' -> Sub b b' -> Sub (a ++ b) (a' ++ b').
Proof.
  induction 1 as [l|x l1 l2 H IH|x l1 l2 H IH]; intros Hb; cbn [app].
  - induction l as [|y l IHl]; cbn [app]; [exact Hb|constructor; exact IHl].
  - constructor. apply IH. exact Hb.
  - constructor. apply IH. exact Hb.
Qed.
Lemma Sub_prefix {A} (a r : list A) : Sub a (a ++ r).
Proof. rewrite <- (app_nil_r a) at 1. apply Sub_app; [apply Sub_refl|constructor]. Qed.

Lemma filter_unique {A} (f : A -> bool) (l : list A) (m : A) :
  NoDup l -> In m l -> f m = true -> (forall m', In m' l -> f m' = true -> m' = m) ->
  filter f l = [m].
Proof.
  induction l as [|a l IH]; intros Hn Hin Hf Hu; [destruct Hin|].
  inversion Hn as [|? ? Hna Hnl]; subst. cbn [filter].
  assert (Hrest : forall l', (forall x, In x l' -> In x l) -> ~ In m l' -> filter f l' = []).
  { induction l' as [|b l' IH']; intros Hsub Hnm; [reflexivity|]. cbn [filter].
    destruct (f b) eqn:Eb.
    - exfalso. apply Hnm. left. apply Hu; [right; apply Hsub; left; reflexivity|exact Eb].
    - apply IH'; [intros x Hx; apply Hsub; right; exact Hx|intro H; apply Hnm; right; exact H]. }
  destruct Hin as [->|Hin].
  - rewrite Hf. f_equal. apply Hrest; [auto|exact Hna].
  - destruct (f a) eqn:Ea.
    + assert (a = m) by (apply Hu; [left; reflexivity|exact Ea]). subst. contradiction.
    + apply IH; [exact Hnl|exact Hin|exact Hf|]. intros m' Hm' Hfm'. apply Hu; [right; exact Hm'|exact Hfm'].
Qed.

Lemma find_first_sat {A} (f : A -> bool) (l : list A) (m : A) :
  In m l -> f m = true -> exists m', find f l = Some m' /\ In m' l /\ f m' = true.
Proof.
  intros Hin Hf. destruct (find f l) as [m'|] eqn:E.
  - exists m'. apply find_some in E. tauto.
  - exfalso. pose proof (find_none f l E m Hin) as H. congruence.
Qed.

Lemma str_eqb_refl (s : str) : str_eqb s s = true.
Proof.
  unfold str_eqb. rewrite Nat.eqb_refl. cbn [andb].
  induction s as [|c s IH]; [reflexivity|]. cbn [combine forallb]. rewrite N.eqb_refl. exact IH.
Qed.
Lemma str_eqb_eq (a b : str) : str_eqb a b = true -> a = b.
Proof.
  unfold str_eqb. revert b. induction a as [|x a IH]; intros [|y b] H; cbn in H; try discriminate; [reflexivity|].
  apply andb_prop in H. destruct H as [Hl H]. cbn [combine forallb] in H. apply andb_prop in H. destruct H as [Hxy H].
  apply N.eqb_eq in Hxy. subst. f_equal. apply IH. rewrite Hl. exact H.
Qed.

(** ** B. Geometry in closed form *)
Lemma in_squares64 s : s < 64 -> In s squares64.
Proof.
  intros Hs. unfold squares64. apply in_map_iff. exists (N.to_nat s). split; [apply N2Nat.id|].
  apply in_seq. lia.
Qed.
Lemma squares64_lt s : In s squares64 -> s < 64.
Proof.
  unfold squares64. intros H. apply in_map_iff in H. destruct H as (n & <- & Hn). apply in_seq in Hn. lia.
Qed.
Lemma squares64_NoDup : NoDup squares64.
Proof. unfold squares64. apply NoDup_map_inj; [intros x y H; apply Nat2N.inj; exact H|apply seq_NoDup]. Qed.

Lemma file_of_mod s : file_of s = s mod 8.
Proof. unfold file_of. change 7 with (N.ones 3). rewrite N.land_ones. reflexivity. Qed.
Lemma rank_of_div s : rank_of s = s / 8.
Proof. unfold rank_of. rewrite N.shiftr_div_pow2. reflexivity. Qed.

Definition step_arith (d : dir) (s : N) : option N :=
  let f := s mod 8 in let r := s / 8 in
  match d with
  | DN => if r <? 7 then Some (s + 8) else None
  | DS => if 0 <? r then Some (s - 8) else None
  | DE => if f <? 7 then Some (s + 1) else None
  | DW => if 0 <? f then Some (s - 1) else None
  | DNE => if (f <? 7) && (r <? 7) then Some (s + 9) else None
  | DSE => if (f <? 7) && (0 <? r) then Some (s - 7) else None
  | DSW => if (0 <? f) && (0 <? r) then Some (s - 9) else None
  | DNW => if (0 <? f) && (r <? 7) then Some (s + 7) else None
  end.
Definition oeqb (a b : option N) : bool :=
  match a, b with Some x, Some y => x =? y | None, None => true | _, _ => false end.
Lemma oeqb_eq a b : oeqb a b = true -> a = b.
Proof. destruct a, b; cbn; intros H; try discriminate; [apply N.eqb_eq in H; subst|]; reflexivity. Qed.
Lemma step_sweep : forallb (fun d => forallb (fun s => oeqb (step d s) (step_arith d s)) squares64) all_dirs = true.
Proof. vm_compute. reflexivity. Qed.
Lemma step_char d s : s < 64 -> step d s = step_arith d s.
Proof.
  intros Hs. pose proof step_sweep as H. rewrite forallb_forall in H.
  assert (Hd : In d all_dirs) by (destruct d; cbn; tauto).
  specialize (H d Hd). rewrite forallb_forall in H. apply oeqb_eq. apply H. apply in_squares64. exact Hs.
Qed.

Lemma offset_lt s df dr t : offset s df dr = Some t -> t < 64.
Proof.
  unfold offset. destruct (on_board _ _) eqn:E; [|discriminate]. intros H.
  assert (H' : Z.to_N (8 * (Z.of_N (rank_of s) + dr) + (Z.of_N (file_of s) + df)) = t) by congruence.
  rewrite <- H'. unfold on_board in E. lia.
Qed.
Lemma step_lt d s t : step d s = Some t -> t < 64.
Proof. unfold step. destruct (delta d). apply offset_lt. Qed.

Lemma in_somes {A} (l : list (option A)) x : In x (somes l) <-> In (Some x) l.
Proof.
  unfold somes. rewrite in_flat_map. split.
  - intros (o & Ho & Hx). destruct o; [destruct Hx as [->|[]]; exact Ho|destruct Hx].
  - intros H. exists (Some x). split; [exact H|left; reflexivity].
Qed.
Lemma knight_targets_lt s t : In t (knight_targets s) -> t < 64.
Proof.
  unfold knight_targets. rewrite in_somes, in_map_iff. intros ((df, dr) & H & _). eapply offset_lt. exact H.
Qed.
Lemma king_targets_lt s t : In t (king_targets s) -> t < 64.
Proof.
  unfold king_targets. rewrite in_somes, in_map_iff. intros (d & H & _). eapply step_lt. exact H.
Qed.
Lemma walkb_lt k b d : forall s t, In t (walkb k b d s) -> t < 64.
Proof.
  induction k as [|k IH]; intros s t H; [destruct H|].
  cbn [walkb] in H. destruct (step d s) as [u|] eqn:E; [|destruct H].
  destruct H as [<-|H]; [eapply step_lt; exact E|].
  destruct (at_ b u =? 0); [eapply IH; exact H|destruct H].
Qed.
Lemma rays_from_lt b dirs s t : In t (rays_from b dirs s) -> t < 64.
Proof.
  unfold rays_from. rewrite in_concat. intros (l & Hl & Ht). apply in_map_iff in Hl. destruct Hl as (d & <- & _).
  eapply walkb_lt. exact Ht.
Qed.

(* pawn attack targets in closed form *)
Lemma pat_char c s t : s < 64 -> In t (pawn_attack_targets c s) ->
  (c = 0 /\ ((t = s + 7 /\ 0 < s mod 8 /\ s / 8 < 7) \/ (t = s + 9 /\ s mod 8 < 7 /\ s / 8 < 7)))
  \/ (c <> 0 /\ ((t + 9 = s /\ 0 < s mod 8 /\ 0 < s / 8) \/ (t + 7 = s /\ s mod 8 < 7 /\ 0 < s / 8))).
Proof.
  intros Hs. unfold pawn_attack_targets. destruct (N.eqb_spec c 0) as [->|Hc]; rewrite in_somes; cbn [In];
    rewrite !step_char by exact Hs; unfold step_arith; cbv zeta.
  - intros [H|[H|[]]].
    + destruct ((0 <? s mod 8) && (s / 8 <? 7)) eqn:E; [|discriminate]. injection H as <-. left. lia.
    + destruct ((s mod 8 <? 7) && (s / 8 <? 7)) eqn:E; [|discriminate]. injection H as <-. left. lia.
  - intros [H|[H|[]]].
    + destruct ((0 <? s mod 8) && (0 <? s / 8)) eqn:E; [|discriminate]. injection H as <-. right. lia.
    + destruct ((s mod 8 <? 7) && (0 <? s / 8)) eqn:E; [|discriminate]. injection H as <-. right. lia.
Qed.
(* pawn pushes in closed form *)
Lemma fwd_char c s t : s < 64 -> step (fwd c) s = Some t ->
  (c = 0 /\ t = s + 8 /\ s / 8 < 7) \/ (c <> 0 /\ t + 8 = s /\ 0 < s / 8).
Proof.
  intros Hs. unfold fwd, WHITE. destruct (N.eqb_spec c 0) as [->|Hc]; rewrite step_char by exact Hs; unfold step_arith; cbv zeta.
  - destruct (s / 8 <? 7) eqn:E; [|discriminate]. intros H. injection H as <-. left. lia.
  - destruct (0 <? s / 8) eqn:E; [|discriminate]. intros H. injection H as <-. right. lia.
Qed.

(* boolean duplicate check *)
Fixpoint nodupb (l : list N) : bool :=
  match l with [] => true | a :: r => negb (existsb (N.eqb a) r) && nodupb r end.
Lemma nodupb_sound l : nodupb l = true -> NoDup l.
Proof.
  induction l as [|a l IH]; intros H; [constructor|]. cbn [nodupb] in H. apply andb_prop in H. destruct H as [Ha Hl].
  constructor; [|apply IH; exact Hl]. intro Hin. apply negb_true_iff in Ha.
  assert (existsb (N.eqb a) l = true) by (apply existsb_exists; exists a; split; [exact Hin|apply N.eqb_refl]). congruence.
Qed.
Lemma targets_nodup_sweep :
  forallb (fun s => nodupb (knight_targets s) && nodupb (king_targets s)
                    && nodupb (pawn_attack_targets 0 s) && nodupb (pawn_attack_targets 1 s)
                    && nodupb (rays_from [] rook_dirs s) && nodupb (rays_from [] bishop_dirs s)
                    && nodupb (rays_from [] all_dirs s)) squares64 = true.
Proof. vm_compute. reflexivity. Qed.
Lemma targets_nodup s : s < 64 ->
  NoDup (knight_targets s) /\ NoDup (king_targets s) /\ (forall c, NoDup (pawn_attack_targets c s)) /\
  NoDup (rays_from [] rook_dirs s) /\ NoDup (rays_from [] bishop_dirs s) /\ NoDup (rays_from [] all_dirs s).
Proof.
  intros Hs. pose proof targets_nodup_sweep as H. rewrite forallb_forall in H. specialize (H s (in_squares64 s Hs)).
  repeat rewrite andb_true_iff in H. destruct H as ((((((H1 & H2) & H3) & H4) & H5) & H6) & H7).
  repeat split; try (apply nodupb_sound; assumption).
  intros c. unfold pawn_attack_targets in *. destruct (c =? 0); apply nodupb_sound; assumption.
Qed.

(* a ray on a real board is a prefix of the ray on the empty board *)
Lemma walkb_prefix k b d : forall s, exists r, walkb k [] d s = walkb k b d s ++ r.
Proof.
  induction k as [|k IH]; intros s; [exists []; reflexivity|].
  cbn [walkb]. destruct (step d s) as [t|]; [|exists []; reflexivity].
  replace (at_ [] t =? 0) with true by (unfold at_; destruct (N.to_nat t); reflexivity).
  destruct (at_ b t =? 0).
  - destruct (IH t) as (r & Hr). exists r. rewrite Hr. reflexivity.
  - exists (walkb k [] d t). reflexivity.
Qed.
Lemma rays_from_sub b dirs s : Sub (rays_from b dirs s) (rays_from [] dirs s).
Proof.
  unfold rays_from. induction dirs as [|d dirs IH]; cbn [map concat]; [constructor|].
  apply Sub_app; [|exact IH]. destruct (walkb_prefix 7 b d s) as (r & ->). apply Sub_prefix.
Qed.
Lemma rays_from_NoDup b dirs s : s < 64 -> In dirs [rook_dirs; bishop_dirs; all_dirs] -> NoDup (rays_from b dirs s).
Proof.
  intros Hs Hd. eapply Sub_NoDup; [apply rays_from_sub|].
  destruct (targets_nodup s Hs) as (_ & _ & _ & H1 & H2 & H3).
  destruct Hd as [<-|[<-|[<-|[]]]]; assumption.
Qed.
(** ** C. What [Rules.pseudo] contains *)
Definition promo_kind (c : N) (m : mv) : Prop :=
  (mtype m = 0 /\ mprom m = 3 /\ rank_of (mto m) <> last_rank c) \/
  (mtype m = 1 /\ 3 <= mprom m <= 6 /\ rank_of (mto m) = last_rank c).

Definition cls_castle (p : pos) (m : mv) : Prop :=
  mtype m = 3 /\ mprom m = 3 /\ piece_at p (mfrom m) = mk_piece (stm p) KING /\
  ((stm p = 0 /\ mfrom m = 4 /\ (mto m = 6 \/ mto m = 2)) \/
   (stm p <> 0 /\ mfrom m = 60 /\ (mto m = 62 \/ mto m = 58))).

Definition cls_simple (p : pos) (m : mv) : Prop :=
  mtype m = 0 /\ mprom m = 3 /\ type_of (piece_at p (mfrom m)) <> PAWN /\
  (type_of (piece_at p (mfrom m)) = KING -> In (mto m) (king_targets (mfrom m))).

Definition cls_pawn (p : pos) (m : mv) : Prop :=
  let b := brd p in let c := stm p in let s := mfrom m in let t := mto m in
  type_of (piece_at p s) = PAWN /\
  ( (promo_kind c m /\ at_ b t = 0 /\ step (fwd c) s = Some t)
  \/ (mtype m = 0 /\ mprom m = 3 /\ at_ b t = 0 /\ rank_of s = start_rank c /\
      exists u, step (fwd c) s = Some u /\ step (fwd c) u = Some t /\ at_ b u = 0)
  \/ (promo_kind c m /\ In t (pawn_attack_targets c s) /\ enemy b c t = true)
  \/ (mtype m = 2 /\ mprom m = 3 /\ In t (pawn_attack_targets c s) /\ enemy b c t = false /\
      t = ep p /\ at_ b t = 0)).

Definition own (p : pos) (s : N) : Prop :=
  piece_at p s <> 0 /\ colour_of (piece_at p s) = stm p.

Lemma adv_members c s t m :
  In m (if rank_of t =? last_rank c then promos s t else [mkmv s t NORMAL 3]) ->
  mfrom m = s /\ mto m = t /\ promo_kind c m.
Proof.
  unfold promo_kind. destruct (N.eqb_spec (rank_of t) (last_rank c)) as [E|E]; cbn [promos In]; intros H;
    repeat (destruct H as [<-|H]; [cbn [mfrom mto mtype mprom]; unfold NORMAL, PROMOTION, QUEEN, ROOK, BISHOP, KNIGHT; repeat split; lia|]);
    destruct H.
Qed.

Lemma pawn_moves_class p s m : In m (pawn_moves p s) ->
  mfrom m = s /\
  let b := brd p in let c := stm p in let t := mto m in
  ( (promo_kind c m /\ at_ b t = 0 /\ step (fwd c) s = Some t)
  \/ (mtype m = 0 /\ mprom m = 3 /\ at_ b t = 0 /\ rank_of s = start_rank c /\
      exists u, step (fwd c) s = Some u /\ step (fwd c) u = Some t /\ at_ b u = 0)
  \/ (promo_kind c m /\ In t (pawn_attack_targets c s) /\ enemy b c t = true)
  \/ (mtype m = 2 /\ mprom m = 3 /\ In t (pawn_attack_targets c s) /\ enemy b c t = false /\
      t = ep p /\ at_ b t = 0)).
Proof.
  unfold pawn_moves. cbv zeta. intros H. apply in_app_or in H. destruct H as [H|H].
  - destruct (step (fwd (stm p)) s) as [t|] eqn:Et; [|destruct H].
    destruct (at_ (brd p) t =? 0) eqn:E0; [|destruct H]. apply N.eqb_eq in E0.
    apply in_app_or in H. destruct H as [H|H].
    + apply adv_members in H. destruct H as (Hf & Ht & Hk). split; [exact Hf|]. left. rewrite Ht. auto.
    + destruct (rank_of s =? start_rank (stm p)) eqn:Er; [|destruct H]. apply N.eqb_eq in Er.
      destruct (step (fwd (stm p)) t) as [u|] eqn:Eu; [|destruct H].
      destruct (at_ (brd p) u =? 0) eqn:E1; [|destruct H]. apply N.eqb_eq in E1.
      destruct H as [<-|[]]. cbn [mfrom mto mtype mprom]. split; [reflexivity|]. right. left.
      repeat split; try assumption; try reflexivity. exists t. auto.
  - apply in_flat_map in H. destruct H as (t & Ht & H).
    destruct (enemy (brd p) (stm p) t) eqn:Ee.
    + apply adv_members in H. destruct H as (Hf & Hto & Hk). split; [exact Hf|]. right. right. left. rewrite Hto. auto.
    + destruct ((t =? ep p) && (at_ (brd p) t =? 0)) eqn:E2; [|destruct H].
      apply andb_prop in E2. destruct E2 as [E2 E3]. apply N.eqb_eq in E2, E3.
      destruct H as [<-|[]]. cbn [mfrom mto mtype mprom]. split; [reflexivity|]. right. right. right.
      unfold ENPASSANT. repeat split; assumption.
Qed.

Lemma simple_members (s : N) (f : N -> bool) (ts : list N) m :
  In m (map (fun t => mkmv s t NORMAL 3) (filter f ts)) ->
  mfrom m = s /\ mtype m = 0 /\ mprom m = 3 /\ In (mto m) ts.
Proof.
  intros H. apply in_map_iff in H. destruct H as (t & <- & Ht). apply filter_In in Ht. cbn. tauto.
Qed.

Lemma piece_moves_class p s m : s < 64 -> In m (piece_moves p s) ->
  mfrom m = s /\ mto m < 64 /\ own p s /\ (cls_simple p m \/ cls_pawn p m).
Proof.
  intros Hs. unfold piece_moves. cbv zeta. fold (piece_at p s).
  destruct ((piece_at p s =? 0) || negb (colour_of (piece_at p s) =? stm p)) eqn:Eo; [intros []|].
  apply orb_false_elim in Eo. destruct Eo as [Eo1 Eo2]. apply N.eqb_neq in Eo1. apply negb_false_iff in Eo2. apply N.eqb_eq in Eo2.
  assert (Hown : own p s) by (split; assumption).
  destruct (type_of (piece_at p s) =? PAWN) eqn:Ep.
  { apply N.eqb_eq in Ep. intros H. apply pawn_moves_class in H. destruct H as (Hf & H). cbv zeta in H.
    split; [exact Hf|].
    assert (Hto : mto m < 64).
    { destruct H as [(_ & _ & H)|[(_ & _ & _ & _ & u & _ & H & _)|[(_ & H & _)|(_ & _ & H & _)]]].
      - eapply step_lt; exact H.
      - eapply step_lt; exact H.
      - apply (pat_char _ _ _ Hs) in H. lia.
      - apply (pat_char _ _ _ Hs) in H. lia. }
    split; [exact Hto|]. split; [exact Hown|]. right. unfold cls_pawn. cbv zeta. rewrite Hf. split; [exact Ep|exact H]. }
  apply N.eqb_neq in Ep.
  assert (Hsimple : forall ts, (forall t, In t ts -> t < 64) ->
            (type_of (piece_at p s) = KING -> forall t, In t ts -> In t (king_targets s)) ->
            In m (map (fun t => mkmv s t NORMAL 3) (filter (free_or_enemy (brd p) (stm p)) ts)) ->
            mfrom m = s /\ mto m < 64 /\ own p s /\ (cls_simple p m \/ cls_pawn p m)).
  { intros ts Hlt Hk H. apply simple_members in H. destruct H as (Hf & Hty & Hpr & Hin).
    split; [exact Hf|]. split; [apply Hlt; exact Hin|]. split; [exact Hown|]. left. unfold cls_simple. rewrite Hf.
    repeat split; try assumption. intros HK. apply Hk; assumption. }
  destruct (type_of (piece_at p s) =? KNIGHT) eqn:E1.
  { apply N.eqb_eq in E1. apply Hsimple; [apply knight_targets_lt|]. rewrite E1. unfold KNIGHT, KING. discriminate. }
  destruct (type_of (piece_at p s) =? KING) eqn:E2.
  { apply Hsimple; [apply king_targets_lt|auto]. }
  apply N.eqb_neq in E2.
  destruct (type_of (piece_at p s) =? ROOK) eqn:E3.
  { apply Hsimple; [intros t; apply rays_from_lt|contradiction]. }
  destruct (type_of (piece_at p s) =? BISHOP) eqn:E4.
  { apply Hsimple; [intros t; apply rays_from_lt|contradiction]. }
  destruct (type_of (piece_at p s) =? QUEEN) eqn:E5.
  { apply Hsimple; [intros t; apply rays_from_lt|contradiction]. }
  intros [].
Qed.

Lemma castle_moves_class p m : In m (castle_moves p) ->
  mfrom m < 64 /\ mto m < 64 /\ own p (mfrom m) /\ cls_castle p m.
Proof.
  unfold castle_moves, castles. cbv zeta. unfold WHITE.
  destruct (N.eqb_spec (stm p) 0) as [Hc|Hc]; cbn [flat_map]; rewrite app_nil_r; intros H; apply in_app_or in H;
    destruct H as [H|H];
    match type of H with
    | In _ (if ?c then _ else _) => destruct c eqn:E; [|destruct H]
    end;
    destruct H as [<-|[]]; cbn [mfrom mto mtype mprom];
    repeat rewrite andb_true_iff in E; destruct E as (((_ & Ek) & _) & _);
    unfold is_piece in Ek; apply N.eqb_eq in Ek; fold (piece_at p 4) in Ek; fold (piece_at p 60) in Ek;
    (split; [lia|]); (split; [lia|]);
    (split; [unfold own; rewrite Ek; unfold colour_of, mk_piece, KING; split; lia|]);
    unfold cls_castle, CASTLING; cbn [mfrom mto mtype mprom]; (split; [reflexivity|]); (split; [reflexivity|]);
    (split; [exact Ek|]); lia.
Qed.

Lemma pseudo_class p m : In m (pseudo p) ->
  mfrom m < 64 /\ mto m < 64 /\ own p (mfrom m) /\ (cls_castle p m \/ cls_simple p m \/ cls_pawn p m).
Proof.
  unfold pseudo. intros H. apply in_app_or in H. destruct H as [H|H].
  - apply in_flat_map in H. destruct H as (s & Hs & H). apply squares64_lt in Hs.
    apply (piece_moves_class p s m Hs) in H. destruct H as (Hf & Ht & Ho & Hc). rewrite Hf. tauto.
  - apply castle_moves_class in H. tauto.
Qed.

Lemma mv_eq m1 m2 : mfrom m1 = mfrom m2 -> mto m1 = mto m2 -> mtype m1 = mtype m2 -> mprom m1 = mprom m2 -> m1 = m2.
Proof. destruct m1, m2. cbn. intros; subst; reflexivity. Qed.

Lemma type_of_king c : type_of (mk_piece c KING) = KING.
Proof. unfold type_of, mk_piece, KING. lia. Qed.

Lemma castle_not_king_step s t :
  (s = 4 /\ (t = 6 \/ t = 2)) \/ (s = 60 /\ (t = 62 \/ t = 58)) -> ~ In t (king_targets s).
Proof.
  intros [(-> & [-> | ->])|(-> & [-> | ->])] H; vm_compute in H;
    repeat (destruct H as [H|H]; [discriminate H|]); exact H.
Qed.

Lemma promo_kind_same c m1 m2 : promo_kind c m1 -> promo_kind c m2 ->
  (mtype m1 = 1 <-> mtype m2 = 1) -> (mtype m1 = 1 -> mprom m1 = mprom m2) ->
  mtype m1 = mtype m2 /\ mprom m1 = mprom m2.
Proof. unfold promo_kind. intros H1 H2 Hi Hp. destruct H1 as [(A & B & _)|(A & B & _)], H2 as [(C & D & _)|(C & D & _)]; split; try lia; try (apply Hp; lia). Qed.

(** among pseudo-legal (hence among legal) moves, (from, to, is-promotion, promotion piece)
    determines the move: castling cannot coincide with a king step, en passant cannot
    coincide with an ordinary pawn move. *)
Lemma pseudo_key_inj p m1 m2 :
  In m1 (pseudo p) -> In m2 (pseudo p) ->
  mfrom m1 = mfrom m2 -> mto m1 = mto m2 ->
  (mtype m1 = 1 <-> mtype m2 = 1) -> (mtype m1 = 1 -> mprom m1 = mprom m2) -> m1 = m2.
Proof.
  intros H1 H2 Hf Ht Hi Hp.
  apply pseudo_class in H1, H2.
  destruct H1 as (Hs1 & Ht1 & _ & C1). destruct H2 as (Hs2 & Ht2 & _ & C2).
  unfold cls_castle, cls_simple, cls_pawn in C1, C2. cbv zeta in C1, C2.
  rewrite <- Hf, <- Ht in C2.
  destruct C1 as [(A1 & A2 & A3 & A4)|[(A1 & A2 & A3 & A4)|(A1 & A2)]];
  destruct C2 as [(B1 & B2 & B3 & B4)|[(B1 & B2 & B3 & B4)|(B1 & B2)]].
  - apply mv_eq; congruence.
  - exfalso. rewrite A3, type_of_king in B4. specialize (B4 eq_refl).
    revert B4. apply castle_not_king_step. lia.
  - exfalso. rewrite A3, type_of_king in B1. discriminate B1.
  - exfalso. rewrite B3, type_of_king in A4. specialize (A4 eq_refl).
    revert A4. apply castle_not_king_step. lia.
  - apply mv_eq; congruence.
  - contradiction.
  - exfalso. rewrite B3, type_of_king in A1. discriminate A1.
  - contradiction.
  - (* pawn / pawn *)
    destruct A2 as [(K1 & E1 & S1)|[(Y1 & P1 & E1 & R1 & u1 & S1 & S1' & F1)|[(K1 & I1 & N1)|(Y1 & P1 & I1 & N1 & X1 & Z1)]]];
    destruct B2 as [(K2 & E2 & S2)|[(Y2 & P2 & E2 & R2 & u2 & S2 & S2' & F2)|[(K2 & I2 & N2)|(Y2 & P2 & I2 & N2 & X2 & Z2)]]];
    try (apply mv_eq; [exact Hf|exact Ht|congruence|congruence]);
    try (destruct (promo_kind_same _ m1 m2 K1 K2 Hi Hp); apply mv_eq; assumption);
    try congruence;
    exfalso;
    repeat match goal with
           | H : step (fwd _) ?a = Some ?b |- _ =>
               let Hb := fresh "Hb" in assert (Hb : b < 64) by (eapply step_lt; exact H);
               apply fwd_char in H; [|assumption]
           | H : In _ (pawn_attack_targets _ _) |- _ => apply pat_char in H; [|assumption]
           end; lia.
Qed.

(** the pseudo-legal (hence the legal) move list has no duplicates *)
Lemma adv_NoDup c s t : NoDup (if rank_of t =? last_rank c then promos s t else [mkmv s t NORMAL 3]).
Proof.
  destruct (rank_of t =? last_rank c); unfold promos; repeat constructor; cbn [In]; intros H;
    repeat (destruct H as [H|H]; [discriminate H|]); exact H.
Qed.

Lemma pawn_moves_NoDup p s : s < 64 -> NoDup (pawn_moves p s).
Proof.
  intros Hs. unfold pawn_moves. cbv zeta. apply NoDup_app_intro.
  - destruct (step (fwd (stm p)) s) as [t|] eqn:Et; [|constructor].
    destruct (at_ (brd p) t =? 0); [|constructor].
    apply NoDup_app_intro; [apply adv_NoDup| |].
    + destruct (rank_of s =? start_rank (stm p)); [|constructor].
      destruct (step (fwd (stm p)) t) as [u|]; [|constructor].
      destruct (at_ (brd p) u =? 0); repeat constructor. intros [].
    + intros x Hx1 Hx2. apply adv_members in Hx1. destruct Hx1 as (_ & Hto & _).
      destruct (rank_of s =? start_rank (stm p)); [|destruct Hx2].
      destruct (step (fwd (stm p)) t) as [u|] eqn:Eu; [|destruct Hx2].
      destruct (at_ (brd p) u =? 0); [|destruct Hx2]. destruct Hx2 as [<-|[]]. cbn [mto] in Hto.
      assert (Ht : t < 64) by (eapply step_lt; exact Et).
      apply fwd_char in Eu; [|exact Ht]. lia.
  - apply (NoDup_flat_map_key mto).
    + destruct (targets_nodup s Hs) as (_ & _ & H & _). apply H.
    + intros t _. destruct (enemy (brd p) (stm p) t); [apply adv_NoDup|].
      destruct ((t =? ep p) && (at_ (brd p) t =? 0)); repeat constructor. intros [].
    + intros t y _ Hy. destruct (enemy (brd p) (stm p) t).
      * apply adv_members in Hy. tauto.
      * destruct ((t =? ep p) && (at_ (brd p) t =? 0)); [|destruct Hy]. destruct Hy as [<-|[]]. reflexivity.
  - intros x Hx1 Hx2.
    assert (Hpat : In (mto x) (pawn_attack_targets (stm p) s)).
    { apply in_flat_map in Hx2. destruct Hx2 as (t & Ht & Hy). destruct (enemy (brd p) (stm p) t).
      - apply adv_members in Hy. destruct Hy as (_ & -> & _). exact Ht.
      - destruct ((t =? ep p) && (at_ (brd p) t =? 0)); [|destruct Hy]. destruct Hy as [<-|[]]. exact Ht. }
    apply pat_char in Hpat; [|exact Hs].
    destruct (step (fwd (stm p)) s) as [t|] eqn:Et; [|destruct Hx1].
    assert (Ht : t < 64) by (eapply step_lt; exact Et).
    apply fwd_char in Et; [|exact Hs].
    destruct (at_ (brd p) t =? 0); [|destruct Hx1].
    apply in_app_or in Hx1. destruct Hx1 as [Hx1|Hx1].
    + apply adv_members in Hx1. destruct Hx1 as (_ & Hto & _). lia.
    + destruct (rank_of s =? start_rank (stm p)); [|destruct Hx1].
      destruct (step (fwd (stm p)) t) as [u|] eqn:Eu; [|destruct Hx1].
      destruct (at_ (brd p) u =? 0); [|destruct Hx1]. destruct Hx1 as [<-|[]]. cbn [mto] in Hpat.
      apply fwd_char in Eu; [|exact Ht]. lia.
Qed.

Lemma piece_moves_NoDup p s : s < 64 -> NoDup (piece_moves p s).
Proof.
  intros Hs. unfold piece_moves. cbv zeta.
  destruct (_ || _); [constructor|].
  assert (Hsimple : forall ts, NoDup ts ->
            NoDup (map (fun t => mkmv s t NORMAL 3) (filter (free_or_enemy (brd p) (stm p)) ts))).
  { intros ts Hn. apply NoDup_map_inj; [intros x y H; injection H; auto|apply NoDup_filter; exact Hn]. }
  destruct (targets_nodup s Hs) as (Hkn & Hki & _).
  destruct (_ =? PAWN); [apply pawn_moves_NoDup; exact Hs|].
  destruct (_ =? KNIGHT); [apply Hsimple; exact Hkn|].
  destruct (_ =? KING); [apply Hsimple; exact Hki|].
  destruct (_ =? ROOK); [apply Hsimple; apply rays_from_NoDup; cbn; auto|].
  destruct (_ =? BISHOP); [apply Hsimple; apply rays_from_NoDup; cbn; auto|].
  destruct (_ =? QUEEN); [apply Hsimple; apply rays_from_NoDup; cbn; auto|].
  constructor.
Qed.

Lemma castle_moves_NoDup p : NoDup (castle_moves p).
Proof.
  unfold castle_moves, castles. cbv zeta.
  destruct (stm p =? WHITE); cbn [flat_map]; rewrite app_nil_r;
    repeat match goal with |- context [if ?c then [_] else []] => destruct c end;
    repeat constructor; cbn [In app]; intros H; repeat (destruct H as [H|H]; [discriminate H|]); exact H.
Qed.

Lemma pseudo_NoDup p : NoDup (pseudo p).
Proof.
  unfold pseudo. apply NoDup_app_intro.
  - apply (NoDup_flat_map_key mfrom); [apply squares64_NoDup| |].
    + intros s Hs. apply piece_moves_NoDup. apply squares64_lt. exact Hs.
    + intros s y Hs Hy. apply squares64_lt in Hs. apply (piece_moves_class p s y Hs) in Hy. tauto.
  - apply castle_moves_NoDup.
  - intros x Hx1 Hx2. apply castle_moves_class in Hx2. destruct Hx2 as (_ & _ & _ & (H3 & _)).
    apply in_flat_map in Hx1. destruct Hx1 as (s & Hs & Hx1). apply squares64_lt in Hs.
    apply (piece_moves_class p s x Hs) in Hx1. destruct Hx1 as (_ & _ & _ & [(H0 & _)|(_ & Hp)]); [congruence|].
    unfold promo_kind in Hp. cbv zeta in Hp.
    destruct Hp as [(K & _)|[(K & _)|[(K & _)|(K & _)]]]; try destruct K as [(K & _)|(K & _)]; congruence.
Qed.

Lemma legal_in_pseudo p m : In m (legal p) -> In m (pseudo p).
Proof. unfold legal. intros H. apply filter_In in H. tauto. Qed.
Lemma legal_NoDup p : NoDup (legal p).
Proof. unfold legal. apply NoDup_filter. apply pseudo_NoDup. Qed.

(** ** D. UCI *)
Lemma file_of_lt8 s : file_of s < 8.
Proof. rewrite file_of_mod. lia. Qed.
Lemma rank_of_lt8 s : s < 64 -> rank_of s < 8.
Proof. rewrite rank_of_div. lia. Qed.
Lemma sq_of_file_rank s : s = 8 * rank_of s + file_of s.
Proof. rewrite file_of_mod, rank_of_div. lia. Qed.

Lemma square_string_valid s : s < 64 -> square_string s = sq_name s.
Proof. intros Hs. unfold square_string, sq_name, file_ch, rank_ch. destruct (N.ltb_spec s 64); [reflexivity|lia]. Qed.
Lemma sq_name_inj s t : sq_name s = sq_name t -> s = t.
Proof.
  unfold sq_name, file_ch, rank_ch. intros H.
  assert (Hf : 97 + file_of s = 97 + file_of t) by congruence.
  assert (Hr : 49 + rank_of s = 49 + rank_of t) by congruence.
  pose proof (sq_of_file_rank s). pose proof (sq_of_file_rank t). lia.
Qed.
Lemma file_ch_class s : is_file_ch (file_ch s) = true.
Proof. unfold is_file_ch, file_ch. pose proof (file_of_lt8 s). lia. Qed.
Lemma rank_ch_class s : s < 64 -> is_rank_ch (rank_ch s) = true.
Proof. intros Hs. unfold is_rank_ch, rank_ch. pose proof (rank_of_lt8 s Hs). lia. Qed.

Lemma pseudo_prom_range p m : In m (pseudo p) -> mtype m = 1 -> 3 <= mprom m <= 6.
Proof.
  intros H Hty. apply pseudo_class in H. destruct H as (_ & _ & _ & [C|[C|C]]).
  - destruct C as (C & _). congruence.
  - destruct C as (C & _). congruence.
  - destruct C as (_ & C). cbv zeta in C. unfold promo_kind in C.
    destruct C as [(K & _)|[(K & _)|[(K & _)|(K & _)]]]; try congruence;
      destruct K as [(K & _)|(_ & K & _)]; try congruence; exact K.
Qed.

Lemma range36 a : 3 <= a <= 6 -> a = 3 \/ a = 4 \/ a = 5 \/ a = 6.
Proof. lia. Qed.
Lemma pt_char_inj36 a b : 3 <= a <= 6 -> 3 <= b <= 6 -> pt_char a = pt_char b -> a = b.
Proof.
  intros Ha Hb. apply range36 in Ha, Hb.
  destruct Ha as [-> | [-> | [-> | ->]]], Hb as [-> | [-> | [-> | ->]]]; vm_compute; intros H; try reflexivity; discriminate H.
Qed.
Lemma pt_letter_char36 a : 3 <= a <= 6 -> pt_letter a = pt_char a.
Proof. intros Ha. apply range36 in Ha. destruct Ha as [-> | [-> | [-> | ->]]]; reflexivity. Qed.
Lemma pt_char36_prom a : 3 <= a <= 6 -> is_prom_ch (pt_char a) = true.
Proof. intros Ha. apply range36 in Ha. destruct Ha as [-> | [-> | [-> | ->]]]; reflexivity. Qed.

(* the engine's own UCI printer is injective on pseudo-legal (hence on legal) moves *)
Lemma string_uci_inj p m1 m2 : In m1 (pseudo p) -> In m2 (pseudo p) -> string_uci m1 = string_uci m2 -> m1 = m2.
Proof.
  intros H1 H2 Hs.
  pose proof (pseudo_class p m1 H1) as (F1 & T1 & _). pose proof (pseudo_class p m2 H2) as (F2 & T2 & _).
  pose proof (pseudo_prom_range p m1 H1) as P1. pose proof (pseudo_prom_range p m2 H2) as P2.
  unfold string_uci in Hs. rewrite !square_string_valid in Hs by assumption. unfold PROMOTION in Hs.
  assert (Hsq : forall a b c d x y, sq_name a ++ sq_name b ++ x = sq_name c ++ sq_name d ++ y -> a = c /\ b = d /\ x = y).
  { intros a b c d x y H. cbn [sq_name app] in H. injection H as E1 E2 E3 E4 E5.
    split; [apply sq_name_inj; unfold sq_name; congruence|]. split; [apply sq_name_inj; unfold sq_name; congruence|exact E5]. }
  apply Hsq in Hs. destruct Hs as (Ef & Et & Ex).
  apply (pseudo_key_inj p); try assumption.
  - destruct (N.eqb_spec (mtype m1) 1), (N.eqb_spec (mtype m2) 1); try discriminate Ex; tauto.
  - intros Hy. destruct (N.eqb_spec (mtype m1) 1) as [_|]; [|contradiction].
    destruct (N.eqb_spec (mtype m2) 1) as [Hy2|]; [|discriminate Ex].
    injection Ex as Ex. apply pt_char_inj36; auto.
Qed.

(* the specification's UCI string (lower-case promotion letter) differs from the engine's
   only in the letter case *)
Definition uci_suffix_ok (m : mv) (suffix : option N) : Prop :=
  match suffix with
  | None => mtype m <> 1
  | Some e => mtype m = 1 /\ is_uciprom_ch e = true /\ to_upper e = pt_char (mprom m)
  end.

Definition o2l (o : option N) : str := match o with Some c => [c] | None => [] end.

Lemma uci_at_wf a b c d (suffix : option N) :
  is_file_ch a = true -> is_rank_ch b = true -> is_file_ch c = true -> is_rank_ch d = true ->
  match suffix with Some e => is_uciprom_ch e = true | None => True end ->
  uci_find ([a; b; c; d] ++ o2l suffix) = Some ([a; b; c; d], suffix).
Proof.
  intros Ha Hb Hc Hd Hs. unfold uci_find, uci_at.
  destruct suffix as [e|]; cbn [o2l app]; rewrite Ha, Hb, Hc, Hd; cbn [andb]; [rewrite Hs|]; reflexivity.
Qed.

(* core: the string consisting of the two squares of a legal move and a fitting promotion
   letter (any case) - and nothing else - parses to exactly that move *)
Lemma from_uci_core p m (suffix : option N) :
  In m (legal p) -> uci_suffix_ok m suffix ->
  from_uci p (sq_name (mfrom m) ++ sq_name (mto m) ++ o2l suffix) = Some m.
Proof.
  intros Hm Hsuf. pose proof (legal_in_pseudo p m Hm) as Hps.
  pose proof (pseudo_class p m Hps) as (Hf & Ht & _).
  unfold from_uci.
  change (sq_name (mfrom m) ++ sq_name (mto m) ++ o2l suffix)
    with ([file_ch (mfrom m); rank_ch (mfrom m); file_ch (mto m); rank_ch (mto m)] ++ o2l suffix).
  rewrite uci_at_wf; try apply file_ch_class; try (apply rank_ch_class; assumption).
  2:{ destruct suffix as [e|]; [destruct Hsuf as (_ & H & _); exact H|exact I]. }
  set (want := [file_ch (mfrom m); rank_ch (mfrom m); file_ch (mto m); rank_ch (mto m)] ++ match suffix with Some e => [to_upper e] | None => [] end).
  assert (Hwant : string_uci m = want).
  { unfold string_uci, want. rewrite !square_string_valid by assumption. cbn [sq_name app]. unfold PROMOTION.
    destruct suffix as [e|]; cbn in Hsuf.
    - destruct Hsuf as (Hy & _ & Hu). rewrite Hy, Hu. reflexivity.
    - destruct (N.eqb_spec (mtype m) 1); [contradiction|reflexivity]. }
  destruct (find_first_sat (fun m' => str_eqb (string_uci m') want) (legal p) m Hm) as (m' & Hfind & Hin' & Hsat).
  { rewrite Hwant. apply str_eqb_refl. }
  rewrite Hfind. f_equal. apply str_eqb_eq in Hsat. apply (string_uci_inj p); [apply legal_in_pseudo; exact Hin'|exact Hps|congruence].
Qed.

(** uci_roundtrip: the specification's UCI string (lower-case promotion letter) *)
Theorem uci_roundtrip : forall p m, legal_pos p = true -> In m (legal p) ->
  exists m', from_uci p (uci_str m) = Some m' /\ code m' = code m.
Proof.
  intros p m _ Hm. exists m. split; [|reflexivity].
  pose proof (pseudo_prom_range p m (legal_in_pseudo p m Hm)) as Hpr.
  unfold uci_str, PROMOTION. destruct (N.eqb_spec (mtype m) 1) as [Hy|Hy].
  - apply (from_uci_core p m (Some (pt_letter (mprom m) + 32)) Hm).
    cbn. split; [exact Hy|]. specialize (Hpr Hy). apply range36 in Hpr.
    destruct Hpr as [-> | [-> | [-> | ->]]]; split; reflexivity.
  - apply (from_uci_core p m None Hm). exact Hy.
Qed.
(* the strong form, and the same for the engine's own printer (upper-case letter) *)
Theorem uci_roundtrip_eq : forall p m, In m (legal p) -> from_uci p (uci_str m) = Some m.
Proof.
  intros p m Hm.
  pose proof (pseudo_prom_range p m (legal_in_pseudo p m Hm)) as Hpr.
  unfold uci_str, PROMOTION. destruct (N.eqb_spec (mtype m) 1) as [Hy|Hy].
  - apply (from_uci_core p m (Some (pt_letter (mprom m) + 32)) Hm).
    cbn. split; [exact Hy|]. specialize (Hpr Hy). apply range36 in Hpr.
    destruct Hpr as [-> | [-> | [-> | ->]]]; split; reflexivity.
  - apply (from_uci_core p m None Hm). exact Hy.
Qed.
Theorem uci_roundtrip_engine_printer : forall p m, In m (legal p) -> from_uci p (string_uci m) = Some m.
Proof.
  intros p m Hm. pose proof (legal_in_pseudo p m Hm) as Hps.
  pose proof (pseudo_class p m Hps) as (Hf & Ht & _).
  pose proof (pseudo_prom_range p m Hps) as Hpr.
  unfold string_uci, PROMOTION. rewrite !square_string_valid by assumption.
  destruct (N.eqb_spec (mtype m) 1) as [Hy|Hy].
  - apply (from_uci_core p m (Some (pt_char (mprom m))) Hm).
    cbn. split; [exact Hy|]. specialize (Hpr Hy). apply range36 in Hpr.
    destruct Hpr as [-> | [-> | [-> | ->]]]; split; reflexivity.
  - apply (from_uci_core p m None Hm). exact Hy.
Qed.

(* anything the parser returns is a legal move whose printed form is the matched text *)
Lemma from_uci_sound p s m : from_uci p s = Some m ->
  In m (legal p) /\ exists mp pr, uci_find s = Some (mp, pr) /\
     string_uci m = mp ++ match pr with Some e => [to_upper e] | None => [] end.
Proof.
  unfold from_uci. destruct (uci_find s) as [(mp, pr)|]; [|discriminate].
  intros H. apply find_some in H. destruct H as (Hin & Heq). split; [exact Hin|].
  exists mp, pr. split; [reflexivity|]. apply str_eqb_eq. exact Heq.
Qed.

(** uci_unknown_none: a well-formed coordinate string (exactly four or five characters of
    the right classes) that is the UCI string of no legal move - in either letter case of
    the promotion piece - yields no move. *)
Definition uci_wellformed (s : str) : bool :=
  match s with
  | [a; b; c; d] => is_file_ch a && is_rank_ch b && is_file_ch c && is_rank_ch d
  | [a; b; c; d; e] => is_file_ch a && is_rank_ch b && is_file_ch c && is_rank_ch d && is_uciprom_ch e
  | _ => false
  end.

Theorem uci_unknown_none : forall p s, uci_wellformed s = true ->
  (forall m, In m (legal p) -> s <> uci_str m /\ s <> string_uci m) -> from_uci p s = None.
Proof.
  intros p s Hwf Hno. destruct (from_uci p s) as [m|] eqn:E; [exfalso|reflexivity].
  apply from_uci_sound in E. destruct E as (Hm & mp & pr & Hfind & Hstr).
  pose proof (legal_in_pseudo p m Hm) as Hps.
  pose proof (pseudo_class p m Hps) as (Hf & Ht & _).
  pose proof (pseudo_prom_range p m Hps) as Hpr.
  destruct (Hno m Hm) as (Hn1 & Hn2).
  destruct s as [|a [|b [|c [|d [|e [|x r]]]]]]; try discriminate Hwf.
  - (* four characters *)
    cbn [uci_wellformed] in Hwf. cbv beta iota delta [uci_find uci_at] in Hfind. rewrite Hwf in Hfind.
    injection Hfind as <- <-. rewrite app_nil_r in Hstr. congruence.
  - cbn [uci_wellformed] in Hwf. apply andb_prop in Hwf. destruct Hwf as (Hwf & He).
    cbv beta iota delta [uci_find uci_at] in Hfind. rewrite Hwf, He in Hfind.
    injection Hfind as <- <-. cbn [app] in Hstr.
    (* m is a promotion, its piece letter is the upper case of e *)
    unfold string_uci, PROMOTION in Hstr. rewrite !square_string_valid in Hstr by assumption.
    destruct (N.eqb_spec (mtype m) 1) as [Hy|Hy]; [|discriminate Hstr].
    cbn [sq_name app] in Hstr. injection Hstr as E1 E2 E3 E4 E5.
    specialize (Hpr Hy).
    unfold is_uciprom_ch, is_prom_ch in He.
    assert (Hcase : to_upper e = e \/ (to_upper e + 32 = e)) by (unfold to_upper; destruct ((97 <=? e) && (e <=? 122)) eqn:Ec; lia).
    destruct Hcase as [Hup|Hlow].
    + apply Hn2. unfold string_uci, PROMOTION. rewrite !square_string_valid by assumption.
      destruct (N.eqb_spec (mtype m) 1); [|contradiction]. cbn [sq_name app]. congruence.
    + apply Hn1. unfold uci_str, PROMOTION. destruct (N.eqb_spec (mtype m) 1); [|contradiction].
      cbn [sq_name app]. rewrite pt_letter_char36 by exact Hpr. congruence.
Qed.

(* the anchored regex accepts well-formed strings only *)
Lemma uci_find_wf s r : uci_find s = Some r -> uci_wellformed s = true.
Proof.
  unfold uci_find, uci_at, uci_wellformed.
  destruct s as [|a [|b [|c [|d [|e [|x t]]]]]]; try (intros H; discriminate H);
    destruct (is_file_ch a && is_rank_ch b && is_file_ch c && is_rank_ch d); try (intros H; discriminate H); cbn [andb].
  - reflexivity.
  - destruct (is_uciprom_ch e); [reflexivity|intros H; discriminate H].
Qed.

(** uci_strict_none: EVERY string (no well-formedness guard: junk before or after a move,
    wrong length, wrong characters, trailing newline ...) that is the UCI string of no legal
    move - in either letter case of the promotion piece - yields no move. *)
Theorem uci_strict_none : forall p s,
  (forall m, In m (legal p) -> s <> uci_str m /\ s <> string_uci m) -> from_uci p s = None.
Proof.
  intros p s Hno. destruct (uci_find s) as [r|] eqn:E.
  - apply uci_unknown_none; [eapply uci_find_wf; exact E|exact Hno].
  - unfold from_uci. rewrite E. reflexivity.
Qed.
(* and conversely: exactly the two spellings of each legal move are accepted *)
Theorem from_uci_exact : forall p s m,
  from_uci p s = Some m <-> In m (legal p) /\ (s = uci_str m \/ s = string_uci m).
Proof.
  intros p s m. split.
  - intros H. destruct (from_uci_sound p s m H) as (Hm & _). split; [exact Hm|].
    destruct (str_eqb s (uci_str m)) eqn:E1; [left; apply str_eqb_eq; exact E1|].
    destruct (str_eqb s (string_uci m)) eqn:E2; [right; apply str_eqb_eq; exact E2|]. exfalso.
    (* s is the string of no OTHER legal move either: the parser would have returned that one *)
    assert (Hother : forall m', In m' (legal p) -> s = uci_str m' \/ s = string_uci m' -> m' = m).
    { intros m' Hm' [-> | ->]; [rewrite uci_roundtrip_eq in H by exact Hm'|rewrite uci_roundtrip_engine_printer in H by exact Hm']; congruence. }
    assert (Hnone : from_uci p s = None).
    { apply uci_strict_none. intros m' Hm'. split; intros Hs.
      - assert (m' = m) by (apply Hother; auto). subst m'. subst s. rewrite str_eqb_refl in E1. discriminate E1.
      - assert (m' = m) by (apply Hother; auto). subst m'. subst s. rewrite str_eqb_refl in E2. discriminate E2. }
    congruence.
  - intros (Hm & [-> | ->]); [apply uci_roundtrip_eq|apply uci_roundtrip_engine_printer]; exact Hm.
Qed.

(** ** E. The SAN matcher on strings of the SAN shape *)
(* character classes as complete tables of the tests the matcher performs *)
Definition c_piece (c : N) : Prop := is_piece_ch c = true.
Definition c_file (c : N) : Prop :=
  is_piece_ch c = false /\ is_file_ch c = true /\ is_rank_ch c = false /\ is_x_ch c = false /\ (c =? 79) = false.
Definition c_rank (c : N) : Prop :=
  is_piece_ch c = false /\ is_file_ch c = false /\ is_rank_ch c = true /\ is_x_ch c = false /\ (c =? 79) = false.
Definition c_x (c : N) : Prop :=
  is_piece_ch c = false /\ is_file_ch c = false /\ is_rank_ch c = false /\ is_x_ch c = true /\ (c =? 79) = false.
Definition tail_ok (T : str) : Prop :=
  match T with [] => True | c :: _ => is_file_ch c = false /\ is_x_ch c = false /\ (c =? 79) = false /\ (c =? 45) = false end.
Definition opt_ok (cls : N -> Prop) (o : option N) : Prop := match o with Some c => cls c | None => True end.
(* group 4 as text *)
Notation tstr := target_str (only parsing).
Definition tg_ok (tg : san_target) : Prop := match tg with TSq F R => c_file F /\ c_rank R | _ => True end.

Lemma file_is_c_file c : is_file_ch c = true -> c_file c.
Proof. unfold c_file, is_piece_ch, is_prom_ch, is_file_ch, is_rank_ch, is_x_ch. lia. Qed.
Lemma rank_is_c_rank c : is_rank_ch c = true -> c_rank c.
Proof. unfold c_rank, is_piece_ch, is_prom_ch, is_file_ch, is_rank_ch, is_x_ch. lia. Qed.
Lemma x_is_c_x : c_x 120.
Proof. unfold c_x. repeat split; reflexivity. Qed.
Lemma x_is_c_x' c : is_x_ch c = true -> c_x c.
Proof. unfold c_x, is_piece_ch, is_prom_ch, is_file_ch, is_rank_ch, is_x_ch. lia. Qed.

Ltac san_facts :=
  repeat match goal with
         | H : c_piece _ |- _ => unfold c_piece in H
         | H : c_file _ |- _ => destruct H as (? & ? & ? & ? & ?)
         | H : c_rank _ |- _ => destruct H as (? & ? & ? & ? & ?)
         | H : c_x _ |- _ => destruct H as (? & ? & ? & ? & ?)
         | H : tail_ok (_ :: _) |- _ => destruct H as (? & ? & ? & ?)
         | H : tg_ok (TSq _ _) |- _ => destruct H as (? & ?)
         end.

(* the stages of [san_at] as named continuations *)
Definition K4 (g1 g2 g3 : option N) (s4 : str) : option san_fields :=
  san_g4 s4 (fun tg s5 => match san_tail s5 with Some g6 => Some (mk_sf g1 g2 g3 tg g6) | None => None end).
Definition K3 (g1 g2 g3 : option N) (s3 : str) := opt_eat is_x_ch s3 (fun _ s4 => K4 g1 g2 g3 s4).
Definition K2 (g1 g2 : option N) (s2 : str) := opt_eat is_rank_ch s2 (fun g3 s3 => K3 g1 g2 g3 s3).
Definition K1 (g1 : option N) (s1 : str) := opt_eat is_file_ch s1 (fun g2 s2 => K2 g1 g2 s2).
Lemma san_at_K s : san_at s = opt_eat is_piece_ch s K1.
Proof. reflexivity. Qed.

Definition hd_not (cls : N -> bool) (s : str) : Prop := match s with c :: _ => cls c = false | [] => True end.
Lemma opt_eat_take {A} cls c r (k : option N -> str -> option A) x :
  cls c = true -> k (Some c) r = Some x -> opt_eat cls (c :: r) k = Some x.
Proof. intros Hc Hk. unfold opt_eat. rewrite Hc, Hk. reflexivity. Qed.
Lemma opt_eat_skip {A} cls s (k : option N -> str -> option A) : hd_not cls s -> opt_eat cls s k = k None s.
Proof. destruct s as [|c r]; [reflexivity|]. cbn [hd_not]. intros H. unfold opt_eat. rewrite H. reflexivity. Qed.
Lemma opt_eat_back {A} cls c r (k : option N -> str -> option A) :
  k (Some c) r = None -> opt_eat cls (c :: r) k = k None (c :: r).
Proof. intros Hk. unfold opt_eat. rewrite Hk. destruct (cls c); reflexivity. Qed.

(* the letters of the castling strings belong to no class *)
Lemma O_facts : is_piece_ch 79 = false /\ is_file_ch 79 = false /\ is_rank_ch 79 = false /\ is_x_ch 79 = false.
Proof. repeat split; reflexivity. Qed.

(* a rest that cannot start group 4 and is no 'x' *)
Definition dead (s : str) : Prop :=
  match s with [] => True | c :: _ => is_file_ch c = false /\ is_x_ch c = false /\ (c =? 79) = false end.
Lemma K4_dead g1 g2 g3 s : dead s -> K4 g1 g2 g3 s = None.
Proof.
  destruct s as [|c r]; [reflexivity|]. intros (Hf & _ & HO). unfold K4, san_g4, san_sq_alt. rewrite Hf.
  cbn [strip_prefix]. rewrite HO. reflexivity.
Qed.
Lemma K3_dead g1 g2 g3 s : dead s -> K3 g1 g2 g3 s = None.
Proof.
  intros Hd. unfold K3. rewrite opt_eat_skip; [apply K4_dead; exact Hd|].
  destruct s as [|c r]; [exact I|]. destruct Hd as (_ & Hx & _). exact Hx.
Qed.
Lemma tail_ok_dead T : tail_ok T -> dead T.
Proof. destruct T as [|c r]; [auto|]. intros (A & B & C & _). repeat split; assumption. Qed.

Lemma K4_shape g1 g2 g3 tg T g6 : tg_ok tg -> tail_ok T -> san_tail T = Some g6 ->
  K4 g1 g2 g3 (tstr tg ++ T) = Some (mk_sf g1 g2 g3 tg g6).
Proof.
  intros Htg HT H6. unfold K4, san_g4. destruct tg as [F R| |]; cbn [target_str app].
  - destruct Htg as (HF & HR). san_facts. unfold san_sq_alt.
    repeat match goal with H : ?t = true |- context [?t] => rewrite H end. rewrite H6. reflexivity.
  - (* O-O : not a square, not O-O-O (the tail does not start with '-') *)
    cbn. destruct T as [|c T']; [rewrite H6; reflexivity|]. destruct HT as (_ & _ & _ & H45). rewrite H45. rewrite H6. reflexivity.
  - cbn. rewrite H6. reflexivity.
Qed.
Lemma K3_shape g1 g2 g3 X tg T g6 : opt_ok c_x X -> tg_ok tg -> tail_ok T -> san_tail T = Some g6 ->
  K3 g1 g2 g3 (o2l X ++ tstr tg ++ T) = Some (mk_sf g1 g2 g3 tg g6).
Proof.
  intros HX Htg HT H6. unfold K3. destruct X as [x|]; cbn [o2l app opt_ok] in *.
  - apply opt_eat_take; [destruct HX as (_ & _ & _ & H & _); exact H|apply K4_shape; assumption].
  - rewrite opt_eat_skip; [apply K4_shape; assumption|].
    destruct tg as [F R| |]; cbn [target_str app hd_not]; [destruct Htg as ((_ & _ & _ & H & _) & _); exact H|reflexivity|reflexivity].
Qed.
Lemma K2_shape g1 g2 g3 X tg T g6 : opt_ok c_rank g3 -> opt_ok c_x X -> tg_ok tg -> tail_ok T -> san_tail T = Some g6 ->
  K2 g1 g2 (o2l g3 ++ o2l X ++ tstr tg ++ T) = Some (mk_sf g1 g2 g3 tg g6).
Proof.
  intros H3 HX Htg HT H6. unfold K2. destruct g3 as [r|]; cbn [o2l app opt_ok] in *.
  - apply opt_eat_take; [destruct H3 as (_ & _ & H & _); exact H|apply K3_shape; assumption].
  - rewrite opt_eat_skip; [apply K3_shape; assumption|].
    destruct X as [x|]; cbn [o2l app hd_not opt_ok] in *; [destruct HX as (_ & _ & H & _); exact H|].
    destruct tg as [F R| |]; cbn [target_str app hd_not]; [destruct Htg as ((_ & _ & H & _) & _); exact H|reflexivity|reflexivity].
Qed.
Lemma K1_shape g1 g2 g3 X tg T g6 : opt_ok c_file g2 -> opt_ok c_rank g3 -> opt_ok c_x X -> tg_ok tg -> tail_ok T -> san_tail T = Some g6 ->
  K1 g1 (o2l g2 ++ o2l g3 ++ o2l X ++ tstr tg ++ T) = Some (mk_sf g1 g2 g3 tg g6).
Proof.
  intros H2 H3 HX Htg HT H6. unfold K1. destruct g2 as [f|]; cbn [o2l app opt_ok] in *.
  - apply opt_eat_take; [destruct H2 as (_ & H & _); exact H|apply K2_shape; assumption].
  - destruct g3 as [r|]; cbn [o2l app opt_ok] in *.
    { rewrite opt_eat_skip; [apply (K2_shape g1 None (Some r)); assumption|]. destruct H3 as (_ & H & _); exact H. }
    destruct X as [x|]; cbn [o2l app opt_ok] in *.
    { rewrite opt_eat_skip; [apply (K2_shape g1 None None (Some x)); assumption|]. destruct HX as (_ & H & _); exact H. }
    destruct tg as [F R| |]; cbn [target_str app].
    + (* the first character of the target square is tried as the file of origin first: this fails *)
      destruct Htg as (HF & HR).
      rewrite opt_eat_back; [apply (K2_shape g1 None None None (TSq F R)); try exact I; try assumption; split; assumption|].
      unfold K2. rewrite opt_eat_back.
      * apply K3_dead. cbn [dead]. destruct HR as (_ & A & _ & B & C). repeat split; assumption.
      * apply K3_dead. apply tail_ok_dead. exact HT.
    + rewrite opt_eat_skip; [apply (K2_shape g1 None None None TOO); try exact I; assumption|reflexivity].
    + rewrite opt_eat_skip; [apply (K2_shape g1 None None None TOOO); try exact I; assumption|reflexivity].
Qed.

(* the general shape lemma: whatever optional parts are present, a string
   [piece][file][rank][x] target tail   is matched as a whole with exactly these groups *)
Lemma san_at_shape (g1 g2 g3 : option N) (X : option N) (tg : san_target) (T : str) (g6 : option N) :
  opt_ok c_piece g1 -> opt_ok c_file g2 -> opt_ok c_rank g3 -> opt_ok c_x X ->
  tg_ok tg -> tail_ok T -> san_tail T = Some g6 ->
  san_at (o2l g1 ++ o2l g2 ++ o2l g3 ++ o2l X ++ tstr tg ++ T)
  = Some (mk_sf g1 g2 g3 tg g6).
Proof.
  intros H1 H2 H3 HX Htg HT H6. rewrite san_at_K. destruct g1 as [L|]; cbn [o2l app opt_ok] in *.
  - apply opt_eat_take; [exact H1|apply K1_shape; assumption].
  - rewrite opt_eat_skip; [apply K1_shape; assumption|].
    destruct g2 as [f|]; cbn [o2l app hd_not opt_ok] in *; [destruct H2 as (H & _); exact H|].
    destruct g3 as [r|]; cbn [o2l app hd_not opt_ok] in *; [destruct H3 as (H & _); exact H|].
    destruct X as [x|]; cbn [o2l app hd_not opt_ok] in *; [destruct HX as (H & _); exact H|].
    destruct tg as [F R| |]; cbn [target_str app hd_not]; [destruct Htg as ((H & _) & _); exact H|reflexivity|reflexivity].
Qed.

(** the tail  (=?([NBRQ]))?([!?+#]* )?$ *)
Lemma deco_end_str d : deco_end d = deco_str d.
Proof. reflexivity. Qed.
Lemma deco_cases c : is_deco_ch c = true -> c = 33 \/ c = 63 \/ c = 43 \/ c = 35.
Proof. unfold is_deco_ch. lia. Qed.
Lemma prom_cases c : is_prom_ch c = true -> c = 78 \/ c = 66 \/ c = 82 \/ c = 81.
Proof. unfold is_prom_ch. lia. Qed.
Definition c_prom (c : N) : Prop := is_prom_ch c = true.
Definition prom_str (ue : bool) (g6 : option N) : str :=
  match g6 with Some e => (if ue then [61] else []) ++ [e] | None => [] end.

Lemma deco_tail_ok d : deco_str d = true -> tail_ok d.
Proof.
  destruct d as [|c d]; [exact (fun _ => I)|]. cbn [deco_str forallb]. intros H. apply andb_prop in H. destruct H as (H & _).
  apply deco_cases in H. destruct H as [-> | [-> | [-> | ->]]]; repeat split; reflexivity.
Qed.
Lemma prom_tail_ok P d : is_prom_ch P = true -> tail_ok (P :: d).
Proof. intros H. apply prom_cases in H. destruct H as [-> | [-> | [-> | ->]]]; repeat split; reflexivity. Qed.
Lemma eq_tail_ok d : tail_ok (61 :: d).
Proof. repeat split; reflexivity. Qed.

Lemma san_tail_deco d : deco_str d = true -> san_tail d = Some None.
Proof.
  intros Hd. unfold san_tail. destruct d as [|c r]; [reflexivity|].
  pose proof Hd as Hd'. cbn [deco_str forallb] in Hd'. apply andb_prop in Hd'. destruct Hd' as (Hc & _).
  assert (E1 : (c =? 61) = false) by (apply deco_cases in Hc; destruct Hc as [-> | [-> | [-> | ->]]]; reflexivity).
  assert (E2 : is_prom_ch c = false) by (apply deco_cases in Hc; destruct Hc as [-> | [-> | [-> | ->]]]; reflexivity).
  rewrite E1, E2. cbn [andb]. rewrite deco_end_str, Hd. destruct r; reflexivity.
Qed.
Lemma san_tail_eq P d : is_prom_ch P = true -> deco_str d = true -> san_tail (61 :: P :: d) = Some (Some P).
Proof. intros H Hd. unfold san_tail. rewrite H, deco_end_str, Hd. reflexivity. Qed.
Lemma san_tail_noeq P d : is_prom_ch P = true -> deco_str d = true -> san_tail (P :: d) = Some (Some P).
Proof.
  intros H Hd. unfold san_tail. rewrite H, deco_end_str, Hd.
  assert (E1 : (P =? 61) = false) by (apply prom_cases in H; destruct H as [-> | [-> | [-> | ->]]]; reflexivity).
  rewrite E1. destruct d; reflexivity.
Qed.
Lemma san_tail_print ue g6 d : opt_ok c_prom g6 -> deco_str d = true ->
  san_tail (prom_str ue g6 ++ d) = Some g6 /\ tail_ok (prom_str ue g6 ++ d).
Proof.
  intros H6 Hd. destruct g6 as [e|]; cbn [prom_str opt_ok app] in *.
  - destruct ue; cbn [app]; split; [apply san_tail_eq; assumption|apply eq_tail_ok|apply san_tail_noeq; assumption|apply prom_tail_ok; exact H6].
  - split; [apply san_tail_deco; exact Hd|apply deco_tail_ok; exact Hd].
Qed.
Lemma san_tail_inv s g6 : san_tail s = Some g6 ->
  exists ue d, opt_ok c_prom g6 /\ deco_str d = true /\ s = prom_str ue g6 ++ d.
Proof.
  unfold san_tail. intros H.
  destruct (match s with c :: e :: r => if (c =? 61) && is_prom_ch e && deco_end r then Some (Some e) else None | _ => None end)
    as [g|] eqn:E1; cbn [or_else] in H.
  { injection H as <-. destruct s as [|c [|e r]]; try discriminate E1.
    destruct ((c =? 61) && is_prom_ch e && deco_end r) eqn:E; [|discriminate E1]. injection E1 as <-.
    apply andb_prop in E. destruct E as (E & Ed). apply andb_prop in E. destruct E as (Ec & Ee). apply N.eqb_eq in Ec. subst c.
    exists true, r. repeat split; assumption. }
  destruct (match s with e :: r => if is_prom_ch e && deco_end r then Some (Some e) else None | [] => None end)
    as [g|] eqn:E2; cbn [or_else] in H.
  { injection H as <-. destruct s as [|e r]; try discriminate E2.
    destruct (is_prom_ch e && deco_end r) eqn:E; [|discriminate E2]. injection E2 as <-.
    apply andb_prop in E. destruct E as (Ee & Ed). exists false, r. repeat split; assumption. }
  destruct (deco_end s) eqn:E3; [|discriminate H]. injection H as <-. exists false, s. repeat split. exact E3.
Qed.

(** inversion: what a successful match says about the string *)
Lemma opt_eat_inv {A} cls s (k : option N -> str -> option A) x : opt_eat cls s k = Some x ->
  (exists c r, s = c :: r /\ cls c = true /\ k (Some c) r = Some x) \/ k None s = Some x.
Proof.
  destruct s as [|c r]; [right; assumption|]. unfold opt_eat. destruct (cls c) eqn:Ec; [|right; assumption].
  destruct (k (Some c) r) as [y|] eqn:Ek; [|right; assumption]. intros H. left. exists c, r. split; [reflexivity|]. split; [exact Ec|]. rewrite Ek. exact H.
Qed.
Lemma strip_prefix_inv pat : forall s r, strip_prefix pat s = Some r -> s = pat ++ r.
Proof.
  induction pat as [|pc pr IH]; intros s r H; [cbn in H; injection H as ->; reflexivity|].
  destruct s as [|c t]; [discriminate H|]. cbn [strip_prefix] in H. destruct (N.eqb_spec c pc) as [->|]; [|discriminate H].
  cbn [app]. f_equal. apply IH. exact H.
Qed.
Lemma san_g4_inv {A} s (k : san_target -> str -> option A) x : san_g4 s k = Some x ->
  exists tg r, s = tstr tg ++ r /\ tg_ok tg /\ k tg r = Some x.
Proof.
  unfold san_g4. intros H.
  destruct (match san_sq_alt s with Some (tg, r) => k tg r | None => None end) as [y|] eqn:E1; cbn [or_else] in H.
  { injection H as ->. destruct (san_sq_alt s) as [(tg, r)|] eqn:Es; [|discriminate E1].
    unfold san_sq_alt in Es. destruct s as [|a [|b t]]; try discriminate Es.
    - destruct (is_file_ch a); discriminate Es.
    - destruct (is_file_ch a) eqn:Ea; [|discriminate Es]. destruct (is_rank_ch b) eqn:Eb; [|discriminate Es].
      injection Es as <- <-. exists (TSq a b), t. split; [reflexivity|]. split; [|exact E1].
      split; [apply file_is_c_file; exact Ea|apply rank_is_c_rank; exact Eb]. }
  destruct (match strip_prefix [79; 45; 79; 45; 79] s with Some r => k TOOO r | None => None end) as [y|] eqn:E2; cbn [or_else] in H.
  { injection H as ->. destruct (strip_prefix [79; 45; 79; 45; 79] s) as [r|] eqn:Es; [|discriminate E2].
    apply strip_prefix_inv in Es. exists TOOO, r. repeat split; assumption. }
  destruct (strip_prefix [79; 45; 79] s) as [r|] eqn:Es; [|discriminate H].
  apply strip_prefix_inv in Es. exists TOO, r. repeat split; assumption.
Qed.

Lemma san_find_inv s f : san_find s = Some f ->
  exists X ue d,
    opt_ok c_piece (sf_piece f) /\ opt_ok c_file (sf_file f) /\ opt_ok c_rank (sf_rank f) /\ opt_ok c_x X /\
    tg_ok (sf_target f) /\ opt_ok c_prom (sf_prom f) /\ deco_str d = true /\
    s = o2l (sf_piece f) ++ o2l (sf_file f) ++ o2l (sf_rank f) ++ o2l X ++ tstr (sf_target f) ++ prom_str ue (sf_prom f) ++ d.
Proof.
  unfold san_find. rewrite san_at_K. intros H.
  assert (H1 : exists g1 s1, opt_ok c_piece g1 /\ s = o2l g1 ++ s1 /\ K1 g1 s1 = Some f).
  { apply opt_eat_inv in H. destruct H as [(c & r & -> & Hc & H')|H']; [exists (Some c), r|exists None, s]; repeat split; assumption. }
  destruct H1 as (g1 & s1 & O1 & -> & H1). unfold K1 in H1.
  assert (H2 : exists g2 s2, opt_ok c_file g2 /\ s1 = o2l g2 ++ s2 /\ K2 g1 g2 s2 = Some f).
  { apply opt_eat_inv in H1. destruct H1 as [(c & r & -> & Hc & H')|H']; 
      [exists (Some c), r; split; [apply file_is_c_file; exact Hc|split; [reflexivity|exact H']]
      |exists None, s1; split; [exact I|split; [reflexivity|exact H']]]. }
  destruct H2 as (g2 & s2 & O2 & -> & H2). unfold K2 in H2.
  assert (H3 : exists g3 s3, opt_ok c_rank g3 /\ s2 = o2l g3 ++ s3 /\ K3 g1 g2 g3 s3 = Some f).
  { apply opt_eat_inv in H2. destruct H2 as [(c & r & -> & Hc & H')|H']; 
      [exists (Some c), r; split; [apply rank_is_c_rank; exact Hc|split; [reflexivity|exact H']]
      |exists None, s2; split; [exact I|split; [reflexivity|exact H']]]. }
  destruct H3 as (g3 & s3 & O3 & -> & H3). unfold K3 in H3.
  assert (H4 : exists X s4, opt_ok c_x X /\ s3 = o2l X ++ s4 /\ K4 g1 g2 g3 s4 = Some f).
  { apply opt_eat_inv in H3. destruct H3 as [(c & r & -> & Hc & H')|H']; 
      [exists (Some c), r; split; [apply x_is_c_x'; exact Hc|split; [reflexivity|exact H']]
      |exists None, s3; split; [exact I|split; [reflexivity|exact H']]]. }
  destruct H4 as (X & s4 & O4 & -> & H4). unfold K4 in H4.
  apply san_g4_inv in H4. destruct H4 as (tg & s5 & -> & Otg & H5).
  destruct (san_tail s5) as [g6|] eqn:E6; [|discriminate H5]. injection H5 as <-.
  apply san_tail_inv in E6. destruct E6 as (ue & d & O6 & Hd & ->).
  exists X, ue, d. cbn [sf_piece sf_file sf_rank sf_target sf_prom]. repeat split; assumption.
Qed.

(* and the converse: printing the groups and parsing gives the groups back *)
Lemma san_find_print g1 g2 g3 X tg ue g6 d :
  opt_ok c_piece g1 -> opt_ok c_file g2 -> opt_ok c_rank g3 -> opt_ok c_x X -> tg_ok tg -> opt_ok c_prom g6 -> deco_str d = true ->
  san_find (o2l g1 ++ o2l g2 ++ o2l g3 ++ o2l X ++ tstr tg ++ prom_str ue g6 ++ d) = Some (mk_sf g1 g2 g3 tg g6).
Proof.
  intros H1 H2 H3 HX Htg H6 Hd. destruct (san_tail_print ue g6 d H6 Hd) as (Ht & Hok).
  unfold san_find. apply san_at_shape; assumption.
Qed.

Lemma san_find_at s f : san_at s = Some f -> san_find s = Some f.
Proof. exact (fun H => H). Qed.
Lemma san_find_castle tg d : tg = TOO \/ tg = TOOO -> deco_str d = true ->
  san_find (tstr tg ++ d) = Some (mk_sf None None None tg None).
Proof.
  intros Htg Hd. apply (san_find_print None None None None tg false None d); try exact I; try exact Hd.
  destruct Htg as [-> | ->]; exact I.
Qed.

(** ** F. Which legal moves fit the matched groups *)
Lemma san_fits_noncastle p s f m : mtype m <> 3 -> san_fits p s f m = san_normal_fits p f m.
Proof. intros H. unfold san_fits, CASTLING. destruct (N.eqb_spec (mtype m) 3); [contradiction|reflexivity]. Qed.
Lemma san_fits_sq p s f m a b : sf_target f = TSq a b -> san_fits p s f m = true -> san_normal_fits p f m = true.
Proof.
  intros Ht. unfold san_fits. destruct (mtype m =? CASTLING); [|auto].
  destruct ((mto m =? 6) || (mto m =? 62)); [rewrite Ht; cbn [target_eqb andb]; discriminate|].
  destruct ((mto m =? 2) || (mto m =? 58)); [rewrite Ht; cbn [target_eqb andb]; discriminate|discriminate].
Qed.

Definition nf_spec (p : pos) (g1 g2 g3 : option N) (t : N) (g6 : option N) (m' : mv) : Prop :=
  mto m' = t /\
  match g1 with None => type_of (piece_at p (mfrom m')) = PAWN
              | Some L => pt_char (type_of (piece_at p (mfrom m'))) = L end /\
  match g2 with None => True | Some c => 97 + file_of (mfrom m') = c end /\
  match g3 with None => True | Some c => 49 + rank_of (mfrom m') = c end /\
  match g6 with None => mtype m' <> 1 | Some c => mtype m' = 1 /\ pt_char (mprom m') = c end.

Lemma nf_iff p g1 g2 g3 t g6 m' : t < 64 -> mto m' < 64 ->
  san_normal_fits p (mk_sf g1 g2 g3 (TSq (file_ch t) (rank_ch t)) g6) m' = true <-> nf_spec p g1 g2 g3 t g6 m'.
Proof.
  intros Ht Ht'. unfold san_normal_fits, nf_spec. cbn [sf_piece sf_file sf_rank sf_target sf_prom].
  rewrite square_string_valid by exact Ht'. repeat rewrite andb_true_iff.
  assert (E1 : str_eqb (sq_name (mto m')) [file_ch t; rank_ch t] = true <-> mto m' = t).
  { split; [intros H; apply str_eqb_eq in H; apply sq_name_inj; exact H|intros ->; apply str_eqb_refl]. }
  assert (E2 : negb ((is_none g1 || negb (opt_is g1 (pt_char (type_of (piece_at p (mfrom m'))))))
                     && (negb (is_none g1) || negb (type_of (piece_at p (mfrom m')) =? PAWN))) = true
               <-> match g1 with None => type_of (piece_at p (mfrom m')) = PAWN
                   | Some L => pt_char (type_of (piece_at p (mfrom m'))) = L end).
  { destruct g1 as [L|]; cbn [is_none opt_is negb orb andb].
    - rewrite andb_true_r, negb_involutive, N.eqb_eq. split; congruence.
    - rewrite negb_involutive, N.eqb_eq. tauto. }
  assert (E3 : forall g v, is_none g || opt_is g v = true <-> match g with None => True | Some c => v = c end).
  { intros [c|] v; cbn [is_none opt_is orb]; [rewrite N.eqb_eq; split; congruence|tauto]. }
  assert (E6 : negb ((negb (is_none g6) && (negb (mtype m' =? PROMOTION) || negb (opt_is g6 (pt_char (mprom m')))))
                     || (is_none g6 && (mtype m' =? PROMOTION))) = true
               <-> match g6 with None => mtype m' <> 1 | Some c => mtype m' = 1 /\ pt_char (mprom m') = c end).
  { unfold PROMOTION. destruct g6 as [c|]; cbn [is_none opt_is negb orb andb].
    - rewrite orb_false_r, negb_orb, !negb_involutive, andb_true_iff, !N.eqb_eq. split; intros (A & B); split; congruence.
    - rewrite negb_true_iff, N.eqb_neq. tauto. }
  rewrite E1, E2, !E3, E6. tauto.
Qed.

(* legal positions: what we use *)
Lemma legal_pos_facts p : legal_pos p = true ->
  length (brd p) = 64%nat /\
  (forall pc, In pc (brd p) -> In pc [0;1;2;3;4;5;6;9;10;11;12;13;14]) /\
  stm p < 2 /\ ep_ok p = true.
Proof.
  unfold legal_pos. repeat rewrite andb_true_iff.
  intros (((((((((L1 & L2) & L3) & L4) & L5) & L6) & L7) & L8) & L9) & L10).
  split; [apply Nat.eqb_eq; exact L1|]. split; [|split; [apply N.ltb_lt; exact L5|exact L10]].
  intros pc Hin. rewrite forallb_forall in L2. specialize (L2 pc Hin). apply existsb_exists in L2.
  destruct L2 as (x & Hx & E). apply N.eqb_eq in E. subst. exact Hx.
Qed.

Lemma own_type_valid p s : legal_pos p = true -> s < 64 -> own p s -> 1 <= type_of (piece_at p s) <= 6.
Proof.
  intros Hl Hs (Hne & _). destruct (legal_pos_facts p Hl) as (Hlen & Hval & _).
  assert (Hin : In (piece_at p s) (brd p)).
  { unfold piece_at, at_. apply nth_In. lia. }
  apply Hval in Hin. unfold type_of. cbn [In] in Hin.
  repeat (destruct Hin as [E|Hin]; [rewrite <- E in *; first [exfalso; apply Hne; reflexivity | vm_compute; split; discriminate]|]). destruct Hin.
Qed.

Lemma ep_ok_facts p : ep_ok p = true -> stm p < 2 -> ep p < 64 ->
  (stm p = 0 /\ ep p / 8 = 5 /\ exists q, q + 8 = ep p /\ piece_at p q = mk_piece 1 PAWN) \/
  (stm p = 1 /\ ep p / 8 = 2 /\ exists q, q = ep p + 8 /\ piece_at p q = mk_piece 0 PAWN).
Proof.
  unfold ep_ok. cbv zeta. intros H Hc He. destruct (N.eqb_spec (ep p) 64) as [E|_]; [lia|].
  repeat rewrite andb_true_iff in H. destruct H as (((Hr & _) & Hq) & _).
  destruct (step (fwd (flip (stm p))) (ep p)) as [q|] eqn:Eq; [|discriminate Hq].
  apply N.eqb_eq in Hq, Hr. apply fwd_char in Eq; [|exact He]. rewrite rank_of_div in Hr.
  unfold flip, WHITE in *.
  assert (Hc' : stm p = 0 \/ stm p = 1) by lia. destruct Hc' as [C|C]; rewrite C in *.
  - left. split; [reflexivity|]. split; [exact Hr|]. exists q. split; [cbn in Eq; lia|exact Hq].
  - right. split; [reflexivity|]. split; [exact Hr|]. exists q. split; [cbn in Eq; lia|exact Hq].
Qed.

(** ** G. Uniqueness of the fitting move *)
Ltac geo :=
  repeat match goal with
         | H : step (fwd _) ?a = Some ?b |- _ =>
             let Hb := fresh "Hb" in assert (Hb : b < 64) by (eapply step_lt; exact H);
             apply fwd_char in H; [|assumption]
         | H : In _ (pawn_attack_targets _ _) |- _ => apply pat_char in H; [|assumption]
         end.

Lemma colour_of_mk c t : t < 8 -> colour_of (mk_piece c t) = c.
Proof. unfold colour_of, mk_piece. lia. Qed.

Lemma pseudo_pawn_class p m : In m (pseudo p) -> mover_type p m = PAWN -> cls_pawn p m.
Proof.
  intros H Hty. apply pseudo_class in H. destruct H as (_ & _ & _ & [C|[C|C]]); [| |exact C]; exfalso.
  - destruct C as (_ & _ & C & _). unfold mover_type in Hty. rewrite C, type_of_king in Hty. discriminate Hty.
  - destruct C as (_ & _ & C & _). contradiction.
Qed.

Lemma is_capture_false p m : piece_at p (mto m) = 0 -> mtype m <> 2 -> is_capture p m = false.
Proof. intros H1 H2. unfold is_capture, ENPASSANT. rewrite H1. destruct (N.eqb_spec (mtype m) 2); [contradiction|reflexivity]. Qed.
Lemma enemy_occupied b c t : enemy b c t = true -> at_ b t <> 0.
Proof. unfold enemy. cbv zeta. destruct (N.eqb_spec (at_ b t) 0); [discriminate|auto]. Qed.

(* a pawn move in SAN form (no piece letter; file of origin iff capture; promotion piece iff
   promotion) fits exactly one pseudo-legal move *)
Lemma pawn_unique p m m' :
  legal_pos p = true -> In m (pseudo p) -> In m' (pseudo p) -> mover_type p m = PAWN ->
  nf_spec p None (if is_capture p m then Some (file_ch (mfrom m)) else None) None (mto m)
          (if mtype m =? 1 then Some (pt_letter (mprom m)) else None) m' ->
  m' = m.
Proof.
  intros Hl Hm Hm' Hty (Hto & Hty' & Hfile & _ & Hprom).
  destruct (legal_pos_facts p Hl) as (_ & _ & Hc & Hep).
  pose proof (pseudo_class p m Hm) as (Hs & Ht & Hown & _).
  pose proof (pseudo_class p m' Hm') as (Hs' & Ht' & Hown' & _).
  pose proof (pseudo_pawn_class p m Hm Hty) as (_ & K).
  pose proof (pseudo_pawn_class p m' Hm' Hty') as (_ & K').
  pose proof (pseudo_prom_range p m Hm) as Hr. pose proof (pseudo_prom_range p m' Hm') as Hr'.
  cbv zeta in K, K'. rewrite Hto in K'.
  unfold own, piece_at in Hown, Hown'. destruct Hown as (Hne & Hcol). destruct Hown' as (Hne' & Hcol').
  (* the en-passant square of a legal position *)
  assert (HepF : mto m = ep p ->
            (stm p = 0 /\ mto m / 8 = 5 /\ exists q, q + 8 = mto m /\ at_ (brd p) q = mk_piece 1 PAWN) \/
            (stm p = 1 /\ mto m / 8 = 2 /\ exists q, q = mto m + 8 /\ at_ (brd p) q = mk_piece 0 PAWN)).
  { intros E. rewrite E in *. apply ep_ok_facts; assumption. }
  (* (B) promotion-ness agrees *)
  assert (HB : mtype m' = 1 <-> mtype m = 1).
  { destruct (N.eqb_spec (mtype m) 1) as [Hy|Hy]; [|tauto].
    split; [auto|intros _].
    assert (Hlast : rank_of (mto m) = last_rank (stm p)).
    { unfold promo_kind in K. destruct K as [(Kk & _)|[(Kk & _)|[(Kk & _)|(Kk & _)]]]; try congruence;
        destruct Kk as [(Kk & _)|(_ & _ & Kk)]; congruence. }
    unfold promo_kind in K'. rewrite Hto in K'.
    destruct K' as [(Kk & _)|[(Y & _ & _ & R & u & S1 & S2 & _)|[(Kk & _)|(Y & _ & _ & _ & X & _)]]].
    - destruct Kk as [(_ & _ & Kk)|(Kk & _)]; [contradiction|exact Kk].
    - exfalso. geo. rewrite rank_of_div in *. unfold last_rank, start_rank, WHITE in *.
      destruct (N.eqb_spec (stm p) 0); lia.
    - destruct Kk as [(_ & _ & Kk)|(Kk & _)]; [contradiction|exact Kk].
    - exfalso. specialize (HepF X). rewrite rank_of_div in *. unfold last_rank, WHITE in *.
      destruct (N.eqb_spec (stm p) 0); lia. }
  (* (C) the promotion piece agrees *)
  assert (HC : mtype m' = 1 -> mprom m' = mprom m).
  { intros Hy'. assert (Hy : mtype m = 1) by tauto. rewrite Hy in Hprom. cbn [N.eqb Pos.eqb] in Hprom. destruct Hprom as (_ & Hprom).
    rewrite pt_letter_char36 in Hprom by auto. apply pt_char_inj36; auto. }
  (* (A) same origin *)
  assert (HA : mfrom m' = mfrom m).
  { destruct K as [(Kk & E0 & S)|[(Y & _ & E0 & R & u & S1 & S2 & Eu)|[(Kk & I & En)|(Y & _ & I & En & X & E0)]]].
    - (* m is a single push: not a capture *)
      assert (Hnc : is_capture p m = false).
      { apply is_capture_false; [exact E0|]. destruct Kk as [(Kk & _)|(Kk & _)]; congruence. }
      destruct K' as [(_ & _ & S')|[(_ & _ & _ & _ & u' & S1' & S2' & Eu')|[(_ & _ & En')|(_ & _ & I' & _ & X' & _)]]].
      + geo. lia.
      + exfalso. geo. assert (u' = mfrom m) by lia. subst u'. contradiction.
      + exfalso. apply enemy_occupied in En'. contradiction.
      + exfalso. specialize (HepF X'). geo.
        destruct HepF as [(C0 & _ & q & Hq & Hpc)|(C1 & _ & q & Hq & Hpc)].
        * assert (Eq : q = mfrom m) by lia. rewrite Eq in Hpc. rewrite Hpc in Hcol. rewrite colour_of_mk in Hcol by (vm_compute; reflexivity). lia.
        * assert (Eq : q = mfrom m) by lia. rewrite Eq in Hpc. rewrite Hpc in Hcol. rewrite colour_of_mk in Hcol by (vm_compute; reflexivity). lia.
    - (* m is a double push *)
      destruct K' as [(_ & _ & S')|[(_ & _ & _ & _ & u' & S1' & S2' & Eu')|[(_ & _ & En')|(_ & _ & I' & _ & X' & _)]]].
      + exfalso. geo. assert (u = mfrom m') by lia. subst u. contradiction.
      + geo. lia.
      + exfalso. apply enemy_occupied in En'. contradiction.
      + exfalso. specialize (HepF X'). geo. rewrite rank_of_div in R. unfold start_rank, WHITE in R.
        destruct (N.eqb_spec (stm p) 0); lia.
    - (* m is a capture: the origin file is given *)
      assert (Hcap : is_capture p m = true).
      { unfold is_capture. apply enemy_occupied in En. unfold piece_at. destruct (N.eqb_spec (at_ (brd p) (mto m)) 0); [contradiction|reflexivity]. }
      rewrite Hcap in Hfile. unfold file_ch in Hfile. rewrite !file_of_mod in Hfile.
      clear HepF HB HC Hr Hr' Hprom Hep Hl Hm Hm' Hne Hne' Hcol Hcol' Hty Hty';
      destruct K' as [(_ & _ & S')|[(_ & _ & _ & _ & u' & S1' & S2' & _)|[(_ & I' & _)|(_ & _ & I' & _)]]]; geo; lia.
    - (* m is an en-passant capture *)
      assert (Hcap : is_capture p m = true).
      { unfold is_capture, ENPASSANT. rewrite Y. apply orb_true_r. }
      rewrite Hcap in Hfile. unfold file_ch in Hfile. rewrite !file_of_mod in Hfile.
      clear HepF HB HC Hr Hr' Hprom Hep Hl Hm Hm' Hne Hne' Hcol Hcol' Hty Hty';
      destruct K' as [(_ & _ & S')|[(_ & _ & _ & _ & u' & S1' & S2' & _)|[(_ & I' & _)|(_ & _ & I' & _)]]]; geo; lia. }
  apply (pseudo_key_inj p); assumption.
Qed.

Lemma pt_char_letter_inj ty a : ty = 1 \/ ty = 3 \/ ty = 4 \/ ty = 5 \/ ty = 6 -> pt_char a = pt_letter ty -> a = ty.
Proof.
  intros Hty. unfold pt_char.
  destruct (N.eqb_spec a 1) as [->|]; [destruct Hty as [-> | [-> | [-> | [-> | ->]]]]; vm_compute; intros H; try reflexivity; discriminate H|].
  destruct (N.eqb_spec a 2) as [->|]; [destruct Hty as [-> | [-> | [-> | [-> | ->]]]]; vm_compute; intros H; try reflexivity; discriminate H|].
  destruct (N.eqb_spec a 3) as [->|]; [destruct Hty as [-> | [-> | [-> | [-> | ->]]]]; vm_compute; intros H; try reflexivity; discriminate H|].
  destruct (N.eqb_spec a 4) as [->|]; [destruct Hty as [-> | [-> | [-> | [-> | ->]]]]; vm_compute; intros H; try reflexivity; discriminate H|].
  destruct (N.eqb_spec a 5) as [->|]; [destruct Hty as [-> | [-> | [-> | [-> | ->]]]]; vm_compute; intros H; try reflexivity; discriminate H|].
  destruct (N.eqb_spec a 6) as [->|]; [destruct Hty as [-> | [-> | [-> | [-> | ->]]]]; vm_compute; intros H; try reflexivity; discriminate H|].
  destruct Hty as [-> | [-> | [-> | [-> | ->]]]]; vm_compute; intros H; discriminate H.
Qed.

(* minimal disambiguation as two optional characters *)
Definition disamb_fields (p : pos) (m : mv) : option N * option N :=
  let r := rivals p m in
  match r with
  | [] => (None, None)
  | _ => if negb (existsb (fun m' => file_of (mfrom m') =? file_of (mfrom m)) r) then (Some (file_ch (mfrom m)), None)
         else if negb (existsb (fun m' => rank_of (mfrom m') =? rank_of (mfrom m)) r) then (None, Some (rank_ch (mfrom m)))
         else (Some (file_ch (mfrom m)), Some (rank_ch (mfrom m)))
  end.
Lemma disamb_as_fields p m : disamb p m = o2l (fst (disamb_fields p m)) ++ o2l (snd (disamb_fields p m)).
Proof.
  unfold disamb, disamb_fields. cbv zeta. destruct (rivals p m); [reflexivity|].
  destruct (negb _); [reflexivity|]. destruct (negb _); reflexivity.
Qed.

Lemma piece_unique p m m' :
  In m (legal p) -> In m' (legal p) ->
  (let ty := mover_type p m in ty = 1 \/ ty = 3 \/ ty = 4 \/ ty = 5 \/ ty = 6) ->
  mtype m <> 1 ->
  nf_spec p (Some (pt_letter (mover_type p m))) (fst (disamb_fields p m)) (snd (disamb_fields p m)) (mto m) None m' ->
  m' = m.
Proof.
  intros Hm Hm' Hty Hnp (Hto & Hty' & Hfile & Hrank & Hprom). cbv zeta in Hty.
  apply pt_char_letter_inj in Hty'; [|exact Hty].
  destruct (N.eq_dec (mfrom m') (mfrom m)) as [Ef|Ef].
  { apply (pseudo_key_inj p); try (apply legal_in_pseudo; assumption); try assumption; tauto. }
  exfalso.
  assert (Hriv : In m' (rivals p m)).
  { unfold rivals. apply filter_In. split; [exact Hm'|]. unfold mover_type.
    rewrite Hto, Hty'. rewrite !N.eqb_refl. cbn [andb]. apply negb_true_iff. apply N.eqb_neq. exact Ef. }
  unfold disamb_fields in Hfile, Hrank. cbv zeta in Hfile, Hrank.
  destruct (rivals p m) as [|r0 rs] eqn:Er; [destruct Hriv|]. rewrite <- Er in *. clear Er.
  destruct (existsb (fun m'0 => file_of (mfrom m'0) =? file_of (mfrom m)) (rivals p m)) eqn:E1; cbn [negb fst snd] in Hfile, Hrank.
  - destruct (existsb (fun m'0 => rank_of (mfrom m'0) =? rank_of (mfrom m)) (rivals p m)) eqn:E2; cbn [negb fst snd] in Hfile, Hrank.
    + unfold file_ch, rank_ch in *. pose proof (sq_of_file_rank (mfrom m)). pose proof (sq_of_file_rank (mfrom m')). lia.
    + assert (existsb (fun m'0 => rank_of (mfrom m'0) =? rank_of (mfrom m)) (rivals p m) = true).
      { apply existsb_exists. exists m'. split; [exact Hriv|]. unfold rank_ch in Hrank. apply N.eqb_eq. lia. }
      congruence.
  - assert (existsb (fun m'0 => file_of (mfrom m'0) =? file_of (mfrom m)) (rivals p m) = true).
    { apply existsb_exists. exists m'. split; [exact Hriv|]. unfold file_ch in Hfile. apply N.eqb_eq. lia. }
    congruence.
Qed.

(** ** H. SAN round trip *)
Lemma pseudo_castle_class p m : In m (pseudo p) -> mtype m = 3 -> cls_castle p m.
Proof.
  intros H Hty. apply pseudo_class in H. destruct H as (_ & _ & _ & [C|[C|C]]); [exact C| |]; exfalso.
  - destruct C as (C & _). congruence.
  - destruct C as (_ & C). cbv zeta in C. unfold promo_kind in C.
    destruct C as [(K & _)|[(K & _)|[(K & _)|(K & _)]]]; try congruence; destruct K as [(K & _)|(K & _)]; congruence.
Qed.
Lemma pseudo_simple_class p m : In m (pseudo p) -> mtype m <> 3 -> mover_type p m <> PAWN -> cls_simple p m.
Proof.
  intros H Hty Hmt. apply pseudo_class in H. destruct H as (_ & _ & _ & [C|[C|C]]); [|exact C|]; exfalso.
  - destruct C as (C & _). congruence.
  - destruct C as (C & _). contradiction.
Qed.

Lemma disamb_fields_ok p m : mfrom m < 64 ->
  opt_ok c_file (fst (disamb_fields p m)) /\ opt_ok c_rank (snd (disamb_fields p m)).
Proof.
  intros Hs. unfold disamb_fields. cbv zeta.
  pose proof (file_is_c_file _ (file_ch_class (mfrom m))) as Hf.
  pose proof (rank_is_c_rank _ (rank_ch_class (mfrom m) Hs)) as Hr.
  destruct (rivals p m); [split; exact I|]. destruct (negb _); [split; [exact Hf|exact I]|].
  destruct (negb _); split; try exact I; assumption.
Qed.

Lemma piece_letter_class ty : ty = 1 \/ ty = 3 \/ ty = 4 \/ ty = 5 \/ ty = 6 -> c_piece (pt_letter ty).
Proof. intros [-> | [-> | [-> | [-> | ->]]]]; reflexivity. Qed.

(* the heart: the matched groups of the printed move select exactly this move *)
Lemma san_body_selects p m usex useeq d :
  legal_pos p = true -> In m (legal p) -> deco_str d = true ->
  exists f, san_find (san_body usex useeq p m ++ d) = Some f /\ san_fits p (san_body usex useeq p m ++ d) f m = true /\
            forall m', In m' (legal p) -> san_fits p (san_body usex useeq p m ++ d) f m' = true -> m' = m.
Proof.
  intros Hl Hm Hd. pose proof (legal_in_pseudo p m Hm) as Hps.
  pose proof (pseudo_class p m Hps) as (Hs & Ht & Hown & _).
  unfold san_body. unfold CASTLING. destruct (N.eqb_spec (mtype m) 3) as [Hc|Hnc].
  - (* castling *)
    pose proof (pseudo_castle_class p m Hps Hc) as (_ & Hpr & _ & Hsq).
    assert (Huniq : forall tg, (tg = TOO /\ (mto m = 6 \/ mto m = 62)) \/ (tg = TOOO /\ (mto m = 2 \/ mto m = 58)) ->
              san_fits p (tstr tg ++ d) (mk_sf None None None tg None) m = true /\
              forall m', In m' (legal p) -> san_fits p (tstr tg ++ d) (mk_sf None None None tg None) m' = true -> m' = m).
    { intros tg Htg. split.
      - unfold san_fits, CASTLING. rewrite Hc. cbn [N.eqb Pos.eqb].
        destruct Htg as [(-> & [E|E])|(-> & [E|E])]; rewrite E; reflexivity.
      - intros m' Hm' Hfit. pose proof (legal_in_pseudo p m' Hm') as Hps'.
        unfold san_fits, CASTLING in Hfit. destruct (N.eqb_spec (mtype m') 3) as [Hc'|Hnc'].
        + pose proof (pseudo_castle_class p m' Hps' Hc') as (_ & Hpr' & _ & Hsq').
          assert (Hto : mto m' = mto m).
          { destruct Htg as [(-> & E)|(-> & E)]; cbn [sf_target] in Hfit;
              destruct Hsq as [(C0 & _ & Q)|(C1 & _ & Q)], Hsq' as [(C0' & _ & Q')|(C1' & _ & Q')]; try contradiction;
              destruct Q as [Q|Q], Q' as [Q'|Q']; rewrite ?Q, ?Q' in *; try reflexivity; try lia;
              vm_compute in Hfit; discriminate Hfit. }
          apply mv_eq; try congruence. destruct Hsq as [(C0 & F & _)|(C1 & F & _)], Hsq' as [(C0' & F' & _)|(C1' & F' & _)]; congruence.
        + unfold san_normal_fits in Hfit. cbn [sf_target] in Hfit.
          destruct Htg as [(-> & _)|(-> & _)]; discriminate Hfit. }
    destruct (N.eqb_spec (file_of (mto m)) 6) as [E6|E6].
    + exists (mk_sf None None None TOO None). split; [apply (san_find_castle TOO); [left; reflexivity|exact Hd]|].
      apply Huniq. left. split; [reflexivity|]. rewrite file_of_mod in E6. lia.
    + exists (mk_sf None None None TOOO None). split; [apply (san_find_castle TOOO); [right; reflexivity|exact Hd]|].
      apply Huniq. right. split; [reflexivity|]. rewrite file_of_mod in E6. lia.
  - cbv zeta. destruct (N.eqb_spec (mover_type p m) PAWN) as [Hp|Hnp].
    + (* pawn *)
      pose proof (pseudo_prom_range p m Hps) as Hpr.
      set (g2 := if is_capture p m then Some (file_ch (mfrom m)) else None).
      set (X := if is_capture p m && usex then Some 120 else None).
      set (g6 := if mtype m =? 1 then Some (pt_letter (mprom m)) else None).
      set (T := (if mtype m =? PROMOTION then (if useeq then [61] else []) ++ [pt_letter (mprom m)] else []) ++ d).
      exists (mk_sf None g2 None (TSq (file_ch (mto m)) (rank_ch (mto m))) g6).
      split; [|split].
      * apply san_find_at.
        replace (((if is_capture p m then [file_ch (mfrom m)] else []) ++ (if is_capture p m && usex then [120] else []) ++
                  sq_name (mto m) ++ (if mtype m =? PROMOTION then (if useeq then [61] else []) ++ [pt_letter (mprom m)] else [])) ++ d)
          with (o2l None ++ o2l g2 ++ o2l None ++ o2l X ++ [file_ch (mto m); rank_ch (mto m)] ++ T).
        2:{ unfold g2, X, T, sq_name. destruct (is_capture p m), usex; cbn [andb o2l app]; rewrite <- ?app_assoc; reflexivity. }
        assert (Hg6 : san_tail T = Some g6 /\ tail_ok T).
        { unfold T, g6, PROMOTION. destruct (N.eqb_spec (mtype m) 1) as [Hy|Hy].
          - specialize (Hpr Hy). assert (Hpc : is_prom_ch (pt_letter (mprom m)) = true) by (rewrite pt_letter_char36 by exact Hpr; apply pt_char36_prom; exact Hpr).
            destruct useeq; cbn [app]; [split; [apply san_tail_eq; assumption|apply eq_tail_ok]|split; [apply san_tail_noeq; assumption|apply prom_tail_ok; exact Hpc]].
          - cbn [app]. split; [apply san_tail_deco; exact Hd|apply deco_tail_ok; exact Hd]. }
        destruct Hg6 as (H6 & HT).
        apply (san_at_shape None g2 None X (TSq (file_ch (mto m)) (rank_ch (mto m))) T g6); try exact I; try exact HT; try exact H6.
        -- unfold g2. destruct (is_capture p m); [apply file_is_c_file, file_ch_class|exact I].
        -- unfold X. destruct (is_capture p m && usex); [exact x_is_c_x|exact I].
        -- split; [apply file_is_c_file, file_ch_class|apply rank_is_c_rank, rank_ch_class; exact Ht].
      * rewrite san_fits_noncastle by exact Hnc. apply nf_iff; [exact Ht|exact Ht|]. unfold nf_spec. split; [reflexivity|].
        split; [exact Hp|]. split; [unfold g2; destruct (is_capture p m); [reflexivity|exact I]|]. split; [exact I|].
        unfold g6. destruct (N.eqb_spec (mtype m) 1) as [Hy|Hy]; [split; [exact Hy|symmetry; apply pt_letter_char36; auto]|exact Hy].
      * intros m' Hm' Hfit. pose proof (legal_in_pseudo p m' Hm') as Hps'.
        pose proof (pseudo_class p m' Hps') as (_ & Ht' & _).
        apply san_fits_sq with (a := file_ch (mto m)) (b := rank_ch (mto m)) in Hfit; [|reflexivity].
        apply nf_iff in Hfit; [|exact Ht|exact Ht'].
        apply (pawn_unique p m m' Hl Hps Hps' Hp). exact Hfit.
    + (* piece *)
      pose proof (own_type_valid p (mfrom m) Hl Hs Hown) as Hrange. fold (mover_type p m) in Hrange.
      assert (Hty : mover_type p m = 1 \/ mover_type p m = 3 \/ mover_type p m = 4 \/ mover_type p m = 5 \/ mover_type p m = 6)
        by (unfold PAWN in Hnp; lia).
      pose proof (pseudo_simple_class p m Hps Hnc Hnp) as (Hy0 & _).
      destruct (disamb_fields_ok p m Hs) as (Hdf & Hdr).
      set (X := if is_capture p m && usex then Some 120 else None).
      exists (mk_sf (Some (pt_letter (mover_type p m))) (fst (disamb_fields p m)) (snd (disamb_fields p m))
                    (TSq (file_ch (mto m)) (rank_ch (mto m))) None).
      split; [|split].
      * apply san_find_at. rewrite disamb_as_fields.
        replace (([pt_letter (mover_type p m)] ++ (o2l (fst (disamb_fields p m)) ++ o2l (snd (disamb_fields p m))) ++
                  (if is_capture p m && usex then [120] else []) ++ sq_name (mto m)) ++ d)
          with (o2l (Some (pt_letter (mover_type p m))) ++ o2l (fst (disamb_fields p m)) ++ o2l (snd (disamb_fields p m)) ++
                o2l X ++ [file_ch (mto m); rank_ch (mto m)] ++ d).
        2:{ unfold X, sq_name. destruct (is_capture p m && usex); cbn [o2l app]; rewrite <- ?app_assoc; cbn [app]; rewrite <- ?app_assoc; reflexivity. }
        apply (san_at_shape (Some (pt_letter (mover_type p m))) (fst (disamb_fields p m)) (snd (disamb_fields p m)) X
                            (TSq (file_ch (mto m)) (rank_ch (mto m))) d None); try assumption.
        -- apply piece_letter_class. exact Hty.
        -- unfold X. destruct (is_capture p m && usex); [exact x_is_c_x|exact I].
        -- split; [apply file_is_c_file, file_ch_class|apply rank_is_c_rank, rank_ch_class; exact Ht].
        -- apply deco_tail_ok; exact Hd.
        -- apply san_tail_deco; exact Hd.
      * rewrite san_fits_noncastle by exact Hnc. apply nf_iff; [exact Ht|exact Ht|]. unfold nf_spec. split; [reflexivity|].
        split; [fold (mover_type p m); destruct Hty as [E|[E|[E|[E|E]]]]; rewrite E; reflexivity|].
        unfold disamb_fields. cbv zeta. split; [|split; [|congruence]].
        -- destruct (rivals p m); [exact I|]. destruct (negb _); [reflexivity|]. destruct (negb _); [exact I|reflexivity].
        -- destruct (rivals p m); [exact I|]. destruct (negb _); [exact I|]. destruct (negb _); reflexivity.
      * intros m' Hm' Hfit. pose proof (legal_in_pseudo p m' Hm') as Hps'.
        pose proof (pseudo_class p m' Hps') as (_ & Ht' & _).
        apply san_fits_sq with (a := file_ch (mto m)) (b := rank_ch (mto m)) in Hfit; [|reflexivity].
        apply nf_iff in Hfit; [|exact Ht|exact Ht'].
        apply (piece_unique p m m' Hm Hm' Hty); [congruence|exact Hfit].
Qed.

(** san_roundtrip (strong form): for every legal position, every legal move, both spellings
    of a capture (with / without "x"), both spellings of a promotion (with / without "="),
    and EVERY decoration string over ! ? + #, the engine's SAN parser returns exactly the move. *)
Theorem san_roundtrip_eq : forall p m, legal_pos p = true -> In m (legal p) ->
  forall usex useeq d, deco_str d = true -> from_san p (san_body usex useeq p m ++ d) = Some m.
Proof.
  intros p m Hl Hm usex useeq d Hd.
  destruct (san_body_selects p m usex useeq d Hl Hm Hd) as (f & Hfind & Hself & Huniq).
  unfold from_san. rewrite Hfind.
  rewrite (filter_unique (san_fits p (san_body usex useeq p m ++ d) f) (legal p) m (legal_NoDup p) Hm Hself Huniq). reflexivity.
Qed.

Theorem san_roundtrip : forall p m, legal_pos p = true -> In m (legal p) ->
  forall d, deco_str d = true ->
  exists m', from_san p (san_str_nodeco p m ++ d) = Some m' /\ code m' = code m.
Proof.
  intros p m Hl Hm d Hd. exists m. split; [|reflexivity]. apply san_roundtrip_eq; assumption.
Qed.

(* the standard SAN with its own check / mate sign *)
Corollary san_roundtrip_std : forall p m, legal_pos p = true -> In m (legal p) -> from_san p (san_str p m) = Some m.
Proof.
  intros p m Hl Hm. unfold san_str, san_str_nodeco. apply san_roundtrip_eq; try assumption.
  unfold san_suffix. destruct (gives_check p m); [|reflexivity]. destruct (legal (make p m)); reflexivity.
Qed.

(** san_ambiguous_none / san_no_match_none *)
Theorem san_ambiguous_none : forall p s f m1 m2, san_find s = Some f ->
  In m1 (legal p) -> In m2 (legal p) -> m1 <> m2 ->
  san_fits p s f m1 = true -> san_fits p s f m2 = true -> from_san p s = None.
Proof.
  intros p s f m1 m2 Hf H1 H2 Hne F1 F2. unfold from_san. rewrite Hf.
  destruct (filter (san_fits p s f) (legal p)) as [|a [|b r]] eqn:E; try reflexivity. exfalso.
  assert (I1 : In m1 (filter (san_fits p s f) (legal p))) by (apply filter_In; tauto).
  assert (I2 : In m2 (filter (san_fits p s f) (legal p))) by (apply filter_In; tauto).
  rewrite E in I1, I2. destruct I1 as [<-|[]], I2 as [<-|[]]. apply Hne. reflexivity.
Qed.

Theorem san_no_match_none : forall p s,
  (san_find s = None \/ exists f, san_find s = Some f /\ forall m, In m (legal p) -> san_fits p s f m = false) ->
  from_san p s = None.
Proof.
  intros p s [H|(f & Hf & Hno)]; unfold from_san; rewrite ?H; [reflexivity|]. rewrite Hf.
  destruct (filter (san_fits p s f) (legal p)) as [|a r] eqn:E; [reflexivity|]. exfalso.
  assert (I1 : In a (filter (san_fits p s f) (legal p))) by (rewrite E; left; reflexivity).
  apply filter_In in I1. destruct I1 as (I1 & I2). rewrite Hno in I2 by exact I1. discriminate I2.
Qed.

(* soundness: whatever is returned is a legal move that fits the matched groups, and it is the only one *)
Theorem from_san_sound : forall p s m, from_san p s = Some m ->
  In m (legal p) /\ exists f, san_find s = Some f /\ san_fits p s f m = true /\
     forall m', In m' (legal p) -> san_fits p s f m' = true -> m' = m.
Proof.
  intros p s m. unfold from_san. destruct (san_find s) as [f|]; [|discriminate].
  destruct (filter (san_fits p s f) (legal p)) as [|a [|b r]] eqn:E; try discriminate. intros H. injection H as ->.
  assert (I1 : In m (filter (san_fits p s f) (legal p))) by (rewrite E; left; reflexivity).
  apply filter_In in I1. split; [tauto|]. exists f. split; [reflexivity|]. split; [tauto|].
  intros m' Hm' Hf'. assert (I2 : In m' (filter (san_fits p s f) (legal p))) by (apply filter_In; tauto).
  rewrite E in I2. destruct I2 as [<-|[]]. reflexivity.
Qed.

(** ** K. The language the repaired SAN parser accepts, exactly *)
(* every spelling of a move that is not castling: piece letter (none for a pawn), optionally
   the file of origin, optionally the rank of origin (needed or not), optionally "x" (capture
   or not), the target square, for a promotion the piece with or without "=" *)
Definition san_spell (fl rk ux ue : bool) (p : pos) (m : mv) : str :=
  (if mover_type p m =? PAWN then [] else [pt_letter (mover_type p m)]) ++
  (if fl then [file_ch (mfrom m)] else []) ++ (if rk then [rank_ch (mfrom m)] else []) ++
  (if ux then [120] else []) ++ sq_name (mto m) ++
  (if mtype m =? PROMOTION then (if ue then [61] else []) ++ [pt_letter (mprom m)] else []).
Definition castle_str (m : mv) : str := if file_of (mto m) =? 6 then [79;45;79] else [79;45;79;45;79].

(* [san_accepts p m s]: s is one of the spellings under which the parser considers move m:
   any [san_spell] variant for an ordinary move, exactly O-O / O-O-O for castling, followed by
   any decoration over ! ? + #. *)
Definition san_accepts (p : pos) (m : mv) (s : str) : Prop :=
  if mtype m =? CASTLING then exists d, deco_str d = true /\ s = castle_str m ++ d
  else exists fl rk ux ue d, deco_str d = true /\ s = san_spell fl rk ux ue p m ++ d.

(* the specification's SAN (San.san_body: minimal disambiguation, "x" iff capture or left out,
   "=" or not) is among the accepted spellings *)
Lemma san_body_accepted p m ux ue d : In m (legal p) -> deco_str d = true ->
  san_accepts p m (san_body ux ue p m ++ d).
Proof.
  intros Hm Hd. pose proof (legal_in_pseudo p m Hm) as Hps. unfold san_accepts, san_body.
  destruct (mtype m =? CASTLING) eqn:Ec.
  - exists d. split; [exact Hd|reflexivity].
  - cbv zeta. destruct (mover_type p m =? PAWN) eqn:Ep.
    + exists (is_capture p m), false, (is_capture p m && ux), ue, d. split; [exact Hd|].
      unfold san_spell. rewrite Ep. destruct (is_capture p m), ux; reflexivity.
    + assert (Hnp : (mtype m =? PROMOTION) = false).
      { apply N.eqb_neq in Ec, Ep. pose proof (pseudo_simple_class p m Hps Ec Ep) as (H0 & _). rewrite H0. reflexivity. }
      assert (Hdis : exists fl rk : bool, disamb p m = (if fl then [file_ch (mfrom m)] else []) ++ (if rk then [rank_ch (mfrom m)] else [])).
      { unfold disamb. cbv zeta. destruct (rivals p m); [exists false, false; reflexivity|].
        destruct (negb _); [exists true, false; reflexivity|]. destruct (negb _); [exists false, true|exists true, true]; reflexivity. }
      destruct Hdis as (fl & rk & Hdis). exists fl, rk, (is_capture p m && ux), ue, d. split; [exact Hd|].
      unfold san_spell. rewrite Ep, Hnp, Hdis. rewrite app_nil_r. repeat rewrite <- app_assoc. reflexivity.
Qed.

Lemma c_x_120 x : c_x x -> x = 120.
Proof. intros (_ & _ & _ & H & _). unfold is_x_ch in H. lia. Qed.
Lemma pt_char_piece ty L : pt_char ty = L -> is_piece_ch L = true ->
  (ty = 1 \/ ty = 3 \/ ty = 4 \/ ty = 5 \/ ty = 6) /\ pt_letter ty = L.
Proof.
  unfold pt_char. intros H HL.
  destruct (N.eqb_spec ty 1) as [->|]; [subst L; split; [tauto|reflexivity]|].
  destruct (N.eqb_spec ty 2) as [->|]; [subst L; discriminate HL|].
  destruct (N.eqb_spec ty 3) as [->|]; [subst L; split; [tauto|reflexivity]|].
  destruct (N.eqb_spec ty 4) as [->|]; [subst L; split; [tauto|reflexivity]|].
  destruct (N.eqb_spec ty 5) as [->|]; [subst L; split; [tauto|reflexivity]|].
  destruct (N.eqb_spec ty 6) as [->|]; [subst L; split; [tauto|reflexivity]|].
  subst L; discriminate HL.
Qed.
Definition is_some (o : option N) : bool := match o with Some _ => true | None => false end.

Lemma is_none_eq o : is_none o = true -> o = None.
Proof. destruct o; [discriminate|reflexivity]. Qed.
(* what the castling branch of the loop demands *)
Lemma castle_fits_inv p s f m : cls_castle p m -> san_fits p s f m = true ->
  exists cs, (cs = TOO \/ cs = TOOO) /\ tstr cs = castle_str m /\ sf_target f = cs /\ has_prefix (tstr cs) s = true /\
             sf_piece f = None /\ sf_file f = None /\ sf_rank f = None /\ sf_prom f = None.
Proof.
  intros (Hty & _ & _ & Hsq). unfold san_fits, CASTLING. rewrite Hty. cbn [N.eqb Pos.eqb].
  assert (Hgen : forall cs, (cs = TOO \/ cs = TOOO) -> tstr cs = castle_str m ->
            target_eqb cs (sf_target f) && has_prefix (tstr cs) s && is_none (sf_piece f) && is_none (sf_file f)
            && is_none (sf_rank f) && is_none (sf_prom f) = true ->
            exists cs, (cs = TOO \/ cs = TOOO) /\ tstr cs = castle_str m /\ sf_target f = cs /\ has_prefix (tstr cs) s = true /\
             sf_piece f = None /\ sf_file f = None /\ sf_rank f = None /\ sf_prom f = None).
  { intros cs Hcs Hstr H. repeat rewrite andb_true_iff in H. destruct H as (((((A & B) & C) & D) & E') & F).
    exists cs. split; [exact Hcs|]. split; [exact Hstr|].
    split; [destruct Hcs as [-> | ->]; destruct (sf_target f); try discriminate A; reflexivity|].
    split; [exact B|]. repeat split; apply is_none_eq; assumption. }
  destruct Hsq as [(_ & _ & [E|E])|(_ & _ & [E|E])]; rewrite E; cbn [N.eqb Pos.eqb orb];
    [apply (Hgen TOO)|apply (Hgen TOOO)|apply (Hgen TOO)|apply (Hgen TOOO)]; try tauto;
    unfold castle_str; rewrite E; reflexivity.
Qed.

(** (A) a legal move that fits the matched groups is spelled by the string *)
Lemma fits_accepts p s f m : san_find s = Some f -> In m (pseudo p) -> san_fits p s f m = true -> san_accepts p m s.
Proof.
  intros Hf Hm Hfit. destruct (san_find_inv s f Hf) as (X & ue & d & O1 & O2 & O3 & OX & Otg & O6 & Hd & Hs').
  pose proof (pseudo_class p m Hm) as (Hs & Ht & Hown & _).
  unfold san_accepts. unfold CASTLING in *. destruct (N.eqb_spec (mtype m) 3) as [Hc|Hnc].
  - (* castling: nothing but decorations may accompany the castling string *)
    pose proof (pseudo_castle_class p m Hm Hc) as Hcls.
    destruct (castle_fits_inv p s f m Hcls Hfit) as (cs & Hcs & Hstr & Etg & Hpre & E1 & E2 & E3 & E6).
    rewrite E1, E2, E3, E6, Etg in Hs'. cbn [o2l prom_str app] in Hs'.
    destruct X as [x|]; cbn [o2l app opt_ok] in *.
    + exfalso. rewrite (c_x_120 x OX) in Hs'. subst s. destruct Hcs as [-> | ->]; vm_compute in Hpre; discriminate Hpre.
    + exists d. split; [exact Hd|]. rewrite <- Hstr. exact Hs'.
  - (* other moves *)
    subst s. unfold san_fits in Hfit. unfold CASTLING in Hfit. destruct (N.eqb_spec (mtype m) 3) as [Hc'|_]; [contradiction|].
    destruct f as [g1 g2 g3 tg g6]. cbn [sf_piece sf_file sf_rank sf_target sf_prom] in *.
    assert (Htg : tg = TSq (file_ch (mto m)) (rank_ch (mto m))).
    { unfold san_normal_fits in Hfit. cbn [sf_target] in Hfit. repeat rewrite andb_true_iff in Hfit.
      destruct Hfit as ((((HA & _) & _) & _) & _). destruct tg as [a b| |]; try discriminate HA.
      apply str_eqb_eq in HA. rewrite square_string_valid in HA by exact Ht. unfold sq_name in HA. injection HA as <- <-. reflexivity. }
    subst tg. apply nf_iff in Hfit; [|exact Ht|exact Ht]. destruct Hfit as (_ & N1 & N2 & N3 & N6).
    exists (is_some g2), (is_some g3), (is_some X), ue, d. split; [exact Hd|].
    unfold san_spell.
    assert (E1 : o2l g1 = if mover_type p m =? PAWN then [] else [pt_letter (mover_type p m)]).
    { unfold mover_type. destruct g1 as [L|]; cbn [o2l opt_ok] in *.
      - destruct (pt_char_piece _ _ N1 O1) as (Hty & HL). rewrite HL.
        destruct (N.eqb_spec (type_of (piece_at p (mfrom m))) PAWN) as [E|E]; [unfold PAWN in E; lia|reflexivity].
      - rewrite N1. reflexivity. }
    assert (E2 : o2l g2 = if is_some g2 then [file_ch (mfrom m)] else []).
    { destruct g2 as [c|]; cbn [o2l is_some]; [subst c|]; reflexivity. }
    assert (E3 : o2l g3 = if is_some g3 then [rank_ch (mfrom m)] else []).
    { destruct g3 as [c|]; cbn [o2l is_some]; [subst c|]; reflexivity. }
    assert (EX : o2l X = if is_some X then [120] else []).
    { destruct X as [x|]; cbn [o2l is_some opt_ok] in *; [rewrite (c_x_120 x OX)|]; reflexivity. }
    assert (E6 : prom_str ue g6 = if mtype m =? PROMOTION then (if ue then [61] else []) ++ [pt_letter (mprom m)] else []).
    { unfold PROMOTION. destruct g6 as [c|]; cbn [prom_str].
      - destruct N6 as (Hy & Hc). pose proof (pseudo_prom_range p m Hm Hy) as Hr. rewrite Hy. cbn [N.eqb Pos.eqb].
        rewrite pt_letter_char36 by exact Hr. rewrite Hc. reflexivity.
      - destruct (N.eqb_spec (mtype m) 1); [contradiction|reflexivity]. }
    rewrite E1, E2, E3, EX, E6. cbn [target_str]. unfold sq_name. repeat rewrite <- app_assoc. reflexivity.
Qed.

(** (B) a spelling of a legal move is matched, and the move fits the matched groups *)
Lemma accepts_fits p s m : legal_pos p = true -> In m (legal p) -> san_accepts p m s ->
  exists f, san_find s = Some f /\ san_fits p s f m = true.
Proof.
  intros Hl Hm Hacc. pose proof (legal_in_pseudo p m Hm) as Hps.
  pose proof (pseudo_class p m Hps) as (Hs & Ht & Hown & _).
  unfold san_accepts, CASTLING in Hacc. destruct (N.eqb_spec (mtype m) 3) as [Hc|Hnc].
  - destruct Hacc as (d & Hd & ->).
    pose proof (pseudo_castle_class p m Hps Hc) as (_ & _ & _ & Hsq).
    set (tg := if file_of (mto m) =? 6 then TOO else TOOO).
    exists (mk_sf None None None tg None). split.
    + replace (castle_str m) with (tstr tg) by (unfold tg, castle_str; destruct (file_of (mto m) =? 6); reflexivity).
      apply san_find_castle; [unfold tg; destruct (file_of (mto m) =? 6); tauto|exact Hd].
    + unfold san_fits, CASTLING, tg, castle_str. rewrite Hc. cbn [N.eqb Pos.eqb sf_target sf_piece sf_file sf_rank sf_prom].
      destruct Hsq as [(_ & _ & [E|E])|(_ & _ & [E|E])]; rewrite E; reflexivity.
  - destruct Hacc as (fl & rk & ux & ue & d & Hd & ->).
    pose proof (pseudo_prom_range p m Hps) as Hpr.
    set (g1 := if mover_type p m =? PAWN then None else Some (pt_letter (mover_type p m))).
    set (g2 := if fl then Some (file_ch (mfrom m)) else None).
    set (g3 := if rk then Some (rank_ch (mfrom m)) else None).
    set (X := if ux then Some 120 else None).
    set (g6 := if mtype m =? PROMOTION then Some (pt_letter (mprom m)) else None).
    exists (mk_sf g1 g2 g3 (TSq (file_ch (mto m)) (rank_ch (mto m))) g6).
    pose proof (own_type_valid p (mfrom m) Hl Hs Hown) as Hrange. fold (mover_type p m) in Hrange.
    split.
    + replace (san_spell fl rk ux ue p m ++ d)
        with (o2l g1 ++ o2l g2 ++ o2l g3 ++ o2l X ++ tstr (TSq (file_ch (mto m)) (rank_ch (mto m))) ++ prom_str ue g6 ++ d).
      2:{ unfold san_spell, g1, g2, g3, X, g6, sq_name. destruct (mover_type p m =? PAWN), fl, rk, ux, (mtype m =? PROMOTION);
            cbn [o2l target_str prom_str app]; repeat rewrite <- app_assoc; reflexivity. }
      apply san_find_print; try exact Hd.
      * unfold g1. destruct (N.eqb_spec (mover_type p m) PAWN) as [E|E]; [exact I|]. apply piece_letter_class. unfold PAWN in E. lia.
      * unfold g2. destruct fl; [apply file_is_c_file, file_ch_class|exact I].
      * unfold g3. destruct rk; [apply rank_is_c_rank, rank_ch_class; exact Hs|exact I].
      * unfold X. destruct ux; [exact x_is_c_x|exact I].
      * split; [apply file_is_c_file, file_ch_class|apply rank_is_c_rank, rank_ch_class; exact Ht].
      * unfold g6, PROMOTION. destruct (N.eqb_spec (mtype m) 1) as [Hy|Hy]; [|exact I].
        cbn [opt_ok]. unfold c_prom. rewrite pt_letter_char36 by auto. apply pt_char36_prom. auto.
    + rewrite san_fits_noncastle by exact Hnc. apply nf_iff; [exact Ht|exact Ht|]. unfold nf_spec. split; [reflexivity|].
      split; [|split; [|split]].
      * unfold g1. fold (mover_type p m). destruct (N.eqb_spec (mover_type p m) PAWN) as [E|E]; [exact E|].
        assert (Hty : mover_type p m = 1 \/ mover_type p m = 3 \/ mover_type p m = 4 \/ mover_type p m = 5 \/ mover_type p m = 6)
          by (unfold PAWN in E; lia).
        destruct Hty as [E'|[E'|[E'|[E'|E']]]]; rewrite E'; reflexivity.
      * unfold g2. destruct fl; [reflexivity|exact I].
      * unfold g3. destruct rk; [reflexivity|exact I].
      * unfold g6, PROMOTION. destruct (N.eqb_spec (mtype m) 1) as [Hy|Hy]; [split; [exact Hy|symmetry; apply pt_letter_char36; auto]|exact Hy].
Qed.

(** san_strict_none: EVERY string that is not an accepted spelling of a legal move yields no move. *)
Theorem san_strict_none : forall p s,
  (forall m, In m (legal p) -> ~ san_accepts p m s) -> from_san p s = None.
Proof.
  intros p s Hno. destruct (from_san p s) as [m|] eqn:E; [exfalso|reflexivity].
  apply from_san_sound in E. destruct E as (Hm & f & Hf & Hfit & _).
  apply (Hno m Hm). apply (fits_accepts p s f m Hf); [apply legal_in_pseudo; exact Hm|exact Hfit].
Qed.

(** from_san_exact: the parser returns m iff s is an accepted spelling of the legal move m and of
    no other legal move. *)
Theorem from_san_exact : forall p s m, legal_pos p = true ->
  (from_san p s = Some m <->
   In m (legal p) /\ san_accepts p m s /\ forall m', In m' (legal p) -> san_accepts p m' s -> m' = m).
Proof.
  intros p s m Hl. split.
  - intros E. apply from_san_sound in E. destruct E as (Hm & f & Hf & Hfit & Huniq).
    split; [exact Hm|]. split; [apply (fits_accepts p s f m Hf); [apply legal_in_pseudo; exact Hm|exact Hfit]|].
    intros m' Hm' Hacc'. destruct (accepts_fits p s m' Hl Hm' Hacc') as (f' & Hf' & Hfit').
    apply Huniq; [exact Hm'|]. congruence.
  - intros (Hm & Hacc & Huniq). destruct (accepts_fits p s m Hl Hm Hacc) as (f & Hf & Hfit).
    unfold from_san. rewrite Hf.
    rewrite (filter_unique (san_fits p s f) (legal p) m (legal_NoDup p) Hm Hfit); [reflexivity|].
    intros m' Hm' Hfit'. apply Huniq; [exact Hm'|]. apply (fits_accepts p s f m' Hf); [apply legal_in_pseudo; exact Hm'|exact Hfit'].
Qed.

(** ** I. Examples *)
From Coq Require Import String Ascii.
Open Scope list_scope. Open Scope N_scope.
Definition s2l (s : string) : str := map N_of_ascii (list_ascii_of_string s).
Definition omv_eqb (a : option mv) (b : option mv) : bool :=
  match a, b with
  | Some x, Some y => (mfrom x =? mfrom y) && (mto x =? mto y) && (mtype x =? mtype y) && (mprom x =? mprom y)
  | None, None => true
  | _, _ => false
  end.
Lemma omv_eqb_eq a b : omv_eqb a b = true -> a = b.
Proof.
  destruct a as [x|], b as [y|]; cbn; try discriminate; [|reflexivity].
  repeat rewrite andb_true_iff. repeat rewrite N.eqb_eq. intros (((A & B) & C) & D). f_equal. apply mv_eq; assumption.
Qed.
Definition pos_of (fen : string) : pos := match parse (s2l fen) with Some p => p | None => start_pos end.

(* decision procedures for "s is a spelling of some legal move" *)
Definition bools := [true; false].
Lemma in_bools b : In b bools.
Proof. destruct b; cbn; tauto. Qed.
Definition is_accepted_of_legal (p : pos) (s : str) : bool :=
  existsb (fun m => existsb (fun fl => existsb (fun rk => existsb (fun ux => existsb (fun ue =>
     let b := if mtype m =? CASTLING then castle_str m else san_spell fl rk ux ue p m in
     str_eqb (firstn (List.length b) s) b && deco_str (skipn (List.length b) s)) bools) bools) bools) bools) (legal p).
Lemma is_accepted_of_legal_complete p s m : In m (legal p) -> san_accepts p m s -> is_accepted_of_legal p s = true.
Proof.
  intros Hm Hacc.
  assert (H : exists fl rk ux ue d, deco_str d = true /\
            s = (if mtype m =? CASTLING then castle_str m else san_spell fl rk ux ue p m) ++ d).
  { unfold san_accepts in Hacc. destruct (mtype m =? CASTLING); [|exact Hacc].
    destruct Hacc as (d & Hd & Hs). exists false, false, false, false, d. split; assumption. }
  destruct H as (fl & rk & ux & ue & d & Hd & ->).
  unfold is_accepted_of_legal. apply existsb_exists. exists m. split; [exact Hm|].
  apply existsb_exists. exists fl. split; [apply in_bools|].
  apply existsb_exists. exists rk. split; [apply in_bools|].
  apply existsb_exists. exists ux. split; [apply in_bools|].
  apply existsb_exists. exists ue. split; [apply in_bools|].
  cbv zeta. rewrite firstn_app, Nat.sub_diag, firstn_all, firstn_O, app_nil_r, str_eqb_refl.
  rewrite skipn_app, Nat.sub_diag, skipn_all. cbn [skipn app andb]. exact Hd.
Qed.
Lemma is_accepted_of_legal_false p s : is_accepted_of_legal p s = false -> forall m, In m (legal p) -> ~ san_accepts p m s.
Proof. intros E m Hm Hacc. pose proof (is_accepted_of_legal_complete p s m Hm Hacc) as E'. congruence. Qed.
Definition is_uci_of_legal (p : pos) (s : str) : bool :=
  existsb (fun m => str_eqb s (uci_str m) || str_eqb s (string_uci m)) (legal p).
Lemma is_uci_of_legal_complete p s m : In m (legal p) -> s = uci_str m \/ s = string_uci m -> is_uci_of_legal p s = true.
Proof.
  intros Hm Hs. unfold is_uci_of_legal. apply existsb_exists. exists m. split; [exact Hm|].
  destruct Hs as [-> | ->]; rewrite str_eqb_refl; [reflexivity|apply orb_true_r].
Qed.
Lemma is_uci_of_legal_false p s : is_uci_of_legal p s = false ->
  forall m, In m (legal p) -> s <> uci_str m /\ s <> string_uci m.
Proof.
  intros E m Hm. split; intros Hs.
  - pose proof (is_uci_of_legal_complete p s m Hm (or_introl Hs)) as E'. congruence.
  - pose proof (is_uci_of_legal_complete p s m Hm (or_intror Hs)) as E'. congruence.
Qed.

(** GetMoveFromUci after the repair: junk before / after a move, a wrong fifth letter, a trailing
    newline, upper-case squares ... all give no move (every line confirmed on the real engine) *)
Example uci_repaired_examples :
  from_uci start_pos (s2l "e2e4") = Some (mkmv 12 28 0 3) /\
  from_uci start_pos (s2l "xe2e4y") = None /\
  from_uci start_pos (s2l "e2e4 e7e5") = None /\
  from_uci start_pos (s2l " e2e4") = None /\
  from_uci start_pos (s2l "e2e4 ") = None /\
  from_uci start_pos (10 :: s2l "e2e4") = None /\
  from_uci start_pos (s2l "e2e4" ++ [10]) = None /\
  from_uci start_pos (s2l "position startpos moves g1f3") = None /\
  from_uci start_pos (s2l "e2e4q") = None /\
  from_uci start_pos (s2l "e2e4k") = None /\
  from_uci start_pos (s2l "E2E4") = None /\
  from_uci start_pos (s2l "e2e5") = None /\
  from_uci start_pos (s2l "e2") = None /\
  from_uci start_pos [] = None.
Proof. vm_compute. repeat split. Qed.
(* non-vacuity of [uci_strict_none]: the hypothesis holds for a string that used to be accepted *)
Example uci_strict_none_ex :
  (forall m, In m (legal start_pos) -> s2l "xe2e4y" <> uci_str m /\ s2l "xe2e4y" <> string_uci m)
  /\ from_uci start_pos (s2l "xe2e4y") = None.
Proof. split; [apply is_uci_of_legal_false; vm_compute; reflexivity|vm_compute; reflexivity]. Qed.

Definition castle_pos := pos_of "r3k2r/8/8/8/8/8/8/R3K2R w KQkq - 0 1".
(** GetMoveFromSan after the repair (every line confirmed on the real engine) *)
Example san_repaired_examples :
  (* a promotion suffix on a move that is not a promotion is no longer accepted *)
  from_san start_pos (s2l "e4=N") = None /\
  from_san start_pos (s2l "Nf3N") = None /\
  from_san start_pos (s2l "e4=Q") = None /\
  (* junk around the move is no longer ignored; no trailing newline *)
  from_san start_pos (s2l "1. e4 e5") = None /\
  from_san start_pos (s2l "xxNf3yy") = None /\
  from_san start_pos (s2l " Nf3") = None /\
  from_san start_pos (s2l "Nf3" ++ [10]) = None /\
  from_san start_pos [] = None /\
  (* "Kg1"/"Kc1" no longer select the castling move *)
  legal_pos castle_pos = true /\
  from_san castle_pos (s2l "Kg1") = None /\
  from_san castle_pos (s2l "Kc1") = None /\
  from_san castle_pos (s2l "O-O") = Some (mkmv 4 6 3 3) /\
  from_san castle_pos (s2l "O-O-O+!") = Some (mkmv 4 2 3 3) /\
  from_san castle_pos (s2l "0-0") = None /\
  (* accepted loose spellings: over-disambiguation, "x" without capture, long-algebraic pawn move *)
  from_san start_pos (s2l "Nf3") = Some (mkmv 6 21 0 3) /\
  from_san start_pos (s2l "Ngf3") = Some (mkmv 6 21 0 3) /\
  from_san start_pos (s2l "N1f3") = Some (mkmv 6 21 0 3) /\
  from_san start_pos (s2l "Ng1f3") = Some (mkmv 6 21 0 3) /\
  from_san start_pos (s2l "Nxf3") = Some (mkmv 6 21 0 3) /\
  from_san start_pos (s2l "Ng1xf3#?!") = Some (mkmv 6 21 0 3) /\
  from_san start_pos (s2l "e2e4") = Some (mkmv 12 28 0 3) /\
  from_san start_pos (s2l "xe4") = Some (mkmv 12 28 0 3).
Proof. vm_compute. repeat split. Qed.

(** Castling is accepted as O-O / O-O-O plus decorations only (every line confirmed on the real
    engine).
    HISTORY: before the commit "castling in SAN is only accepted as O-O / O-O-O with decorations"
    only group 4 of the match was compared for castling moves, so all of
       KO-O  NO-O  aO-O  1O-O  xO-O  Ka1xO-O  O-O=Q  Qh8xO-O-O=N#!
    returned the castling move (then proved as san_castle_junk_examples / san_plain_none_refuted,
    confirmed on the engine); the castling test now also demands HasPrefix(sanMove, castlingString)
    and empty groups 1, 2, 3 and 5. *)
Example san_castle_examples :
  from_san castle_pos (s2l "O-O") = Some (mkmv 4 6 3 3) /\
  from_san castle_pos (s2l "O-O+") = Some (mkmv 4 6 3 3) /\
  from_san castle_pos (s2l "O-O-O") = Some (mkmv 4 2 3 3) /\
  from_san castle_pos (s2l "O-O-O#!") = Some (mkmv 4 2 3 3) /\
  from_san castle_pos (s2l "KO-O") = None /\
  from_san castle_pos (s2l "NO-O") = None /\
  from_san castle_pos (s2l "aO-O") = None /\
  from_san castle_pos (s2l "1O-O") = None /\
  from_san castle_pos (s2l "xO-O") = None /\
  from_san castle_pos (s2l "Ka1xO-O") = None /\
  from_san castle_pos (s2l "O-O=Q") = None /\
  from_san castle_pos (s2l "O-OQ") = None /\
  from_san castle_pos (s2l "O-O-Ox?") = None /\
  from_san castle_pos (s2l "Qh8xO-O-O=N#!") = None /\
  is_accepted_of_legal castle_pos (s2l "Qh8xO-O-O=N#!") = false /\
  is_accepted_of_legal castle_pos (s2l "O-O-O#!") = true.
Proof. vm_compute. repeat split. Qed.
(* non-vacuity of [san_strict_none]: the hypothesis holds for strings that used to be accepted *)
Example san_strict_none_ex :
  (forall m, In m (legal start_pos) -> ~ san_accepts start_pos m (s2l "e4=N")) /\
  from_san start_pos (s2l "e4=N") = None /\
  (forall m, In m (legal castle_pos) -> ~ san_accepts castle_pos m (s2l "Kg1")) /\
  from_san castle_pos (s2l "Kg1") = None /\
  (forall m, In m (legal castle_pos) -> ~ san_accepts castle_pos m (s2l "Qh8xO-O-O=N#!")) /\
  from_san castle_pos (s2l "Qh8xO-O-O=N#!") = None.
Proof.
  repeat split; try (vm_compute; reflexivity); apply is_accepted_of_legal_false; vm_compute; reflexivity.
Qed.
(* non-vacuity of [from_san_exact], right to left: a loose spelling of exactly one legal move *)
Example from_san_exact_ex :
  In (mkmv 6 21 0 3) (legal start_pos) /\ san_accepts start_pos (mkmv 6 21 0 3) (s2l "Ng1xf3#?!") /\
  from_san start_pos (s2l "Ng1xf3#?!") = Some (mkmv 6 21 0 3).
Proof.
  split; [vm_compute; tauto|]. split; [|vm_compute; reflexivity].
  unfold san_accepts. cbn [mtype N.eqb]. exists true, true, true, false, (s2l "#?!"). split; vm_compute; reflexivity.
Qed.

(** ** J. Non-vacuity: concrete positions, every legal move, printed and parsed back *)
Definition roundtrip_all (p : pos) : bool :=
  legal_pos p && negb (Nat.eqb (List.length (legal p)) 0) &&
  forallb (fun m =>
     omv_eqb (from_san p (san_str p m)) (Some m)
     && omv_eqb (from_san p (san_str_nodeco p m)) (Some m)
     && omv_eqb (from_san p (san_body false false p m ++ [33; 63])) (Some m)
     && omv_eqb (from_uci p (uci_str m)) (Some m)
     && omv_eqb (from_uci p (string_uci m)) (Some m)) (legal p).

Example ex_start : roundtrip_all start_pos = true
  /\ san_str start_pos (mkmv 6 21 0 3) = s2l "Nf3"
  /\ from_san start_pos (s2l "Nf3") = Some (mkmv 6 21 0 3)
  /\ from_uci start_pos (s2l "g1f3") = Some (mkmv 6 21 0 3)
  /\ from_san start_pos (s2l "Nf4") = None.
Proof. vm_compute. repeat split. Qed.

(* two knights that reach the same square: file disambiguation; the bare "Nd2" is ambiguous *)
Definition knights_pos := pos_of "4k3/8/8/8/8/8/8/1N2KN2 w - - 0 1".
Example ex_knights : roundtrip_all knights_pos = true
  /\ san_str knights_pos (mkmv 1 11 0 3) = s2l "Nbd2"
  /\ san_str knights_pos (mkmv 5 11 0 3) = s2l "Nfd2"
  /\ from_san knights_pos (s2l "Nbd2") = Some (mkmv 1 11 0 3)
  /\ from_san knights_pos (s2l "Nb1d2") = Some (mkmv 1 11 0 3)
  /\ from_san knights_pos (s2l "Nd2") = None
  /\ from_san knights_pos (s2l "N1d2") = None.
Proof. vm_compute. repeat split. Qed.

(* knights on the same file: rank disambiguation;  three queens: file + rank *)
Definition knights_file_pos := pos_of "4k3/8/8/4N3/8/8/8/4N1K1 w - - 0 1".
Definition queens_pos := pos_of "8/7k/8/8/Q7/8/8/Q2QK3 w - - 0 1".
Example ex_rank_and_both : roundtrip_all knights_file_pos = true
  /\ san_str knights_file_pos (mkmv 4 19 0 3) = s2l "N1d3"
  /\ san_str knights_file_pos (mkmv 36 19 0 3) = s2l "N5d3"
  /\ roundtrip_all queens_pos = true
  /\ san_str queens_pos (mkmv 0 27 0 3) = s2l "Qa1d4"
  /\ san_str queens_pos (mkmv 24 27 0 3) = s2l "Q4d4"
  /\ san_str queens_pos (mkmv 3 27 0 3) = s2l "Qdd4"
  /\ from_san queens_pos (s2l "Qad4") = None
  /\ from_san queens_pos (s2l "Q1d4") = None.
Proof. vm_compute. repeat split. Qed.

(* promotion with and without capture, castling *)
Definition promo_pos := pos_of "r1b1k2r/1P3ppp/8/8/8/8/P4PPP/R3K2R w KQkq - 0 1".
Example ex_promo_castle : roundtrip_all promo_pos = true
  /\ san_str promo_pos (mkmv 49 56 1 6) = s2l "bxa8=Q"
  /\ san_str promo_pos (mkmv 49 58 1 3) = s2l "bxc8=N"
  /\ san_str promo_pos (mkmv 49 57 1 5) = s2l "b8=R"
  /\ from_san promo_pos (s2l "bxa8=Q") = Some (mkmv 49 56 1 6)
  /\ from_san promo_pos (s2l "ba8Q") = Some (mkmv 49 56 1 6)
  /\ from_san promo_pos (s2l "bxa8") = None
  /\ from_uci promo_pos (s2l "b7a8q") = Some (mkmv 49 56 1 6)
  /\ from_uci promo_pos (s2l "b7a8Q") = Some (mkmv 49 56 1 6)
  /\ from_uci promo_pos (s2l "b7a8") = None
  /\ from_san promo_pos (s2l "O-O") = Some (mkmv 4 6 3 3)
  /\ from_san promo_pos (s2l "O-O-O") = Some (mkmv 4 2 3 3)
  /\ from_uci promo_pos (s2l "e1g1") = Some (mkmv 4 6 3 3).
Proof. vm_compute. repeat split. Qed.

(* en passant *)
Definition ep_pos := pos_of "4k3/8/8/3pP3/8/8/8/4K3 w - d6 0 2".
Example ex_ep : roundtrip_all ep_pos = true
  /\ san_str ep_pos (mkmv 36 43 2 3) = s2l "exd6"
  /\ from_san ep_pos (s2l "exd6") = Some (mkmv 36 43 2 3)
  /\ from_san ep_pos (s2l "ed6") = Some (mkmv 36 43 2 3)
  /\ from_san ep_pos (s2l "e6") = Some (mkmv 36 44 0 3)
  /\ from_uci ep_pos (s2l "e5d6") = Some (mkmv 36 43 2 3).
Proof. vm_compute. repeat split. Qed.

(* FINDING (protocol): the engine prints promotions with an UPPER-case letter ("b7a8Q", used for
   bestmove / pv / currmove in internal/uci/uci.go), the UCI protocol prescribes lower case *)
Example engine_uci_printer_uppercase :
  string_uci (mkmv 49 56 1 6) = s2l "b7a8Q" /\ uci_str (mkmv 49 56 1 6) = s2l "b7a8q".
Proof. vm_compute. split; reflexivity. Qed.

(* a middle-game position with checks and mates in the suffix *)
Definition kiwipete := pos_of "r3k2r/p1ppqpb1/bn2pnp1/3PN3/1p2P3/2N2Q1p/PPPBBPPP/R3K2R w KQkq - 0 1".
Definition mate_pos := pos_of "6k1/5ppp/8/8/8/8/8/R3K2R w KQ - 0 1".
Example ex_middle : roundtrip_all kiwipete = true /\ roundtrip_all mate_pos = true
  /\ san_str mate_pos (mkmv 0 56 0 3) = s2l "Ra8#"
  /\ san_str kiwipete (mkmv 21 53 0 3) = s2l "Qxf7+".
Proof. vm_compute. repeat split. Qed.

Print Assumptions uci_roundtrip.
Print Assumptions uci_roundtrip_eq.
Print Assumptions uci_roundtrip_engine_printer.
Print Assumptions uci_unknown_none.
Print Assumptions san_roundtrip.
Print Assumptions san_roundtrip_eq.
Print Assumptions san_roundtrip_std.
Print Assumptions san_ambiguous_none.
Print Assumptions san_no_match_none.
Print Assumptions from_san_sound.
Print Assumptions uci_strict_none.
Print Assumptions from_uci_exact.
Print Assumptions san_strict_none.
Print Assumptions from_san_exact.
Print Assumptions san_body_accepted.
