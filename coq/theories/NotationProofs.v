(** * NotationProofs: C17 theorems about move notation.
    - [uci_roundtrip], [uci_unknown_none]           (GetMoveFromUci over [Rules.legal])
    - [san_roundtrip], [san_ambiguous_none], [san_no_match_none]   (GetMoveFromSan)
    - refuted literal readings (findings) and non-vacuity examples.
    Facts about the rules specification that are needed ([pseudo_class], [pseudo_NoDup],
    [pseudo_key_inj]) are proved here from [Rules.pseudo]. *)
From Coq Require Import NArith ZArith List Bool Lia ZifyN ZifyBool.
From FG Require Import Geom Rules FenSpec San NotationImpl.
Import ListNotations.
Open Scope N_scope.
Ltac Zify.zify_post_hook ::= Z.div_mod_to_equations.

(** ** A. Lists *)
Lemma NoDup_app_intro {A} (l1 l2 : list A) :
  NoDup l1 -> NoDup l2 -> (forall x, In x l1 -> In x l2 -> False) -> NoDup (l1 ++ l2).
Proof.
  induction l1 as [|a l1 IH]; intros H1 H2 Hd; [exact H2|].
  cbn [app]. inversion H1 as [|? ? Hna Hn1]; subst. constructor.
  - intro Hin. apply in_app_or in Hin. destruct Hin as [Hin|Hin]; [contradiction|].
    apply (Hd a); [left; reflexivity|exact Hin].
  - apply IH; [exact Hn1|exact H2|]. intros x Hx1 Hx2. apply (Hd x); [right; exact Hx1|exact Hx2].
Qed.

(* flat_map of lists whose elements remember (through [key]) which input produced them *)
Lemma NoDup_flat_map_key {A B} (key : B -> A) (f : A -> list B) (l : list A) :
  NoDup l -> (forall x, In x l -> NoDup (f x)) -> (forall x y, In x l -> In y (f x) -> key y = x) ->
  NoDup (flat_map f l).
Proof.
  induction l as [|a l IH]; intros Hl Hf Hk; [constructor|].
  cbn [flat_map]. inversion Hl as [|? ? Hna Hnl]; subst.
  apply NoDup_app_intro.
  - apply Hf. left; reflexivity.
  - apply IH; [exact Hnl| |]; intros; [apply Hf; right; assumption|eapply Hk; [right; eassumption|assumption]].
  - intros y Hy1 Hy2. apply in_flat_map in Hy2. destruct Hy2 as (x & Hx & Hyx).
    assert (key y = a) by (eapply Hk; [left; reflexivity|exact Hy1]).
    assert (key y = x) by (eapply Hk; [right; exact Hx|exact Hyx]).
    congruence.
Qed.

Lemma NoDup_map_inj {A B} (f : A -> B) (l : list A) :
  (forall x y, f x = f y -> x = y) -> NoDup l -> NoDup (map f l).
Proof.
  intros Hinj. induction l as [|a l IH]; intros Hl; [constructor|].
  inversion Hl as [|? ? Hna Hnl]; subst. cbn [map]. constructor; [|apply IH; exact Hnl].
  intro Hin. apply in_map_iff in Hin. destruct Hin as (x & Hx & Hxl). apply Hinj in Hx. subst. contradiction.
Qed.

(* subsequences *)
Inductive Sub {A} : list A -> list A -> Prop :=
| Sub_nil : forall l, Sub [] l
| Sub_keep : forall a l1 l2, Sub l1 l2 -> Sub (a :: l1) (a :: l2)
| Sub_skip : forall a l1 l2, Sub l1 l2 -> Sub l1 (a :: l2).
Lemma Sub_refl {A} (l : list A) : Sub l l.
Proof. induction l; constructor; assumption. Qed.
Lemma Sub_In {A} (l1 l2 : list A) : Sub l1 l2 -> forall x, In x l1 -> In x l2.
Proof.
  induction 1 as [l|a l1 l2 H IH|a l1 l2 H IH]; intros x Hx.
  - destruct Hx.
  - destruct Hx as [->|Hx]; [left; reflexivity|right; apply IH; exact Hx].
  - right. apply IH. exact Hx.
Qed.
Lemma Sub_NoDup {A} (l1 l2 : list A) : Sub l1 l2 -> NoDup l2 -> NoDup l1.
Proof.
  induction 1 as [l|a l1 l2 H IH|a l1 l2 H IH]; intros Hn.
  - constructor.
  - inversion Hn as [|? ? Hna Hnl]; subst. constructor; [|apply IH; exact Hnl].
    intro Hin. apply Hna. eapply Sub_In; eassumption.
  - inversion Hn; subst. apply IH. assumption.
Qed.
Lemma Sub_app {A} (a a' b b' : list A) : Sub a a' -> Sub b b' -> Sub (a ++ b) (a' ++ b').
Proof.
  induction 1 as [l|x l1 l2 H IH|x l1 l2 H IH]; intros Hb; cbn [app].
  - induction l as [|y l IHl]; cbn [app]; [exact Hb|constructor; exact IHl].
  - constructor. apply IH. exact Hb.
  - constructor. apply IH. exact Hb.
Qed.
Lemma Sub_prefix {A} (a r : list A) : Sub a (a ++ r).
Proof. rewrite <- (app_nil_r a) at 1. apply Sub_app; [apply Sub_refl|constructor]. Qed.

Lemma filter_unique {A} (f : A -> bool) (l : list A) (m : A) :
  NoDup l -> In m l -> f m = true -> (forall m', In m' l -> f m' = true -> m' = m) ->
  filter f l = [m].
Proof.
  induction l as [|a l IH]; intros Hn Hin Hf Hu; [destruct Hin|].
  inversion Hn as [|? ? Hna Hnl]; subst. cbn [filter].
  assert (Hrest : forall l', (forall x, In x l' -> In x l) -> ~ In m l' -> filter f l' = []).
  { induction l' as [|b l' IH']; intros Hsub Hnm; [reflexivity|]. cbn [filter].
    destruct (f b) eqn:Eb.
    - exfalso. apply Hnm. left. apply Hu; [right; apply Hsub; left; reflexivity|exact Eb].
    - apply IH'; [intros x Hx; apply Hsub; right; exact Hx|intro H; apply Hnm; right; exact H]. }
  destruct Hin as [->|Hin].
  - rewrite Hf. f_equal. apply Hrest; [auto|exact Hna].
  - destruct (f a) eqn:Ea.
    + assert (a = m) by (apply Hu; [left; reflexivity|exact Ea]). subst. contradiction.
    + apply IH; [exact Hnl|exact Hin|exact Hf|]. intros m' Hm' Hfm'. apply Hu; [right; exact Hm'|exact Hfm'].
Qed.

Lemma find_first_sat {A} (f : A -> bool) (l : list A) (m : A) :
  In m l -> f m = true -> exists m', find f l = Some m' /\ In m' l /\ f m' = true.
Proof.
  intros Hin Hf. destruct (find f l) as [m'|] eqn:E.
  - exists m'. apply find_some in E. tauto.
  - exfalso. pose proof (find_none f l E m Hin) as H. congruence.
Qed.

Lemma str_eqb_refl (s : str) : str_eqb s s = true.
Proof.
  unfold str_eqb. rewrite Nat.eqb_refl. cbn [andb].
  induction s as [|c s IH]; [reflexivity|]. cbn [combine forallb]. rewrite N.eqb_refl. exact IH.
Qed.
Lemma str_eqb_eq (a b : str) : str_eqb a b = true -> a = b.
Proof.
  unfold str_eqb. revert b. induction a as [|x a IH]; intros [|y b] H; cbn in H; try discriminate; [reflexivity|].
  apply andb_prop in H. destruct H as [Hl H]. cbn [combine forallb] in H. apply andb_prop in H. destruct H as [Hxy H].
  apply N.eqb_eq in Hxy. subst. f_equal. apply IH. rewrite Hl. exact H.
Qed.

(** ** B. Geometry in closed form *)
Lemma in_squares64 s : s < 64 -> In s squares64.
Proof.
  intros Hs. unfold squares64. apply in_map_iff. exists (N.to_nat s). split; [apply N2Nat.id|].
  apply in_seq. lia.
Qed.
Lemma squares64_lt s : In s squares64 -> s < 64.
Proof.
  unfold squares64. intros H. apply in_map_iff in H. destruct H as (n & <- & Hn). apply in_seq in Hn. lia.
Qed.
Lemma squares64_NoDup : NoDup squares64.
Proof. unfold squares64. apply NoDup_map_inj; [intros x y H; apply Nat2N.inj; exact H|apply seq_NoDup]. Qed.

Lemma file_of_mod s : file_of s = s mod 8.
Proof. unfold file_of. change 7 with (N.ones 3). rewrite N.land_ones. reflexivity. Qed.
Lemma rank_of_div s : rank_of s = s / 8.
Proof. unfold rank_of. rewrite N.shiftr_div_pow2. reflexivity. Qed.

Definition step_arith (d : dir) (s : N) : option N :=
  let f := s mod 8 in let r := s / 8 in
  match d with
  | DN => if r <? 7 then Some (s + 8) else None
  | DS => if 0 <? r then Some (s - 8) else None
  | DE => if f <? 7 then Some (s + 1) else None
  | DW => if 0 <? f then Some (s - 1) else None
  | DNE => if (f <? 7) && (r <? 7) then Some (s + 9) else None
  | DSE => if (f <? 7) && (0 <? r) then Some (s - 7) else None
  | DSW => if (0 <? f) && (0 <? r) then Some (s - 9) else None
  | DNW => if (0 <? f) && (r <? 7) then Some (s + 7) else None
  end.
Definition oeqb (a b : option N) : bool :=
  match a, b with Some x, Some y => x =? y | None, None => true | _, _ => false end.
Lemma oeqb_eq a b : oeqb a b = true -> a = b.
Proof. destruct a, b; cbn; intros H; try discriminate; [apply N.eqb_eq in H; subst|]; reflexivity. Qed.
Lemma step_sweep : forallb (fun d => forallb (fun s => oeqb (step d s) (step_arith d s)) squares64) all_dirs = true.
Proof. vm_compute. reflexivity. Qed.
Lemma step_char d s : s < 64 -> step d s = step_arith d s.
Proof.
  intros Hs. pose proof step_sweep as H. rewrite forallb_forall in H.
  assert (Hd : In d all_dirs) by (destruct d; cbn; tauto).
  specialize (H d Hd). rewrite forallb_forall in H. apply oeqb_eq. apply H. apply in_squares64. exact Hs.
Qed.

Lemma offset_lt s df dr t : offset s df dr = Some t -> t < 64.
Proof.
  unfold offset. destruct (on_board _ _) eqn:E; [|discriminate]. intros H.
  assert (H' : Z.to_N (8 * (Z.of_N (rank_of s) + dr) + (Z.of_N (file_of s) + df)) = t) by congruence.
  rewrite <- H'. unfold on_board in E. lia.
Qed.
Lemma step_lt d s t : step d s = Some t -> t < 64.
Proof. unfold step. destruct (delta d). apply offset_lt. Qed.

Lemma in_somes {A} (l : list (option A)) x : In x (somes l) <-> In (Some x) l.
Proof.
  unfold somes. rewrite in_flat_map. split.
  - intros (o & Ho & Hx). destruct o; [destruct Hx as [->|[]]; exact Ho|destruct Hx].
  - intros H. exists (Some x). split; [exact H|left; reflexivity].
Qed.
Lemma knight_targets_lt s t : In t (knight_targets s) -> t < 64.
Proof.
  unfold knight_targets. rewrite in_somes, in_map_iff. intros ((df, dr) & H & _). eapply offset_lt. exact H.
Qed.
Lemma king_targets_lt s t : In t (king_targets s) -> t < 64.
Proof.
  unfold king_targets. rewrite in_somes, in_map_iff. intros (d & H & _). eapply step_lt. exact H.
Qed.
Lemma walkb_lt k b d : forall s t, In t (walkb k b d s) -> t < 64.
Proof.
  induction k as [|k IH]; intros s t H; [destruct H|].
  cbn [walkb] in H. destruct (step d s) as [u|] eqn:E; [|destruct H].
  destruct H as [<-|H]; [eapply step_lt; exact E|].
  destruct (at_ b u =? 0); [eapply IH; exact H|destruct H].
Qed.
Lemma rays_from_lt b dirs s t : In t (rays_from b dirs s) -> t < 64.
Proof.
  unfold rays_from. rewrite in_concat. intros (l & Hl & Ht). apply in_map_iff in Hl. destruct Hl as (d & <- & _).
  eapply walkb_lt. exact Ht.
Qed.

(* pawn attack targets in closed form *)
Lemma pat_char c s t : s < 64 -> In t (pawn_attack_targets c s) ->
  (c = 0 /\ ((t = s + 7 /\ 0 < s mod 8 /\ s / 8 < 7) \/ (t = s + 9 /\ s mod 8 < 7 /\ s / 8 < 7)))
  \/ (c <> 0 /\ ((t + 9 = s /\ 0 < s mod 8 /\ 0 < s / 8) \/ (t + 7 = s /\ s mod 8 < 7 /\ 0 < s / 8))).
Proof.
  intros Hs. unfold pawn_attack_targets. destruct (N.eqb_spec c 0) as [->|Hc]; rewrite in_somes; cbn [In];
    rewrite !step_char by exact Hs; unfold step_arith; cbv zeta.
  - intros [H|[H|[]]].
    + destruct ((0 <? s mod 8) && (s / 8 <? 7)) eqn:E; [|discriminate]. injection H as <-. left. lia.
    + destruct ((s mod 8 <? 7) && (s / 8 <? 7)) eqn:E; [|discriminate]. injection H as <-. left. lia.
  - intros [H|[H|[]]].
    + destruct ((0 <? s mod 8) && (0 <? s / 8)) eqn:E; [|discriminate]. injection H as <-. right. lia.
    + destruct ((s mod 8 <? 7) && (0 <? s / 8)) eqn:E; [|discriminate]. injection H as <-. right. lia.
Qed.
(* pawn pushes in closed form *)
Lemma fwd_char c s t : s < 64 -> step (fwd c) s = Some t ->
  (c = 0 /\ t = s + 8 /\ s / 8 < 7) \/ (c <> 0 /\ t + 8 = s /\ 0 < s / 8).
Proof.
  intros Hs. unfold fwd, WHITE. destruct (N.eqb_spec c 0) as [->|Hc]; rewrite step_char by exact Hs; unfold step_arith; cbv zeta.
  - destruct (s / 8 <? 7) eqn:E; [|discriminate]. intros H. injection H as <-. left. lia.
  - destruct (0 <? s / 8) eqn:E; [|discriminate]. intros H. injection H as <-. right. lia.
Qed.

(* boolean duplicate check *)
Fixpoint nodupb (l : list N) : bool :=
  match l with [] => true | a :: r => negb (existsb (N.eqb a) r) && nodupb r end.
Lemma nodupb_sound l : nodupb l = true -> NoDup l.
Proof.
  induction l as [|a l IH]; intros H; [constructor|]. cbn [nodupb] in H. apply andb_prop in H. destruct H as [Ha Hl].
  constructor; [|apply IH; exact Hl]. intro Hin. apply negb_true_iff in Ha.
  assert (existsb (N.eqb a) l = true) by (apply existsb_exists; exists a; split; [exact Hin|apply N.eqb_refl]). congruence.
Qed.
Lemma targets_nodup_sweep :
  forallb (fun s => nodupb (knight_targets s) && nodupb (king_targets s)
                    && nodupb (pawn_attack_targets 0 s) && nodupb (pawn_attack_targets 1 s)
                    && nodupb (rays_from [] rook_dirs s) && nodupb (rays_from [] bishop_dirs s)
                    && nodupb (rays_from [] all_dirs s)) squares64 = true.
Proof. vm_compute. reflexivity. Qed.
Lemma targets_nodup s : s < 64 ->
  NoDup (knight_targets s) /\ NoDup (king_targets s) /\ (forall c, NoDup (pawn_attack_targets c s)) /\
  NoDup (rays_from [] rook_dirs s) /\ NoDup (rays_from [] bishop_dirs s) /\ NoDup (rays_from [] all_dirs s).
Proof.
  intros Hs. pose proof targets_nodup_sweep as H. rewrite forallb_forall in H. specialize (H s (in_squares64 s Hs)).
  repeat rewrite andb_true_iff in H. destruct H as ((((((H1 & H2) & H3) & H4) & H5) & H6) & H7).
  repeat split; try (apply nodupb_sound; assumption).
  intros c. unfold pawn_attack_targets in *. destruct (c =? 0); apply nodupb_sound; assumption.
Qed.

(* a ray on a real board is a prefix of the ray on the empty board *)
Lemma walkb_prefix k b d : forall s, exists r, walkb k [] d s = walkb k b d s ++ r.
Proof.
  induction k as [|k IH]; intros s; [exists []; reflexivity|].
  cbn [walkb]. destruct (step d s) as [t|]; [|exists []; reflexivity].
  replace (at_ [] t =? 0) with true by (unfold at_; destruct (N.to_nat t); reflexivity).
  destruct (at_ b t =? 0).
  - destruct (IH t) as (r & Hr). exists r. rewrite Hr. reflexivity.
  - exists (walkb k [] d t). reflexivity.
Qed.
Lemma rays_from_sub b dirs s : Sub (rays_from b dirs s) (rays_from [] dirs s).
Proof.
  unfold rays_from. induction dirs as [|d dirs IH]; cbn [map concat]; [constructor|].
  apply Sub_app; [|exact IH]. destruct (walkb_prefix 7 b d s) as (r & ->). apply Sub_prefix.
Qed.
Lemma rays_from_NoDup b dirs s : s < 64 -> In dirs [rook_dirs; bishop_dirs; all_dirs] -> NoDup (rays_from b dirs s).
Proof.
  intros Hs Hd. eapply Sub_NoDup; [apply rays_from_sub|].
  destruct (targets_nodup s Hs) as (_ & _ & _ & H1 & H2 & H3).
  destruct Hd as [<-|[<-|[<-|[]]]]; assumption.
Qed.
(** ** C. What [Rules.pseudo] contains *)
Definition promo_kind (c : N) (m : mv) : Prop :=
  (mtype m = 0 /\ mprom m = 3 /\ rank_of (mto m) <> last_rank c) \/
  (mtype m = 1 /\ 3 <= mprom m <= 6 /\ rank_of (mto m) = last_rank c).

Definition cls_castle (p : pos) (m : mv) : Prop :=
  mtype m = 3 /\ mprom m = 3 /\ piece_at p (mfrom m) = mk_piece (stm p) KING /\
  ((stm p = 0 /\ mfrom m = 4 /\ (mto m = 6 \/ mto m = 2)) \/
   (stm p <> 0 /\ mfrom m = 60 /\ (mto m = 62 \/ mto m = 58))).

Definition cls_simple (p : pos) (m : mv) : Prop :=
  mtype m = 0 /\ mprom m = 3 /\ type_of (piece_at p (mfrom m)) <> PAWN /\
  (type_of (piece_at p (mfrom m)) = KING -> In (mto m) (king_targets (mfrom m))).

Definition cls_pawn (p : pos) (m : mv) : Prop :=
  let b := brd p in let c := stm p in let s := mfrom m in let t := mto m in
  type_of (piece_at p s) = PAWN /\
  ( (promo_kind c m /\ at_ b t = 0 /\ step (fwd c) s = Some t)
  \/ (mtype m = 0 /\ mprom m = 3 /\ at_ b t = 0 /\ rank_of s = start_rank c /\
      exists u, step (fwd c) s = Some u /\ step (fwd c) u = Some t /\ at_ b u = 0)
  \/ (promo_kind c m /\ In t (pawn_attack_targets c s) /\ enemy b c t = true)
  \/ (mtype m = 2 /\ mprom m = 3 /\ In t (pawn_attack_targets c s) /\ enemy b c t = false /\
      t = ep p /\ at_ b t = 0)).

Definition own (p : pos) (s : N) : Prop :=
  piece_at p s <> 0 /\ colour_of (piece_at p s) = stm p.

Lemma adv_members c s t m :
  In m (if rank_of t =? last_rank c then promos s t else [mkmv s t NORMAL 3]) ->
  mfrom m = s /\ mto m = t /\ promo_kind c m.
Proof.
  unfold promo_kind. destruct (N.eqb_spec (rank_of t) (last_rank c)) as [E|E]; cbn [promos In]; intros H;
    repeat (destruct H as [<-|H]; [cbn [mfrom mto mtype mprom]; unfold NORMAL, PROMOTION, QUEEN, ROOK, BISHOP, KNIGHT; repeat split; lia|]);
    destruct H.
Qed.

Lemma pawn_moves_class p s m : In m (pawn_moves p s) ->
  mfrom m = s /\
  let b := brd p in let c := stm p in let t := mto m in
  ( (promo_kind c m /\ at_ b t = 0 /\ step (fwd c) s = Some t)
  \/ (mtype m = 0 /\ mprom m = 3 /\ at_ b t = 0 /\ rank_of s = start_rank c /\
      exists u, step (fwd c) s = Some u /\ step (fwd c) u = Some t /\ at_ b u = 0)
  \/ (promo_kind c m /\ In t (pawn_attack_targets c s) /\ enemy b c t = true)
  \/ (mtype m = 2 /\ mprom m = 3 /\ In t (pawn_attack_targets c s) /\ enemy b c t = false /\
      t = ep p /\ at_ b t = 0)).
Proof.
  unfold pawn_moves. cbv zeta. intros H. apply in_app_or in H. destruct H as [H|H].
  - destruct (step (fwd (stm p)) s) as [t|] eqn:Et; [|destruct H].
    destruct (at_ (brd p) t =? 0) eqn:E0; [|destruct H]. apply N.eqb_eq in E0.
    apply in_app_or in H. destruct H as [H|H].
    + apply adv_members in H. destruct H as (Hf & Ht & Hk). split; [exact Hf|]. left. rewrite Ht. auto.
    + destruct (rank_of s =? start_rank (stm p)) eqn:Er; [|destruct H]. apply N.eqb_eq in Er.
      destruct (step (fwd (stm p)) t) as [u|] eqn:Eu; [|destruct H].
      destruct (at_ (brd p) u =? 0) eqn:E1; [|destruct H]. apply N.eqb_eq in E1.
      destruct H as [<-|[]]. cbn [mfrom mto mtype mprom]. split; [reflexivity|]. right. left.
      repeat split; try assumption; try reflexivity. exists t. auto.
  - apply in_flat_map in H. destruct H as (t & Ht & H).
    destruct (enemy (brd p) (stm p) t) eqn:Ee.
    + apply adv_members in H. destruct H as (Hf & Hto & Hk). split; [exact Hf|]. right. right. left. rewrite Hto. auto.
    + destruct ((t =? ep p) && (at_ (brd p) t =? 0)) eqn:E2; [|destruct H].
      apply andb_prop in E2. destruct E2 as [E2 E3]. apply N.eqb_eq in E2, E3.
      destruct H as [<-|[]]. cbn [mfrom mto mtype mprom]. split; [reflexivity|]. right. right. right.
      unfold ENPASSANT. repeat split; assumption.
Qed.

Lemma simple_members (s : N) (f : N -> bool) (ts : list N) m :
  In m (map (fun t => mkmv s t NORMAL 3) (filter f ts)) ->
  mfrom m = s /\ mtype m = 0 /\ mprom m = 3 /\ In (mto m) ts.
Proof.
  intros H. apply in_map_iff in H. destruct H as (t & <- & Ht). apply filter_In in Ht. cbn. tauto.
Qed.

Lemma piece_moves_class p s m : s < 64 -> In m (piece_moves p s) ->
  mfrom m = s /\ mto m < 64 /\ own p s /\ (cls_simple p m \/ cls_pawn p m).
Proof.
  intros Hs. unfold piece_moves. cbv zeta. fold (piece_at p s).
  destruct ((piece_at p s =? 0) || negb (colour_of (piece_at p s) =? stm p)) eqn:Eo; [intros []|].
  apply orb_false_elim in Eo. destruct Eo as [Eo1 Eo2]. apply N.eqb_neq in Eo1. apply negb_false_iff in Eo2. apply N.eqb_eq in Eo2.
  assert (Hown : own p s) by (split; assumption).
  destruct (type_of (piece_at p s) =? PAWN) eqn:Ep.
  { apply N.eqb_eq in Ep. intros H. apply pawn_moves_class in H. destruct H as (Hf & H). cbv zeta in H.
    split; [exact Hf|].
    assert (Hto : mto m < 64).
    { destruct H as [(_ & _ & H)|[(_ & _ & _ & _ & u & _ & H & _)|[(_ & H & _)|(_ & _ & H & _)]]].
      - eapply step_lt; exact H.
      - eapply step_lt; exact H.
      - apply (pat_char _ _ _ Hs) in H. lia.
      - apply (pat_char _ _ _ Hs) in H. lia. }
    split; [exact Hto|]. split; [exact Hown|]. right. unfold cls_pawn. cbv zeta. rewrite Hf. split; [exact Ep|exact H]. }
  apply N.eqb_neq in Ep.
  assert (Hsimple : forall ts, (forall t, In t ts -> t < 64) ->
            (type_of (piece_at p s) = KING -> forall t, In t ts -> In t (king_targets s)) ->
            In m (map (fun t => mkmv s t NORMAL 3) (filter (free_or_enemy (brd p) (stm p)) ts)) ->
            mfrom m = s /\ mto m < 64 /\ own p s /\ (cls_simple p m \/ cls_pawn p m)).
  { intros ts Hlt Hk H. apply simple_members in H. destruct H as (Hf & Hty & Hpr & Hin).
    split; [exact Hf|]. split; [apply Hlt; exact Hin|]. split; [exact Hown|]. left. unfold cls_simple. rewrite Hf.
    repeat split; try assumption. intros HK. apply Hk; assumption. }
  destruct (type_of (piece_at p s) =? KNIGHT) eqn:E1.
  { apply N.eqb_eq in E1. apply Hsimple; [apply knight_targets_lt|]. rewrite E1. unfold KNIGHT, KING. discriminate. }
  destruct (type_of (piece_at p s) =? KING) eqn:E2.
  { apply Hsimple; [apply king_targets_lt|auto]. }
  apply N.eqb_neq in E2.
  destruct (type_of (piece_at p s) =? ROOK) eqn:E3.
  { apply Hsimple; [intros t; apply rays_from_lt|contradiction]. }
  destruct (type_of (piece_at p s) =? BISHOP) eqn:E4.
  { apply Hsimple; [intros t; apply rays_from_lt|contradiction]. }
  destruct (type_of (piece_at p s) =? QUEEN) eqn:E5.
  { apply Hsimple; [intros t; apply rays_from_lt|contradiction]. }
  intros [].
Qed.

Lemma castle_moves_class p m : In m (castle_moves p) ->
  mfrom m < 64 /\ mto m < 64 /\ own p (mfrom m) /\ cls_castle p m.
Proof.
  unfold castle_moves, castles. cbv zeta. unfold WHITE.
  destruct (N.eqb_spec (stm p) 0) as [Hc|Hc]; cbn [flat_map]; rewrite app_nil_r; intros H; apply in_app_or in H;
    destruct H as [H|H];
    match type of H with
    | In _ (if ?c then _ else _) => destruct c eqn:E; [|destruct H]
    end;
    destruct H as [<-|[]]; cbn [mfrom mto mtype mprom];
    repeat rewrite andb_true_iff in E; destruct E as (((_ & Ek) & _) & _);
    unfold is_piece in Ek; apply N.eqb_eq in Ek; fold (piece_at p 4) in Ek; fold (piece_at p 60) in Ek;
    (split; [lia|]); (split; [lia|]);
    (split; [unfold own; rewrite Ek; unfold colour_of, mk_piece, KING; split; lia|]);
    unfold cls_castle, CASTLING; cbn [mfrom mto mtype mprom]; (split; [reflexivity|]); (split; [reflexivity|]);
    (split; [exact Ek|]); lia.
Qed.

Lemma pseudo_class p m : In m (pseudo p) ->
  mfrom m < 64 /\ mto m < 64 /\ own p (mfrom m) /\ (cls_castle p m \/ cls_simple p m \/ cls_pawn p m).
Proof.
  unfold pseudo. intros H. apply in_app_or in H. destruct H as [H|H].
  - apply in_flat_map in H. destruct H as (s & Hs & H). apply squares64_lt in Hs.
    apply (piece_moves_class p s m Hs) in H. destruct H as (Hf & Ht & Ho & Hc). rewrite Hf. tauto.
  - apply castle_moves_class in H. tauto.
Qed.

Lemma mv_eq m1 m2 : mfrom m1 = mfrom m2 -> mto m1 = mto m2 -> mtype m1 = mtype m2 -> mprom m1 = mprom m2 -> m1 = m2.
Proof. destruct m1, m2. cbn. intros; subst; reflexivity. Qed.

Lemma type_of_king c : type_of (mk_piece c KING) = KING.
Proof. unfold type_of, mk_piece, KING. lia. Qed.

Lemma castle_not_king_step s t :
  (s = 4 /\ (t = 6 \/ t = 2)) \/ (s = 60 /\ (t = 62 \/ t = 58)) -> ~ In t (king_targets s).
Proof.
  intros [(-> & [-> | ->])|(-> & [-> | ->])] H; vm_compute in H;
    repeat (destruct H as [H|H]; [discriminate H|]); exact H.
Qed.

Lemma promo_kind_same c m1 m2 : promo_kind c m1 -> promo_kind c m2 ->
  (mtype m1 = 1 <-> mtype m2 = 1) -> (mtype m1 = 1 -> mprom m1 = mprom m2) ->
  mtype m1 = mtype m2 /\ mprom m1 = mprom m2.
Proof. unfold promo_kind. intros H1 H2 Hi Hp. destruct H1 as [(A & B & _)|(A & B & _)], H2 as [(C & D & _)|(C & D & _)]; split; try lia; try (apply Hp; lia). Qed.

(** among pseudo-legal (hence among legal) moves, (from, to, is-promotion, promotion piece)
    determines the move: castling cannot coincide with a king step, en passant cannot
    coincide with an ordinary pawn move. *)
Lemma pseudo_key_inj p m1 m2 :
  In m1 (pseudo p) -> In m2 (pseudo p) ->
  mfrom m1 = mfrom m2 -> mto m1 = mto m2 ->
  (mtype m1 = 1 <-> mtype m2 = 1) -> (mtype m1 = 1 -> mprom m1 = mprom m2) -> m1 = m2.
Proof.
  intros H1 H2 Hf Ht Hi Hp.
  apply pseudo_class in H1, H2.
  destruct H1 as (Hs1 & Ht1 & _ & C1). destruct H2 as (Hs2 & Ht2 & _ & C2).
  unfold cls_castle, cls_simple, cls_pawn in C1, C2. cbv zeta in C1, C2.
  rewrite <- Hf, <- Ht in C2.
  destruct C1 as [(A1 & A2 & A3 & A4)|[(A1 & A2 & A3 & A4)|(A1 & A2)]];
  destruct C2 as [(B1 & B2 & B3 & B4)|[(B1 & B2 & B3 & B4)|(B1 & B2)]].
  - apply mv_eq; congruence.
  - exfalso. rewrite A3, type_of_king in B4. specialize (B4 eq_refl).
    revert B4. apply castle_not_king_step. lia.
  - exfalso. rewrite A3, type_of_king in B1. discriminate B1.
  - exfalso. rewrite B3, type_of_king in A4. specialize (A4 eq_refl).
    revert A4. apply castle_not_king_step. lia.
  - apply mv_eq; congruence.
  - contradiction.
  - exfalso. rewrite B3, type_of_king in A1. discriminate A1.
  - contradiction.
  - (* pawn / pawn *)
    destruct A2 as [(K1 & E1 & S1)|[(Y1 & P1 & E1 & R1 & u1 & S1 & S1' & F1)|[(K1 & I1 & N1)|(Y1 & P1 & I1 & N1 & X1 & Z1)]]];
    destruct B2 as [(K2 & E2 & S2)|[(Y2 & P2 & E2 & R2 & u2 & S2 & S2' & F2)|[(K2 & I2 & N2)|(Y2 & P2 & I2 & N2 & X2 & Z2)]]];
    try (apply mv_eq; [exact Hf|exact Ht|congruence|congruence]);
    try (destruct (promo_kind_same _ m1 m2 K1 K2 Hi Hp); apply mv_eq; assumption);
    try congruence;
    exfalso;
    repeat match goal with
           | H : step (fwd _) ?a = Some ?b |- _ =>
               let Hb := fresh "Hb" in assert (Hb : b < 64) by (eapply step_lt; exact H);
               apply fwd_char in H; [|assumption]
           | H : In _ (pawn_attack_targets _ _) |- _ => apply pat_char in H; [|assumption]
           end; lia.
Qed.

(** the pseudo-legal (hence the legal) move list has no duplicates *)
Lemma adv_NoDup c s t : NoDup (if rank_of t =? last_rank c then promos s t else [mkmv s t NORMAL 3]).
Proof.
  destruct (rank_of t =? last_rank c); unfold promos; repeat constructor; cbn [In]; intros H;
    repeat (destruct H as [H|H]; [discriminate H|]); exact H.
Qed.

Lemma pawn_moves_NoDup p s : s < 64 -> NoDup (pawn_moves p s).
Proof.
  intros Hs. unfold pawn_moves. cbv zeta. apply NoDup_app_intro.
  - destruct (step (fwd (stm p)) s) as [t|] eqn:Et; [|constructor].
    destruct (at_ (brd p) t =? 0); [|constructor].
    apply NoDup_app_intro; [apply adv_NoDup| |].
    + destruct (rank_of s =? start_rank (stm p)); [|constructor].
      destruct (step (fwd (stm p)) t) as [u|]; [|constructor].
      destruct (at_ (brd p) u =? 0); repeat constructor. intros [].
    + intros x Hx1 Hx2. apply adv_members in Hx1. destruct Hx1 as (_ & Hto & _).
      destruct (rank_of s =? start_rank (stm p)); [|destruct Hx2].
      destruct (step (fwd (stm p)) t) as [u|] eqn:Eu; [|destruct Hx2].
      destruct (at_ (brd p) u =? 0); [|destruct Hx2]. destruct Hx2 as [<-|[]]. cbn [mto] in Hto.
      assert (Ht : t < 64) by (eapply step_lt; exact Et).
      apply fwd_char in Eu; [|exact Ht]. lia.
  - apply (NoDup_flat_map_key mto).
    + destruct (targets_nodup s Hs) as (_ & _ & H & _). apply H.
    + intros t _. destruct (enemy (brd p) (stm p) t); [apply adv_NoDup|].
      destruct ((t =? ep p) && (at_ (brd p) t =? 0)); repeat constructor. intros [].
    + intros t y _ Hy. destruct (enemy (brd p) (stm p) t).
      * apply adv_members in Hy. tauto.
      * destruct ((t =? ep p) && (at_ (brd p) t =? 0)); [|destruct Hy]. destruct Hy as [<-|[]]. reflexivity.
  - intros x Hx1 Hx2.
    assert (Hpat : In (mto x) (pawn_attack_targets (stm p) s)).
    { apply in_flat_map in Hx2. destruct Hx2 as (t & Ht & Hy). destruct (enemy (brd p) (stm p) t).
      - apply adv_members in Hy. destruct Hy as (_ & -> & _). exact Ht.
      - destruct ((t =? ep p) && (at_ (brd p) t =? 0)); [|destruct Hy]. destruct Hy as [<-|[]]. exact Ht. }
    apply pat_char in Hpat; [|exact Hs].
    destruct (step (fwd (stm p)) s) as [t|] eqn:Et; [|destruct Hx1].
    assert (Ht : t < 64) by (eapply step_lt; exact Et).
    apply fwd_char in Et; [|exact Hs].
    destruct (at_ (brd p) t =? 0); [|destruct Hx1].
    apply in_app_or in Hx1. destruct Hx1 as [Hx1|Hx1].
    + apply adv_members in Hx1. destruct Hx1 as (_ & Hto & _). lia.
    + destruct (rank_of s =? start_rank (stm p)); [|destruct Hx1].
      destruct (step (fwd (stm p)) t) as [u|] eqn:Eu; [|destruct Hx1].
      destruct (at_ (brd p) u =? 0); [|destruct Hx1]. destruct Hx1 as [<-|[]]. cbn [mto] in Hpat.
      apply fwd_char in Eu; [|exact Ht]. lia.
Qed.

Lemma piece_moves_NoDup p s : s < 64 -> NoDup (piece_moves p s).
Proof.
  intros Hs. unfold piece_moves. cbv zeta.
  destruct (_ || _); [constructor|].
  assert (Hsimple : forall ts, NoDup ts ->
            NoDup (map (fun t => mkmv s t NORMAL 3) (filter (free_or_enemy (brd p) (stm p)) ts))).
  { intros ts Hn. apply NoDup_map_inj; [intros x y H; injection H; auto|apply NoDup_filter; exact Hn]. }
  destruct (targets_nodup s Hs) as (Hkn & Hki & _).
  destruct (_ =? PAWN); [apply pawn_moves_NoDup; exact Hs|].
  destruct (_ =? KNIGHT); [apply Hsimple; exact Hkn|].
  destruct (_ =? KING); [apply Hsimple; exact Hki|].
  destruct (_ =? ROOK); [apply Hsimple; apply rays_from_NoDup; cbn; auto|].
  destruct (_ =? BISHOP); [apply Hsimple; apply rays_from_NoDup; cbn; auto|].
  destruct (_ =? QUEEN); [apply Hsimple; apply rays_from_NoDup; cbn; auto|].
  constructor.
Qed.

Lemma castle_moves_NoDup p : NoDup (castle_moves p).
Proof.
  unfold castle_moves, castles. cbv zeta.
  destruct (stm p =? WHITE); cbn [flat_map]; rewrite app_nil_r;
    repeat match goal with |- context [if ?c then [_] else []] => destruct c end;
    repeat constructor; cbn [In app]; intros H; repeat (destruct H as [H|H]; [discriminate H|]); exact H.
Qed.

Lemma pseudo_NoDup p : NoDup (pseudo p).
Proof.
  unfold pseudo. apply NoDup_app_intro.
  - apply (NoDup_flat_map_key mfrom); [apply squares64_NoDup| |].
    + intros s Hs. apply piece_moves_NoDup. apply squares64_lt. exact Hs.
    + intros s y Hs Hy. apply squares64_lt in Hs. apply (piece_moves_class p s y Hs) in Hy. tauto.
  - apply castle_moves_NoDup.
  - intros x Hx1 Hx2. apply castle_moves_class in Hx2. destruct Hx2 as (_ & _ & _ & (H3 & _)).
    apply in_flat_map in Hx1. destruct Hx1 as (s & Hs & Hx1). apply squares64_lt in Hs.
    apply (piece_moves_class p s x Hs) in Hx1. destruct Hx1 as (_ & _ & _ & [(H0 & _)|(_ & Hp)]); [congruence|].
    unfold promo_kind in Hp. cbv zeta in Hp.
    destruct Hp as [(K & _)|[(K & _)|[(K & _)|(K & _)]]]; try destruct K as [(K & _)|(K & _)]; congruence.
Qed.

Lemma legal_in_pseudo p m : In m (legal p) -> In m (pseudo p).
Proof. unfold legal. intros H. apply filter_In in H. tauto. Qed.
Lemma legal_NoDup p : NoDup (legal p).
Proof. unfold legal. apply NoDup_filter. apply pseudo_NoDup. Qed.

(** ** D. UCI *)
Lemma file_of_lt8 s : file_of s < 8.
Proof. rewrite file_of_mod. lia. Qed.
Lemma rank_of_lt8 s : s < 64 -> rank_of s < 8.
Proof. rewrite rank_of_div. lia. Qed.
Lemma sq_of_file_rank s : s = 8 * rank_of s + file_of s.
Proof. rewrite file_of_mod, rank_of_div. lia. Qed.

Lemma square_string_valid s : s < 64 -> square_string s = sq_name s.
Proof. intros Hs. unfold square_string, sq_name, file_ch, rank_ch. destruct (N.ltb_spec s 64); [reflexivity|lia]. Qed.
Lemma sq_name_inj s t : sq_name s = sq_name t -> s = t.
Proof.
  unfold sq_name, file_ch, rank_ch. intros H.
  assert (Hf : 97 + file_of s = 97 + file_of t) by congruence.
  assert (Hr : 49 + rank_of s = 49 + rank_of t) by congruence.
  pose proof (sq_of_file_rank s). pose proof (sq_of_file_rank t). lia.
Qed.
Lemma file_ch_class s : is_file_ch (file_ch s) = true.
Proof. unfold is_file_ch, file_ch. pose proof (file_of_lt8 s). lia. Qed.
Lemma rank_ch_class s : s < 64 -> is_rank_ch (rank_ch s) = true.
Proof. intros Hs. unfold is_rank_ch, rank_ch. pose proof (rank_of_lt8 s Hs). lia. Qed.

Lemma pseudo_prom_range p m : In m (pseudo p) -> mtype m = 1 -> 3 <= mprom m <= 6.
Proof.
  intros H Hty. apply pseudo_class in H. destruct H as (_ & _ & _ & [C|[C|C]]).
  - destruct C as (C & _). congruence.
  - destruct C as (C & _). congruence.
  - destruct C as (_ & C). cbv zeta in C. unfold promo_kind in C.
    destruct C as [(K & _)|[(K & _)|[(K & _)|(K & _)]]]; try congruence;
      destruct K as [(K & _)|(_ & K & _)]; try congruence; exact K.
Qed.

Lemma range36 a : 3 <= a <= 6 -> a = 3 \/ a = 4 \/ a = 5 \/ a = 6.
Proof. lia. Qed.
Lemma pt_char_inj36 a b : 3 <= a <= 6 -> 3 <= b <= 6 -> pt_char a = pt_char b -> a = b.
Proof.
  intros Ha Hb. apply range36 in Ha, Hb.
  destruct Ha as [-> | [-> | [-> | ->]]], Hb as [-> | [-> | [-> | ->]]]; vm_compute; intros H; try reflexivity; discriminate H.
Qed.
Lemma pt_letter_char36 a : 3 <= a <= 6 -> pt_letter a = pt_char a.
Proof. intros Ha. apply range36 in Ha. destruct Ha as [-> | [-> | [-> | ->]]]; reflexivity. Qed.
Lemma pt_char36_prom a : 3 <= a <= 6 -> is_prom_ch (pt_char a) = true.
Proof. intros Ha. apply range36 in Ha. destruct Ha as [-> | [-> | [-> | ->]]]; reflexivity. Qed.

(* the engine's own UCI printer is injective on pseudo-legal (hence on legal) moves *)
Lemma string_uci_inj p m1 m2 : In m1 (pseudo p) -> In m2 (pseudo p) -> string_uci m1 = string_uci m2 -> m1 = m2.
Proof.
  intros H1 H2 Hs.
  pose proof (pseudo_class p m1 H1) as (F1 & T1 & _). pose proof (pseudo_class p m2 H2) as (F2 & T2 & _).
  pose proof (pseudo_prom_range p m1 H1) as P1. pose proof (pseudo_prom_range p m2 H2) as P2.
  unfold string_uci in Hs. rewrite !square_string_valid in Hs by assumption. unfold PROMOTION in Hs.
  assert (Hsq : forall a b c d x y, sq_name a ++ sq_name b ++ x = sq_name c ++ sq_name d ++ y -> a = c /\ b = d /\ x = y).
  { intros a b c d x y H. cbn [sq_name app] in H. injection H as E1 E2 E3 E4 E5.
    split; [apply sq_name_inj; unfold sq_name; congruence|]. split; [apply sq_name_inj; unfold sq_name; congruence|exact E5]. }
  apply Hsq in Hs. destruct Hs as (Ef & Et & Ex).
  apply (pseudo_key_inj p); try assumption.
  - destruct (N.eqb_spec (mtype m1) 1), (N.eqb_spec (mtype m2) 1); try discriminate Ex; tauto.
  - intros Hy. destruct (N.eqb_spec (mtype m1) 1) as [_|]; [|contradiction].
    destruct (N.eqb_spec (mtype m2) 1) as [Hy2|]; [|discriminate Ex].
    injection Ex as Ex. apply pt_char_inj36; auto.
Qed.

(* the specification's UCI string (lower-case promotion letter) differs from the engine's
   only in the letter case *)
Definition uci_suffix_ok (m : mv) (suffix : option N) : Prop :=
  match suffix with
  | None => mtype m <> 1
  | Some e => mtype m = 1 /\ is_uciprom_ch e = true /\ to_upper e = pt_char (mprom m)
  end.

Lemma uci_at_wf a b c d (suffix : option N) (rest : str) :
  is_file_ch a = true -> is_rank_ch b = true -> is_file_ch c = true -> is_rank_ch d = true ->
  match suffix with Some e => is_uciprom_ch e = true | None => match rest with [] => True | e :: _ => is_uciprom_ch e = false end end ->
  uci_find ([a; b; c; d] ++ match suffix with Some e => e :: rest | None => rest end)
  = Some ([a; b; c; d], suffix).
Proof.
  intros Ha Hb Hc Hd Hs. cbn [app uci_find]. unfold uci_at. rewrite Ha, Hb, Hc, Hd. cbn [andb].
  destruct suffix as [e|]; [rewrite Hs; reflexivity|]. destruct rest as [|e r]; [reflexivity|rewrite Hs; reflexivity].
Qed.

(* core: a string consisting of the two squares of a legal move and a fitting promotion
   letter (any case) - possibly followed by junk that is not a promotion letter - parses to
   exactly that move *)
Lemma from_uci_core p m (suffix : option N) (rest : str) :
  In m (legal p) -> uci_suffix_ok m suffix ->
  match suffix with Some _ => True | None => match rest with [] => True | e :: _ => is_uciprom_ch e = false end end ->
  from_uci p (sq_name (mfrom m) ++ sq_name (mto m) ++ match suffix with Some e => e :: rest | None => rest end) = Some m.
Proof.
  intros Hm Hsuf Hrest. pose proof (legal_in_pseudo p m Hm) as Hps.
  pose proof (pseudo_class p m Hps) as (Hf & Ht & _).
  unfold from_uci.
  change (sq_name (mfrom m) ++ sq_name (mto m) ++ match suffix with Some e => e :: rest | None => rest end)
    with ([file_ch (mfrom m); rank_ch (mfrom m); file_ch (mto m); rank_ch (mto m)] ++ match suffix with Some e => e :: rest | None => rest end).
  rewrite uci_at_wf; try apply file_ch_class; try (apply rank_ch_class; assumption).
  2:{ destruct suffix as [e|]; [destruct Hsuf as (_ & H & _); exact H|exact Hrest]. }
  set (want := [file_ch (mfrom m); rank_ch (mfrom m); file_ch (mto m); rank_ch (mto m)] ++ match suffix with Some e => [to_upper e] | None => [] end).
  assert (Hwant : string_uci m = want).
  { unfold string_uci, want. rewrite !square_string_valid by assumption. cbn [sq_name app]. unfold PROMOTION.
    destruct suffix as [e|]; cbn in Hsuf.
    - destruct Hsuf as (Hy & _ & Hu). rewrite Hy, Hu. reflexivity.
    - destruct (N.eqb_spec (mtype m) 1); [contradiction|reflexivity]. }
  destruct (find_first_sat (fun m' => str_eqb (string_uci m') want) (legal p) m Hm) as (m' & Hfind & Hin' & Hsat).
  { rewrite Hwant. apply str_eqb_refl. }
  rewrite Hfind. f_equal. apply str_eqb_eq in Hsat. apply (string_uci_inj p); [apply legal_in_pseudo; exact Hin'|exact Hps|congruence].
Qed.

(** uci_roundtrip: the specification's UCI string (lower-case promotion letter) *)
Theorem uci_roundtrip : forall p m, legal_pos p = true -> In m (legal p) ->
  exists m', from_uci p (uci_str m) = Some m' /\ code m' = code m.
Proof.
  intros p m _ Hm. exists m. split; [|reflexivity].
  pose proof (pseudo_prom_range p m (legal_in_pseudo p m Hm)) as Hpr.
  unfold uci_str, PROMOTION. destruct (N.eqb_spec (mtype m) 1) as [Hy|Hy].
  - apply (from_uci_core p m (Some (pt_letter (mprom m) + 32)) [] Hm); [|exact I].
    cbn. split; [exact Hy|]. specialize (Hpr Hy). apply range36 in Hpr.
    destruct Hpr as [-> | [-> | [-> | ->]]]; split; reflexivity.
  - apply (from_uci_core p m None [] Hm); [exact Hy|exact I].
Qed.
(* the strong form, and the same for the engine's own printer (upper-case letter) *)
Theorem uci_roundtrip_eq : forall p m, In m (legal p) -> from_uci p (uci_str m) = Some m.
Proof.
  intros p m Hm.
  pose proof (pseudo_prom_range p m (legal_in_pseudo p m Hm)) as Hpr.
  unfold uci_str, PROMOTION. destruct (N.eqb_spec (mtype m) 1) as [Hy|Hy].
  - apply (from_uci_core p m (Some (pt_letter (mprom m) + 32)) [] Hm); [|exact I].
    cbn. split; [exact Hy|]. specialize (Hpr Hy). apply range36 in Hpr.
    destruct Hpr as [-> | [-> | [-> | ->]]]; split; reflexivity.
  - apply (from_uci_core p m None [] Hm); [exact Hy|exact I].
Qed.
Theorem uci_roundtrip_engine_printer : forall p m, In m (legal p) -> from_uci p (string_uci m) = Some m.
Proof.
  intros p m Hm. pose proof (legal_in_pseudo p m Hm) as Hps.
  pose proof (pseudo_class p m Hps) as (Hf & Ht & _).
  pose proof (pseudo_prom_range p m Hps) as Hpr.
  unfold string_uci, PROMOTION. rewrite !square_string_valid by assumption.
  destruct (N.eqb_spec (mtype m) 1) as [Hy|Hy].
  - apply (from_uci_core p m (Some (pt_char (mprom m))) [] Hm); [|exact I].
    cbn. split; [exact Hy|]. specialize (Hpr Hy). apply range36 in Hpr.
    destruct Hpr as [-> | [-> | [-> | ->]]]; split; reflexivity.
  - apply (from_uci_core p m None [] Hm); [exact Hy|exact I].
Qed.

(* anything the parser returns is a legal move whose printed form is the matched text *)
Lemma from_uci_sound p s m : from_uci p s = Some m ->
  In m (legal p) /\ exists mp pr, uci_find s = Some (mp, pr) /\
     string_uci m = mp ++ match pr with Some e => [to_upper e] | None => [] end.
Proof.
  unfold from_uci. destruct (uci_find s) as [(mp, pr)|]; [|discriminate].
  intros H. apply find_some in H. destruct H as (Hin & Heq). split; [exact Hin|].
  exists mp, pr. split; [reflexivity|]. apply str_eqb_eq. exact Heq.
Qed.

(** uci_unknown_none: a well-formed coordinate string (exactly four or five characters of
    the right classes) that is the UCI string of no legal move - in either letter case of
    the promotion piece - yields no move. *)
Definition uci_wellformed (s : str) : bool :=
  match s with
  | [a; b; c; d] => is_file_ch a && is_rank_ch b && is_file_ch c && is_rank_ch d
  | [a; b; c; d; e] => is_file_ch a && is_rank_ch b && is_file_ch c && is_rank_ch d && is_uciprom_ch e
  | _ => false
  end.

Theorem uci_unknown_none : forall p s, uci_wellformed s = true ->
  (forall m, In m (legal p) -> s <> uci_str m /\ s <> string_uci m) -> from_uci p s = None.
Proof.
  intros p s Hwf Hno. destruct (from_uci p s) as [m|] eqn:E; [exfalso|reflexivity].
  apply from_uci_sound in E. destruct E as (Hm & mp & pr & Hfind & Hstr).
  pose proof (legal_in_pseudo p m Hm) as Hps.
  pose proof (pseudo_class p m Hps) as (Hf & Ht & _).
  pose proof (pseudo_prom_range p m Hps) as Hpr.
  destruct (Hno m Hm) as (Hn1 & Hn2).
  destruct s as [|a [|b [|c [|d [|e [|x r]]]]]]; try discriminate Hwf.
  - (* four characters *)
    cbn [uci_wellformed] in Hwf. cbn [uci_find] in Hfind. unfold uci_at in Hfind. rewrite Hwf in Hfind.
    injection Hfind as <- <-. rewrite app_nil_r in Hstr. congruence.
  - cbn [uci_wellformed] in Hwf. apply andb_prop in Hwf. destruct Hwf as (Hwf & He).
    cbn [uci_find] in Hfind. unfold uci_at in Hfind. rewrite Hwf, He in Hfind.
    injection Hfind as <- <-. cbn [app] in Hstr.
    (* m is a promotion, its piece letter is the upper case of e *)
    unfold string_uci, PROMOTION in Hstr. rewrite !square_string_valid in Hstr by assumption.
    destruct (N.eqb_spec (mtype m) 1) as [Hy|Hy]; [|discriminate Hstr].
    cbn [sq_name app] in Hstr. injection Hstr as E1 E2 E3 E4 E5.
    specialize (Hpr Hy).
    unfold is_uciprom_ch, is_prom_ch in He.
    assert (Hcase : to_upper e = e \/ (to_upper e + 32 = e)) by (unfold to_upper; destruct ((97 <=? e) && (e <=? 122)) eqn:Ec; lia).
    destruct Hcase as [Hup|Hlow].
    + apply Hn2. unfold string_uci, PROMOTION. rewrite !square_string_valid by assumption.
      destruct (N.eqb_spec (mtype m) 1); [|contradiction]. cbn [sq_name app]. congruence.
    + apply Hn1. unfold uci_str, PROMOTION. destruct (N.eqb_spec (mtype m) 1); [|contradiction].
      cbn [sq_name app]. rewrite pt_letter_char36 by exact Hpr. congruence.
Qed.

(** ** E. The SAN matcher on strings of the SAN shape *)
Definition o2l (o : option N) : str := match o with Some c => [c] | None => [] end.

(* character classes as complete tables of the five tests the prefix matcher performs *)
Definition c_piece (c : N) : Prop := is_piece_ch c = true.
Definition c_file (c : N) : Prop :=
  is_piece_ch c = false /\ is_file_ch c = true /\ is_rank_ch c = false /\ is_x_ch c = false /\ (c =? 79) = false.
Definition c_rank (c : N) : Prop :=
  is_piece_ch c = false /\ is_file_ch c = false /\ is_rank_ch c = true /\ is_x_ch c = false /\ (c =? 79) = false.
Definition c_x (c : N) : Prop :=
  is_piece_ch c = false /\ is_file_ch c = false /\ is_rank_ch c = false /\ is_x_ch c = true /\ (c =? 79) = false.
Definition tail_ok (T : str) : Prop :=
  match T with [] => True | c :: _ => is_file_ch c = false /\ is_x_ch c = false /\ (c =? 79) = false end.
Definition opt_ok (cls : N -> Prop) (o : option N) : Prop := match o with Some c => cls c | None => True end.

Lemma file_is_c_file c : is_file_ch c = true -> c_file c.
Proof. unfold c_file, is_piece_ch, is_prom_ch, is_file_ch, is_rank_ch, is_x_ch. lia. Qed.
Lemma rank_is_c_rank c : is_rank_ch c = true -> c_rank c.
Proof. unfold c_rank, is_piece_ch, is_prom_ch, is_file_ch, is_rank_ch, is_x_ch. lia. Qed.
Lemma x_is_c_x : c_x 120.
Proof. unfold c_x. repeat split; reflexivity. Qed.

Ltac san_facts :=
  repeat match goal with
         | H : c_piece _ |- _ => unfold c_piece in H
         | H : c_file _ |- _ => destruct H as (? & ? & ? & ? & ?)
         | H : c_rank _ |- _ => destruct H as (? & ? & ? & ? & ?)
         | H : c_x _ |- _ => destruct H as (? & ? & ? & ? & ?)
         | H : tail_ok (_ :: _) |- _ => destruct H as (? & ? & ?)
         end.
Ltac san_rw :=
  repeat match goal with
         | H : ?t = true |- context [?t] => rewrite H
         | H : ?t = false |- context [?t] => rewrite H
         end.
Ltac san_eval :=
  unfold san_at, opt_eat, san_g4, san_sq_alt;
  repeat (cbv beta iota fix delta [strip_prefix app andb orb o2l]; san_rw);
  try reflexivity.

(* the general shape lemma: whatever optional parts are present, a string
   [piece][file][rank][x] square tail   is matched at position 0 with exactly these groups *)
Lemma san_at_shape (g1 g2 g3 : option N) (X : option N) (F R : N) (T : str) :
  opt_ok c_piece g1 -> opt_ok c_file g2 -> opt_ok c_rank g3 -> opt_ok c_x X ->
  c_file F -> c_rank R -> tail_ok T ->
  san_at (o2l g1 ++ o2l g2 ++ o2l g3 ++ o2l X ++ [F; R] ++ T)
  = Some (mk_sf g1 g2 g3 (TSq F R) (san_g6 T)).
Proof.
  intros H1 H2 H3 HX HF HR HT.
  destruct g1 as [L|], g2 as [f|], g3 as [r|], X as [x|], T as [|c T']; cbn [opt_ok] in *; san_facts; san_eval.
Qed.
