(** * Terminal: when the search classifies a node as checkmate / stalemate (property C07)

    Model of the code that EXISTS in /repo/internal/search:
      alphabeta.go  search   move loop :431-718 (the clauses that decide whether a move is
                             counted in movesSearched / movesPruned), classification :727-744
                    qsearch  move loop :886-987, classification :994-1011
      search.go     iterativeDeepening :423-441 (root without legal moves)

    Input of a loop: the moves DELIVERED by GetNextMove in delivery order, each with its
    legality ([true] = p.WasLegalMove() after DoMove).  In [search] these are the pseudo-legal
    moves of mode GenAll (only check evasions when in check, :431), in [qsearch] GenAll when
    in check and GenNonQuiet otherwise (:876-887).  By C08 (generator) and C01 (legal moves)
    every legal move of the position is among the moves delivered in mode GenAll.
    [hl] = the answer of myMg.HasLegalMove(p) (:728): true iff the position has a legal move
    (movegen.go:358, shown equal to that elsewhere).

    Everything else is an oracle answer per loop iteration: whether the forward-pruning block
    is entered, whether the futility test / LMP are switched on and fire, whether the stop is
    observed, whether the move causes a beta cut-off.  Theorems quantify over all oracles. *)

From Coq Require Import List ZArith Bool Arith Lia.
Import ListNotations.

(** types/value.go: ValueCheckMate = ValueMax = 10000, ValueDraw = 0 *)
Definition MATE : Z := 10000.
Definition DRAW : Z := 0.

Inductive verdict := VNone | VMate | VStalemate.

(** ** search *)

Record ldec := mkLdec {
  ld_guard : bool;   (* the conjuncts of :511-520 other than !hasCheck: !isPV, extension == 0,
                        move != ttMove, not a killer, no promotion, no capture, !givesCheck, !matethreat *)
  ld_fut : bool;     (* UseFP && depth < 7 && staticEval+moveGain+margin <= alpha  :536-538 *)
  ld_lmp : bool;     (* UseLmp :551 *)
  ld_stop : bool;    (* stopConditions() after the move was searched :646 *)
  ld_cut : bool      (* value > bestNodeValue && value > alpha && value >= beta :652-698 break *)
}.

(** result of the move loop: movesSearched, movesPruned, and whether the function already
    returned ValueNA from inside the loop (:647) *)
Record lres := mkLres { r_searched : nat; r_pruned : nat; r_returned : bool }.

(** [thr] = LmpMovesSearched(depth) (params.go:90-95) *)
Fixpoint sloop (in_check : bool) (thr : nat) (dec : nat -> ldec) (l : list bool) (i : nat) (ms mp : nat) : lres :=
  match l with
  | [] => mkLres ms mp false
  | lg :: l' =>
      let d := dec i in
      let domove :=                                        (* :586 DoMove *)
        if negb lg then sloop in_check thr dec l' (S i) ms mp           (* :589-592 illegal: undo, continue *)
        else                                                            (* legal: searched, :639 movesSearched++ *)
          if ld_stop d then mkLres (S ms) mp true                       (* :646-648 return ValueNA *)
          else if ld_cut d then mkLres (S ms) mp false                  (* :673-698 break *)
          else sloop in_check thr dec l' (S i) (S ms) mp in
      if negb in_check && ld_guard d then                  (* :511-520 *)
        if ld_fut d then sloop in_check thr dec l' (S i) ms (S mp)      (* :536-546 movesPruned++; continue *)
        else if ld_lmp d && (thr <=? ms)                                (* :551-552 *)
             then sloop in_check thr dec l' (S i) ms mp                 (* :553-554 continue (not counted) *)
             else domove
      else domove
  end.

(** :727-744; [probe] = the clause [(movesPruned == 0 || !myMg.HasLegalMove(p))] is present
    (real code: [true]; [false] = the code before the repair, see TerminalProofs) *)
Definition classify (probe in_check hl : bool) (stop_end : bool) (r : lres) : verdict :=
  if r_returned r then VNone
  else if (r_searched r =? 0) && negb stop_end                          (* :727 *)
          && (if probe then (r_pruned r =? 0) || negb hl else true)     (* :728 *)
       then if in_check then VMate else VStalemate                      (* :729 p.HasCheck() *)
       else VNone.

Definition search_verdict (probe in_check hl : bool) (thr : nat) (dec : nat -> ldec) (stop_end : bool)
           (flags : list bool) : verdict :=
  classify probe in_check hl stop_end (sloop in_check thr dec flags 0 0 0).

(** the value stored for a classified node :731 / :737 *)
Definition terminal_value (v : verdict) (ply : Z) : option Z :=
  match v with
  | VMate => Some (- MATE + ply)%Z
  | VStalemate => Some DRAW
  | VNone => None
  end.

(** ** qsearch *)

Record qdec := mkQdec {
  q_guard : bool;    (* UseQFP && !isPV && move != ttMove && not a killer && no promotion && !givesCheck :896-903 *)
  q_fut : bool;      (* staticEval+moveGain+150 <= alpha :909 *)
  q_good : bool;     (* s.goodCapture(p, move) :920 *)
  q_stop : bool;     (* :956 *)
  q_cut : bool       (* :961-980 break *)
}.

Fixpoint qloop (in_check : bool) (dec : nat -> qdec) (l : list bool) (i : nat) (ms : nat) : lres :=
  match l with
  | [] => mkLres ms 0 false
  | lg :: l' =>
      let d := dec i in
      if negb in_check && q_guard d && q_fut d                          (* :896-916 continue *)
      then qloop in_check dec l' (S i) ms
      else if negb in_check && negb (q_good d)                          (* :920-922 continue *)
      then qloop in_check dec l' (S i) ms
      else if negb lg then qloop in_check dec l' (S i) ms               (* :929-932 *)
      else if q_stop d then mkLres (S ms) 0 true                        (* :949, :956-958 *)
      else if q_cut d then mkLres (S ms) 0 false                        (* :965-980 *)
      else qloop in_check dec l' (S i) (S ms)
  end.

Fixpoint pick {A} (idx : list nat) (l : list A) : list A :=
  match idx with
  | [] => []
  | i :: r => match nth_error l i with Some x => x :: pick r l | None => pick r l end
  end.

(** [flags] = the GenAll moves; [nonquiet] = which of them GenNonQuiet delivers (:876-887).
    Mate is the only classification in qsearch (:994-1011). *)
Definition qsearch_verdict (in_check : bool) (dec : nat -> qdec) (stop_end : bool)
           (flags : list bool) (nonquiet : list nat) : verdict :=
  let l := if in_check then flags else pick nonquiet flags in
  let r := qloop in_check dec l 0 0 in
  if r_returned r then VNone
  else if (r_searched r =? 0) && negb stop_end && in_check then VMate   (* :994-997 *)
       else VNone.

(** ** Root (search.go:423-441): rootMoves = the legal moves; none -> the result is built
    without a search: BestMove = MoveNone (zero value), BestValue = -ValueCheckMate when in
    check and ValueDraw otherwise. *)
Definition root_terminal (in_check : bool) (legal : list N) : option (option N * Z) :=
  match legal with
  | [] => Some (None, if in_check then (- MATE)%Z else DRAW)
  | _ :: _ => None
  end.
