(** * TTProofs — the contract of the transposition table (property C11)

    Theorems about the executable model in TTImpl.v.  Main results:

    - [probe_sound]            lookups (k <> 0) return exactly the binding of the abstract
                               key-indexed map [spec] (which contains the eviction rule)
    - [probe_sound_last_put]   trace form: a hit for k <> 0 is the LAST [OPut k ..] of the
                               history, with no Clear/Resize after it
    - [probe_sound_value]      ... and its value/move/depth/type/mate-threat decode intact
    - [never_foreign]          a lookup for k never yields an entry with another key
    - [value_roundtrip]        SetValue/ValueOf/MoveOf round trip on valid values
    - [mate_adjust(_iff)]      valueFromTT (valueToTT v ply) ply = v, exact domain
    - [replace_policy(_iff)]   a colliding Put replaces iff deeper, or equally deep and aged
    - [count_exact]            Len = occupied slots, Hashfull = 1000*occupied/cap (no Put under key 0)
    - [capacity_exact]         capacity = largest power of two of 16-byte entries that fit
    - [index_in_range]         data[hash(key)] never indexes out of range

    [_refuted] lemmas are vm_compute witnesses showing that a guard cannot be dropped
    (all of them reproduce behaviour confirmed on the real engine). *)

From Coq Require Import ZArith NArith List Bool Lia ZifyN ZifyBool.
From stdpp Require Import base option fin_maps nmap.
From FG Require Import TTImpl.
Import ListNotations.
Ltac Zify.zify_post_hook ::= Z.div_mod_to_equations.
Local Open Scope Z_scope.

(* ------------------------------------------------------------------------- *)
(** ** Fixed-width arithmetic, value encoding *)

Lemma wrap16_id z : -32768 <= z <= 32767 -> wrap16 z = z.
Proof. unfold wrap16. lia. Qed.
Lemma wrap8_id z : -128 <= z <= 127 -> wrap8 z = z.
Proof. unfold wrap8. lia. Qed.
Lemma wrap16_range z : -32768 <= wrap16 z <= 32767.
Proof. unfold wrap16. lia. Qed.
Lemma wrap8_range z : -128 <= wrap8 z <= 127.
Proof. unfold wrap8. lia. Qed.

Lemma land_moveMask m : N.land m moveMask = (m mod 65536)%N.
Proof. change moveMask with (N.ones 16). rewrite N.land_ones. reflexivity. Qed.

Lemma value_bits m :
  N.shiftr (N.land m valueMask) valueShift = ((m / 65536) mod 65536)%N.
Proof.
  unfold valueShift. rewrite N.shiftr_land.
  change (N.shiftr valueMask 16) with (N.ones 16).
  rewrite N.land_ones, N.shiftr_div_pow2. reflexivity.
Qed.

Lemma SetValue_bits m x :
  (m <> 0)%N -> 5001 <= x <= 25001 ->
  let w := N.lor (N.land m moveMask) (N.shiftl (Z.to_N x) valueShift mod 4294967296)%N in
  N.land w moveMask = N.land m moveMask /\
  N.shiftr (N.land w valueMask) valueShift = Z.to_N x.
Proof.
  intros Hm Hx w. subst w.
  assert (Hsh : (N.shiftl (Z.to_N x) valueShift mod 4294967296 = N.shiftl (Z.to_N x) 16)%N).
  { unfold valueShift. rewrite N.shiftl_mul_pow2. apply N.mod_small.
    change (2 ^ 16)%N with 65536%N. lia. }
  rewrite Hsh. split.
  - rewrite N.land_lor_distr_l.
    rewrite (land_moveMask (N.shiftl _ _)), N.shiftl_mul_pow2.
    change (2 ^ 16)%N with 65536%N. rewrite N.mod_mul by lia.
    rewrite N.lor_0_r, !land_moveMask. rewrite N.mod_mod by lia. reflexivity.
  - rewrite value_bits. rewrite <- N.shiftr_div_pow2 with (n := 16%N).
    rewrite N.shiftr_lor, N.shiftr_shiftl_l by lia.
    change (16 - 16)%N with 0%N. rewrite N.shiftl_0_r.
    rewrite land_moveMask, N.shiftr_div_pow2.
    change (2 ^ 16)%N with 65536%N.
    rewrite (N.div_small (m mod 65536)) by lia.
    rewrite N.lor_0_l. apply N.mod_small. lia.
Qed.

Lemma lor_lt_pow2 a b n : (a < 2 ^ n -> b < 2 ^ n -> N.lor a b < 2 ^ n)%N.
Proof.
  intros Ha Hb.
  destruct (N.eq_dec a 0) as [->|Ha0]; [rewrite N.lor_0_l; exact Hb|].
  destruct (N.eq_dec b 0) as [->|Hb0]; [rewrite N.lor_0_r; exact Ha|].
  assert (Hl : (N.lor a b <> 0)%N).
  { intros H0. apply N.lor_eq_0_iff in H0. tauto. }
  apply N.log2_lt_pow2; [lia|].
  rewrite N.log2_lor.
  apply N.log2_lt_pow2 in Ha; [|lia]. apply N.log2_lt_pow2 in Hb; [|lia]. lia.
Qed.

Theorem value_roundtrip_word m v :
  m <> 0%N -> -10000 <= v <= 10000 ->
  ValueOf (SetValue m v) = v /\ MoveOf (SetValue m v) = MoveOf m /\ (SetValue m v < 4294967296)%N.
Proof.
  intros Hm Hv. unfold SetValue, MoveNone.
  destruct (N.eqb_spec m 0) as [->|_]; [congruence|].
  assert (Hx : move_of_int16 (wrap16 (v - ValueNA)) = Z.to_N (v + 15001)).
  { unfold move_of_int16, ValueNA. rewrite wrap16_id by lia. f_equal. lia. }
  rewrite Hx.
  destruct (SetValue_bits m (v + 15001) Hm ltac:(lia)) as [Hlo Hhi].
  cbv zeta in Hlo, Hhi. split; [|split].
  - unfold ValueOf. rewrite Hhi. unfold value_of_uint32, ValueNA.
    rewrite Z2N.id by lia. rewrite (wrap16_id (v + 15001)) by lia.
    rewrite wrap16_id by lia. lia.
  - unfold MoveOf. exact Hlo.
  - change 4294967296%N with (2 ^ 32)%N. apply lor_lt_pow2.
    + rewrite land_moveMask. change (2 ^ 32)%N with 4294967296%N. lia.
    + apply N.mod_lt. discriminate.
Qed.

(** the guard as worded in the property: the move part (low 16 bits) is not MoveNone *)
Theorem value_roundtrip m v :
  MoveOf m <> 0%N -> -10000 <= v <= 10000 ->
  ValueOf (SetValue m v) = v /\ MoveOf (SetValue m v) = MoveOf m.
Proof.
  intros Hm Hv.
  assert (Hm' : m <> 0%N) by (intros ->; apply Hm; reflexivity).
  destruct (value_roundtrip_word m v Hm' Hv) as (H1 & H2 & _). auto.
Qed.

(** without the guard the literal statement is false: SetValue refuses to store on
    MoveNone (move.go:125), the value reads back as ValueNA *)
Lemma value_roundtrip_refuted :
  exists m v, -10000 <= v <= 10000 /\ ValueOf (SetValue m v) <> v.
Proof. exists 0%N, 100. split; [lia|]. vm_compute. discriminate. Qed.

(** the int16 subtraction v - ValueNA never wraps, and Move(int16) never sign-extends,
    for valid v: the intermediate is in [5001, 25001] *)
Lemma value_offset_range v :
  -10000 <= v <= 10000 ->
  wrap16 (v - ValueNA) = v + 15001 /\ 5001 <= v + 15001 <= 25001.
Proof. intros Hv. unfold ValueNA. rewrite wrap16_id by lia. lia. Qed.

(** *** mate_adjust *)

Theorem mate_adjust v ply :
  -10000 <= v <= 10000 -> 0 <= ply <= 128 ->
  (is_checkmate_value v = true -> Z.abs v + ply <= 10000) ->
  valueFromTT (valueToTT v ply) ply = v /\ is_valid (valueToTT v ply) = true.
Proof.
  intros Hv Hp Hm. unfold valueFromTT, valueToTT, is_valid, is_checkmate_value in *.
  unfold ValueCheckMateThreshold, ValueCheckMate, ValueMin, ValueMax in *.
  rewrite (wrap16_id ply) by lia.
  destruct ((Z.abs v >? 9871) && (Z.abs v <=? 10000)) eqn:Hc.
  - specialize (Hm eq_refl).
    destruct (v >? 0) eqn:Hs.
    + rewrite (wrap16_id (v + ply)) by lia.
      replace ((Z.abs (v + ply) >? 9871) && (Z.abs (v + ply) <=? 10000)) with true by lia.
      replace (v + ply >? 0) with true by lia.
      rewrite wrap16_id by lia. lia.
    + rewrite (wrap16_id (v - ply)) by lia.
      replace ((Z.abs (v - ply) >? 9871) && (Z.abs (v - ply) <=? 10000)) with true by lia.
      replace (v - ply >? 0) with false by lia.
      rewrite wrap16_id by lia. lia.
  - rewrite Hc. lia.
Qed.

(** exact characterisation on the whole valid range *)
Theorem mate_adjust_iff v ply :
  -10000 <= v <= 10000 -> 0 <= ply <= 128 ->
  (valueFromTT (valueToTT v ply) ply = v <->
   (is_checkmate_value v = true -> Z.abs v + ply <= 10000)).
Proof.
  intros Hv Hp. split; [|intros H; apply mate_adjust; assumption].
  unfold valueFromTT, valueToTT, is_checkmate_value.
  unfold ValueCheckMateThreshold, ValueCheckMate.
  rewrite (wrap16_id ply) by lia.
  destruct ((Z.abs v >? 9871) && (Z.abs v <=? 10000)) eqn:Hc; [|discriminate].
  intros Hrt _.
  destruct (Z_le_gt_dec (Z.abs v + ply) 10000) as [|Hbig]; [assumption|exfalso].
  destruct (v >? 0) eqn:Hs.
  - rewrite (wrap16_id (v + ply)) in Hrt by lia.
    replace ((Z.abs (v + ply) >? 9871) && (Z.abs (v + ply) <=? 10000)) with false in Hrt by lia.
    lia.
  - rewrite (wrap16_id (v - ply)) in Hrt by lia.
    replace ((Z.abs (v - ply) >? 9871) && (Z.abs (v - ply) <=? 10000)) with false in Hrt by lia.
    lia.
Qed.

Lemma mate_adjust_refuted :
  exists v ply, -10000 <= v <= 10000 /\ 0 <= ply <= 128 /\
    valueFromTT (valueToTT v ply) ply <> v /\ is_valid (valueToTT v ply) = false.
Proof. exists 10000, 1. repeat split; try lia; vm_compute; discriminate. Qed.

(** *** capacity_exact *)

Theorem capacity_exact mb :
  1 <= mb <= 65536 ->
  let c := capacity mb in
  (exists n, c = 2 ^ n)%N /\
  (c * 16 <= Z.to_N mb * 1048576 < 2 * c * 16)%N.
Proof.
  intros Hmb c. subst c. unfold capacity, MaxSizeInMB, MB, TtEntrySize.
  replace (mb >? 65536) with false by lia.
  destruct (N.eqb_spec (Z.to_N mb * 1048576) 0) as [H0|_]; [lia|].
  set (x := (Z.to_N mb * 1048576 / 16)%N).
  assert (Hx : (0 < x)%N) by (subst x; lia).
  destruct (N.log2_spec x Hx) as [Hlo Hhi].
  rewrite N.pow_succ_r' in Hhi.
  split; [eexists; reflexivity|].
  assert (Hx16 : (x * 16 = Z.to_N mb * 1048576)%N) by (subst x; lia).
  lia.
Qed.

Lemma capacity_0 : capacity 0 = 0%N.
Proof. reflexivity. Qed.

Lemma capacity_clamped mb : 65536 <= mb -> capacity mb = capacity 65536.
Proof.
  intros H. unfold capacity, MaxSizeInMB.
  destruct (mb >? 65536) eqn:E; [reflexivity|]. replace mb with 65536 by lia. reflexivity.
Qed.

(* ------------------------------------------------------------------------- *)
(** ** The table *)

(** ** Basic facts about slots *)

Lemma slot_at_TT s m c n i : slot_at (TT s m c n) i = default zero_entry (s !! i).
Proof. reflexivity. Qed.

Lemma slot_at_insert_eq s m c n i e : slot_at (TT (<[i:=e]> s) m c n) i = e.
Proof. rewrite slot_at_TT, lookup_insert. reflexivity. Qed.

Lemma slot_at_insert_ne s m c n i j e :
  i <> j -> slot_at (TT (<[i:=e]> s) m c n) j = default zero_entry (s !! j).
Proof. intros Hij. rewrite slot_at_TT, lookup_insert_ne by exact Hij. reflexivity. Qed.

Lemma slot_at_lookup t i : eKey (slot_at t i) <> 0%N -> slots t !! i = Some (slot_at t i).
Proof.
  unfold slot_at. destruct (slots t !! i) as [e|]; cbn; [reflexivity|congruence].
Qed.

Lemma lookup_slot_at t i e : slots t !! i = Some e -> slot_at t i = e.
Proof. unfold slot_at. intros ->. reflexivity. Qed.

Lemma slot_at_empty m c n i : slot_at (TT ∅ m c n) i = zero_entry.
Proof. rewrite slot_at_TT, lookup_empty. reflexivity. Qed.

Lemma age_entry_key e : eKey (age_entry e) = eKey e.
Proof. unfold age_entry. destruct (eKey e =? 0)%N; reflexivity. Qed.

Lemma slot_at_fmap_age s m c n i :
  slot_at (TT (age_entry <$> s) m c n) i = age_entry (default zero_entry (s !! i)).
Proof. rewrite slot_at_TT, lookup_fmap. destruct (s !! i); reflexivity. Qed.

(** ** never_foreign *)

Theorem never_foreign_get t k e : get_entry t k = Some e -> eKey e = k.
Proof.
  unfold get_entry. destruct (cap t =? 0)%N; [discriminate|].
  destruct (N.eqb_spec (eKey (slot_at t (hash t k))) k) as [Hk|_]; [|discriminate].
  intros [= <-]. exact Hk.
Qed.

Lemma probe_snd t k :
  snd (probe t k) = option_map (fun e => set_age e (probe_age (eAge e))) (get_entry t k).
Proof.
  unfold probe, get_entry. destruct (cap t =? 0)%N; [reflexivity|].
  destruct (eKey (slot_at t (hash t k)) =? k)%N; reflexivity.
Qed.

Theorem never_foreign_probe t k e : snd (probe t k) = Some e -> eKey e = k.
Proof.
  rewrite probe_snd. destruct (get_entry t k) as [e0|] eqn:Hg; [|discriminate].
  cbn. intros [= <-]. cbn. eapply never_foreign_get; eassumption.
Qed.

(** every observation is of the right shape for its operation, and an entry returned
    for a lookup of [k] carries key [k] *)
Definition obs_ok (o : op) (r : obs) : Prop :=
  match o, r with
  | OProbe k, OEntry k' _ _ _ _ _ => k' = k
  | OGet k, OEntry k' _ _ _ _ _ => k' = k
  | OProbe _, ONone | OGet _, ONone => True
  | OLen, ONum _ | OHashfull, ONum _ => True
  | OResize _, ONone | OPut _ _ _ _ _ _, ONone | OAge, ONone | OClear, ONone => True
  | _, _ => False
  end.

Lemma step_obs_ok t o : obs_ok o (snd (step t o)).
Proof.
  destruct o as [mb|k m d v vt mt|k|k| | | |]; cbn; try exact I.
  - pose proof (never_foreign_probe t k) as Hp.
    destruct (probe t k) as [t' [e|]]; cbn in *; [|exact I]. apply Hp. reflexivity.
  - pose proof (never_foreign_get t k) as Hg.
    destruct (get_entry t k) as [e|]; cbn; [|exact I]. apply Hg. reflexivity.
Qed.

Lemma run_from_cons t o ops :
  run_from t (o :: ops) = snd (step t o) :: run_from (fst (step t o)) ops.
Proof. cbn [run_from]. destruct (step t o). reflexivity. Qed.

Theorem never_foreign_from t ops : Forall2 obs_ok ops (run_from t ops).
Proof.
  revert t. induction ops as [|o ops IH]; intros t; [constructor|].
  rewrite run_from_cons. constructor; [apply step_obs_ok|apply IH].
Qed.

Theorem never_foreign ops : Forall2 obs_ok ops (run ops).
Proof. apply never_foreign_from. Qed.

(** ** replace_policy *)

Lemma replace_ok_spec d e :
  replace_ok d e = true <-> (d > eDepth e \/ (d = eDepth e /\ eAge e > 1)).
Proof. unfold replace_ok. lia. Qed.

Theorem replace_policy t k m d v vt mt :
  let i := hash t k in
  let e := slot_at t i in
  let t' := put t k m d v vt mt in
  cap t <> 0%N -> eKey e <> 0%N -> eKey e <> k ->
  ((d > eDepth e \/ (d = eDepth e /\ eAge e > 1)) ->
     slot_at t' i = Entry k (put_move m v) d 1 vt mt /\
     (forall j, j <> i -> slot_at t' j = slot_at t j) /\
     count t' = count t /\ mask t' = mask t /\ cap t' = cap t) /\
  (~ (d > eDepth e \/ (d = eDepth e /\ eAge e > 1)) -> t' = t).
Proof.
  intros i e t' Hcap He0 Hek. subst t'. unfold put. fold i. fold e.
  destruct (N.eqb_spec (cap t) 0) as [|_]; [contradiction|].
  destruct (N.eqb_spec (eKey e) 0) as [|_]; [contradiction|].
  destruct (N.eqb_spec (eKey e) k) as [|_]; [contradiction|]. cbn [negb].
  pose proof (replace_ok_spec d e) as Hspec.
  destruct (replace_ok d e); split; intros HP.
  - split; [apply slot_at_insert_eq|]. split; [|auto].
    intros j Hj. rewrite slot_at_insert_ne by congruence. reflexivity.
  - exfalso. apply HP, Hspec. reflexivity.
  - apply Hspec in HP. discriminate.
  - reflexivity.
Qed.

Corollary replace_policy_iff t k m d v vt mt :
  let i := hash t k in
  let e := slot_at t i in
  cap t <> 0%N -> eKey e <> 0%N -> eKey e <> k ->
  (eKey (slot_at (put t k m d v vt mt) i) = k <->
   (d > eDepth e \/ (d = eDepth e /\ eAge e > 1))).
Proof.
  intros i e Hcap He0 Hek.
  destruct (replace_policy t k m d v vt mt Hcap He0 Hek) as [Hyes Hno].
  fold i e in Hyes, Hno. split.
  - intros Hk. destruct (replace_ok d e) eqn:Hr; [apply replace_ok_spec; exact Hr|].
    rewrite Hno in Hk; [contradiction|]. rewrite <- replace_ok_spec. congruence.
  - intros HP. destruct (Hyes HP) as [-> _]. reflexivity.
Qed.

(** ** Refinement: implementation state vs. abstract key-indexed map *)

Record R (t : tt) (a : astate) : Prop := mkR {
  R_mask : aMask a = mask t;
  R_cap : aCap a = cap t;
  R_cap0 : cap t = 0%N -> aTab a = [];
  R_count : count t = 0%N -> aTab a = [];
  R_tab : forall k s, In (k, s) (aTab a) ->
            k <> 0%N /\ slot_at t (N.land k (mask t)) = entry_of k s;
  R_slots : forall i e, slots t !! i = Some e -> eKey e <> 0%N ->
            In (eKey e, stored_of e) (aTab a) /\ i = N.land (eKey e) (mask t)
}.

Lemma stored_of_entry_of k s : stored_of (entry_of k s) = s.
Proof. destruct s; reflexivity. Qed.
Lemma entry_of_stored_of e : entry_of (eKey e) (stored_of e) = e.
Proof. destruct e; reflexivity. Qed.

Lemma R_resident t a i :
  R t a ->
  find (same_class (mask t) i) (aTab a) =
  if (eKey (slot_at t i) =? 0)%N then None
  else Some (eKey (slot_at t i), stored_of (slot_at t i)).
Proof.
  intros HR.
  destruct (find (same_class (mask t) i) (aTab a)) as [[k' s']|] eqn:Hf.
  - apply find_some in Hf. destruct Hf as [Hin Hc].
    unfold same_class in Hc. cbn [fst] in Hc. apply N.eqb_eq in Hc.
    destruct (R_tab _ _ HR _ _ Hin) as [Hk0 Hs]. rewrite Hc in Hs. rewrite Hs.
    cbn [eKey entry_of]. destruct (N.eqb_spec k' 0) as [|_]; [contradiction|].
    rewrite stored_of_entry_of. reflexivity.
  - destruct (N.eqb_spec (eKey (slot_at t i)) 0) as [|Hne]; [reflexivity|exfalso].
    pose proof (slot_at_lookup _ _ Hne) as Hl.
    destruct (R_slots _ _ HR _ _ Hl Hne) as [Hin Hi].
    pose proof (find_none _ _ Hf _ Hin) as Hc.
    unfold same_class in Hc. cbn [fst] in Hc. apply N.eqb_neq in Hc. congruence.
Qed.

(** the state after the six field writes of Put *)
Lemma R_written t a k new c' :
  R t a -> cap t <> 0%N -> c' <> 0%N ->
  R (TT (<[N.land k (mask t) := entry_of k new]> (slots t)) (mask t) (cap t) c')
    (AState (mask t) (cap t)
       ((if (k =? 0)%N then [] else [(k, new)]) ++
        List.filter (fun p => negb (same_class (mask t) (N.land k (mask t)) p)) (aTab a))).
Proof.
  intros HR Hcap Hc'. set (i := N.land k (mask t)).
  constructor; cbn [aMask aCap aTab mask cap count slots]; try reflexivity; try contradiction.
  - intros k2 s2 Hin. apply in_app_or in Hin. destruct Hin as [Hin|Hin].
    + destruct (N.eqb_spec k 0) as [|Hk0]; [destruct Hin|].
      destruct Hin as [[= <- <-]|[]]. split; [exact Hk0|]. apply slot_at_insert_eq.
    + apply filter_In in Hin. destruct Hin as [Hin Hc].
      unfold same_class in Hc. cbn [fst] in Hc. apply negb_true_iff, N.eqb_neq in Hc.
      destruct (R_tab _ _ HR _ _ Hin) as [Hk0 Hs]. split; [exact Hk0|].
      rewrite slot_at_insert_ne by congruence. exact Hs.
  - intros j e Hl He. destruct (N.eq_dec j i) as [->|Hji].
    + rewrite lookup_insert in Hl. injection Hl as <-. cbn [eKey entry_of] in *.
      rewrite stored_of_entry_of. split; [|reflexivity].
      apply in_or_app. left. destruct (N.eqb_spec k 0) as [|_]; [contradiction|].
      left. reflexivity.
    + rewrite lookup_insert_ne in Hl by congruence.
      destruct (R_slots _ _ HR _ _ Hl He) as [Hin Hj]. split; [|exact Hj].
      apply in_or_app. right. apply filter_In. split; [exact Hin|].
      unfold same_class. cbn [fst]. apply negb_true_iff, N.eqb_neq. congruence.
Qed.

Lemma R_put t a k m d v vt mt :
  R t a -> R (put t k m d v vt mt) (aput a k (Stored (put_move m v) d 1 vt mt)).
Proof.
  intros HR. unfold put, aput. rewrite (R_cap _ _ HR), (R_mask _ _ HR).
  destruct (N.eqb_spec (cap t) 0) as [|Hcap]; [exact HR|].
  unfold hash. set (i := N.land k (mask t)).
  rewrite (R_resident t a i HR). cbn [sDepth].
  change (Entry k (put_move m v) d 1 vt mt) with (entry_of k (Stored (put_move m v) d 1 vt mt)).
  set (new := Stored (put_move m v) d 1 vt mt).
  destruct (N.eqb_spec (eKey (slot_at t i)) 0) as [He0|He0].
  - apply R_written; [exact HR|exact Hcap|lia].
  - assert (Hcnt : count t <> 0%N).
    { intros H0. pose proof (slot_at_lookup _ _ He0) as Hl.
      destruct (R_slots _ _ HR _ _ Hl He0) as [Hin _].
      rewrite (R_count _ _ HR H0) in Hin. destruct Hin. }
    destruct (N.eqb_spec (eKey (slot_at t i)) k) as [Hk|Hk]; cbn [negb orb].
    + apply R_written; assumption.
    + change (a_replace_ok d (stored_of (slot_at t i))) with (replace_ok d (slot_at t i)).
      destruct (replace_ok d (slot_at t i)); [apply R_written; assumption|exact HR].
Qed.

Lemma R_map_nil t a f : R t a -> aTab a = [] -> R t (amap_tab f a).
Proof.
  intros HR Hnil.
  constructor; cbn [amap_tab aMask aCap aTab]; try apply HR; rewrite Hnil; cbn [map]; auto.
  - intros k s [].
  - intros i e Hl He. destruct (R_slots _ _ HR _ _ Hl He) as [Hin _].
    rewrite Hnil in Hin. destruct Hin.
Qed.

Definition probe_upd (k : N) : N -> stored -> stored :=
  fun k' s => if (k' =? k)%N then s_set_age s (probe_age (sAge s)) else s.

Lemma R_probe t a k : R t a -> R (fst (probe t k)) (amap_tab (probe_upd k) a).
Proof.
  intros HR. unfold probe.
  destruct (N.eqb_spec (cap t) 0) as [Hcap|Hcap].
  { cbn [fst]. apply R_map_nil; [exact HR|]. apply (R_cap0 _ _ HR Hcap). }
  unfold hash. set (i := N.land k (mask t)).
  destruct (N.eqb_spec (eKey (slot_at t i)) k) as [Hhit|Hmiss]; cbn [fst].
  - (* hit: the age of slot i is rewritten *)
    set (e := slot_at t i) in *.
    constructor; cbn [amap_tab aMask aCap aTab mask cap count slots]; try apply HR.
    + intros H0. rewrite (R_cap0 _ _ HR H0). reflexivity.
    + intros H0. rewrite (R_count _ _ HR H0). reflexivity.
    + intros k2 s2 Hin. apply in_map_iff in Hin. destruct Hin as [[k2' s0] [[= -> <-] Hin]].
      cbn [fst snd]. destruct (R_tab _ _ HR _ _ Hin) as [Hk0 Hs]. split; [exact Hk0|].
      unfold probe_upd. destruct (N.eqb_spec k2 k) as [->|Hne].
      * fold i. fold i in Hs. rewrite slot_at_insert_eq. fold e in Hs. rewrite Hs.
        destruct s0; reflexivity.
      * assert (Hi : i <> N.land k2 (mask t)).
        { intros Hi. rewrite <- Hi in Hs. fold e in Hs. rewrite Hs in Hhit. cbn in Hhit. congruence. }
        rewrite slot_at_insert_ne by exact Hi. exact Hs.
    + intros j e2 Hl He2. destruct (N.eq_dec j i) as [->|Hji].
      * rewrite lookup_insert in Hl. injection Hl as <-. cbn [eKey set_age] in *.
        pose proof (slot_at_lookup t i He2) as Hl0. fold e in Hl0.
        destruct (R_slots _ _ HR _ _ Hl0 He2) as [Hin Hi]. split; [|exact Hi].
        apply in_map_iff. exists (eKey e, stored_of e). split; [|exact Hin].
        cbn [fst snd]. unfold probe_upd. rewrite Hhit, N.eqb_refl. reflexivity.
      * rewrite lookup_insert_ne in Hl by congruence.
        destruct (R_slots _ _ HR _ _ Hl He2) as [Hin Hj]. split; [|exact Hj].
        apply in_map_iff. exists (eKey e2, stored_of e2). split; [|exact Hin].
        cbn [fst snd]. unfold probe_upd.
        destruct (N.eqb_spec (eKey e2) k) as [Heq|_]; [|reflexivity].
        exfalso. apply Hji. rewrite Hj, Heq. reflexivity.
  - (* miss: nothing changes, and no binding for k exists *)
    constructor; cbn [amap_tab aMask aCap aTab]; try apply HR.
    + intros H0. rewrite (R_cap0 _ _ HR H0). reflexivity.
    + intros H0. rewrite (R_count _ _ HR H0). reflexivity.
    + intros k2 s2 Hin. apply in_map_iff in Hin. destruct Hin as [[k2' s0] [[= -> <-] Hin]].
      cbn [fst snd]. destruct (R_tab _ _ HR _ _ Hin) as [Hk0 Hs]. split; [exact Hk0|].
      unfold probe_upd. destruct (N.eqb_spec k2 k) as [->|_]; [|exact Hs].
      exfalso. apply Hmiss. fold i in Hs. rewrite Hs. reflexivity.
    + intros j e2 Hl He2. destruct (R_slots _ _ HR _ _ Hl He2) as [Hin Hj]. split; [|exact Hj].
      apply in_map_iff. exists (eKey e2, stored_of e2). split; [|exact Hin].
      cbn [fst snd]. unfold probe_upd.
      destruct (N.eqb_spec (eKey e2) k) as [Heq|_]; [|reflexivity].
      exfalso. apply Hmiss. rewrite Hj, Heq in Hl. fold i in Hl.
      rewrite (lookup_slot_at _ _ _ Hl). exact Heq.
Qed.

Definition age_upd : N -> stored -> stored := fun _ s => s_set_age s (wrap8 (sAge s + 1)).

Lemma R_age t a : R t a -> R (age_entries t) (amap_tab age_upd a).
Proof.
  intros HR. unfold age_entries.
  destruct (N.eqb_spec (count t) 0) as [H0|Hcnt].
  { apply R_map_nil; [exact HR|]. apply (R_count _ _ HR H0). }
  constructor; cbn [amap_tab aMask aCap aTab mask cap count slots]; try apply HR.
  - intros H0. rewrite (R_cap0 _ _ HR H0). reflexivity.
  - contradiction.
  - intros k2 s2 Hin. apply in_map_iff in Hin. destruct Hin as [[k2' s0] [[= -> <-] Hin]].
    cbn [fst snd]. destruct (R_tab _ _ HR _ _ Hin) as [Hk0 Hs]. split; [exact Hk0|].
    rewrite slot_at_fmap_age. unfold slot_at in Hs. rewrite Hs.
    unfold age_entry. cbn [eKey entry_of]. destruct (N.eqb_spec k2 0) as [|_]; [contradiction|].
    destruct s0; reflexivity.
  - intros j e2 Hl He2. rewrite lookup_fmap in Hl.
    destruct (slots t !! j) as [e0|] eqn:Hl0; [|discriminate]. cbn in Hl. injection Hl as <-.
    rewrite age_entry_key in *.
    destruct (R_slots _ _ HR _ _ Hl0 He2) as [Hin Hj]. split; [|exact Hj].
    apply in_map_iff. exists (eKey e0, stored_of e0). split; [|exact Hin].
    cbn [fst snd]. unfold age_upd, age_entry.
    destruct (N.eqb_spec (eKey e0) 0) as [|_]; [contradiction|]. reflexivity.
Qed.

Lemma R_fresh m c n : R (TT ∅ m c n) (AState m c []).
Proof.
  constructor; cbn [aMask aCap aTab mask cap count slots]; try reflexivity.
  - intros k s [].
  - intros i e Hl. rewrite lookup_empty in Hl. discriminate.
Qed.

Lemma R_step t a o : R t a -> R (fst (step t o)) (astep a o).
Proof.
  intros HR. destruct o as [mb|k m d v vt mt|k|k| | | |]; cbn [step astep fst]; try exact HR.
  - apply R_fresh.
  - apply R_put. exact HR.
  - pose proof (R_probe t a k HR) as Hp. destruct (probe t k). exact Hp.
  - apply R_age. exact HR.
  - unfold clear. rewrite (R_mask _ _ HR), (R_cap _ _ HR). apply R_fresh.
Qed.

Lemma R_exec_from t a ops : R t a -> R (exec_from t ops) (fold_left astep ops a).
Proof.
  revert t a. induction ops as [|o ops IH]; intros t a HR; [exact HR|].
  cbn [exec_from fold_left]. apply IH. apply R_step. exact HR.
Qed.

Lemma R_exec ops : R (exec ops) (spec ops).
Proof. apply R_exec_from. apply R_fresh. Qed.

Lemma R_lookup t a k :
  R t a -> k <> 0%N -> get_entry t k = option_map (entry_of k) (alookup k (aTab a)).
Proof.
  intros HR Hk. unfold get_entry, alookup.
  destruct (N.eqb_spec (cap t) 0) as [Hcap|Hcap].
  { rewrite (R_cap0 _ _ HR Hcap). reflexivity. }
  unfold hash.
  destruct (find (fun p => (fst p =? k)%N) (aTab a)) as [[k' s]|] eqn:Hf.
  - apply find_some in Hf. destruct Hf as [Hin Hc]. cbn [fst] in Hc. apply N.eqb_eq in Hc. subst k'.
    destruct (R_tab _ _ HR _ _ Hin) as [_ Hs]. rewrite Hs. cbn [eKey entry_of].
    rewrite N.eqb_refl. reflexivity.
  - destruct (N.eqb_spec (eKey (slot_at t (N.land k (mask t)))) k) as [Heq|_]; [exfalso|reflexivity].
    assert (Hne : eKey (slot_at t (N.land k (mask t))) <> 0%N) by congruence.
    pose proof (slot_at_lookup _ _ Hne) as Hl.
    destruct (R_slots _ _ HR _ _ Hl Hne) as [Hin _].
    pose proof (find_none _ _ Hf _ Hin) as Hc. cbn [fst] in Hc. apply N.eqb_neq in Hc. congruence.
Qed.

(** *** probe_sound: a lookup returns exactly what the abstract map binds to the key *)
Theorem probe_sound ops k :
  k <> 0%N ->
  get_entry (exec ops) k = option_map (entry_of k) (spec_lookup ops k) /\
  snd (probe (exec ops) k) =
    option_map (fun s => entry_of k (s_set_age s (probe_age (sAge s)))) (spec_lookup ops k).
Proof.
  intros Hk. pose proof (R_lookup _ _ k (R_exec ops) Hk) as Hg. split; [exact Hg|].
  rewrite probe_snd, Hg. unfold spec_lookup. destruct (alookup k (aTab (spec ops))) as [s|]; reflexivity.
Qed.

(** the abstract map really is "one key per index class", and never binds key 0 *)
Lemma spec_one_per_class ops k1 s1 k2 s2 :
  In (k1, s1) (aTab (spec ops)) -> In (k2, s2) (aTab (spec ops)) ->
  N.land k1 (aMask (spec ops)) = N.land k2 (aMask (spec ops)) -> k1 = k2 /\ s1 = s2.
Proof.
  intros H1 H2 Hc. pose proof (R_exec ops) as HR. rewrite (R_mask _ _ HR) in Hc.
  destruct (R_tab _ _ HR _ _ H1) as [_ E1]. destruct (R_tab _ _ HR _ _ H2) as [_ E2].
  rewrite Hc, E2 in E1. destruct s1, s2. injection E1 as -> -> -> -> -> ->. auto.
Qed.

Lemma spec_no_key0 ops s : ~ In (0%N, s) (aTab (spec ops)).
Proof. intros Hin. destruct (R_tab _ _ (R_exec ops) _ _ Hin) as [H0 _]. congruence. Qed.

(** key 0 is the empty-slot sentinel: on a fresh table Probe/GetEntry(0) "hit" the
    zero entry although nothing was ever stored *)
Lemma probe_sound_refuted_key0 :
  exists ops k, get_entry (exec ops) k <> option_map (entry_of k) (spec_lookup ops k).
Proof. exists [], 0%N. vm_compute. discriminate. Qed.

(** *** probe_sound, trace form: a hit is the LAST Put for that key *)

Definition undisturbed (k : N) (o : op) : Prop :=
  match o with
  | OPut k' _ _ _ _ _ => k' <> k
  | OClear | OResize _ => False
  | _ => True
  end.

(** equal up to the Age field *)
Definition same_payload (e e' : entry) : Prop :=
  eKey e = eKey e' /\ eMove e = eMove e' /\ eDepth e = eDepth e' /\
  eType e = eType e' /\ eMT e = eMT e'.

Lemma same_payload_refl e : same_payload e e.
Proof. repeat split. Qed.

Lemma get_entry_unfold t k e :
  get_entry t k = Some e <-> cap t <> 0%N /\ slot_at t (N.land k (mask t)) = e /\ eKey e = k.
Proof.
  unfold get_entry, hash. destruct (N.eqb_spec (cap t) 0) as [H0|H0].
  - split; [discriminate|]. intros [H _]. contradiction.
  - destruct (N.eqb_spec (eKey (slot_at t (N.land k (mask t)))) k) as [Hk|Hk]; split.
    + intros [= <-]. auto.
    + intros (_ & <- & _). reflexivity.
    + discriminate.
    + intros (_ & <- & Hk'). contradiction.
Qed.

Lemma step_get t o k e :
  k <> 0%N -> get_entry (fst (step t o)) k = Some e ->
  (exists m d v vt mt, o = OPut k m d v vt mt /\
      e = Entry k (put_move m (wrap16 v)) (wrap8 d) 1 vt mt) \/
  (undisturbed k o /\ exists e0, get_entry t k = Some e0 /\ same_payload e0 e).
Proof.
  intros Hk0 Hg.
  assert (Hsame : forall P : Prop, undisturbed k o -> fst (step t o) = t ->
            P \/ (undisturbed k o /\ exists e0, get_entry t k = Some e0 /\ same_payload e0 e)).
  { intros P Hu Heq. right. split; [exact Hu|]. exists e. rewrite Heq in Hg.
    split; [exact Hg|apply same_payload_refl]. }
  destruct o as [mb|k' m d v vt mt|k'|k'| | | |]; cbn [step fst] in *;
    try (apply Hsame; [exact I|reflexivity]).
  - (* Resize *) exfalso. apply get_entry_unfold in Hg. destruct Hg as (_ & Hs & Hk).
    unfold resize in Hs. rewrite slot_at_empty in Hs. subst e. cbn in Hk. congruence.
  - (* Put *)
    unfold put in Hg.
    destruct (N.eqb_spec (cap t) 0) as [Hc|Hc].
    { apply get_entry_unfold in Hg. destruct Hg as [Hc' _]. contradiction. }
    set (new := Entry k' (put_move m (wrap16 v)) (wrap8 d) 1 vt mt) in *.
    assert (Hw : forall c', get_entry (TT (<[hash t k' := new]> (slots t)) (mask t) (cap t) c') k = Some e ->
       (exists m0 d0 v0 vt0 mt0, OPut k' m d v vt mt = OPut k m0 d0 v0 vt0 mt0 /\
            e = Entry k (put_move m0 (wrap16 v0)) (wrap8 d0) 1 vt0 mt0) \/
       (k' <> k /\ exists e0, get_entry t k = Some e0 /\ same_payload e0 e)).
    { intros c' Hg'. apply get_entry_unfold in Hg'. cbn [mask cap] in Hg'.
      destruct Hg' as (_ & Hs & Hk).
      destruct (N.eq_dec (hash t k') (N.land k (mask t))) as [Hi|Hi].
      - rewrite <- Hi, slot_at_insert_eq in Hs. subst e. cbn in Hk. subst k'.
        left. exists m, d, v, vt, mt. split; reflexivity.
      - rewrite slot_at_insert_ne in Hs by exact Hi. right. split.
        + intros ->. apply Hi. reflexivity.
        + exists e. split; [|apply same_payload_refl]. apply get_entry_unfold. auto. }
    assert (Hn : get_entry t k = Some e ->
       (exists m0 d0 v0 vt0 mt0, OPut k' m d v vt mt = OPut k m0 d0 v0 vt0 mt0 /\
            e = Entry k (put_move m0 (wrap16 v0)) (wrap8 d0) 1 vt0 mt0) \/
       (k' <> k /\ exists e0, get_entry t k = Some e0 /\ same_payload e0 e) \/
       (k' = k /\ eKey (slot_at t (hash t k')) = k)).
    { intros Hg'. destruct (N.eq_dec k' k) as [->|Hne].
      - right. right. split; [reflexivity|]. apply get_entry_unfold in Hg'.
        destruct Hg' as (_ & <- & Hk). exact Hk.
      - right. left. split; [exact Hne|]. exists e. split; [exact Hg'|apply same_payload_refl]. }
    destruct (N.eqb_spec (eKey (slot_at t (hash t k'))) 0) as [He0|He0]; [exact (Hw _ Hg)|].
    destruct (N.eqb_spec (eKey (slot_at t (hash t k'))) k') as [Hek|Hek]; cbn [negb] in Hg;
      [exact (Hw _ Hg)|].
    destruct (replace_ok (wrap8 d) (slot_at t (hash t k'))); [exact (Hw _ Hg)|].
    destruct (Hn Hg) as [H|[H|[-> Hk]]]; [left; exact H|right; exact H|contradiction].
  - (* Probe *)
    unfold probe in *. destruct (N.eqb_spec (cap t) 0) as [Hc|Hc]; cbn [fst] in *;
      [apply Hsame; [exact I|reflexivity]|].
    destruct (N.eqb_spec (eKey (slot_at t (hash t k'))) k') as [Hek|Hek]; cbn [fst] in *;
      [|apply Hsame; [exact I|reflexivity]].
    right. split; [exact I|].
    apply get_entry_unfold in Hg. cbn [mask cap] in Hg. destruct Hg as (_ & Hs & Hk).
    destruct (N.eq_dec (hash t k') (N.land k (mask t))) as [Hi|Hi].
    + rewrite <- Hi, slot_at_insert_eq in Hs. subst e. cbn [eKey set_age] in Hk.
      exists (slot_at t (hash t k')). split.
      * apply get_entry_unfold. rewrite <- Hi. auto.
      * repeat split.
    + rewrite slot_at_insert_ne in Hs by exact Hi. exists e.
      split; [|apply same_payload_refl]. apply get_entry_unfold. auto.
  - (* Age *)
    unfold age_entries in *. destruct (N.eqb_spec (count t) 0) as [Hc|Hc];
      [apply Hsame; [exact I|reflexivity]|].
    right. split; [exact I|].
    apply get_entry_unfold in Hg. cbn [mask cap] in Hg. destruct Hg as (Hcap & Hs & Hk).
    rewrite slot_at_fmap_age in Hs. fold (slot_at t (N.land k (mask t))) in Hs.
    exists (slot_at t (N.land k (mask t))). subst e. rewrite age_entry_key in Hk. split.
    + apply get_entry_unfold. auto.
    + unfold age_entry. destruct (eKey (slot_at t (N.land k (mask t))) =? 0)%N; repeat split.
  - (* Clear *) exfalso. apply get_entry_unfold in Hg. destruct Hg as (_ & Hs & Hk).
    unfold clear in Hs. rewrite slot_at_empty in Hs. subst e. cbn in Hk. congruence.
Qed.

Lemma exec_snoc ops o : exec (ops ++ [o]) = fst (step (exec ops) o).
Proof. unfold exec, exec_from. rewrite fold_left_app. reflexivity. Qed.

Theorem probe_sound_last_put ops k e :
  k <> 0%N ->
  get_entry (exec ops) k = Some e ->
  exists ops1 m d v vt mt ops2,
    ops = ops1 ++ OPut k m d v vt mt :: ops2 /\
    Forall (undisturbed k) ops2 /\
    eKey e = k /\ eMove e = put_move m (wrap16 v) /\ eDepth e = wrap8 d /\
    eType e = vt /\ eMT e = mt.
Proof.
  intros Hk. revert e. induction ops as [|o ops IH] using rev_ind; intros e Hg.
  - exfalso. apply get_entry_unfold in Hg. destruct Hg as (_ & Hs & Hke).
    unfold exec, exec_from, init, new_tt, resize in Hs. cbn [fold_left] in Hs.
    rewrite slot_at_empty in Hs. subst e. cbn in Hke. congruence.
  - rewrite exec_snoc in Hg. destruct (step_get _ _ _ _ Hk Hg) as [Hput|[Hu (e0 & Hg0 & Hp)]].
    + destruct Hput as (m & d & v & vt & mt & -> & ->).
      exists ops, m, d, v, vt, mt, []. repeat split. constructor.
    + destruct (IH e0 Hg0) as (ops1 & m & d & v & vt & mt & ops2 & -> & Hf & H1 & H2 & H3 & H4 & H5).
      exists ops1, m, d, v, vt, mt, (ops2 ++ [o]). split; [rewrite <- app_assoc; reflexivity|].
      split; [apply Forall_app; split; [exact Hf|constructor; [exact Hu|constructor]]|].
      destruct Hp as (P1 & P2 & P3 & P4 & P5). repeat split; congruence.
Qed.

Corollary probe_sound_last_put_probe ops k e :
  k <> 0%N ->
  snd (probe (exec ops) k) = Some e ->
  exists ops1 m d v vt mt ops2,
    ops = ops1 ++ OPut k m d v vt mt :: ops2 /\
    Forall (undisturbed k) ops2 /\
    eKey e = k /\ eMove e = put_move m (wrap16 v) /\ eDepth e = wrap8 d /\
    eType e = vt /\ eMT e = mt.
Proof.
  intros Hk. rewrite probe_snd. destruct (get_entry (exec ops) k) as [e0|] eqn:Hg; [|discriminate].
  cbn. intros [= <-]. cbn [eKey eMove eDepth eType eMT set_age].
  exact (probe_sound_last_put ops k e0 Hk Hg).
Qed.

(** ** count_exact *)

Definition occP : N * entry -> Prop := fun p => eKey (snd p) <> 0%N.
Definition occ_map (s : Nmap entry) : nat := size (filter occP s).

Lemma occupied_occ_map t : occupied t = N.of_nat (occ_map (slots t)).
Proof. reflexivity. Qed.

Lemma occ_empty : occ_map ∅ = 0%nat.
Proof. unfold occ_map. rewrite map_filter_empty. apply map_size_empty. Qed.

Lemma occ_insert_new s i e :
  (forall e0, s !! i = Some e0 -> eKey e0 = 0%N) -> eKey e <> 0%N ->
  occ_map (<[i:=e]> s) = S (occ_map s).
Proof.
  intros Hfree He. unfold occ_map. rewrite map_filter_insert_True by exact He.
  apply map_size_insert_None. apply map_filter_lookup_None.
  destruct (s !! i) as [e0|] eqn:Hl; [right|left; reflexivity].
  intros e1 [= <-] HP. apply HP. cbn. apply Hfree. reflexivity.
Qed.

Lemma occ_insert_over s i e e0 :
  s !! i = Some e0 -> eKey e0 <> 0%N -> eKey e <> 0%N ->
  occ_map (<[i:=e]> s) = occ_map s.
Proof.
  intros Hl He0 He. unfold occ_map. rewrite map_filter_insert_True by exact He.
  apply map_size_insert_Some. exists e0. apply map_filter_lookup_Some. split; [exact Hl|exact He0].
Qed.

Lemma occ_insert_zero s i e :
  (forall e0, s !! i = Some e0 -> eKey e0 = 0%N) -> eKey e = 0%N ->
  occ_map (<[i:=e]> s) = occ_map s.
Proof.
  intros Hfree He. unfold occ_map. rewrite map_filter_insert_not'; [reflexivity| |].
  - intros HP. apply HP. exact He.
  - intros e0 Hl HP. apply HP. cbn. apply Hfree. exact Hl.
Qed.

Lemma occ_fmap_age s : occ_map (age_entry <$> s) = occ_map s.
Proof.
  unfold occ_map. rewrite map_filter_fmap, map_size_fmap. f_equal.
  apply map_filter_ext. intros i e _. unfold occP. cbn. rewrite age_entry_key. reflexivity.
Qed.

Lemma slot_free t i : eKey (slot_at t i) = 0%N -> forall e0, slots t !! i = Some e0 -> eKey e0 = 0%N.
Proof. intros H e0 Hl. rewrite (lookup_slot_at _ _ _ Hl) in H. exact H. Qed.

(** the only operations that break "count = occupied": a Put under key 0 *)
Definition count_safe (o : op) : Prop :=
  match o with
  | OPut k _ _ _ _ _ => k <> 0%N
  | _ => True
  end.

Lemma count_step t o :
  count_safe o -> count t = occupied t ->
  count (fst (step t o)) = occupied (fst (step t o)).
Proof.
  intros Hs Hinv. rewrite !occupied_occ_map in *.
  destruct o as [mb|k m d v vt mt|k|k| | | |]; cbn [step fst count_safe] in *; try exact Hinv.
  - (* Resize *) unfold resize. cbn [count slots]. rewrite occ_empty. reflexivity.
  - (* Put *) unfold put. destruct (cap t =? 0)%N; [exact Hinv|].
    set (i := hash t k). set (new := Entry k _ _ _ _ _).
    assert (Hnew : eKey new <> 0%N) by exact Hs.
    destruct (N.eqb_spec (eKey (slot_at t i)) 0) as [He0|He0]; cbn [count slots].
    + rewrite occ_insert_new; [lia| |exact Hnew]. apply slot_free. exact He0.
    + pose proof (slot_at_lookup _ _ He0) as Hl.
      assert (Hover : count t = N.of_nat (occ_map (<[i:=new]> (slots t)))).
      { rewrite (occ_insert_over _ _ _ _ Hl He0 Hnew). exact Hinv. }
      destruct (negb (eKey (slot_at t i) =? k)%N); [|exact Hover].
      destruct (replace_ok (wrap8 d) (slot_at t i)); [exact Hover|exact Hinv].
  - (* Probe *) unfold probe. destruct (cap t =? 0)%N; [exact Hinv|].
    set (i := hash t k).
    destruct (eKey (slot_at t i) =? k)%N; cbn [fst count slots]; [|exact Hinv].
    destruct (N.eq_dec (eKey (slot_at t i)) 0) as [He0|He0].
    + rewrite occ_insert_zero; [exact Hinv| |exact He0]. apply slot_free. exact He0.
    + pose proof (slot_at_lookup _ _ He0) as Hl.
      rewrite (occ_insert_over _ _ _ _ Hl He0); [exact Hinv|exact He0].
  - (* Age *) unfold age_entries. destruct (count t =? 0)%N; [exact Hinv|].
    cbn [count slots]. rewrite occ_fmap_age. exact Hinv.
  - (* Clear *) unfold clear. cbn [count slots]. rewrite occ_empty. reflexivity.
Qed.

Lemma count_exact_from t ops :
  count t = occupied t -> Forall count_safe ops ->
  count (exec_from t ops) = occupied (exec_from t ops).
Proof.
  revert t. induction ops as [|o ops IH]; intros t Hinv Hg; [exact Hinv|].
  inversion Hg as [|? ? Hs Hg']; subst. cbn [exec_from fold_left]. apply IH; [|exact Hg'].
  apply count_step; assumption.
Qed.

Lemma hashfull_spec t : hashfull t = if (cap t =? 0)%N then 0%N else (1000 * len t / cap t)%N.
Proof. reflexivity. Qed.

Theorem count_exact ops :
  Forall count_safe ops ->
  let t := exec ops in
  len t = occupied t /\
  hashfull t = (if (cap t =? 0)%N then 0 else 1000 * occupied t / cap t)%N.
Proof.
  intros Hg t. assert (Hc : count t = occupied t).
  { apply count_exact_from; [reflexivity|exact Hg]. }
  split; [exact Hc|]. unfold hashfull. rewrite Hc. reflexivity.
Qed.

(** a boolean checker for the guard *)
Definition count_safeb (o : op) : bool :=
  match o with OPut k _ _ _ _ _ => negb (k =? 0)%N | _ => true end.

Corollary count_exact_syn ops :
  forallb count_safeb ops = true ->
  len (exec ops) = occupied (exec ops).
Proof.
  intros Hs. apply count_exact. induction ops as [|o ops IH]; [constructor|].
  cbn [forallb] in Hs. apply andb_true_iff in Hs. destruct Hs as [Ho Hs].
  constructor; [|apply IH; exact Hs].
  destruct o; cbn in *; try exact I. apply negb_true_iff, N.eqb_neq in Ho. exact Ho.
Qed.

(** Resize resets the counter (repaired code, tt.go:140): this used to be the
    [count_exact_refuted_resize] witness, with Len = 1 over an empty table *)
Example resize_resets_count :
  let ops := [OPut 1 1 1 0 1 false; OResize 2] in
  len (exec ops) = 0%N /\ occupied (exec ops) = 0%N /\
  run (ops ++ [OLen; OHashfull]) = [ONone; ONone; ONum 0; ONum 0].
Proof. vm_compute. auto. Qed.

(** key 0 is the empty-slot sentinel: every Put under key 0 counts a new entry *)
Lemma count_exact_refuted_key0 :
  let ops := [OPut 0 1 1 0 1 false; OPut 0 1 1 0 1 false] in
  len (exec ops) = 2%N /\ occupied (exec ops) = 0%N.
Proof. vm_compute. auto. Qed.

(** ... and a deeper Put under key 0 evicts the resident of slot 0 without
    decrementing the count *)
Lemma count_exact_refuted_key0_evict :
  let ops := [OPut 131072 1 1 0 1 false; OPut 0 1 2 0 1 false] in
  len (exec ops) = 1%N /\ occupied (exec ops) = 0%N /\ get_entry (exec ops) 131072 = None.
Proof. vm_compute. auto. Qed.

(** in general the count never under-estimates *)
Lemma count_ge_occupied_step t o :
  (occupied t <= count t)%N -> (occupied (fst (step t o)) <= count (fst (step t o)))%N.
Proof.
  intros Hinv. rewrite !occupied_occ_map in *.
  destruct o as [mb|k m d v vt mt|k|k| | | |]; cbn [step fst] in *; try exact Hinv.
  - unfold resize. cbn [count slots]. rewrite occ_empty. lia.
  - unfold put. destruct (cap t =? 0)%N; [exact Hinv|].
    set (i := hash t k). set (new := Entry k _ _ _ _ _).
    assert (Hle : forall c, (N.of_nat (occ_map (slots t)) <= c)%N ->
              eKey (slot_at t i) <> 0%N -> (N.of_nat (occ_map (<[i:=new]> (slots t))) <= c)%N).
    { intros c Hc He0. pose proof (slot_at_lookup _ _ He0) as Hl.
      destruct (N.eq_dec (eKey new) 0) as [Hn|Hn].
      - unfold occ_map in *. rewrite map_filter_insert_False by (intros HP; apply HP; exact Hn).
        rewrite map_filter_delete.
        rewrite map_size_delete_Some; [lia|]. exists (slot_at t i).
        apply map_filter_lookup_Some. split; [exact Hl|exact He0].
      - rewrite (occ_insert_over _ _ _ _ Hl He0 Hn). exact Hc. }
    destruct (N.eqb_spec (eKey (slot_at t i)) 0) as [He0|He0]; cbn [count slots].
    + destruct (N.eq_dec (eKey new) 0) as [Hn|Hn].
      * rewrite occ_insert_zero; [lia| |exact Hn]. apply slot_free. exact He0.
      * rewrite occ_insert_new; [lia| |exact Hn]. apply slot_free. exact He0.
    + destruct (negb (eKey (slot_at t i) =? k)%N); [|apply Hle; assumption].
      destruct (replace_ok (wrap8 d) (slot_at t i)); [apply Hle; assumption|exact Hinv].
  - unfold probe. destruct (cap t =? 0)%N; [exact Hinv|].
    set (i := hash t k).
    destruct (eKey (slot_at t i) =? k)%N; cbn [fst count slots]; [|exact Hinv].
    destruct (N.eq_dec (eKey (slot_at t i)) 0) as [He0|He0].
    + rewrite occ_insert_zero; [exact Hinv| |exact He0]. apply slot_free. exact He0.
    + pose proof (slot_at_lookup _ _ He0) as Hl.
      rewrite (occ_insert_over _ _ _ _ Hl He0); [exact Hinv|exact He0].
  - unfold age_entries. destruct (count t =? 0)%N; [exact Hinv|].
    cbn [count slots]. rewrite occ_fmap_age. exact Hinv.
  - unfold clear. cbn [count slots]. rewrite occ_empty. lia.
Qed.

Theorem count_ge_occupied ops : (occupied (exec ops) <= len (exec ops))%N.
Proof.
  unfold exec, len. assert (H0 : (occupied init <= count init)%N) by (vm_compute; discriminate).
  revert H0. generalize init. induction ops as [|o ops IH]; intros t Ht; [exact Ht|].
  cbn [exec_from fold_left]. apply IH. apply count_ge_occupied_step. exact Ht.
Qed.

(** ** Well-formedness: the index is always inside the slice *)

Definition wf (t : tt) : Prop :=
  (cap t = 0%N \/ exists n, cap t = (2 ^ n)%N /\ mask t = (cap t - 1)%N) /\
  (forall i e, slots t !! i = Some e -> (i < cap t)%N).

Lemma capacity_pow2 mb : capacity mb = 0%N \/ exists n, capacity mb = (2 ^ n)%N.
Proof.
  unfold capacity. destruct (_ =? 0)%N; [left; reflexivity|right; eexists; reflexivity].
Qed.

Lemma hash_lt t k : wf t -> cap t <> 0%N -> (hash t k < cap t)%N.
Proof.
  intros [[H0|(n & Hc & Hm)] _] Hne; [contradiction|].
  unfold hash. rewrite Hm, Hc, N.sub_1_r, <- N.ones_equiv, N.land_ones.
  apply N.mod_lt. apply N.pow_nonzero. discriminate.
Qed.

Lemma wf_step t o : wf t -> wf (fst (step t o)).
Proof.
  intros Hwf. pose proof (hash_lt t) as Hlt. destruct Hwf as [Hcap Hsl].
  assert (Hins : forall k e c, cap t <> 0%N ->
            wf (TT (<[hash t k := e]> (slots t)) (mask t) (cap t) c)).
  { intros k e c Hne. split; [exact Hcap|]. cbn [slots cap]. intros i e' Hl.
    destruct (N.eq_dec i (hash t k)) as [->|Hi].
    - apply Hlt; [split; assumption|exact Hne].
    - rewrite lookup_insert_ne in Hl by congruence. eapply Hsl; eassumption. }
  destruct o as [mb|k m d v vt mt|k|k| | | |]; cbn [step fst]; try (split; assumption).
  - unfold resize. split; cbn [cap mask slots].
    + destruct (capacity_pow2 mb) as [->|(n & Hn)]; [left; reflexivity|right].
      exists n. split; [exact Hn|]. destruct (N.eqb_spec (capacity mb) 0) as [H0|_]; [|reflexivity].
      exfalso. rewrite Hn in H0. revert H0. apply N.pow_nonzero. discriminate.
    + intros i e Hl. rewrite lookup_empty in Hl. discriminate.
  - unfold put. destruct (N.eqb_spec (cap t) 0) as [|Hne]; [split; assumption|].
    destruct (eKey (slot_at t (hash t k)) =? 0)%N; [apply Hins; exact Hne|].
    destruct (negb _); [|apply Hins; exact Hne].
    destruct (replace_ok _ _); [apply Hins; exact Hne|split; assumption].
  - unfold probe. destruct (N.eqb_spec (cap t) 0) as [|Hne]; [split; assumption|].
    destruct (eKey (slot_at t (hash t k)) =? k)%N; cbn [fst]; [apply Hins; exact Hne|split; assumption].
  - unfold age_entries. destruct (count t =? 0)%N; [split; assumption|].
    split; [exact Hcap|]. cbn [slots cap]. intros i e Hl. rewrite lookup_fmap in Hl.
    destruct (slots t !! i) as [e0|] eqn:Hl0; [|discriminate]. eapply Hsl; eassumption.
  - unfold clear. split; [exact Hcap|]. cbn [slots cap]. intros i e Hl.
    rewrite lookup_empty in Hl. discriminate.
Qed.

Theorem wf_exec ops : wf (exec ops).
Proof.
  unfold exec. assert (H0 : wf init).
  { apply (wf_step empty_tt (OResize 2)). split; [left; reflexivity|].
    intros i e Hl. cbn in Hl. rewrite lookup_empty in Hl. discriminate. }
  revert H0. generalize init. induction ops as [|o ops IH]; intros t Ht; [exact Ht|].
  cbn [exec_from fold_left]. apply IH, wf_step, Ht.
Qed.

(** no index-out-of-range panic: whenever Put/Probe/GetEntry index [data], the index
    is below len(data) *)
Corollary index_in_range ops k :
  cap (exec ops) <> 0%N -> (hash (exec ops) k < cap (exec ops))%N.
Proof. apply hash_lt, wf_exec. Qed.

(** a table of size 0 is inert *)
Lemma cap0_inert t k m d v vt mt :
  cap t = 0%N ->
  put t k m d v vt mt = t /\ probe t k = (t, None) /\ get_entry t k = None /\ hashfull t = 0%N.
Proof. intros H0. unfold put, probe, get_entry, hashfull. rewrite H0. auto. Qed.

(** ** [run] versus [exec]: the i-th observation is the result of the i-th operation
    in the state reached by the operations before it *)
Lemma run_from_snoc t ops o :
  run_from t (ops ++ [o]) = run_from t ops ++ [snd (step (exec_from t ops) o)].
Proof.
  revert t. induction ops as [|o' ops IH]; intros t.
  - cbn [app run_from exec_from fold_left]. destruct (step t o). reflexivity.
  - rewrite <- app_comm_cons, !run_from_cons, IH. reflexivity.
Qed.

Theorem run_snoc ops o : run (ops ++ [o]) = run ops ++ [snd (step (exec ops) o)].
Proof. apply run_from_snoc. Qed.

Lemma run_length ops : length (run ops) = length ops.
Proof. pose proof (never_foreign ops) as H. symmetry. eapply Forall2_length; eassumption. Qed.

(** ** End to end: what a hit returns, decoded *)

(** A hit for [k] carries the move part, the value, the depth, the bound type and the
    mate-threat flag of the last Put for [k]; the value is intact whenever that Put
    passed a real move (word <> MoveNone) and a valid value. *)
Theorem probe_sound_value ops k e :
  k <> 0%N ->
  get_entry (exec ops) k = Some e \/ snd (probe (exec ops) k) = Some e ->
  exists ops1 m d v vt mt ops2,
    ops = ops1 ++ OPut k m d v vt mt :: ops2 /\
    Forall (undisturbed k) ops2 /\
    eKey e = k /\ eDepth e = wrap8 d /\ eType e = vt /\ eMT e = mt /\
    (m <> 0%N -> -10000 <= wrap16 v <= 10000 ->
       ValueOf (eMove e) = wrap16 v /\ MoveOf (eMove e) = MoveOf m).
Proof.
  intros Hk Hhit.
  assert (H : exists ops1 m d v vt mt ops2,
    ops = ops1 ++ OPut k m d v vt mt :: ops2 /\ Forall (undisturbed k) ops2 /\
    eKey e = k /\ eMove e = put_move m (wrap16 v) /\ eDepth e = wrap8 d /\
    eType e = vt /\ eMT e = mt).
  { destruct Hhit as [Hg|Hp];
      [eapply probe_sound_last_put|eapply probe_sound_last_put_probe]; eassumption. }
  destruct H as (ops1 & m & d & v & vt & mt & ops2 & Hops & Hf & H1 & H2 & H3 & H4 & H5).
  exists ops1, m, d, v, vt, mt, ops2. repeat (split; [assumption|]).
  intros Hm Hv. rewrite H2. unfold put_move, is_valid, ValueMin, ValueMax.
  replace ((-10000 <=? wrap16 v) && (wrap16 v <=? 10000)) with true by lia.
  destruct (value_roundtrip_word m (wrap16 v) Hm Hv) as (Hv1 & Hv2 & _). auto.
Qed.

(** the two ways the stored value is NOT intact (both confirmed on the engine) *)
Lemma value_lost_on_MoveNone :
  run [OPut 5 0 1 100 1 false; OGet 5] = [ONone; OEntry 5 0 1 1 1 false] /\
  ValueOf 0 = ValueNA.
Proof. vm_compute. auto. Qed.

Lemma invalid_value_not_stored :
  run [OPut 5 65537 1 10001 1 false; OGet 5] = [ONone; OEntry 5 65537 1 1 1 false] /\
  ValueOf 65537 = -15000.
Proof. vm_compute. auto. Qed.

(** ** put_then_get: a store to a free slot (or over the same key) is found again *)

Lemma put_then_get_raw t k m d v vt mt :
  cap t <> 0%N ->
  (eKey (slot_at t (hash t k)) = 0%N \/ eKey (slot_at t (hash t k)) = k \/
   replace_ok d (slot_at t (hash t k)) = true) ->
  get_entry (put t k m d v vt mt) k = Some (Entry k (put_move m v) d 1 vt mt).
Proof.
  intros Hcap Hslot.
  assert (Hw : forall c, get_entry (TT (<[hash t k := Entry k (put_move m v) d 1 vt mt]> (slots t))
                                    (mask t) (cap t) c) k
                         = Some (Entry k (put_move m v) d 1 vt mt)).
  { intros c. apply get_entry_unfold. cbn [cap mask]. split; [exact Hcap|].
    split; [apply slot_at_insert_eq|reflexivity]. }
  unfold put. destruct (N.eqb_spec (cap t) 0) as [|_]; [contradiction|].
  destruct (N.eqb_spec (eKey (slot_at t (hash t k))) 0) as [|He0]; [apply Hw|].
  destruct (N.eqb_spec (eKey (slot_at t (hash t k))) k) as [|Hek]; cbn [negb]; [apply Hw|].
  destruct Hslot as [H|[H|H]]; [contradiction|contradiction|]. rewrite H. apply Hw.
Qed.

(** in the terms of the operation: the int8/int16 conversions of [step] applied.
    Holds for every key (for k = 0 a free slot 0 "holds" it). *)
Lemma put_then_get t k m d v vt mt :
  cap t <> 0%N ->
  (eKey (slot_at t (hash t k)) = 0%N \/ eKey (slot_at t (hash t k)) = k) ->
  get_entry (fst (step t (OPut k m d v vt mt))) k
  = Some (Entry k (put_move m (wrap16 v)) (wrap8 d) 1 vt mt).
Proof.
  intros Hcap Hslot. cbn [step fst]. apply put_then_get_raw; [exact Hcap|tauto].
Qed.

(** non-vacuity of [probe_sound] on the default table: the first Put of any key is found *)
Corollary put_then_get_fresh k m d v vt mt :
  get_entry (exec [OPut k m d v vt mt]) k
  = Some (Entry k (put_move m (wrap16 v)) (wrap8 d) 1 vt mt).
Proof.
  unfold exec, exec_from. cbn [fold_left]. apply put_then_get.
  - vm_compute. discriminate.
  - left. unfold init, new_tt, resize. rewrite slot_at_empty. reflexivity.
Qed.

(** ** age_saturation: how far the int8 Age counts faithfully *)

Lemma exec_count_nonzero ops i :
  eKey (slot_at (exec ops) i) <> 0%N -> count (exec ops) <> 0%N.
Proof.
  intros Hne H0. pose proof (R_exec ops) as HR.
  destruct (R_slots _ _ HR _ _ (slot_at_lookup _ _ Hne) Hne) as [Hin _].
  rewrite (R_count _ _ HR H0) in Hin. destruct Hin.
Qed.

Lemma age_step_get t k e :
  count t <> 0%N -> k <> 0%N -> get_entry t k = Some e ->
  get_entry (age_entries t) k = Some (set_age e (wrap8 (eAge e + 1))).
Proof.
  intros Hc Hk Hg. apply get_entry_unfold in Hg. destruct Hg as (Hcap & Hs & Hek).
  unfold age_entries. destruct (N.eqb_spec (count t) 0) as [|_]; [contradiction|].
  apply get_entry_unfold. cbn [cap mask]. split; [exact Hcap|].
  rewrite slot_at_fmap_age. fold (slot_at t (N.land k (mask t))). rewrite Hs.
  unfold age_entry. rewrite Hek. destruct (N.eqb_spec k 0) as [|_]; [contradiction|].
  split; [reflexivity|exact Hek].
Qed.

Lemma set_age_same e a : a = eAge e -> set_age e a = e.
Proof. intros ->. destruct e; reflexivity. Qed.

(** [n] consecutive AgeEntries add exactly [n] to the age of a resident entry as long
    as the result fits int8 *)
Theorem age_saturation ops k e n :
  k <> 0%N -> get_entry (exec ops) k = Some e ->
  -128 <= eAge e -> eAge e + Z.of_nat n <= 127 ->
  get_entry (exec (ops ++ repeat OAge n)) k = Some (set_age e (eAge e + Z.of_nat n)).
Proof.
  intros Hk. revert ops e. induction n as [|n IH]; intros ops e Hg Hlo Hhi.
  - rewrite app_nil_r, Hg. f_equal. symmetry. apply set_age_same. lia.
  - cbn [repeat]. replace (ops ++ OAge :: repeat OAge n) with ((ops ++ [OAge]) ++ repeat OAge n)
      by (rewrite <- app_assoc; reflexivity).
    assert (Hg1 : get_entry (exec (ops ++ [OAge])) k = Some (set_age e (eAge e + 1))).
    { rewrite exec_snoc. cbn [step fst].
      rewrite (age_step_get _ k e); [rewrite wrap8_id by lia; reflexivity| |exact Hk|exact Hg].
      apply get_entry_unfold in Hg. destruct Hg as (_ & Hs & Hek).
      apply (exec_count_nonzero ops (N.land k (mask (exec ops)))). rewrite Hs, Hek. exact Hk. }
    rewrite (IH _ _ Hg1); cbn [eAge set_age]; [|lia|lia].
    f_equal. fold (set_age e (eAge e + 1 + Z.of_nat n)). f_equal. lia.
Qed.

(** after a Put that is found again (age 1), up to 126 ageings read 1 + n, so
    "the resident has aged" ([eAge > 1]) is exactly "n >= 1"; the 127th ageing wraps
    to -128 (see [age_wraps]) *)
Corollary age_after_put ops k e n :
  k <> 0%N -> get_entry (exec ops) k = Some e -> eAge e = 1 -> (n <= 126)%nat ->
  exists e', get_entry (exec (ops ++ repeat OAge n)) k = Some e' /\
             eAge e' = 1 + Z.of_nat n /\ same_payload e e' /\
             (eAge e' > 1 <-> (1 <= n)%nat).
Proof.
  intros Hk Hg Ha Hn. exists (set_age e (eAge e + Z.of_nat n)).
  split; [apply age_saturation; [exact Hk|exact Hg|lia|lia]|].
  cbn [eAge set_age]. split; [lia|]. split; [repeat split|lia].
Qed.

(** 126 is sharp: the 127th ageing reads -128, i.e. "not aged" *)
Lemma age_saturation_sharp :
  get_entry (exec (OPut 7 4660 1 0 1 false :: repeat OAge 126)) 7
    = Some (Entry 7 983110196 1 127 1 false) /\
  get_entry (exec (OPut 7 4660 1 0 1 false :: repeat OAge 127)) 7
    = Some (Entry 7 983110196 1 (-128) 1 false).
Proof. vm_compute. auto. Qed.

(** ** Examples *)

(** cap(2 MB) = 131072 = 2^17, so keys 5 and 131077 = 5 + 2^17 collide in slot 5 *)
Example capacity_2MB : capacity 2 = 131072%N /\ mask init = 131071%N.
Proof. vm_compute. auto. Qed.

Example capacity_samples :
  capacity 0 = 0%N /\ capacity 1 = 65536%N /\ capacity 3 = 131072%N /\
  capacity 64 = 4194304%N /\ capacity 100 = 4194304%N /\
  capacity 65536 = 4294967296%N /\ capacity 70000 = 4294967296%N.
Proof. vm_compute. repeat split. Qed.

Example run_example :
  run [ OPut 5 4660 3 150 1 false;              (* store key 5, depth 3, value 150 *)
        OGet 5;                                 (* hit, age 1 *)
        OPut 131077 4661 3 (-9990) 2 true;      (* collision, equal depth, resident fresh: rejected *)
        OGet 131077; OGet 5;                    (* miss; resident intact *)
        OPut 131077 4661 4 (-9990) 2 true;      (* collision, deeper: replaces *)
        OGet 131077; OGet 5;                    (* hit with mate value -9990; old key gone *)
        OAge; OAge; OGet 131077;                (* age 1 -> 3 *)
        OProbe 131077;                          (* Probe decrements: age 2 *)
        OPut 5 4660 4 9999 1 false;             (* collision, equal depth, resident aged (2 > 1): replaces *)
        OProbe 5; OProbe 5;                     (* age 1 -> 0, clamped at 0 *)
        OPut 6 4662 0 0 3 false; OLen; OHashfull;
        OClear; OGet 5; OLen ]
  = [ ONone; OEntry 5 992940596 3 1 1 false;
      ONone; ONone; OEntry 5 992940596 3 1 1 false;
      ONone; OEntry 131077 328405557 4 1 2 true; ONone;
      ONone; ONone; OEntry 131077 328405557 4 3 2 true;
      OEntry 131077 328405557 4 2 2 true;
      ONone; OEntry 5 1638404660 4 0 1 false; OEntry 5 1638404660 4 0 1 false;
      ONone; ONum 2; ONum 0;
      ONone; ONone; ONum 0 ]
  /\ (ValueOf 992940596, ValueOf 328405557, ValueOf 1638404660) = (150, -9990, 9999)
  /\ (MoveOf 992940596, MoveOf 328405557) = (4660%N, 4661%N).
Proof. vm_compute. repeat split. Qed.

(** the abstract specification run on the same prefix agrees *)
Example spec_example :
  spec_lookup [ OPut 5 4660 3 150 1 false; OPut 131077 4661 3 (-9990) 2 true ] 5
    = Some (Stored 992940596 3 1 1 false) /\
  spec_lookup [ OPut 5 4660 3 150 1 false; OPut 131077 4661 3 (-9990) 2 true ] 131077 = None /\
  spec_lookup [ OPut 5 4660 3 150 1 false; OPut 131077 4661 4 (-9990) 2 true ] 5 = None /\
  spec_lookup [ OPut 5 4660 3 150 1 false; OPut 131077 4661 4 (-9990) 2 true ] 131077
    = Some (Stored 328405557 4 1 2 true).
Proof. vm_compute. repeat split. Qed.

(** key 0 and size 0 *)
Example run_key0_size0 :
  run [ OProbe 0; OPut 0 5 1 1 1 false; OPut 0 5 1 1 1 false; OLen;
        OResize 0; OPut 5 1 1 1 1 false; OGet 5; OProbe 5; OAge; OLen; OHashfull;
        OResize 1; OPut 65541 4660 1 1 1 false; OGet 5; OGet 65541 ]
  = [ OEntry 0 0 0 0 0 false; ONone; ONone; ONum 2;
      ONone; ONone; ONone; ONone; ONone; ONum 0; ONum 0;
      ONone; ONone; ONone; OEntry 65541 983175732 1 1 1 false ].
Proof. vm_compute. reflexivity. Qed.

(** FINDING (int8 wrap of Age): after 127 AgeEntries the age of an untouched entry is
    -128, so the oldest possible entry counts as "not aged" for the replacement rule
    (an equal-depth colliding Put is rejected), and a Probe wraps it to +127. *)
Example age_wraps :
  run (OPut 7 4660 1 0 1 false :: repeat OAge 127 ++
       [OGet 7; OPut 131079 4661 1 0 1 false; OGet 131079; OProbe 7])
  = ONone :: repeat ONone 127 ++
    [OEntry 7 983110196 1 (-128) 1 false; ONone; ONone; OEntry 7 983110196 1 127 1 false].
Proof. vm_compute. reflexivity. Qed.

(* ------------------------------------------------------------------------- *)
(** ** Assumptions *)

Print Assumptions probe_sound.
Print Assumptions probe_sound_last_put.
Print Assumptions probe_sound_last_put_probe.
Print Assumptions probe_sound_value.
Print Assumptions never_foreign.
Print Assumptions never_foreign_get.
Print Assumptions never_foreign_probe.
Print Assumptions value_roundtrip.
Print Assumptions value_roundtrip_word.
Print Assumptions mate_adjust.
Print Assumptions mate_adjust_iff.
Print Assumptions replace_policy.
Print Assumptions replace_policy_iff.
Print Assumptions count_exact.
Print Assumptions count_exact_syn.
Print Assumptions put_then_get.
Print Assumptions put_then_get_fresh.
Print Assumptions age_saturation.
Print Assumptions age_after_put.
Print Assumptions count_ge_occupied.
Print Assumptions capacity_exact.
Print Assumptions index_in_range.
Print Assumptions run_snoc.
Print Assumptions run_example.
