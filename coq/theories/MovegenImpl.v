(** * MovegenImpl: executable model of the engine's bitboard move generator (C01, C08).

    Transcription of
      internal/movegen/movegen.go : GeneratePseudoLegalMoves, GenerateLegalMoves, generatePawnMoves,
                                    generateCastling, generateKingMoves, generateMoves,
                                    getEvasionTargets, HasLegalMove, GetNextMove,
                                    fillOnDemandMoveList, ResetOnDemand, SetPvMove, StoreKiller,
                                    isNonQuiet
      internal/moveslice/moveslice.go : Sort (stable insertion sort, descending sort value)
      internal/types/color.go     : MoveDirection, PromotionRankBb, PawnDoubleRank
      internal/types/bitboard.go  : ShiftBitboard, PopLsb, Lsb, PopCount, Intermediate
    over a [BitView.bview] (definitions only; the theorems are in MovegenProofs*.v).

    Conventions
    - Every array access of the Go code is a partial lookup ([None] = the Go code would index
      out of range or panic), so [Some l] means "the Go function produces l without failing".
    - A generated move is the 16-bit move part [MoveOf (CreateMove from to type prom)]; the
      sort value (high 16 bits, computed from piece values / PosValue / history) only feeds
      [MoveSlice.Sort] and is abstracted into a sort-value oracle ([go_sort]).  The lookups
      done only to compute sort values (position.GetPiece on generated squares, PosValue
      with p.gamePhase) are therefore outside this model.
    - [prom_nq] is config.Settings.Search.UsePromNonQuiet.
    - mode: 1 = GenNonQuiet, 2 = GenQuiet, 3 = GenAll (movegen.go:79-84).
    - A loop  for b != 0 { sq := b.PopLsb(); ... }  visits [sq_list_of_bb b] in order. *)
From Coq Require Import NArith ZArith List Bool.
From FG Require Import Word64 Geom Tables Rules FenSpec Oracle BitView AttacksImpl MoveEnc.
From FG.gen Require Import Tables_gen.
Import ListNotations.
Open Scope N_scope.

(** ** small helpers *)
Definition unwrap (o : option (list N)) : list N := match o with Some l => l | None => [] end.

(* sequential loop with failing body: the outputs are appended in visiting order *)
Fixpoint flat_map_o {A} (f : A -> option (list N)) (l : list A) : option (list N) :=
  match l with
  | [] => Some []
  | x :: r => do a <- f x; do b <- flat_map_o f r; Some (a ++ b)
  end.

(* the 16-bit move the generator leaves in the list after "remove internal sort value"
   (movegen.go:173 / 295:  .MoveOf()); CreateMoveValue differs from CreateMove only in the
   value half (MoveEnc.CreateMoveValue_split) *)
Definition mk_code (from to ty prom : N) : N := MoveOf (CreateMove from to ty prom).

Definition PT_NONE : N := 0.

(* mode & GenNonQuiet != 0,  mode & GenQuiet != 0 *)
Definition has_nq (mode : N) : bool := negb (N.land mode 1 =? 0).
Definition has_q (mode : N) : bool := negb (N.land mode 2 =? 0).

(** ** internal/types *)
(* direction.go:37-44  Direction int8: North = 8, East = 1, South = -8, West = -1, ... ;
   the generator computes directions arithmetically (MoveDirection()+West etc.) *)
Definition dir_val (d : dir) : Z :=
  match d with DN => 8 | DE => 1 | DS => -8 | DW => -1 | DNE => 9 | DSE => -7 | DSW => -9 | DNW => 7 end%Z.
Definition dir_of_val (z : Z) : option dir :=
  (if z =? 8 then Some DN else if z =? 1 then Some DE else if z =? -8 then Some DS
   else if z =? -1 then Some DW else if z =? 9 then Some DNE else if z =? -7 then Some DSE
   else if z =? -9 then Some DSW else if z =? 7 then Some DNW else None)%Z.
Definition dir_plus (a b : dir) : option dir := dir_of_val (dir_val a + dir_val b).
Definition dir_minus (a b : dir) : option dir := dir_of_val (dir_val a - dir_val b).

(* bitboard.go:74  ShiftBitboard: a direction that is none of the eight returns b unchanged *)
Definition shift_bb (b : N) (od : option dir) : N :=
  match od with Some d => shift_impl b d | None => b end.
(* square.go:156  To: a direction that is none of the eight panics *)
Definition sq_to_o (s : N) (od : option dir) : option N :=
  match od with Some d => sq_to s d | None => None end.

(* color.go:79  promRankBb = [2]Bitboard{Rank8_Bb, Rank1_Bb} *)
Definition prom_rank_bb (c : N) : option N :=
  if c =? 0 then rank_bb 7 else if c =? 1 then rank_bb 0 else None.
(* color.go:86  pawnDoubleRankBb = [2]Bitboard{Rank3_Bb, Rank6_Bb} *)
Definition pawn_double_rank (c : N) : option N :=
  if c =? 0 then rank_bb 2 else if c =? 1 then rank_bb 5 else None.

(* position.go:1134  OccupiedBb(c) = occupiedBb[c]      [ColorLength]Bitboard *)
Definition occ_bb (v : bview) (c : N) : option N :=
  if c =? 0 then Some (occw v) else if c =? 1 then Some (occb v) else None.

(* bitboard.go:426  Intermediate(sq1, sq2) = intermediate[sq1][sq2]   [SqLength][SqLength]Bitboard *)
Definition intermediate_bb (a b : N) : option N :=
  if (a <? 64) && (b <? 64) then look t_intermediate (64 * a + b) else None.

(* ^x on uint64 *)
Definition bnot (x : N) : N := wnot x.

(** ** movegen.go:810  generatePawnMoves *)

(* movegen.go:853-858 / 940-946: the four promotion moves, Queen Knight Rook Bishop *)
Definition promo_qn (from to : N) : list N :=
  [mk_code from to PROMOTION QUEEN; mk_code from to PROMOTION KNIGHT].
Definition promo_rb (from to : N) : list N :=
  [mk_code from to PROMOTION ROOK; mk_code from to PROMOTION BISHOP].

(* movegen.go:838-871: one iteration of  for _, dir := range []Direction{West, East}  *)
Definition gen_pawn_captures_dir (v : bview) (evasion : bool) (evt : N) (we : dir) : option (list N) :=
  let us := vstm v in                                           (* 812 *)
  do myPawns <- pbb v us PAWN;                                  (* 813 *)
  do oppPieces <- occ_bb v (flipc us);                          (* 814 *)
  do md <- move_direction us;
  do fmd <- move_direction (flipc us);
  do prb <- prom_rank_bb us;
  (* 840: tmpCaptures = ShiftBitboard(myPawns, nextPlayer.MoveDirection()+dir) & oppPieces *)
  let tmp0 := N.land (shift_bb myPawns (dir_plus md we)) oppPieces in
  (* 841-843: if evasion { tmpCaptures &= evasionTargets } *)
  let tmp := if evasion then N.land tmp0 evt else tmp0 in
  (* 845: promCaptures = tmpCaptures & nextPlayer.PromotionRankBb() *)
  let promc := N.land tmp prb in
  (* 847-859: fromSquare := toSquare.To(nextPlayer.Flip().MoveDirection() - dir); Q N R B *)
  do l1 <- flat_map_o (fun to => do from <- sq_to_o to (dir_minus fmd we);
                                 Some (promo_qn from to ++ promo_rb from to)) (sq_list_of_bb promc);
  (* 862: tmpCaptures &= ^nextPlayer.PromotionRankBb() *)
  let tmp2 := N.land tmp (bnot prb) in
  (* 863-870 *)
  do l2 <- flat_map_o (fun to => do from <- sq_to_o to (dir_minus fmd we);
                                 Some [mk_code from to NORMAL PT_NONE]) (sq_list_of_bb tmp2);
  Some (l1 ++ l2).

(* movegen.go:876-885: one iteration of the en passant loop *)
Definition gen_ep_dir (v : bview) (we : dir) : option (list N) :=
  let us := vstm v in
  do myPawns <- pbb v us PAWN;
  do md <- move_direction us;
  do fmd <- move_direction (flipc us);
  do epbb <- sq_bb (vep v);                                     (* enPassantSquare.Bb() *)
  (* 877: tmpCaptures = ShiftBitboard(enPassantSquare.Bb(), nextPlayer.Flip().MoveDirection()+dir) & myPawns *)
  let tmp := N.land (shift_bb epbb (dir_plus fmd we)) myPawns in
  (* 878-884: if tmpCaptures != 0 { fromSquare := tmpCaptures.PopLsb(); toSquare := fromSquare.To(MoveDirection() - dir) *)
  if tmp =? 0 then Some [] else
  let from := fst (pop_lsb tmp) in
  do to <- sq_to_o from (dir_minus md we);
  Some [mk_code from to ENPASSANT PT_NONE].

(* movegen.go:889-905: queen and knight push promotions as non quiet moves *)
Definition gen_pawn_promnq (v : bview) (evasion : bool) (evt : N) : option (list N) :=
  let us := vstm v in
  do myPawns <- pbb v us PAWN;
  do md <- move_direction us;
  do fmd <- move_direction (flipc us);
  do prb <- prom_rank_bb us;
  (* 890-892 *)
  let pm0 := N.land (N.land (shift_bb myPawns (Some md)) (bnot (occ_all v))) prb in
  (* 893-895 *)
  let pm := if evasion then N.land pm0 evt else pm0 in
  (* 896-904 *)
  flat_map_o (fun to => do from <- sq_to_o to (Some fmd); Some (promo_qn from to)) (sq_list_of_bb pm).

(* movegen.go:909-964: the quiet half *)
Definition gen_pawn_quiet (prom_nq : bool) (v : bview) (evasion : bool) (evt : N) : option (list N) :=
  let us := vstm v in
  do myPawns <- pbb v us PAWN;
  do md <- move_direction us;
  do fmd <- move_direction (flipc us);
  do prb <- prom_rank_bb us;
  do dbl <- pawn_double_rank us;
  (* 920: tmpMoves := ShiftBitboard(myPawns, MoveDirection()) & ^position.OccupiedAll() *)
  let tm0 := N.land (shift_bb myPawns (Some md)) (bnot (occ_all v)) in
  (* 922: tmpMovesDouble := ShiftBitboard(tmpMoves & PawnDoubleRank(), MoveDirection()) & ^OccupiedAll() *)
  let td0 := N.land (shift_bb (N.land tm0 dbl) (Some md)) (bnot (occ_all v)) in
  (* 924-927 *)
  let tm := if evasion then N.land tm0 evt else tm0 in
  let td := if evasion then N.land td0 evt else td0 in
  (* 930-947: promotions; Q and N only if !UsePromNonQuiet; then R, B *)
  let promMoves := N.land tm prb in
  do l1 <- flat_map_o (fun to => do from <- sq_to_o to (Some fmd);
                                 Some ((if prom_nq then [] else promo_qn from to) ++ promo_rb from to))
                      (sq_list_of_bb promMoves);
  (* 949-955: double steps: fromSquare := toSquare.To(flipdir).To(flipdir) *)
  do l2 <- flat_map_o (fun to => do mid <- sq_to_o to (Some fmd); do from <- sq_to_o mid (Some fmd);
                                 Some [mk_code from to NORMAL PT_NONE]) (sq_list_of_bb td);
  (* 957-963: tmpMoves &= ^PromotionRankBb(); single steps *)
  let tm2 := N.land tm (bnot prb) in
  do l3 <- flat_map_o (fun to => do from <- sq_to_o to (Some fmd);
                                 Some [mk_code from to NORMAL PT_NONE]) (sq_list_of_bb tm2);
  Some (l1 ++ l2 ++ l3).

Definition gen_pawn_nonquiet (prom_nq : bool) (v : bview) (evasion : bool) (evt : N) : option (list N) :=
  (* 838: West, East *)
  do cw <- gen_pawn_captures_dir v evasion evt DW;
  do ce <- gen_pawn_captures_dir v evasion evt DE;
  (* 874-886: if enPassantSquare != SqNone { West, East } *)
  do epl <- (if vep v =? 64 then Some [] else
             do a <- gen_ep_dir v DW; do b <- gen_ep_dir v DE; Some (a ++ b));
  (* 889 *)
  do pq <- (if prom_nq then gen_pawn_promnq v evasion evt else Some []);
  Some (cw ++ ce ++ epl ++ pq).

Definition gen_pawn_moves (prom_nq : bool) (v : bview) (mode : N) (evasion : bool) (evt : N) : option (list N) :=
  (* 819: if mode&GenNonQuiet != 0 *)
  do a <- (if has_nq mode then gen_pawn_nonquiet prom_nq v evasion evt else Some []);
  (* 909: if mode&GenQuiet != 0 *)
  do b <- (if has_q mode then gen_pawn_quiet prom_nq v evasion evt else Some []);
  Some (a ++ b).

(** ** movegen.go:967  generateCastling *)
(* castlingrights.go:55  Has: cr&rhs != 0  (the Go code compares cr&rhs with rhs or 0; for one-bit rhs the same) *)
Definition cr_has (cr bit : N) : bool := negb (N.land cr bit =? 0).

Definition gen_castling (v : bview) (mode : N) : option (list N) :=
  let occ := occ_all v in                                       (* 969 *)
  (* 974: if mode&GenQuiet != 0 && position.CastlingRights() != CastlingNone *)
  if has_q mode && negb (vcr v =? 0) then
    let cr := vcr v in
    let one (bit kf kt rf : N) : option (list N) :=
      (* cr.Has(bit) && Intermediate(kf, rf)&occupiedBB == 0   (&& is short-circuit) *)
      if cr_has cr bit then
        do im <- intermediate_bb kf rf;
        Some (if N.land im occ =? 0 then [mk_code kf kt CASTLING PT_NONE] else [])
      else Some [] in
    if vstm v =? 0 then                                         (* 976: if nextPlayer == White *)
      do a <- one 1 4 6 7;                                      (* 977: E1 G1, Intermediate(E1,H1) *)
      do b <- one 2 4 2 0;                                      (* 980: E1 C1, Intermediate(E1,A1) *)
      Some (a ++ b)
    else                                                        (* 983 *)
      do a <- one 4 60 62 63;                                   (* 984: E8 G8, Intermediate(E8,H8) *)
      do b <- one 8 60 58 56;                                   (* 987: E8 C8, Intermediate(E8,A8) *)
      Some (a ++ b)
  else Some [].

(** ** movegen.go:994  generateKingMoves *)
Definition gen_king_moves (v : bview) (mode : N) (evasion : bool) : option (list N) :=
  let us := vstm v in                                           (* 995 *)
  let them := flipc us in                                       (* 996 *)
  do kbb <- pbb v us KING;                                      (* 999 *)
  let from := fst (pop_lsb kbb) in                              (* 1000: SqNone if there is no king *)
  do pseudoMoves <- get_attacks_bb KING from 0;                 (* 1003: pseudoAttacks[King][fromSquare] *)
  (* in case we are in check: only squares not attacked by the opponent (1012, 1026) *)
  let keep (to : N) : option (list N) :=
    if evasion then
      do atk <- attacks_to_impl v to them;
      Some (if (popcount atk =? 0)%nat then [mk_code from to NORMAL PT_NONE] else [])
    else Some [mk_code from to NORMAL PT_NONE] in
  (* 1006-1017 *)
  do a <- (if has_nq mode then
             do oth <- occ_bb v them;
             flat_map_o keep (sq_list_of_bb (N.land pseudoMoves oth))
           else Some []);
  (* 1020-1031: nonCaptures := pseudoMoves &^ p.OccupiedAll() *)
  do b <- (if has_q mode then flat_map_o keep (sq_list_of_bb (N.ldiff pseudoMoves (occ_all v)))
           else Some []);
  Some (a ++ b).

(** ** movegen.go:1045  generateMoves (knights, bishops, rooks, queens) *)
Definition gen_moves_from (v : bview) (mode : N) (evasion : bool) (evt : N) (pt from : N) : option (list N) :=
  let us := vstm v in
  let occ := occ_all v in                                       (* 1048 *)
  do moves <- get_attacks_bb pt from occ;                       (* 1066 *)
  (* 1069-1079 *)
  do a <- (if has_nq mode then
             do oth <- occ_bb v (flipc us);
             let c0 := N.land moves oth in
             let c := if evasion then N.land c0 evt else c0 in
             Some (map (fun to => mk_code from to NORMAL PT_NONE) (sq_list_of_bb c))
           else Some []);
  (* 1082-1092: nonCaptures := moves &^ occupiedBb *)
  let b := if has_q mode then
             let n0 := N.ldiff moves occ in
             let n := if evasion then N.land n0 evt else n0 in
             map (fun to => mk_code from to NORMAL PT_NONE) (sq_list_of_bb n)
           else [] in
  Some (a ++ b).

Definition gen_moves_pt (v : bview) (mode : N) (evasion : bool) (evt : N) (pt : N) : option (list N) :=
  do pcs <- pbb v (vstm v) pt;                                  (* 1060 *)
  flat_map_o (gen_moves_from v mode evasion evt pt) (sq_list_of_bb pcs).   (* 1063 *)

Definition gen_moves (v : bview) (mode : N) (evasion : bool) (evt : N) : option (list N) :=
  (* 1059: for pt := Knight; pt <= Queen; pt++ *)
  flat_map_o (gen_moves_pt v mode evasion evt) [KNIGHT; BISHOP; ROOK; QUEEN].

(** ** movegen.go:793  getEvasionTargets *)
Definition evasion_targets (v : bview) : option N :=
  let us := vstm v in                                           (* 794 *)
  do ourKing <- king_square v us;                               (* 795 *)
  do atk <- attacks_to_impl v ourKing (flipc us);                (* 797 *)
  (* 800: if evasionTargets.PopCount() == 1 *)
  if (popcount atk =? 1)%nat then
    let atck := lsb atk in                                       (* 801 *)
    do pc <- board_at v atck;                                   (* 803: p.GetPiece(atck).TypeOf() > Knight *)
    if KNIGHT <? N.land pc 7 then
      do im <- intermediate_bb atck ourKing;                    (* 804 *)
      Some (N.lor atk im)
    else Some atk
  else Some atk.

(** ** movegen.go:140  GeneratePseudoLegalMoves: the list in GENERATION order, before
       updateSortValues / Sort (which only permute it, see [go_sort]) *)
Definition gen_pseudo (prom_nq : bool) (v : bview) (mode : N) (evasion : bool) : option (list N) :=
  (* 145-147: if evasion { mg.onDemandEvasionTargets = mg.getEvasionTargets(p) };
     without evasion the stale field is passed on but never read *)
  do evt <- (if evasion then evasion_targets v else Some 0);
  (* 150-155 *)
  do nq <- (if has_nq mode then
              do a <- gen_pawn_moves prom_nq v 1 evasion evt;
              do b <- gen_king_moves v 1 evasion;
              do c <- gen_moves v 1 evasion evt;
              Some (a ++ b ++ c)
            else Some []);
  (* 157-164 *)
  do q <- (if has_q mode then
             do a <- gen_pawn_moves prom_nq v 2 evasion evt;
             do cs <- (if evasion then Some [] else gen_castling v 2);     (* 159 *)
             do b <- gen_king_moves v 2 evasion;
             do c <- gen_moves v 2 evasion evt;
             Some (a ++ cs ++ b ++ c)
           else Some []);
  Some (nq ++ q).

(** ** moveslice.go:Sort  stable insertion sort, highest sort value first.
    [val] is the sort value of a move (an arbitrary oracle in the theorems):
      for i := 1; i < l; i++ { tmp := ms[i]; j := i
        for j > 0 && value(tmp) > value(ms[j-1]) { ms[j] = ms[j-1]; j-- }; ms[j] = tmp }
    [ins_desc val x sorted_prefix_reversed...]: we insert ms[i] into the already processed
    prefix from its right end. *)
Fixpoint ins_right (val : N -> Z) (x : N) (rev_prefix : list N) : list N :=
  (* rev_prefix = ms[i-1], ms[i-2], ..., ms[0] *)
  match rev_prefix with
  | [] => [x]
  | y :: r => if (val y <? val x)%Z then y :: ins_right val x r else x :: rev_prefix
  end.
Definition go_sort (val : N -> Z) (l : list N) : list N :=
  rev (fold_left (fun rp x => ins_right val x rp) l []).

(** ** movegen.go:184  GenerateLegalMoves relative to a legality oracle on codes
       (IsLegalMove is modelled in AttacksImpl.is_legal_impl) *)
Definition gen_legal (prom_nq : bool) (is_legal : N -> bool) (v : bview) (mode : N) : option (list N) :=
  do l <- gen_pseudo prom_nq v mode false; Some (filter is_legal l).

(** ** movegen.go:358  HasLegalMove, relative to the legality oracle.
    (The code before the repair "fix: HasLegalMove considers non capturing promotions"
    masked the promotion rank out of the single pawn steps and answered false on
    8/P7/8/8/8/7p/5k1P/7K w - - 0 1, where a7a8 is legal.) *)
(* for b != 0 { to := b.PopLsb(); m := ...; if IsLegalMove(m) { return true } } *)
Fixpoint first_legal (is_legal : N -> bool) (mk : N -> option N) (sqs : list N) : option bool :=
  match sqs with
  | [] => Some false
  | s :: r => do m <- mk s; if is_legal m then Some true else first_legal is_legal mk r
  end.
(* if <loop> found one { return true }; rest *)
Definition or_else (a : option bool) (rest : option bool) : option bool :=
  do x <- a; if x then Some true else rest.

(* nested loops: for x in l { if <body x> found one { return true } } *)
Fixpoint first_legal_o (f : N -> option bool) (l : list N) : option bool :=
  match l with [] => Some false | x :: r => or_else (f x) (first_legal_o f r) end.

(* CreateMove (no MoveOf needed: CreateMove has no value bits) *)
Definition hl_move (from to ty : N) : N := CreateMove from to ty PT_NONE.

Definition has_legal_move_impl (v : bview) (is_legal : N -> bool) : option bool :=
  let us := vstm v in                                           (* 360 *)
  do usBb <- occ_bb v us;                                       (* 361 *)
  do kingSquare <- king_square v us;                            (* 365 *)
  do ka <- get_attacks_bb KING kingSquare 0;                    (* 366 *)
  or_else (first_legal is_legal (fun to => Some (hl_move kingSquare to NORMAL))
                       (sq_list_of_bb (N.ldiff ka usBb)))       (* 366-372 *)
  (do myPawns <- pbb v us PAWN;                                 (* 374 *)
   let occ := occ_all v in                                      (* 375 *)
   do opp <- occ_bb v (flipc us);                               (* 376 *)
   do md <- move_direction us;
   do fmd <- move_direction (flipc us);
   (* 380 *)
   let tm := N.land (shift_bb myPawns (Some md)) (bnot occ) in
   (* 382 *)
   do dbl <- pawn_double_rank us;
   let td := N.land (shift_bb (N.land tm dbl) (Some md)) (bnot occ) in
   (* 384-390 *)
   or_else (first_legal is_legal (fun to => do mid <- sq_to_o to (Some fmd); do from <- sq_to_o mid (Some fmd);
                                            Some (hl_move from to NORMAL)) (sq_list_of_bb td))
   (* 391-399 (repaired: all single steps, promotion rank included) *)
   (or_else (first_legal is_legal (fun to => do from <- sq_to_o to (Some fmd); Some (hl_move from to NORMAL))
                         (sq_list_of_bb tm))
   (* 402-409: captures to the west: from = to.To(flipdir + East) *)
   (or_else (first_legal is_legal (fun to => do from <- sq_to_o to (dir_plus fmd DE); Some (hl_move from to NORMAL))
                         (sq_list_of_bb (N.land (shift_bb myPawns (dir_plus md DW)) opp)))
   (* 412-419: captures to the east *)
   (or_else (first_legal is_legal (fun to => do from <- sq_to_o to (dir_plus fmd DW); Some (hl_move from to NORMAL))
                         (sq_list_of_bb (N.land (shift_bb myPawns (dir_plus md DE)) opp)))
   (* 422-434: officers *)
   (or_else
      (first_legal_o (fun pt =>
         do pcs <- pbb v us pt;
         first_legal_o (fun from =>
           do mv <- get_attacks_bb pt from occ;
           first_legal is_legal (fun to => Some (hl_move from to NORMAL)) (sq_list_of_bb (N.ldiff mv usBb)))
           (sq_list_of_bb pcs))
         [KNIGHT; BISHOP; ROOK; QUEEN])
   (* 437-455: en passant *)
   (if vep v =? 64 then Some false else
    do epbb <- sq_bb (vep v);
    let one (we_shift we_to : dir) : option bool :=
      (* tmpMoves = ShiftBitboard(ep.Bb(), us.Flip().MoveDirection()+we_shift) & myPawns
         if tmpMoves != 0 { from := PopLsb; IsLegalMove(CreateMove(from, from.To(us.MoveDirection()+we_to), EnPassant)) } *)
      let tmp := N.land (shift_bb epbb (dir_plus fmd we_shift)) myPawns in
      if tmp =? 0 then Some false else
      let from := fst (pop_lsb tmp) in
      do to <- sq_to_o from (dir_plus md we_to);
      Some (is_legal (hl_move from to ENPASSANT)) in
    or_else (one DW DE) (one DE DW))))))).

(** ** the on demand generator (GetNextMove) as a chess independent state machine *)

(* stage numbers: movegen.go:631-643 *)
Definition OD_NEW : N := 0. Definition OD_PV : N := 1.
Definition OD_1 : N := 2. Definition OD_2 : N := 3. Definition OD_3 : N := 4. Definition OD_4 : N := 5.
Definition OD_5 : N := 6. Definition OD_6 : N := 7. Definition OD_7 : N := 8. Definition OD_8 : N := 9.
Definition OD_END : N := 10.

Record odstate := mkod {
  od_moves : list N;        (* onDemandMoves (move parts; the values live in the sort oracle) *)
  od_stage : N;             (* currentODStage *)
  od_take : nat;            (* takeIndex *)
  od_pv : N;                (* pvMove *)
  od_pv_pushed : bool;      (* pvMovePushed *)
  od_pv_fresh : bool;       (* pvMoveFresh *)
  od_killers : N * N;       (* killerMoves *)
  od_key : N;               (* currentODZobrist *)
  od_evt : N                (* onDemandEvasionTargets *)
}.

(* what GetNextMove reads from the position and the configuration *)
Record odenv := mkenv {
  e_key : N;                               (* p.ZobristKey() *)
  e_evt : N;                               (* mg.getEvasionTargets(p) *)
  e_gen : N -> bool -> N -> list N;        (* stage -> evasion -> evasionTargets -> moves appended by
                                              that stage's generator call (od1 od2 od3 od5 od6 od7 od8) *)
  e_isnq : N -> bool;                      (* mg.isNonQuiet(p, m) *)
  e_sort : odstate -> list N -> list N     (* updateSortValues + Sort on the current list *)
}.

Definition set_moves (st : odstate) (l : list N) : odstate :=
  mkod l (od_stage st) (od_take st) (od_pv st) (od_pv_pushed st) (od_pv_fresh st) (od_killers st) (od_key st) (od_evt st).
Definition set_stage (st : odstate) (s : N) : odstate :=
  mkod (od_moves st) s (od_take st) (od_pv st) (od_pv_pushed st) (od_pv_fresh st) (od_killers st) (od_key st) (od_evt st).
Definition set_take (st : odstate) (t : nat) : odstate :=
  mkod (od_moves st) (od_stage st) t (od_pv st) (od_pv_pushed st) (od_pv_fresh st) (od_killers st) (od_key st) (od_evt st).
Definition set_pushed (st : odstate) (b : bool) : odstate :=
  mkod (od_moves st) (od_stage st) (od_take st) (od_pv st) b (od_pv_fresh st) (od_killers st) (od_key st) (od_evt st).
Definition set_fresh (st : odstate) (b : bool) : odstate :=
  mkod (od_moves st) (od_stage st) (od_take st) (od_pv st) (od_pv_pushed st) b (od_killers st) (od_key st) (od_evt st).
Definition set_evt (st : odstate) (e : N) : odstate :=
  mkod (od_moves st) (od_stage st) (od_take st) (od_pv st) (od_pv_pushed st) (od_pv_fresh st) (od_killers st) (od_key st) e.

(* movegen.go:97  NewMoveGen *)
Definition od_new : odstate := mkod [] OD_NEW 0 0 false false (0, 0) 0 0.

(* movegen.go:313  ResetOnDemand (killers are kept) *)
Definition od_reset (st : odstate) : odstate := mkod [] OD_NEW 0 0 false false (od_killers st) 0 0.

(* movegen.go:326  SetPvMove: mg.pvMove = move.MoveOf() *)
Definition od_set_pv (st : odstate) (m : N) : odstate :=
  mkod (od_moves st) (od_stage st) (od_take st) (MoveOf m) (od_pv_pushed st) (od_pv_fresh st) (od_killers st) (od_key st) (od_evt st).

(* movegen.go:333  StoreKiller *)
Definition od_store_killer (st : odstate) (m : N) : odstate :=
  let mo := MoveOf m in
  let '(k0, k1) := od_killers st in
  let ks := if k0 =? mo then (k0, k1)                          (* 336 *)
            else if k1 =? mo then (mo, k0)                     (* 338-340 *)
            else (mo, k0) in                                   (* 343-344 *)
  mkod (od_moves st) (od_stage st) (od_take st) (od_pv st) (od_pv_pushed st) (od_pv_fresh st) ks (od_key st) (od_evt st).

(* movegen.go:649-720: one iteration of the switch in fillOnDemandMoveList *)
Definition od_push_pv (st : odstate) : odstate :=
  (* pvMovePushed = true; pvMoveFresh = true; onDemandMoves.PushBack(pvMove) *)
  mkod (od_moves st ++ [od_pv st]) (od_stage st) (od_take st) (od_pv st) true true (od_killers st) (od_key st) (od_evt st).

Definition od_append (env : odenv) (st : odstate) (stage : N) (evasion : bool) : odstate :=
  set_moves st (od_moves st ++ e_gen env stage evasion (od_evt st)).

Definition od_fill_step (env : odenv) (mode : N) (evasion : bool) (st : odstate) : odstate :=
  let s := od_stage st in
  let st1 :=
    if (s =? OD_NEW) || (s =? OD_PV) then                       (* 650-682 (odNew falls through) *)
      let st' :=
        if negb (od_pv st =? 0) then                            (* 656 *)
          if mode =? 3 then od_push_pv st                       (* 658 *)
          else if mode =? 1 then (if e_isnq env (od_pv st) then od_push_pv st else st)          (* 662 *)
          else if mode =? 2 then (if negb (e_isnq env (od_pv st)) then od_push_pv st else st)   (* 668 *)
          else st
        else st in
      set_stage st' (if has_nq mode then OD_1 else OD_4)        (* 678-682 *)
    else if s =? OD_1 then set_stage (od_append env st OD_1 evasion) OD_2     (* 683 *)
    else if s =? OD_2 then set_stage (od_append env st OD_2 evasion) OD_3     (* 687 *)
    else if s =? OD_3 then set_stage (od_append env st OD_3 evasion) OD_4     (* 691 *)
    else if s =? OD_4 then set_stage st (if has_q mode then OD_5 else OD_END) (* 694 *)
    else if s =? OD_5 then set_stage (od_append env st OD_5 evasion) OD_6     (* 700 *)
    else if s =? OD_6 then                                                    (* 704: if !evasion *)
      set_stage (if evasion then st else od_append env st OD_6 evasion) OD_7
    else if s =? OD_7 then set_stage (od_append env st OD_7 evasion) OD_8     (* 710 *)
    else if s =? OD_8 then set_stage (od_append env st OD_8 evasion) OD_END   (* 714 *)
    else st in
  (* 722: if mg.onDemandMoves.Len() > 0 { Sort() }  (with the values set by updateSortValues) *)
  match od_moves st1 with [] => st1 | _ => set_moves st1 (e_sort env st1 (od_moves st1)) end.

(* movegen.go:648  for mg.onDemandMoves.Len() == 0 && mg.currentODStage < odEnd *)
Fixpoint od_fill (fuel : nat) (env : odenv) (mode : N) (evasion : bool) (st : odstate) : odstate :=
  match fuel with
  | O => st
  | S k => match od_moves st with
           | [] => if od_stage st <? OD_END then od_fill k env mode evasion (od_fill_step env mode evasion st) else st
           | _ => st
           end
  end.
(* every iteration advances the stage, 11 iterations always suffice *)
Definition OD_FILL_FUEL : nat := 12.

(* movegen.go:219  GetNextMove.  Result [None]: index out of range (panic); move 0 = MoveNone.
   The list holds move parts only, so the [.MoveOf()] of lines 266 and 295 are identities. *)

(* 224-237: reset on a new position key; evasion targets *)
Definition od_norm (env : odenv) (evasion : bool) (st0 : odstate) : odstate :=
  (* 224-232 *)
  let st1 := if negb (e_key env =? od_key st0)
             then mkod [] OD_NEW 0 (od_pv st0) false false (od_killers st0) (e_key env) 0
             else st0 in
  (* 235-237 *)
  if evasion && (od_evt st1 =? 0) then set_evt st1 (e_evt env) else st1.

(* 295-302: hand out the move at takeIndex *)
Definition od_take1 (st6 : odstate) : option (odstate * N) :=
  do move <- nth_error (od_moves st6) (od_take st6);
  let st7 := set_take (set_fresh st6 false) (S (od_take st6)) in
  let st8 := if (length (od_moves st7) <=? od_take st7)%nat
             then set_moves (set_take st7 0) [] else st7 in
  Some (st8, move).

Definition od_core (env : odenv) (mode : N) (evasion : bool) (st2 : odstate) : option (odstate * N) :=
  (* 249-251 *)
  let st3 := match od_moves st2 with [] => od_fill OD_FILL_FUEL env mode evasion st2 | _ => st2 end in
  match od_moves st3 with
  | [] =>
      (* 306-308 *)
      Some (set_pushed (set_take st3 0) false, 0)
  | _ =>
      (* 264-266: !pvMoveFresh && pvMovePushed && list[takeIndex] == pvMove  (short-circuit) *)
      if negb (od_pv_fresh st3) && od_pv_pushed st3 then
        do m <- nth_error (od_moves st3) (od_take st3);
        if m =? od_pv st3 then
          let st4 := set_pushed (set_take st3 (S (od_take st3))) false in     (* 269, 273 *)
          if (length (od_moves st4) <=? od_take st4)%nat then                 (* 276 *)
            (* 281-283: NB the refill is called with evasion = false *)
            let st5 := od_fill OD_FILL_FUEL env mode false (set_moves (set_take st4 0) []) in
            match od_moves st5 with
            | [] => Some (st5, 0)                                             (* 285-287 *)
            | _ => od_take1 st5
            end
          else od_take1 st4
        else od_take1 st3
      else od_take1 st3
  end.

Definition od_next (env : odenv) (mode : N) (evasion : bool) (st0 : odstate) : option (odstate * N) :=
  od_core env mode evasion (od_norm env evasion st0).

(* the caller's loop:  for m := GetNextMove(...); m != MoveNone; m = GetNextMove(...) { out = append(out, m) } *)
Fixpoint od_drain (fuel : nat) (env : odenv) (mode : N) (evasion : bool) (st : odstate) : option (odstate * list N) :=
  match fuel with
  | O => None
  | S k => do r <- od_next env mode evasion st;
           let '(st', m) := r in
           if m =? 0 then Some (st', [])
           else do r' <- od_drain k env mode evasion st'; let '(st'', l) := r' in Some (st'', m :: l)
  end.

(** ** the chess instance of the on demand environment *)
(* movegen.go:732  isNonQuiet; position.go:532 IsCapturingMove:
   p.occupiedBb[p.nextPlayer.Flip()].Has(move.To()) || move.MoveType() == EnPassant *)
Definition is_non_quiet (prom_nq : bool) (v : bview) (m : N) : option bool :=
  do opp <- occ_bb v (flipc (vstm v));
  do h <- has opp (To m);
  Some (h || (MoveType m =? ENPASSANT)
        || (prom_nq && (MoveType m =? PROMOTION) && ((PromotionType m =? QUEEN) || (PromotionType m =? KNIGHT)))).

Definition chess_stage (prom_nq : bool) (v : bview) (stage : N) (evasion : bool) (evt : N) : option (list N) :=
  if stage =? OD_1 then gen_pawn_moves prom_nq v 1 evasion evt              (* 684 *)
  else if stage =? OD_2 then gen_moves v 1 evasion evt                      (* 688 *)
  else if stage =? OD_3 then gen_king_moves v 1 evasion                     (* 692 *)
  else if stage =? OD_5 then gen_pawn_moves prom_nq v 2 evasion evt         (* 701 *)
  else if stage =? OD_6 then gen_castling v 2                               (* 706 *)
  else if stage =? OD_7 then gen_moves v 2 evasion evt                      (* 711 *)
  else if stage =? OD_8 then gen_king_moves v 2 evasion                     (* 715 *)
  else Some [].

Definition chess_env (prom_nq : bool) (v : bview) (key : N) (srt : odstate -> list N -> list N) : odenv :=
  mkenv key
        (match evasion_targets v with Some e => e | None => 0 end)
        (fun stage evasion evt => unwrap (chess_stage prom_nq v stage evasion evt))
        (fun m => match is_non_quiet prom_nq v m with Some b => b | None => false end)
        srt.

(** ** the engine's sort values (movegen.go generators + updateSortValues, no history data)

    Only [od_case_ok] / the examples use them: they make the executable model reproduce the
    engine's exact hand-out order.  The theorems hold for EVERY sort oracle that permutes. *)
(* piece.go:108  Piece.ValueOf = pieceTypeValue[p.TypeOf()] *)
Definition ptv (t : N) : Z := nth (N.to_nat t) c_piece_type_value 0%Z.
Definition piece_value (pc : N) : Z := ptv (N.land pc 7).
(* posValues.go:53, 123-129: posValue[p][sq][gp] = (gp * mid[p][sq] + (GamePhaseMax - gp) * end[p][sq]) / GamePhaseMax
   (Go integer division truncates towards zero); c_psq_mid / c_psq_end are posMidValue / posEndValue *)
Definition psq_entry (t : list (list Z)) (pc sq : N) : Z := nth (N.to_nat sq) (nth (N.to_nat pc) t []) 0%Z.
Definition pos_value (pc sq : N) (gp : Z) : Z :=
  Z.quot (gp * psq_entry c_psq_mid pc sq + (c_game_phase_max - gp) * psq_entry c_psq_end pc sq) c_game_phase_max.

(* position.go:860-863: p.gamePhase of a position set up from a FEN (sum of the piece phase
   values, clamped).  After DoMove / UndoMove sequences the engine's field can differ (the
   clamp is applied incrementally): pass the observed p.GamePhase() to [od_case_gp_ok] then. *)
Definition game_phase_of_board (bd : list N) : Z :=
  Z.min c_game_phase_max (fold_right (fun pc acc => (nth (N.to_nat (N.land pc 7)) c_game_phase_value 0 + acc)%Z) 0%Z bd).

(* the value a generator attaches to a move (movegen.go:851-858, 867-869, 882, 900-903, 934-946,
   953, 961, 978-988, 1013, 1027, 1076, 1089) *)
Definition move_value (prom_nq : bool) (v : bview) (gp : Z) (m : N) : Z :=
  let f := From m in let t := To m in let ty := MoveType m in let pr := PromotionType m in
  let pc := nth (N.to_nat f) (vboard v) 0 in
  let tgt := nth (N.to_nat t) (vboard v) 0 in
  let minor : Z := if N.eqb pr ROOK || N.eqb pr BISHOP then 2000%Z else 0%Z in
  if N.eqb ty CASTLING then (-5000)%Z
  else if N.eqb ty ENPASSANT then pos_value pc t gp
  else if N.eqb ty PROMOTION then
    (if negb (N.eqb tgt 0) then (piece_value tgt - 2 * ptv PAWN + ptv pr - minor)%Z
     else if prom_nq && (N.eqb pr QUEEN || N.eqb pr KNIGHT) then (- ptv PAWN + ptv pr)%Z
     else (-10000 + ptv pr - minor)%Z)
  else if negb (N.eqb tgt 0) then (piece_value tgt - piece_value pc + pos_value pc t gp)%Z
  else (-10000 + pos_value pc t gp)%Z.

(* movegen.go:740-783 updateSortValues with historyData == nil *)
Definition updated_value (prom_nq : bool) (v : bview) (gp : Z) (st : odstate) (m : N) : Z :=
  if m =? od_pv st then c_value_max
  else if m =? snd (od_killers st) then (-4001)%Z
  else if m =? fst (od_killers st) then (-4000)%Z
  else move_value prom_nq v gp m.

(* the sort applied by fillOnDemandMoveList: od3 (king captures) is the one stage without
   updateSortValues; [od_fill_step] calls the oracle with the stage already advanced *)
Definition chess_sort (prom_nq : bool) (v : bview) (gp : Z) (st : odstate) (l : list N) : list N :=
  go_sort (if od_stage st =? OD_4 then move_value prom_nq v gp else updated_value prom_nq v gp st) l.

(* a simpler sort oracle: PV move first, then killers *)
Definition simple_val (st : odstate) (m : N) : Z :=
  if m =? od_pv st then 10000%Z
  else if m =? snd (od_killers st) then (-4001)%Z
  else if m =? fst (od_killers st) then (-4000)%Z
  else (-5000)%Z.
Definition simple_sort (st : odstate) (l : list N) : list N := go_sort (simple_val st) l.

(** ** executable checkers for the correspondence run *)
Definition gen_case_ok (fen : str) (mode : N) (evasion prom_nq : bool) (observed_sorted_codes : list N) : bool :=
  match parse fen with
  | Some p => match gen_pseudo prom_nq (view_of_spec p) mode evasion with
              | Some l => list_eqb (sort l) observed_sorted_codes
              | None => false end
  | None => false end.

(* HasLegalMove with the specification's legality as oracle.  A probed move is decoded to
   (from, to, type); a Normal typed pawn step onto the last rank stands for the promotions *)
Definition spec_legal_code (p : pos) (c : N) : bool :=
  is_legal p (mkmv (From c) (To c) (MoveType c) (PromotionType c)).

Definition has_legal_case_ok (fen : str) (observed : bool) : bool :=
  match parse fen with
  | Some p => opt_bool_eqb (has_legal_move_impl (view_of_spec p) (spec_legal_code p)) observed
  | None => false end.

(* on demand drain with the engine's sort values: the observed sequence must be EXACTLY the
   model's drain.  [pv] = 0: no PV move set; killers as stored; [gp] = p.GamePhase(); no history data *)
Definition od_case_gp_ok (fen : str) (gp : Z) (mode : N) (evasion prom_nq : bool) (pv k0 k1 : N)
           (observed : list N) : bool :=
  match parse fen with
  | Some p =>
      let v := view_of_spec p in
      let env := chess_env prom_nq v 1 (chess_sort prom_nq v gp) in
      (* ResetOnDemand; SetPvMove(pv); killerMoves = {k0, k1} *)
      let st := mkod [] OD_NEW 0 (MoveOf pv) false false (k0, k1) 0 0 in
      match od_drain 600 env mode evasion st with
      | Some (_, out) => list_eqb out observed
      | None => false end
  | None => false end.

(* the same for a position set up from its FEN (game phase recomputed from the board), compared
   as a multiset plus first move (the interface of the correspondence run) *)
Definition od_case_ok (fen : str) (mode : N) (evasion prom_nq : bool) (pv k0 k1 : N)
           (observed_first : N) (observed_sorted_codes : list N) : bool :=
  match parse fen with
  | Some p =>
      let v := view_of_spec p in
      let env := chess_env prom_nq v 1 (chess_sort prom_nq v (game_phase_of_board (brd p))) in
      let st := mkod [] OD_NEW 0 (MoveOf pv) false false (k0, k1) 0 0 in
      match od_drain 600 env mode evasion st with
      | Some (_, out) => list_eqb (sort out) observed_sorted_codes &&
                         (match out with [] => observed_first =? 0 | m :: _ => m =? observed_first end)
      | None => false end
  | None => false end.
