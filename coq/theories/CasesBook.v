(** * CasesBook: evaluation helpers for the C19 / C20 correspondence runs. *)
From Coq Require Import NArith List Bool String.
From FG Require Import CasesLib BookModel CacheModel BookLegal.
Import ListNotations.

(* (root key, recorded steps per game, real book entries, coordinate tokens per game as the Simple
   file carries them, FENs of the positions the engine visited): BookModel.book_case_ok and the
   per-book collision / step / position check BookLegal.book_visited_case_ok *)
Definition book_case (c : N * list (list (N*N*N)) * list (N*N*list (N*N)) * list (list string) * list string) : bool :=
  let '(root, games, observed, toks, fens) := c in
  book_case_full_ok root games observed (map (map str_of_string) toks) (map str_of_string fens).
Fixpoint mismb {A} (ok : A -> bool) (i : nat) (l : list A) : list nat :=
  match l with [] => [] | c :: r => (if ok c then [] else [i]) ++ mismb ok (S i) r end.
Definition book_mismatches := mismb book_case 0.
Definition cache_case (c : N * nat * bool * bool * N * (bool*bool*bool*bool*bool)) : bool :=
  let '(kind, nl, uc, rc, prior, o) := c in cache_case_ok kind nl uc rc prior o.
Definition cache_mismatches := mismb cache_case 0.
