(** * CasesBook: evaluation helpers for the C19 / C20 correspondence runs. *)
From Coq Require Import NArith List Bool.
From FG Require Import BookModel CacheModel.
Import ListNotations.

Definition book_case (c : N * list (list (N*N*N)) * list (N*N*list (N*N))) : bool :=
  let '(root, games, observed) := c in book_case_ok root games observed.
Fixpoint mismb {A} (ok : A -> bool) (i : nat) (l : list A) : list nat :=
  match l with [] => [] | c :: r => (if ok c then [] else [i]) ++ mismb ok (S i) r end.
Definition book_mismatches := mismb book_case 0.
Definition cache_case (c : N * nat * bool * bool * N * (bool*bool*bool*bool*bool)) : bool :=
  let '(kind, nl, uc, rc, prior, o) := c in cache_case_ok kind nl uc rc prior o.
Definition cache_mismatches := mismb cache_case 0.
