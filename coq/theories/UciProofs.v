(** * UciProofs: theorems about the UCI dispatcher model [UciModel] (C16 second half, C12 parts)

    Section parameter   [from_uci : pos -> str -> option mv]   (model of GetMoveFromUci)
    Section hypothesis (named, see the final report)
      [from_uci_legal]    a move returned by GetMoveFromUci is a legal move of the position
                          (NotationProofs.from_uci_sound for NotationImpl.from_uci: instantiated at
                          the end of this file, [*_notation] are closed theorems)
    No longer a hypothesis: [legal_keeps_safe] (a legal move made in a position satisfying
    [safe_pos] - 64 valid cells, one king each, the side which has just moved not in check, a
    consistent en-passant square - leads to such a position again) is the theorem
    [RulesFacts.legal_keeps_safe]; [safe_pos] itself is defined in RulesFacts.

    Main results
      [uci_total]            no line of bytes makes the handler panic (any state satisfying the
                             invariant [ust_ok], which every reachable state does)
      [uci_total_reachable]  ... for every sequence of lines from the initial state
      [isready_answered]     "isready" is answered with readyok in EVERY state
      [isready_ws_answered]  ... also when surrounded by white space (uci.go:219 TrimSpace)
      [position_kept_on_error], [position_moves_spec], [position_is_fold]
      [setoption_exact], [setoption_unknown], [setoption_table]                          *)
From Coq Require Import NArith ZArith List Bool Lia ZifyN ZifyBool String Ascii.
From FG Require Import Geom Rules FenSpec Oracle FenImpl FenProofs UciModel RulesFacts.
Import ListNotations.
Open Scope N_scope.

Ltac Zify.zify_post_hook ::= Z.to_euclidean_division_equations.

(** ** the invariant of positions held by the handler *)
(* [safe_pos], [ep_cons]: RulesFacts (on the rules position; does not look at the clocks) *)

(* the invariant of the engine position: structure (= [safe_pos] of its abstraction,
   [fstruct_safe]) and clocks; [made] = moves made since the position was set up *)
Definition finv (p : fpos) (made : nat) : Prop :=
  fstruct p = true /\ in_int64 (f_hmc p) = true /\
  (1 <= f_nhm p <= 2000000 + Z.of_nat made)%Z /\ ((f_nhm p + Z.of_N (f_side p)) mod 2 = 1)%Z.
Definition ust_ok (st : ustate) : Prop := finv (u_pos st) (u_hist st) /\ (u_hist st <= RebaseAt)%nat.

(* IsAttacked on a king square is the plain attack test: the en-passant convention of
   IsAttacked only concerns a square holding a pawn *)
Lemma is_attacked_king b sd c e s : at_ b s = mk_piece (1 - sd) KING ->
  is_attacked_spec (mkpos b sd c e 0 0) s sd = attacked b s sd.
Proof.
  intros Hk. unfold is_attacked_spec. cbn [brd].
  replace (ep_conv1 (mkpos b sd c e 0 0) s sd) with false; [apply orb_false_r|].
  unfold ep_conv1. cbn [ep brd]. destruct (e =? 64); [reflexivity|].
  set (ps := if sd =? WHITE then e - 8 else e + 8).
  destruct (N.eqb_spec s ps) as [E|E]; [|reflexivity].
  unfold piece_at. cbn [brd]. rewrite <- E, Hk. unfold mk_piece, flip, KING, PAWN.
  replace (8 * (1 - sd) + 1 =? 8 * (1 - sd) + 2) with false by lia. reflexivity.
Qed.

Lemma fstruct_safe p : fstruct p = true <-> safe_pos (abs p) = true.
Proof.
  assert (Hkey : forall (b : list N) sd, List.length b = 64%nat -> count_code b 1 = 1%nat -> count_code b 9 = 1%nat -> sd < 2 ->
            at_ b (king_sq b (1 - sd)) = mk_piece (1 - sd) KING).
  { intros b0 sd Hl H1 H9 Hsd. apply king_sq_at. rewrite count_piece_code by assumption.
    assert (sd = 0 \/ sd = 1) as [E|E] by lia; rewrite E; assumption. }
  split.
  - intros H. apply fstruct_inv in H. destruct H as (Hl & Hc & Hk1 & Hk9 & Hs & Hcr & Hep & Hchk).
    unfold safe_pos, abs. cbn [brd stm cr ep].
    rewrite Hl, Hc, !count_piece_code, Hk1, Hk9 by assumption. cbn [Nat.eqb andb].
    replace (f_side p <? 2) with true by lia. replace (f_cr p <? 16) with true by lia. cbn [andb].
    unfold ep_wf in Hep. rewrite shiftr3 in Hep. unfold ep_cons. cbn [brd stm ep]. rewrite Hep. cbn [andb].
    unfold not_in_check in Hchk. rewrite is_attacked_king in Hchk by (now apply Hkey).
    unfold in_check_b, flip. replace (1 - (1 - f_side p)) with (f_side p) by lia. exact Hchk.
  - intros H. apply safe_pos_inv in H. unfold abs in H. cbn [brd stm cr ep] in H.
    destruct H as (Hl & Hc & Hk1 & Hk9 & Hs & Hcr & Hep & Hchk).
    rewrite count_piece_code in Hk1, Hk9 by assumption.
    unfold fstruct. rewrite Hl, Hc, Hk1, Hk9. cbn [Nat.eqb andb].
    replace (f_side p <? 2) with true by lia. replace (f_cr p <? 16) with true by lia. cbn [andb].
    unfold ep_cons in Hep. cbn [brd stm ep] in Hep. unfold ep_wf. rewrite shiftr3, Hep. cbn [andb].
    unfold not_in_check. rewrite is_attacked_king by (now apply Hkey).
    unfold in_check_b, flip in Hchk. replace (1 - (1 - f_side p)) with (f_side p) in Hchk by lia.
    now rewrite Hchk.
Qed.

(* what setupBoard accepts satisfies the invariant *)
Lemma setup_finv s p : setup s = Ok p -> finv p 0.
Proof.
  intros H. apply fen_wellformed in H. pose proof (fpos_wf_struct p H) as Hst.
  apply fpos_wf_inv in H. destruct H as (_ & _ & _ & _ & _ & _ & _ & Hh & Hn & Hpar & _).
  unfold max_move_number, two63 in *.
  split; [assumption|]. split; [unfold in_int64, two63; lia|]. split; [lia|assumption].
Qed.

Lemma start_fen_ok : exists p, setup start_fen = Ok p.
Proof. eexists. vm_compute. reflexivity. Qed.

(** ** tokens *)
Lemma split_ws_nonempty s : forall cur inws, split_ws s cur inws <> [].
Proof.
  induction s as [|c s IH]; intros cur inws; cbn [split_ws]; [discriminate|].
  destruct (is_ws c); [destruct inws; [apply IH|discriminate]|apply IH].
Qed.
Lemma tokens_nonempty s : tokens s <> [].
Proof. apply split_ws_nonempty. Qed.

Lemma stm_make q m : stm (make q m) = flip (stm q).
Proof. reflexivity. Qed.

Section Proofs.
Variable from_uci : pos -> str -> option mv.
Hypothesis from_uci_legal : forall q s m, from_uci q s = Some m -> In m (legal q).
(* [legal_keeps_safe] is RulesFacts.legal_keeps_safe *)

(** ** GetMoveFromUci does not panic, DoMove keeps the invariant *)
Lemma get_move_some p tk : fstruct p = true -> get_move from_uci p tk = Some (from_uci (abs p) tk).
Proof.
  intros H. apply fstruct_inv in H. destruct H as (Hl & _ & Hk1 & Hk9 & Hs & _).
  unfold get_move.
  assert (f_side p = 0 \/ f_side p = 1) as [E|E] by lia; rewrite E.
  - change (8 * 0 + 1) with 1. now rewrite Hk1.
  - change (8 * 1 + 1) with 9. now rewrite Hk9.
Qed.

Lemma safe_pos_clocks b s c e h f h' f' : safe_pos (mkpos b s c e h f) = safe_pos (mkpos b s c e h' f').
Proof. reflexivity. Qed.

Lemma fdo_finv p m made : finv p made -> (Z.of_nat made <= 1000)%Z -> In m (legal (abs p)) -> finv (fdo p m) (S made).
Proof.
  intros (Hst & Hh & Hn & Hpar) Hmade Hm.
  pose proof (proj1 (fstruct_safe p) Hst) as Hsafe.
  pose proof (legal_keeps_safe _ _ Hsafe Hm) as H.
  pose proof (fstruct_inv _ Hst) as (_ & _ & _ & _ & Hs & _).
  assert (Hside : f_side (fdo p m) = 1 - f_side p).
  { unfold fdo. cbn [f_side]. rewrite stm_make. reflexivity. }
  split; [|split; [|split]].
  - apply fstruct_safe. unfold fdo, abs at 1. cbn [f_board f_side f_cr f_ep f_hmc f_nhm].
    destruct (make (abs p) m) as [b0 s0 c0 e0 h0 f0] eqn:E. cbn [brd stm cr ep hmc fmn] in *.
    erewrite safe_pos_clocks. exact H.
  - unfold fdo. cbn [f_hmc]. destruct (hmc (make (abs p) m) =? 0); [reflexivity|apply wrap64_range].
  - unfold fdo. cbn [f_nhm]. unfold wrap64, two63, two64. lia.
  - rewrite Hside. unfold fdo. cbn [f_nhm]. unfold wrap64, two63, two64. lia.
Qed.

(* the history rebase: fen() and setupBoard give the same position back, or an error *)
Lemma rebase_ok p made : finv p made -> (Z.of_nat made <= 1000)%Z ->
  exists f, fen_of_opt p = Some f /\ (setup f = Ok p /\ finv p 0 \/ exists e, setup f = Err e).
Proof.
  intros (Hst & Hh & Hn & Hpar) Hmade.
  pose proof (fstruct_inv _ Hst) as (_ & _ & _ & _ & Hs & _).
  destruct (setup_fen_of_gen p Hst Hh) as (f & Hf & Hsetup).
  exists f. split; [assumption|]. rewrite Hsetup.
  destruct (reparse p) as [p'|e|] eqn:Er; [left|right; eauto|].
  - assert (p' = p).
    { eapply reparse_same; eauto. unfold two63. lia. }
    subst p'. split; [reflexivity|].
    split; [assumption|]. split; [assumption|]. split; [|assumption].
    unfold reparse, max_move_number in Er. destruct (f_hmc p <? 0)%Z; [discriminate|].
    destruct ((move_number (f_nhm p) <? 0)%Z || (1000000 <? move_number (f_nhm p))%Z) eqn:Em; [discriminate|].
    unfold move_number, wrap64, two63, two64 in Em. lia.
  - unfold reparse in Er. destruct (f_hmc p <? 0)%Z; [discriminate|].
    destruct ((move_number (f_nhm p) <? 0)%Z || (max_move_number <? move_number (f_nhm p))%Z); discriminate.
Qed.

(** ** the move list of the position command *)
Lemma move_loop_ok toks : forall p made, finv p made -> (made <= RebaseAt)%nat ->
  match move_loop from_uci toks p made made with
  | MPanic => False
  | MDone p' h' _ => finv p' h' /\ (h' <= RebaseAt)%nat
  end.
Proof.
  unfold RebaseAt.
  induction toks as [|tk r IH]; intros p made Hinv Hm; cbn [move_loop]; [now split|].
  destruct (str_eqb tk (b "moves")); [now split|].
  rewrite get_move_some by apply Hinv.
  destruct (from_uci (abs p) tk) as [m|] eqn:Em; [|now split].
  apply from_uci_legal in Em.
  unfold RebaseAt, MaxMoves.
  destruct (Nat.leb 382 made) eqn:Ereb.
  - destruct (rebase_ok p made Hinv ltac:(lia)) as (f & Hf & [[Hs Hinv0]|[e He]]); rewrite Hf.
    + rewrite Hs. cbn [Nat.leb].
      apply (IH (fdo p m) 1%nat); [apply fdo_finv; [assumption|lia|assumption]|lia].
    + rewrite He. now split.
  - apply Nat.leb_gt in Ereb.
    replace (Nat.leb 512 made) with false by (symmetry; apply Nat.leb_gt; lia).
    apply (IH (fdo p m) (S made)); [apply fdo_finv; [assumption|lia|assumption]|lia].
Qed.

Lemma position_cmd_ok st toks : ust_ok st ->
  match position_cmd from_uci st toks with
  | UPanic => False
  | Done st' _ q => ust_ok st' /\ q = Continue /\ u_cfg st' = u_cfg st
  end.
Proof.
  intros Hok. unfold position_cmd.
  assert (Hrej : forall c : N, ust_ok st /\ Continue = Continue /\ u_cfg st = u_cfg st) by (intros; now split).
  destruct toks as [|t0 [|t1 rest]]; [exact (Hrej 0)|exact (Hrej 0)|].
  destruct (position_base t1 rest) as [[fen rem]|]; [|exact (Hrej 0)].
  pose proof (fen_total fen) as Htot.
  destruct (setup fen) as [p0|e|] eqn:Es; [|exact (Hrej 0)|contradiction].
  apply setup_finv in Es.
  assert (H0 : ust_ok (mkust p0 0 (u_cfg st))) by (split; [exact Es|cbn; unfold RebaseAt; lia]).
  destruct rem as [|k ms]; [now split|].
  destruct (str_eqb k (b "moves")).
  - pose proof (move_loop_ok ms p0 O Es ltac:(unfold RebaseAt; lia)) as H.
    destruct (move_loop from_uci ms p0 0 0) as [p h out|]; [|contradiction].
    split; [exact H|now split].
  - now split.
Qed.

(** ** go *)
Lemma take_moves_some p : fstruct p = true -> forall toks acc, take_moves from_uci p toks acc <> None.
Proof.
  intros Hst. induction toks as [|t r IH]; intros acc; cbn [take_moves]; [discriminate|].
  rewrite get_move_some by assumption. destruct (from_uci (abs p) t); [apply IH|discriminate].
Qed.

Lemma go_loop_ok p : fstruct p = true -> forall fuel toks l, go_loop from_uci fuel p toks l <> GPanic.
Proof.
  intros Hst. induction fuel as [|k IH]; intros toks l; cbn [go_loop]; [discriminate|].
  destruct toks as [|t r]; [discriminate|].
  destruct (is_value_kw t).
  { destruct r as [|v r']; [discriminate|]. cbn [nth_error].
    destruct (atoi v); [apply IH|discriminate]. }
  destruct (str_eqb t (b "searchmoves") || str_eqb t (b "moves")).
  { pose proof (take_moves_some p Hst r (l_moves l)) as H.
    destruct (take_moves from_uci p r (l_moves l)) as [[ms r']|]; [apply IH|contradiction]. }
  destruct (str_eqb t (b "infinite")); [apply IH|].
  destruct (str_eqb t (b "ponder")); [apply IH|discriminate].
Qed.

Lemma go_cmd_ok st toks : ust_ok st -> toks <> [] ->
  match go_cmd from_uci st toks with
  | UPanic => False
  | Done st' _ q => st' = st /\ q = Continue
  end.
Proof.
  intros [[Hst _] _] Hne. unfold go_cmd, read_limits.
  destruct toks as [|t0 r]; [contradiction|].
  pose proof (go_loop_ok (u_pos st) Hst (S (List.length r)) r no_limits) as H.
  destruct (go_loop from_uci (S (List.length r)) (u_pos st) r no_limits) as [l|c|]; [|now split|contradiction].
  destruct (negb _); [now split|]. destruct (_ && _ && _); now split.
Qed.

Lemma setoption_cmd_shape st toks :
  match setoption_cmd st toks with
  | UPanic => False
  | Done st' _ q => u_pos st' = u_pos st /\ u_hist st' = u_hist st /\ q = Continue
  end.
Proof.
  unfold setoption_cmd. destruct (setoption_parse toks) as [[name value]|]; [|now repeat split].
  destruct (lookup name option_table); now repeat split.
Qed.

(** ** [uci_total]: no line makes the handler panic; the invariant is kept *)
Theorem handle_ok st line : ust_ok st ->
  match handle from_uci st line with
  | UPanic => False
  | Done st' _ _ => ust_ok st'
  end.
Proof.
  intros Hok. unfold handle. destruct line as [|c0 line']; [exact Hok|].
  pose proof (tokens_nonempty (c0 :: line')) as Hne.
  destruct (tokens (c0 :: line')) as [|t0 tr] eqn:Etok; [contradiction|].
  destruct (str_eqb t0 (b "quit")); [exact Hok|].
  destruct (str_eqb t0 (b "uci")); [exact Hok|].
  destruct (str_eqb t0 (b "setoption")).
  { pose proof (setoption_cmd_shape st (t0 :: tr)) as H.
    destruct (setoption_cmd st (t0 :: tr)) as [st' out q|]; [|contradiction].
    destruct H as (Hp & Hh & _). unfold ust_ok. now rewrite Hp, Hh. }
  destruct (str_eqb t0 (b "isready")); [exact Hok|].
  destruct (str_eqb t0 (b "ucinewgame")).
  { destruct start_fen_ok as (p & Hp). rewrite Hp. split; [eapply setup_finv; eauto|cbn; unfold RebaseAt; lia]. }
  destruct (str_eqb t0 (b "position")).
  { pose proof (position_cmd_ok st (t0 :: tr) Hok) as H.
    destruct (position_cmd from_uci st (t0 :: tr)); [tauto|contradiction]. }
  destruct (str_eqb t0 (b "go")).
  { pose proof (go_cmd_ok st (t0 :: tr) Hok ltac:(discriminate)) as H.
    destruct (go_cmd from_uci st (t0 :: tr)) as [st' out q|]; [|contradiction].
    destruct H as [-> _]. exact Hok. }
  repeat (match goal with |- context [if ?c then _ else _] => destruct c end; [exact Hok|]).
  exact Hok.
Qed.

Theorem uci_total : forall st line, ust_ok st -> handle from_uci st line <> UPanic.
Proof.
  intros st line Hok E. pose proof (handle_ok st line Hok) as H. now rewrite E in H.
Qed.

Lemma run_ok lines : forall st, ust_ok st ->
  match run from_uci st lines with
  | UPanic => False
  | Done st' _ _ => ust_ok st'
  end.
Proof.
  induction lines as [|l r IH]; intros st Hok; cbn [run]; [exact Hok|].
  pose proof (handle_ok st l Hok) as H.
  destruct (handle from_uci st l) as [st' out q|]; [|contradiction].
  destruct q; [|exact H].
  specialize (IH st' H). destruct (run from_uci st' r); [exact IH|contradiction].
Qed.

Lemma init_state_ok c st : init_state c = Some st -> ust_ok st.
Proof.
  unfold init_state. destruct (setup start_fen) as [p|e|] eqn:E; try discriminate.
  intros H. injection H as <-. split; [eapply setup_finv; eauto|cbn; unfold RebaseAt; lia].
Qed.

(** for ALL sequences of ALL byte strings given to a fresh handler *)
Theorem uci_total_reachable : forall c st lines, init_state c = Some st -> run from_uci st lines <> UPanic.
Proof.
  intros c st lines Hi E. pose proof (run_ok lines st (init_state_ok c st Hi)) as H. now rewrite E in H.
Qed.

(** ** isready *)
(** "isready" is answered with readyok in EVERY state (reachable or not), whatever happened
    before: rejected commands, invalid FENs, invalid moves ... *)
Theorem isready_answered : forall st, handle from_uci st (b "isready") = Done st [OReadyOk] Continue.
Proof. intros st. reflexivity. Qed.

Corollary isready_answered_reachable : forall c st0 lines st out,
  init_state c = Some st0 -> run from_uci st0 lines = Done st out Continue ->
  handle from_uci st (b "isready") = Done st [OReadyOk] Continue.
Proof. intros. apply isready_answered. Qed.

(** white space around the command is harmless: uci.go:219 splits strings.TrimSpace(cmd).
    (Before the fix "leading white space does not hide a UCI command" a line that STARTED with
    white space was ignored as a whole: tokens[0] was the empty string.) *)
Lemma strip_all_spaces (f : str -> option str) :
  (forall c r, is_ascii_space c = true -> f (c :: r) = Some r) ->
  forall pre rest, forallb is_ascii_space pre = true -> f rest = None ->
  forall fuel, (List.length pre <= fuel)%nat -> strip_all f fuel (pre ++ rest) = rest.
Proof.
  intros Hf. induction pre as [|c pre IH]; intros rest Hpre Hrest fuel Hfuel.
  - now apply strip_all_none.
  - cbn [forallb] in Hpre. apply andb_true_iff in Hpre as [Hc Hpre].
    destruct fuel as [|k]; [cbn in Hfuel; lia|]. cbn [strip_all app].
    rewrite (Hf c (pre ++ rest) Hc). apply IH; try assumption. cbn in Hfuel. lia.
Qed.

Lemma strip1_space c r : is_ascii_space c = true -> strip1 (c :: r) = Some r.
Proof. intros H. unfold strip1. now rewrite H. Qed.
Lemma strip1r_space c r : is_ascii_space c = true -> strip1r (c :: r) = Some r.
Proof. intros H. unfold strip1r. now rewrite H. Qed.

Lemma forallb_rev {A} (f : A -> bool) l : forallb f l = true -> forallb f (rev l) = true.
Proof. rewrite !forallb_forall. intros H x Hx. apply H. now apply in_rev. Qed.

(* TrimSpace removes a frame of ASCII white space (\t \n \v \f \r and blank) around a core
   which neither starts nor ends with white space *)
Lemma trim_space_frame pre core post :
  forallb is_ascii_space pre = true -> forallb is_ascii_space post = true ->
  strip1 (core ++ post) = None -> strip1r (rev core) = None ->
  trim_space (pre ++ core ++ post) = core.
Proof.
  intros Hpre Hpost Hc Hr. unfold trim_space.
  rewrite (strip_all_spaces strip1 strip1_space pre (core ++ post) Hpre Hc) by (rewrite app_length; lia).
  rewrite rev_app_distr.
  rewrite (strip_all_spaces strip1r strip1r_space (rev post) (rev core) (forallb_rev _ _ Hpost) Hr)
    by (rewrite rev_length, app_length; lia).
  apply rev_involutive.
Qed.

(** a line that is "isready" surrounded by any amount of white space is answered with readyok,
    in EVERY state *)
Theorem isready_ws_answered : forall st pre post,
  forallb is_ascii_space pre = true -> forallb is_ascii_space post = true ->
  handle from_uci st (pre ++ b "isready" ++ post) = Done st [OReadyOk] Continue.
Proof.
  intros st pre post Hpre Hpost. unfold handle.
  assert (Htok : tokens (pre ++ b "isready" ++ post) = [b "isready"]).
  { unfold tokens. rewrite trim_space_frame; [reflexivity|exact Hpre|exact Hpost|reflexivity|reflexivity]. }
  destruct (pre ++ b "isready" ++ post) as [|c0 l] eqn:E.
  - apply app_eq_nil in E as [_ E]. discriminate E.
  - rewrite Htok. reflexivity.
Qed.

Example isready_trailing_ws : forall st, handle from_uci st (b "isready  ") = Done st [OReadyOk] Continue.
Proof. intros st. reflexivity. Qed.
Example isready_leading_ws : forall st, handle from_uci st (b " isready") = Done st [OReadyOk] Continue.
Proof. intros st. exact (isready_ws_answered st (b " ") [] eq_refl eq_refl). Qed.
(* Unicode white space (here U+00A0 in front, U+0085 and \v behind) is trimmed as well *)
Example isready_unicode_ws : forall st,
  handle from_uci st ([194; 160] ++ b "isready" ++ [194; 133; 11]) = Done st [OReadyOk] Continue.
Proof. intros st. reflexivity. Qed.
(* ... but white space INSIDE a token is not: a no-break space is not \s for the regexp *)
Example isready_inner_nbsp_ignored : forall st,
  handle from_uci st (b "isready" ++ [194; 160] ++ b "x") = Done st [] Continue.
Proof. intros st. reflexivity. Qed.

(** ** position: what is kept on errors *)
Lemma move_loop_out toks : forall p h made p' h' out,
  move_loop from_uci toks p h made = MDone p' h' out -> out = [] \/ out = [OInfo 12] \/ out = [OInfo 14].
Proof.
  induction toks as [|tk r IH]; intros p h made p' h' out; cbn [move_loop].
  - intros H; injection H as _ _ <-. now left.
  - destruct (str_eqb tk (b "moves")); [intros H; injection H as _ _ <-; now left|].
    destruct (get_move from_uci p tk) as [[m|]|]; [|intros H; injection H as _ _ <-; auto|discriminate].
    match goal with |- context [match ?x with None => MPanic | _ => _ end] => destruct x as [[[]|[[p1 h1] made1]]|] end;
      [intros H; injection H as _ _ <-; auto| |discriminate].
    destruct (Nat.leb MaxMoves h1); [discriminate|]. apply IH.
Qed.

(** a position command which is rejected as malformed (10) or for an invalid FEN (11) leaves the
    whole state - position, history, settings - unchanged *)
Theorem position_kept_on_error : forall st toks st' out q,
  position_cmd from_uci st toks = Done st' out q -> (In (OInfo 10) out \/ In (OInfo 11) out) -> st' = st.
Proof.
  intros st toks st' out q. unfold position_cmd.
  destruct toks as [|t0 [|t1 rest]]; [intros H; now injection H as <- _ _|intros H; now injection H as <- _ _|].
  destruct (position_base t1 rest) as [[fen rem]|]; [|intros H; now injection H as <- _ _].
  destruct (setup fen) as [p0|e|]; [|intros H; now injection H as <- _ _|discriminate].
  destruct rem as [|k ms].
  - intros H; injection H as _ <- _. intros [Hin|Hin]; destruct Hin.
  - destruct (str_eqb k (b "moves")).
    + destruct (move_loop from_uci ms p0 0 0) as [p h o|] eqn:E; [|discriminate].
      intros H; injection H as _ <- _. apply move_loop_out in E.
      destruct E as [->|[->| ->]]; intros [Hin|Hin]; cbn in Hin; intuition discriminate.
    + intros H; injection H as _ <- _. intros [Hin|Hin]; cbn in Hin; intuition discriminate.
Qed.

(* the other direction: an invalid FEN inside an otherwise valid command is always reported *)
Theorem position_invalid_fen_reported : forall st t0 t1 rest fen rem e,
  position_base t1 rest = Some (fen, rem) -> setup fen = Err e ->
  position_cmd from_uci st (t0 :: t1 :: rest) = Done st [OInfo 11] Continue.
Proof. intros st t0 t1 rest fen rem e Hb Hs. unfold position_cmd. now rewrite Hb, Hs. Qed.

(** ** position: the move list.  [play]: the moves of the tokens are made one after the other,
    up to the first token that is not a legal move (or a second "moves" keyword) *)
Fixpoint play (q : pos) (toks : list str) : pos :=
  match toks with
  | [] => q
  | t :: r => if str_eqb t (b "moves") then q
              else match from_uci q t with Some m => play (make q m) r | None => q end
  end.

Lemma hmc_make q m : hmc (make q m) =
  if (type_of (at_ (brd q) (mfrom m)) =? PAWN) || negb (at_ (brd q) (mto m) =? 0) then 0 else hmc q + 1.
Proof. reflexivity. Qed.
Lemma fmn_make q m : fmn (make q m) = if stm q =? BLACK then fmn q + 1 else fmn q.
Proof. reflexivity. Qed.

Lemma abs_fdo p m : f_side p < 2 -> (0 <= f_hmc p < two63 - 1)%Z -> (1 <= f_nhm p < 4611686018427387904)%Z ->
  ((f_nhm p + Z.of_N (f_side p)) mod 2 = 1)%Z -> abs (fdo p m) = make (abs p) m.
Proof.
  intros Hs Hh Hn Hpar. unfold two63 in Hh.
  assert (E : make (abs p) m = mkpos (brd (make (abs p) m)) (stm (make (abs p) m)) (cr (make (abs p) m))
                                     (ep (make (abs p) m)) (hmc (make (abs p) m)) (fmn (make (abs p) m)))
    by (destruct (make (abs p) m); reflexivity).
  rewrite E at 1. unfold abs at 1, fdo. cbn [f_board f_side f_cr f_ep f_hmc f_nhm]. f_equal.
  - rewrite hmc_make.
    destruct ((type_of (at_ (brd (abs p)) (mfrom m)) =? PAWN) || negb (at_ (brd (abs p)) (mto m) =? 0)); [reflexivity|].
    replace (hmc (abs p) + 1 =? 0) with false by lia. unfold abs. cbn [hmc]. unfold wrap64, two63, two64. lia.
  - rewrite fmn_make. unfold abs. cbn [stm fmn]. unfold BLACK, move_number, wrap64, two63, two64.
    assert (f_side p = 0 \/ f_side p = 1) as [Es|Es] by lia; rewrite Es in *; cbn [N.eqb Pos.eqb]; lia.
Qed.

Lemma move_loop_spec toks : forall p made, finv p made -> (made <= RebaseAt)%nat ->
  (0 <= f_hmc p)%Z -> (f_hmc p + Z.of_nat (List.length toks) < two63 - 1)%Z ->
  match move_loop from_uci toks p made made with
  | MPanic => True
  | MDone p' h' out =>
      (~ In (OInfo 14) out -> abs p' = play (abs p) toks) /\
      ((f_nhm p + Z.of_nat (List.length toks) <= 2000000)%Z -> ~ In (OInfo 14) out)
  end.
Proof.
  unfold RebaseAt, two63.
  induction toks as [|tk r IH]; intros p made Hinv Hm Hh0 Hh; cbn [move_loop play].
  - split; [reflexivity|]. intros _ [].
  - destruct (str_eqb tk (b "moves")); [split; [reflexivity|intros _ []]|].
    rewrite get_move_some by apply Hinv.
    destruct (from_uci (abs p) tk) as [m|] eqn:Em; [|split; [reflexivity|intros _ [H|[]]; discriminate]].
    pose proof (from_uci_legal _ _ _ Em) as Hlegal.
    destruct Hinv as (Hst & Hi & Hn & Hpar).
    pose proof (fstruct_inv _ Hst) as (_ & _ & _ & _ & Hs & _).
    assert (Habs : abs (fdo p m) = make (abs p) m) by (apply abs_fdo; unfold two63; try assumption; lia).
    assert (Hh' : (0 <= f_hmc (fdo p m) <= f_hmc p + 1)%Z).
    { unfold fdo. cbn [f_hmc]. destruct (hmc (make (abs p) m) =? 0); [lia|]. unfold wrap64, two63, two64. lia. }
    assert (Hn' : f_nhm (fdo p m) = (f_nhm p + 1)%Z).
    { unfold fdo. cbn [f_nhm]. unfold wrap64, two63, two64. lia. }
    cbn [List.length] in Hh. rewrite Nat2Z.inj_succ in Hh.
    unfold RebaseAt, MaxMoves.
    destruct (Nat.leb 382 made) eqn:Ereb.
    + destruct (rebase_ok p made (conj Hst (conj Hi (conj Hn Hpar))) ltac:(lia)) as (f & Hf & [[Hsu Hinv0]|[e He]]); rewrite Hf.
      * rewrite Hsu. cbn [Nat.leb].
        pose proof (IH (fdo p m) 1%nat (fdo_finv p m O Hinv0 ltac:(lia) Hlegal) ltac:(lia) ltac:(lia) ltac:(lia)) as H.
        destruct (move_loop from_uci r (fdo p m) 1 1) as [p' h' out|]; [|exact I].
        rewrite Habs in H. destruct H as [H1 H2]. split; [exact H1|].
        intros Hb. apply H2. cbn [List.length] in Hb. lia.
      * rewrite He. split; [intros H; exfalso; apply H; now left|].
        (* the rebase cannot fail while the ply number is in range *)
        intros Hb. exfalso.
        destruct (setup_fen_of_gen p Hst Hi) as (f' & Hf' & Hre). rewrite Hf in Hf'. injection Hf' as <-.
        rewrite He in Hre. unfold reparse, max_move_number in Hre.
        replace (f_hmc p <? 0)%Z with false in Hre by lia.
        cbn [List.length] in Hb. rewrite Nat2Z.inj_succ in Hb.
        replace ((move_number (f_nhm p) <? 0)%Z || (1000000 <? move_number (f_nhm p))%Z) with false in Hre
          by (unfold move_number, wrap64, two63, two64; lia).
        discriminate.
    + apply Nat.leb_gt in Ereb.
      replace (Nat.leb 512 made) with false by (symmetry; apply Nat.leb_gt; lia).
      pose proof (IH (fdo p m) (S made) (fdo_finv p m made (conj Hst (conj Hi (conj Hn Hpar))) ltac:(lia) Hlegal)
                     ltac:(lia) ltac:(lia) ltac:(lia)) as H.
      destruct (move_loop from_uci r (fdo p m) (S made) (S made)) as [p' h' out|]; [|exact I].
      rewrite Habs in H. destruct H as [H1 H2]. split; [exact H1|].
      intros Hb. apply H2. cbn [List.length] in Hb. lia.
Qed.

(** [position_moves_spec]: after  position (startpos | fen F) moves t1 .. tn  the engine is on
    exactly the position obtained by playing the listed moves from the given start, up to the
    first token that is not a legal move ([play]); the only exception is the reported
    "too many moves" (14) of a failing history rebase, which cannot happen while the FEN move
    number plus half the number of moves stays below 1 000 000. *)
Theorem position_moves_spec : forall st t0 t1 rest fen toks p0 st' out q,
  position_base t1 rest = Some (fen, b "moves" :: toks) -> setup fen = Ok p0 ->
  (f_hmc p0 + Z.of_nat (List.length toks) < two63 - 1)%Z ->
  position_cmd from_uci st (t0 :: t1 :: rest) = Done st' out q ->
  (~ In (OInfo 14) out -> abs (u_pos st') = play (abs p0) toks) /\
  ((f_nhm p0 + Z.of_nat (List.length toks) <= 2000000)%Z -> ~ In (OInfo 14) out).
Proof.
  intros st t0 t1 rest fen toks p0 st' out q Hb Hs Hh. unfold position_cmd. rewrite Hb, Hs.
  change (str_eqb (b "moves") (b "moves")) with true. cbv iota.
  pose proof (setup_finv _ _ Hs) as Hinv.
  assert (H0 : (0 <= f_hmc p0)%Z).
  { apply fen_wellformed in Hs. apply fpos_wf_inv in Hs. lia. }
  pose proof (move_loop_spec toks p0 O Hinv ltac:(unfold RebaseAt; lia) H0 Hh) as H.
  destruct (move_loop from_uci toks p0 0 0) as [p h o|]; [|discriminate].
  intros E; injection E as <- <- _. exact H.
Qed.

(* all listed moves legal: the fold of the rules' [make] *)
Inductive plays : pos -> list str -> list mv -> Prop :=
  | plays_nil q : plays q [] []
  | plays_cons q t r m ms : str_eqb t (b "moves") = false -> from_uci q t = Some m ->
      plays (make q m) r ms -> plays q (t :: r) (m :: ms).
Lemma play_fold q toks ms : plays q toks ms -> play q toks = fold_left make ms q.
Proof. induction 1 as [|q t r m ms Ht Hm _ IH]; [reflexivity|]. cbn [play fold_left]. now rewrite Ht, Hm. Qed.

Theorem position_is_fold : forall st t0 t1 rest fen toks ms p0 st' out q,
  position_base t1 rest = Some (fen, b "moves" :: toks) -> setup fen = Ok p0 ->
  plays (abs p0) toks ms ->
  (f_hmc p0 + Z.of_nat (List.length toks) < two63 - 1)%Z ->
  (f_nhm p0 + Z.of_nat (List.length toks) <= 2000000)%Z ->
  position_cmd from_uci st (t0 :: t1 :: rest) = Done st' out q ->
  abs (u_pos st') = fold_left make ms (abs p0) /\ (u_hist st' <= RebaseAt)%nat /\ u_cfg st' = u_cfg st.
Proof.
  intros st t0 t1 rest fen toks ms p0 st' out q Hb Hs Hpl Hh Hn Hcmd.
  destruct (position_moves_spec st t0 t1 rest fen toks p0 st' out q Hb Hs Hh Hcmd) as [H1 H2].
  split; [rewrite <- (play_fold _ _ _ Hpl); apply H1, H2, Hn|].
  (* history: what is forgotten by the rebase is the undo history only *)
  unfold position_cmd in Hcmd. rewrite Hb, Hs in Hcmd.
  change (str_eqb (b "moves") (b "moves")) with true in Hcmd. cbv iota in Hcmd.
  pose proof (move_loop_ok toks p0 O (setup_finv _ _ Hs) ltac:(unfold RebaseAt; lia)) as Hok.
  destruct (move_loop from_uci toks p0 0 0) as [p h o|]; [|discriminate].
  injection Hcmd as <- _ _. cbn [u_hist u_cfg]. split; [apply Hok|reflexivity].
Qed.

(** ** setoption *)
Theorem setoption_exact : forall st toks name value h,
  setoption_parse toks = Some (name, value) -> lookup name option_table = Some h ->
  exists out, setoption_cmd st toks = Done (mkust (u_pos st) (u_hist st) (apply_handler h value (u_cfg st))) out Continue.
Proof. intros st toks name value h Hp Hl. unfold setoption_cmd. rewrite Hp, Hl. eexists; reflexivity. Qed.

(* exactly the field assigned by the handler changes, to the value parsed by the handler ... *)
Theorem apply_handler_field : forall h v c f, handler_field h = Some f -> apply_handler h v c f = handler_value h v.
Proof.
  intros [f0| |k] v c f H; cbn in H; try discriminate; injection H as <-; cbn [apply_handler handler_value];
    unfold cfg_set; [destruct f0|]; reflexivity.
Qed.
(* ... and all other fields keep their previous values *)
Theorem apply_handler_frame : forall h v c g, handler_field h <> Some g -> apply_handler h v c g = c g.
Proof.
  intros [f0| |k] v c g H; cbn [apply_handler]; [| |reflexivity]; unfold cfg_set.
  - destruct (field_eqb g f0) eqn:E; [|reflexivity]. exfalso. apply H. cbn. f_equal. destruct g, f0; try discriminate; reflexivity.
  - destruct (field_eqb g TTSize) eqn:E; [|reflexivity]. exfalso. apply H. cbn. f_equal. destruct g; try discriminate; reflexivity.
Qed.
(* Button options change no Settings field *)
Theorem setoption_button : forall k v c, apply_handler (HButton k) v c = c.
Proof. reflexivity. Qed.
(* unknown option: reported, nothing changes *)
Theorem setoption_unknown : forall st toks name value,
  setoption_parse toks = Some (name, value) -> lookup name option_table = None ->
  setoption_cmd st toks = Done st [OInfo 2] Continue.
Proof. intros st toks name value Hp Hl. unfold setoption_cmd. now rewrite Hp, Hl. Qed.
Theorem setoption_malformed : forall st toks, setoption_parse toks = None -> setoption_cmd st toks = Done st [OInfo 1] Continue.
Proof. intros st toks Hp. unfold setoption_cmd. now rewrite Hp. Qed.
(* setoption never touches the position *)
Theorem setoption_keeps_position : forall st toks st' out q, setoption_cmd st toks = Done st' out q ->
  u_pos st' = u_pos st /\ u_hist st' = u_hist st.
Proof.
  intros st toks st' out q E. pose proof (setoption_cmd_shape st toks) as H. rewrite E in H. tauto.
Qed.

End Proofs.

(** the option table, transcribed from ucioption.go:40-79 and cross-checked against the engine
    (every option set to several values, "Print Config" compared before / after) *)
Example setoption_table :
  map (fun '(n, h) => (n, handler_field h)) option_table =
  [ (b "Print Config", None); (b "Clear Hash", None);
    (b "Use_Hash", Some UseTT); (b "Hash", Some TTSize);
    (b "Use_Book", Some UseBook); (b "Ponder", Some UsePonder);
    (b "Quiescence", Some UseQuiescence); (b "Use_QHash", Some UseQSTT);
    (b "Use_SEE", Some UseSEE); (b "Use_PromNonQuiet", Some UsePromNonQuiet);
    (b "Use_PVS", Some UsePVS); (b "Use_ASP", Some UseAspiration); (b "Use_MTDf", Some UseMTDf);
    (b "Use_IID", Some UseIID); (b "Use_Killer", Some UseKiller);
    (b "Use_HistCount", Some UseHistoryCounter); (b "Use_CounterMove", Some UseCounterMoves);
    (b "Use_Rfp", Some UseRFP); (b "Use_NullMove", Some UseNullMove); (b "Use_Mdp", Some UseMDP);
    (b "Use_Fp", Some UseFP); (b "Use_Lmr", Some UseLmr); (b "Use_Lmp", Some UseLmp);
    (b "Use_Ext", Some UseExt); (b "Use_ExtAddDepth", Some UseExtAddDepth);
    (b "Use_CheckExt", Some UseCheckExt); (b "Use_ThreatExt", Some UseThreatExt);
    (b "Eval_Lazy", Some EvalUseLazyEval); (b "Eval_Mobility", Some EvalUseMobility);
    (b "Eval_AdvPiece", Some EvalUseAdvancedPieceEval) ].
Proof. reflexivity. Qed.

(* non-vacuity of the setoption theorems on concrete lines *)
Example setoption_ex1 :
  setoption_parse (tokens (b "setoption name Use_Hash value false")) = Some (b "Use_Hash", b "false")
  /\ lookup (b "Use_Hash") option_table = Some (HBool UseTT) /\ handler_value (HBool UseTT) (b "false") = 0%Z.
Proof. repeat split. Qed.
Example setoption_ex2 :
  setoption_parse (tokens (b "setoption  name  Clear   Hash")) = Some (b "Clear Hash", [])
  /\ lookup (b "Clear Hash") option_table = Some (HButton 1).
Proof. repeat split. Qed.
Example setoption_ex3 :
  setoption_parse (tokens (b "setoption name Hash value -5")) = Some (b "Hash", b "-5")
  /\ handler_value HHash (b "-5") = 0%Z /\ handler_value HHash (b "128") = 128%Z.
Proof. repeat split. Qed.
Example setoption_ex4 : lookup (b "use_hash") option_table = None /\ setoption_parse (tokens (b "setoption Use_Hash")) = None.
Proof. split; reflexivity. Qed.

(** ** non-vacuity and concrete runs (GetMoveFromUci := NotationImpl.from_uci) *)
From FG Require Import NotationImpl NotationProofs.

Lemma notation_from_uci_legal : forall q s m, NotationImpl.from_uci q s = Some m -> In m (legal q).
Proof. intros q s m H. now apply from_uci_sound in H. Qed.

(* the initial state satisfies the invariant *)
Example init_ok : exists st, init_state (fun _ => 0%Z) = Some st /\ ust_ok st.
Proof.
  destruct (init_state (fun _ => 0%Z)) as [st|] eqn:E; [|vm_compute in E; discriminate].
  exists st. split; [reflexivity|]. eapply init_state_ok; eauto.
Qed.

(* the former crash input is now an ordinary rejected command which keeps the old position *)
Example old_king_capture_input :
  match init_state (fun _ => 0%Z) with
  | Some st => handle NotationImpl.from_uci st (b "position fen 1n2k3/8/8/8/8/8/8/4RK2 w - - 0 1 moves e1e8 b8a6")
               = Done st [OInfo 11] Continue
  | None => False
  end.
Proof. vm_compute. reflexivity. Qed.

(* position_kept_on_error / invalid move mid-list: the legal prefix stays applied *)
Example position_prefix_kept :
  match init_state (fun _ => 0%Z) with
  | Some st =>
      match handle NotationImpl.from_uci st (b "position startpos moves e2e4 e7e5 e1e3 g1f3") with
      | Done st' out _ => out = [OInfo 12] /\
          fen_of (u_pos st') = b "rnbqkbnr/pppp1ppp/8/4p3/4P3/8/PPPP1PPP/RNBQKBNR w KQkq e6 0 2" /\ u_hist st' = 2%nat
      | UPanic => False
      end
  | None => False
  end.
Proof. vm_compute. repeat split. Qed.

(* position_is_fold: hypotheses are satisfiable (a concrete [plays] derivation) *)
Example position_is_fold_ex :
  exists p0 ms, setup start_fen = Ok p0 /\
    position_base (b "startpos") [b "moves"; b "e2e4"; b "c7c5"; b "g1f3"] = Some (start_fen, [b "moves"; b "e2e4"; b "c7c5"; b "g1f3"]) /\
    plays NotationImpl.from_uci (abs p0) [b "e2e4"; b "c7c5"; b "g1f3"] ms /\ List.length ms = 3%nat.
Proof.
  eexists. eexists. split; [vm_compute; reflexivity|]. split; [reflexivity|]. split.
  - eapply plays_cons; [reflexivity|vm_compute; reflexivity|].
    eapply plays_cons; [reflexivity|vm_compute; reflexivity|].
    eapply plays_cons; [reflexivity|vm_compute; reflexivity|]. apply plays_nil.
  - reflexivity.
Qed.

(** regression check of [RulesFacts.legal_keeps_safe] (formerly a Section hypothesis, for which
    this was the evidence; now a theorem): it is checked by
    computation on every legal move of a list of positions covering en passant, castling,
    promotion, check evasion, pinned pieces and pawns on the back ranks *)
Definition keeps_safe_check (q : pos) : bool :=
  negb (safe_pos q) || forallb (fun m => safe_pos (make q m)) (legal q).
Definition evidence_fens : list str :=
  [ start_fen;
    b "r3k2r/p1ppqpb1/bn2pnp1/3PN3/1p2P3/2N2Q1p/PPPBBPPP/R3K2R w KQkq - 0 1";
    b "r3k2r/p1ppqpb1/bn2pnp1/3PN3/1p2P3/2N2Q1p/PPPBBPPP/R3K2R b KQkq - 0 1";
    b "rnbqkbnr/ppp1pppp/8/8/3pP3/8/PPPP1PPP/RNBQKBNR b KQkq e3 0 3";
    b "rnbqkbnr/pppp1ppp/8/4pP2/8/8/PPPPP1PP/RNBQKBNR w KQkq e6 0 3";
    b "4k3/P6P/8/8/8/8/p6p/4K3 w - - 0 1"; b "4k3/P6P/8/8/8/8/p6p/4K3 b - - 0 1";
    b "8/2p5/3p4/KP5r/1R3p1k/8/4P1P1/8 w - - 0 1";
    b "4k3/8/8/8/8/8/4r3/4K3 w - - 0 1"; b "4k2r/8/8/8/8/8/8/R3K2R w KQk - 0 1";
    b "P3k3/8/8/8/8/8/8/p3K2R w KQkq - 0 1"; b "r3k2r/8/8/8/8/8/8/4K3 b KQkq - 0 1" ].
Example legal_keeps_safe_evidence :
  forallb (fun f => match setup f with Ok p => safe_pos (abs p) && keeps_safe_check (abs p)
                                              && forallb (fun m => keeps_safe_check (make (abs p) m)) (legal (abs p))
                                     | _ => false end) evidence_fens = true.
Proof. vm_compute. reflexivity. Qed.

(** instances with GetMoveFromUci := NotationImpl.from_uci: closed theorems, nothing remains *)
Definition uci_total_notation := uci_total NotationImpl.from_uci notation_from_uci_legal.
Definition uci_total_reachable_notation := uci_total_reachable NotationImpl.from_uci notation_from_uci_legal.
Definition position_is_fold_notation := position_is_fold NotationImpl.from_uci notation_from_uci_legal.
Definition position_moves_spec_notation := position_moves_spec NotationImpl.from_uci notation_from_uci_legal.
Definition position_kept_on_error_notation := position_kept_on_error NotationImpl.from_uci.
Definition isready_ws_answered_notation := isready_ws_answered NotationImpl.from_uci.

(** ** observations of the real engine (uci.go / ucioption.go at the modelled revision) *)
Fixpoint strs_eqb (x y : list str) : bool :=
  match x, y with [], [] => true | u :: x', v :: y' => str_eqb u v && strs_eqb x' y' | _, _ => false end.
(* regexWhiteSpace.Split(strings.TrimSpace(cmd), -1) *)
Definition tokens_observed : list (str * list str) := [
([120;32;121], [[120];[121]]);
([133;133;226;128;131;13], [[133;133]]);
([194;9;103;111], [[194];[103;111]]);
([0;194;160;226;128;139], [[0;194;160;226;128;139]]);
([194;105;115;114;101;97;100;121;13;105;115;114;101;97;100;121;12], [[194;105;115;114;101;97;100;121];[105;115;114;101;97;100;121]]);
([226;128;139], [[226;128;139]]);
([226;128;139;226;128;168;10;103;111;32], [[226;128;139;226;128;168];[103;111]]);
([194;133;194;12], [[194]]);
([9;120;32;121;13;226;128], [[120];[121];[226;128]]);
([225;160;142;226;128;168;32;32;13], [[225;160;142]]);
([9], [[]]);
([226;128;139;226;128;175;10;12;133], [[226;128;139;226;128;175];[133]]);
([13;255;31], [[255;31]]);
([9;255;97;226;129;159;227;128;128;0], [[255;97;226;129;159;227;128;128;0]]);
([226;128;168;226;128;175;120;32;121;97], [[120];[121;97]]);
([97;133;10;227;128;128;226;128;175;9], [[97;133]]);
([226;128;131;112;111;115;105;116;105;111;110;10], [[112;111;115;105;116;105;111;110]]);
([105;115;114;101;97;100;121;225;160;142], [[105;115;114;101;97;100;121;225;160;142]]);
([32;32;120;32;121;225;154;128;226;128;139], [[120];[121;225;154;128;226;128;139]]);
([0;97;105;115;114;101;97;100;121;160;226;128;255], [[0;97;105;115;114;101;97;100;121;160;226;128;255]]);
([31;226;129;159;9;160;120;32;121], [[31;226;129;159];[160;120];[121]]);
([226;128;175;105;115;114;101;97;100;121;226;128;139;226;128;139;112;111;115;105;116;105;111;110;226;128], [[105;115;114;101;97;100;121;226;128;139;226;128;139;112;111;115;105;116;105;111;110;226;128]]);
([0;226;128;168;226;128;139;11], [[0;226;128;168;226;128;139]]);
([226;128;168;12;226;129;159], [[]]);
([31;226;128;168;255;226;128;131], [[31;226;128;168;255]]);
([31;225;154;128], [[31]]);
([103;111;226;128;139], [[103;111;226;128;139]]);
([11;194;133;255;32;32;13], [[255]]);
([13;112;111;115;105;116;105;111;110;32;32;194;133], [[112;111;115;105;116;105;111;110]]);
([226;128], [[226;128]]);
([103;111;103;111;9;194;160;255;226;128;131], [[103;111;103;111];[194;160;255]]);
([103;111;227;128;128;194;133;194], [[103;111;227;128;128;194;133;194]]);
([194;133;103;111;227;128;128;105;115;114;101;97;100;121;11], [[103;111;227;128;128;105;115;114;101;97;100;121]]);
([255;226;129;159;31], [[255;226;129;159;31]]);
([225;160;142;97;226;128;131;31;226;129;159;255], [[225;160;142;97;226;128;131;31;226;129;159;255]]);
([13;194;133], [[]]);
([97;12;226;128;175;194;133], [[97]]);
([194;160;255;103;111;32;13], [[255;103;111]]);
([227;128;128;226;128;168], [[]]);
([31;112;111;115;105;116;105;111;110], [[31;112;111;115;105;116;105;111;110]]);
([194;13;32;32;133;226;128;175;120;32;121], [[194];[133;226;128;175;120];[121]]);
([226;128;175;226;129;159], [[]]);
([32;32;226;128;175;194;226;128;226;128;31], [[194;226;128;226;128;31]]);
([194;194;226;128;10], [[194;194;226;128]]);
([225;154;128], [[]]);
([9;226;128;168;105;115;114;101;97;100;121;120;32;121;31;255], [[105;115;114;101;97;100;121;120];[121;31;255]]);
([105;115;114;101;97;100;121;11;97;194;133;120;32;121;32;32], [[105;115;114;101;97;100;121;11;97;194;133;120];[121]]);
([225;160;142;194;160;10;9], [[225;160;142]]);
([133;226;129;159;226;128;168;194;133], [[133]]);
([32;32;133;32], [[133]]);
([0;226;128;168;0;194;0;226;128], [[0;226;128;168;0;194;0;226;128]]);
([226;128;97;226;128], [[226;128;97;226;128]]);
([32;32;255;120;32;121], [[255;120];[121]]);
([31;32;32], [[31]]);
([0;133;226;128;32;32;11], [[0;133;226;128]]);
([226;128;139], [[226;128;139]]);
([194;133;31], [[31]]);
([194], [[194]]);
([11;194;160;227;128;128;105;115;114;101;97;100;121;225;160;142], [[105;115;114;101;97;100;121;225;160;142]]);
([13;160;97], [[160;97]]);
([194;112;111;115;105;116;105;111;110;112;111;115;105;116;105;111;110], [[194;112;111;115;105;116;105;111;110;112;111;115;105;116;105;111;110]]);
([31;112;111;115;105;116;105;111;110;31], [[31;112;111;115;105;116;105;111;110;31]]);
([225;160;142;226;128;168;226;128;175;225;160;142;226;128;175], [[225;160;142;226;128;168;226;128;175;225;160;142]]);
([225;154;128;112;111;115;105;116;105;111;110;11;11], [[112;111;115;105;116;105;111;110]]);
([133;0], [[133;0]]);
([112;111;115;105;116;105;111;110;105;115;114;101;97;100;121;225;160;142;32;32], [[112;111;115;105;116;105;111;110;105;115;114;101;97;100;121;225;160;142]]);
([9;194;160;226;128;131], [[]]);
([226;128;168], [[]]);
([226;129;159;105;115;114;101;97;100;121;120;32;121;194;160;10;13], [[105;115;114;101;97;100;121;120];[121]]);
([226;128;168;103;111], [[103;111]]);
([194;255], [[194;255]]);
([226;128;139], [[226;128;139]]);
([9;112;111;115;105;116;105;111;110;255;194;160;32], [[112;111;115;105;116;105;111;110;255]]);
([226;128;139;10;226;128;139;112;111;115;105;116;105;111;110], [[226;128;139];[226;128;139;112;111;115;105;116;105;111;110]]);
([194], [[194]]);
([226;128;168;103;111;194;133;31;226;128;131;226;128;175], [[103;111;194;133;31]]);
([226;128;12], [[226;128]]);
([32;32;9;226;129;159;32;112;111;115;105;116;105;111;110;10], [[112;111;115;105;116;105;111;110]]);
([255;12;11;226;129;159], [[255]]);
([112;111;115;105;116;105;111;110;13;194;9], [[112;111;115;105;116;105;111;110];[194]]);
([32;32;11;227;128;128;194;160;225;154;128], [[]]);
([226;128;168;226;128;131;105;115;114;101;97;100;121;194;105;115;114;101;97;100;121], [[105;115;114;101;97;100;121;194;105;115;114;101;97;100;121]]);
([226;129;159;226;128;175;194;133;105;115;114;101;97;100;121], [[105;115;114;101;97;100;121]]);
([97;32;32;32;226;128;175;10], [[97]]);
([226;129;159;105;115;114;101;97;100;121;0], [[105;115;114;101;97;100;121;0]]);
([227;128;128;226;128;139], [[226;128;139]]);
([32;194;226;128;168;13], [[194]]);
([194;133;194;160;32;9;97], [[97]]);
([13;103;111;160], [[103;111;160]]);
([97;194;133;194;160], [[97]]);
([31;105;115;114;101;97;100;121;10;226;128;131], [[31;105;115;114;101;97;100;121]]);
([226;128;139;226;128;131], [[226;128;139]]);
([226;128;175;12;225;154;128;133;133;9], [[133;133]]);
([13;120;32;121;0;194;103;111], [[120];[121;0;194;103;111]]);
([112;111;115;105;116;105;111;110;194;133;225;160;142], [[112;111;115;105;116;105;111;110;194;133;225;160;142]]);
([13;120;32;121;105;115;114;101;97;100;121;12;255;0], [[120];[121;105;115;114;101;97;100;121];[255;0]]);
([226;128;131;226;128;175;133;194;160;120;32;121;160], [[133;194;160;120];[121;160]]);
([31;120;32;121;32;32;120;32;121;194;133;226;128;175], [[31;120];[121];[120];[121]]);
([112;111;115;105;116;105;111;110;133;194;160], [[112;111;115;105;116;105;111;110;133]]);
([12;226;129;159;227;128;128;120;32;121;105;115;114;101;97;100;121], [[120];[121;105;115;114;101;97;100;121]]);
([226;128;139;226;128;131;226;129;159;226;128;139;12], [[226;128;139;226;128;131;226;129;159;226;128;139]]);
([226;128;175;225;154;128;227;128;128;226;128;168;97], [[97]]);
([226;128;175;133;120;32;121], [[133;120];[121]]);
([194;226;129;159;112;111;115;105;116;105;111;110;105;115;114;101;97;100;121;9], [[194;226;129;159;112;111;115;105;116;105;111;110;105;115;114;101;97;100;121]]);
([194;133;112;111;115;105;116;105;111;110;32;32;31;255], [[112;111;115;105;116;105;111;110];[31;255]]);
([226;128;139;226;128;168], [[226;128;139]]);
([105;115;114;101;97;100;121;105;115;114;101;97;100;121;97;226;128;168], [[105;115;114;101;97;100;121;105;115;114;101;97;100;121;97]]);
([225;160;142], [[225;160;142]]);
([97;97;12], [[97;97]]);
([10], [[]]);
([133;226;128;168;227;128;128], [[133]]);
([120;32;121], [[120];[121]]);
([11;255;97;226;128;168;0;160], [[255;97;226;128;168;0;160]]);
([194], [[194]]);
([105;115;114;101;97;100;121;11;32;32;226;128;131], [[105;115;114;101;97;100;121]]);
([97;226;128;175;226;128;175], [[97]]);
([226;128;225;154;128;227;128;128], [[226;128]]);
([226;128;168], [[]]);
([12], [[]]);
([105;115;114;101;97;100;121;0;32;32;255;120;32;121;226;128;175], [[105;115;114;101;97;100;121;0];[255;120];[121]]);
([97;226;128;131;225;154;128], [[97]]);
([97], [[97]]);
([227;128;128;32;32;226;129;159], [[]]);
([0], [[0]]);
([105;115;114;101;97;100;121;12], [[105;115;114;101;97;100;121]]);
([13;225;160;142;13;225;160;142;226;128;175;11], [[225;160;142];[225;160;142]]);
([225;154;128;105;115;114;101;97;100;121;12;103;111;120;32;121;160], [[105;115;114;101;97;100;121];[103;111;120];[121;160]]);
([133], [[133]]);
([120;32;121;133;226;128;175;226;128;168;97;112;111;115;105;116;105;111;110], [[120];[121;133;226;128;175;226;128;168;97;112;111;115;105;116;105;111;110]]);
([226;128;175;9;255;225;160;142], [[255;225;160;142]]);
([10;9], [[]]);
([0], [[0]]);
([194;112;111;115;105;116;105;111;110;9;227;128;128;9;0], [[194;112;111;115;105;116;105;111;110];[227;128;128];[0]]);
([0;226;128;175;194;133], [[0]]);
([227;128;128;0;160;105;115;114;101;97;100;121;32;32], [[0;160;105;115;114;101;97;100;121]]);
([226;128;168;10;160], [[160]]);
([194;133;133;226;128;131;226;128;168;13], [[133]]);
([227;128;128;105;115;114;101;97;100;121;226;128;226;128;175;32;32], [[105;115;114;101;97;100;121;226;128]]);
([11;227;128;128;31;13], [[31]]);
([10;97], [[97]]);
([226;128;139;226;128;32;32;11], [[226;128;139;226;128]]);
([160], [[160]]);
([31], [[31]]);
([11;103;111;10;225;154;128;226;128;175;227;128;128], [[103;111]]);
([120;32;121;120;32;121], [[120];[121;120];[121]]);
([133;32;32;226;128;168;9;105;115;114;101;97;100;121], [[133];[226;128;168];[105;115;114;101;97;100;121]]);
([225;160;142;194;133], [[225;160;142]]);
([226;128;168;194;160;11;226;128;168], [[]]);
([194;133;11;31;120;32;121], [[31;120];[121]]);
([226;128;32;32], [[226;128]]);
([226;128;10;225;154;128;112;111;115;105;116;105;111;110;32;32;32;32], [[226;128];[225;154;128;112;111;115;105;116;105;111;110]]);
([133;31;194;160;226;128], [[133;31;194;160;226;128]]);
([97;226;128;131;226;128;131], [[97]]);
([225;160;142;10;226;128;139], [[225;160;142];[226;128;139]]);
([11;112;111;115;105;116;105;111;110;194;160], [[112;111;115;105;116;105;111;110]]);
([105;115;114;101;97;100;121;13;226;128;131], [[105;115;114;101;97;100;121]]);
([0;112;111;115;105;116;105;111;110;194;133;103;111;31;225;154;128], [[0;112;111;115;105;116;105;111;110;194;133;103;111;31]]);
([11], [[]]);
([103;111;226;129;159;105;115;114;101;97;100;121;13;226;128;131;11], [[103;111;226;129;159;105;115;114;101;97;100;121]]);
([112;111;115;105;116;105;111;110;10;11], [[112;111;115;105;116;105;111;110]])].
Example tokens_observed_agree : forallb (fun '(s, t) => strs_eqb (tokens s) t) tokens_observed = true.
Proof. vm_compute. reflexivity. Qed.

(* lines given to the real handler (UciHandler.Command): was "readyok" printed? *)
Definition isready_observed : list (str * bool) := [
([105;115;114;101;97;100;121], true);
([32;105;115;114;101;97;100;121], true);
([105;115;114;101;97;100;121;32], true);
([32;32;105;115;114;101;97;100;121;32;32], true);
([9;105;115;114;101;97;100;121;13], true);
([11;105;115;114;101;97;100;121;11], true);
([194;160;105;115;114;101;97;100;121;194;133], true);
([226;128;131;105;115;114;101;97;100;121], true);
([227;128;128;32;9;32;105;115;114;101;97;100;121;32;10;226;128;168], true);
([0;105;115;114;101;97;100;121], false);
([105;115;114;101;97;100;121;0], false);
([105;115;32;114;101;97;100;121], false);
([120;105;115;114;101;97;100;121], false);
([105;115;114;101;97;100;121;32;120], true);
([160;105;115;114;101;97;100;121], false);
([194;105;115;114;101;97;100;121], false);
([32;226;128;105;115;114;101;97;100;121], false);
([226;128;139;105;115;114;101;97;100;121], false);
([32], false);
([194;160], false);
([11], false);
([32;105;115;114;101;97;100;121;32;103;111], true);
([225;154;128;105;115;114;101;97;100;121;226;129;159], true);
([226;128;175;105;115;114;101;97;100;121;226;128;169], true);
([12;105;115;114;101;97;100;121;10;10], true)].
Definition answers_readyok (line : str) : bool :=
  match init_state (fun _ => 0%Z) with
  | Some st => match handle (fun _ _ => None) st line with
               | Done _ out _ => existsb (fun o => match o with OReadyOk => true | _ => false end) out
               | UPanic => false end
  | None => false end.
Example isready_observed_agree : forallb (fun '(l, ok) => Bool.eqb (answers_readyok l) ok) isready_observed = true.
Proof. vm_compute. reflexivity. Qed.

(* "go ..." lines on the two kings-only positions: the info code printed (0 = a search started) *)
Definition go_observed : list (str * bool * N) := [
([103;111], true, 23);
([103;111;32;100;101;112;116;104], true, 20);
([103;111;32;100;101;112;116;104;32;49], true, 0);
([103;111;32;100;101;112;116;104;32;120], true, 21);
([103;111;32;100;101;112;116;104;32;48], true, 23);
([103;111;32;100;101;112;116;104;32;45;49], true, 23);
([103;111;32;105;110;102;105;110;105;116;101], true, 0);
([103;111;32;112;111;110;100;101;114], true, 0);
([103;111;32;110;111;100;101;115], true, 20);
([103;111;32;110;111;100;101;115;32;49;48;48], true, 0);
([103;111;32;110;111;100;101;115;32;45;53], true, 0);
([103;111;32;110;111;100;101;115;32;48], true, 23);
([103;111;32;109;97;116;101;32;50], true, 0);
([103;111;32;109;97;116;101], true, 20);
([103;111;32;109;97;116;101;32;48], true, 23);
([103;111;32;109;111;118;101;116;105;109;101;32;49;48], true, 0);
([103;111;32;109;111;118;101;84;105;109;101;32;49;48], true, 0);
([103;111;32;109;111;118;101;116;105;109;101], true, 20);
([103;111;32;109;111;118;101;116;105;109;101;32;48], true, 24);
([103;111;32;109;111;118;101;116;105;109;101;32;120], true, 21);
([103;111;32;119;116;105;109;101;32;49;48;48;48], true, 0);
([103;111;32;98;116;105;109;101;32;49;48;48;48], true, 24);
([103;111;32;119;116;105;109;101;32;49;48;48;48;32;98;116;105;109;101;32;49;48;48;48], true, 0);
([103;111;32;119;116;105;109;101;32;48;32;98;116;105;109;101;32;49;48;48;48], true, 24);
([103;111;32;119;116;105;109;101;32;49;48;48;48;32;98;116;105;109;101;32;48], true, 0);
([103;111;32;119;105;110;99;32;49;48;48], true, 23);
([103;111;32;98;105;110;99;32;49;48;48], true, 23);
([103;111;32;119;116;105;109;101;32;49;48;48;48;32;119;105;110;99], true, 20);
([103;111;32;109;111;118;101;115;116;111;103;111;32;53], true, 23);
([103;111;32;109;111;118;101;115;116;111;103;111;32;53;32;119;116;105;109;101;32;49;48;48;32;98;116;105;109;101;32;49;48;48], true, 0);
([103;111;32;109;111;118;101;115;116;111;103;111], true, 20);
([103;111;32;102;111;111], true, 22);
([103;111;32;100;101;112;116;104;32;49;32;102;111;111], true, 22);
([103;111;32;32;100;101;112;116;104;32;32;49], true, 0);
([103;111;32;100;101;112;116;104;32;49;32], true, 0);
([32;103;111;32;100;101;112;116;104;32;49], true, 0);
([103;111;9;100;101;112;116;104;9;49], true, 0);
([103;111;32;115;101;97;114;99;104;109;111;118;101;115;32;101;49;101;50;32;100;101;112;116;104;32;49], true, 0);
([103;111;32;115;101;97;114;99;104;109;111;118;101;115;32;100;101;112;116;104;32;49], true, 0);
([103;111;32;115;101;97;114;99;104;109;111;118;101;115;32;101;49;101;50], true, 23);
([103;111;32;115;101;97;114;99;104;109;111;118;101;115;32;101;56;100;56;32;100;101;112;116;104;32;49], true, 22);
([103;111;32;115;101;97;114;99;104;109;111;118;101;115;32;101;49;101;50;32;101;49;100;49;32;100;101;112;116;104;32;49], true, 0);
([103;111;32;109;111;118;101;115;32;101;49;101;50;32;105;110;102;105;110;105;116;101], true, 0);
([103;111;32;115;101;97;114;99;104;109;111;118;101;115], true, 23);
([103;111;32;100;101;112;116;104;32;49;32;115;101;97;114;99;104;109;111;118;101;115], true, 0);
([103;111;32;100;101;112;116;104;32;49;32;115;101;97;114;99;104;109;111;118;101;115;32;122;122], true, 22);
([103;111;32;105;110;102;105;110;105;116;101;32;105;110;102;105;110;105;116;101], true, 0);
([103;111;32;100;101;112;116;104;32;49;32;100;101;112;116;104;32;50], true, 0);
([103;111;32;100;101;112;116;104;32;57;57;57;57;57;57;57;57;57;57;57;57;57;57;57;57;57;57;57;57], true, 21);
([103;111;32;119;116;105;109;101;32;45;53;32;98;116;105;109;101;32;45;53], true, 0);
([103;111;32;109;111;118;101;116;105;109;101;32;57;50;50;51;51;55;50;48;51;54;56;53;52;55;55;53;56;48;55], true, 0);
([103;111;32;109;111;118;101;116;105;109;101;32;57;50;50;51;51;55;50;48;51;54;56;53;53], true, 0);
([103;111;32;119;116;105;109;101;32;49;56;52;52;54;55;52;52;48;55;51;55;48;57;53;53;49;32;98;116;105;109;101;32;53], true, 0);
([103;111;32;100;101;112;116;104;32;43;49], true, 0);
([103;111;32;100;101;112;116;104;32;49;95;48], true, 21);
([103;111;32;109;97;116;101;32;45;49], true, 23);
([103;111;32;109;111;118;101;115;116;111;103;111;32;120;32;100;101;112;116;104;32;49], true, 21);
([103;111;32;112;111;110;100;101;114;32;119;116;105;109;101;32;48;32;98;116;105;109;101;32;48], true, 24);
([103;111;32;105;110;102;105;110;105;116;101;32;119;116;105;109;101;32;48], true, 24);
([103;111;32;119;105;110;99;32;53;32;98;105;110;99;32;53;32;100;101;112;116;104;32;50], true, 0);
([103;111;32;109;111;118;101;116;105;109;101;32;53;32;119;116;105;109;101;32;48;32;98;116;105;109;101;32;48], true, 0);
([103;111;32;100;101;112;116;104;32;50;32;109;111;118;101;116;105;109;101;32;48;32;119;116;105;109;101;32;48], true, 24);
([103;111;32;110;111;100;101;115;32;49;56;52;52;54;55;52;52;48;55;51;55;48;57;53;53;49;54;49;53], true, 21);
([103;111;32;110;111;100;101;115;32;57;50;50;51;51;55;50;48;51;54;56;53;52;55;55;53;56;48;55], true, 0);
([103;111], false, 23);
([103;111;32;100;101;112;116;104], false, 20);
([103;111;32;100;101;112;116;104;32;49], false, 0);
([103;111;32;100;101;112;116;104;32;120], false, 21);
([103;111;32;100;101;112;116;104;32;48], false, 23);
([103;111;32;100;101;112;116;104;32;45;49], false, 23);
([103;111;32;105;110;102;105;110;105;116;101], false, 0);
([103;111;32;112;111;110;100;101;114], false, 0);
([103;111;32;110;111;100;101;115], false, 20);
([103;111;32;110;111;100;101;115;32;49;48;48], false, 0);
([103;111;32;110;111;100;101;115;32;45;53], false, 0);
([103;111;32;110;111;100;101;115;32;48], false, 23);
([103;111;32;109;97;116;101;32;50], false, 0);
([103;111;32;109;97;116;101], false, 20);
([103;111;32;109;97;116;101;32;48], false, 23);
([103;111;32;109;111;118;101;116;105;109;101;32;49;48], false, 0);
([103;111;32;109;111;118;101;84;105;109;101;32;49;48], false, 0);
([103;111;32;109;111;118;101;116;105;109;101], false, 20);
([103;111;32;109;111;118;101;116;105;109;101;32;48], false, 24);
([103;111;32;109;111;118;101;116;105;109;101;32;120], false, 21);
([103;111;32;119;116;105;109;101;32;49;48;48;48], false, 24);
([103;111;32;98;116;105;109;101;32;49;48;48;48], false, 0);
([103;111;32;119;116;105;109;101;32;49;48;48;48;32;98;116;105;109;101;32;49;48;48;48], false, 0);
([103;111;32;119;116;105;109;101;32;48;32;98;116;105;109;101;32;49;48;48;48], false, 0);
([103;111;32;119;116;105;109;101;32;49;48;48;48;32;98;116;105;109;101;32;48], false, 24);
([103;111;32;119;105;110;99;32;49;48;48], false, 23);
([103;111;32;98;105;110;99;32;49;48;48], false, 23);
([103;111;32;119;116;105;109;101;32;49;48;48;48;32;119;105;110;99], false, 20);
([103;111;32;109;111;118;101;115;116;111;103;111;32;53], false, 23);
([103;111;32;109;111;118;101;115;116;111;103;111;32;53;32;119;116;105;109;101;32;49;48;48;32;98;116;105;109;101;32;49;48;48], false, 0);
([103;111;32;109;111;118;101;115;116;111;103;111], false, 20);
([103;111;32;102;111;111], false, 22);
([103;111;32;100;101;112;116;104;32;49;32;102;111;111], false, 22);
([103;111;32;32;100;101;112;116;104;32;32;49], false, 0);
([103;111;32;100;101;112;116;104;32;49;32], false, 0);
([32;103;111;32;100;101;112;116;104;32;49], false, 0);
([103;111;9;100;101;112;116;104;9;49], false, 0);
([103;111;32;115;101;97;114;99;104;109;111;118;101;115;32;101;49;101;50;32;100;101;112;116;104;32;49], false, 22);
([103;111;32;115;101;97;114;99;104;109;111;118;101;115;32;100;101;112;116;104;32;49], false, 0);
([103;111;32;115;101;97;114;99;104;109;111;118;101;115;32;101;49;101;50], false, 22);
([103;111;32;115;101;97;114;99;104;109;111;118;101;115;32;101;56;100;56;32;100;101;112;116;104;32;49], false, 0);
([103;111;32;115;101;97;114;99;104;109;111;118;101;115;32;101;49;101;50;32;101;49;100;49;32;100;101;112;116;104;32;49], false, 22);
([103;111;32;109;111;118;101;115;32;101;49;101;50;32;105;110;102;105;110;105;116;101], false, 22);
([103;111;32;115;101;97;114;99;104;109;111;118;101;115], false, 23);
([103;111;32;100;101;112;116;104;32;49;32;115;101;97;114;99;104;109;111;118;101;115], false, 0);
([103;111;32;100;101;112;116;104;32;49;32;115;101;97;114;99;104;109;111;118;101;115;32;122;122], false, 22);
([103;111;32;105;110;102;105;110;105;116;101;32;105;110;102;105;110;105;116;101], false, 0);
([103;111;32;100;101;112;116;104;32;49;32;100;101;112;116;104;32;50], false, 0);
([103;111;32;100;101;112;116;104;32;57;57;57;57;57;57;57;57;57;57;57;57;57;57;57;57;57;57;57;57], false, 21);
([103;111;32;119;116;105;109;101;32;45;53;32;98;116;105;109;101;32;45;53], false, 0);
([103;111;32;109;111;118;101;116;105;109;101;32;57;50;50;51;51;55;50;48;51;54;56;53;52;55;55;53;56;48;55], false, 0);
([103;111;32;109;111;118;101;116;105;109;101;32;57;50;50;51;51;55;50;48;51;54;56;53;53], false, 0);
([103;111;32;119;116;105;109;101;32;49;56;52;52;54;55;52;52;48;55;51;55;48;57;53;53;49;32;98;116;105;109;101;32;53], false, 0);
([103;111;32;100;101;112;116;104;32;43;49], false, 0);
([103;111;32;100;101;112;116;104;32;49;95;48], false, 21);
([103;111;32;109;97;116;101;32;45;49], false, 23);
([103;111;32;109;111;118;101;115;116;111;103;111;32;120;32;100;101;112;116;104;32;49], false, 21);
([103;111;32;112;111;110;100;101;114;32;119;116;105;109;101;32;48;32;98;116;105;109;101;32;48], false, 24);
([103;111;32;105;110;102;105;110;105;116;101;32;119;116;105;109;101;32;48], false, 24);
([103;111;32;119;105;110;99;32;53;32;98;105;110;99;32;53;32;100;101;112;116;104;32;50], false, 0);
([103;111;32;109;111;118;101;116;105;109;101;32;53;32;119;116;105;109;101;32;48;32;98;116;105;109;101;32;48], false, 0);
([103;111;32;100;101;112;116;104;32;50;32;109;111;118;101;116;105;109;101;32;48;32;119;116;105;109;101;32;48], false, 24);
([103;111;32;110;111;100;101;115;32;49;56;52;52;54;55;52;52;48;55;51;55;48;57;53;53;49;54;49;53], false, 21);
([103;111;32;110;111;100;101;115;32;57;50;50;51;51;55;50;48;51;54;56;53;52;55;55;53;56;48;55], false, 0)].
Definition go_code (line : str) (w : bool) : N :=
  match setup (kings_fen w) with
  | Ok p => match handle NotationImpl.from_uci (mkust p O (fun _ => 0%Z)) line with
            | Done _ out _ => match filter is_go_info out with OInfo c :: _ => c | _ => 0 end
            | UPanic => 99 end
  | _ => 98 end.
Example go_observed_agree :
  forallb (fun '(s, w, c) => (go_code s w =? c) && go_case_ok NotationImpl.from_uci s w (c =? 0)) go_observed = true.
Proof. vm_compute. reflexivity. Qed.

(* "go" lines with white space in front / behind / between (re-observed after uci.go:219 got its
   strings.TrimSpace; "go depth 1 " with a trailing blank used to be rejected with code 22) *)
Definition go_ws_observed : list (str * bool * N) := [
([103;111;32;100;101;112;116;104;32;49;32], true, 0);
([32;103;111;32;100;101;112;116;104;32;49], true, 0);
([103;111;32;100;101;112;116;104;32;49], true, 0);
([103;111;32;32;100;101;112;116;104;9;49;13], true, 0);
([11;103;111;32;100;101;112;116;104;32;49;11], true, 0);
([103;111;32;100;101;112;116;104;32;49;32;120], true, 22);
([194;160;103;111;32;100;101;112;116;104;32;49;194;133], true, 0);
([103;111;194;160;100;101;112;116;104;32;49], true, 0);
([103;111;32;100;101;112;116;104;32;49;32;11;32;120], true, 22);
([32;32;103;111], true, 23);
([103;111;32;100;101;112;116;104;10], true, 20);
([9;103;111;32;100;101;112;116;104;32;120;32], true, 21);
([103;111;32;105;110;102;105;110;105;116;101;32], true, 0);
([32;103;111;32;119;116;105;109;101;32;48;32;98;116;105;109;101;32;48;32], true, 24);
([103;111;32;100;101;112;116;104;32;49;32], false, 0);
([32;103;111;32;100;101;112;116;104;32;49], false, 0);
([103;111;32;100;101;112;116;104;32;49], false, 0);
([103;111;32;32;100;101;112;116;104;9;49;13], false, 0);
([11;103;111;32;100;101;112;116;104;32;49;11], false, 0);
([103;111;32;100;101;112;116;104;32;49;32;120], false, 22);
([194;160;103;111;32;100;101;112;116;104;32;49;194;133], false, 0);
([103;111;194;160;100;101;112;116;104;32;49], false, 0);
([103;111;32;100;101;112;116;104;32;49;32;11;32;120], false, 22);
([32;32;103;111], false, 23);
([103;111;32;100;101;112;116;104;10], false, 20);
([9;103;111;32;100;101;112;116;104;32;120;32], false, 21);
([103;111;32;105;110;102;105;110;105;116;101;32], false, 0);
([32;103;111;32;119;116;105;109;101;32;48;32;98;116;105;109;101;32;48;32], false, 24)].
Example go_ws_observed_agree :
  forallb (fun '(s, w, c) => (go_code s w =? c) && go_case_ok NotationImpl.from_uci s w (c =? 0)) go_ws_observed = true.
Proof. vm_compute. reflexivity. Qed.

(* sequences of lines given to a fresh handler: the info codes printed (100 = readyok) and the
   FEN of the handler's position afterwards *)
Definition position_observed : list (list str * list N * str) := [
([[112;111;115;105;116;105;111;110]], [10], [114;110;98;113;107;98;110;114;47;112;112;112;112;112;112;112;112;47;56;47;56;47;56;47;56;47;80;80;80;80;80;80;80;80;47;82;78;66;81;75;66;78;82;32;119;32;75;81;107;113;32;45;32;48;32;49]);
([[112;111;115;105;116;105;111;110;32;115;116;97;114;116;112;111;115]], [], [114;110;98;113;107;98;110;114;47;112;112;112;112;112;112;112;112;47;56;47;56;47;56;47;56;47;80;80;80;80;80;80;80;80;47;82;78;66;81;75;66;78;82;32;119;32;75;81;107;113;32;45;32;48;32;49]);
([[112;111;115;105;116;105;111;110;32;102;101;110]], [10], [114;110;98;113;107;98;110;114;47;112;112;112;112;112;112;112;112;47;56;47;56;47;56;47;56;47;80;80;80;80;80;80;80;80;47;82;78;66;81;75;66;78;82;32;119;32;75;81;107;113;32;45;32;48;32;49]);
([[112;111;115;105;116;105;111;110;32;102;101;110;32;109;111;118;101;115;32;101;50;101;52]], [10], [114;110;98;113;107;98;110;114;47;112;112;112;112;112;112;112;112;47;56;47;56;47;56;47;56;47;80;80;80;80;80;80;80;80;47;82;78;66;81;75;66;78;82;32;119;32;75;81;107;113;32;45;32;48;32;49]);
([[112;111;115;105;116;105;111;110;32;120;121;122]], [10], [114;110;98;113;107;98;110;114;47;112;112;112;112;112;112;112;112;47;56;47;56;47;56;47;56;47;80;80;80;80;80;80;80;80;47;82;78;66;81;75;66;78;82;32;119;32;75;81;107;113;32;45;32;48;32;49]);
([[112;111;115;105;116;105;111;110;32;115;116;97;114;116;112;111;115;32;109;111;118;101;115]], [], [114;110;98;113;107;98;110;114;47;112;112;112;112;112;112;112;112;47;56;47;56;47;56;47;56;47;80;80;80;80;80;80;80;80;47;82;78;66;81;75;66;78;82;32;119;32;75;81;107;113;32;45;32;48;32;49]);
([[112;111;115;105;116;105;111;110;32;115;116;97;114;116;112;111;115;32;109;111;118;101;115;32;101;50;101;52]], [], [114;110;98;113;107;98;110;114;47;112;112;112;112;112;112;112;112;47;56;47;56;47;52;80;51;47;56;47;80;80;80;80;49;80;80;80;47;82;78;66;81;75;66;78;82;32;98;32;75;81;107;113;32;101;51;32;48;32;49]);
([[112;111;115;105;116;105;111;110;32;115;116;97;114;116;112;111;115;32;109;111;118;101;115;32;101;50;101;52;32;101;55;101;53;32;103;49;102;51]], [], [114;110;98;113;107;98;110;114;47;112;112;112;112;49;112;112;112;47;56;47;52;112;51;47;52;80;51;47;53;78;50;47;80;80;80;80;49;80;80;80;47;82;78;66;81;75;66;49;82;32;98;32;75;81;107;113;32;45;32;49;32;50]);
([[112;111;115;105;116;105;111;110;32;115;116;97;114;116;112;111;115;32;109;111;118;101;115;32;101;50;101;52;32;101;50;101;52]], [12], [114;110;98;113;107;98;110;114;47;112;112;112;112;112;112;112;112;47;56;47;56;47;52;80;51;47;56;47;80;80;80;80;49;80;80;80;47;82;78;66;81;75;66;78;82;32;98;32;75;81;107;113;32;101;51;32;48;32;49]);
([[112;111;115;105;116;105;111;110;32;115;116;97;114;116;112;111;115;32;109;111;118;101;115;32;101;50;101;53]], [12], [114;110;98;113;107;98;110;114;47;112;112;112;112;112;112;112;112;47;56;47;56;47;56;47;56;47;80;80;80;80;80;80;80;80;47;82;78;66;81;75;66;78;82;32;119;32;75;81;107;113;32;45;32;48;32;49]);
([[112;111;115;105;116;105;111;110;32;115;116;97;114;116;112;111;115;32;109;111;118;101;115;32;101;50;101;52;32;120;120;32;101;55;101;53]], [12], [114;110;98;113;107;98;110;114;47;112;112;112;112;112;112;112;112;47;56;47;56;47;52;80;51;47;56;47;80;80;80;80;49;80;80;80;47;82;78;66;81;75;66;78;82;32;98;32;75;81;107;113;32;101;51;32;48;32;49]);
([[112;111;115;105;116;105;111;110;32;115;116;97;114;116;112;111;115;32;101;50;101;52]], [13], [114;110;98;113;107;98;110;114;47;112;112;112;112;112;112;112;112;47;56;47;56;47;56;47;56;47;80;80;80;80;80;80;80;80;47;82;78;66;81;75;66;78;82;32;119;32;75;81;107;113;32;45;32;48;32;49]);
([[112;111;115;105;116;105;111;110;32;115;116;97;114;116;112;111;115;32;109;111;118;101;115;32;101;50;101;52;32;109;111;118;101;115;32;101;55;101;53]], [], [114;110;98;113;107;98;110;114;47;112;112;112;112;112;112;112;112;47;56;47;56;47;52;80;51;47;56;47;80;80;80;80;49;80;80;80;47;82;78;66;81;75;66;78;82;32;98;32;75;81;107;113;32;101;51;32;48;32;49]);
([[112;111;115;105;116;105;111;110;32;32;115;116;97;114;116;112;111;115;32;32;32;109;111;118;101;115;32;32;101;50;101;52;32]], [], [114;110;98;113;107;98;110;114;47;112;112;112;112;112;112;112;112;47;56;47;56;47;52;80;51;47;56;47;80;80;80;80;49;80;80;80;47;82;78;66;81;75;66;78;82;32;98;32;75;81;107;113;32;101;51;32;48;32;49]);
([[32;112;111;115;105;116;105;111;110;32;115;116;97;114;116;112;111;115]], [], [114;110;98;113;107;98;110;114;47;112;112;112;112;112;112;112;112;47;56;47;56;47;56;47;56;47;80;80;80;80;80;80;80;80;47;82;78;66;81;75;66;78;82;32;119;32;75;81;107;113;32;45;32;48;32;49]);
([[112;111;115;105;116;105;111;110;32;115;116;97;114;116;112;111;115;32;109;111;118;101;115;32;101;50;101;52];[112;111;115;105;116;105;111;110;32;102;101;110;32;120;121;122];[105;115;114;101;97;100;121]], [11;100], [114;110;98;113;107;98;110;114;47;112;112;112;112;112;112;112;112;47;56;47;56;47;52;80;51;47;56;47;80;80;80;80;49;80;80;80;47;82;78;66;81;75;66;78;82;32;98;32;75;81;107;113;32;101;51;32;48;32;49]);
([[112;111;115;105;116;105;111;110;32;115;116;97;114;116;112;111;115;32;109;111;118;101;115;32;101;50;101;52];[112;111;115;105;116;105;111;110;32;102;101;110;32;56;47;56;47;56;47;56;47;56;47;56;47;56;47;56;32;119;32;45;32;45;32;48;32;49]], [11], [114;110;98;113;107;98;110;114;47;112;112;112;112;112;112;112;112;47;56;47;56;47;52;80;51;47;56;47;80;80;80;80;49;80;80;80;47;82;78;66;81;75;66;78;82;32;98;32;75;81;107;113;32;101;51;32;48;32;49]);
([[112;111;115;105;116;105;111;110;32;115;116;97;114;116;112;111;115;32;109;111;118;101;115;32;100;50;100;52];[112;111;115;105;116;105;111;110]], [10], [114;110;98;113;107;98;110;114;47;112;112;112;112;112;112;112;112;47;56;47;56;47;51;80;52;47;56;47;80;80;80;49;80;80;80;80;47;82;78;66;81;75;66;78;82;32;98;32;75;81;107;113;32;100;51;32;48;32;49]);
([[112;111;115;105;116;105;111;110;32;102;101;110;32;52;107;51;47;56;47;56;47;56;47;56;47;56;47;56;47;52;75;51;32;119;32;45;32;45;32;48;32;49]], [], [52;107;51;47;56;47;56;47;56;47;56;47;56;47;56;47;52;75;51;32;119;32;45;32;45;32;48;32;49]);
([[112;111;115;105;116;105;111;110;32;102;101;110;32;52;107;51;47;56;47;56;47;56;47;56;47;56;47;56;47;52;75;51;32;119;32;45;32;45;32;48;32;49;32;109;111;118;101;115;32;101;49;101;50;32;101;56;100;56]], [], [51;107;52;47;56;47;56;47;56;47;56;47;56;47;52;75;51;47;56;32;119;32;45;32;45;32;50;32;50]);
([[112;111;115;105;116;105;111;110;32;102;101;110;32;52;107;51;47;56;47;56;47;56;47;56;47;56;47;56;47;52;75;51;32;98;32;45;32;45;32;53;32;49;48;32;109;111;118;101;115;32;101;56;100;56]], [], [51;107;52;47;56;47;56;47;56;47;56;47;56;47;56;47;52;75;51;32;119;32;45;32;45;32;54;32;49;49]);
([[112;111;115;105;116;105;111;110;32;102;101;110;32;52;107;51;47;56;47;56;47;56;47;56;47;56;47;56;47;52;75;51;32;32;32;98;32;32;45;32;32;45]], [], [52;107;51;47;56;47;56;47;56;47;56;47;56;47;56;47;52;75;51;32;98;32;45;32;45;32;48;32;49]);
([[112;111;115;105;116;105;111;110;32;102;101;110;32;52;107;51;47;56;47;56;47;56;47;56;47;56;47;56;47;52;75;51;32;119;32;45;32;45;32;48;32;49;32;101;120;116;114;97;32;116;111;107;101;110;115;32;104;101;114;101]], [], [52;107;51;47;56;47;56;47;56;47;56;47;56;47;56;47;52;75;51;32;119;32;45;32;45;32;48;32;49]);
([[112;111;115;105;116;105;111;110;32;102;101;110;32;52;107;51;47;56;47;56;47;56;47;56;47;56;47;56;47;52;82;75;50;32;119;32;45;32;45;32;48;32;49;32;109;111;118;101;115;32;101;49;101;56]], [11], [114;110;98;113;107;98;110;114;47;112;112;112;112;112;112;112;112;47;56;47;56;47;56;47;56;47;80;80;80;80;80;80;80;80;47;82;78;66;81;75;66;78;82;32;119;32;75;81;107;113;32;45;32;48;32;49]);
([[112;111;115;105;116;105;111;110;32;102;101;110;32;49;110;50;107;51;47;56;47;56;47;56;47;56;47;56;47;56;47;52;82;75;50;32;119;32;45;32;45;32;48;32;49;32;109;111;118;101;115;32;101;49;101;56;32;98;56;97;54]], [11], [114;110;98;113;107;98;110;114;47;112;112;112;112;112;112;112;112;47;56;47;56;47;56;47;56;47;80;80;80;80;80;80;80;80;47;82;78;66;81;75;66;78;82;32;119;32;75;81;107;113;32;45;32;48;32;49]);
([[112;111;115;105;116;105;111;110;32;102;101;110;32;114;110;98;113;107;98;110;114;47;112;112;112;112;49;112;112;112;47;56;47;52;112;51;47;52;80;51;47;56;47;80;80;80;80;49;80;80;80;47;82;78;66;81;75;66;78;82;32;119;32;75;81;107;113;32;101;54;32;48;32;50;32;109;111;118;101;115;32;103;49;102;51]], [], [114;110;98;113;107;98;110;114;47;112;112;112;112;49;112;112;112;47;56;47;52;112;51;47;52;80;51;47;53;78;50;47;80;80;80;80;49;80;80;80;47;82;78;66;81;75;66;49;82;32;98;32;75;81;107;113;32;45;32;49;32;50]);
([[112;111;115;105;116;105;111;110;32;102;101;110;32;114;110;98;113;107;98;110;114;47;112;112;112;49;112;112;112;112;47;56;47;56;47;51;112;80;51;47;56;47;80;80;80;80;49;80;80;80;47;82;78;66;81;75;66;78;82;32;98;32;75;81;107;113;32;101;51;32;48;32;51;32;109;111;118;101;115;32;100;52;101;51]], [], [114;110;98;113;107;98;110;114;47;112;112;112;49;112;112;112;112;47;56;47;56;47;56;47;52;112;51;47;80;80;80;80;49;80;80;80;47;82;78;66;81;75;66;78;82;32;119;32;75;81;107;113;32;45;32;48;32;52]);
([[112;111;115;105;116;105;111;110;32;102;101;110;32;52;107;51;47;80;55;47;56;47;56;47;56;47;56;47;56;47;52;75;51;32;119;32;45;32;45;32;48;32;49;32;109;111;118;101;115;32;97;55;97;56;113]], [], [81;51;107;51;47;56;47;56;47;56;47;56;47;56;47;56;47;52;75;51;32;98;32;45;32;45;32;48;32;49]);
([[112;111;115;105;116;105;111;110;32;102;101;110;32;52;107;51;47;80;55;47;56;47;56;47;56;47;56;47;56;47;52;75;51;32;119;32;45;32;45;32;48;32;49;32;109;111;118;101;115;32;97;55;97;56;81;32;101;56;101;55]], [], [81;55;47;52;107;51;47;56;47;56;47;56;47;56;47;56;47;52;75;51;32;119;32;45;32;45;32;49;32;50]);
([[112;111;115;105;116;105;111;110;32;102;101;110;32;52;107;51;47;80;55;47;56;47;56;47;56;47;56;47;56;47;52;75;51;32;119;32;45;32;45;32;48;32;49;32;109;111;118;101;115;32;97;55;97;56]], [12], [52;107;51;47;80;55;47;56;47;56;47;56;47;56;47;56;47;52;75;51;32;119;32;45;32;45;32;48;32;49]);
([[112;111;115;105;116;105;111;110;32;102;101;110;32;114;51;107;50;114;47;56;47;56;47;56;47;56;47;56;47;56;47;82;51;75;50;82;32;119;32;75;81;107;113;32;45;32;48;32;49;32;109;111;118;101;115;32;101;49;103;49;32;101;56;99;56]], [], [50;107;114;51;114;47;56;47;56;47;56;47;56;47;56;47;56;47;82;52;82;75;49;32;119;32;45;32;45;32;50;32;50]);
([[112;111;115;105;116;105;111;110;32;115;116;97;114;116;112;111;115;32;109;111;118;101;115;32;101;50;101;52];[117;99;105;110;101;119;103;97;109;101]], [], [114;110;98;113;107;98;110;114;47;112;112;112;112;112;112;112;112;47;56;47;56;47;56;47;56;47;80;80;80;80;80;80;80;80;47;82;78;66;81;75;66;78;82;32;119;32;75;81;107;113;32;45;32;48;32;49]);
([[112;111;115;105;116;105;111;110;32;115;116;97;114;116;112;111;115;32;109;111;118;101;115;32;101;50;101;52];[115;101;116;111;112;116;105;111;110;32;110;97;109;101;32;72;97;115;104;32;118;97;108;117;101;32;56];[105;115;114;101;97;100;121]], [100], [114;110;98;113;107;98;110;114;47;112;112;112;112;112;112;112;112;47;56;47;56;47;52;80;51;47;56;47;80;80;80;80;49;80;80;80;47;82;78;66;81;75;66;78;82;32;98;32;75;81;107;113;32;101;51;32;48;32;49]);
([[112;111;115;105;116;105;111;110;32;102;101;110;32;52;107;51;47;56;47;56;47;56;47;56;47;56;47;56;47;52;75;51;32;119;32;45;32;45;32;48;32;49;48;48;48;48;48;48;32;109;111;118;101;115;32;101;49;101;50;32;101;56;100;56;32;101;50;101;49]], [], [51;107;52;47;56;47;56;47;56;47;56;47;56;47;56;47;52;75;51;32;98;32;45;32;45;32;51;32;49;48;48;48;48;48;49]);
([[112;111;115;105;116;105;111;110;32;115;116;97;114;116;112;111;115;32;109;111;118;101;115;32;101;50;101;52];[103;111;32;100;101;112;116;104];[103;111]], [20;23], [114;110;98;113;107;98;110;114;47;112;112;112;112;112;112;112;112;47;56;47;56;47;52;80;51;47;56;47;80;80;80;80;49;80;80;80;47;82;78;66;81;75;66;78;82;32;98;32;75;81;107;113;32;101;51;32;48;32;49]);
([[112;111;115;105;116;105;111;110;32;102;101;110;32;52;107;51;47;56;47;56;47;56;47;56;47;56;47;56;47;52;75;51;32;119;32;45;32;45;32;48;32;49;9;109;111;118;101;115;9;101;49;101;50]], [], [52;107;51;47;56;47;56;47;56;47;56;47;56;47;52;75;51;47;56;32;98;32;45;32;45;32;49;32;49]);
([[112;111;115;105;116;105;111;110;32;102;101;110;32;52;107;51;47;56;47;56;47;56;47;56;47;56;47;56;47;52;75;51;194;160;119;32;45;32;45;32;48;32;49]], [11], [114;110;98;113;107;98;110;114;47;112;112;112;112;112;112;112;112;47;56;47;56;47;56;47;56;47;80;80;80;80;80;80;80;80;47;82;78;66;81;75;66;78;82;32;119;32;75;81;107;113;32;45;32;48;32;49]);
([[112;111;115;105;116;105;111;110;32;102;101;110;32;194;160;52;107;51;47;56;47;56;47;56;47;56;47;56;47;56;47;52;75;51;32;119;32;45;32;45;32;48;32;49]], [], [52;107;51;47;56;47;56;47;56;47;56;47;56;47;56;47;52;75;51;32;119;32;45;32;45;32;48;32;49]);
([[112;111;115;105;116;105;111;110;32;102;101;110;32;52;107;51;47;56;47;56;47;56;47;56;47;56;47;56;47;52;75;51;32;119;32;45;32;45;32;48;32;49;194;160]], [], [52;107;51;47;56;47;56;47;56;47;56;47;56;47;56;47;52;75;51;32;119;32;45;32;45;32;48;32;49]);
([[112;111;115;105;116;105;111;110;32;102;101;110;32;11;52;107;51;47;56;47;56;47;56;47;56;47;56;47;56;47;52;75;51;32;119;32;45;32;45;32;48;32;49;11]], [], [52;107;51;47;56;47;56;47;56;47;56;47;56;47;56;47;52;75;51;32;119;32;45;32;45;32;48;32;49]);
([[112;111;115;105;116;105;111;110;32;115;116;97;114;116;112;111;115;32;109;111;118;101;115;32;101;50;101;52;32;98;56;97;54;32;104;50;104;51;32;98;55;98;53;32;100;49;101;50;32;99;56;98;55;32;101;50;101;51;32;97;56;99;56;32;98;50;98;51;32;99;56;97;56;32;101;51;100;52;32;101;55;101;53;32;98;49;97;51;32;103;55;103;53;32;100;52;99;51;32;102;55;102;53;32;99;51;99;52;32;100;55;100;53;32;101;55;101;56;113;32;101;53;100;52;32;102;49;101;50;32;101;56;102;55;32;97;51;98;49;32;102;53;102;52;32;97;50;97;52;32;97;54;99;53;32;101;50;102;51]], [12], [114;50;113;107;98;110;114;47;112;98;112;52;112;47;110;55;47;49;112;49;112;112;112;112;49;47;50;81;49;80;51;47;78;80;53;80;47;80;49;80;80;49;80;80;49;47;82;49;66;49;75;66;78;82;32;119;32;75;81;107;32;100;54;32;48;32;49;48]);
([[112;111;115;105;116;105;111;110;32;115;116;97;114;116;112;111;115;32;109;111;118;101;115;32;102;50;102;52;32;100;55;100;53;32;104;50;104;52;32;99;56;101;54;32;97;50;97;52;32;98;56;100;55;32;101;50;101;52;32;97;56;98;56;32;99;50;99;51;32;97;55;97;53]], [], [49;114;49;113;107;98;110;114;47;49;112;112;110;112;112;112;112;47;52;98;51;47;112;50;112;52;47;80;51;80;80;49;80;47;50;80;53;47;49;80;49;80;50;80;49;47;82;78;66;81;75;66;78;82;32;119;32;75;81;107;32;97;54;32;48;32;54]);
([[112;111;115;105;116;105;111;110;32;115;116;97;114;116;112;111;115;32;109;111;118;101;115;32;103;50;103;51;32;98;55;98;54;32;100;50;100;52;32;99;56;97;54;32;98;49;99;51;32;103;55;103;53;32;98;50;98;51;32;102;55;102;54;32;101;50;101;51;32;97;54;100;51;32;97;49;98;49;32;100;51;102;49;32;103;51;103;52;32;102;49;97;54;32;99;49;97;51;32;102;56;103;55;32;97;51;98;52;32;104;55;104;53;32;97;50;97;52]], [], [114;110;49;113;107;49;110;114;47;112;49;112;112;112;49;98;49;47;98;112;51;112;50;47;54;112;112;47;80;66;49;80;50;80;49;47;49;80;78;49;80;51;47;50;80;50;80;49;80;47;49;82;49;81;75;49;78;82;32;98;32;75;107;113;32;97;51;32;48;32;49;48]);
([[112;111;115;105;116;105;111;110;32;115;116;97;114;116;112;111;115;32;109;111;118;101;115;32;100;50;100;51;32;102;55;102;54;32;102;50;102;52;32;101;55;101;53;32;99;49;101;51;32;100;55;100;54;32;97;50;97;52;32;101;56;100;55;32;100;51;100;52;32;98;55;98;53;32;101;51;100;50;32;102;56;101;55;32;98;49;97;51;32;99;56;98;55;32;101;50;101;51;32;101;53;100;52;32;102;52;102;53;32;100;55;99;56;32;97;51;98;49;32;97;55;97;53;32;100;49;101;50;32;100;56;102;56;32;101;51;101;52;32;104;55;104;53;32;100;50;97;53;32;98;55;97;54;32;101;49;100;50]], [], [114;110;107;50;113;110;114;47;50;112;49;98;49;112;49;47;98;50;112;49;112;50;47;66;112;51;80;49;112;47;80;50;112;80;51;47;56;47;49;80;80;75;81;49;80;80;47;82;78;51;66;78;82;32;98;32;45;32;45;32;50;32;49;52]);
([[112;111;115;105;116;105;111;110;32;115;116;97;114;116;112;111;115;32;109;111;118;101;115;32;103;49;102;51;32;104;55;104;53;32;104;50;104;51;32;103;56;102;54;32;104;51;104;52;32;103;55;103;53;32;98;49;99;51;32;104;56;103;56;32;102;51;101;53;32;102;54;100;53;32;101;50;101;51;32;98;56;99;54;32;104;49;104;50;32;98;55;98;53;32;97;49;98;49;32;103;53;104;52;32;99;51;97;52;32;100;53;98;54;32;97;52;99;51;32;99;54;100;52;32;104;50;104;51;32;99;55;99;53]], [], [114;49;98;113;107;98;114;49;47;112;50;112;112;112;50;47;49;110;54;47;49;112;112;49;78;50;112;47;51;110;51;112;47;50;78;49;80;50;82;47;80;80;80;80;49;80;80;49;47;49;82;66;81;75;66;50;32;119;32;113;32;99;54;32;48;32;49;50]);
([[112;111;115;105;116;105;111;110;32;115;116;97;114;116;112;111;115;32;109;111;118;101;115;32;101;50;101;52;32;97;55;97;53;32;98;50;98;51;32;103;55;103;54;32;100;49;104;53;32;98;56;97;54;32;104;53;104;52;32;100;55;100;54;32;101;49;101;50;32;99;56;104;51;32;97;50;97;51;32;98;55;98;54;32;101;50;102;51;32;97;54;98;52;32;104;52;104;51;32;101;55;101;54;32;104;51;102;53;32;102;56;104;54;32;102;49;97;54;32;100;54;100;53;32;103;50;103;52]], [], [114;50;113;107;49;110;114;47;50;112;50;112;49;112;47;66;112;50;112;49;112;98;47;112;50;112;49;81;50;47;49;110;50;80;49;80;49;47;80;80;51;75;50;47;50;80;80;49;80;49;80;47;82;78;66;51;78;82;32;98;32;107;113;32;103;51;32;48;32;49;49]);
([[112;111;115;105;116;105;111;110;32;115;116;97;114;116;112;111;115;32;109;111;118;101;115;32;103;49;102;51;32;103;55;103;53;32;98;49;99;51;32;98;55;98;54;32;97;50;97;51;32;103;53;103;52;32;101;55;101;56;113;32;99;56;98;55;32;101;50;101;52;32;103;52;103;51;32;99;51;101;50;32;98;55;101;52;32;104;50;104;52;32;103;56;102;54;32;104;52;104;53;32;102;56;104;54;32;100;50;100;51;32;101;52;103;54;32;97;49;98;49;32;103;54;100;51]], [12], [114;110;98;113;107;98;110;114;47;112;49;112;112;112;112;49;112;47;49;112;54;47;56;47;54;112;49;47;80;49;78;50;78;50;47;49;80;80;80;80;80;80;80;47;82;49;66;81;75;66;49;82;32;119;32;75;81;107;113;32;45;32;48;32;52]);
([[112;111;115;105;116;105;111;110;32;115;116;97;114;116;112;111;115;32;109;111;118;101;115;32;98;49;97;51;32;99;55;99;54;32;97;51;99;52;32;103;55;103;54;32;98;50;98;52;32;99;54;99;53;32;99;52;97;53;32;103;56;104;54;32;97;49;98;49;32;100;55;100;54;32;104;50;104;52;32;104;54;103;56;32;102;50;102;52;32;102;56;103;55;32;97;53;99;54;32;101;56;102;56;32;97;50;97;51;32;101;50;101;52;32;100;50;100;52]], [12], [114;110;98;113;49;107;110;114;47;112;112;50;112;112;98;112;47;50;78;112;50;112;49;47;50;112;53;47;49;80;51;80;49;80;47;80;55;47;50;80;80;80;49;80;49;47;49;82;66;81;75;66;78;82;32;98;32;75;32;45;32;48;32;57]);
([[32;112;111;115;105;116;105;111;110;32;115;116;97;114;116;112;111;115;32;109;111;118;101;115;32;101;50;101;52;32]], [], [114;110;98;113;107;98;110;114;47;112;112;112;112;112;112;112;112;47;56;47;56;47;52;80;51;47;56;47;80;80;80;80;49;80;80;80;47;82;78;66;81;75;66;78;82;32;98;32;75;81;107;113;32;101;51;32;48;32;49]);
([[9;112;111;115;105;116;105;111;110;32;102;101;110;32;52;107;51;47;56;47;56;47;56;47;56;47;56;47;56;47;52;75;51;32;119;32;45;32;45;32;48;32;49;11];[11;32;105;115;114;101;97;100;121;32;13]], [100], [52;107;51;47;56;47;56;47;56;47;56;47;56;47;56;47;52;75;51;32;119;32;45;32;45;32;48;32;49]);
([[112;111;115;105;116;105;111;110;32;115;116;97;114;116;112;111;115;32;109;111;118;101;115;32;101;50;101;52;194;160]], [], [114;110;98;113;107;98;110;114;47;112;112;112;112;112;112;112;112;47;56;47;56;47;52;80;51;47;56;47;80;80;80;80;49;80;80;80;47;82;78;66;81;75;66;78;82;32;98;32;75;81;107;113;32;101;51;32;48;32;49]);
([[226;128;131;112;111;115;105;116;105;111;110;32;115;116;97;114;116;112;111;115;32;109;111;118;101;115;32;100;50;100;52;32;100;55;100;53;194;133];[32;103;111;32;100;101;112;116;104]], [20], [114;110;98;113;107;98;110;114;47;112;112;112;49;112;112;112;112;47;56;47;51;112;52;47;51;80;52;47;56;47;80;80;80;49;80;80;80;80;47;82;78;66;81;75;66;78;82;32;119;32;75;81;107;113;32;100;54;32;48;32;50]);
([[32;32;112;111;115;105;116;105;111;110;32;32;32;115;116;97;114;116;112;111;115;32;32;32;109;111;118;101;115;32;32;32;103;49;102;51;32;32];[32;120;121;122];[112;111;115;105;116;105;111;110;194;160;115;116;97;114;116;112;111;115]], [], [114;110;98;113;107;98;110;114;47;112;112;112;112;112;112;112;112;47;56;47;56;47;56;47;53;78;50;47;80;80;80;80;80;80;80;80;47;82;78;66;81;75;66;49;82;32;98;32;75;81;107;113;32;45;32;49;32;49])].
Definition codes_of (out : list out_line) : list N :=
  flat_map (fun o => match o with OInfo c => [c] | OReadyOk => [100] | _ => [] end) out.
Example position_observed_agree :
  forallb (fun '(ls, cs, f) =>
    match init_state (fun _ => 0%Z) with
    | Some st => match run NotationImpl.from_uci st ls with
                 | Done st' out _ => str_eqb (codes_of out) cs && str_eqb (fen_of (u_pos st')) f
                 | UPanic => false end
    | None => false end && position_case_ok NotationImpl.from_uci ls f) position_observed = true.
Proof. vm_compute. reflexivity. Qed.

(* setoption cross-check: for every option several values were sent; before and after each the
   output of "Print Config" was compared: info code printed, and the only field that changed *)
Definition options_observed : list (str * N * option (field * Z)) := [
(b "setoption name Print Config value true", 0, None);
(b "setoption name Print Config value false", 0, None);
(b "setoption name Print Config value 1", 0, None);
(b "setoption name Print Config value junk", 0, None);
(b "setoption name Print Config", 0, None);
(b "setoption name Print Config value 77", 0, None);
(b "setoption name Print Config value -3", 0, None);
(b "setoption name Clear Hash value true", 0, None);
(b "setoption name Clear Hash value false", 0, None);
(b "setoption name Clear Hash value 1", 0, None);
(b "setoption name Clear Hash value junk", 0, None);
(b "setoption name Clear Hash", 0, None);
(b "setoption name Clear Hash value 77", 0, None);
(b "setoption name Clear Hash value -3", 0, None);
(b "setoption name Use_Hash value true", 0, None);
(b "setoption name Use_Hash value false", 0, Some (UseTT, (0)%Z));
(b "setoption name Use_Hash value 1", 0, Some (UseTT, (1)%Z));
(b "setoption name Use_Hash value junk", 0, Some (UseTT, (0)%Z));
(b "setoption name Use_Hash", 0, None);
(b "setoption name Use_Hash value 77", 0, None);
(b "setoption name Use_Hash value -3", 0, None);
(b "setoption name Hash value true", 0, Some (TTSize, (0)%Z));
(b "setoption name Hash value false", 0, None);
(b "setoption name Hash value 1", 0, Some (TTSize, (1)%Z));
(b "setoption name Hash value junk", 0, Some (TTSize, (0)%Z));
(b "setoption name Hash", 0, None);
(b "setoption name Hash value 77", 0, Some (TTSize, (77)%Z));
(b "setoption name Hash value -3", 0, Some (TTSize, (0)%Z));
(b "setoption name Use_Book value true", 0, Some (UseBook, (1)%Z));
(b "setoption name Use_Book value false", 0, Some (UseBook, (0)%Z));
(b "setoption name Use_Book value 1", 0, Some (UseBook, (1)%Z));
(b "setoption name Use_Book value junk", 0, Some (UseBook, (0)%Z));
(b "setoption name Use_Book", 0, None);
(b "setoption name Use_Book value 77", 0, None);
(b "setoption name Use_Book value -3", 0, None);
(b "setoption name Ponder value true", 0, None);
(b "setoption name Ponder value false", 0, Some (UsePonder, (0)%Z));
(b "setoption name Ponder value 1", 0, Some (UsePonder, (1)%Z));
(b "setoption name Ponder value junk", 0, Some (UsePonder, (0)%Z));
(b "setoption name Ponder", 0, None);
(b "setoption name Ponder value 77", 0, None);
(b "setoption name Ponder value -3", 0, None);
(b "setoption name Quiescence value true", 0, None);
(b "setoption name Quiescence value false", 0, Some (UseQuiescence, (0)%Z));
(b "setoption name Quiescence value 1", 0, Some (UseQuiescence, (1)%Z));
(b "setoption name Quiescence value junk", 0, Some (UseQuiescence, (0)%Z));
(b "setoption name Quiescence", 0, None);
(b "setoption name Quiescence value 77", 0, None);
(b "setoption name Quiescence value -3", 0, None);
(b "setoption name Use_QHash value true", 0, None);
(b "setoption name Use_QHash value false", 0, Some (UseQSTT, (0)%Z));
(b "setoption name Use_QHash value 1", 0, Some (UseQSTT, (1)%Z));
(b "setoption name Use_QHash value junk", 0, Some (UseQSTT, (0)%Z));
(b "setoption name Use_QHash", 0, None);
(b "setoption name Use_QHash value 77", 0, None);
(b "setoption name Use_QHash value -3", 0, None);
(b "setoption name Use_SEE value true", 0, None);
(b "setoption name Use_SEE value false", 0, Some (UseSEE, (0)%Z));
(b "setoption name Use_SEE value 1", 0, Some (UseSEE, (1)%Z));
(b "setoption name Use_SEE value junk", 0, Some (UseSEE, (0)%Z));
(b "setoption name Use_SEE", 0, None);
(b "setoption name Use_SEE value 77", 0, None);
(b "setoption name Use_SEE value -3", 0, None);
(b "setoption name Use_PromNonQuiet value true", 0, None);
(b "setoption name Use_PromNonQuiet value false", 0, Some (UsePromNonQuiet, (0)%Z));
(b "setoption name Use_PromNonQuiet value 1", 0, Some (UsePromNonQuiet, (1)%Z));
(b "setoption name Use_PromNonQuiet value junk", 0, Some (UsePromNonQuiet, (0)%Z));
(b "setoption name Use_PromNonQuiet", 0, None);
(b "setoption name Use_PromNonQuiet value 77", 0, None);
(b "setoption name Use_PromNonQuiet value -3", 0, None);
(b "setoption name Use_PVS value true", 0, None);
(b "setoption name Use_PVS value false", 0, Some (UsePVS, (0)%Z));
(b "setoption name Use_PVS value 1", 0, Some (UsePVS, (1)%Z));
(b "setoption name Use_PVS value junk", 0, Some (UsePVS, (0)%Z));
(b "setoption name Use_PVS", 0, None);
(b "setoption name Use_PVS value 77", 0, None);
(b "setoption name Use_PVS value -3", 0, None);
(b "setoption name Use_ASP value true", 0, Some (UseAspiration, (1)%Z));
(b "setoption name Use_ASP value false", 0, Some (UseAspiration, (0)%Z));
(b "setoption name Use_ASP value 1", 0, Some (UseAspiration, (1)%Z));
(b "setoption name Use_ASP value junk", 0, Some (UseAspiration, (0)%Z));
(b "setoption name Use_ASP", 0, None);
(b "setoption name Use_ASP value 77", 0, None);
(b "setoption name Use_ASP value -3", 0, None);
(b "setoption name Use_MTDf value true", 0, Some (UseMTDf, (1)%Z));
(b "setoption name Use_MTDf value false", 0, Some (UseMTDf, (0)%Z));
(b "setoption name Use_MTDf value 1", 0, Some (UseMTDf, (1)%Z));
(b "setoption name Use_MTDf value junk", 0, Some (UseMTDf, (0)%Z));
(b "setoption name Use_MTDf", 0, None);
(b "setoption name Use_MTDf value 77", 0, None);
(b "setoption name Use_MTDf value -3", 0, None);
(b "setoption name Use_IID value true", 0, None);
(b "setoption name Use_IID value false", 0, Some (UseIID, (0)%Z));
(b "setoption name Use_IID value 1", 0, Some (UseIID, (1)%Z));
(b "setoption name Use_IID value junk", 0, Some (UseIID, (0)%Z));
(b "setoption name Use_IID", 0, None);
(b "setoption name Use_IID value 77", 0, None);
(b "setoption name Use_IID value -3", 0, None);
(b "setoption name Use_Killer value true", 0, None);
(b "setoption name Use_Killer value false", 0, Some (UseKiller, (0)%Z));
(b "setoption name Use_Killer value 1", 0, Some (UseKiller, (1)%Z));
(b "setoption name Use_Killer value junk", 0, Some (UseKiller, (0)%Z));
(b "setoption name Use_Killer", 0, None);
(b "setoption name Use_Killer value 77", 0, None);
(b "setoption name Use_Killer value -3", 0, None);
(b "setoption name Use_HistCount value true", 0, None);
(b "setoption name Use_HistCount value false", 0, Some (UseHistoryCounter, (0)%Z));
(b "setoption name Use_HistCount value 1", 0, Some (UseHistoryCounter, (1)%Z));
(b "setoption name Use_HistCount value junk", 0, Some (UseHistoryCounter, (0)%Z));
(b "setoption name Use_HistCount", 0, None);
(b "setoption name Use_HistCount value 77", 0, None);
(b "setoption name Use_HistCount value -3", 0, None);
(b "setoption name Use_CounterMove value true", 0, None);
(b "setoption name Use_CounterMove value false", 0, Some (UseCounterMoves, (0)%Z));
(b "setoption name Use_CounterMove value 1", 0, Some (UseCounterMoves, (1)%Z));
(b "setoption name Use_CounterMove value junk", 0, Some (UseCounterMoves, (0)%Z));
(b "setoption name Use_CounterMove", 0, None);
(b "setoption name Use_CounterMove value 77", 0, None);
(b "setoption name Use_CounterMove value -3", 0, None);
(b "setoption name Use_Rfp value true", 0, None);
(b "setoption name Use_Rfp value false", 0, Some (UseRFP, (0)%Z));
(b "setoption name Use_Rfp value 1", 0, Some (UseRFP, (1)%Z));
(b "setoption name Use_Rfp value junk", 0, Some (UseRFP, (0)%Z));
(b "setoption name Use_Rfp", 0, None);
(b "setoption name Use_Rfp value 77", 0, None);
(b "setoption name Use_Rfp value -3", 0, None);
(b "setoption name Use_NullMove value true", 0, None);
(b "setoption name Use_NullMove value false", 0, Some (UseNullMove, (0)%Z));
(b "setoption name Use_NullMove value 1", 0, Some (UseNullMove, (1)%Z));
(b "setoption name Use_NullMove value junk", 0, Some (UseNullMove, (0)%Z));
(b "setoption name Use_NullMove", 0, None);
(b "setoption name Use_NullMove value 77", 0, None);
(b "setoption name Use_NullMove value -3", 0, None);
(b "setoption name Use_Mdp value true", 0, None);
(b "setoption name Use_Mdp value false", 0, Some (UseMDP, (0)%Z));
(b "setoption name Use_Mdp value 1", 0, Some (UseMDP, (1)%Z));
(b "setoption name Use_Mdp value junk", 0, Some (UseMDP, (0)%Z));
(b "setoption name Use_Mdp", 0, None);
(b "setoption name Use_Mdp value 77", 0, None);
(b "setoption name Use_Mdp value -3", 0, None);
(b "setoption name Use_Fp value true", 0, None);
(b "setoption name Use_Fp value false", 0, Some (UseFP, (0)%Z));
(b "setoption name Use_Fp value 1", 0, Some (UseFP, (1)%Z));
(b "setoption name Use_Fp value junk", 0, Some (UseFP, (0)%Z));
(b "setoption name Use_Fp", 0, None);
(b "setoption name Use_Fp value 77", 0, None);
(b "setoption name Use_Fp value -3", 0, None);
(b "setoption name Use_Lmr value true", 0, None);
(b "setoption name Use_Lmr value false", 0, Some (UseLmr, (0)%Z));
(b "setoption name Use_Lmr value 1", 0, Some (UseLmr, (1)%Z));
(b "setoption name Use_Lmr value junk", 0, Some (UseLmr, (0)%Z));
(b "setoption name Use_Lmr", 0, None);
(b "setoption name Use_Lmr value 77", 0, None);
(b "setoption name Use_Lmr value -3", 0, None);
(b "setoption name Use_Lmp value true", 0, None);
(b "setoption name Use_Lmp value false", 0, Some (UseLmp, (0)%Z));
(b "setoption name Use_Lmp value 1", 0, Some (UseLmp, (1)%Z));
(b "setoption name Use_Lmp value junk", 0, Some (UseLmp, (0)%Z));
(b "setoption name Use_Lmp", 0, None);
(b "setoption name Use_Lmp value 77", 0, None);
(b "setoption name Use_Lmp value -3", 0, None);
(b "setoption name Use_Ext value true", 0, None);
(b "setoption name Use_Ext value false", 0, Some (UseExt, (0)%Z));
(b "setoption name Use_Ext value 1", 0, Some (UseExt, (1)%Z));
(b "setoption name Use_Ext value junk", 0, Some (UseExt, (0)%Z));
(b "setoption name Use_Ext", 0, None);
(b "setoption name Use_Ext value 77", 0, None);
(b "setoption name Use_Ext value -3", 0, None);
(b "setoption name Use_ExtAddDepth value true", 0, None);
(b "setoption name Use_ExtAddDepth value false", 0, Some (UseExtAddDepth, (0)%Z));
(b "setoption name Use_ExtAddDepth value 1", 0, Some (UseExtAddDepth, (1)%Z));
(b "setoption name Use_ExtAddDepth value junk", 0, Some (UseExtAddDepth, (0)%Z));
(b "setoption name Use_ExtAddDepth", 0, None);
(b "setoption name Use_ExtAddDepth value 77", 0, None);
(b "setoption name Use_ExtAddDepth value -3", 0, None);
(b "setoption name Use_CheckExt value true", 0, None);
(b "setoption name Use_CheckExt value false", 0, Some (UseCheckExt, (0)%Z));
(b "setoption name Use_CheckExt value 1", 0, Some (UseCheckExt, (1)%Z));
(b "setoption name Use_CheckExt value junk", 0, Some (UseCheckExt, (0)%Z));
(b "setoption name Use_CheckExt", 0, None);
(b "setoption name Use_CheckExt value 77", 0, None);
(b "setoption name Use_CheckExt value -3", 0, None);
(b "setoption name Use_ThreatExt value true", 0, Some (UseThreatExt, (1)%Z));
(b "setoption name Use_ThreatExt value false", 0, Some (UseThreatExt, (0)%Z));
(b "setoption name Use_ThreatExt value 1", 0, Some (UseThreatExt, (1)%Z));
(b "setoption name Use_ThreatExt value junk", 0, Some (UseThreatExt, (0)%Z));
(b "setoption name Use_ThreatExt", 0, None);
(b "setoption name Use_ThreatExt value 77", 0, None);
(b "setoption name Use_ThreatExt value -3", 0, None);
(b "setoption name Eval_Lazy value true", 0, Some (EvalUseLazyEval, (1)%Z));
(b "setoption name Eval_Lazy value false", 0, Some (EvalUseLazyEval, (0)%Z));
(b "setoption name Eval_Lazy value 1", 0, Some (EvalUseLazyEval, (1)%Z));
(b "setoption name Eval_Lazy value junk", 0, Some (EvalUseLazyEval, (0)%Z));
(b "setoption name Eval_Lazy", 0, None);
(b "setoption name Eval_Lazy value 77", 0, None);
(b "setoption name Eval_Lazy value -3", 0, None);
(b "setoption name Eval_Mobility value true", 0, Some (EvalUseMobility, (1)%Z));
(b "setoption name Eval_Mobility value false", 0, Some (EvalUseMobility, (0)%Z));
(b "setoption name Eval_Mobility value 1", 0, Some (EvalUseMobility, (1)%Z));
(b "setoption name Eval_Mobility value junk", 0, Some (EvalUseMobility, (0)%Z));
(b "setoption name Eval_Mobility", 0, None);
(b "setoption name Eval_Mobility value 77", 0, None);
(b "setoption name Eval_Mobility value -3", 0, None);
(b "setoption name Eval_AdvPiece value true", 0, Some (EvalUseAdvancedPieceEval, (1)%Z));
(b "setoption name Eval_AdvPiece value false", 0, Some (EvalUseAdvancedPieceEval, (0)%Z));
(b "setoption name Eval_AdvPiece value 1", 0, Some (EvalUseAdvancedPieceEval, (1)%Z));
(b "setoption name Eval_AdvPiece value junk", 0, Some (EvalUseAdvancedPieceEval, (0)%Z));
(b "setoption name Eval_AdvPiece", 0, None);
(b "setoption name Eval_AdvPiece value 77", 0, None);
(b "setoption name Eval_AdvPiece value -3", 0, None);
(b "setoption name Unknown_Option value true", 2, None);
(b "setoption name Unknown_Option value false", 2, None);
(b "setoption name Unknown_Option value 1", 2, None);
(b "setoption name Unknown_Option value junk", 2, None);
(b "setoption name Unknown_Option", 2, None);
(b "setoption name Unknown_Option value 77", 2, None);
(b "setoption name Unknown_Option value -3", 2, None);
(b "setoption name use_hash value true", 2, None);
(b "setoption name use_hash value false", 2, None);
(b "setoption name use_hash value 1", 2, None);
(b "setoption name use_hash value junk", 2, None);
(b "setoption name use_hash", 2, None);
(b "setoption name use_hash value 77", 2, None);
(b "setoption name use_hash value -3", 2, None);
(b "setoption name Use_Hash extra value true", 2, None);
(b "setoption name Use_Hash extra value false", 2, None);
(b "setoption name Use_Hash extra value 1", 2, None);
(b "setoption name Use_Hash extra value junk", 2, None);
(b "setoption name Use_Hash extra", 2, None);
(b "setoption name Use_Hash extra value 77", 2, None);
(b "setoption name Use_Hash extra value -3", 2, None)].
(* each observation: the info code printed, and the (only) field of Print Config that changed with
   its new value.  Model: the reported code agrees; when a field changed it is the handler's field
   and the value the handler computes; when nothing changed and the option exists, the value the
   handler computes is the one the field already had - checked by replaying the whole sequence *)
Definition all_fields := [UseTT; TTSize; UseBook; UsePonder; UseQuiescence; UseQSTT; UseSEE; UsePromNonQuiet; UsePVS; UseAspiration; UseMTDf; UseIID; UseKiller; UseHistoryCounter; UseCounterMoves; UseRFP; UseNullMove; UseMDP; UseFP; UseLmr; UseLmp; UseExt; UseExtAddDepth; UseCheckExt; UseThreatExt; EvalUseLazyEval; EvalUseMobility; EvalUseAdvancedPieceEval].
Definition from_none : pos -> str -> option mv := fun _ _ => None.
(* replay: unknown initial values are tracked as "unknown" (None) until first assigned *)
Fixpoint replay (cases : list (str * N * option (field * Z))) (known : field -> option Z) : bool :=
  match cases with
  | [] => true
  | (line, code, chg) :: r =>
      match setup start_fen with
      | Ok p =>
        let st := mkust p O (fun f => match known f with Some v => v | None => (-1)%Z end) in
        match handle from_none st line with
        | Done st' out _ =>
            let codes := flat_map (fun o => match o with OInfo c => [c] | _ => [] end) out in
            let code_ok := match codes with [] => code =? 0 | [c] => c =? code | _ => false end in
            (* fields whose model value changed *)
            let changed := filter (fun f => negb (u_cfg st' f =? u_cfg st f)%Z) all_fields in
            let ok := match chg with
                      | Some (f, v) => match changed with [g] => field_eqb f g && (u_cfg st' f =? v)%Z | [] => false | _ => false end
                      | None => match changed with
                                | [] => true
                                | [g] => match known g with None => true | Some _ => false end   (* first assignment of an unknown field to its own value *)
                                | _ => false end
                      end in
            code_ok && ok && replay r (fun f => if existsb (field_eqb f) changed then Some (u_cfg st' f) else
                                               match chg with Some (g, v) => if field_eqb f g then Some v else known f | None => known f end)
        | UPanic => false
        end
      | _ => false
      end
  end.
Example options_observed_agree : replay options_observed (fun _ => None) = true.
Proof. vm_compute. reflexivity. Qed.

Print Assumptions uci_total.
Print Assumptions uci_total_reachable.
Print Assumptions isready_answered.
Print Assumptions position_kept_on_error.
Print Assumptions position_moves_spec.
Print Assumptions position_is_fold.
Print Assumptions setoption_exact.
Print Assumptions apply_handler_frame.
Print Assumptions isready_ws_answered.
Print Assumptions uci_total_notation.
Print Assumptions uci_total_reachable_notation.
Print Assumptions position_moves_spec_notation.
Print Assumptions position_is_fold_notation.
