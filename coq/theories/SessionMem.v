(** * SessionMem — what the engine remembers between two searches (property C12, clause
      "after ucinewgame a fixed-depth search gives the same result as on a freshly started engine")

    Transcribed from
      /repo/internal/search/search.go   type Search struct (:59-92), NewSearch (:100-128), NewGame (:132-138),
                                        StartSearch (:144-165), IsReady (:223-230), ClearHash (:234-245), ResizeCache (:249-264),
                                        run (:273-402: the initialisation part and the book / search split),
                                        iterativeDeepening (:477-482: the only read of hadBookMove),
                                        initialize (:571-605), sendSearchUpdateToUci (:795-801: Hashfull)
      /repo/internal/uci/uci.go         UciHandler (:67-76), NewUciHandler (:88-104), setOptionCommand (:268-297),
                                        isReadyCommand (:301), goCommand (:340-347), positionCommand (:350-434),
                                        uciNewGameCommand (:439-442)
      /repo/internal/uci/ucioption.go   clearCache (:232-235), cacheSize (:243-250), the bool handlers

    DEFINITIONS ONLY (theorems: SessionMemProofs.v).  The hash table is [TTImpl.tt] (the model of property
    C11), the option vector is [UciModel.cfg] with the option table and handlers of UciModel.v.

    ** Classification of the fields of [type Search struct] (the field list is pinned by the source site
       C12/search_struct_fields: a new field breaks the site and forces a re-analysis)

    field              class        read by an untimed depth search?                    reset by
    -----------------  -----------  --------------------------------------------------  ------------------------------------
    log, slog          plumbing     (logging only)                                      -
    uciHandlerPtr      plumbing     output only                                         -
    initSemaphore      plumbing     lifecycle (C14)                                     -
    isRunning          plumbing     lifecycle (C14)                                     -
    book               PERSISTENT   no: run() consults it only if sl.TimeControl (:310)  never (loaded once by initialize)
    tt                 PERSISTENT   yes if Settings.Search.UseTT (Probe/Put/GetEntry);   NewGame: tt.Clear() (contents, ages,
                                    Hashfull() for the periodic info line always         counters); the SIZE only by the Hash
                                                                                        option handler (ResizeCache)
    eval               PERSISTENT   yes (Evaluate) - but the value is independent of    never ([H_eval_pure], C15)
                                    the evaluator's state: C15_eval_step_indep
    history            PERSISTENT   yes (move ordering, if UseHistoryCounter/           NewGame: history.NewHistory()
                                    UseCounterMoves)
    lastSearchResult   PERSISTENT   no (written at the end of run(), read only by the   never (overwritten by the next run())
                                    getter LastSearchResult())
    hadBookMove        PERSISTENT   no: read only as  hadBookMove && TimeControl &&     never by NewGame (set by a book move,
                                    MoveTime == 0  (:477)                                cleared by the next timed search)
    stopFlag           per-search   yes (stopConditions)                                StartSearch :158 (new token per search)
    currentPosition    per-search   addExtraTime only                                   StartSearch :154
    searchLimits       per-search   yes                                                 StartSearch :155
    startTime          per-search   output only (time, nps)                             run :285
    hasResult          per-search   no                                                  run :290
    timeLimit          per-search   timer only                                          run :291
    extraTime          per-search   timer only                                          run :292
    nodesVisited       per-search   yes (node limit, output)                            run :293
    statistics         per-search   yes (depth, current variation: output)              run :295
    lastUciUpdateTime  per-search   output cadence                                      run :296
    mg                 per-search   yes (generators, killers, PV move)                  run :331-340 (fresh generators)
    pv                 per-search   yes                                                 run :331-340 (fresh slices)
    rootMoves          per-search   yes                                                 iterativeDeepening :434, before any read

    State of the UCI handler that the commands of this model touch: myPosition (position, ucinewgame),
    mySearch (one Search per handler), config.Settings (process-global, setoption).  myMoveGen / myPerft are
    used by the move-list parser and by perft only (C17, C01).

    The search proper is the Section variable [search_fn]: everything its result may depend on is an explicit
    argument, so the theorems in SessionMemProofs.v are FRAME theorems: they say which memory reaches the
    search and that ucinewgame puts exactly that memory into the state of a fresh engine. *)

From Coq Require Import ZArith NArith List Bool.
From stdpp Require Import base option fin_maps nmap.
From FG Require TTImpl UciModel FenSpec.
Import ListNotations.

Module T := TTImpl.
Module U := UciModel.

(* ------------------------------------------------------------------------- *)
(** ** config.Settings as the search sees it *)

(** every field an option handler can write (UciModel.field), in declaration order *)
Definition all_fields : list U.field :=
  [ U.UseTT; U.TTSize; U.UseBook; U.UsePonder; U.UseQuiescence; U.UseQSTT; U.UseSEE; U.UsePromNonQuiet;
    U.UsePVS; U.UseAspiration; U.UseMTDf; U.UseIID; U.UseKiller; U.UseHistoryCounter; U.UseCounterMoves;
    U.UseRFP; U.UseNullMove; U.UseMDP; U.UseFP; U.UseLmr; U.UseLmp;
    U.UseExt; U.UseExtAddDepth; U.UseCheckExt; U.UseThreatExt;
    U.EvalUseLazyEval; U.EvalUseMobility; U.EvalUseAdvancedPieceEval ].

(** the option vector: the values of all fields (a [U.cfg] is a function; two command histories that
    lead to the same Settings give the same vector) *)
Definition cfgvec := list Z.
Definition vec_of (c : U.cfg) : cfgvec := map c all_fields.

(* bool fields hold 0 / 1 (UciModel.apply_handler) *)
Definition flag (c : U.cfg) (f : U.field) : bool := negb (c f =? 0)%Z.
Definition use_tt (c : U.cfg) : bool := flag c U.UseTT.        (* config.Settings.Search.UseTT *)
Definition use_book (c : U.cfg) : bool := flag c U.UseBook.    (* config.Settings.Search.UseBook *)

(* search.go:596-599  sizeInMByte := config.Settings.Search.TTSize; if sizeInMByte == 0 { sizeInMByte = 64 } *)
Definition tt_mb (c : U.cfg) : Z := if (c U.TTSize =? 0)%Z then 64%Z else c U.TTSize.

(* ------------------------------------------------------------------------- *)
(** ** history.History (history.go:44-47): HistoryCount [2][64][64]int64, CounterMoves [64][64]Move;
       sparse, an absent index reads 0 / MoveNone *)
Record history := History {
  h_count   : Nmap Z;   (* index (colour*64 + from)*64 + to *)
  h_counter : Nmap N    (* index from*64 + to *)
}.
(* history.go:66  func NewHistory() *History { return &History{} } *)
Definition new_history : history := History ∅ ∅.

Section Session.

(** [position]: a position.Position value including its move history (repetitions);
    [result]: everything a search reports that is not wall-clock time: the info lines without their
              time / nps fields, bestmove and ponder move;
    [bookT]: a loaded opening book; [evalst]: the evaluator object's fields;
    [scratch]: the per-search fields of the Search struct (see the table above). *)
Variables position result bookT evalst scratch : Type.

Variable startpos : position.        (* position.NewPosition() *)
Variable new_eval : evalst.          (* evaluator.NewEvaluator()                          search.go:109 *)
Variable scratch_new : scratch.      (* the per-search fields as NewSearch leaves them    search.go:110-125 *)
Variable scratch_run : scratch.      (* ... as run() sets them before the search starts   search.go:285-296, 331-340 *)
Variable book_load : option bookT.   (* openingbook.NewBook() + Initialize(Settings paths): None on error
                                        (search.go:575-588; path, file and format are not UCI options) *)

(** what a search leaves behind *)
Record outcome := Outcome {
  o_res     : result;
  o_slots   : Nmap T.entry;   (* tt.data *)
  o_count   : N;              (* tt.numberOfEntries *)
  o_hist    : history;
  o_eval    : evalst;
  o_scratch : scratch
}.

(** The search: iterativeDeepening with everything below it (alphabeta.go).  Arguments: the option vector,
    the position, the limits, "extra time is granted" (search.go:477), the table as the search may use it
    (None = no access), the fill level shown by the periodic info line, the history tables, the evaluator
    state, the per-search fields.
    A search cannot replace or resize the table (the only assignments to s.tt are in initialize and
    ResizeCache; alphabeta.go calls Probe / Put / GetEntry only - site C12/tt_access_guarded), so an
    outcome carries the slots and the entry count, not mask and capacity. *)
Variable search_fn :
  cfgvec -> position -> U.limits -> bool -> option T.tt -> N -> history -> evalst -> scratch -> outcome.

(* ------------------------------------------------------------------------- *)
(** ** session state: the persistent fields + the handler's position + Settings *)
Record sstate := SState {
  s_cfg     : U.cfg;            (* config.Settings *)
  s_pos     : position;         (* *u.myPosition *)
  s_book    : option bookT;     (* s.book (nil = None) *)
  s_tt      : option T.tt;      (* s.tt   (nil = None) *)
  s_eval    : evalst;           (* *s.eval *)
  s_hist    : history;          (* *s.history *)
  s_last    : option result;    (* s.lastSearchResult *)
  s_hadBook : bool;             (* s.hadBookMove *)
  s_scratch : scratch           (* the per-search fields *)
}.

Definition set_cfg (s : sstate) (c : U.cfg) : sstate :=
  SState c (s_pos s) (s_book s) (s_tt s) (s_eval s) (s_hist s) (s_last s) (s_hadBook s) (s_scratch s).
Definition set_pos (s : sstate) (p : position) : sstate :=
  SState (s_cfg s) p (s_book s) (s_tt s) (s_eval s) (s_hist s) (s_last s) (s_hadBook s) (s_scratch s).
Definition set_book (s : sstate) (b : option bookT) : sstate :=
  SState (s_cfg s) (s_pos s) b (s_tt s) (s_eval s) (s_hist s) (s_last s) (s_hadBook s) (s_scratch s).
Definition set_tt (s : sstate) (t : option T.tt) : sstate :=
  SState (s_cfg s) (s_pos s) (s_book s) t (s_eval s) (s_hist s) (s_last s) (s_hadBook s) (s_scratch s).
Definition set_hist (s : sstate) (h : history) : sstate :=
  SState (s_cfg s) (s_pos s) (s_book s) (s_tt s) (s_eval s) h (s_last s) (s_hadBook s) (s_scratch s).
Definition set_scratch (s : sstate) (x : scratch) : sstate :=
  SState (s_cfg s) (s_pos s) (s_book s) (s_tt s) (s_eval s) (s_hist s) (s_last s) (s_hadBook s) x.

(** a freshly started engine whose Settings are [c]: NewUciHandler (uci.go:88-104: myPosition =
    NewPosition(), mySearch = NewSearch()) and NewSearch (search.go:100-128: book nil, tt nil,
    eval = NewEvaluator(), history = NewHistory(), lastSearchResult nil, hadBookMove false) *)
Definition boot (c : U.cfg) : sstate :=
  SState c startpos None None new_eval new_history None false scratch_new.

(* search.go:571-605  initialize: the book and the table are created lazily, once *)
Definition initialize (s : sstate) : sstate :=
  let c := s_cfg s in
  let bk := if use_book c                                           (* :573 if config.Settings.Search.UseBook *)
            then match s_book s with None => book_load | Some x => Some x end   (* :574 if s.book == nil *)
            else s_book s in
  let t := if use_tt c                                              (* :594 if config.Settings.Search.UseTT *)
           then match s_tt s with                                   (* :595 if s.tt == nil *)
                | None => Some (T.new_tt (tt_mb c))                 (* :596-600 NewTtTable(sizeInMByte) *)
                | Some x => Some x
                end
           else s_tt s in
  set_tt (set_book s bk) t.

(* search.go:132-138  NewGame: StopSearch(); if s.tt != nil { s.tt.Clear() }; s.history = history.NewHistory()
   uci.go:439-442     uciNewGameCommand: u.myPosition = position.NewPosition(); u.mySearch.NewGame()
   (StopSearch ends a running search: its effects are those of the preceding [StGo] step) *)
Definition newgame_step (s : sstate) : sstate :=
  set_hist (set_tt (set_pos s startpos) (option_map T.clear (s_tt s))) new_history.

(* search.go:234-245  ClearHash (idle): if s.tt != nil { s.tt.Clear() } *)
Definition clear_hash (s : sstate) : sstate := set_tt s (option_map T.clear (s_tt s)).

(* search.go:249-264  ResizeCache (idle): s.tt = nil; s.initialize() *)
Definition resize_cache (s : sstate) : sstate := initialize (set_tt s None).

(* uci.go:268-297 setOptionCommand with the handlers of ucioption.go, while no search is running:
   an unknown name changes nothing; a bool handler writes its Settings field; Hash writes TTSize and
   calls ResizeCache (ucioption.go:243-250); "Clear Hash" calls ClearHash (ucioption.go:232-235); "Print Config" prints *)
Definition setoption_step (name value : FenSpec.str) (s : sstate) : sstate :=
  match U.lookup name U.option_table with
  | None => s
  | Some h =>
      let s1 := set_cfg s (U.apply_handler h value (s_cfg s)) in
      match h with
      | U.HHash => resize_cache s1
      | U.HButton 1%N => clear_hash s1
      | _ => s1
      end
  end.

(* "setoption name Hash value v" arriving WHILE a search is running (not protocol-valid: UCI sends
   setoption only to a waiting engine): cacheSize writes Settings.Search.TTSize (ucioption.go:248), then
   ResizeCache refuses ("Can't resize hash while searching", search.go:250-255): the table keeps its size *)
Definition sethash_busy_step (value : FenSpec.str) (s : sstate) : sstate :=
  set_cfg s (U.apply_handler U.HHash value (s_cfg s)).

(** *** run(): the part before the search (search.go:285-340) *)
Definition run_init (s : sstate) : sstate :=
  let s1 := initialize (set_scratch s scratch_run) in     (* :285-297 per-search fields, then initialize() *)
  set_tt s1 (option_map T.age_entries (s_tt s1)).         (* :323-328 if s.tt != nil { s.tt.AgeEntries() } *)

(* :310  s.book != nil && config.Settings.Search.UseBook && sl.TimeControl *)
Definition book_consulted (s1 : sstate) (l : U.limits) : bool :=
  match s_book s1 with Some _ => true | None => false end && use_book (s_cfg s1) && U.l_timecontrol l.

(* :477  s.hadBookMove && s.searchLimits.TimeControl && s.searchLimits.MoveTime == 0 *)
Definition extra_granted (s1 : sstate) (l : U.limits) : bool :=
  s_hadBook s1 && U.l_timecontrol l && (U.l_movetime l =? 0)%Z.

(* every Probe / Put / GetEntry of the search is guarded by Settings.Search.UseTT (alphabeta.go:232, 360,
   769, 845, 1056, 1074, 1094; search.go:552 for the ponder move): with UseTT off an existing table is not touched *)
Definition tt_view (s1 : sstate) : option T.tt := if use_tt (s_cfg s1) then s_tt s1 else None.

(* search.go:798-801  hashfull := 0; if s.tt != nil { hashfull = s.tt.Hashfull() }  (also with UseTT off) *)
Definition hashfull_view (s1 : sstate) : N :=
  match s_tt s1 with Some t => T.hashfull t | None => 0%N end.

Definition call_search (s1 : sstate) (l : U.limits) : outcome :=
  search_fn (vec_of (s_cfg s1)) (s_pos s1) l (extra_granted s1 l) (tt_view s1) (hashfull_view s1)
            (s_hist s1) (s_eval s1) (s_scratch s1).

(** the result of "go" with limits [l] in state [s]; [bk] = what the book look-up yields if the book is
    consulted (the move is chosen at random, search.go:313-317) *)
Definition run_search (s : sstate) (l : U.limits) (bk : option result) : result :=
  let s1 := run_init s in
  match (if book_consulted s1 l then bk else None) with
  | Some r => r                                           (* :351-355 result from the book, no search *)
  | None => o_res (call_search s1 l)                      (* :348-350 iterativeDeepening *)
  end.

(** the state after a search that left [out] behind.  [out] is arbitrary: this covers searches of every
    kind (timed, stopped, pondering, disturbed by a setoption during the search), not only what
    [search_fn] computes; mask and capacity of the table are kept *)
Definition store_outcome (s1 : sstate) (l : U.limits) (out : outcome) : sstate :=
  SState (s_cfg s1) (s_pos s1) (s_book s1)
         (option_map (fun t => T.TT (o_slots out) (T.mask t) (T.cap t) (o_count out)) (s_tt s1))
         (o_eval out) (o_hist out)
         (Some (o_res out))                               (* :385 s.lastSearchResult = searchResult *)
         (if extra_granted s1 l then false else s_hadBook s1)   (* :481 s.hadBookMove = false *)
         (o_scratch out).

Definition go_step (l : U.limits) (bk : option result) (out : outcome) (s : sstate) : sstate :=
  let s1 := run_init s in
  match (if book_consulted s1 l then bk else None) with
  | Some r =>                                             (* :351-355 *)
      SState (s_cfg s1) (s_pos s1) (s_book s1) (s_tt s1) (s_eval s1) (s_hist s1)
             (Some r) true (s_scratch s1)                 (* s.hadBookMove = true *)
  | None => store_outcome s1 l out
  end.

(** the search run by [search_fn] itself is one of these steps *)
Definition go_fn_step (l : U.limits) (bk : option result) (s : sstate) : sstate :=
  go_step l bk (call_search (run_init s) l) s.

(* ------------------------------------------------------------------------- *)
(** ** sessions *)
Inductive step :=
| StPosition (p : position)                     (* an accepted position command: u.myPosition = p *)
| StSetOption (name value : FenSpec.str)        (* setoption while the engine is waiting *)
| StSetHashBusy (value : FenSpec.str)           (* setoption name Hash during a search (not protocol-valid) *)
| StIsReady                                     (* search.go:223-230 IsReady: s.initialize() *)
| StGo (l : U.limits) (bk : option result) (out : outcome)   (* go, up to the result *)
| StNewGame.                                    (* ucinewgame *)

Definition do_step (s : sstate) (st : step) : sstate :=
  match st with
  | StPosition p => set_pos s p
  | StSetOption n v => setoption_step n v s
  | StSetHashBusy v => sethash_busy_step v s
  | StIsReady => initialize s
  | StGo l bk out => go_step l bk out s
  | StNewGame => newgame_step s
  end.

Definition run_steps (s : sstate) (sts : list step) : sstate := fold_left do_step sts s.

(** protocol-valid: no option is set while a search is running *)
Definition valid_step (st : step) : bool := match st with StSetHashBusy _ => false | _ => true end.
(** commands between ucinewgame and the go that do not search *)
Definition quiet_step (st : step) : bool :=
  match st with StPosition _ | StSetOption _ _ | StIsReady => true | _ => false end.

(** an untimed depth-limited search: "go depth d" (possibly with a node limit or searchmoves) *)
Definition untimed_depth (l : U.limits) : Prop :=
  U.l_timecontrol l = false /\ U.l_infinite l = false /\ U.l_ponder l = false /\ (0 < U.l_depth l)%Z.

Definition depth_limits (d : Z) : U.limits :=
  U.mklimits false false d 0 0 0 0 0 0 0 0 false [].

(** the same search on a freshly started engine with option vector [c]:
    position p ; go *)
Definition fresh_result (c : U.cfg) (p : position) (l : U.limits) (bk : option result) : result :=
  run_search (set_pos (boot c) p) l bk.

End Session.

(** the type parameters are implicit from here on *)
Arguments Outcome {result evalst scratch}.
Arguments o_res {result evalst scratch}.
Arguments o_slots {result evalst scratch}.
Arguments o_count {result evalst scratch}.
Arguments o_hist {result evalst scratch}.
Arguments o_eval {result evalst scratch}.
Arguments o_scratch {result evalst scratch}.
Arguments SState {position result bookT evalst scratch}.
Arguments s_cfg {position result bookT evalst scratch}.
Arguments s_pos {position result bookT evalst scratch}.
Arguments s_book {position result bookT evalst scratch}.
Arguments s_tt {position result bookT evalst scratch}.
Arguments s_eval {position result bookT evalst scratch}.
Arguments s_hist {position result bookT evalst scratch}.
Arguments s_last {position result bookT evalst scratch}.
Arguments s_hadBook {position result bookT evalst scratch}.
Arguments s_scratch {position result bookT evalst scratch}.
Arguments set_cfg {position result bookT evalst scratch}.
Arguments set_pos {position result bookT evalst scratch}.
Arguments set_book {position result bookT evalst scratch}.
Arguments set_tt {position result bookT evalst scratch}.
Arguments set_hist {position result bookT evalst scratch}.
Arguments set_scratch {position result bookT evalst scratch}.
Arguments boot {position result bookT evalst scratch}.
Arguments initialize {position result bookT evalst scratch}.
Arguments newgame_step {position result bookT evalst scratch}.
Arguments clear_hash {position result bookT evalst scratch}.
Arguments resize_cache {position result bookT evalst scratch}.
Arguments setoption_step {position result bookT evalst scratch}.
Arguments sethash_busy_step {position result bookT evalst scratch}.
Arguments run_init {position result bookT evalst scratch}.
Arguments book_consulted {position result bookT evalst scratch}.
Arguments extra_granted {position result bookT evalst scratch}.
Arguments tt_view {position result bookT evalst scratch}.
Arguments hashfull_view {position result bookT evalst scratch}.
Arguments call_search {position result bookT evalst scratch}.
Arguments run_search {position result bookT evalst scratch}.
Arguments store_outcome {position result bookT evalst scratch}.
Arguments go_step {position result bookT evalst scratch}.
Arguments go_fn_step {position result bookT evalst scratch}.
Arguments StPosition {position result evalst scratch}.
Arguments StSetOption {position result evalst scratch}.
Arguments StSetHashBusy {position result evalst scratch}.
Arguments StIsReady {position result evalst scratch}.
Arguments StGo {position result evalst scratch}.
Arguments StNewGame {position result evalst scratch}.
Arguments do_step {position result bookT evalst scratch}.
Arguments run_steps {position result bookT evalst scratch}.
Arguments valid_step {position result evalst scratch}.
Arguments quiet_step {position result evalst scratch}.
Arguments fresh_result {position result bookT evalst scratch}.

(* ------------------------------------------------------------------------- *)
(** ** the shape of a table: capacity and index mask of NewTtTable(mb) *)
Definition mask_of (c : N) : N := if (c =? 0)%N then 0%N else (c - 1)%N.
Definition shape (mb : Z) (t : T.tt) : Prop :=
  T.cap t = T.capacity mb /\ T.mask t = mask_of (T.capacity mb).

(** operations a search or a session applies to an existing table: everything but Resize *)
Definition keeps_size (o : T.op) : bool := match o with T.OResize _ => false | _ => true end.

(* ------------------------------------------------------------------------- *)
(** ** a small concrete instance (for the non-vacuity example and the refuted twin):
       positions are keys, the "search" stores [depth] entries under consecutive keys, looks two of them up
       and reports hits, the entry count, the history counter of its position and the number of probes *)
Definition toy_result := (list T.obs * N * Z)%type.

Definition toy_puts (t : T.tt) (p : N) (d : Z) : T.tt :=
  fold_left (fun t i => T.put t (p + 65536 * N.of_nat i)%N (p + 1)%N (d - Z.of_nat i) 17%Z 1%N false)
            (seq 0 (Z.to_nat d)) t.

Definition toy_search (_ : cfgvec) (p : N) (l : U.limits) (_ : bool) (view : option T.tt) (hf : N)
           (h : history) (e : N) (_ : unit) : outcome toy_result N unit :=
  let d := U.l_depth l in
  let hc := default 0%Z (h_count h !! p) in
  let h' := History (<[p := (hc + 1)%Z]> (h_count h)) (h_counter h) in
  match view with
  | None => Outcome ([], hf, hc) ∅ 0%N h' (e + 1)%N tt
  | Some t =>
      let t1 := toy_puts t p d in
      let '(t2, r1) := T.probe t1 p in
      let '(t3, r2) := T.probe t2 (p + 65536)%N in
      Outcome ([T.obs_of_entry r1; T.obs_of_entry r2], T.len t3, hc)
              (T.slots t3) (T.count t3) h' (e + 1)%N tt
  end.

(** Settings of the toy engine: every switch on, Hash 64 *)
Definition toy_cfg : U.cfg := fun f => match f with U.TTSize => 64%Z | _ => 1%Z end.
